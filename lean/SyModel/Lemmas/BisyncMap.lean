/-
  Lemmas about the finite maps of the bisync model: `aget/aset/aerase`, the state table,
  `dedup`, `lookup` into scans and `load_all`, membership in `allPaths`.
-/
import SyModel.Bisync.Spec
namespace SyModel.Bisync

section amap
variable {κ β : Type} [DecidableEq κ]

theorem aget_aerase (k k' : κ) (m : List (κ × β)) :
    aget k' (aerase k m) = if k' = k then none else aget k' m := by
  induction m with
  | nil => simp [aerase, aget]
  | cons kv t ih =>
    obtain ⟨a, v⟩ := kv
    unfold aerase at ih ⊢
    by_cases h : a = k
    · subst h
      simp only [List.filter, ne_eq, not_true_eq_false, decide_false]
      rw [ih]
      by_cases h2 : k' = a
      · simp [h2]
      · have : ¬ a = k' := fun e => h2 e.symm
        simp [h2, aget, this]
    · simp only [List.filter, ne_eq, h, not_false_eq_true, decide_true]
      by_cases h2 : a = k'
      · subst h2; simp [aget, h]
      · simp only [aget, h2, if_false]; exact ih

theorem aget_aset (k k' : κ) (v : β) (m : List (κ × β)) :
    aget k' (aset k v m) = if k' = k then some v else aget k' m := by
  unfold aset
  by_cases h : k = k'
  · subst h; simp [aget]
  · have h' : ¬ k' = k := fun e => h e.symm
    simp [aget, h, h', aget_aerase]

theorem aget_eq_none_iff (k : κ) (m : List (κ × β)) : aget k m = none ↔ k ∉ m.map (·.1) := by
  induction m with
  | nil => simp [aget]
  | cons kv t ih =>
    obtain ⟨a, v⟩ := kv
    by_cases h : a = k
    · subst h; simp [aget]
    · have h' : ¬ k = a := fun e => h e.symm
      simp [aget, h, h', ih]

theorem aget_ne_none_iff (k : κ) (m : List (κ × β)) : aget k m ≠ none ↔ k ∈ m.map (·.1) := by
  rw [Ne, aget_eq_none_iff]; simp

end amap

theorem aget_delete (p q : Path) (s : Side) (db : Db) :
    aget (q, s) (Db.delete p db) = if q = p then none else aget (q, s) db := by
  induction db with
  | nil => simp [Db.delete, aget]
  | cons kv t ih =>
    obtain ⟨⟨a, sa⟩, v⟩ := kv
    unfold Db.delete at ih ⊢
    by_cases h : a = p
    · subst h
      simp only [List.filter, ne_eq, not_true_eq_false, decide_false]
      rw [ih]
      by_cases h2 : q = a
      · simp [h2]
      · have : ¬ (a, sa) = (q, s) := fun e => h2 (by cases e; rfl)
        simp [h2, aget, this]
    · simp only [List.filter, ne_eq, h, not_false_eq_true, decide_true]
      by_cases h2 : (a, sa) = (q, s)
      · cases h2; simp [aget, h]
      · simp only [aget, h2, if_false]; exact ih

/-! ### dedup -/

theorem mem_dedup (a : Path) (l : List Path) : a ∈ dedup l ↔ a ∈ l := by
  induction l with
  | nil => simp [dedup]
  | cons b t ih =>
    unfold dedup
    by_cases h : b ∈ t
    · simp only [h, if_true, ih, List.mem_cons]
      constructor
      · intro h1; exact Or.inr h1
      · rintro (rfl | h1)
        · exact h
        · exact h1
    · simp [h, ih]

theorem nodup_dedup (l : List Path) : (dedup l).Nodup := by
  induction l with
  | nil => simp [dedup]
  | cons b t ih =>
    unfold dedup
    by_cases h : b ∈ t
    · simp [h, ih]
    · rw [if_neg h, List.nodup_cons, mem_dedup]
      exact ⟨h, ih⟩

/-! ### lookups of the classifier -/

theorem lookup_eq_aget {β : Type} (p : Path) (m : List (Path × β)) : lookup p m = aget p m := by
  induction m with
  | nil => rfl
  | cons kv t ih => obtain ⟨a, v⟩ := kv; simp [lookup, aget, ih]

theorem aget_map_snd {β γ : Type} (f : β → γ) (p : Path) (m : List (Path × β)) :
    aget p (m.map fun kv => (kv.1, f kv.2)) = (aget p m).map f := by
  induction m with
  | nil => rfl
  | cons kv t ih =>
    obtain ⟨a, v⟩ := kv
    by_cases h : a = p
    · simp [aget, h]
    · simp [aget, h, ih]

theorem lookup_scan (p : Path) (r : Root) : lookup p (scan r) = (aget p r).map File.entry := by
  rw [lookup_eq_aget]; unfold scan; exact aget_map_snd File.entry p r

theorem scan_keys (r : Root) : (scan r).map (·.1) = r.map (·.1) := by
  unfold scan; simp

theorem mem_db_paths (p : Path) (db : Db) :
    p ∈ db.map (·.1.1) ↔ aget (p, Side.source) db ≠ none ∨ aget (p, Side.dest) db ≠ none := by
  rw [aget_ne_none_iff, aget_ne_none_iff]
  simp only [List.mem_map]
  constructor
  · rintro ⟨⟨⟨a, s⟩, v⟩, hm, rfl⟩
    cases s
    · exact Or.inl ⟨_, hm, rfl⟩
    · exact Or.inr ⟨_, hm, rfl⟩
  · rintro (⟨⟨⟨a, s⟩, v⟩, hm, he⟩ | ⟨⟨⟨a, s⟩, v⟩, hm, he⟩) <;>
    · cases he; exact ⟨_, hm, rfl⟩

theorem loadAll_keys (db : Db) : db.loadAll.map (·.1) = dedup (db.map (·.1.1)) := by
  unfold Db.loadAll; simp [Function.comp_def]

theorem aget_map_self {γ : Type} (f : Path → γ) (p : Path) (l : List Path) :
    aget p (l.map fun q => (q, f q)) = if p ∈ l then some (f p) else none := by
  induction l with
  | nil => simp [aget]
  | cons a t ih =>
    by_cases h : a = p
    · subst h; simp [aget]
    · have h' : ¬ p = a := fun e => h e.symm
      simp [aget, h, h', ih]

theorem aget_loadAll (p : Path) (db : Db) :
    aget p db.loadAll =
      if p ∈ db.map (·.1.1) then some (aget (p, Side.source) db, aget (p, Side.dest) db) else none := by
  unfold Db.loadAll
  rw [aget_map_self (fun p => (aget (p, Side.source) db, aget (p, Side.dest) db))]
  simp only [mem_dedup]

/-- `prior.and_then(|(s, _)| s.as_ref())` is the source row; likewise the dest row. -/
theorem prior_source (p : Path) (db : Db) :
    (lookup p db.loadAll).bind (·.1) = aget (p, Side.source) db := by
  rw [lookup_eq_aget, aget_loadAll]
  by_cases h : p ∈ db.map (·.1.1)
  · simp [h]
  · have h2 : aget (p, Side.source) db = none := by
      apply Classical.byContradiction; intro hc
      exact h ((mem_db_paths p db).mpr (Or.inl hc))
    simp [h, h2]

theorem prior_dest (p : Path) (db : Db) :
    (lookup p db.loadAll).bind (·.2) = aget (p, Side.dest) db := by
  rw [lookup_eq_aget, aget_loadAll]
  by_cases h : p ∈ db.map (·.1.1)
  · simp [h]
  · have h2 : aget (p, Side.dest) db = none := by
      apply Classical.byContradiction; intro hc
      exact h ((mem_db_paths p db).mpr (Or.inr hc))
    simp [h, h2]

theorem mem_allPaths (w : World) (p : Path) :
    p ∈ w.allPaths ↔ aget p w.left ≠ none ∨ aget p w.right ≠ none ∨
      aget (p, Side.source) w.db ≠ none ∨ aget (p, Side.dest) w.db ≠ none := by
  unfold World.allPaths allPathsOf
  rw [mem_dedup, List.mem_append, List.mem_append, scan_keys, scan_keys, loadAll_keys, mem_dedup,
    mem_db_paths]
  simp only [aget_ne_none_iff, or_assoc]

theorem nodup_allPaths (w : World) : w.allPaths.Nodup := nodup_dedup _

end SyModel.Bisync
