/-
  Fault containment in its strong form: whether the task of a selected entry completes depends
  only on the prior destination along its own path — not on faults that hit tasks elsewhere.
-/
import SyModel.Lemmas.EngineEvents
namespace SyModel.Engine

/-! ### when does `mkdirAll` succeed -/

theorem foldl_mkStep_some (qs : List Path) (d0 : Map DNode)
    (h : ∀ x ∈ qs, x ≠ [] → d0.get? x = none ∨ d0.get? x = some .dir) :
    ∃ d, qs.foldl mkStep (some d0) = some d := by
  induction qs generalizing d0 with
  | nil => exact ⟨d0, rfl⟩
  | cons q qs ih =>
    rw [List.foldl_cons]
    by_cases hq : q = []
    · have hs : mkStep (some d0) q = some d0 := by simp [mkStep, hq]
      rw [hs]; exact ih d0 (fun x hx => h x (List.mem_cons_of_mem _ hx))
    · rcases h q (List.mem_cons_self ..) hq with hg | hg
      · have hs : mkStep (some d0) q = some (d0.set q .dir) := by simp [mkStep, hq, hg]
        rw [hs]
        apply ih
        intro x hx hne
        rw [Map.get?_set]
        split
        · exact Or.inr rfl
        · exact h x (List.mem_cons_of_mem _ hx) hne
      · have hs : mkStep (some d0) q = some d0 := by simp [mkStep, hq, hg]
        rw [hs]; exact ih d0 (fun x hx => h x (List.mem_cons_of_mem _ hx))

theorem mkdirAll_some (dst : Map DNode) (p : Path)
    (h : ∀ x, x ≠ [] → isPrefix x p = true → dst.get? x = none ∨ dst.get? x = some .dir) :
    ∃ d, mkdirAll dst p = some d := by
  rw [mkdirAll_eq]
  apply foldl_mkStep_some
  intro x hx hne
  rcases mem_chain_self.1 hx with ⟨_, hp⟩ | he
  · exact h x hne hp
  · exact h x hne (he ▸ isPrefix_refl _)

/-- every non-root strict ancestor of `p` is absent or a directory -/
def AncOK (s : Map DNode) (p : Path) : Prop :=
  ∀ x, x ≠ [] → isPrefix x p = true → x ≠ p → s.get? x = none ∨ s.get? x = some .dir

/-- the own path admits the payload -/
def OwnOK (s : Map DNode) (t : Task) : Prop :=
  match t.payload with
  | .nothing => True
  | .dir => s.get? t.rel = none ∨ s.get? t.rel = some .dir
  | _ => s.get? t.rel ≠ some .dir

theorem mkdirAll_parent_some {s : Map DNode} {p : Path} (h : AncOK s p) (hp : p ≠ []) :
    ∃ d, mkdirAll s (parentOf p) = some d ∧ d.get? p = s.get? p ∧
      (∀ q, s.get? q ≠ none → d.get? q = s.get? q) := by
  obtain ⟨d, hd⟩ := mkdirAll_some s (parentOf p) (by
    intro x hx hpx
    apply h x hx (isPrefix_trans hpx (parentOf_isPrefix p))
    intro he; subst he
    exact parentOf_ne hp (isPrefix_antisymm (parentOf_isPrefix x) hpx))
  refine ⟨d, hd, ?_, fun q hq => ?_⟩
  · rcases mkdirAll_frame hd p with h1 | ⟨_, hpp, _, _⟩
    · exact h1
    · exact absurd (isPrefix_antisymm (parentOf_isPrefix p) hpp) (parentOf_ne hp)
  · rcases mkdirAll_frame hd q with h1 | ⟨_, _, hn, _⟩
    · exact h1
    · exact absurd hn hq

theorem ancOK_of_parent {s d : Map DNode} {p : Path} (h : mkdirAll s (parentOf p) = some d) : AncOK s p :=
  fun x hx hpx hne => mkdirAll_pre h x hx (isPrefix_parentOf hpx hne)

theorem get?_of_parent {s d : Map DNode} {p : Path} (h : mkdirAll s (parentOf p) = some d) (hp : p ≠ []) :
    d.get? p = s.get? p := by
  rcases mkdirAll_frame h p with h1 | ⟨_, hpp, _, _⟩
  · exact h1
  · exact absurd (isPrefix_antisymm (parentOf_isPrefix p) hpp) (parentOf_ne hp)

/-- necessary conditions for a create/update to complete -/
theorem performCU_necessary {cfg : Cfg} {w w' : World} {t : Task} (h : performCU cfg w t = some w')
    (hp : t.rel ≠ []) : t.payload = .nothing ∨ (AncOK w.dst t.rel ∧ OwnOK w.dst t) := by
  unfold performCU at h
  unfold OwnOK
  cases hpl : t.payload with
  | nothing => exact Or.inl rfl
  | dir =>
    right
    simp only [hpl] at h
    cases hm : mkdirAll w.dst t.rel with
    | none => simp [hm] at h
    | some d =>
      exact ⟨fun x hx hpx _ => mkdirAll_pre hm x hx hpx, mkdirAll_pre hm t.rel hp (isPrefix_refl _)⟩
  | symlink text =>
    right
    simp only [hpl] at h
    obtain ⟨d, hm, hnd, _⟩ := writeSymlink_spec h
    exact ⟨ancOK_of_parent hm, by rw [← get?_of_parent hm hp]; exact hnd⟩
  | file m n =>
    right
    simp only [hpl] at h
    have hwf : ∀ w1, writeFile cfg w t.rel m = some w1 → AncOK w.dst t.rel ∧ w.dst.get? t.rel ≠ some .dir := by
      intro w1 h1
      obtain ⟨d, _, hm, hnd, _⟩ := writeFile_spec h1
      exact ⟨ancOK_of_parent hm, by rw [← get?_of_parent hm hp]; exact hnd⟩
    split at h
    · split at h
      · split at h
        · obtain ⟨d, fm, hm, hnone, _⟩ := linkFile_spec h
          exact ⟨ancOK_of_parent hm, by rw [← get?_of_parent hm hp, hnone]; simp⟩
        · obtain ⟨d, fm, hm, hnd, _⟩ := relinkFile_spec h
          exact ⟨ancOK_of_parent hm, by rw [← get?_of_parent hm hp]; exact hnd⟩
      · cases h1 : writeFile cfg w t.rel m with
        | none => simp [h1] at h
        | some w1 => exact hwf w1 h1
    · exact hwf w' h

theorem writeFile_some {cfg : Cfg} {w : World} {p : Path} {m : FileMeta} (hp : p ≠ []) (ha : AncOK w.dst p)
    (ho : w.dst.get? p ≠ some .dir) : ∃ w', writeFile cfg w p m = some w' := by
  obtain ⟨d, hd, hg, _⟩ := mkdirAll_parent_some ha hp
  unfold writeFile
  simp only [hd]
  cases hgp : d.get? p with
  | none => exact ⟨_, rfl⟩
  | some v =>
    cases v with
    | dir => rw [hg] at hgp; exact absurd hgp ho
    | file o => exact ⟨_, rfl⟩
    | symlink s => exact ⟨_, rfl⟩

/-- sufficient conditions for a create/update to complete -/
theorem performCU_sufficient {cfg : Cfg} {w : World} {t : Task} (hp : t.rel ≠ [])
    (ha : AncOK w.dst t.rel) (ho : OwnOK w.dst t)
    (hcr : ∀ m n, t.payload = .file m n → t.act = .create → w.dst.get? t.rel = none)
    (hlm : ∀ x ∈ w.linkMap, ∃ fm, w.dst.get? x.2.1 = some (.file fm)) :
    ∃ w', performCU cfg w t = some w' := by
  unfold performCU
  unfold OwnOK at ho
  cases hpl : t.payload with
  | nothing => exact ⟨w, rfl⟩
  | dir =>
    simp only [hpl] at ho ⊢
    obtain ⟨d, hd⟩ := mkdirAll_some w.dst t.rel (by
      intro x hx hpx
      by_cases he : x = t.rel
      · rw [he]; exact ho
      · exact ha x hx hpx he)
    exact ⟨_, by rw [hd]; rfl⟩
  | symlink text =>
    simp only [hpl] at ho ⊢
    obtain ⟨d, hd, hg, _⟩ := mkdirAll_parent_some ha hp
    unfold writeSymlink
    simp only [hd]
    cases hgp : d.get? t.rel with
    | none => exact ⟨_, rfl⟩
    | some v =>
      cases v with
      | dir => rw [hg] at hgp; exact absurd hgp ho
      | file o => exact ⟨_, rfl⟩
      | symlink s => exact ⟨_, rfl⟩
  | file m n =>
    simp only [hpl] at ho ⊢
    split
    · rename_i hc
      simp only [Bool.and_eq_true, decide_eq_true_eq] at hc
      split
      · rename_i i first j hfind
        obtain ⟨d, hd, hg, hkeep⟩ := mkdirAll_parent_some ha hp
        obtain ⟨fm, hfm⟩ := hlm _ (List.mem_of_find?_eq_some hfind)
        simp only at hfm
        have h2 : d.get? first = some (.file fm) := by rw [hkeep first (by rw [hfm]; simp), hfm]
        by_cases hact : t.act = .create
        · have h1 : d.get? t.rel = none := by rw [hg]; exact hcr m n hpl hact
          rw [if_pos hact]
          unfold linkFile
          simp only [hd, h1, h2]
          exact ⟨_, rfl⟩
        · have h1 : d.get? t.rel ≠ some .dir := by rw [hg]; exact ho
          rw [if_neg hact]
          unfold relinkFile
          simp only [hd, h2]
          cases hgp : d.get? t.rel with
          | none => exact ⟨_, rfl⟩
          | some v =>
            cases v with
            | dir => exact absurd hgp h1
            | file o => exact ⟨_, rfl⟩
            | symlink s' => exact ⟨_, rfl⟩
      · obtain ⟨w1, h1⟩ := writeFile_some (cfg := cfg) (m := m) hp ha ho
        exact ⟨_, by rw [h1]; rfl⟩
    · exact writeFile_some hp ha ho

/-! ### the state along a path before a task, under any fault plan -/

/-- a path at which every task of `ts` is unfaulted and at most makes a directory keeps its
    node, except that an absent one may become a directory -/
theorem foldl_frame_benign (cfg : Cfg) (flt : Faults) (ts : List Task) (st : Exec) (x : Path)
    (h : ∀ t ∈ ts, (t.act = .delete → isPrefix t.rel x = false) ∧
      (t.rel = x → faultOf cfg flt t = none ∧ (t.act = .skip ∨ t.payload = .nothing ∨ t.payload = .dir))) :
    (ts.foldl (execTask cfg flt) st).w.dst.get? x = st.w.dst.get? x ∨
      (st.w.dst.get? x = none ∧ (ts.foldl (execTask cfg flt) st).w.dst.get? x = some .dir) := by
  induction ts generalizing st with
  | nil => exact Or.inl rfl
  | cons t ts ih =>
    rw [List.foldl_cons]
    obtain ⟨hd, hb⟩ := h t (List.mem_cons_self ..)
    have ih' := ih (execTask cfg flt st t) (fun t' ht' => h t' (List.mem_cons_of_mem _ ht'))
    have step : (execTask cfg flt st t).w.dst.get? x = st.w.dst.get? x ∨
        (st.w.dst.get? x = none ∧ (execTask cfg flt st t).w.dst.get? x = some .dir) := by
      by_cases hr : t.rel = x
      · obtain ⟨hf, hben⟩ := hb hr
        have hnd : t.act ≠ .delete := by
          intro hdel; have := hd hdel; rw [hr, isPrefix_refl] at this; cases this
        rcases execTask_cases cfg flt st t with ⟨g, hf', _⟩ | ⟨_, w', hp, he⟩ | ⟨_, _, he⟩
        · rw [hf] at hf'; cases hf'
        · rw [he]
          by_cases hdry : cfg.dryRun = true
          · rw [perform_dry cfg hdry] at hp; cases hp; exact Or.inl rfl
          · simp only [Bool.not_eq_true] at hdry
            by_cases hs : t.act = .skip
            · rw [perform_skip hs] at hp; cases hp; exact Or.inl rfl
            · rw [perform_cu hs hnd hdry] at hp
              rcases hben with h1 | h1 | h1
              · exact absurd h1 hs
              · rw [performCU_nothing h1 hp]; exact Or.inl rfl
              · unfold performCU at hp
                simp only [h1] at hp
                cases hm : mkdirAll st.w.dst t.rel with
                | none => simp [hm] at hp
                | some d =>
                  simp only [hm, Option.map_some, Option.some.injEq] at hp; subst hp
                  rcases mkdirAll_frame hm x with h2 | ⟨_, _, h3, h4⟩
                  · exact Or.inl h2
                  · exact Or.inr ⟨h3, h4⟩
        · rw [he]; exact Or.inl rfl
      · rcases execTask_frame cfg flt st t x hr hd with h1 | ⟨a, b, _⟩
        · exact Or.inl h1
        · exact Or.inr ⟨a, b⟩
    rcases step with s1 | ⟨s1, s2⟩
    · rcases ih' with h2 | ⟨h2, h3⟩
      · exact Or.inl (h2.trans s1)
      · exact Or.inr ⟨s1 ▸ h2, h3⟩
    · rcases ih' with h2 | ⟨h2, _⟩
      · exact Or.inr ⟨s1, h2.trans s2⟩
      · rw [s2] at h2; cases h2

/-! ### completion does not depend on faults elsewhere -/

/-- the fault plan spares the tasks at and above `p` -/
def SparesPath (cfg : Cfg) (flt : Faults) (ts : List Task) (p : Path) : Prop :=
  ∀ t ∈ ts, isPrefix t.rel p = true → faultOf cfg flt t = none

theorem sparesPath_noFaults (cfg : Cfg) (ts : List Task) (p : Path) : SparesPath cfg noFaults ts p :=
  fun t _ _ => faultOf_noFaults cfg t

/-- the state along the path of a selected entry just before its task, under a sparing plan -/
theorem pre_state_along {cfg : Cfg} (flt : Faults) {scan : List SEntry} {dst : Map DNode} (n : Nat)
    (hu : UniqueRels scan) (hc : ParentClosed scan) (hroot : cfg.delete = true → dst.get? [] = none)
    {e : SEntry} (he : e ∈ scanFilter cfg scan) {pre post : List Task}
    (hts : plan cfg scan dst = pre ++ planEntry cfg dst e :: post)
    (hsp : SparesPath cfg flt (plan cfg scan dst) e.rel) :
    (∀ x, x ≠ [] → isPrefix x e.rel = true → x ≠ e.rel →
      (pre.foldl (execTask cfg flt) (initExec dst n)).w.dst.get? x = dst.get? x ∨
        (dst.get? x = none ∧ (pre.foldl (execTask cfg flt) (initExec dst n)).w.dst.get? x = some .dir)) ∧
    ((pre.foldl (execTask cfg flt) (initExec dst n)).w.dst.get? e.rel = dst.get? e.rel ∨
      (dst.get? e.rel = none ∧ (pre.foldl (execTask cfg flt) (initExec dst n)).w.dst.get? e.rel = some .dir ∧
        e.kind = .dir)) := by
  have hes := mem_of_mem_scanFilter he
  have hpw := plan_pairwise cfg scan dst hu (fun h => ⟨hc, hroot h⟩)
  rw [hts, List.pairwise_append] at hpw
  obtain ⟨_, _, hcross⟩ := hpw
  have hmem : ∀ a ∈ pre, a ∈ plan cfg scan dst := fun a ha => by rw [hts]; exact List.mem_append_left _ ha
  have hnd : (planEntry cfg dst e).act ≠ .delete := planEntry_act_ne_delete _ _ _
  have hpre : ∀ a ∈ pre, a.act ≠ .delete ∧ a.rel ≠ e.rel := by
    intro a ha
    have hl := hcross a ha _ (List.mem_cons_self ..)
    have had : a.act ≠ .delete := fun h => hnd (hl.2 h)
    refine ⟨had, fun h => (hl.1 had).1 ?_⟩
    rw [planEntry_rel]; exact h.symm
  constructor
  · intro x hx hpx hxe
    obtain ⟨d, hd, hdr, hdk⟩ := hc.anc hes hx hpx hxe
    apply foldl_frame_benign
    intro a ha
    refine ⟨fun hdel => absurd hdel (hpre a ha).1, fun hr => ⟨hsp a (hmem a ha) (hr ▸ hpx), ?_⟩⟩
    obtain ⟨s, hs, rfl⟩ := entry_of_task (hmem a ha) (hpre a ha).1
    rw [planEntry_rel] at hr
    have := hu.eq_of_rel (mem_of_mem_scanFilter hs) hd (hr.trans hdr.symm)
    subst this
    exact Or.inr (Or.inr (planEntry_payload_dir hdk))
  · rcases foldl_frame cfg flt pre (initExec dst n) e.rel
      (fun a ha => ⟨(hpre a ha).2, fun h => absurd h (hpre a ha).1⟩) with h | ⟨a1, a2, a3, t', ht', hp', _⟩
    · exact Or.inl h
    · refine Or.inr ⟨a1, a2, ?_⟩
      obtain ⟨s, hs, rfl⟩ := entry_of_task (hmem t' ht') (hpre t' ht').1
      rw [planEntry_rel] at hp'
      have hne : e.rel ≠ s.rel := by
        intro h; exact (hpre _ ht').2 (by rw [planEntry_rel]; exact h.symm)
      exact anc_is_dir hu hc hes (mem_of_mem_scanFilter hs) a3 hp' hne

/-- **whether the task of a selected entry completes is the same under any two fault plans that
    spare the tasks at and above its path** -/
theorem taskOk_transfer {cfg : Cfg} (hdry : cfg.dryRun = false) (f1 f2 : Faults) {scan : List SEntry}
    {dst : Map DNode} (n : Nat) (hu : UniqueRels scan) (hc : ParentClosed scan)
    (hroot : cfg.delete = true → dst.get? [] = none)
    {e : SEntry} (he : e ∈ scanFilter cfg scan) (hne : e.rel ≠ [])
    (hs1 : SparesPath cfg f1 (plan cfg scan dst) e.rel) (hs2 : SparesPath cfg f2 (plan cfg scan dst) e.rel)
    (hok : TaskOk cfg f1 (plan cfg scan dst) (initExec dst n) (planEntry cfg dst e)) :
    TaskOk cfg f2 (plan cfg scan dst) (initExec dst n) (planEntry cfg dst e) := by
  obtain ⟨pre, post, hts, hok⟩ := hok
  refine ⟨pre, post, hts, ?_⟩
  have hmemt : planEntry cfg dst e ∈ plan cfg scan dst := planEntry_mem_plan he
  have hf2 : faultOf cfg f2 (planEntry cfg dst e) = none :=
    hs2 _ hmemt (by rw [planEntry_rel]; exact isPrefix_refl _)
  obtain ⟨_, w1, hp1, _⟩ := execTask_ok_of_errors hok
  -- it suffices that `perform` succeeds in the second run
  suffices hsuff : ∃ w2, perform cfg (pre.foldl (execTask cfg f2) (initExec dst n)).w (planEntry cfg dst e) = some w2 by
    obtain ⟨w2, hp2⟩ := hsuff
    rcases execTask_cases cfg f2 (pre.foldl (execTask cfg f2) (initExec dst n)) (planEntry cfg dst e) with
      ⟨g, hf, _⟩ | ⟨_, w', _, he'⟩ | ⟨_, hpn, _⟩
    · rw [hf2] at hf; cases hf
    · rw [he']; exact Book.ok_errors _ _
    · rw [hp2] at hpn; cases hpn
  by_cases hs : (planEntry cfg dst e).act = .skip
  · exact ⟨_, perform_skip hs⟩
  · have hnd : (planEntry cfg dst e).act ≠ .delete := planEntry_act_ne_delete _ _ _
    rw [perform_cu hs hnd hdry] at hp1 ⊢
    have hrel : (planEntry cfg dst e).rel ≠ [] := by rw [planEntry_rel]; exact hne
    obtain ⟨A1, O1⟩ := pre_state_along f1 n hu hc hroot he hts hs1
    obtain ⟨A2, O2⟩ := pre_state_along f2 n hu hc hroot he hts hs2
    rcases performCU_necessary hp1 hrel with hnot | ⟨hanc, hown⟩
    · exact ⟨_, by unfold performCU; rw [hnot]⟩
    · rw [planEntry_rel] at hanc
      -- transfer "absent or directory" from run 1 to run 2 through the prior destination
      have xfer : ∀ x (s1 s2 : Option DNode),
          (s1 = dst.get? x ∨ (dst.get? x = none ∧ s1 = some .dir)) →
          (s2 = dst.get? x ∨ (dst.get? x = none ∧ s2 = some .dir)) →
          (s1 = none ∨ s1 = some .dir) → (s2 = none ∨ s2 = some .dir) := by
        intro x s1 s2 h1 h2 h
        rcases h2 with h2 | ⟨_, h2⟩
        · rcases h1 with h1 | ⟨h1, _⟩
          · rw [h2, ← h1]; exact h
          · rw [h2, h1]; exact Or.inl rfl
        · exact Or.inr h2
      apply performCU_sufficient hrel
      · rw [planEntry_rel]
        intro x hx hpx hxe
        exact xfer x _ _ (A1 x hx hpx hxe) (A2 x hx hpx hxe) (hanc x hx hpx hxe)
      · unfold OwnOK at hown ⊢
        cases hpl : (planEntry cfg dst e).payload with
        | nothing => trivial
        | dir =>
          simp only [hpl, planEntry_rel] at hown ⊢
          have w1' : ∀ {s : Option DNode}, (s = dst.get? e.rel ∨ (dst.get? e.rel = none ∧ s = some .dir ∧ e.kind = .dir)) →
              (s = dst.get? e.rel ∨ (dst.get? e.rel = none ∧ s = some .dir)) := by
            intro s h; rcases h with h | ⟨a, b, _⟩
            · exact Or.inl h
            · exact Or.inr ⟨a, b⟩
          exact xfer e.rel _ _ (w1' O1) (w1' O2) hown
        | symlink text =>
          simp only [hpl, planEntry_rel] at hown ⊢
          have hk : e.kind ≠ .dir := fun h => by rw [planEntry_payload_dir h] at hpl; cases hpl
          rcases O1 with o1 | ⟨_, _, k⟩
          · rcases O2 with o2 | ⟨_, _, k⟩
            · rw [o2, ← o1]; exact hown
            · exact absurd k hk
          · exact absurd k hk
        | file m k =>
          simp only [hpl, planEntry_rel] at hown ⊢
          have hk : e.kind ≠ .dir := fun h => by rw [planEntry_payload_dir h] at hpl; cases hpl
          rcases O1 with o1 | ⟨_, _, k⟩
          · rcases O2 with o2 | ⟨_, _, k⟩
            · rw [o2, ← o1]; exact hown
            · exact absurd k hk
          · exact absurd k hk
      · intro m k hpl hcr
        rw [planEntry_rel]
        have hk : e.kind ≠ .dir := fun h => by rw [planEntry_payload_dir h] at hpl; cases hpl
        rcases O2 with o2 | ⟨_, _, k⟩
        · rw [o2]; exact planEntry_create_none hk hcr
        · exact absurd k hk
      · -- registered first paths hold regular files (the hard-link map invariant)
        have hl : LinkOK cfg (plan cfg scan dst) (pre.foldl (execTask cfg f2) (initExec dst n)).w
            (planEntry cfg dst e :: post) := by
          apply foldl_linkOK hdry f2 pre _ (initExec dst n)
          · intro a ha; rw [hts]; exact List.mem_append_left _ ha
          · rw [← hts]; exact plan_pairwise cfg scan dst hu (fun h => ⟨hc, hroot h⟩)
          · intro x hx; cases hx
        intro x hx
        obtain ⟨⟨_, _, d, _, _, hd, _⟩, _⟩ := hl x hx
        exact ⟨d, hd⟩

/-- the action event of a selected entry is in the report iff its task completed -/
theorem event_iff_taskOk {cfg : Cfg} {flt : Faults} {scan : List SEntry} {dst : Map DNode} {n : Nat}
    (hu : UniqueRels scan) {e : SEntry} (he : e ∈ scanFilter cfg scan)
    (hr : (runF cfg flt scan dst n).refused = false) :
    ((planEntry cfg dst e).act, e.rel) ∈ (runF cfg flt scan dst n).events ↔
      TaskOk cfg flt (plan cfg scan dst) (initExec dst n) (planEntry cfg dst e) := by
  constructor
  · exact fun h => (completed_of_event hu he h).2
  · intro h
    rw [(runF_of_not_refused hr).2.1, List.mem_reverse]
    have := event_of_taskOk h
    rw [planEntry_rel] at this
    exact this

end SyModel.Engine
