/-
  Fault containment in its strong form: whether the task of a selected entry completes depends
  only on the prior destination along its own path — not on faults that hit tasks elsewhere.
-/
import SyModel.Lemmas.EngineEvents
namespace SyModel.Engine

/-! ### when does `mkdirAll` succeed -/

theorem foldl_mkStep_some (qs : List Path) (d0 : Map DNode)
    (h : ∀ x ∈ qs, x ≠ [] → d0.get? x = none ∨ d0.get? x = some .dir) :
    ∃ d, qs.foldl mkStep (some d0) = some d := by
  induction qs generalizing d0 with
  | nil => exact ⟨d0, rfl⟩
  | cons q qs ih =>
    rw [List.foldl_cons]
    by_cases hq : q = []
    · have hs : mkStep (some d0) q = some d0 := by simp [mkStep, hq]
      rw [hs]; exact ih d0 (fun x hx => h x (List.mem_cons_of_mem _ hx))
    · rcases h q (List.mem_cons_self ..) hq with hg | hg
      · have hs : mkStep (some d0) q = some (d0.set q .dir) := by simp [mkStep, hq, hg]
        rw [hs]
        apply ih
        intro x hx hne
        rw [Map.get?_set]
        split
        · exact Or.inr rfl
        · exact h x (List.mem_cons_of_mem _ hx) hne
      · have hs : mkStep (some d0) q = some d0 := by simp [mkStep, hq, hg]
        rw [hs]; exact ih d0 (fun x hx => h x (List.mem_cons_of_mem _ hx))

theorem mkdirAll_some (dst : Map DNode) (p : Path)
    (h : ∀ x, x ≠ [] → isPrefix x p = true → dst.get? x = none ∨ dst.get? x = some .dir) :
    ∃ d, mkdirAll dst p = some d := by
  rw [mkdirAll_eq]
  apply foldl_mkStep_some
  intro x hx hne
  rcases mem_chain_self.1 hx with ⟨_, hp⟩ | he
  · exact h x hne hp
  · exact h x hne (he ▸ isPrefix_refl _)

/-- every non-root strict ancestor of `p` is absent or a directory -/
def AncOK (s : Map DNode) (p : Path) : Prop :=
  ∀ x, x ≠ [] → isPrefix x p = true → x ≠ p → s.get? x = none ∨ s.get? x = some .dir

/-- the own path admits the payload -/
def OwnOK (s : Map DNode) (t : Task) : Prop :=
  match t.payload with
  | .nothing => True
  | .dir => s.get? t.rel = none ∨ s.get? t.rel = some .dir ∨ (t.act = .update ∧ ∃ l, s.get? t.rel = some (.symlink l))
  | _ => s.get? t.rel ≠ some .dir

theorem mkdirAll_parent_some {s : Map DNode} {p : Path} (h : AncOK s p) (hp : p ≠ []) :
    ∃ d, mkdirAll s (parentOf p) = some d ∧ d.get? p = s.get? p ∧
      (∀ q, s.get? q ≠ none → d.get? q = s.get? q) := by
  obtain ⟨d, hd⟩ := mkdirAll_some s (parentOf p) (by
    intro x hx hpx
    apply h x hx (isPrefix_trans hpx (parentOf_isPrefix p))
    intro he; subst he
    exact parentOf_ne hp (isPrefix_antisymm (parentOf_isPrefix x) hpx))
  refine ⟨d, hd, ?_, fun q hq => ?_⟩
  · rcases mkdirAll_frame hd p with h1 | ⟨_, hpp, _, _⟩
    · exact h1
    · exact absurd (isPrefix_antisymm (parentOf_isPrefix p) hpp) (parentOf_ne hp)
  · rcases mkdirAll_frame hd q with h1 | ⟨_, _, hn, _⟩
    · exact h1
    · exact absurd hn hq

theorem ancOK_of_parent {s d : Map DNode} {p : Path} (h : mkdirAll s (parentOf p) = some d) : AncOK s p :=
  fun x hx hpx hne => mkdirAll_pre h x hx (isPrefix_parentOf hpx hne)

theorem get?_of_parent {s d : Map DNode} {p : Path} (h : mkdirAll s (parentOf p) = some d) (hp : p ≠ []) :
    d.get? p = s.get? p := by
  rcases mkdirAll_frame h p with h1 | ⟨_, hpp, _, _⟩
  · exact h1
  · exact absurd (isPrefix_antisymm (parentOf_isPrefix p) hpp) (parentOf_ne hp)

/-- necessary conditions for a create/update to complete -/
theorem performCU_necessary {cfg : Cfg} {w w' : World} {t : Task} (h : performCU cfg w t = some w')
    (hp : t.rel ≠ []) : t.payload = .nothing ∨ (AncOK w.dst t.rel ∧ OwnOK w.dst t) := by
  unfold performCU at h
  unfold OwnOK
  cases hpl : t.payload with
  | nothing => exact Or.inl rfl
  | dir =>
    right
    have hown := performCU_dir_pre (cfg := cfg) hpl (by unfold performCU; exact h) hp
    simp only [hpl] at h
    cases hm : mkdirAll (dirBase t.act w.dst t.rel) t.rel with
    | none => simp [hm] at h
    | some d =>
      refine ⟨fun x hx hpx hne => ?_, hown⟩
      have := mkdirAll_pre hm x hx hpx
      rwa [dirBase_get?_ne _ _ _ _ hne] at this
  | symlink text =>
    right
    simp only [hpl] at h
    obtain ⟨d, hm, hnd, _⟩ := writeSymlink_spec h
    exact ⟨ancOK_of_parent hm, by rw [← get?_of_parent hm hp]; exact hnd⟩
  | file m n =>
    right
    simp only [hpl] at h
    have hwf : ∀ w1, writeFile cfg w t.rel m = some w1 → AncOK w.dst t.rel ∧ w.dst.get? t.rel ≠ some .dir := by
      intro w1 h1
      obtain ⟨d, _, hm, hnd, _⟩ := writeFile_spec h1
      exact ⟨ancOK_of_parent hm, by rw [← get?_of_parent hm hp]; exact hnd⟩
    split at h
    · split at h
      · split at h
        · obtain ⟨d, fm, hm, hnone, _⟩ := linkFile_spec h
          exact ⟨ancOK_of_parent hm, by rw [← get?_of_parent hm hp, hnone]; simp⟩
        · obtain ⟨d, fm, hm, hnd, _⟩ := relinkFile_spec h
          exact ⟨ancOK_of_parent hm, by rw [← get?_of_parent hm hp]; exact hnd⟩
      · cases h1 : writeFile cfg w t.rel m with
        | none => simp [h1] at h
        | some w1 => exact hwf w1 h1
    · exact hwf w' h

theorem writeFile_some {cfg : Cfg} {w : World} {p : Path} {m : FileMeta} (hp : p ≠ []) (ha : AncOK w.dst p)
    (ho : w.dst.get? p ≠ some .dir) : ∃ w', writeFile cfg w p m = some w' := by
  obtain ⟨d, hd, hg, _⟩ := mkdirAll_parent_some ha hp
  unfold writeFile
  simp only [hd]
  cases hgp : d.get? p with
  | none => exact ⟨_, rfl⟩
  | some v =>
    cases v with
    | dir => rw [hg] at hgp; exact absurd hgp ho
    | file o => exact ⟨_, rfl⟩
    | symlink s => exact ⟨_, rfl⟩

/-- sufficient conditions for a create/update to complete -/
theorem performCU_sufficient {cfg : Cfg} {w : World} {t : Task} (hp : t.rel ≠ [])
    (ha : AncOK w.dst t.rel) (ho : OwnOK w.dst t)
    (hcr : ∀ m n, t.payload = .file m n → t.act = .create → w.dst.get? t.rel = none)
    (hlm : ∀ x ∈ w.linkMap, ∃ fm, w.dst.get? x.2.1 = some (.file fm)) :
    ∃ w', performCU cfg w t = some w' := by
  unfold performCU
  unfold OwnOK at ho
  cases hpl : t.payload with
  | nothing => exact ⟨w, rfl⟩
  | dir =>
    simp only [hpl] at ho ⊢
    obtain ⟨d, hd⟩ := mkdirAll_some (dirBase t.act w.dst t.rel) t.rel (by
      intro x hx hpx
      by_cases he : x = t.rel
      · rw [he]
        rcases dirBase_get?_self t.act w.dst t.rel with hb | ⟨_, _, hb⟩
        · rw [hb]
          rcases ho with ho | ho | ⟨hu, l, hl⟩
          · exact Or.inl ho
          · exact Or.inr ho
          · -- an update over a link: the link is dropped
            left
            rw [← hb]
            simp [dirBase, hu, unlinkLink, hl, Map.get?_erase_same]
        · exact Or.inl hb
      · rw [dirBase_get?_ne _ _ _ _ he]; exact ha x hx hpx he)
    exact ⟨_, by rw [hd]; rfl⟩
  | symlink text =>
    simp only [hpl] at ho ⊢
    obtain ⟨d, hd, hg, _⟩ := mkdirAll_parent_some ha hp
    unfold writeSymlink
    simp only [hd]
    cases hgp : d.get? t.rel with
    | none => exact ⟨_, rfl⟩
    | some v =>
      cases v with
      | dir => rw [hg] at hgp; exact absurd hgp ho
      | file o => exact ⟨_, rfl⟩
      | symlink s => exact ⟨_, rfl⟩
  | file m n =>
    simp only [hpl] at ho ⊢
    split
    · rename_i hc
      simp only [Bool.and_eq_true, decide_eq_true_eq] at hc
      split
      · rename_i i first j hfind
        obtain ⟨d, hd, hg, hkeep⟩ := mkdirAll_parent_some ha hp
        obtain ⟨fm, hfm⟩ := hlm _ (List.mem_of_find?_eq_some hfind)
        simp only at hfm
        have h2 : d.get? first = some (.file fm) := by rw [hkeep first (by rw [hfm]; simp), hfm]
        by_cases hact : t.act = .create
        · have h1 : d.get? t.rel = none := by rw [hg]; exact hcr m n hpl hact
          rw [if_pos hact]
          unfold linkFile
          simp only [hd, h1, h2]
          exact ⟨_, rfl⟩
        · have h1 : d.get? t.rel ≠ some .dir := by rw [hg]; exact ho
          rw [if_neg hact]
          unfold relinkFile
          simp only [hd, h2]
          cases hgp : d.get? t.rel with
          | none => exact ⟨_, rfl⟩
          | some v =>
            cases v with
            | dir => exact absurd hgp h1
            | file o => exact ⟨_, rfl⟩
            | symlink s' => exact ⟨_, rfl⟩
      · obtain ⟨w1, h1⟩ := writeFile_some (cfg := cfg) (m := m) hp ha ho
        exact ⟨_, by rw [h1]; rfl⟩
    · exact writeFile_some hp ha ho

/-! ### the state along a path before a task, under any fault plan -/

/-- one task that is unfaulted at `x` and at most makes a directory there: the node at `x` stays, or an absent one
    becomes a directory, or a SYMLINK is replaced by a directory — by this very task, an `update` with a directory
    payload at `x` that completed (fix 862af11) -/
theorem execTask_benign (cfg : Cfg) (flt : Faults) (st : Exec) (t : Task) (x : Path) (hx0 : x ≠ [])
    (hd : t.act = .delete → isPrefix t.rel x = false)
    (hb : t.rel = x → faultOf cfg flt t = none ∧ (t.act = .skip ∨ t.payload = .nothing ∨ t.payload = .dir)) :
    (execTask cfg flt st t).w.dst.get? x = st.w.dst.get? x ∨
      (st.w.dst.get? x = none ∧ (execTask cfg flt st t).w.dst.get? x = some .dir) ∨
      ((∃ l, st.w.dst.get? x = some (.symlink l)) ∧ (execTask cfg flt st t).w.dst.get? x = some .dir ∧
        t.rel = x ∧ t.payload = .dir ∧ t.act = .update ∧
        (execTask cfg flt st t).b.errors = st.b.errors) := by
  by_cases hr : t.rel = x
  · obtain ⟨hf, hben⟩ := hb hr
    have hnd : t.act ≠ .delete := by
      intro hdel; have := hd hdel; rw [hr, isPrefix_refl] at this; cases this
    rcases execTask_cases cfg flt st t with ⟨g, hf', _⟩ | ⟨_, w', hp, he⟩ | ⟨_, _, he⟩
    · rw [hf] at hf'; cases hf'
    · rw [he]
      by_cases hdry : cfg.dryRun = true
      · rw [perform_dry cfg hdry] at hp; cases hp; exact Or.inl rfl
      · simp only [Bool.not_eq_true] at hdry
        by_cases hs : t.act = .skip
        · rw [perform_skip hs] at hp; cases hp; exact Or.inl rfl
        · rw [perform_cu hs hnd hdry] at hp
          rcases hben with h1 | h1 | h1
          · exact absurd h1 hs
          · rw [performCU_nothing h1 hp]; exact Or.inl rfl
          · have hdirx : w'.dst.get? x = some .dir := by
              rw [← hr]; exact (performCU_dir h1 hp).1 (hr ▸ hx0)
            rcases performCU_dir_pre h1 hp (hr ▸ hx0) with h2 | h2 | ⟨hu, l, hl⟩
            · exact Or.inr (Or.inl ⟨hr ▸ h2, hdirx⟩)
            · left; show w'.dst.get? x = _; rw [hdirx, ← hr, h2]
            · exact Or.inr (Or.inr ⟨⟨l, hr ▸ hl⟩, hdirx, hr, h1, hu, Book.ok_errors _ _⟩)
    · rw [he]; exact Or.inl rfl
  · rcases execTask_frame cfg flt st t x hr hd with h1 | ⟨a, b, _⟩
    · exact Or.inl h1
    · exact Or.inr (Or.inl ⟨a, b⟩)

/-- a path at which every task of `ts` is unfaulted and at most makes a directory keeps its node, except that an
    absent one may become a directory and a symlink may be replaced by one -/
theorem foldl_frame_benign (cfg : Cfg) (flt : Faults) (ts : List Task) (st : Exec) (x : Path) (hx0 : x ≠ [])
    (h : ∀ t ∈ ts, (t.act = .delete → isPrefix t.rel x = false) ∧
      (t.rel = x → faultOf cfg flt t = none ∧ (t.act = .skip ∨ t.payload = .nothing ∨ t.payload = .dir))) :
    (ts.foldl (execTask cfg flt) st).w.dst.get? x = st.w.dst.get? x ∨
      (st.w.dst.get? x = none ∧ (ts.foldl (execTask cfg flt) st).w.dst.get? x = some .dir) ∨
      ((∃ l, st.w.dst.get? x = some (.symlink l)) ∧ (ts.foldl (execTask cfg flt) st).w.dst.get? x = some .dir) := by
  induction ts generalizing st with
  | nil => exact Or.inl rfl
  | cons t ts ih =>
    rw [List.foldl_cons]
    obtain ⟨hd, hb⟩ := h t (List.mem_cons_self ..)
    have ih' := ih (execTask cfg flt st t) (fun t' ht' => h t' (List.mem_cons_of_mem _ ht'))
    -- once a directory, always a directory
    have stay : (execTask cfg flt st t).w.dst.get? x = some .dir →
        (ts.foldl (execTask cfg flt) (execTask cfg flt st t)).w.dst.get? x = some .dir := by
      intro hdir
      rcases ih' with h2 | ⟨h2, _⟩ | ⟨⟨l, h2⟩, _⟩
      · rw [h2]; exact hdir
      · rw [hdir] at h2; cases h2
      · rw [hdir] at h2; cases h2
    rcases execTask_benign cfg flt st t x hx0 hd hb with s1 | ⟨s1, s2⟩ | ⟨s1, s2, _⟩
    · rcases ih' with h2 | ⟨h2, h3⟩ | ⟨⟨l, h2⟩, h3⟩
      · exact Or.inl (h2.trans s1)
      · exact Or.inr (Or.inl ⟨s1 ▸ h2, h3⟩)
      · exact Or.inr (Or.inr ⟨⟨l, s1 ▸ h2⟩, h3⟩)
    · exact Or.inr (Or.inl ⟨s1, stay s2⟩)
    · exact Or.inr (Or.inr ⟨s1, stay s2⟩)

/-- a link at `x` that the fold turned into a directory was replaced by a task of the fold at `x` that completed -/
theorem foldl_link_replaced (cfg : Cfg) (flt : Faults) (ts : List Task) (st : Exec) (x : Path) (hx0 : x ≠ [])
    (h : ∀ t ∈ ts, (t.act = .delete → isPrefix t.rel x = false) ∧
      (t.rel = x → faultOf cfg flt t = none ∧ (t.act = .skip ∨ t.payload = .nothing ∨ t.payload = .dir)))
    (hl : ∃ l, st.w.dst.get? x = some (.symlink l))
    (hfin : (ts.foldl (execTask cfg flt) st).w.dst.get? x = some .dir) :
    ∃ p1 p2 t, ts = p1 ++ t :: p2 ∧ t.rel = x ∧ t.payload = .dir ∧ t.act = .update ∧
      (execTask cfg flt (p1.foldl (execTask cfg flt) st) t).b.errors = (p1.foldl (execTask cfg flt) st).b.errors := by
  induction ts generalizing st with
  | nil =>
    obtain ⟨l, hl⟩ := hl
    simp only [List.foldl_nil] at hfin
    rw [hl] at hfin; cases hfin
  | cons t ts ih =>
    rw [List.foldl_cons] at hfin
    obtain ⟨hd, hb⟩ := h t (List.mem_cons_self ..)
    rcases execTask_benign cfg flt st t x hx0 hd hb with s1 | ⟨s1, _⟩ | ⟨_, _, hr, hpl, hu, hok⟩
    · obtain ⟨p1, p2, t', hts, hr, hpl, hu, hok⟩ :=
        ih (execTask cfg flt st t) (fun t' ht' => h t' (List.mem_cons_of_mem _ ht')) (by rw [s1]; exact hl) hfin
      exact ⟨t :: p1, p2, t', by rw [hts]; rfl, hr, hpl, hu, by simpa [List.foldl_cons] using hok⟩
    · obtain ⟨l, hl⟩ := hl
      rw [hl] at s1; cases s1
    · exact ⟨[], ts, t, rfl, hr, hpl, hu, hok⟩

/-- conversely: a completed directory task at `x` leaves a directory at `x` at the end of a benign fold -/
theorem foldl_dir_made {cfg : Cfg} (hdry : cfg.dryRun = false) (flt : Faults) (ts : List Task) (st : Exec) (x : Path)
    (hx0 : x ≠ [])
    (h : ∀ t ∈ ts, (t.act = .delete → isPrefix t.rel x = false) ∧
      (t.rel = x → faultOf cfg flt t = none ∧ (t.act = .skip ∨ t.payload = .nothing ∨ t.payload = .dir)))
    {p1 p2 : List Task} {t : Task} (hts : ts = p1 ++ t :: p2) (hr : t.rel = x) (hpl : t.payload = .dir)
    (hs : t.act ≠ .skip) (hnd : t.act ≠ .delete)
    (hok : (execTask cfg flt (p1.foldl (execTask cfg flt) st) t).b.errors = (p1.foldl (execTask cfg flt) st).b.errors) :
    (ts.foldl (execTask cfg flt) st).w.dst.get? x = some .dir := by
  subst hts
  rw [List.foldl_append, List.foldl_cons]
  obtain ⟨_, w', hp, he⟩ := execTask_ok_of_errors hok
  rw [perform_cu hs hnd hdry] at hp
  have hdirx : (execTask cfg flt (p1.foldl (execTask cfg flt) st) t).w.dst.get? x = some .dir := by
    rw [he, ← hr]; exact (performCU_dir hpl hp).1 (hr ▸ hx0)
  rcases foldl_frame_benign cfg flt p2 (execTask cfg flt (p1.foldl (execTask cfg flt) st) t) x hx0
      (fun t' ht' => h t' (List.mem_append_right _ (List.mem_cons_of_mem _ ht'))) with h2 | ⟨h2, _⟩ | ⟨⟨l, h2⟩, _⟩
  · rw [h2]; exact hdirx
  · rw [hdirx] at h2; cases h2
  · rw [hdirx] at h2; cases h2

/-- an element that occurs in neither prefix splits a list in one way only -/
theorem append_cons_unique {α : Type} {a a' b b' : List α} {t : α} (h : a ++ t :: b = a' ++ t :: b')
    (ha : t ∉ a) (ha' : t ∉ a') : a = a' ∧ b = b' := by
  induction a generalizing a' with
  | nil =>
    cases a' with
    | nil => simp only [List.nil_append, List.cons.injEq, true_and] at h; exact ⟨rfl, h⟩
    | cons y a'' =>
      simp only [List.nil_append, List.cons_append, List.cons.injEq] at h
      exact absurd (h.1 ▸ List.mem_cons_self ..) ha'
  | cons y a1 ih =>
    cases a' with
    | nil =>
      simp only [List.nil_append, List.cons_append, List.cons.injEq] at h
      exact absurd (h.1 ▸ List.mem_cons_self ..) ha
    | cons z a'' =>
      simp only [List.cons_append, List.cons.injEq] at h
      obtain ⟨e1, e2⟩ := ih h.2 (fun hm => ha (List.mem_cons_of_mem _ hm)) (fun hm => ha' (List.mem_cons_of_mem _ hm))
      exact ⟨by rw [h.1, e1], e2⟩

/-! ### completion does not depend on faults elsewhere -/

/-- the fault plan spares the tasks at and above `p` -/
def SparesPath (cfg : Cfg) (flt : Faults) (ts : List Task) (p : Path) : Prop :=
  ∀ t ∈ ts, isPrefix t.rel p = true → faultOf cfg flt t = none

theorem sparesPath_noFaults (cfg : Cfg) (ts : List Task) (p : Path) : SparesPath cfg noFaults ts p :=
  fun t _ _ => faultOf_noFaults cfg t

/-- a non-delete task of a plan does not occur before itself -/
theorem plan_split_not_mem {cfg : Cfg} {scan : List SEntry} {dst : Map DNode} (hu : UniqueRels scan)
    (hdel : cfg.delete = true → ParentClosed scan ∧ dst.get? [] = none) {pre post : List Task} {t : Task}
    (hts : plan cfg scan dst = pre ++ t :: post) (hnd : t.act ≠ .delete) : t ∉ pre := by
  intro hm
  have hpw := plan_pairwise cfg scan dst hu hdel
  rw [hts, List.pairwise_append] at hpw
  have hl := hpw.2.2 t hm t (List.mem_cons_self ..)
  exact (hl.1 hnd).1 rfl

/-- along the path of a selected entry: every task that runs before it is benign at every strict ancestor (the
    only task there is the one of the ancestor directory's entry, which the fault plan spares) -/
theorem pre_benign_along {cfg : Cfg} (flt : Faults) {scan : List SEntry} {dst : Map DNode}
    (hu : UniqueRels scan) (hc : ParentClosed scan) (hroot : cfg.delete = true → dst.get? [] = none)
    {e : SEntry} (he : e ∈ scanFilter cfg scan) {pre post : List Task}
    (hts : plan cfg scan dst = pre ++ planEntry cfg dst e :: post)
    (hsp : SparesPath cfg flt (plan cfg scan dst) e.rel) :
    (∀ a ∈ pre, a.act ≠ .delete ∧ a.rel ≠ e.rel) ∧
    ∀ x, x ≠ [] → isPrefix x e.rel = true → x ≠ e.rel →
      ∀ a ∈ pre, (a.act = .delete → isPrefix a.rel x = false) ∧
        (a.rel = x → faultOf cfg flt a = none ∧ (a.act = .skip ∨ a.payload = .nothing ∨ a.payload = .dir)) := by
  have hes := mem_of_mem_scanFilter he
  have hpw := plan_pairwise cfg scan dst hu (fun h => ⟨hc, hroot h⟩)
  rw [hts, List.pairwise_append] at hpw
  obtain ⟨_, _, hcross⟩ := hpw
  have hmem : ∀ a ∈ pre, a ∈ plan cfg scan dst := fun a ha => by rw [hts]; exact List.mem_append_left _ ha
  have hnd : (planEntry cfg dst e).act ≠ .delete := planEntry_act_ne_delete _ _ _
  have hpre : ∀ a ∈ pre, a.act ≠ .delete ∧ a.rel ≠ e.rel := by
    intro a ha
    have hl := hcross a ha _ (List.mem_cons_self ..)
    have had : a.act ≠ .delete := fun h => hnd (hl.2 h)
    refine ⟨had, fun h => (hl.1 had).1 ?_⟩
    rw [planEntry_rel]; exact h.symm
  refine ⟨hpre, ?_⟩
  intro x hx hpx hxe a ha
  obtain ⟨d, hd, hdr, hdk⟩ := hc.anc hes hx hpx hxe
  refine ⟨fun hdel => absurd hdel (hpre a ha).1, fun hr => ⟨hsp a (hmem a ha) (hr ▸ hpx), ?_⟩⟩
  obtain ⟨s, hs, rfl⟩ := entry_of_task (hmem a ha) (hpre a ha).1
  rw [planEntry_rel] at hr
  have := hu.eq_of_rel (mem_of_mem_scanFilter hs) hd (hr.trans hdr.symm)
  subst this
  exact Or.inr (Or.inr (planEntry_payload_dir hdk))

/-- the state at the OWN path of a selected entry just before its task: what the prior destination has, or a
    directory made on the way to an entry below it -/
theorem pre_state_own {cfg : Cfg} (flt : Faults) {scan : List SEntry} {dst : Map DNode} (n : Nat)
    (hu : UniqueRels scan) (hc : ParentClosed scan)
    {e : SEntry} (he : e ∈ scanFilter cfg scan) {pre post : List Task}
    (hmem : ∀ a ∈ pre, a ∈ plan cfg scan dst) (hpre : ∀ a ∈ pre, a.act ≠ .delete ∧ a.rel ≠ e.rel) :
    ((pre.foldl (execTask cfg flt) (initExec dst n)).w.dst.get? e.rel = dst.get? e.rel ∨
      (dst.get? e.rel = none ∧ (pre.foldl (execTask cfg flt) (initExec dst n)).w.dst.get? e.rel = some .dir ∧
        e.kind = .dir)) := by
  have hes := mem_of_mem_scanFilter he
  rcases foldl_frame cfg flt pre (initExec dst n) e.rel
    (fun a ha => ⟨(hpre a ha).2, fun h => absurd h (hpre a ha).1⟩) with h | ⟨a1, a2, a3, t', ht', hp', _⟩
  · exact Or.inl h
  · refine Or.inr ⟨a1, a2, ?_⟩
    obtain ⟨s, hs, rfl⟩ := entry_of_task (hmem t' ht') (hpre t' ht').1
    rw [planEntry_rel] at hp'
    have hne : e.rel ≠ s.rel := by
      intro h; exact (hpre _ ht').2 (by rw [planEntry_rel]; exact h.symm)
    exact anc_is_dir hu hc hes (mem_of_mem_scanFilter hs) a3 hp' hne

/-- **whether the task of a selected entry completes is the same under any two fault plans that
    spare the tasks at and above its path** — also below a destination link that the run replaces by a directory
    (fix 862af11): whether that replacement completed is, by induction along the path, the same under both plans -/
theorem taskOk_transfer {cfg : Cfg} (hdry : cfg.dryRun = false) (f1 f2 : Faults) {scan : List SEntry}
    {dst : Map DNode} (n : Nat) (hu : UniqueRels scan) (hc : ParentClosed scan)
    (hroot : cfg.delete = true → dst.get? [] = none)
    {e : SEntry} (he : e ∈ scanFilter cfg scan) (hne : e.rel ≠ [])
    (hs1 : SparesPath cfg f1 (plan cfg scan dst) e.rel) (hs2 : SparesPath cfg f2 (plan cfg scan dst) e.rel)
    (hok : TaskOk cfg f1 (plan cfg scan dst) (initExec dst n) (planEntry cfg dst e)) :
    TaskOk cfg f2 (plan cfg scan dst) (initExec dst n) (planEntry cfg dst e) := by
  -- strong induction on the length of the entry's path
  generalize hk : e.rel.length = k
  induction k using Nat.strongRecOn generalizing e with
  | _ k ih =>
  have hdelp : cfg.delete = true → ParentClosed scan ∧ dst.get? [] = none := fun h => ⟨hc, hroot h⟩
  obtain ⟨pre, post, hts, hok⟩ := hok
  refine ⟨pre, post, hts, ?_⟩
  have hmemt : planEntry cfg dst e ∈ plan cfg scan dst := planEntry_mem_plan he
  have hf2 : faultOf cfg f2 (planEntry cfg dst e) = none :=
    hs2 _ hmemt (by rw [planEntry_rel]; exact isPrefix_refl _)
  obtain ⟨_, w1, hp1, _⟩ := execTask_ok_of_errors hok
  -- it suffices that `perform` succeeds in the second run
  suffices hsuff : ∃ w2, perform cfg (pre.foldl (execTask cfg f2) (initExec dst n)).w (planEntry cfg dst e) = some w2 by
    obtain ⟨w2, hp2⟩ := hsuff
    rcases execTask_cases cfg f2 (pre.foldl (execTask cfg f2) (initExec dst n)) (planEntry cfg dst e) with
      ⟨g, hf, _⟩ | ⟨_, w', _, he'⟩ | ⟨_, hpn, _⟩
    · rw [hf2] at hf; cases hf
    · rw [he']; exact Book.ok_errors _ _
    · rw [hp2] at hpn; cases hpn
  by_cases hs : (planEntry cfg dst e).act = .skip
  · exact ⟨_, perform_skip hs⟩
  · have hnd : (planEntry cfg dst e).act ≠ .delete := planEntry_act_ne_delete _ _ _
    rw [perform_cu hs hnd hdry] at hp1 ⊢
    have hrel : (planEntry cfg dst e).rel ≠ [] := by rw [planEntry_rel]; exact hne
    have hmem : ∀ a ∈ pre, a ∈ plan cfg scan dst := fun a ha => by rw [hts]; exact List.mem_append_left _ ha
    obtain ⟨hpre, B1⟩ := pre_benign_along f1 hu hc hroot he hts hs1
    obtain ⟨_, B2⟩ := pre_benign_along f2 hu hc hroot he hts hs2
    have O1 := pre_state_own f1 n hu hc he (post := post) hmem hpre
    have O2 := pre_state_own f2 n hu hc he (post := post) hmem hpre
    rcases performCU_necessary hp1 hrel with hnot | ⟨hanc, hown⟩
    · exact ⟨_, by unfold performCU; rw [hnot]⟩
    · rw [planEntry_rel] at hanc
      apply performCU_sufficient hrel
      · -- the strict ancestors: absent or directories in run 2 as in run 1
        rw [planEntry_rel]
        intro x hx hpx hxe
        have A1 := foldl_frame_benign cfg f1 pre (initExec dst n) x hx (B1 x hx hpx hxe)
        have A2 := foldl_frame_benign cfg f2 pre (initExec dst n) x hx (B2 x hx hpx hxe)
        have h1 := hanc x hx hpx hxe
        rw [show (initExec dst n).w.dst = dst from rfl] at A1 A2
        cases hg : dst.get? x with
        | none =>
          rcases A2 with a2 | ⟨_, a2⟩ | ⟨_, a2⟩
          · rw [a2, hg]; exact Or.inl rfl
          · exact Or.inr a2
          · exact Or.inr a2
        | some v =>
          cases v with
          | dir =>
            rcases A2 with a2 | ⟨a2, _⟩ | ⟨⟨l, a2⟩, _⟩
            · rw [a2, hg]; exact Or.inr rfl
            · rw [hg] at a2; cases a2
            · rw [hg] at a2; cases a2
          | file m =>
            exfalso
            rcases A1 with a1 | ⟨a1, _⟩ | ⟨⟨l, a1⟩, _⟩
            · rw [a1, hg] at h1; rcases h1 with h1 | h1 <;> cases h1
            · rw [hg] at a1; cases a1
            · rw [hg] at a1; cases a1
          | symlink l =>
            -- run 1 replaced the link (else `e` could not have completed); by induction so does run 2
            have hdir1 : (pre.foldl (execTask cfg f1) (initExec dst n)).w.dst.get? x = some .dir := by
              rcases A1 with a1 | ⟨a1, _⟩ | ⟨_, a1⟩
              · rw [a1, hg] at h1; rcases h1 with h1 | h1 <;> cases h1
              · rw [hg] at a1; cases a1
              · exact a1
            obtain ⟨p1, p2, t, hsplit, htr, htp, htu, htok⟩ :=
              foldl_link_replaced cfg f1 pre (initExec dst n) x hx (B1 x hx hpx hxe) ⟨l, hg⟩ hdir1
            have htmem : t ∈ pre := by rw [hsplit]; simp
            have htnd : t.act ≠ .delete := by rw [htu]; simp
            have htns : t.act ≠ .skip := by rw [htu]; simp
            obtain ⟨dx, hdx, rfl⟩ := entry_of_task (hmem t htmem) htnd
            rw [planEntry_rel] at htr
            have hplan : plan cfg scan dst = p1 ++ planEntry cfg dst dx :: (p2 ++ planEntry cfg dst e :: post) := by
              rw [hts, hsplit]; simp
            have hok1 : TaskOk cfg f1 (plan cfg scan dst) (initExec dst n) (planEntry cfg dst dx) :=
              ⟨p1, _, hplan, htok⟩
            have hlen : dx.rel.length < k := by
              rw [htr, ← hk]
              have h1 := isPrefix_length hpx
              rcases Nat.lt_or_ge x.length e.rel.length with h | h
              · exact h
              · exact absurd (isPrefix_eq_of_length hpx h) hxe
            have hsx1 : SparesPath cfg f1 (plan cfg scan dst) dx.rel := fun a ha hp =>
              hs1 a ha (isPrefix_trans hp (htr ▸ hpx))
            have hsx2 : SparesPath cfg f2 (plan cfg scan dst) dx.rel := fun a ha hp =>
              hs2 a ha (isPrefix_trans hp (htr ▸ hpx))
            obtain ⟨q1, q2, hq, hqok⟩ := ih dx.rel.length hlen hdx (htr ▸ hx) hsx1 hsx2 hok1 rfl
            -- the split of the plan at that task is the one we know
            obtain ⟨e1, _⟩ := append_cons_unique (hplan.symm.trans hq)
              (plan_split_not_mem hu hdelp hplan htnd) (plan_split_not_mem hu hdelp hq htnd)
            subst e1
            exact Or.inr (foldl_dir_made hdry f2 pre (initExec dst n) x hx (B2 x hx hpx hxe) hsplit
              (by rw [planEntry_rel]; exact htr) htp htns htnd hqok)
      · unfold OwnOK at hown ⊢
        cases hpl : (planEntry cfg dst e).payload with
        | nothing => trivial
        | dir =>
          simp only [hpl, planEntry_rel] at hown ⊢
          have w1' : ∀ {s : Option DNode}, (s = dst.get? e.rel ∨ (dst.get? e.rel = none ∧ s = some .dir ∧ e.kind = .dir)) →
              (s = dst.get? e.rel ∨ (dst.get? e.rel = none ∧ s = some .dir)) := by
            intro s h; rcases h with h | ⟨a, b, _⟩
            · exact Or.inl h
            · exact Or.inr ⟨a, b⟩
          -- transfer "absent or directory" from run 1 to run 2 through the prior destination
          have xfer : ∀ (s1 s2 : Option DNode),
              (s1 = dst.get? e.rel ∨ (dst.get? e.rel = none ∧ s1 = some .dir)) →
              (s2 = dst.get? e.rel ∨ (dst.get? e.rel = none ∧ s2 = some .dir)) →
              (s1 = none ∨ s1 = some .dir) → (s2 = none ∨ s2 = some .dir) := by
            intro s1 s2 h1 h2 h
            rcases h2 with h2 | ⟨_, h2⟩
            · rcases h1 with h1 | ⟨h1, _⟩
              · rw [h2, ← h1]; exact h
              · rw [h2, h1]; exact Or.inl rfl
            · exact Or.inr h2
          rcases hown with hown | hown | ⟨hupd, l, hl⟩
          · rcases xfer _ _ (w1' O1) (w1' O2) (Or.inl hown) with h | h
            · exact Or.inl h
            · exact Or.inr (Or.inl h)
          · rcases xfer _ _ (w1' O1) (w1' O2) (Or.inr hown) with h | h
            · exact Or.inl h
            · exact Or.inr (Or.inl h)
          · -- a link in run 1: it is the prior destination's, and so it is in run 2
            have hd1 : dst.get? e.rel = some (.symlink l) := by
              rcases w1' O1 with h | ⟨h, h'⟩
              · rw [← h]; exact hl
              · rw [h'] at hl; cases hl
            rcases w1' O2 with h | ⟨h, _⟩
            · exact Or.inr (Or.inr ⟨hupd, l, by rw [h]; exact hd1⟩)
            · rw [hd1] at h; cases h
        | symlink text =>
          simp only [hpl, planEntry_rel] at hown ⊢
          have hk' : e.kind ≠ .dir := fun h => by rw [planEntry_payload_dir h] at hpl; cases hpl
          rcases O1 with o1 | ⟨_, _, k'⟩
          · rcases O2 with o2 | ⟨_, _, k'⟩
            · rw [o2, ← o1]; exact hown
            · exact absurd k' hk'
          · exact absurd k' hk'
        | file m k' =>
          simp only [hpl, planEntry_rel] at hown ⊢
          have hk' : e.kind ≠ .dir := fun h => by rw [planEntry_payload_dir h] at hpl; cases hpl
          rcases O1 with o1 | ⟨_, _, k''⟩
          · rcases O2 with o2 | ⟨_, _, k''⟩
            · rw [o2, ← o1]; exact hown
            · exact absurd k'' hk'
          · exact absurd k'' hk'
      · intro m k' hpl hcr
        rw [planEntry_rel]
        have hk' : e.kind ≠ .dir := fun h => by rw [planEntry_payload_dir h] at hpl; cases hpl
        rcases O2 with o2 | ⟨_, _, k''⟩
        · rw [o2]; exact planEntry_create_none hk' hcr
        · exact absurd k'' hk'
      · -- registered first paths hold regular files (the hard-link map invariant)
        have hl : LinkOK cfg (plan cfg scan dst) (pre.foldl (execTask cfg f2) (initExec dst n)).w
            (planEntry cfg dst e :: post) := by
          apply foldl_linkOK hdry f2 pre _ (initExec dst n)
          · intro a ha; rw [hts]; exact List.mem_append_left _ ha
          · rw [← hts]; exact plan_pairwise cfg scan dst hu (fun h => ⟨hc, hroot h⟩)
          · intro x hx; cases hx
        intro x hx
        obtain ⟨⟨_, _, d, _, _, hd, _⟩, _⟩ := hl x hx
        exact ⟨d, hd⟩

/-- the action event of a selected entry is in the report iff its task completed -/
theorem event_iff_taskOk {cfg : Cfg} {flt : Faults} {scan : List SEntry} {dst : Map DNode} {n : Nat}
    (hu : UniqueRels scan) {e : SEntry} (he : e ∈ scanFilter cfg scan)
    (hr : (runF cfg flt scan dst n).refused = false) :
    ((planEntry cfg dst e).act, e.rel) ∈ (runF cfg flt scan dst n).events ↔
      TaskOk cfg flt (plan cfg scan dst) (initExec dst n) (planEntry cfg dst e) := by
  constructor
  · exact fun h => (completed_of_event hu he h).2
  · intro h
    rw [(runF_of_not_refused hr).2.1, List.mem_reverse]
    have := event_of_taskOk h
    rw [planEntry_rel] at this
    exact this

end SyModel.Engine
