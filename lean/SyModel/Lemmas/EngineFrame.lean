/-
  Frame and post-condition lemmas for the task executors of the engine model
  (`mkdirAll`, `writeFile`, `writeSymlink`, `linkFile`, `perform`, `execTask`) and their lifting
  to `foldl execTask`.

  (F1) a task changes the destination only at its own `rel`, at strict ancestors of `rel` that
       were absent (they become directories) and — for a delete — at and below `rel`.
  (F2) what is at `rel` after a successful `perform`.
  (F3) facts about paths that the remaining tasks do not own survive the rest of the fold.
-/
import SyModel.Lemmas.Engine
import SyModel.Lemmas.EnginePath
import SyModel.Lemmas.EngineDirBase
namespace SyModel.Engine

/-! ### `mkdirAll` -/

/-- the step function folded by `mkdirAll` -/
def mkStep (acc : Option (Map DNode)) (q : Path) : Option (Map DNode) :=
  match acc with
  | none => none
  | some d =>
    if q = [] then some d else
    match d.get? q with
    | none => some (d.set q .dir)
    | some .dir => some d
    | some _ => none

theorem mkdirAll_eq (dst : Map DNode) (p : Path) :
    mkdirAll dst p = (ancestors p ++ [p]).foldl mkStep (some dst) := rfl

theorem foldl_mkStep_none (qs : List Path) : qs.foldl mkStep none = none := by
  induction qs with
  | nil => rfl
  | cons q qs ih => simpa [mkStep] using ih

theorem foldl_mkStep_spec (qs : List Path) (d0 d : Map DNode) (h : qs.foldl mkStep (some d0) = some d) :
    (∀ x, d.get? x = d0.get? x ∨ (x ∈ qs ∧ x ≠ [] ∧ d0.get? x = none ∧ d.get? x = some .dir)) ∧
    (∀ x ∈ qs, x ≠ [] → d.get? x = some .dir) := by
  induction qs generalizing d0 with
  | nil =>
    simp only [List.foldl_nil, Option.some.injEq] at h
    subst h
    exact ⟨fun x => Or.inl rfl, fun x hx => by simp at hx⟩
  | cons q qs ih =>
    rw [List.foldl_cons] at h
    by_cases hq : q = []
    · have hs : mkStep (some d0) q = some d0 := by simp [mkStep, hq]
      rw [hs] at h
      obtain ⟨i1, i2⟩ := ih d0 h
      refine ⟨fun x => ?_, fun x hx hne => ?_⟩
      · rcases i1 x with h1 | ⟨a, b, c, e⟩
        · exact Or.inl h1
        · exact Or.inr ⟨List.mem_cons_of_mem _ a, b, c, e⟩
      · rcases List.mem_cons.1 hx with hx | hx
        · exact absurd (hx.trans hq) hne
        · exact i2 x hx hne
    · cases hg : d0.get? q with
      | none =>
        have hs : mkStep (some d0) q = some (d0.set q .dir) := by simp [mkStep, hq, hg]
        rw [hs] at h
        obtain ⟨i1, i2⟩ := ih _ h
        have hqd : d.get? q = some .dir := by
          rcases i1 q with h1 | ⟨_, _, c, _⟩
          · rw [h1]; simp
          · simp at c
        refine ⟨fun x => ?_, fun x hx hne => ?_⟩
        · by_cases hx : x = q
          · subst hx
            exact Or.inr ⟨List.mem_cons_self .., hq, hg, hqd⟩
          · have hset : (d0.set q .dir).get? x = d0.get? x := Map.get?_set_ne _ _ _ _ (Ne.symm hx)
            rcases i1 x with h1 | ⟨a, b, c, e⟩
            · exact Or.inl (h1.trans hset)
            · exact Or.inr ⟨List.mem_cons_of_mem _ a, b, hset ▸ c, e⟩
        · rcases List.mem_cons.1 hx with hx | hx
          · rw [hx]; exact hqd
          · exact i2 x hx hne
      | some v =>
        cases v with
        | dir =>
          have hs : mkStep (some d0) q = some d0 := by simp [mkStep, hq, hg]
          rw [hs] at h
          obtain ⟨i1, i2⟩ := ih d0 h
          refine ⟨fun x => ?_, fun x hx hne => ?_⟩
          · rcases i1 x with h1 | ⟨a, b, c, e⟩
            · exact Or.inl h1
            · exact Or.inr ⟨List.mem_cons_of_mem _ a, b, c, e⟩
          · rcases List.mem_cons.1 hx with hx | hx
            · rw [hx]
              rcases i1 q with h1 | ⟨_, _, c, _⟩
              · rw [h1, hg]
              · rw [hg] at c; cases c
            · exact i2 x hx hne
        | file m =>
          have hs : mkStep (some d0) q = none := by simp [mkStep, hq, hg]
          rw [hs, foldl_mkStep_none] at h; cases h
        | symlink s =>
          have hs : mkStep (some d0) q = none := by simp [mkStep, hq, hg]
          rw [hs, foldl_mkStep_none] at h; cases h

/-- (F1) `mkdirAll` only turns absent non-root prefixes of `p` into directories -/
theorem mkdirAll_frame {dst d : Map DNode} {p : Path} (h : mkdirAll dst p = some d) (x : Path) :
    d.get? x = dst.get? x ∨
      (x ≠ [] ∧ isPrefix x p = true ∧ dst.get? x = none ∧ d.get? x = some .dir) := by
  rw [mkdirAll_eq] at h
  rcases (foldl_mkStep_spec _ _ _ h).1 x with h1 | ⟨a, b, c, e⟩
  · exact Or.inl h1
  · refine Or.inr ⟨b, ?_, c, e⟩
    rcases mem_chain_self.1 a with ⟨_, hp⟩ | he
    · exact hp
    · rw [he]; exact isPrefix_refl p

/-- (F2) after `mkdirAll` every non-root prefix of `p` is a directory -/
theorem mkdirAll_dirs {dst d : Map DNode} {p : Path} (h : mkdirAll dst p = some d) (x : Path)
    (hx : x ≠ []) (hp : isPrefix x p = true) : d.get? x = some .dir := by
  rw [mkdirAll_eq] at h
  exact (foldl_mkStep_spec _ _ _ h).2 x (mem_chain_self.2 (Or.inl ⟨hx, hp⟩)) hx

/-- success of `mkdirAll` means every non-root prefix was absent or a directory -/
theorem mkdirAll_pre {dst d : Map DNode} {p : Path} (h : mkdirAll dst p = some d) (x : Path)
    (hx : x ≠ []) (hp : isPrefix x p = true) : dst.get? x = none ∨ dst.get? x = some .dir := by
  have h1 := mkdirAll_dirs h x hx hp
  rcases mkdirAll_frame h x with h2 | ⟨_, _, c, _⟩
  · exact Or.inr (h2 ▸ h1)
  · exact Or.inl c

theorem foldl_mkStep_of_dirs (qs : List Path) (d0 : Map DNode)
    (h : ∀ x ∈ qs, x ≠ [] → d0.get? x = some .dir) : qs.foldl mkStep (some d0) = some d0 := by
  induction qs with
  | nil => rfl
  | cons q qs ih =>
    rw [List.foldl_cons]
    have hs : mkStep (some d0) q = some d0 := by
      by_cases hq : q = []
      · simp [mkStep, hq]
      · simp [mkStep, hq, h q (List.mem_cons_self ..) hq]
    rw [hs]
    exact ih (fun x hx => h x (List.mem_cons_of_mem _ hx))

/-- when all prefixes are directories already `mkdirAll` is the identity -/
theorem mkdirAll_of_dirs (dst : Map DNode) (p : Path)
    (h : ∀ x, x ≠ [] → isPrefix x p = true → dst.get? x = some .dir) : mkdirAll dst p = some dst := by
  rw [mkdirAll_eq]
  apply foldl_mkStep_of_dirs
  intro x hx hne
  rcases mem_chain_self.1 hx with ⟨_, hp⟩ | he
  · exact h x hne hp
  · exact h x hne (he ▸ isPrefix_refl _)

/-! ### the frame of one create/update task -/

/-- `d1` differs from `d0` only at `r` and at absent strict ancestors of `r`, which became
    directories -/
def FrameAt (d0 d1 : Map DNode) (r : Path) : Prop :=
  ∀ x, x ≠ r → d1.get? x = d0.get? x ∨
    (d0.get? x = none ∧ d1.get? x = some .dir ∧ isPrefix x r = true ∧ x ≠ [])

theorem FrameAt.rfl' (d : Map DNode) (r : Path) : FrameAt d d r := fun _ _ => Or.inl rfl

theorem frameAt_mkdir {d0 d : Map DNode} {r : Path} (h : mkdirAll d0 r = some d) : FrameAt d0 d r := by
  intro x _
  rcases mkdirAll_frame h x with h1 | ⟨a, b, c, e⟩
  · exact Or.inl h1
  · exact Or.inr ⟨c, e, b, a⟩

theorem frameAt_set_mkdir {d0 d : Map DNode} {r : Path} (v : DNode)
    (h : mkdirAll d0 (parentOf r) = some d) : FrameAt d0 (d.set r v) r := by
  intro x hx
  rw [Map.get?_set_ne _ _ _ _ (Ne.symm hx)]
  rcases mkdirAll_frame h x with h1 | ⟨a, b, c, e⟩
  · exact Or.inl h1
  · exact Or.inr ⟨c, e, isPrefix_trans b (parentOf_isPrefix r), a⟩

/-- destination file data equals the source's (what a transfer establishes) -/
def Matches (cfg : Cfg) (d m : FileMeta) : Prop :=
  d.content = m.content ∧ d.size = m.size ∧ d.mtime = m.mtime ∧
    d.xattrs = (if cfg.xattrs then m.xattrs else [])

theorem writeFile_spec {cfg : Cfg} {w w' : World} {p : Path} {m : FileMeta}
    (h : writeFile cfg w p m = some w') :
    ∃ d node, mkdirAll w.dst (parentOf p) = some d ∧ d.get? p ≠ some .dir ∧
      w'.dst = d.set p (.file node) ∧ Matches cfg node m ∧ w'.linkMap = w.linkMap ∧
      (∀ o, d.get? p = some (.file o) → node.ino = o.ino) := by
  unfold writeFile at h
  cases hm : mkdirAll w.dst (parentOf p) with
  | none => simp [hm] at h
  | some d =>
    simp only [hm] at h
    cases hg : d.get? p with
    | none =>
      simp only [hg, Option.some.injEq] at h
      subst h
      exact ⟨d, _, rfl, by simp [hg], rfl, ⟨rfl, rfl, rfl, rfl⟩, rfl, by intro o ho; simp [hg] at ho⟩
    | some v =>
      cases v with
      | dir => simp [hg] at h
      | file o =>
        simp only [hg, Option.some.injEq] at h
        subst h
        exact ⟨d, _, rfl, by simp [hg], rfl, ⟨rfl, rfl, rfl, rfl⟩, rfl, by intro o' ho; simp [hg] at ho; subst ho; rfl⟩
      | symlink s =>
        simp only [hg, Option.some.injEq] at h
        subst h
        exact ⟨d, _, rfl, by simp [hg], rfl, ⟨rfl, rfl, rfl, rfl⟩, rfl, by intro o ho; simp [hg] at ho⟩

theorem writeSymlink_spec {w w' : World} {p : Path} {text : String}
    (h : writeSymlink w p text = some w') :
    ∃ d, mkdirAll w.dst (parentOf p) = some d ∧ d.get? p ≠ some .dir ∧
      w'.dst = d.set p (.symlink text) ∧ w'.linkMap = w.linkMap := by
  unfold writeSymlink at h
  cases hm : mkdirAll w.dst (parentOf p) with
  | none => simp [hm] at h
  | some d =>
    simp only [hm] at h
    cases hg : d.get? p with
    | none => simp only [hg, Option.some.injEq] at h; subst h; exact ⟨d, rfl, by simp [hg], rfl, rfl⟩
    | some v =>
      cases v with
      | dir => simp [hg] at h
      | file o => simp only [hg, Option.some.injEq] at h; subst h; exact ⟨d, rfl, by simp [hg], rfl, rfl⟩
      | symlink s => simp only [hg, Option.some.injEq] at h; subst h; exact ⟨d, rfl, by simp [hg], rfl, rfl⟩

theorem linkFile_spec {w w' : World} {p first : Path} (h : linkFile w p first = some w') :
    ∃ d fm, mkdirAll w.dst (parentOf p) = some d ∧ d.get? p = none ∧ d.get? first = some (.file fm) ∧
      w'.dst = d.set p (.file fm) ∧ w'.linkMap = w.linkMap := by
  unfold linkFile at h
  cases hm : mkdirAll w.dst (parentOf p) with
  | none => simp [hm] at h
  | some d =>
    simp only [hm] at h
    cases hg : d.get? p with
    | some v => simp [hg] at h
    | none =>
      cases hf : d.get? first with
      | none => simp [hg, hf] at h
      | some v =>
        cases v with
        | dir => simp [hg, hf] at h
        | symlink s => simp [hg, hf] at h
        | file fm =>
          simp only [hg, hf, Option.some.injEq] at h
          subst h
          exact ⟨d, fm, rfl, hg, hf, rfl, rfl⟩

theorem relinkFile_spec {w w' : World} {p first : Path} (h : relinkFile w p first = some w') :
    ∃ d fm, mkdirAll w.dst (parentOf p) = some d ∧ d.get? p ≠ some .dir ∧ d.get? first = some (.file fm) ∧
      w'.dst = d.set p (.file fm) ∧ w'.linkMap = w.linkMap := by
  unfold relinkFile at h
  cases hm : mkdirAll w.dst (parentOf p) with
  | none => simp [hm] at h
  | some d =>
    simp only [hm] at h
    split at h
    · cases h
    · rename_i fm hf hnd
      simp only [Option.some.injEq] at h
      subst h
      exact ⟨d, fm, rfl, fun hd => hnd hd, hf, rfl, rfl⟩
    · cases h

/-! ### `perform` by action -/

theorem perform_skip {cfg : Cfg} {w : World} {t : Task} (h : t.act = .skip) : perform cfg w t = some w := by
  unfold perform; simp [h]

theorem perform_delete {cfg : Cfg} {w : World} {t : Task} (h : t.act = .delete) :
    perform cfg w t =
      if cfg.dryRun then some w else
        match w.dst.get? t.rel with
        | some .dir => some { w with dst := w.dst.eraseSubtree t.rel }
        | some _ => some { w with dst := w.dst.erase t.rel }
        | none => some w := by
  unfold perform; simp only [h]; rfl

/-- the create/update branch of `perform` -/
def performCU (cfg : Cfg) (w : World) (t : Task) : Option World :=
  match t.payload with
  | .nothing => some w
  | .dir => (mkdirAll (dirBase t.act w.dst t.rel) t.rel).map fun d => { w with dst := d }
  | .symlink text => writeSymlink w t.rel text
  | .file m nlink =>
    if (t.act = .create || t.act = .update) && cfg.hardlinks && decide (1 < nlink) then
      match w.linkMap.find? (·.1 == m.ino) with
      | some (_, first, _) => if t.act = .create then linkFile w t.rel first else relinkFile w t.rel first
      | none =>
        (writeFile cfg w t.rel m).map fun w' =>
          let ino := match w'.dst.get? t.rel with | some (.file f) => f.ino | _ => 0
          { w' with linkMap := (m.ino, t.rel, ino) :: w'.linkMap }
    else writeFile cfg w t.rel m

theorem perform_cu {cfg : Cfg} {w : World} {t : Task} (h1 : t.act ≠ .skip) (h2 : t.act ≠ .delete)
    (hd : cfg.dryRun = false) : perform cfg w t = performCU cfg w t := by
  unfold perform performCU
  cases ha : t.act with
  | skip => exact absurd ha h1
  | delete => exact absurd ha h2
  | create => simp only [hd, Bool.false_eq_true, ↓reduceIte]; rfl
  | update => simp only [hd, Bool.false_eq_true, ↓reduceIte]; rfl

/-! ### (F1)/(F2) for create/update -/

theorem set_mkdir_anc {d0 d : Map DNode} {p : Path} (v : DNode) (h : mkdirAll d0 (parentOf p) = some d)
    (x : Path) (hx : x ≠ []) (hp : isPrefix x p = true) (hne : x ≠ p) :
    (d.set p v).get? x = some .dir := by
  rw [Map.get?_set_ne _ _ _ _ (Ne.symm hne)]
  exact mkdirAll_dirs h x hx (isPrefix_parentOf hp hne)

/-- what a successful create/update with a file payload leaves behind: either a freshly written
    node with the source's data (possibly registering the link group), or a name of the registered
    first path of the group (hard link on creation, re-link on update) -/
theorem performCU_file {cfg : Cfg} {w w' : World} {t : Task} {m : FileMeta} {n : Nat}
    (hp : t.payload = .file m n) (h : performCU cfg w t = some w') :
    (∃ node, w'.dst.get? t.rel = some (.file node) ∧ Matches cfg node m ∧
        (∀ o, w.dst.get? t.rel = some (.file o) → node.ino = o.ino) ∧
        ((w'.linkMap = w.linkMap ∧ ((t.act = .create ∨ t.act = .update) → ¬ (cfg.hardlinks = true ∧ 1 < n))) ∨
          (∃ i, w'.linkMap = (m.ino, t.rel, i) :: w.linkMap) ∧ 1 < n ∧ cfg.hardlinks = true ∧
            w.linkMap.find? (·.1 == m.ino) = none)) ∨
    (∃ x fm, cfg.hardlinks = true ∧ 1 < n ∧ w.linkMap.find? (·.1 == m.ino) = some x ∧ x ∈ w.linkMap ∧
        x.1 = m.ino ∧ w.dst.get? x.2.1 = some (.file fm) ∧ w'.dst.get? t.rel = some (.file fm) ∧
        w'.linkMap = w.linkMap ∧ (t.act = .create → w.dst.get? t.rel = none)) := by
  unfold performCU at h
  simp only [hp] at h
  have hwf : ∀ w1, writeFile cfg w t.rel m = some w1 →
      ∃ node, w1.dst.get? t.rel = some (.file node) ∧ Matches cfg node m ∧
        (∀ o, w.dst.get? t.rel = some (.file o) → node.ino = o.ino) ∧ w1.linkMap = w.linkMap := by
    intro w1 h1
    obtain ⟨d, node, hm, _, hd, hmat, hl, hino⟩ := writeFile_spec h1
    refine ⟨node, by rw [hd]; simp, hmat, ?_, hl⟩
    intro o ho
    apply hino
    rcases mkdirAll_frame hm t.rel with h2 | ⟨_, _, c, _⟩
    · rw [h2]; exact ho
    · rw [ho] at c; cases c
  split at h
  · rename_i hc
    simp only [Bool.and_eq_true, decide_eq_true_eq] at hc
    obtain ⟨⟨_, hhl⟩, hn⟩ := hc
    split at h
    · rename_i i first j hfind
      have hmem := List.mem_of_find?_eq_some hfind
      have hxi : (i, first, j).1 = m.ino := by have := List.find?_some hfind; simpa using this
      -- both linking variants: `d.set p (.file fm)` with `fm` the node at `first`
      have common : ∀ d fm, mkdirAll w.dst (parentOf t.rel) = some d → d.get? first = some (.file fm) →
          w'.dst = d.set t.rel (.file fm) → w'.linkMap = w.linkMap →
          w.dst.get? first = some (.file fm) ∧ w'.dst.get? t.rel = some (.file fm) := by
        intro d fm hm hfirst hd _
        refine ⟨?_, by rw [hd]; simp⟩
        rcases mkdirAll_frame hm first with h2 | ⟨_, _, _, e⟩
        · rw [← h2]; exact hfirst
        · rw [hfirst] at e; cases e
      by_cases hcr : t.act = .create
      · rw [if_pos hcr] at h
        obtain ⟨d, fm, hm, hnone, hfirst, hd, hl⟩ := linkFile_spec h
        obtain ⟨c1, c2⟩ := common d fm hm hfirst hd hl
        refine Or.inr ⟨(i, first, j), fm, hhl, hn, hfind, hmem, hxi, c1, c2, hl, fun _ => ?_⟩
        rcases mkdirAll_frame hm t.rel with h2 | ⟨_, _, c, _⟩
        · rw [← h2]; exact hnone
        · exact c
      · rw [if_neg hcr] at h
        obtain ⟨d, fm, hm, _, hfirst, hd, hl⟩ := relinkFile_spec h
        obtain ⟨c1, c2⟩ := common d fm hm hfirst hd hl
        exact Or.inr ⟨(i, first, j), fm, hhl, hn, hfind, hmem, hxi, c1, c2, hl, fun h => absurd h hcr⟩
    · rename_i hfind
      cases h1 : writeFile cfg w t.rel m with
      | none => simp [h1] at h
      | some w1 =>
        simp only [h1, Option.map_some, Option.some.injEq] at h
        obtain ⟨node, a, b, c, e⟩ := hwf w1 h1
        subst h
        exact Or.inl ⟨node, a, b, c, Or.inr ⟨⟨_, by rw [← e]⟩, hn, hhl, hfind⟩⟩
  · rename_i hc
    obtain ⟨node, a, b, c, e⟩ := hwf w' h
    refine Or.inl ⟨node, a, b, c, Or.inl ⟨e, fun hact hh => hc ?_⟩⟩
    simp only [Bool.and_eq_true, Bool.or_eq_true, decide_eq_true_eq]
    exact ⟨⟨hact, hh.1⟩, hh.2⟩

theorem performCU_nothing {cfg : Cfg} {w w' : World} {t : Task} (hp : t.payload = .nothing)
    (h : performCU cfg w t = some w') : w' = w := by
  unfold performCU at h; simp only [hp, Option.some.injEq] at h; exact h.symm

theorem performCU_dir {cfg : Cfg} {w w' : World} {t : Task} (hp : t.payload = .dir)
    (h : performCU cfg w t = some w') :
    (t.rel ≠ [] → w'.dst.get? t.rel = some .dir) ∧ w'.linkMap = w.linkMap := by
  unfold performCU at h; simp only [hp] at h
  cases hm : mkdirAll (dirBase t.act w.dst t.rel) t.rel with
  | none => simp [hm] at h
  | some d =>
    simp only [hm, Option.map_some, Option.some.injEq] at h; subst h
    exact ⟨fun hne => mkdirAll_dirs hm _ hne (isPrefix_refl _), rfl⟩

/-- a directory task completes only where nothing or a directory was — or, for an update (the replacement of a
    destination link standing where the source has a directory, fix 862af11), a symlink -/
theorem performCU_dir_pre {cfg : Cfg} {w w' : World} {t : Task} (hp : t.payload = .dir)
    (h : performCU cfg w t = some w') (hne : t.rel ≠ []) :
    w.dst.get? t.rel = none ∨ w.dst.get? t.rel = some .dir ∨
      (t.act = .update ∧ ∃ s, w.dst.get? t.rel = some (.symlink s)) := by
  unfold performCU at h; simp only [hp] at h
  cases hm : mkdirAll (dirBase t.act w.dst t.rel) t.rel with
  | none => simp [hm] at h
  | some d =>
    rcases dirBase_get?_self t.act w.dst t.rel with he | ⟨hu, hs, _⟩
    · rcases mkdirAll_pre hm t.rel hne (isPrefix_refl _) with h1 | h1
      · exact Or.inl (he ▸ h1)
      · exact Or.inr (Or.inl (he ▸ h1))
    · exact Or.inr (Or.inr ⟨hu, hs⟩)

theorem performCU_symlink {cfg : Cfg} {w w' : World} {t : Task} {text : String}
    (hp : t.payload = .symlink text) (h : performCU cfg w t = some w') :
    w'.dst.get? t.rel = some (.symlink text) ∧ w'.linkMap = w.linkMap := by
  unfold performCU at h; simp only [hp] at h
  obtain ⟨d, _, _, hd, hl⟩ := writeSymlink_spec h
  exact ⟨by rw [hd]; simp, hl⟩

/-- (F1) for create/update, and: the non-root strict ancestors are directories afterwards
    unless the payload is empty -/
theorem performCU_frame {cfg : Cfg} {w w' : World} {t : Task} (h : performCU cfg w t = some w') :
    FrameAt w.dst w'.dst t.rel ∧
    (t.payload ≠ .nothing → ∀ x, x ≠ [] → isPrefix x t.rel = true → x ≠ t.rel → w'.dst.get? x = some .dir) := by
  unfold performCU at h
  cases hp : t.payload with
  | nothing => simp only [hp, Option.some.injEq] at h; subst h; exact ⟨FrameAt.rfl' _ _, fun hn => absurd rfl hn⟩
  | dir =>
    simp only [hp] at h
    cases hm : mkdirAll (dirBase t.act w.dst t.rel) t.rel with
    | none => simp [hm] at h
    | some d =>
      simp only [hm, Option.map_some, Option.some.injEq] at h; subst h
      refine ⟨fun x hx => ?_, fun _ x hx hpx _ => mkdirAll_dirs hm x hx hpx⟩
      have := frameAt_mkdir hm x hx
      rwa [dirBase_get?_ne _ _ _ _ hx] at this
  | symlink text =>
    simp only [hp] at h
    obtain ⟨d, hm, _, hd, _⟩ := writeSymlink_spec h
    rw [hd]
    exact ⟨frameAt_set_mkdir _ hm, fun _ x hx hpx hne => set_mkdir_anc _ hm x hx hpx hne⟩
  | file m n =>
    simp only [hp] at h
    have hwf : ∀ w1, writeFile cfg w t.rel m = some w1 → FrameAt w.dst w1.dst t.rel ∧
        (∀ x, x ≠ [] → isPrefix x t.rel = true → x ≠ t.rel → w1.dst.get? x = some .dir) := by
      intro w1 h1
      obtain ⟨d, node, hm, _, hd, _, _, _⟩ := writeFile_spec h1
      rw [hd]
      exact ⟨frameAt_set_mkdir _ hm, fun x hx hpx hne => set_mkdir_anc _ hm x hx hpx hne⟩
    split at h
    · split at h
      · split at h
        · obtain ⟨d, fm, hm, _, _, hd, _⟩ := linkFile_spec h
          rw [hd]
          exact ⟨frameAt_set_mkdir _ hm, fun _ x hx hpx hne => set_mkdir_anc _ hm x hx hpx hne⟩
        · obtain ⟨d, fm, hm, _, _, hd, _⟩ := relinkFile_spec h
          rw [hd]
          exact ⟨frameAt_set_mkdir _ hm, fun _ x hx hpx hne => set_mkdir_anc _ hm x hx hpx hne⟩
      · cases h1 : writeFile cfg w t.rel m with
        | none => simp [h1] at h
        | some w1 =>
          simp only [h1, Option.map_some, Option.some.injEq] at h
          subst h
          exact ⟨(hwf w1 h1).1, fun _ => (hwf w1 h1).2⟩
    · exact ⟨(hwf w' h).1, fun _ => (hwf w' h).2⟩

/-! ### (F1) for delete -/

theorem perform_delete_spec {cfg : Cfg} {w w' : World} {t : Task} (ha : t.act = .delete)
    (hd : cfg.dryRun = false) (h : perform cfg w t = some w') :
    w'.linkMap = w.linkMap ∧ w'.dst.get? t.rel = none ∧
    (∀ x, isPrefix t.rel x = false → w'.dst.get? x = w.dst.get? x) ∧
    (∀ x, w'.dst.get? x = none ∨ w'.dst.get? x = w.dst.get? x) ∧
    (∀ x, w'.dst.get? x = if isPrefix t.rel x && (x == t.rel || w.dst.get? t.rel == some .dir) then none
                          else w.dst.get? x) := by
  rw [perform_delete ha] at h
  simp only [hd, Bool.false_eq_true, ↓reduceIte] at h
  have hne : ∀ x, isPrefix t.rel x = false → t.rel ≠ x := by
    intro x hx he; rw [he, isPrefix_refl] at hx; cases hx
  cases hg : w.dst.get? t.rel with
  | none =>
    simp only [hg, Option.some.injEq] at h; subst h
    refine ⟨rfl, hg, fun _ _ => rfl, fun _ => Or.inr rfl, fun x => ?_⟩
    by_cases hx : x = t.rel
    · subst hx; simp [hg, isPrefix_refl]
    · simp [hx]
  | some v =>
    cases v with
    | dir =>
      simp only [hg, Option.some.injEq] at h; subst h
      refine ⟨rfl, ?_, fun x hx => ?_, fun x => ?_, fun x => ?_⟩
      · simp [Map.get?_eraseSubtree, isPrefix_refl]
      · simp [Map.get?_eraseSubtree, hx]
      · simp only [Map.get?_eraseSubtree]; split <;> simp
      · simp only [Map.get?_eraseSubtree]
        by_cases hx : isPrefix t.rel x = true <;> simp [hx]
    | file o =>
      simp only [hg, Option.some.injEq] at h; subst h
      refine ⟨rfl, ?_, fun x hx => ?_, fun x => ?_, fun x => ?_⟩
      · simp [Map.get?_erase]
      · simp [Map.get?_erase, hne x hx]
      · simp only [Map.get?_erase]; split <;> simp
      · simp only [Map.get?_erase]
        by_cases hx : t.rel = x
        · subst hx; simp [isPrefix_refl]
        · have : ¬ x = t.rel := fun h => hx h.symm
          simp [hx, this]
    | symlink s =>
      simp only [hg, Option.some.injEq] at h; subst h
      refine ⟨rfl, ?_, fun x hx => ?_, fun x => ?_, fun x => ?_⟩
      · simp [Map.get?_erase]
      · simp [Map.get?_erase, hne x hx]
      · simp only [Map.get?_erase]; split <;> simp
      · simp only [Map.get?_erase]
        by_cases hx : t.rel = x
        · subst hx; simp [isPrefix_refl]
        · have : ¬ x = t.rel := fun h => hx h.symm
          simp [hx, this]

/-! ### `execTask` -/

/-- the fault that actually hits task `t` (none in a dry run or for a skip) -/
def faultOf (cfg : Cfg) (flt : Faults) (t : Task) : Option (Option DNode) :=
  if cfg.dryRun || t.act == .skip then none else flt t

theorem faultOf_noFaults (cfg : Cfg) (t : Task) : faultOf cfg noFaults t = none := by
  unfold faultOf noFaults; split <;> rfl

theorem execTask_cases (cfg : Cfg) (flt : Faults) (st : Exec) (t : Task) :
    (∃ g, faultOf cfg flt t = some g ∧ t.act ≠ .skip ∧ cfg.dryRun = false ∧
        execTask cfg flt st t = ⟨{ st.w with dst := garbageAt st.w.dst t.rel g }, st.b.fail t⟩) ∨
    (faultOf cfg flt t = none ∧ ∃ w', perform cfg st.w t = some w' ∧ execTask cfg flt st t = ⟨w', st.b.ok t⟩) ∨
    (faultOf cfg flt t = none ∧ perform cfg st.w t = none ∧ execTask cfg flt st t = ⟨st.w, st.b.fail t⟩) := by
  unfold execTask
  cases hf : faultOf cfg flt t with
  | some g =>
    left
    have hf' := hf
    unfold faultOf at hf
    split at hf
    · cases hf
    · rename_i hc
      simp only [Bool.or_eq_true, beq_iff_eq, not_or, Bool.not_eq_true] at hc
      refine ⟨g, rfl, hc.2, hc.1, ?_⟩
      unfold faultOf at hf'
      rw [hf']
  | none =>
    right
    unfold faultOf at hf
    rw [hf]
    cases hp : perform cfg st.w t with
    | some w' => exact Or.inl ⟨rfl, w', rfl, rfl⟩
    | none => exact Or.inr ⟨rfl, rfl, rfl⟩

theorem Book.fail_errors (b : Book) (t : Task) : (b.fail t).errors = (t.act, t.rel) :: b.errors := rfl
theorem Book.fail_events (b : Book) (t : Task) : (b.fail t).events = b.events := rfl

/-- a task completed iff it did not add an error -/
theorem execTask_ok_of_errors {cfg : Cfg} {flt : Faults} {st : Exec} {t : Task}
    (h : (execTask cfg flt st t).b.errors = st.b.errors) :
    faultOf cfg flt t = none ∧ ∃ w', perform cfg st.w t = some w' ∧ execTask cfg flt st t = ⟨w', st.b.ok t⟩ := by
  rcases execTask_cases cfg flt st t with ⟨g, _, _, _, he⟩ | ⟨hf, w', hp, he⟩ | ⟨_, _, he⟩
  · rw [he] at h; simp [Book.fail_errors] at h
  · exact ⟨hf, w', hp, he⟩
  · rw [he] at h; simp [Book.fail_errors] at h

theorem garbageAt_get?_ne (d : Map DNode) (p x : Path) (g : Option DNode) (h : x ≠ p) :
    (garbageAt d p g).get? x = d.get? x := by
  cases g with
  | none => simp [garbageAt, Map.get?_erase, Ne.symm h]
  | some v => simp [garbageAt, Map.get?_set, Ne.symm h]

/-- (F1) one task, whatever its outcome (completed, failed, faulted) -/
theorem execTask_frame (cfg : Cfg) (flt : Faults) (st : Exec) (t : Task) (x : Path) (hx : t.rel ≠ x)
    (hdel : t.act = .delete → isPrefix t.rel x = false) :
    (execTask cfg flt st t).w.dst.get? x = st.w.dst.get? x ∨
      (st.w.dst.get? x = none ∧ (execTask cfg flt st t).w.dst.get? x = some .dir ∧ x ≠ [] ∧
        isPrefix x t.rel = true ∧ t.act ≠ .delete ∧ t.act ≠ .skip) := by
  rcases execTask_cases cfg flt st t with ⟨g, _, _, _, he⟩ | ⟨hf, w', hp, he⟩ | ⟨_, _, he⟩
  · rw [he]; exact Or.inl (garbageAt_get?_ne _ _ _ _ (Ne.symm hx))
  · rw [he]
    by_cases hdry : cfg.dryRun = true
    · rw [perform_dry cfg hdry] at hp; cases hp; exact Or.inl rfl
    · simp only [Bool.not_eq_true] at hdry
      by_cases hs : t.act = .skip
      · rw [perform_skip hs] at hp; cases hp; exact Or.inl rfl
      · by_cases hd : t.act = .delete
        · exact Or.inl ((perform_delete_spec hd hdry hp).2.2.1 x (hdel hd))
        · rw [perform_cu hs hd hdry] at hp
          rcases (performCU_frame hp).1 x (Ne.symm hx) with h1 | ⟨a, b, c, e⟩
          · exact Or.inl h1
          · exact Or.inr ⟨a, b, e, c, hd, hs⟩
  · rw [he]; exact Or.inl rfl

/-- task `t` may change what is at `x`: a delete at or above `x`, or a create/update at or below -/
def Covers (t : Task) (x : Path) : Prop :=
  (t.act = .delete ∧ isPrefix t.rel x = true) ∨ (t.act ≠ .delete ∧ t.act ≠ .skip ∧ isPrefix x t.rel = true)

theorem execTask_get?_eq (cfg : Cfg) (flt : Faults) (st : Exec) (t : Task) (x : Path) (h : ¬ Covers t x) :
    (execTask cfg flt st t).w.dst.get? x = st.w.dst.get? x := by
  by_cases hs : t.act = .skip
  · rcases execTask_cases cfg flt st t with ⟨g, _, hns, _, he⟩ | ⟨hf, w', hp, he⟩ | ⟨_, _, he⟩
    · exact absurd hs hns
    · rw [he]; rw [perform_skip hs] at hp; cases hp; rfl
    · rw [he]
  · have hx : t.rel ≠ x := by
      intro he; apply h
      by_cases hd : t.act = .delete
      · exact Or.inl ⟨hd, he ▸ isPrefix_refl _⟩
      · exact Or.inr ⟨hd, hs, he ▸ isPrefix_refl _⟩
    have hdel : t.act = .delete → isPrefix t.rel x = false := by
      intro hd
      cases hp : isPrefix t.rel x with
      | false => rfl
      | true => exact absurd (Or.inl ⟨hd, hp⟩) h
    rcases execTask_frame cfg flt st t x hx hdel with h1 | ⟨_, _, _, c, d, e⟩
    · exact h1
    · exact absurd (Or.inr ⟨d, e, c⟩) h

/-! ### (F3) lifting to the fold -/

/-- paths that the tasks of `ts` neither own nor delete from above keep their node; an absent one
    may become a directory as an ancestor of a create/update in `ts` -/
theorem foldl_frame (cfg : Cfg) (flt : Faults) (ts : List Task) (st : Exec) (x : Path)
    (h : ∀ t ∈ ts, t.rel ≠ x ∧ (t.act = .delete → isPrefix t.rel x = false)) :
    (ts.foldl (execTask cfg flt) st).w.dst.get? x = st.w.dst.get? x ∨
      (st.w.dst.get? x = none ∧ (ts.foldl (execTask cfg flt) st).w.dst.get? x = some .dir ∧ x ≠ [] ∧
        ∃ t ∈ ts, isPrefix x t.rel = true ∧ t.act ≠ .delete ∧ t.act ≠ .skip) := by
  induction ts generalizing st with
  | nil => exact Or.inl rfl
  | cons t ts ih =>
    rw [List.foldl_cons]
    have ht := h t (List.mem_cons_self ..)
    have ih' := ih (execTask cfg flt st t) (fun t' ht' => h t' (List.mem_cons_of_mem _ ht'))
    rcases execTask_frame cfg flt st t x ht.1 ht.2 with h1 | ⟨a, b, c, d, e, f⟩
    · rcases ih' with h2 | ⟨a2, b2, c2, t', ht', d2⟩
      · exact Or.inl (h2.trans h1)
      · exact Or.inr ⟨h1 ▸ a2, b2, c2, t', List.mem_cons_of_mem _ ht', d2⟩
    · rcases ih' with h2 | ⟨a2, _⟩
      · exact Or.inr ⟨a, h2.trans b, c, t, List.mem_cons_self .., d, e, f⟩
      · rw [b] at a2; cases a2

theorem foldl_frame_present (cfg : Cfg) (flt : Faults) (ts : List Task) (st : Exec) (x : Path)
    (h : ∀ t ∈ ts, t.rel ≠ x ∧ (t.act = .delete → isPrefix t.rel x = false))
    (hx : st.w.dst.get? x ≠ none) :
    (ts.foldl (execTask cfg flt) st).w.dst.get? x = st.w.dst.get? x := by
  rcases foldl_frame cfg flt ts st x h with h1 | ⟨a, _⟩
  · exact h1
  · exact absurd a hx

/-- a path not covered by any task of `ts` is unchanged -/
theorem foldl_get?_eq (cfg : Cfg) (flt : Faults) (ts : List Task) (st : Exec) (x : Path)
    (h : ∀ t ∈ ts, ¬ Covers t x) :
    (ts.foldl (execTask cfg flt) st).w.dst.get? x = st.w.dst.get? x := by
  induction ts generalizing st with
  | nil => rfl
  | cons t ts ih =>
    rw [List.foldl_cons, ih _ (fun t' ht' => h t' (List.mem_cons_of_mem _ ht'))]
    exact execTask_get?_eq cfg flt st t x (h t (List.mem_cons_self ..))

end SyModel.Engine
