/-
  Lemmas.GenLocalFs — the POSIX-level world the translated local transport
  (`Generated/Code/LocalFs.lean`: `LocalTransport::{exists, metadata, create_dir_all, remove, create_hardlink,
  create_symlink}`, `break_unshared_hard_link`, `remove_if_symlink`, src/transport/local.rs) is run in, the INSTANCE
  `posix` of its `Ext` that gives every primitive file-system call its POSIX meaning, and the helper lemmas of
  `Props/GenLocalFs.lean`.

  ## The world `PWorld` (TRUSTED, with `posix`)

    * `names`    — a finite map (association list, first binding wins) from path TEXTS (`Rs.Path`, the characters) to
                   what the name holds: a regular file (`file ino`: a name of inode `ino`), a directory, or a symbolic
                   link with its target text;
    * `inodes`   — per inode: content id, size, mtime, xattrs and the link count `nlink`;
    * `dirNlink` — the `st_nlink` the file system reports for directories (2 + subdirectories classically, 1 on
                   btrfs): a parameter, nothing depends on its value.

  ## What is simplified (say it once, here)

    * a name is its TEXT: there is no normalisation (`a//b`, `a/./b`, `..`) and NO aliasing through a symbolic link in
      an INTERMEDIATE component (`l/x` with `l -> d` is not the same name as `d/x`).  Symbolic links are resolved for
      the FINAL component only (`stat`), at most `maxLinks` = 40 hops (Linux `MAXSYMLINKS`; more is `ELOOP`); a relative
      target is taken relative to `Path::parent` of the link's name;
    * the parent of a top-level name is the empty text (that is what the vocabulary's `Rs.parent` answers for `/x` and
      for `x`): it stands for a directory that always exists and is never created or removed;
    * errors are not distinguished (`Rs.Err.io` for all of ENOENT, EEXIST, ENOTDIR, EISDIR, ELOOP); directories carry no
      mtime/size (`metadata` of a directory reports 0, 0); permissions, open handles and free space are outside;
    * one primitive is atomic.

  ## `posix : Ext PWorld` — the POSIX facts it encodes (checked against rustc 1.95 `std::fs` on Linux, see INTEGRATION.md)

    try_exists p          `stat`: FOLLOWS a trailing link; `Ok(true)` on a node, `Ok(false)` on ENOENT (also of a dangling
                          link), `Err` on ELOOP
    tokio_fs_metadata p   `stat` (follows): kind/mtime/size of the node the path resolves to; `Err` when there is none
    *_symlink_metadata p  `lstat`: the entry ITSELF, never follows
    create_dir_all p      `mkdir -p`: every non-empty prefix of `p` (by `Path::parent`), shortest first, must be absent
                          (then it is created) or resolve to a directory (then nothing happens: idempotent); a prefix that
                          is a file, a dangling link or a link to a file fails (ENOTDIR / EEXIST); what was created
                          before the failing prefix stays
    remove_file p         `unlink`: removes the NAME `p` — a link itself, never its target; a regular file's inode loses
                          one link and every other name of it keeps the content; EISDIR on a directory; ENOENT on nothing
    remove_dir_all p      `std::fs::remove_dir_all`: `lstat` first — a symbolic link is unlinked ITSELF (documented: "does
                          not follow symbolic links"); a directory goes with every name below it (files below lose one
                          link each); ENOTDIR on a regular file; ENOENT on nothing
    hard_link s d         `linkat(s, d, 0)`: EEXIST when `d` holds anything (lstat); ENOENT when `d`'s parent is not a
                          directory; `s` is NOT followed: a regular file gets a second name and one more link, a link gets
                          a second name (Linux); EPERM on a directory
    symlink t d           EEXIST when `d` holds anything (lstat), ENOENT when the parent is not a directory; else the
                          name `d` is a link with text `t` (the text is stored as given, never resolved)
    tokio_fs_read_link p  the text of the link at `p` (lstat); EINVAL/ENOENT otherwise
    has_hard_links p      src/fs_util.rs:209-216: `std::fs::metadata(path).map(|m| m.nlink() > 1).unwrap_or(false)` — it
                          FOLLOWS a trailing link: `nlink > 1` of what the path resolves to, `false` on any error
    err_kind              opaque
-/
import SyModel.Generated.Code.LocalFs
import SyModel.Lemmas.GenTransfer
set_option linter.unusedVariables false
set_option linter.unusedSimpArgs false
namespace SyModel.Lemmas.GenLocalFs
open SyModel SyModel.Generated SyModel.Generated.LocalFs
open SyModel.Lemmas.GenTransfer (op runM runM_op runM_pure runM_throw runM_bind)

/-! ### the world -/

/-- what a name holds -/
inductive PNode where
  | file (ino : Nat)
  | dir
  | symlink (target : Rs.Path)
  deriving DecidableEq, Repr, Inhabited

/-- an inode of a regular file -/
structure Inode where
  content : Nat
  size    : Nat
  mtime   : Nat
  xattrs  : List (String × Nat)
  nlink   : Nat
  deriving DecidableEq, Repr, Inhabited

structure PWorld where
  names    : List (Rs.Path × PNode)
  inodes   : Nat → Inode
  dirNlink : Nat

/-- first binding of `p` in an association list -/
def lookup : List (Rs.Path × PNode) → Rs.Path → Option PNode
  | [], _ => none
  | (q, n) :: t, p => if q = p then some n else lookup t p

/-- `lstat`: what the NAME holds (never follows) -/
def PWorld.lstat (w : PWorld) (p : Rs.Path) : Option PNode := lookup w.names p

/-- where the link `p` with text `t` points: an absolute text as it is, a relative one below `p`'s parent -/
def linkDest (p t : Rs.Path) : Rs.Path :=
  if t.head? = some '/' then t else Rs.join ((Rs.parent p).getD []) t

/-- the result of resolving the final component -/
inductive Stat where
  | node (at_ : Rs.Path) (n : PNode)   -- the name reached and what it holds (never a `symlink`)
  | noent                              -- nothing there / dangling link
  | loop                               -- too many links (ELOOP)
  deriving DecidableEq, Repr

def resolve (w : PWorld) : Nat → Rs.Path → Stat
  | 0, _ => .loop
  | n + 1, p =>
    match w.lstat p with
    | none => .noent
    | some (.symlink t) => resolve w n (linkDest p t)
    | some nd => .node p nd

def maxLinks : Nat := 40

/-- `stat`: follows a trailing link -/
def PWorld.stat (w : PWorld) (p : Rs.Path) : Stat := resolve w (maxLinks + 1) p

/-- `stat(p)` is a directory -/
def PWorld.isDir (w : PWorld) (p : Rs.Path) : Bool := match w.stat p with | .node _ .dir => true | _ => false

/-- the directory a new name `p` is entered into exists (the empty parent text always does, head of this file) -/
def PWorld.parentOk (w : PWorld) (p : Rs.Path) : Bool :=
  match Rs.parent p with
  | some [] => true
  | some q => w.isDir q
  | none => false

/-- the names with `p` removed -/
def eraseName (l : List (Rs.Path × PNode)) (p : Rs.Path) : List (Rs.Path × PNode) := l.filter fun e => !(e.1 == p)

/-- `q` is `p` or a name below it -/
def under (p q : Rs.Path) : Bool := q == p || (p ++ ['/']).isPrefixOf q

def decLink (t : Nat → Inode) (i : Nat) : Nat → Inode :=
  fun j => if j = i then { t j with nlink := (t j).nlink - 1 } else t j
def incLink (t : Nat → Inode) (i : Nat) : Nat → Inode :=
  fun j => if j = i then { t j with nlink := (t j).nlink + 1 } else t j

/-- every regular-file name in `es` gives its link back -/
def dropLinks (t : Nat → Inode) (es : List (Rs.Path × PNode)) : Nat → Inode :=
  es.foldl (fun t e => match e.2 with | .file i => decLink t i | _ => t) t

/-- bind `p` (absent before) -/
def PWorld.enter (w : PWorld) (p : Rs.Path) (n : PNode) : PWorld := { w with names := (p, n) :: w.names }

/-- `unlink(p)` of a name that holds `n` (not a directory) -/
def PWorld.unlink (w : PWorld) (p : Rs.Path) (n : PNode) : PWorld :=
  { w with names := eraseName w.names p,
           inodes := match n with | .file i => decLink w.inodes i | _ => w.inodes }

/-- `Path::parent` chain of `p`, shortest first, without the empty text (fuel = length: each parent is shorter) -/
def prefixesAux : Nat → Rs.Path → List Rs.Path
  | 0, _ => []
  | n + 1, p =>
    if p = [] then [] else
    (match Rs.parent p with | some q => prefixesAux n q | none => []) ++ [p]
def prefixes (p : Rs.Path) : List Rs.Path := prefixesAux p.length p

/-- one `mkdir` of `create_dir_all`: absent ⇒ created; resolves to a directory ⇒ fine; anything else ⇒ failure.
    The state is (world so far, failed?) -/
def mkdirStep (acc : PWorld × Bool) (q : Rs.Path) : PWorld × Bool :=
  if acc.2 then acc else
  match acc.1.lstat q with
  | none => (acc.1.enter q .dir, false)
  | some _ => if acc.1.isDir q then acc else (acc.1, true)

/-- `create_dir_all`: the world after it and whether it failed -/
def mkdirP (w : PWorld) (p : Rs.Path) : PWorld × Bool := (prefixes p).foldl mkdirStep (w, false)

def fail {α : Type} (w : PWorld) : Except Rs.Err α × PWorld := (.error .io, w)

/-- `lstat` as `std::fs::Metadata` -/
def PWorld.lmeta (w : PWorld) : PNode → Rs.LMetadata
  | .file i => ⟨.file, (w.inodes i).nlink⟩
  | .dir => ⟨.dir, w.dirNlink⟩
  | .symlink _ => ⟨.symlink, 1⟩

def lstatOp (p : Rs.Path) : Rs.M PWorld Rs.LMetadata := op fun w =>
  match w.lstat p with
  | some n => (.ok (w.lmeta n), w)
  | none => fail w

/-- `remove_file` -/
def unlinkOp (p : Rs.Path) : Rs.M PWorld Unit := op fun w =>
  match w.lstat p with
  | some .dir => fail w
  | some n => (.ok (), w.unlink p n)
  | none => fail w

/-- the world without `p` and everything below it -/
def PWorld.removeTree (w : PWorld) (p : Rs.Path) : PWorld :=
  { w with names := w.names.filter fun e => !(under p e.1),
           inodes := dropLinks w.inodes (w.names.filter fun e => under p e.1) }

/-- THE INSTANCE (head of this file) -/
def posix : Ext PWorld where
  try_exists p := op fun w =>
    match w.stat p with
    | .node _ _ => (.ok true, w)
    | .noent => (.ok false, w)
    | .loop => fail w
  tokio_fs_metadata p := op fun w =>
    match w.stat p with
    | .node _ (.file i) => (.ok ⟨false, (w.inodes i).mtime, (w.inodes i).size⟩, w)
    | .node _ .dir => (.ok ⟨true, 0, 0⟩, w)
    | _ => fail w
  tokio_fs_symlink_metadata := lstatOp
  fs_symlink_metadata := lstatOp
  create_dir_all p := op fun w =>
    match mkdirP w p with
    | (w', false) => (.ok (), w')
    | (w', true) => fail w'
  remove_dir_all p := op fun w =>
    match w.lstat p with
    | some (.symlink t) => (.ok (), w.unlink p (.symlink t))
    | some .dir => (.ok (), w.removeTree p)
    | some (.file _) => fail w
    | none => fail w
  remove_file := unlinkOp
  hard_link s d := op fun w =>
    match w.lstat d, w.parentOk d, w.lstat s with
    | none, true, some (.file i) => (.ok (), { w.enter d (.file i) with inodes := incLink w.inodes i })
    | none, true, some (.symlink t) => (.ok (), w.enter d (.symlink t))
    | _, _, _ => fail w
  symlink t d := op fun w =>
    match w.lstat d, w.parentOk d with
    | none, true => (.ok (), w.enter d (.symlink t))
    | _, _ => fail w
  tokio_fs_read_link p := op fun w =>
    match w.lstat p with
    | some (.symlink t) => (.ok t, w)
    | _ => fail w
  has_hard_links p := op fun w =>
    match w.stat p with
    | .node _ (.file i) => (.ok (decide ((w.inodes i).nlink > 1)), w)
    | .node _ .dir => (.ok (decide (w.dirNlink > 1)), w)
    | _ => (.ok false, w)
  err_kind _ := pure default


/-! ### running the generated functions on `posix`: closed forms -/

@[simp] theorem runM_capture {W α : Type} (x : Rs.M W α) (w : W) :
    runM (Rs.capture x) w = (.ok (runM x w).1, (runM x w).2) := rfl

theorem runM_map {W α β : Type} (f : α → β) (x : Rs.M W α) (w : W) :
    runM (f <$> x) w = match runM x w with
      | (.ok a, w') => (.ok (f a), w')
      | (.error e, w') => (.error e, w') := by
  rw [map_eq_pure_bind, runM_bind]
  rcases runM x w with ⟨r, w'⟩
  cases r <;> rfl

/-- does the path resolve to anything (`stat` succeeds) -/
def PWorld.existsF (w : PWorld) (p : Rs.Path) : Bool := match w.stat p with | .node _ _ => true | _ => false

theorem exists_run (self : LocalTransport) (w : PWorld) (p : Rs.Path) :
    runM (LocalTransport.exists posix self p) w = (.ok (w.existsF p), w) := by
  unfold LocalTransport.exists PWorld.existsF
  simp only [runM_bind, runM_capture, posix, runM_op]
  cases h : w.stat p <;> simp [fail, Rs.unwrap_or, Rs.UnwrapOr.unwrap_or]

theorem metadata_run (self : LocalTransport) (w : PWorld) (p : Rs.Path) :
    runM (LocalTransport.metadata posix self p) w =
      match w.stat p with
      | .node _ (.file i) => (.ok ⟨false, (w.inodes i).mtime, (w.inodes i).size⟩, w)
      | .node _ .dir => (.ok ⟨true, 0, 0⟩, w)
      | _ => fail w := by
  unfold LocalTransport.metadata
  simp only [posix, runM_op]

theorem create_dir_all_run (self : LocalTransport) (w : PWorld) (p : Rs.Path) :
    runM (LocalTransport.create_dir_all posix self p) w =
      match mkdirP w p with
      | (w', false) => (.ok (), w')
      | (w', true) => fail w' := by
  unfold LocalTransport.create_dir_all
  simp only [posix, runM_op]

theorem remove_run (self : LocalTransport) (w : PWorld) (p : Rs.Path) (isDir : Bool) :
    runM (LocalTransport.remove posix self p isDir) w =
      match w.lstat p with
      | none => fail w
      | some (.symlink t) => (.ok (), w.unlink p (.symlink t))
      | some .dir => if isDir then (.ok (), w.removeTree p) else fail w
      | some (.file i) => if isDir then fail w else (.ok (), w.unlink p (.file i)) := by
  unfold LocalTransport.remove
  cases isDir <;> simp only [runM_bind, posix, unlinkOp, runM_op, Bool.false_eq_true, ↓reduceIte]
  all_goals cases h : w.lstat p with
    | none => simp [fail]
    | some n => cases n <;> simp [fail]

theorem remove_if_symlink_run (w : PWorld) (p : Rs.Path) :
    runM (remove_if_symlink posix p) w =
      match w.lstat p with
      | some (.symlink t) => (.ok (), w.unlink p (.symlink t))
      | _ => (.ok (), w) := by
  unfold remove_if_symlink
  simp only [runM_bind, runM_capture, posix, lstatOp, unlinkOp, runM_op]
  cases h : w.lstat p with
  | none => simp [fail]
  | some n => cases n <;> simp [h, PWorld.lmeta, Rs.l_is_symlink, Rs.l_file_type, runM_op, fail]

/-- `has_hard_links`: `nlink > 1` of what the path resolves to -/
def PWorld.hasLinks (w : PWorld) (p : Rs.Path) : Bool :=
  match w.stat p with
  | .node _ (.file i) => decide ((w.inodes i).nlink > 1)
  | .node _ .dir => decide (w.dirNlink > 1)
  | _ => false

theorem break_unshared_hard_link_run (w : PWorld) (s d : Rs.Path) :
    runM (break_unshared_hard_link posix s d) w =
      match w.hasLinks d, w.lstat d with
      | true, some (.file i) => (.ok (), w.unlink d (.file i))
      | _, _ => (.ok (), w) := by
  unfold break_unshared_hard_link PWorld.hasLinks
  have inner : ∀ w : PWorld, runM (do
        match (← Rs.capture (posix.fs_symlink_metadata d)) with
        | (Except.ok meta_) =>
            if (Rs.l_is_file meta_) then
              let _ := (← Rs.capture (posix.remove_file d))
              pure ()
        | _ =>
            pure ()) w =
      match w.lstat d with
      | some (.file i) => (.ok (), w.unlink d (.file i))
      | _ => (.ok (), w) := by
    intro w
    simp only [runM_bind, runM_map, runM_capture, posix, lstatOp, unlinkOp, runM_op]
    cases h : w.lstat d with
    | none => simp [fail]
    | some n => cases n <;> simp [h, PWorld.lmeta, Rs.l_is_file, fail, runM_map]
  rw [runM_bind]
  simp only [posix, runM_op]
  cases hs : w.stat d with
  | noent => simp
  | loop => simp
  | node a n =>
    cases n with
    | symlink t => simp
    | dir =>
      by_cases hd : w.dirNlink > 1
      · simp only [hd, decide_true, ↓reduceIte]
        refine (inner w).trans ?_
        cases h : w.lstat d with
        | none => rfl
        | some n => cases n <;> rfl
      · simp [hd]
    | file i =>
      by_cases hd : (w.inodes i).nlink > 1
      · simp only [hd, decide_true, ↓reduceIte]
        refine (inner w).trans ?_
        cases h : w.lstat d with
        | none => rfl
        | some n => cases n <;> rfl
      · simp [hd]

theorem lookup_filter (l : List (Rs.Path × PNode)) (f : Rs.Path → Bool) (q : Rs.Path) :
    lookup (l.filter fun e => f e.1) q = if f q then lookup l q else none := by
  induction l with
  | nil => simp [lookup]
  | cons e l ih =>
    by_cases hf : f e.1 = true
    · by_cases he : e.1 = q
      · subst he; simp [List.filter_cons, hf, lookup]
      · simp [List.filter_cons, hf, lookup, he, ih]
    · by_cases he : e.1 = q
      · subst he; simp [List.filter_cons, hf, lookup, ih]
      · simp [List.filter_cons, hf, lookup, he, ih]

theorem lstat_unlink_same (w : PWorld) (p : Rs.Path) (n : PNode) : (w.unlink p n).lstat p = none := by
  simp only [PWorld.unlink, PWorld.lstat, eraseName]
  rw [lookup_filter w.names (fun x => !(x == p))]; simp

theorem lstat_unlink_ne (w : PWorld) (p q : Rs.Path) (n : PNode) (h : q ≠ p) :
    (w.unlink p n).lstat q = w.lstat q := by
  simp only [PWorld.unlink, PWorld.lstat, eraseName]
  rw [lookup_filter w.names (fun x => !(x == p))]; simp [h]

theorem lstat_removeTree (w : PWorld) (p q : Rs.Path) :
    (w.removeTree p).lstat q = if under p q then none else w.lstat q := by
  simp only [PWorld.removeTree, PWorld.lstat]
  rw [lookup_filter w.names (fun x => !(under p x))]; cases under p q <;> simp

theorem lstat_enter (w : PWorld) (p q : Rs.Path) (n : PNode) :
    (w.enter p n).lstat q = if p = q then some n else w.lstat q := rfl

theorem unit_match {W : Type} (X : Except Rs.Err Unit × W) :
    (match X with | (.ok a, w') => ((.ok ()), w') | (.error e, w') => (.error e, w')) = X := by
  rcases X with ⟨r, w'⟩; cases r <;> rfl

theorem posix_create_dir_all_run (p : Rs.Path) (w : PWorld) :
    runM (posix.create_dir_all p) w = match mkdirP w p with
      | (w', false) => (.ok (), w')
      | (w', true) => fail w' := rfl

/-- the `create_dir_all(parent)` both link creators start with -/
def mkParent (w : PWorld) (d : Rs.Path) : PWorld × Bool :=
  match Rs.parent d with
  | some par => mkdirP w par
  | none => (w, false)

theorem create_hardlink_run (self : LocalTransport) (w : PWorld) (s d : Rs.Path) :
    runM (LocalTransport.create_hardlink posix self s d) w =
      match mkParent w d with
      | (w1, true) => fail w1
      | (w1, false) => runM (posix.hard_link s d) w1 := by
  unfold LocalTransport.create_hardlink mkParent
  cases hp : Rs.parent d with
  | none =>
    simp only [runM_bind, runM_pure]
    rcases runM (posix.hard_link s d) w with ⟨r, w'⟩
    cases r <;> rfl
  | some par =>
    simp only [runM_bind, runM_pure, posix_create_dir_all_run]
    rcases hm : mkdirP w par with ⟨w1, b⟩
    cases b
    · simp only []
      rcases runM (posix.hard_link s d) w1 with ⟨r, w'⟩
      cases r <;> rfl
    · rfl

/-- what `create_symlink` does after the parents exist, in the world `w1` -/
def placeLink (w1 : PWorld) (t d : Rs.Path) : Except Rs.Err Unit × PWorld :=
  match w1.lstat d with
  | some .dir => fail w1
  | some n =>
    if (w1.unlink d n).parentOk d then (.ok (), (w1.unlink d n).enter d (.symlink t)) else fail (w1.unlink d n)
  | none => if w1.parentOk d then (.ok (), w1.enter d (.symlink t)) else fail w1

theorem create_symlink_run (self : LocalTransport) (w : PWorld) (t d : Rs.Path) :
    runM (LocalTransport.create_symlink posix self t d) w =
      match mkParent w d with
      | (w1, true) => fail w1
      | (w1, false) => placeLink w1 t d := by
  unfold LocalTransport.create_symlink mkParent
  have key : ∀ w1 : PWorld, runM (do
        match (← Rs.capture (posix.tokio_fs_symlink_metadata d)) with
          | (Except.ok meta_) =>
              if (!(Rs.l_is_dir meta_)) then
                let _ ← (posix.remove_file d)
          | _ =>
              pure ()
        let _ ← (posix.symlink t d)
        return ()) w1 = placeLink w1 t d := by
    intro w1
    unfold placeLink
    simp only [runM_bind, runM_capture, posix, lstatOp, unlinkOp, runM_op]
    cases h : w1.lstat d with
    | none => cases hp : w1.parentOk d <;> simp [fail, h, hp]
    | some n =>
      cases n with
      | dir => simp [PWorld.lmeta, Rs.l_is_dir, fail, h]
      | file i =>
        cases hp : (w1.unlink d (.file i)).parentOk d <;>
          simp [PWorld.lmeta, Rs.l_is_dir, fail, h, hp, lstat_unlink_same, runM_bind, runM_op]
      | symlink t' =>
        cases hp : (w1.unlink d (.symlink t')).parentOk d <;>
          simp [PWorld.lmeta, Rs.l_is_dir, fail, h, hp, lstat_unlink_same, runM_bind, runM_op]
  cases hp : Rs.parent d with
  | none => exact key w
  | some par =>
    rw [runM_bind, posix_create_dir_all_run]
    show _ = match mkdirP w par with | (w1, true) => fail w1 | (w1, false) => placeLink w1 t d
    rcases hm : mkdirP w par with ⟨w1, b⟩
    cases b
    · exact key w1
    · rfl


/-! ### `create_dir_all`: only ever adds directories at absent names -/

/-- `w'` is `w` plus new directories at names that were absent, all of them in `S`; nothing else differs -/
structure Grew (w w' : PWorld) (S : Rs.Path → Prop) : Prop where
  inodes : w'.inodes = w.inodes
  dirNlink : w'.dirNlink = w.dirNlink
  names : ∀ q, w'.lstat q = w.lstat q ∨ (w.lstat q = none ∧ w'.lstat q = some .dir ∧ S q)

theorem Grew.refl (w : PWorld) (S : Rs.Path → Prop) : Grew w w S := ⟨rfl, rfl, fun _ => Or.inl rfl⟩

theorem Grew.mono {w w' : PWorld} {S T : Rs.Path → Prop} (h : Grew w w' S) (hst : ∀ q, S q → T q) : Grew w w' T :=
  ⟨h.inodes, h.dirNlink, fun q => (h.names q).imp id fun ⟨a, b, c⟩ => ⟨a, b, hst q c⟩⟩

theorem Grew.trans {a b c : PWorld} {S : Rs.Path → Prop} (h1 : Grew a b S) (h2 : Grew b c S) : Grew a c S := by
  refine ⟨h2.inodes.trans h1.inodes, h2.dirNlink.trans h1.dirNlink, fun q => ?_⟩
  rcases h1.names q with e1 | ⟨n1, d1, s1⟩ <;> rcases h2.names q with e2 | ⟨n2, d2, s2⟩
  · exact Or.inl (e2.trans e1)
  · exact Or.inr ⟨e1 ▸ n2, d2, s2⟩
  · exact Or.inr ⟨n1, e2.trans d1, s1⟩
  · rw [d1] at n2; cases n2

/-- what a name held stays (a present name is never touched) -/
theorem Grew.keeps {w w' : PWorld} {S : Rs.Path → Prop} (h : Grew w w' S) {q : Rs.Path} {n : PNode}
    (hq : w.lstat q = some n) : w'.lstat q = some n := by
  rcases h.names q with e | ⟨a, _, _⟩
  · exact e.trans hq
  · rw [hq] at a; cases a

/-- a non-directory found afterwards was there before -/
theorem Grew.was {w w' : PWorld} {S : Rs.Path → Prop} (h : Grew w w' S) {q : Rs.Path} {n : PNode}
    (hq : w'.lstat q = some n) (hn : n ≠ .dir) : w.lstat q = some n := by
  rcases h.names q with e | ⟨_, e, _⟩
  · rw [← e]; exact hq
  · rw [hq] at e; cases e; exact absurd rfl hn

theorem Grew.resolve_mono {w w' : PWorld} {S : Rs.Path → Prop} (h : Grew w w' S) (n : Nat) (q a : Rs.Path) (nd : PNode)
    (hr : resolve w n q = .node a nd) : resolve w' n q = .node a nd := by
  induction n generalizing q with
  | zero => simp [resolve] at hr
  | succ n ih =>
    unfold resolve at hr ⊢
    cases hl : w.lstat q with
    | none => simp [hl] at hr
    | some x =>
      rw [h.keeps hl]
      rw [hl] at hr
      cases x with
      | symlink t => exact ih _ hr
      | dir => exact hr
      | file i => exact hr

theorem Grew.isDir_mono {w w' : PWorld} {S : Rs.Path → Prop} (h : Grew w w' S) {q : Rs.Path} (hd : w.isDir q = true) :
    w'.isDir q = true := by
  unfold PWorld.isDir PWorld.stat at hd ⊢
  cases hr : resolve w (maxLinks + 1) q with
  | noent => simp [hr] at hd
  | loop => simp [hr] at hd
  | node a nd => rw [h.resolve_mono _ _ _ _ hr]; rw [hr] at hd; exact hd

theorem isDir_of_lstat_dir {w : PWorld} {q : Rs.Path} (h : w.lstat q = some .dir) : w.isDir q = true := by
  simp [PWorld.isDir, PWorld.stat, resolve, h]

/-- a path that resolves to a directory and is not itself a link IS a directory -/
theorem lstat_dir_of_isDir {w : PWorld} {q : Rs.Path} (h : w.isDir q = true) (hn : ∀ t, w.lstat q ≠ some (.symlink t)) :
    w.lstat q = some .dir := by
  unfold PWorld.isDir PWorld.stat resolve at h
  cases hl : w.lstat q with
  | none => simp [hl] at h
  | some x =>
    cases x with
    | symlink t => exact absurd hl (hn t)
    | dir => rfl
    | file i => simp [hl] at h

theorem mkdirStep_grew (w : PWorld) (b : Bool) (q : Rs.Path) : Grew w (mkdirStep (w, b) q).1 (· = q) := by
  unfold mkdirStep
  cases b with
  | true => exact Grew.refl _ _
  | false =>
    simp only [Bool.false_eq_true, ↓reduceIte]
    cases hl : w.lstat q with
    | none =>
      refine ⟨rfl, rfl, fun x => ?_⟩
      rw [lstat_enter]
      by_cases hx : q = x
      · subst hx; exact Or.inr ⟨hl, by simp, rfl⟩
      · exact Or.inl (by simp [hx])
    | some n => simp only; split <;> exact Grew.refl _ _

theorem foldl_mkdirStep_failed (qs : List Rs.Path) (w : PWorld) : (qs.foldl mkdirStep (w, true)) = (w, true) := by
  induction qs with
  | nil => rfl
  | cons q qs ih => simpa [mkdirStep] using ih

theorem foldl_mkdirStep_grew (qs : List Rs.Path) (w : PWorld) (b : Bool) :
    Grew w (qs.foldl mkdirStep (w, b)).1 (· ∈ qs) := by
  induction qs generalizing w b with
  | nil => exact Grew.refl _ _
  | cons q qs ih =>
    rw [List.foldl_cons]
    have h1 := (mkdirStep_grew w b q).mono (T := (· ∈ q :: qs)) (fun x hx => by simp [hx])
    have h2 := (ih (mkdirStep (w, b) q).1 (mkdirStep (w, b) q).2).mono (T := (· ∈ q :: qs))
      (fun x hx => List.mem_cons_of_mem _ hx)
    exact h1.trans h2

theorem foldl_mkdirStep_dirs (qs : List Rs.Path) (w : PWorld)
    (h : (qs.foldl mkdirStep (w, false)).2 = false) :
    ∀ q ∈ qs, (qs.foldl mkdirStep (w, false)).1.isDir q = true := by
  induction qs generalizing w with
  | nil => intro q hq; simp at hq
  | cons q qs ih =>
    rw [List.foldl_cons] at h ⊢
    rcases hs : mkdirStep (w, false) q with ⟨w1, b1⟩
    rw [hs] at h
    cases b1 with
    | true => rw [foldl_mkdirStep_failed] at h; cases h
    | false =>
      have hq1 : w1.isDir q = true := by
        unfold mkdirStep at hs
        simp only [Bool.false_eq_true, ↓reduceIte] at hs
        cases hl : w.lstat q with
        | none =>
          rw [hl] at hs
          simp only [Prod.mk.injEq, and_true] at hs
          subst hs
          exact isDir_of_lstat_dir (by simp [lstat_enter])
        | some n =>
          rw [hl] at hs
          simp only at hs
          by_cases hd : w.isDir q = true
          · simp only [hd, ↓reduceIte, Prod.mk.injEq, and_true] at hs; subst hs; exact hd
          · simp [hd] at hs
      intro x hx
      rcases List.mem_cons.1 hx with rfl | hx
      · exact (foldl_mkdirStep_grew qs w1 false).isDir_mono hq1
      · exact ih w1 h x hx

/-- `create_dir_all p` changes nothing but absent prefixes of `p`, which become directories — failed or not -/
theorem mkdirP_grew (w : PWorld) (p : Rs.Path) : Grew w (mkdirP w p).1 (· ∈ prefixes p) :=
  foldl_mkdirStep_grew _ w false

/-- after a successful `create_dir_all p` every prefix of `p` resolves to a directory -/
theorem mkdirP_dirs {w : PWorld} {p : Rs.Path} (h : (mkdirP w p).2 = false) :
    ∀ q ∈ prefixes p, (mkdirP w p).1.isDir q = true := foldl_mkdirStep_dirs _ w h

theorem foldl_mkdirStep_of_dirs (qs : List Rs.Path) (w : PWorld) (h : ∀ q ∈ qs, w.isDir q = true) :
    qs.foldl mkdirStep (w, false) = (w, false) := by
  induction qs with
  | nil => rfl
  | cons q qs ih =>
    rw [List.foldl_cons]
    have hq := h q (List.mem_cons_self ..)
    have : mkdirStep (w, false) q = (w, false) := by
      unfold mkdirStep
      simp only [Bool.false_eq_true, ↓reduceIte]
      cases hl : w.lstat q with
      | none => simp [PWorld.isDir, PWorld.stat, resolve, hl] at hq
      | some n => simp [hq]
    rw [this]
    exact ih (fun x hx => h x (List.mem_cons_of_mem _ hx))

/-- `create_dir_all` is idempotent -/
theorem mkdirP_idem {w : PWorld} {p : Rs.Path} (h : (mkdirP w p).2 = false) :
    mkdirP (mkdirP w p).1 p = ((mkdirP w p).1, false) :=
  foldl_mkdirStep_of_dirs _ _ (mkdirP_dirs h)

theorem prefixesAux_self (n : Nat) (p : Rs.Path) (hp : p ≠ []) : p ∈ prefixesAux (n + 1) p := by
  simp [prefixesAux, hp]

theorem self_mem_prefixes (p : Rs.Path) (hp : p ≠ []) : p ∈ prefixes p := by
  unfold prefixes
  cases p with
  | nil => exact absurd rfl hp
  | cons a t => exact prefixesAux_self _ _ hp

/-- after the parents of `d` were created the directory `d` is entered into exists -/
theorem parentOk_of_mkParent {w : PWorld} {d : Rs.Path} (hpar : Rs.parent d ≠ none) (h : (mkParent w d).2 = false) :
    (mkParent w d).1.parentOk d = true := by
  unfold mkParent at h ⊢
  unfold PWorld.parentOk
  cases hp : Rs.parent d with
  | none => exact absurd hp hpar
  | some par =>
    rw [hp] at h
    simp only at h ⊢
    cases par with
    | nil => rfl
    | cons a t => exact mkdirP_dirs h _ (self_mem_prefixes _ (by simp))

theorem mkParent_grew (w : PWorld) (d : Rs.Path) :
    Grew w (mkParent w d).1 (fun q => ∃ par, Rs.parent d = some par ∧ q ∈ prefixes par) := by
  unfold mkParent
  cases hp : Rs.parent d with
  | none => exact Grew.refl _ _
  | some par => exact (mkdirP_grew w par).mono (fun q hq => ⟨par, rfl, hq⟩)

theorem stat_of_lstat_file {w : PWorld} {p : Rs.Path} {i : Nat} (h : w.lstat p = some (.file i)) :
    w.stat p = .node p (.file i) := by
  simp [PWorld.stat, resolve, h]

theorem stat_of_lstat_dir {w : PWorld} {p : Rs.Path} (h : w.lstat p = some .dir) : w.stat p = .node p .dir := by
  simp [PWorld.stat, resolve, h]

theorem stat_of_lstat_none {w : PWorld} {p : Rs.Path} (h : w.lstat p = none) : w.stat p = .noent := by
  simp [PWorld.stat, resolve, h]

/-- `Path::parent` is shorter than the path -/
theorem parent_length {p q : Rs.Path} (h : Rs.parent p = some q) : q.length < p.length := by
  unfold Rs.parent Rs.splitLastAt at h
  simp only at h
  cases hd : List.dropWhile (fun x => decide (x ≠ '/')) p.reverse with
  | nil =>
    rw [hd] at h
    simp only at h
    cases p with
    | nil => simp at h
    | cons a t => simp at h; subst h; simp
  | cons x before =>
    rw [hd] at h
    simp only [Option.some.injEq] at h
    subst h
    have := (List.dropWhile_sublist (l := p.reverse) (fun x => decide (x ≠ ('/' : Char)))).length_le
    rw [hd] at this
    simp at this ⊢
    omega

theorem mem_prefixesAux_length (n : Nat) (p x : Rs.Path) (hx : x ∈ prefixesAux n p) : x.length ≤ p.length := by
  induction n generalizing p with
  | zero => simp [prefixesAux] at hx
  | succ n ih =>
    unfold prefixesAux at hx
    by_cases hp : p = []
    · simp [hp] at hx
    · simp only [hp, ↓reduceIte, List.mem_append, List.mem_singleton] at hx
      rcases hx with hx | rfl
      · cases hq : Rs.parent p with
        | none => simp [hq] at hx
        | some q =>
          rw [hq] at hx
          have := ih q hx
          have := parent_length hq
          omega
      · exact Nat.le_refl _

/-- a path is not on the parent chain of its own parent -/
theorem prefix_not_self {d par : Rs.Path} (hpar : Rs.parent d = some par) (hm : d ∈ prefixes par) : False := by
  have h1 := mem_prefixesAux_length _ _ _ hm
  have h2 := parent_length hpar
  omega

theorem under_self (p : Rs.Path) : under p p = true := by simp [under]


/-! ### the tie to the engine model: abstraction of a `PWorld` below a destination root -/

open SyModel.Engine
open SyModel.Lemmas.GenTransfer (compsOf textOf CleanPath destOf keyOf keyOf_destOf compsOf_textOf textOf_ne_nil
  textOf_concat splitLastAt_last splitLastAt_none)

/-- a POSIX node as the engine model's destination node: a regular file with the data of its inode (the link count
    is not part of `FileMeta`; the inode id is the `ino` class), the link text as a `String` -/
def absNode (w : PWorld) : PNode → DNode
  | .file i => .file { content := (w.inodes i).content, size := (w.inodes i).size, mtime := (w.inodes i).mtime,
                       xattrs := (w.inodes i).xattrs, ino := i }
  | .dir => .dir
  | .symlink t => .symlink (String.ofList t)

/-- THE ABSTRACTION FUNCTION: the names of `w` below `root`, as the model's destination map (keys = the relative
    component paths `keyOf root`), in the order of `w.names` -/
def absDst (root : Rs.Path) (w : PWorld) : Map DNode :=
  w.names.filterMap fun e =>
    match keyOf root e.1 with
    | some k => if k = [] then none else some (k, absNode w e.2)
    | none => none

/-- a destination map `d` REPRESENTS the world below `root`: at every clean key it holds the abstraction of what
    `lstat` finds at the key's path text -/
def Abs (root : Rs.Path) (w : PWorld) (d : Map DNode) : Prop :=
  ∀ k, CleanPath k → d.get? k = (w.lstat (destOf root k)).map (absNode w)

theorem destOf_inj {root : Rs.Path} {k q : Engine.Path} (hk : CleanPath k) (hq : CleanPath q)
    (h : destOf root k = destOf root q) : k = q := by
  have := keyOf_destOf root k hk
  rw [h, keyOf_destOf root q hq] at this
  exact (Option.some.inj this).symm

/-- same inode data up to link counts ⇒ same abstraction of nodes -/
def SameData (t t' : Nat → Inode) : Prop := ∀ i, { t i with nlink := 0 } = { t' i with nlink := 0 }

theorem SameData.rfl' (t : Nat → Inode) : SameData t t := fun _ => rfl
theorem sameData_decLink (t : Nat → Inode) (i : Nat) : SameData (decLink t i) t := by
  intro j; unfold decLink; split <;> rfl
theorem SameData.trans {a b c : Nat → Inode} (h1 : SameData a b) (h2 : SameData b c) : SameData a c :=
  fun i => (h1 i).trans (h2 i)
theorem sameData_dropLinks (es : List (Rs.Path × PNode)) (t : Nat → Inode) : SameData (dropLinks t es) t := by
  unfold dropLinks
  induction es generalizing t with
  | nil => exact SameData.rfl' t
  | cons e es ih =>
    rw [List.foldl_cons]
    refine (ih _).trans ?_
    cases e.2 with
    | file i => exact sameData_decLink t i
    | dir => exact SameData.rfl' t
    | symlink x => exact SameData.rfl' t

theorem absNode_congr {w w' : PWorld} (h : SameData w'.inodes w.inodes) (n : PNode) : absNode w' n = absNode w n := by
  cases n with
  | dir => rfl
  | symlink t => rfl
  | file i =>
    have := h i
    simp only [Inode.mk.injEq] at this
    simp [absNode, this.1, this.2.1, this.2.2.1, this.2.2.2.1]

/-! #### path texts: "below" on texts is "prefix" on keys -/

theorem splitAux_append (a r cur : Rs.Str) :
    Rs.splitAux '/' (a ++ '/' :: r) cur = Rs.splitAux '/' a cur ++ Rs.splitAux '/' r [] := by
  induction a generalizing cur with
  | nil => simp [Rs.splitAux]
  | cons x t ih =>
    simp only [List.cons_append, Rs.splitAux]
    split
    · simp [ih]
    · exact ih _

theorem compsOf_append (a r : Rs.Str) : compsOf (a ++ '/' :: r) = compsOf a ++ compsOf r := by
  simp [compsOf, Rs.split, splitAux_append]

theorem textOf_append (k s : Engine.Path) (hk : k ≠ []) (hs : s ≠ []) :
    textOf (k ++ s) = textOf k ++ '/' :: textOf s := by
  induction k with
  | nil => exact absurd rfl hk
  | cons a t ih =>
    cases t with
    | nil =>
      cases s with
      | nil => exact absurd rfl hs
      | cons b r => simp [textOf]
    | cons b r =>
      have := ih (by simp)
      simp only [List.cons_append, textOf] at this ⊢
      rw [this]; simp

/-- the text every destination path starts with -/
def rootPfx (root : Rs.Path) : Rs.Path := if root.isEmpty then [] else root ++ ['/']

theorem destOf_eq (root : Rs.Path) (k : Engine.Path) (hk : CleanPath k) : destOf root k = rootPfx root ++ textOf k := by
  unfold destOf Rs.join rootPfx
  split <;> simp

theorem clean_of_prefix {k q : Engine.Path} (hq : CleanPath q) (hk : k ≠ []) (h : k <+: q) : CleanPath k :=
  ⟨hk, fun c hc => hq.2 c (h.subset hc)⟩

theorem under_destOf (root : Rs.Path) (k q : Engine.Path) (hk : CleanPath k) (hq : CleanPath q) :
    under (destOf root k) (destOf root q) = isPrefix k q := by
  rw [destOf_eq root k hk, destOf_eq root q hq]
  rw [Bool.eq_iff_iff, isPrefix_iff]
  unfold under
  simp only [Bool.or_eq_true, beq_iff_eq, List.isPrefixOf_iff_prefix, List.append_assoc]
  constructor
  · rintro (h | h)
    · have := List.append_cancel_left h
      have e : q = k := by rw [← compsOf_textOf q hq, ← compsOf_textOf k hk, this]
      rw [e]; exact List.prefix_refl _
    · rw [List.prefix_append_right_inj] at h
      obtain ⟨r, hr⟩ := h
      have : q = k ++ compsOf r := by
        rw [← compsOf_textOf q hq, ← hr]
        simp only [List.append_assoc, List.singleton_append]
        rw [compsOf_append, compsOf_textOf k hk]
      rw [this]; exact List.prefix_append _ _
  · rintro ⟨s, hs⟩
    subst hs
    by_cases he : s = []
    · subst he; left; simp
    · right
      rw [List.prefix_append_right_inj, textOf_append k s hk.1 he]
      exact ⟨textOf s, by simp⟩

/-! #### `remove` implements `t_remove` -/

theorem abs_unlink {root : Rs.Path} {w : PWorld} {d : Map DNode} (habs : Abs root w d) (k : Engine.Path)
    (hk : CleanPath k) (n : PNode) : Abs root (w.unlink (destOf root k) n) (d.erase k) := by
  intro q hq
  have hsd : SameData (w.unlink (destOf root k) n).inodes w.inodes := by
    cases n with
    | file i => exact sameData_decLink _ _
    | dir => exact SameData.rfl' _
    | symlink t => exact SameData.rfl' _
  rw [Map.get?_erase]
  by_cases h : k = q
  · subst h; simp [lstat_unlink_same]
  · have hne : destOf root q ≠ destOf root k := fun e => h (destOf_inj hk hq e.symm)
    rw [if_neg h, lstat_unlink_ne _ _ _ _ hne, habs q hq]
    cases w.lstat (destOf root q) with
    | none => rfl
    | some x => simp [absNode_congr hsd]

theorem abs_removeTree {root : Rs.Path} {w : PWorld} {d : Map DNode} (habs : Abs root w d) (k : Engine.Path)
    (hk : CleanPath k) : Abs root (w.removeTree (destOf root k)) (d.eraseSubtree k) := by
  intro q hq
  have hsd : SameData (w.removeTree (destOf root k)).inodes w.inodes := sameData_dropLinks _ _
  rw [Map.get?_eraseSubtree, lstat_removeTree, under_destOf root k q hk hq]
  cases isPrefix k q with
  | true => rfl
  | false =>
    simp only [Bool.false_eq_true, ↓reduceIte]
    rw [habs q hq]
    cases w.lstat (destOf root q) with
    | none => rfl
    | some x => simp [absNode_congr hsd]


/-! #### `create_dir_all` implements `mkdirAll` -/

theorem prefixesAux_fuel (n m : Nat) (q : Rs.Path) (hn : q.length ≤ n) (hm : q.length ≤ m) :
    prefixesAux n q = prefixesAux m q := by
  induction n generalizing m q with
  | zero =>
    have : q = [] := List.length_eq_zero_iff.1 (by omega)
    subst this
    cases m <;> simp [prefixesAux]
  | succ n ih =>
    by_cases hq : q = []
    · subst hq; cases m <;> simp [prefixesAux]
    · cases m with
      | zero => exact absurd (List.length_eq_zero_iff.1 (by omega)) hq
      | succ m =>
        simp only [prefixesAux, hq, ↓reduceIte]
        cases hp : Rs.parent q with
        | none => rfl
        | some r =>
          have := parent_length hp
          simp only
          rw [ih m r (by omega) (by omega)]

theorem prefixes_parent {p q : Rs.Path} (hp : p ≠ []) (h : Rs.parent p = some q) : prefixes p = prefixes q ++ [p] := by
  unfold prefixes
  cases hl : p.length with
  | zero => exact absurd (List.length_eq_zero_iff.1 hl) hp
  | succ n =>
    have := parent_length h
    simp only [prefixesAux, hp, ↓reduceIte, h]
    rw [prefixesAux_fuel n q.length q (by omega) (Nat.le_refl _)]

theorem parent_destOf_snoc (root : Rs.Path) (ks : Engine.Path) (c : String) (h : CleanPath (ks ++ [c])) :
    Rs.parent (destOf root (ks ++ [c])) = some (if ks = [] then root else destOf root ks) := by
  obtain ⟨hne, hc⟩ := h
  have hcc := hc c (by simp)
  by_cases hks : ks = []
  · subst hks
    by_cases hr : root = []
    · subst hr
      have : c.toList.isEmpty = false := by simpa using hcc.1
      simp [destOf, Rs.join, textOf, Rs.parent, splitLastAt_none _ hcc.2, this]
    · have : root.isEmpty = false := by simpa using hr
      simp [destOf, Rs.join, textOf, Rs.parent, this, splitLastAt_last _ _ hcc.2]
  · simp only [hks, ↓reduceIte]
    rw [destOf, textOf_concat ks c hks]
    by_cases hr : root = []
    · subst hr
      simp [Rs.join, Rs.parent, splitLastAt_last _ _ hcc.2, destOf]
    · have : root.isEmpty = false := by simpa using hr
      have e : root ++ '/' :: (textOf ks ++ '/' :: c.toList) = (root ++ '/' :: textOf ks) ++ '/' :: c.toList := by simp
      simp only [Rs.join, this, Bool.false_eq_true, ↓reduceIte, Rs.parent, e, splitLastAt_last _ _ hcc.2, destOf]

theorem filterMap_congr' {α β : Type} {f g : α → Option β} {l : List α} (h : ∀ x ∈ l, f x = g x) :
    l.filterMap f = l.filterMap g := by
  induction l with
  | nil => rfl
  | cons a t ih =>
    simp only [List.filterMap_cons, h a (List.mem_cons_self ..)]
    rw [ih (fun x hx => h x (List.mem_cons_of_mem _ hx))]

theorem ancestors_snoc (ks : Engine.Path) (c : String) (h : ks ≠ []) :
    ancestors (ks ++ [c]) = ancestors ks ++ [ks] := by
  unfold ancestors
  simp only [List.length_append, List.length_cons, List.length_nil, Nat.zero_add, List.range_succ,
    List.filterMap_append, List.filterMap_cons, List.filterMap_nil]
  have hl : ks.length ≠ 0 := fun e => h (List.length_eq_zero_iff.1 e)
  simp only [hl, ↓reduceIte, List.take_left']
  congr 1
  apply filterMap_congr'
  intro i hi
  have : i < ks.length := List.mem_range.1 hi
  by_cases h0 : i = 0
  · simp [h0]
  · simp only [h0, ↓reduceIte, Option.some.injEq]
    exact List.take_append_of_le_length (by omega)

theorem destOf_ne_nil (root : Rs.Path) (k : Engine.Path) (hk : CleanPath k) : destOf root k ≠ [] := by
  rw [destOf_eq root k hk]
  have := textOf_ne_nil k hk
  intro e
  exact this (List.append_eq_nil_iff.1 e).2

/-- the `Path::parent` chain of a destination path: the chain of the root, then the destination paths of the key's
    chain -/
theorem prefixes_destOf (root : Rs.Path) (k : Engine.Path) (hk : CleanPath k) :
    prefixes (destOf root k) = prefixes root ++ (ancestors k ++ [k]).map (destOf root) := by
  generalize hlen : k.length = n
  induction n generalizing k with
  | zero => exact absurd (List.length_eq_zero_iff.1 hlen) hk.1
  | succ n ih =>
    obtain ⟨ks, c, rfl⟩ : ∃ ks c, k = ks ++ [c] :=
      ⟨k.dropLast, k.getLast hk.1, (List.dropLast_concat_getLast hk.1).symm⟩
    have hp := parent_destOf_snoc root ks c hk
    rw [prefixes_parent (destOf_ne_nil root _ hk) hp]
    by_cases hks : ks = []
    · subst hks
      simp [ancestors]
    · have hcl : CleanPath ks := clean_of_prefix hk hks (List.prefix_append _ _)
      simp only [hks, ↓reduceIte]
      rw [ih ks hcl (by simpa using hlen), ancestors_snoc ks c hks]
      simp

theorem absNode_enter (w : PWorld) (p : Rs.Path) (n x : PNode) : absNode (w.enter p n) x = absNode w x := by
  cases x <;> rfl

theorem abs_enter {root : Rs.Path} {w : PWorld} {d : Map DNode} (habs : Abs root w d) (k : Engine.Path)
    (hk : CleanPath k) (n : PNode) : Abs root (w.enter (destOf root k) n) (d.set k (absNode w n)) := by
  intro q hq
  rw [Map.get?_set, lstat_enter]
  by_cases h : k = q
  · subst h; simp [absNode_enter]
  · have hne : destOf root k ≠ destOf root q := fun e => h (destOf_inj hk hq e)
    rw [if_neg h, if_neg hne, habs q hq]
    cases w.lstat (destOf root q) with
    | none => rfl
    | some x => simp [absNode_enter]

theorem sim_mkdir (root : Rs.Path) (qs : List Engine.Path) (pw : PWorld) (d : Map DNode) (habs : Abs root pw d)
    (hq : ∀ q ∈ qs, CleanPath q ∧ ∀ t, pw.lstat (destOf root q) ≠ some (.symlink t)) :
    match qs.foldl mkStep (some d) with
    | some d' => ∃ pw', (qs.map (destOf root)).foldl mkdirStep (pw, false) = (pw', false) ∧ Abs root pw' d' ∧
        Grew pw pw' (fun _ => True)
    | none => ((qs.map (destOf root)).foldl mkdirStep (pw, false)).2 = true := by
  induction qs generalizing pw d with
  | nil => exact ⟨pw, rfl, habs, Grew.refl _ _⟩
  | cons q qs ih =>
    obtain ⟨hqc, hqn⟩ := hq q (List.mem_cons_self ..)
    have hq' := fun x hx => hq x (List.mem_cons_of_mem _ hx)
    have hg := habs q hqc
    have hne : q ≠ [] := hqc.1
    rw [List.foldl_cons, List.map_cons, List.foldl_cons]
    cases hl : pw.lstat (destOf root q) with
    | none =>
      rw [hl] at hg
      have h1 : mkStep (some d) q = some (d.set q .dir) := by simp [mkStep, hne, hg]
      have h2 : mkdirStep (pw, false) (destOf root q) = (pw.enter (destOf root q) .dir, false) := by
        simp [mkdirStep, hl]
      rw [h1, h2]
      have hgrew : Grew pw (pw.enter (destOf root q) .dir) (fun _ => True) :=
        (mkdirStep_grew pw false (destOf root q)).mono (fun _ _ => trivial) |> fun g => by rw [h2] at g; exact g
      have := ih (pw.enter (destOf root q) .dir) (d.set q .dir) (abs_enter habs q hqc .dir) (fun x hx => by
        refine ⟨(hq' x hx).1, fun t ht => ?_⟩
        exact (hq' x hx).2 t (hgrew.was ht (by simp)))
      revert this
      cases qs.foldl mkStep (some (d.set q .dir)) with
      | none => exact id
      | some d' => rintro ⟨pw', a, b, c⟩; exact ⟨pw', a, b, hgrew.trans c⟩
    | some n =>
      rw [hl] at hg
      cases n with
      | symlink t => exact absurd hl (hqn t)
      | dir =>
        have h1 : mkStep (some d) q = some d := by simp [mkStep, hne, hg, absNode]
        have h2 : mkdirStep (pw, false) (destOf root q) = (pw, false) := by
          simp [mkdirStep, hl, isDir_of_lstat_dir hl]
        rw [h1, h2]
        exact ih pw d habs hq'
      | file i =>
        have h1 : mkStep (some d) q = none := by simp [mkStep, hne, hg, absNode]
        have h2 : mkdirStep (pw, false) (destOf root q) = (pw, true) := by
          simp [mkdirStep, hl, PWorld.isDir, stat_of_lstat_file hl]
        rw [h1, h2, foldl_mkStep_none, foldl_mkdirStep_failed]

/-- the chain of the destination root exists already (the root was created or checked before any task runs) -/
def RootOk (root : Rs.Path) (pw : PWorld) : Prop := ∀ q ∈ prefixes root, pw.isDir q = true

/-- no symbolic link at `k` or at an ancestor of `k` below the root (the engine model has no link resolution: a link
    to a directory on the chain is where POSIX `mkdir -p` succeeds and the model's `mkdirAll` fails) -/
def NoLinksTo (root : Rs.Path) (pw : PWorld) (k : Engine.Path) : Prop :=
  ∀ q, q ≠ [] → isPrefix q k = true → ∀ t, pw.lstat (destOf root q) ≠ some (.symlink t)

theorem mkdirP_sim (root : Rs.Path) (pw : PWorld) (d : Map DNode) (k : Engine.Path) (hk : CleanPath k)
    (hr : RootOk root pw) (hn : NoLinksTo root pw k) (habs : Abs root pw d) :
    match mkdirAll d k with
    | some d' => ∃ pw', mkdirP pw (destOf root k) = (pw', false) ∧ Abs root pw' d' ∧ Grew pw pw' (fun _ => True)
    | none => (mkdirP pw (destOf root k)).2 = true := by
  rw [mkdirAll_eq]
  unfold mkdirP
  rw [prefixes_destOf root k hk]
  have e : ∀ X : List Rs.Path, (prefixes root ++ X).foldl mkdirStep (pw, false) = X.foldl mkdirStep (pw, false) := by
    intro X; rw [List.foldl_append, foldl_mkdirStep_of_dirs _ _ hr]
  rw [e]
  apply sim_mkdir root _ pw d habs
  intro q hq
  have hq' : q ≠ [] ∧ isPrefix q k = true := by
    rcases mem_chain_self.1 hq with h | h
    · exact h
    · subst h; exact ⟨hk.1, isPrefix_refl _⟩
  exact ⟨clean_of_prefix hk hq'.1 ((isPrefix_iff _ _).1 hq'.2), hn q hq'.1 hq'.2⟩


/-! #### `create_symlink` implements `writeSymlink` -/

theorem mkParent_sim (root : Rs.Path) (pw : PWorld) (d : Map DNode) (k : Engine.Path) (hk : CleanPath k)
    (hr : RootOk root pw) (hn : NoLinksTo root pw (parentOf k)) (habs : Abs root pw d) :
    match mkdirAll d (parentOf k) with
    | some d1 => ∃ pw1, mkParent pw (destOf root k) = (pw1, false) ∧ Abs root pw1 d1 ∧ Grew pw pw1 (fun _ => True)
    | none => (mkParent pw (destOf root k)).2 = true := by
  obtain ⟨ks, c, rfl⟩ : ∃ ks c, k = ks ++ [c] :=
    ⟨k.dropLast, k.getLast hk.1, (List.dropLast_concat_getLast hk.1).symm⟩
  have hpar : parentOf (ks ++ [c]) = ks := by simp [parentOf]
  rw [hpar] at hn ⊢
  unfold mkParent
  rw [parent_destOf_snoc root ks c hk]
  by_cases hks : ks = []
  · subst hks
    have h1 : mkdirAll d [] = some d :=
      mkdirAll_of_dirs d [] (fun x hx hp => absurd (isPrefix_nil_right hp) hx)
    rw [h1]
    exact ⟨pw, foldl_mkdirStep_of_dirs _ _ hr, habs, Grew.refl _ _⟩
  · simp only [hks, ↓reduceIte]
    exact mkdirP_sim root pw d ks (clean_of_prefix hk hks (List.prefix_append _ _)) hr hn habs

theorem set_erase_eq (d : Map DNode) (k : Engine.Path) (v : DNode) : (d.erase k).set k v = d.set k v := by
  simp [Map.set, GenTransfer.erase_erase]

theorem placeLink_sim (root : Rs.Path) (pw1 : PWorld) (d1 : Map DNode) (k : Engine.Path) (t : Rs.Path)
    (hk : CleanPath k) (habs1 : Abs root pw1 d1) (hpok : pw1.parentOk (destOf root k) = true)
    (hreal : ∀ par, Rs.parent (destOf root k) = some par → par ≠ [] → ∀ x, pw1.lstat par ≠ some (.symlink x)) :
    match d1.get? k with
    | some .dir => placeLink pw1 t (destOf root k) = (.error .io, pw1)
    | _ => ∃ pw', placeLink pw1 t (destOf root k) = (.ok (), pw') ∧
        Abs root pw' (d1.set k (.symlink (String.ofList t))) := by
  have hg := habs1 k hk
  have hkeep : ∀ n, (pw1.unlink (destOf root k) n).parentOk (destOf root k) = true := by
    intro n
    unfold PWorld.parentOk at hpok ⊢
    cases hp : Rs.parent (destOf root k) with
    | none => rw [hp] at hpok; cases hpok
    | some par =>
      rw [hp] at hpok
      cases par with
      | nil => rfl
      | cons a r =>
        simp only at hpok ⊢
        have hd := lstat_dir_of_isDir hpok (hreal _ hp (by simp))
        have hne : (a :: r) ≠ destOf root k := fun e => by
          have := parent_length hp; rw [e] at this; omega
        exact isDir_of_lstat_dir (by rw [lstat_unlink_ne _ _ _ _ hne]; exact hd)
  unfold placeLink
  cases hl : pw1.lstat (destOf root k) with
  | none =>
    rw [hl] at hg
    simp only [Option.map_none] at hg
    simp only [hg, hpok, ↓reduceIte]
    exact ⟨_, rfl, abs_enter habs1 k hk (.symlink t)⟩
  | some n =>
    rw [hl] at hg
    cases n with
    | dir => simp only [Option.map_some, absNode] at hg; simp only [hg]; rfl
    | file i =>
      simp only [Option.map_some, absNode] at hg
      simp only [hg, hkeep, ↓reduceIte]
      refine ⟨_, rfl, ?_⟩
      have := abs_enter (abs_unlink habs1 k hk (.file i)) k hk (.symlink t)
      rw [set_erase_eq] at this
      exact this
    | symlink t' =>
      simp only [Option.map_some, absNode] at hg
      simp only [hg, hkeep, ↓reduceIte]
      refine ⟨_, rfl, ?_⟩
      have := abs_enter (abs_unlink habs1 k hk (.symlink t')) k hk (.symlink t)
      rw [set_erase_eq] at this
      exact this


/-! #### the abstraction FUNCTION represents the world: `Abs root w (absDst root w)` -/

theorem splitAux_ne_nil (r cur : Rs.Str) : Rs.splitAux '/' r cur ≠ [] := by
  induction r generalizing cur with
  | nil => simp [Rs.splitAux]
  | cons x t ih => simp only [Rs.splitAux]; split <;> simp [ih]

theorem textOf_cons_of_ne_nil (a : String) (rest : Engine.Path) (h : rest ≠ []) :
    textOf (a :: rest) = a.toList ++ '/' :: textOf rest := by
  cases rest with
  | nil => exact absurd rfl h
  | cons b r => rfl

theorem textOf_splitAux (r cur : Rs.Str) :
    textOf ((Rs.splitAux '/' r cur).map String.ofList) = cur.reverse ++ r := by
  induction r generalizing cur with
  | nil => simp [Rs.splitAux, textOf]
  | cons x t ih =>
    simp only [Rs.splitAux]
    split
    · rename_i hx
      have hx' : x = '/' := by simpa using hx
      rw [List.map_cons, textOf_cons_of_ne_nil _ _ (by simpa using splitAux_ne_nil t []), ih]
      simp [hx']
    · rw [ih]; simp

theorem textOf_compsOf (r : Rs.Str) : textOf (compsOf r) = r := by
  simpa [compsOf, Rs.split] using textOf_splitAux r []

theorem join_of_strip_prefix {p root r : Rs.Path} (h : Rs.strip_prefix p root = .ok r) (hr : r ≠ []) :
    p = Rs.join root r := by
  unfold Rs.strip_prefix at h
  unfold Rs.join
  by_cases h1 : (p == root) = true
  · simp [h1] at h; exact absurd h hr
  · simp only [h1, Bool.false_eq_true, ↓reduceIte] at h
    by_cases h2 : root.isEmpty = true
    · simp only [h2, ↓reduceIte, Except.ok.injEq] at h ⊢; exact h
    · simp only [h2, Bool.false_eq_true, ↓reduceIte] at h ⊢
      by_cases h3 : (root ++ ['/']).isPrefixOf p = true
      · simp only [h3, ↓reduceIte, Except.ok.injEq] at h
        obtain ⟨s, hs⟩ := List.isPrefixOf_iff_prefix.1 h3
        subst hs
        have : List.drop (root.length + 1) (root ++ ['/'] ++ s) = s := List.drop_left' (by simp)
        rw [this] at h
        subst h; simp
      · simp [h3] at h

/-- a path text whose key is the clean key `k` IS the destination path of `k` -/
theorem eq_destOf_of_keyOf {root p : Rs.Path} {k : Engine.Path} (h : keyOf root p = some k) (hk : CleanPath k) :
    p = destOf root k := by
  unfold keyOf at h
  cases hs : Rs.strip_prefix p root with
  | error e => simp [hs] at h
  | ok r =>
    simp only [hs, Option.some.injEq] at h
    by_cases hr : r = []
    · simp [hr] at h; exact absurd h hk.1
    · simp only [hr, ↓reduceIte] at h
      subst h
      rw [destOf, textOf_compsOf]
      exact join_of_strip_prefix hs hr

theorem abs_absDst (root : Rs.Path) (w : PWorld) : Abs root w (absDst root w) := by
  intro k hk
  unfold absDst PWorld.lstat
  induction w.names with
  | nil => rfl
  | cons e l ih =>
    obtain ⟨p, n⟩ := e
    simp only [List.filterMap_cons, lookup]
    cases hkey : keyOf root p with
    | none =>
      have hne : p ≠ destOf root k := fun e => by rw [e, keyOf_destOf root k hk] at hkey; cases hkey
      simp only [hne, ↓reduceIte]; exact ih
    | some k' =>
      by_cases hk' : k' = []
      · have hne : p ≠ destOf root k := fun e => by
          rw [e, keyOf_destOf root k hk] at hkey; exact hk.1 ((Option.some.inj hkey).trans hk')
        simp only [hk', ↓reduceIte, hne]; exact ih
      · simp only [hk', ↓reduceIte, Map.get?_cons]
        by_cases he : k' = k
        · subst he
          have := eq_destOf_of_keyOf hkey hk
          simp [this]
        · have hne : p ≠ destOf root k := fun e => by
            rw [e, keyOf_destOf root k hk] at hkey; exact he (Option.some.inj hkey).symm
          simp only [he, ↓reduceIte, hne]; exact ih

end SyModel.Lemmas.GenLocalFs
