/-
  Lemmas.GenRemote — the world in which the translated remote helper (`SyModel/Generated/Code/Remote.lean`:
  `main` of src/bin/sy-remote.rs and `apply_delta` of src/delta/applier.rs) is run, the instance of its `Ext`
  record giving every operation its POSIX meaning, and the lemmas that execute the translated code in it.

  PART 1 (`World` … `posix`) IS TRUSTED: the bridge theorems of `Props/GenRemote.lean` are statements about
  `main (posix P)`, so a wrong operation here misrepresents the operating system.  Everything after PART 1 is
  proved.
-/
import SyModel.Generated.Code.Remote
import SyModel.Delta.Wire
import SyModel.Compress.Sparse
set_option autoImplicit false
set_option linter.unusedSimpArgs false
namespace SyModel.Remote
open SyModel.Generated SyModel.Generated.Remote

/-! ## PART 1 — the world of one helper invocation (trusted) -/

/-- point update of a function -/
def upd {κ ν : Type} [DecidableEq κ] (f : κ → ν) (k : κ) (v : ν) : κ → ν := fun x => if x = k then v else f x

/-- an open file description: which file it refers to and its file position -/
structure OpenFile where
  path : Rs.Path
  pos  : Nat
  deriving DecidableEq, Repr

/-- What one run of `sy-remote` can see and change.  Bytes are natural numbers, as in the translated code
    (`Vec<u8>` is `List Nat` there). -/
structure World where
  /-- the parsed command line (`Cli::parse()`) -/
  cli      : Cli
  /-- everything the peer sends on standard input, and how much of it has been consumed -/
  stdin    : List Nat
  stdinPos : Nat
  /-- regular files: path text ↦ content -/
  files    : Rs.Path → Option (List Nat)
  /-- existing directories (the empty text — the current directory, see `Rs.parent` — always exists) -/
  dirs     : Rs.Path → Bool
  /-- `some t`: the modification time was set explicitly to `t` (nanoseconds since the epoch, `Rs.SystemTime`);
      `none`: it is the clock time of the last write (not modelled) -/
  mtime    : Rs.Path → Option Nat
  /-- the file system refuses `utimensat` (EPERM, a file system without settable times, …) -/
  denyUtime : Bool
  /-- open files: handle `h ≥ 1` ↦ description; handles `1 … opened` have been handed out; handle `0` is stdin -/
  opened   : Nat
  handle   : Nat → Option OpenFile

/-- the handle of standard input -/
def stdinHandle : Nat := 0

def zeros (n : Nat) : List Nat := List.replicate n 0

/-- `pwrite(data, pos)` with `data` non-empty: overwrite, extend the file when the range passes its end; a
    position beyond the end leaves a gap of zeros -/
def pwrite (file : List Nat) (pos : Nat) (data : List Nat) : List Nat :=
  (file ++ zeros (pos - file.length)).take pos ++ data ++ file.drop (pos + data.length)

/-- `ftruncate(n)`: cut, or extend with zeros -/
def truncate (file : List Nat) (n : Nat) : List Nat := file.take n ++ zeros (n - file.length)

/-- the path itself and the directories above it, as texts: the non-empty prefixes of `q` that end where a `/`
    follows (`a/b/c ↦ a, a/b, a/b/c`; `/a/b ↦ /a, /a/b`) -/
def selfAndAncestors (q : Rs.Path) : List Rs.Path :=
  ((List.range (q.length + 1)).map q.take).filter fun a => !a.isEmpty && (a == q || (a ++ ['/']).isPrefixOf q)

/-- `d` can hold directory entries -/
def World.isDir (w : World) (d : Rs.Path) : Bool := d.isEmpty || w.dirs d

/-- an operation: a result and a new world, or an error that leaves the world as it was (the helper exits
    on the first error of these operations, except for `set_file_mtime`, whose failure changes nothing) -/
abbrev Op (α : Type) := World → Except Rs.Err (α × World)

def Op.run {α : Type} (f : Op α) : Rs.M World α := fun w =>
  match f w with
  | .ok (a, w') => (.ok a, w')
  | .error e => (.error e, w)

/-- the byte source behind a handle and the position in it: stdin, or an open file that still exists -/
def World.source (w : World) (h : Nat) : Option (List Nat × Nat) :=
  if h = stdinHandle then some (w.stdin, w.stdinPos)
  else match w.handle h with
    | some f => (w.files f.path).map fun c => (c, f.pos)
    | none => none

/-- move the position behind a handle -/
def World.setPos (w : World) (h : Nat) (p : Nat) : World :=
  if h = stdinHandle then { w with stdinPos := p }
  else { w with handle := upd w.handle h ((w.handle h).map ({ · with pos := p })) }

/-- an open regular file behind a handle, with its content -/
def World.target (w : World) (h : Nat) : Option (OpenFile × List Nat) :=
  if h = stdinHandle then none
  else match w.handle h with
    | some f => (w.files f.path).map fun c => (f, c)
    | none => none

/-- `File::open(p)` (read only): ENOENT on a missing file; position 0 -/
def openOp (p : Rs.Path) : Op Nat := fun w =>
  match w.files p with
  | none => .error .io
  | some _ => .ok (w.opened + 1, { w with opened := w.opened + 1, handle := upd w.handle (w.opened + 1) (some ⟨p, 0⟩) })

/-- `File::create(p)` (`O_WRONLY | O_CREAT | O_TRUNC`): fails on a directory, on the empty path and when the
    parent is not an existing directory; otherwise the file exists afterwards and is EMPTY, position 0 -/
def createOp (p : Rs.Path) : Op Nat := fun w =>
  if w.dirs p then .error .io
  else match Rs.parent p with
    | none => .error .io
    | some d =>
      if w.isDir d then
        .ok (w.opened + 1,
          { w with files := upd w.files p (some []), mtime := upd w.mtime p none,
                   opened := w.opened + 1, handle := upd w.handle (w.opened + 1) (some ⟨p, 0⟩) })
      else .error .io

/-- `std::fs::create_dir_all(q)`: `Ok` at once for the empty path; fails when `q` or a directory above it is a
    regular file; otherwise `q` and everything above it are directories afterwards -/
def createDirAllOp (q : Rs.Path) : Op Unit := fun w =>
  if (selfAndAncestors q).any (fun a => (w.files a).isSome) then .error .io
  else .ok ((), { w with dirs := fun a => w.dirs a || (selfAndAncestors q).contains a })

/-- `filetime::set_file_mtime(p, t)`: the path must exist -/
def setMtimeOp (p : Rs.Path) (t : Rs.SystemTime) : Op Unit := fun w =>
  if w.denyUtime then .error .io
  else if (w.files p).isSome || w.dirs p then .ok ((), { w with mtime := upd w.mtime p (some t) })
  else .error .io

/-- `read_to_end(&mut buf)`: appends everything from the position to the end; the position moves to the end -/
def readToEndOp (h : Nat) (buf : List Nat) : Op (List Nat) := fun w =>
  match w.source h with
  | none => .error .io
  | some (c, pos) => .ok (buf ++ c.drop pos, w.setPos h (max pos c.length))

/-- `read_exact(&mut buf)`: fills the whole buffer from the position and advances, or fails (`UnexpectedEof`) when
    fewer bytes are left; an empty buffer is filled without reading -/
def readExactOp (h : Nat) (buf : List Nat) : Op (List Nat) := fun w =>
  match w.source h with
  | none => .error .io
  | some (c, pos) =>
    if buf.length = 0 ∨ pos + buf.length ≤ c.length then
      .ok ((c.drop pos).take buf.length, w.setPos h (pos + buf.length))
    else .error .io

/-- `write_all(data)`: nothing at all for empty data (no `write` is issued); otherwise `pwrite` at the position
    of the handle, which advances -/
def writeAllOp (h : Nat) (data : List Nat) : Op Unit := fun w =>
  if data.isEmpty then .ok ((), w)
  else match w.target h with
    | none => .error .io
    | some (f, c) =>
      .ok ((), { (w.setPos h (f.pos + data.length)) with
                   files := upd w.files f.path (some (pwrite c f.pos data)), mtime := upd w.mtime f.path none })

/-- `File::set_len(n)`: the position does not move -/
def setLenOp (h : Nat) (n : Nat) : Op Unit := fun w =>
  match w.target h with
  | none => .error .io
  | some (f, c) => .ok ((), { w with files := upd w.files f.path (some (truncate c n)), mtime := upd w.mtime f.path none })

/-- `seek`: on an open regular file only (stdin is a pipe: ESPIPE); a negative result is EINVAL -/
def seekOp (h : Nat) (s : Rs.SeekFrom) : Op Nat := fun w =>
  match w.target h with
  | none => .error .io
  | some (f, c) =>
    let p : Int := match s with
      | .Start n => n
      | .End k => c.length + k
      | .Current k => f.pos + k
    if p < 0 then .error .io else .ok (p.toNat, w.setPos h p.toNat)

/-- the third-party and parsing functions the helper calls, as parameters -/
structure Parsers where
  /-- lz4 and zstd -/
  L : Compress.Codec
  Z : Compress.Codec
  /-- `String::from_utf8` (`none`: invalid UTF-8) and the UTF-8 encoding of a text (`str::as_bytes`) -/
  utf8Decode : Bytes → Option Rs.Str
  utf8Encode : Rs.Str → Bytes

def toU8 (l : List Nat) : Bytes := l.map Nat.toUInt8
def ofU8 (l : Bytes) : List Nat := l.map UInt8.toNat

def ofOption {α : Type} : Option α → Except Rs.Err α
  | some a => .ok a
  | none => .error .other

def absCompression : Generated.Remote.Compression → Compress.Compression
  | .None => .none
  | .Lz4 => .lz4
  | .Zstd => .zstd

/-- model op ↦ code op, model delta ↦ code delta, model region ↦ code region (what the JSON parsers return) -/
def concOp : Delta.Op → DeltaOp
  | .copy o s => .Copy o s
  | .data d => .Data (ofU8 d)
def concDelta (d : Delta.Delta) : Generated.Remote.Delta :=
  { ops := d.ops.map concOp, source_size := d.sourceSize, block_size := d.blockSize }
def concRegion (r : Compress.Region) : DataRegion := { offset := r.offset, length := r.length }

/-- THE INSTANCE: every operation of the translated helper in the world above. -/
def posix (P : Parsers) : Ext World where
  unmodelled _ := throw .other                       -- the `Scan` and `Checksums` arms are outside the model
  Cli_parse _ := fun w => (.ok w.cli, w)
  std_io_stdin _ := stdinHandle
  decompress d c := ofOption ((Compress.decompress P.L P.Z (absCompression c) (toU8 d)).map ofU8)
  String_from_utf8 b := ofOption (P.utf8Decode (toU8 b))
  serde_json_from_str_Delta s := ofOption ((Delta.decodeJson (P.utf8Encode s)).map concDelta)
  serde_json_from_str_Vec s := ofOption ((Compress.decodeRegions (P.utf8Encode s)).map (·.map concRegion))
  open_ p := (openOp p).run
  create p := (createOp p).run
  std_fs_create_dir_all q := (createDirAllOp q).run
  filetime_set_file_mtime p t := (setMtimeOp p t).run
  h_read_to_end h buf := (readToEndOp h buf).run
  h_read_exact h buf := (readExactOp h buf).run
  h_write_all h data := (writeAllOp h data).run
  h_flush _ := pure ()                               -- no user-space buffer on `File`
  h_sync_all _ := pure ()                            -- durability is not modelled
  h_set_len h n := (setLenOp h n).run
  h_seek h s := (seekOp h s).run


/-! ## PART 2 — executing the translated code in that world (all proved) -/

/-! ### point updates; running the monad -/

@[simp] theorem upd_same {κ ν : Type} [DecidableEq κ] (f : κ → ν) (k : κ) (v : ν) : upd f k v k = v := by simp [upd]
theorem upd_ne {κ ν : Type} [DecidableEq κ] (f : κ → ν) {k x : κ} (v : ν) (h : x ≠ k) : upd f k v x = f x := by simp [upd, h]
@[simp] theorem upd_upd {κ ν : Type} [DecidableEq κ] (f : κ → ν) (k : κ) (v v' : ν) : upd (upd f k v) k v' = upd f k v' := by
  funext x; simp only [upd]; split <;> rfl
theorem upd_comm {κ ν : Type} [DecidableEq κ] (f : κ → ν) {k k' : κ} (v v' : ν) (h : k ≠ k') :
    upd (upd f k v) k' v' = upd (upd f k' v') k v := by
  funext x; simp only [upd]; split <;> split <;> simp_all
theorem upd_shadow {κ ν : Type} [DecidableEq κ] (f : κ → ν) {a b : κ} (x y x' : ν) (h : a ≠ b) :
    upd (upd (upd f a x) b y) a x' = upd (upd f a x') b y := by
  rw [upd_comm _ _ _ h.symm, upd_upd]

theorem run_bind {W α β : Type} (x : Rs.M W α) (f : α → Rs.M W β) (w : W) :
    (x >>= f) w = match x w with
      | (.ok a, w') => f a w'
      | (.error e, w') => (.error e, w') := by
  show (ExceptT.bind x f) w = _
  simp only [ExceptT.bind, ExceptT.mk]
  show (StateT.bind x _) w = _
  simp only [StateT.bind]
  rcases x w with ⟨r, w'⟩
  cases r <;> rfl

theorem run_pure {W α : Type} (a : α) (w : W) : (pure a : Rs.M W α) w = (.ok a, w) := rfl
theorem run_throw {W α : Type} (e : Rs.Err) (w : W) : (throw e : Rs.M W α) w = (.error e, w) := rfl
theorem run_liftE_ok {W α : Type} (a : α) (w : W) : (Rs.liftE (.ok a) : Rs.M W α) w = (.ok a, w) := rfl
theorem run_liftE_error {W α : Type} (e : Rs.Err) (w : W) : (Rs.liftE (.error e) : Rs.M W α) w = (.error e, w) := rfl
theorem run_capture {W α : Type} (x : Rs.M W α) (w : W) : Rs.capture x w = (.ok (x w).1, (x w).2) := rfl
theorem run_op {α : Type} (f : Op α) (w : World) :
    f.run w = match f w with
      | .ok (a, w') => (.ok a, w')
      | .error e => (.error e, w) := rfl

/-! ### `apply_delta` -/

/-- the world while (and after) `apply_delta` runs from `w`: `oldp` open for reading under the next handle at
    position `posOld`, `newp` created, holding `out`, open under the handle after that at its end; nothing else
    differs from `w` -/
def deltaWorld (w : World) (oldp newp : Rs.Path) (posOld : Nat) (out : List Nat) : World :=
  { w with files := upd w.files newp (some out), mtime := upd w.mtime newp none, opened := w.opened + 2,
           handle := upd (upd w.handle (w.opened + 1) (some ⟨oldp, posOld⟩)) (w.opened + 2) (some ⟨newp, out.length⟩) }

theorem delta_seek (w : World) (oldp newp : Rs.Path) (oc : List Nat) (hold : w.files oldp = some oc) (hne : oldp ≠ newp)
    (pos off : Nat) (out : List Nat) :
    seekOp (w.opened + 1) (.Start off) (deltaWorld w oldp newp pos out) = .ok (off, deltaWorld w oldp newp off out) := by
  have h1 : ¬ ((off : Int) < 0) := by omega
  simp [seekOp, World.target, stdinHandle, deltaWorld, upd_ne, hne, hold, World.setPos, h1, upd_shadow]

theorem delta_readExact (w : World) (oldp newp : Rs.Path) (oc : List Nat) (hold : w.files oldp = some oc) (hne : oldp ≠ newp)
    (pos : Nat) (out buf : List Nat) :
    readExactOp (w.opened + 1) buf (deltaWorld w oldp newp pos out) =
      if buf.length = 0 ∨ pos + buf.length ≤ oc.length then
        .ok ((oc.drop pos).take buf.length, deltaWorld w oldp newp (pos + buf.length) out)
      else .error .io := by
  simp [readExactOp, World.source, stdinHandle, deltaWorld, upd_ne, hne, hold, World.setPos, upd_shadow]

theorem pwrite_end (out data : List Nat) : pwrite out out.length data = out ++ data := by
  simp [pwrite, zeros, List.drop_eq_nil_of_le]

theorem delta_writeAll (w : World) (oldp newp : Rs.Path) (pos : Nat) (out data : List Nat) :
    writeAllOp (w.opened + 2) data (deltaWorld w oldp newp pos out) = .ok ((), deltaWorld w oldp newp pos (out ++ data)) := by
  unfold writeAllOp
  split
  · rename_i h; simp at h; simp [h]
  · simp [World.target, stdinHandle, deltaWorld, World.setPos, pwrite_end]

/-- code op ↦ model op -/
def absOp : DeltaOp → Delta.Op
  | .Copy o s => .copy o s
  | .Data d => .data (toU8 d)

/-- the `Data` bytes are bytes -/
def OpU8 : DeltaOp → Prop
  | .Copy _ _ => True
  | .Data d => ∀ b ∈ d, b < 256

/-- what the ops write before the first `Copy` that leaves `old` (all of the output when none does) -/
def applyPartial (old : Bytes) : List Delta.Op → Bytes
  | [] => []
  | .copy off sz :: ops =>
    match Delta.readExact old off sz with
    | some b => b ++ applyPartial old ops
    | none => []
  | .data b :: ops => b ++ applyPartial old ops

/-- `stats.literal_bytes` / `stats.bytes_written` as the loop accumulates them -/
def literalBytes : List DeltaOp → Nat
  | [] => 0
  | .Copy _ _ :: t => literalBytes t
  | .Data d :: t => d.length + literalBytes t

def bytesWritten : List DeltaOp → Nat
  | [] => 0
  | .Copy _ s :: t => s + bytesWritten t
  | .Data d :: t => d.length + bytesWritten t

theorem ofU8_toU8 (d : List Nat) (h : ∀ b ∈ d, b < 256) : ofU8 (toU8 d) = d := by
  induction d with
  | nil => rfl
  | cons x t ih =>
    simp only [toU8, ofU8, List.map_cons, List.cons.injEq] at *
    refine ⟨?_, ih (fun b hb => h b (List.mem_cons_of_mem _ hb))⟩
    have := h x (List.mem_cons_self)
    simp [Nat.toUInt8, UInt8.toNat_ofNat, Nat.mod_eq_of_lt this]


/-- where the read handle of `old` stands after the loop -/
def oldPos (old : Bytes) : Nat → List Delta.Op → Nat
  | pos, [] => pos
  | _, .copy off sz :: t =>
    match Delta.readExact old off sz with
    | some _ => oldPos old (off + sz) t
    | none => off
  | pos, .data _ :: t => oldPos old pos t

/-- what one iteration of the loop of `apply_delta` does in a `deltaWorld` (a specification; that the translated loop
    body meets it is proved where the loop lemma is used) -/
def deltaStep (w : World) (oldp newp : Rs.Path) (oc : List Nat) (op : DeltaOp) (acc : Nat × Nat) (pos : Nat) (out : List Nat) :
    Except Rs.Err (ForInStep (Nat × Nat)) × World :=
  match op with
  | .Copy off sz =>
    if sz = 0 ∨ off + sz ≤ oc.length then
      (.ok (.yield (acc.1, acc.2 + sz)), deltaWorld w oldp newp (off + sz) (out ++ (oc.drop off).take sz))
    else (.error .io, deltaWorld w oldp newp off out)
  | .Data d => (.ok (.yield (acc.1 + d.length, acc.2 + d.length)), deltaWorld w oldp newp pos (out ++ d))

theorem ofU8_append (a b : Bytes) : ofU8 (a ++ b) = ofU8 a ++ ofU8 b := by simp [ofU8]
theorem ofU8_length (a : Bytes) : (ofU8 a).length = a.length := by simp [ofU8]

theorem apply_delta_loop (w : World) (oldp newp : Rs.Path) (old : Bytes)
    (f : DeltaOp → Nat × Nat → Rs.M World (ForInStep (Nat × Nat)))
    (hf : ∀ op acc pos out, f op acc (deltaWorld w oldp newp pos out) = deltaStep w oldp newp (ofU8 old) op acc pos out)
    (ops : List DeltaOp) (hu : ∀ op ∈ ops, OpU8 op) (acc : Nat × Nat) (pos : Nat) (outB : Bytes) :
    forIn ops acc f (deltaWorld w oldp newp pos (ofU8 outB)) =
      (if (Delta.applyOps old (ops.map absOp)).isSome then .ok (acc.1 + literalBytes ops, acc.2 + bytesWritten ops)
        else .error .io,
       deltaWorld w oldp newp (oldPos old pos (ops.map absOp)) (ofU8 (outB ++ applyPartial old (ops.map absOp)))) := by
  induction ops generalizing acc pos outB with
  | nil => simp [run_pure, Delta.applyOps, literalBytes, bytesWritten, applyPartial, oldPos]
  | cons op t ih =>
    have hu' : ∀ op ∈ t, OpU8 op := fun o ho => hu o (List.mem_cons_of_mem _ ho)
    simp only [List.forIn_cons, run_bind, hf]
    cases op with
    | Copy off sz =>
      simp only [deltaStep, ofU8_length, List.map_cons, absOp, Delta.applyOps, applyPartial, oldPos, Delta.readExact]
      by_cases hc : sz = 0 ∨ off + sz ≤ old.length
      · simp only [hc, if_true]
        have : List.take sz (List.drop off (ofU8 old)) = ofU8 (List.take sz (List.drop off old)) := by
          simp [ofU8, List.map_take, List.map_drop]
        rw [this, ← ofU8_append, ih hu']
        cases h : Delta.applyOps old (t.map absOp) <;>
          simp [literalBytes, bytesWritten, List.append_assoc, Nat.add_assoc]
      · simp [hc]
    | Data d =>
      have hd : d = ofU8 (toU8 d) := (ofU8_toU8 d (hu _ List.mem_cons_self)).symm
      simp only [deltaStep, List.map_cons, absOp, Delta.applyOps, applyPartial, oldPos]
      conv => lhs; rw [hd, ← ofU8_append]
      rw [ih hu']
      cases h : Delta.applyOps old (t.map absOp) <;>
        simp [literalBytes, bytesWritten, List.append_assoc, Nat.add_assoc, toU8, ofU8]


/-- `File::create p` succeeds in `w` -/
def CanCreate (w : World) (p : Rs.Path) : Prop :=
  w.dirs p = false ∧ ∃ d, Rs.parent p = some d ∧ w.isDir d = true

theorem open_ok (w : World) (p : Rs.Path) (c : List Nat) (h : w.files p = some c) :
    openOp p w = .ok (w.opened + 1, { w with opened := w.opened + 1, handle := upd w.handle (w.opened + 1) (some ⟨p, 0⟩) }) := by
  simp [openOp, h]

theorem create_ok (w : World) (p : Rs.Path) (h : CanCreate w p) :
    createOp p w = .ok (w.opened + 1,
          { w with files := upd w.files p (some []), mtime := upd w.mtime p none,
                   opened := w.opened + 1, handle := upd w.handle (w.opened + 1) (some ⟨p, 0⟩) }) := by
  obtain ⟨h1, d, h2, h3⟩ := h
  simp only [World.isDir] at h3
  simp [createOp, h1, h2, World.isDir, h3]

theorem apply_delta_run (P : Parsers) (w : World) (oldp newp : Rs.Path) (delta : Delta) (old : Bytes)
    (hold : w.files oldp = some (ofU8 old)) (hne : oldp ≠ newp) (hcr : CanCreate w newp)
    (hu : ∀ op ∈ delta.ops, OpU8 op) :
    apply_delta (posix P) oldp delta newp w =
      (if (Delta.applyOps old (delta.ops.map absOp)).isSome then
         .ok { operations_count := delta.ops.length, literal_bytes := literalBytes delta.ops,
               bytes_written := bytesWritten delta.ops }
       else .error .io,
       deltaWorld w oldp newp (oldPos old 0 (delta.ops.map absOp)) (ofU8 (applyPartial old (delta.ops.map absOp)))) := by
  have hcr' : CanCreate { w with opened := w.opened + 1, handle := upd w.handle (w.opened + 1) (some ⟨oldp, 0⟩) } newp := hcr
  have hw : ({ w with files := upd w.files newp (some []), mtime := upd w.mtime newp none,
                           opened := w.opened + 1 + 1, handle := upd (upd w.handle (w.opened + 1) (some ⟨oldp, 0⟩)) (w.opened + 1 + 1) (some ⟨newp, 0⟩) } : World)
      = deltaWorld w oldp newp 0 (ofU8 []) := rfl
  unfold apply_delta
  simp only [posix, run_bind, run_op, open_ok w oldp _ hold, create_ok _ newp hcr', hw]
  rw [apply_delta_loop w oldp newp old _ _ _ hu]
  · cases h : Delta.applyOps old (delta.ops.map absOp) <;> simp [run_pure, Rs.len]
  · intro op acc pos out
    have e2 : w.opened + 1 + 1 = w.opened + 2 := rfl
    cases op with
    | Copy off sz =>
      simp only [run_bind, run_op, run_pure, delta_seek w oldp newp _ hold hne, delta_readExact w oldp newp _ hold hne,
        List.length_replicate, deltaStep, Rs.cast, Rs.len, e2, id]
      by_cases hc : sz = 0 ∨ off + sz ≤ (ofU8 old).length
      · simp only [hc, if_true, delta_writeAll]
      · simp only [hc, if_false]
    | Data d =>
      simp only [run_bind, run_op, run_pure, delta_writeAll, deltaStep, Rs.cast, Rs.len, e2, id]


/-! ### bytes as numbers; the magic test -/

theorem toU8_ofU8 (b : Bytes) : toU8 (ofU8 b) = b := by
  induction b with
  | nil => rfl
  | cons x t ih =>
    simp only [toU8, ofU8, List.map_cons, List.cons.injEq] at *
    exact ⟨by simp [Nat.toUInt8], ih⟩

theorem len_ofU8 (b : Bytes) : Rs.len (ofU8 b) = b.length := by simp [Rs.len, ofU8]

theorem index_ofU8 (b : Bytes) (i : Nat) : Rs.index (ofU8 b) i = (b.getD i 0).toNat := by
  induction b generalizing i with
  | nil => simp [Rs.index, ofU8]
  | cons x t ih =>
    cases i with
    | zero => simp [Rs.index, ofU8]
    | succ i => simpa [Rs.index, ofU8] using ih i

theorem hasZstdMagic_eq (b : Bytes) :
    Compress.hasZstdMagic b = (decide (b.length ≥ 4) && (b.getD 0 0).toNat == 0x28 && (b.getD 1 0).toNat == 0xB5 &&
      (b.getD 2 0).toNat == 0x2F && (b.getD 3 0).toNat == 0xFD) := by
  have key : ∀ (a : UInt8) (k : Nat), k < 256 → (a.toNat == k) = (a == k.toUInt8) := by
    intro a k hk
    rw [Bool.eq_iff_iff]; simp only [beq_iff_eq]
    constructor
    · intro h; subst h; simp [Nat.toUInt8]
    · intro h; subst h; simp [Nat.toUInt8, Nat.mod_eq_of_lt hk]
  rcases b with _ | ⟨a, _ | ⟨b, _ | ⟨c, _ | ⟨d, t⟩⟩⟩⟩ <;> simp [Compress.hasZstdMagic]
  rw [key a 40 (by omega), key b 181 (by omega), key c 47 (by omega), key d 253 (by omega)]
  rfl


/-! ### directories -/

theorem mem_selfAndAncestors_length {q a : Rs.Path} (h : a ∈ selfAndAncestors q) : a.length ≤ q.length := by
  simp only [selfAndAncestors, List.mem_filter, List.mem_map, List.mem_range] at h
  obtain ⟨⟨n, _, rfl⟩, _⟩ := h
  simp [List.length_take]; omega

theorem self_mem_selfAndAncestors {q : Rs.Path} (h : q ≠ []) : q ∈ selfAndAncestors q := by
  simp only [selfAndAncestors, List.mem_filter, List.mem_map, List.mem_range]
  refine ⟨⟨q.length, by omega, by simp⟩, ?_⟩
  cases q with
  | nil => exact absurd rfl h
  | cons x t => simp

theorem parent_length {p d : Rs.Path} (h : Rs.parent p = some d) : d.length < p.length := by
  unfold Rs.parent at h
  split at h
  · rename_i before after hs
    simp only [Option.some.injEq] at h; subst h
    unfold Rs.splitLastAt at hs
    simp only at hs
    split at hs
    · simp at hs
    · rename_i x before' hd
      simp only [Option.some.injEq, Prod.mk.injEq] at hs
      have := (List.dropWhile_sublist (l := p.reverse) (fun x => decide (x ≠ ('/' : Char)))).length_le
      rw [hd] at this
      rw [← hs.1]
      simp only [List.length_reverse, List.length_cons] at *
      omega
  · split at h
    · simp at h
    · rename_i hne
      simp only [Option.some.injEq] at h; subst h
      cases p with
      | nil => simp at hne
      | cons x t => simp

/-- `create_dir_all (parent p)` and then `File::create p` succeed in `w` -/
def CanReceive (w : World) (p : Rs.Path) : Prop :=
  w.dirs p = false ∧ ∃ d, Rs.parent p = some d ∧ ∀ a ∈ selfAndAncestors d, w.files a = none

/-- the world while an output file is being written: directories `ds` made, stdin read up to `sp`, the file `p`
    open under the next handle at position `pos` with content `c` and modification time `mt` -/
def outWorld (w : World) (p : Rs.Path) (ds : List Rs.Path) (sp pos : Nat) (c : List Nat) (mt : Option Nat) : World :=
  { w with stdinPos := sp, dirs := fun a => w.dirs a || ds.contains a, files := upd w.files p (some c),
           mtime := upd w.mtime p mt, opened := w.opened + 1, handle := upd w.handle (w.opened + 1) (some ⟨p, pos⟩) }

/-- the world after `create_dir_all` made the directories `ds` -/
def withDirs (w : World) (ds : List Rs.Path) : World := { w with dirs := fun a => w.dirs a || ds.contains a }

theorem createDirAll_ok (w : World) (d : Rs.Path) (h : ∀ a ∈ selfAndAncestors d, w.files a = none) :
    createDirAllOp d w = .ok ((), withDirs w (selfAndAncestors d)) := by
  unfold createDirAllOp
  rw [if_neg]
  · rfl
  simp only [List.any_eq_true, not_exists, not_and]
  intro a ha; simp [h a ha]

theorem create_after_mkdir (w : World) (p d : Rs.Path) (hnd : w.dirs p = false) (hp : Rs.parent p = some d) :
    createOp p (withDirs w (selfAndAncestors d)) =
      .ok (w.opened + 1, outWorld w p (selfAndAncestors d) w.stdinPos 0 [] none) := by
  have h1 : (selfAndAncestors d).contains p = false := by
    rw [List.contains_eq_mem, decide_eq_false_iff_not]
    intro hm
    have := mem_selfAndAncestors_length hm
    have := parent_length hp
    omega
  have h2 : (d.isEmpty || (w.dirs d || (selfAndAncestors d).contains d)) = true := by
    cases d with
    | nil => rfl
    | cons x t =>
      have := self_mem_selfAndAncestors (q := x :: t) (by simp)
      simp [this]
  simp only [createOp, World.isDir, withDirs, hnd, h1, hp, h2]
  rfl
theorem out_writeAll (w : World) (p : Rs.Path) (ds : List Rs.Path) (sp pos : Nat) (c data : List Nat) :
    writeAllOp (w.opened + 1) data (outWorld w p ds sp pos c none) =
      .ok ((), outWorld w p ds sp (pos + data.length) (if data.isEmpty then c else pwrite c pos data) none) := by
  unfold writeAllOp
  split
  · rename_i h; simp at h; simp [h]
  · rename_i h
    simp [World.target, stdinHandle, outWorld, World.setPos, h]

theorem out_setLen (w : World) (p : Rs.Path) (ds : List Rs.Path) (sp pos n : Nat) (c : List Nat) :
    setLenOp (w.opened + 1) n (outWorld w p ds sp pos c none) = .ok ((), outWorld w p ds sp pos (truncate c n) none) := by
  simp [setLenOp, World.target, stdinHandle, outWorld]

theorem out_seek (w : World) (p : Rs.Path) (ds : List Rs.Path) (sp pos off : Nat) (c : List Nat) (mt : Option Nat) :
    seekOp (w.opened + 1) (.Start off) (outWorld w p ds sp pos c mt) = .ok (off, outWorld w p ds sp off c mt) := by
  have h1 : ¬ ((off : Int) < 0) := by omega
  simp [seekOp, World.target, stdinHandle, outWorld, World.setPos, h1]

theorem out_readStdin (w : World) (p : Rs.Path) (ds : List Rs.Path) (sp pos : Nat) (c buf : List Nat) (mt : Option Nat) :
    readExactOp stdinHandle buf (outWorld w p ds sp pos c mt) =
      if buf.length = 0 ∨ sp + buf.length ≤ w.stdin.length then
        .ok ((w.stdin.drop sp).take buf.length, outWorld w p ds (sp + buf.length) pos c mt)
      else .error .io := by
  simp [readExactOp, World.source, stdinHandle, outWorld, World.setPos]

theorem out_setMtime (w : World) (p : Rs.Path) (ds : List Rs.Path) (sp pos t : Nat) (c : List Nat) (mt : Option Nat) :
    setMtimeOp p t (outWorld w p ds sp pos c mt) =
      if w.denyUtime then .error .io else .ok ((), outWorld w p ds sp pos c (some t)) := by
  simp [setMtimeOp, outWorld]

/-- the world after `read_to_end` on a fresh stdin -/
def afterRead (w : World) : World := { w with stdinPos := w.stdin.length }

theorem readToEnd_stdin (w : World) (h : w.stdinPos = 0) :
    readToEndOp stdinHandle [] w = .ok (w.stdin, afterRead w) := by
  simp [readToEndOp, World.source, World.setPos, h, afterRead]

theorem outWorld_afterRead (w : World) (p : Rs.Path) (ds : List Rs.Path) (sp pos : Nat) (c : List Nat) (m : Option Nat) :
    outWorld (afterRead w) p ds sp pos c m = outWorld w p ds sp pos c m := rfl

theorem pwrite_nil (data : List Nat) : pwrite [] 0 data = data := pwrite_end [] data

theorem ite_isEmpty_self (data : List Nat) : (if data.isEmpty = true then [] else data) = data := by
  cases data <;> rfl

/-! ### the instance, field by field -/
section
variable (P : Parsers)
theorem posix_Cli_parse (w : World) : (posix P).Cli_parse () w = (.ok w.cli, w) := rfl
theorem posix_stdin : (posix P).std_io_stdin () = stdinHandle := rfl
theorem posix_unmodelled (s : Rs.Str) : (posix P).unmodelled s = throw .other := rfl
theorem posix_decompress (d : List Nat) (c : Compression) : (posix P).decompress d c =
  ofOption ((Compress.decompress P.L P.Z (absCompression c) (toU8 d)).map ofU8) := rfl
theorem posix_utf8 (b : List Nat) : (posix P).String_from_utf8 b = ofOption (P.utf8Decode (toU8 b)) := rfl
theorem posix_json_delta (s : Rs.Str) : (posix P).serde_json_from_str_Delta s =
  ofOption ((Delta.decodeJson (P.utf8Encode s)).map concDelta) := rfl
theorem posix_json_vec (s : Rs.Str) : (posix P).serde_json_from_str_Vec s =
  ofOption ((Compress.decodeRegions (P.utf8Encode s)).map (·.map concRegion)) := rfl
theorem posix_open (p : Rs.Path) : (posix P).open_ p = (openOp p).run := rfl
theorem posix_create (p : Rs.Path) : (posix P).create p = (createOp p).run := rfl
theorem posix_mkdir (p : Rs.Path) : (posix P).std_fs_create_dir_all p = (createDirAllOp p).run := rfl
theorem posix_mtime (p : Rs.Path) (t : Nat) : (posix P).filetime_set_file_mtime p t = (setMtimeOp p t).run := rfl
theorem posix_read_to_end (h : Nat) (b : List Nat) : (posix P).h_read_to_end h b = (readToEndOp h b).run := rfl
theorem posix_read_exact (h : Nat) (b : List Nat) : (posix P).h_read_exact h b = (readExactOp h b).run := rfl
theorem posix_write_all (h : Nat) (b : List Nat) : (posix P).h_write_all h b = (writeAllOp h b).run := rfl
theorem posix_flush (h : Nat) : (posix P).h_flush h = pure () := rfl
theorem posix_sync_all (h : Nat) : (posix P).h_sync_all h = pure () := rfl
theorem posix_set_len (h n : Nat) : (posix P).h_set_len h n = (setLenOp h n).run := rfl
theorem posix_seek (h : Nat) (s : Rs.SeekFrom) : (posix P).h_seek h s = (seekOp h s).run := rfl
end

/-! ### the `receive-file` arm -/

theorem main_receive_file_run (P : Parsers) (w : World) (out d : Rs.Path) (mt : Option Nat) (stdin : Bytes)
    (hcli : w.cli.command = .ReceiveFile out mt) (hstdin : w.stdin = ofU8 stdin) (hpos : w.stdinPos = 0)
    (hnd : w.dirs out = false) (hp : Rs.parent out = some d) (hclear : ∀ a ∈ selfAndAncestors d, w.files a = none) :
    main (posix P) w =
      match Compress.sniff P.Z stdin with
      | none => (.error .other, afterRead w)
      | some data => (.ok (), outWorld w out (selfAndAncestors d) stdin.length data.length (ofU8 data)
                                (if w.denyUtime then none else mt.map Rs.duration_from_secs)) := by
  have hsp : (afterRead w).stdinPos = stdin.length := by simp [afterRead, hstdin, ofU8_length]
  have hmk := createDirAll_ok (afterRead w) d hclear
  have hcr := create_after_mkdir (afterRead w) out d hnd hp
  have hop : (afterRead w).opened = w.opened := rfl
  unfold main
  simp only [run_bind, posix_Cli_parse, hcli, posix_read_to_end, posix_stdin, run_op, readToEnd_stdin w hpos, hstdin,
    len_ofU8, index_ofU8, ← hasZstdMagic_eq]
  unfold Compress.sniff
  by_cases hm : Compress.hasZstdMagic stdin = true
  · simp only [hm, if_true, posix_decompress, absCompression, Compress.decompress, toU8_ofU8]
    cases hz : P.Z.decompress stdin with
    | none => simp only [Option.map, ofOption, run_liftE_error, run_bind]
    | some data =>
      simp only [Option.map, ofOption, run_liftE_ok, run_pure]
      simp only [hp, run_bind, run_liftE_ok, posix_mkdir, posix_create, posix_write_all, posix_flush, run_op, run_pure,
        hmk, hcr, hsp, hop, out_writeAll, outWorld_afterRead, pwrite_nil, ite_isEmpty_self, Nat.zero_add, ofU8_length]
      cases mt with
      | none => simp only [run_pure, ite_self]
      | some s =>
        cases hut : w.denyUtime <;>
        simp only [run_bind, run_capture, posix_mtime, run_op, out_setMtime, hut, run_pure, id_eq, Rs.UNIX_EPOCH,
          Nat.zero_add, Bool.false_eq_true, if_false, if_true]
  · simp only [hm, if_false, run_pure, Bool.false_eq_true]
    simp only [hp, run_bind, run_liftE_ok, posix_mkdir, posix_create, posix_write_all, posix_flush, run_op, run_pure,
      hmk, hcr, hsp, hop, out_writeAll, outWorld_afterRead, pwrite_nil, ite_isEmpty_self, Nat.zero_add, ofU8_length]
    cases mt with
    | none => simp only [run_pure, Option.map, ite_self]
    | some s =>
      cases hut : w.denyUtime <;>
      simp only [run_bind, run_capture, posix_mtime, run_op, out_setMtime, hut, run_pure, id_eq, Rs.UNIX_EPOCH,
        Nat.zero_add, Bool.false_eq_true, if_false, if_true, Option.map]

/-! ### the `receive-sparse-file` arm -/

/-- the loop of `receive-sparse-file` on lists of numbers, from content `c`, stdin position `sp`, file position `pos`:
    (all regions served, content, stdin position, file position) -/
def sparseLoop (stdin : List Nat) : List Nat → Nat → Nat → List DataRegion → Bool × List Nat × Nat × Nat
  | c, sp, pos, [] => (true, c, sp, pos)
  | c, sp, _, r :: rs =>
    if r.length = 0 ∨ sp + r.length ≤ stdin.length then
      sparseLoop stdin (if ((stdin.drop sp).take r.length).isEmpty then c else pwrite c r.offset ((stdin.drop sp).take r.length))
        (sp + r.length) (r.offset + ((stdin.drop sp).take r.length).length) rs
    else (false, c, sp, r.offset)

/-- what one iteration of that loop does in an `outWorld` (a specification, as `deltaStep`) -/
def sparseStep (w : World) (p : Rs.Path) (ds : List Rs.Path) (r : DataRegion) (acc sp : Nat) (c : List Nat) :
    Except Rs.Err (ForInStep Nat) × World :=
  if r.length = 0 ∨ sp + r.length ≤ w.stdin.length then
    (.ok (.yield (acc + r.length)),
      outWorld w p ds (sp + r.length) (r.offset + ((w.stdin.drop sp).take r.length).length)
        (if ((w.stdin.drop sp).take r.length).isEmpty then c else pwrite c r.offset ((w.stdin.drop sp).take r.length)) none)
  else (.error .io, outWorld w p ds sp r.offset c none)

def regionBytes : List DataRegion → Nat
  | [] => 0
  | r :: rs => r.length + regionBytes rs

theorem sparse_loop (w : World) (p : Rs.Path) (ds : List Rs.Path)
    (f : DataRegion → Nat → Rs.M World (ForInStep Nat))
    (hf : ∀ r acc sp pos c, f r acc (outWorld w p ds sp pos c none) = sparseStep w p ds r acc sp c)
    (rs : List DataRegion) (acc sp pos : Nat) (c : List Nat) :
    forIn rs acc f (outWorld w p ds sp pos c none) =
      (if (sparseLoop w.stdin c sp pos rs).1 then .ok (acc + regionBytes rs) else .error .io,
       outWorld w p ds (sparseLoop w.stdin c sp pos rs).2.2.1 (sparseLoop w.stdin c sp pos rs).2.2.2
         (sparseLoop w.stdin c sp pos rs).2.1 none) := by
  induction rs generalizing acc sp pos c with
  | nil => simp [run_pure, sparseLoop, regionBytes]
  | cons r t ih =>
    simp only [List.forIn_cons, run_bind, hf, sparseStep, sparseLoop]
    by_cases hc : r.length = 0 ∨ sp + r.length ≤ w.stdin.length
    · simp only [hc, if_true, ih, regionBytes, Nat.add_assoc]
    · simp only [hc, if_false, Bool.false_eq_true]

theorem ofU8_writeAt (file : Bytes) (off : Nat) (d : Bytes) :
    ofU8 (Compress.writeAt file off d) = if (ofU8 d).isEmpty then ofU8 file else pwrite (ofU8 file) off (ofU8 d) := by
  unfold Compress.writeAt pwrite
  cases d with
  | nil => rfl
  | cons x t =>
    simp [ofU8, Compress.zeros, zeros, List.map_take, List.map_drop, List.map_replicate]

theorem ofU8_setLen (file : Bytes) (n : Nat) : ofU8 (Compress.setLen file n) = truncate (ofU8 file) n := by
  simp [Compress.setLen, truncate, ofU8, Compress.zeros, zeros, List.map_take]

theorem sparseLoop_eq_model (stdin file : Bytes) (rs : List Compress.Region) (sp pos : Nat) :
    (sparseLoop (ofU8 stdin) (ofU8 file) sp pos (rs.map concRegion)).1 =
        (Compress.receiveSparseGo file rs (stdin.drop sp)).isSome ∧
    ∀ r, Compress.receiveSparseGo file rs (stdin.drop sp) = some r →
      (sparseLoop (ofU8 stdin) (ofU8 file) sp pos (rs.map concRegion)).2.1 = ofU8 r := by
  induction rs generalizing file sp pos with
  | nil => simp [sparseLoop, Compress.receiveSparseGo]
  | cons x t ih =>
    simp only [List.map_cons, sparseLoop, concRegion, Compress.receiveSparseGo, ofU8_length, List.length_drop]
    by_cases hc : x.length = 0 ∨ sp + x.length ≤ stdin.length
    · have hlt : ¬ (stdin.length - sp < x.length) := by omega
      have hd : List.take x.length (List.drop sp (ofU8 stdin)) = ofU8 (List.take x.length (List.drop sp stdin)) := by
        simp [ofU8, List.map_take, List.map_drop]
      simp only [hc, if_true, hlt, if_false, hd, ← ofU8_writeAt, List.drop_drop]
      exact ih _ _ _
    · have hlt : stdin.length - sp < x.length := by omega
      simp [hc, hlt]


theorem main_receive_sparse_run (P : Parsers) (w : World) (out d : Rs.Path) (total : Nat) (regions : Rs.Str)
    (mt : Option Nat)
    (hcli : w.cli.command = .ReceiveSparseFile out total regions mt)
    (hnd : w.dirs out = false) (hp : Rs.parent out = some d) (hclear : ∀ a ∈ selfAndAncestors d, w.files a = none) :
    main (posix P) w =
      match Compress.decodeRegions (P.utf8Encode regions) with
      | none => (.error .other, w)
      | some rs =>
        let r := sparseLoop w.stdin (truncate [] total) w.stdinPos 0 (rs.map concRegion)
        if r.1 then (.ok (), outWorld w out (selfAndAncestors d) r.2.2.1 r.2.2.2 r.2.1
                          (if w.denyUtime then none else mt.map Rs.duration_from_secs))
        else (.error .io, outWorld w out (selfAndAncestors d) r.2.2.1 r.2.2.2 r.2.1 none) := by
  have hmk := createDirAll_ok w d hclear
  have hcr := create_after_mkdir w out d hnd hp
  unfold main
  simp only [run_bind, posix_Cli_parse, hcli, posix_json_vec]
  cases hdec : Compress.decodeRegions (P.utf8Encode regions) with
  | none => simp only [Option.map, ofOption, run_liftE_error]
  | some rs =>
    simp only [Option.map, ofOption, run_liftE_ok, hp, run_bind, posix_mkdir, posix_create, posix_set_len, posix_stdin,
      posix_flush, posix_sync_all, run_op, run_pure, hmk, hcr, out_setLen]
    rw [sparse_loop w out (selfAndAncestors d)]
    · cases hl : (sparseLoop w.stdin (truncate [] total) w.stdinPos 0 (List.map concRegion rs)).1 with
      | false => simp only [Bool.false_eq_true, if_false]
      | true =>
        simp only [if_true]
        cases mt with
        | none => simp only [run_pure, Option.map, ite_self]
        | some s =>
          cases hut : w.denyUtime <;>
          simp only [run_bind, run_capture, posix_mtime, run_op, out_setMtime, hut, run_pure, id_eq, Rs.UNIX_EPOCH,
            Nat.zero_add, Bool.false_eq_true, if_false, if_true, Option.map]
    · intro r acc sp pos c
      simp only [run_bind, run_op, run_pure, posix_seek, posix_read_exact, posix_write_all, out_seek, out_readStdin,
        List.length_replicate, sparseStep, Rs.cast, id_eq]
      by_cases hc : r.length = 0 ∨ sp + r.length ≤ w.stdin.length
      · simp only [hc, if_true, out_writeAll]
      · simp only [hc, if_false]

/-! ### the `apply-delta` arm -/

theorem absOp_concOp (op : Delta.Op) : absOp (concOp op) = op := by
  cases op <;> simp [absOp, concOp, toU8_ofU8]

theorem absOps_concOps (ops : List Delta.Op) : (ops.map concOp).map absOp = ops := by
  induction ops with
  | nil => rfl
  | cons x t ih => simp only [List.map_cons, absOp_concOp, ih]

theorem ofU8_lt (b : Bytes) : ∀ x ∈ ofU8 b, x < 256 := by
  intro x hx
  simp only [ofU8, List.mem_map] at hx
  obtain ⟨y, _, rfl⟩ := hx
  exact y.toNat_lt

theorem opU8_concOp (op : Delta.Op) : OpU8 (concOp op) := by
  cases op with
  | copy o s => trivial
  | data d => exact ofU8_lt d

theorem opsU8_concDelta (d : Delta.Delta) : ∀ op ∈ (concDelta d).ops, OpU8 op := by
  intro op hop
  simp only [concDelta, List.mem_map] at hop
  obtain ⟨o, _, rfl⟩ := hop
  exact opU8_concOp o

theorem main_apply_delta_run (P : Parsers) (w : World) (base out : Rs.Path) (stdin old : Bytes)
    (hcli : w.cli.command = .ApplyDelta base out) (hstdin : w.stdin = ofU8 stdin) (hpos : w.stdinPos = 0)
    (hold : w.files base = some (ofU8 old)) (hne : base ≠ out) (hcr : CanCreate w out) :
    main (posix P) w =
      match (Compress.sniff P.Z stdin).bind P.utf8Decode with
      | none => (.error .other, afterRead w)
      | some text =>
        match Delta.decodeJson (P.utf8Encode text) with
        | none => (.error .other, afterRead w)
        | some d =>
          (if (Delta.applyOps old d.ops).isSome then .ok () else .error .io,
           deltaWorld (afterRead w) base out (oldPos old 0 d.ops) (ofU8 (applyPartial old d.ops))) := by
  have hold' : (afterRead w).files base = some (ofU8 old) := hold
  have hcr' : CanCreate (afterRead w) out := hcr
  unfold main
  simp only [run_bind, posix_Cli_parse, hcli, posix_read_to_end, posix_stdin, run_op, readToEnd_stdin w hpos, hstdin,
    len_ofU8, index_ofU8, ← hasZstdMagic_eq]
  unfold Compress.sniff
  by_cases hm : Compress.hasZstdMagic stdin = true
  · simp only [hm, if_true, posix_decompress, absCompression, Compress.decompress, toU8_ofU8]
    cases hz : P.Z.decompress stdin with
    | none => simp only [Option.map, ofOption, run_liftE_error, run_bind, Option.bind]
    | some data =>
      simp only [Option.map, ofOption, run_liftE_ok, run_bind, posix_utf8, toU8_ofU8, run_pure, Option.bind]
      cases hu : P.utf8Decode data with
      | none => simp only [ofOption, run_liftE_error]
      | some text =>
        simp only [ofOption, run_liftE_ok, posix_json_delta]
        cases hj : Delta.decodeJson (P.utf8Encode text) with
        | none => simp only [Option.map, ofOption, run_liftE_error]
        | some d =>
          simp only [Option.map, ofOption, run_liftE_ok,
            apply_delta_run P (afterRead w) base out (concDelta d) old hold' hne hcr' (opsU8_concDelta d)]
          simp only [concDelta, absOps_concOps]
          cases Delta.applyOps old d.ops <;> simp [run_pure]
  · simp only [hm, if_false, Bool.false_eq_true, run_bind, posix_utf8, toU8_ofU8, run_pure, Option.bind]
    cases hu : P.utf8Decode stdin with
    | none => simp only [ofOption, run_liftE_error]
    | some text =>
      simp only [ofOption, run_liftE_ok, posix_json_delta]
      cases hj : Delta.decodeJson (P.utf8Encode text) with
      | none => simp only [Option.map, ofOption, run_liftE_error]
      | some d =>
        simp only [Option.map, ofOption, run_liftE_ok,
          apply_delta_run P (afterRead w) base out (concDelta d) old hold' hne hcr' (opsU8_concDelta d)]
        simp only [concDelta, absOps_concOps]
        cases Delta.applyOps old d.ops <;> simp [run_pure]

/-! ### the JSON text the model's parser accepts is 7-bit (so `String::from_utf8` accepts it) -/
section
open SyModel.Json SyModel.Delta

/-- 7-bit bytes -/
def Ascii (l : Bytes) : Prop := ∀ x ∈ l, x.toNat < 128

instance (l : Bytes) : Decidable (Ascii l) := by unfold Ascii; infer_instance

theorem Ascii.nil : Ascii [] := fun _ h => by simp at h
theorem Ascii.append {a b : Bytes} (ha : Ascii a) (hb : Ascii b) : Ascii (a ++ b) := by
  intro x hx; rcases List.mem_append.mp hx with h | h
  · exact ha x h
  · exact hb x h
theorem Ascii.cons {x : UInt8} {b : Bytes} (hx : x.toNat < 128) (hb : Ascii b) : Ascii (x :: b) := by
  intro y hy; rcases List.mem_cons.mp hy with h | h
  · subst h; exact hx
  · exact hb y h

/-- a parser step consumed an ASCII prefix -/
def Consumed (l r : Bytes) : Prop := ∃ c, l = c ++ r ∧ Ascii c

theorem Consumed.refl (l : Bytes) : Consumed l l := ⟨[], rfl, Ascii.nil⟩
theorem Consumed.trans {a b c : Bytes} (h1 : Consumed a b) (h2 : Consumed b c) : Consumed a c := by
  obtain ⟨x, rfl, hx⟩ := h1; obtain ⟨y, rfl, hy⟩ := h2
  exact ⟨x ++ y, by simp, hx.append hy⟩
theorem Consumed.cons {x : UInt8} {l r : Bytes} (hx : x.toNat < 128) (h : Consumed l r) : Consumed (x :: l) r := by
  obtain ⟨c, rfl, hc⟩ := h; exact ⟨x :: c, rfl, hc.cons hx⟩
theorem Consumed.ascii {l : Bytes} (h : Consumed l []) : Ascii l := by
  obtain ⟨c, rfl, hc⟩ := h; simpa using hc

theorem expect_consumed {p l r : Bytes} (hp : Ascii p) (h : expect p l = some r) : Consumed l r := by
  induction p generalizing l with
  | nil => simp [expect] at h; subst h; exact Consumed.refl _
  | cons a ps ih =>
    cases l with
    | nil => simp [expect] at h
    | cons x xs =>
      simp only [expect] at h
      split at h
      · rename_i hax; subst hax
        exact (ih (fun y hy => hp y (List.mem_cons_of_mem _ hy)) h).cons (hp a List.mem_cons_self)
      · simp at h

theorem isDigit_ascii {b : UInt8} (h : isDigit b = true) : b.toNat < 128 := by
  simp [isDigit] at h; omega

theorem parseDigits_consumed (acc : Nat) (l : Bytes) : Consumed l (parseDigits acc l).2 := by
  induction l generalizing acc with
  | nil => exact Consumed.refl _
  | cons b t ih =>
    simp only [parseDigits]
    split
    · rename_i hd; exact (ih _).cons (isDigit_ascii hd)
    · exact Consumed.refl _

theorem parseNat_consumed {l r : Bytes} {n : Nat} (h : parseNat l = some (n, r)) : Consumed l r := by
  cases l with
  | nil => simp [parseNat] at h
  | cons b t =>
    simp only [parseNat] at h
    split at h
    · rename_i hb
      split at h
      · simp at h
      · simp only [Option.some.injEq, Prod.mk.injEq] at h
        rw [← h.2, hb]; exact (Consumed.refl _).cons (by decide)
    · split at h
      · simp only [Option.some.injEq] at h
        have := parseDigits_consumed 0 (b :: t)
        rw [h] at this; exact this
      · simp at h


theorem parseByteElems_consumed {l d r : Bytes} (h : parseByteElems l = some (d, r)) : Consumed l r := by
  induction hl : l.length using Nat.strongRecOn generalizing l d r with
  | _ k ih =>
    rw [parseByteElems] at h
    split at h
    · rename_i n r' hp
      have h1 := parseNat_length hp
      have c1 := parseNat_consumed hp
      split at h
      · split at h
        · rename_i bs r'' hrec
          have c2 := ih r'.length (by simp only [List.length_cons] at h1; omega) hrec rfl
          simp only [Option.some.injEq, Prod.mk.injEq] at h
          rw [← h.2]; exact c1.trans (c2.cons (by decide))
        · simp at h
      · simp at h
    · rename_i n r' hp
      have c1 := parseNat_consumed hp
      split at h
      · simp only [Option.some.injEq, Prod.mk.injEq] at h
        rw [← h.2]; exact c1.trans ((Consumed.refl _).cons (by decide))
      · simp at h
    · simp at h

theorem parseByteArr_consumed {l d r : Bytes} (h : parseByteArr l = some (d, r)) : Consumed l r := by
  unfold parseByteArr at h
  split at h
  · simp only [Option.some.injEq, Prod.mk.injEq] at h; rw [← h.2]; exact (Consumed.refl _).cons (by decide)
  · exact parseByteElems_consumed h

theorem lit_ascii_copy : Ascii (lit "{\"Copy\":{\"offset\":") := by decide
theorem lit_ascii_size : Ascii (lit ",\"size\":") := by decide
theorem lit_ascii_close2 : Ascii (lit "}}") := by decide
theorem lit_ascii_data : Ascii (lit "{\"Data\":[") := by decide
theorem lit_ascii_closeData : Ascii (lit "]}") := by decide
theorem lit_ascii_ops : Ascii (lit "{\"ops\":[") := by decide
theorem lit_ascii_src : Ascii (lit "],\"source_size\":") := by decide
theorem lit_ascii_bs : Ascii (lit ",\"block_size\":") := by decide

theorem parseOp_consumed {l r : Bytes} {op : Delta.Op} (h : parseOp l = some (op, r)) : Consumed l r := by
  unfold parseOp at h
  split at h
  · rename_i r1 h1
    split at h <;> try (simp at h)
    rename_i o r2 h2
    split at h <;> try (simp at h)
    rename_i r3 h3
    split at h <;> try (simp at h)
    rename_i s r4 h4
    split at h <;> try (simp at h)
    rename_i r5 h5
    rw [← h.2]
    exact (expect_consumed lit_ascii_copy h1).trans ((parseNat_consumed h2).trans
      ((expect_consumed lit_ascii_size h3).trans ((parseNat_consumed h4).trans (expect_consumed lit_ascii_close2 h5))))
  · split at h <;> try (simp at h)
    rename_i r1 h1
    split at h <;> try (simp at h)
    rename_i d r2 h2
    split at h <;> try (simp at h)
    rename_i r3 h3
    rw [← h.2]
    -- `parseByteArr` consumed the `]`; `expect "]}" (93 :: r2)` strips `}` from `r2`
    have c3 : Consumed r2 r3 := by
      have := expect_consumed lit_ascii_closeData h3
      obtain ⟨c, hc, hca⟩ := this
      cases c with
      | nil =>
        simp only [List.nil_append] at hc
        have hl := expect_length h3
        rw [← hc] at hl; simp [lit] at hl
      | cons x c' =>
        simp only [List.cons_append, List.cons.injEq] at hc
        exact ⟨c', hc.2, fun y hy => hca y (List.mem_cons_of_mem _ hy)⟩
    exact (expect_consumed lit_ascii_data h1).trans ((parseByteArr_consumed h2).trans c3)


theorem parseOpElems_consumed {l r : Bytes} {ops : List Delta.Op} (h : parseOpElems l = some (ops, r)) :
    Consumed l r := by
  induction hl : l.length using Nat.strongRecOn generalizing l ops r with
  | _ k ih =>
    rw [parseOpElems] at h
    split at h
    · rename_i op r' hp
      have h1 := parseOp_length hp
      have c1 := parseOp_consumed hp
      split at h
      · rename_i ops' r'' hrec
        have c2 := ih r'.length (by simp only [List.length_cons] at h1; omega) hrec rfl
        simp only [Option.some.injEq, Prod.mk.injEq] at h
        rw [← h.2]; exact c1.trans (c2.cons (by decide))
      · simp at h
    · rename_i op r' hp
      have c1 := parseOp_consumed hp
      simp only [Option.some.injEq, Prod.mk.injEq] at h
      rw [← h.2]; exact c1.trans ((Consumed.refl _).cons (by decide))
    · simp at h

theorem parseOpArr_consumed {l r : Bytes} {ops : List Delta.Op} (h : parseOpArr l = some (ops, r)) : Consumed l r := by
  unfold parseOpArr at h
  split at h
  · simp only [Option.some.injEq, Prod.mk.injEq] at h; rw [← h.2]; exact (Consumed.refl _).cons (by decide)
  · exact parseOpElems_consumed h

/-- the JSON parser of the model accepts 7-bit text only -/
theorem decodeJson_ascii {l : Bytes} {d : Delta.Delta} (h : decodeJson l = some d) : Ascii l := by
  unfold decodeJson at h
  split at h <;> try (simp at h)
  rename_i r1 h1
  split at h <;> try (simp at h)
  rename_i ops r2 h2
  split at h <;> try (simp at h)
  rename_i r3 h3
  split at h <;> try (simp at h)
  rename_i ss r4 h4
  split at h <;> try (simp at h)
  rename_i r5 h5
  split at h <;> try (simp at h)
  rename_i bs r6 h6
  split at h <;> try (simp at h)
  have c3 : Consumed r2 r3 := by
    obtain ⟨c, hc, hca⟩ := expect_consumed lit_ascii_src h3
    cases c with
    | nil =>
      simp only [List.nil_append] at hc
      have hl := expect_length h3
      rw [← hc] at hl; simp [lit] at hl
    | cons x c' =>
      simp only [List.cons_append, List.cons.injEq] at hc
      exact ⟨c', hc.2, fun y hy => hca y (List.mem_cons_of_mem _ hy)⟩
  have c : Consumed l [125] :=
    (expect_consumed lit_ascii_ops h1).trans ((parseOpArr_consumed h2).trans (c3.trans
      ((parseNat_consumed h4).trans ((expect_consumed lit_ascii_bs h5).trans (parseNat_consumed h6)))))
  exact (c.trans ((Consumed.refl []).cons (by decide))).ascii
end

/-! ### facts used by the statements of `Props/GenRemote.lean` -/

theorem applyOps_eq_partial (old : Bytes) (ops : List Delta.Op) (r : Bytes) (h : Delta.applyOps old ops = some r) :
    applyPartial old ops = r := by
  induction ops generalizing r with
  | nil => simp [Delta.applyOps] at h; simp [applyPartial, h]
  | cons op t ih =>
    cases op with
    | copy off sz =>
      simp only [Delta.applyOps] at h
      simp only [applyPartial]
      cases hr : Delta.readExact old off sz with
      | none => simp [hr] at h
      | some b =>
        cases ht : Delta.applyOps old t with
        | none => simp [hr, ht] at h
        | some r' =>
          simp only [hr, ht, Option.some.injEq] at h
          simp only [ih r' ht, h]
    | data b =>
      simp only [Delta.applyOps] at h
      simp only [applyPartial]
      cases ht : Delta.applyOps old t with
      | none => simp [ht] at h
      | some r' =>
        simp only [ht, Option.some.injEq] at h
        simp only [ih r' ht, h]

theorem readExact_length {old : Bytes} {off sz : Nat} {b : Bytes} (h : Delta.readExact old off sz = some b) :
    b.length = sz := by
  unfold Delta.readExact at h
  split at h
  · rename_i hc
    simp only [Option.some.injEq] at h; subst h
    simp only [List.length_take, List.length_drop]; omega
  · simp at h

/-- on success `bytes_written` is the length of the output -/
theorem bytesWritten_eq_length (old : Bytes) (ops : List DeltaOp) (r : Bytes)
    (h : Delta.applyOps old (ops.map absOp) = some r) : bytesWritten ops = r.length := by
  induction ops generalizing r with
  | nil => simp [Delta.applyOps] at h; simp [bytesWritten, h]
  | cons op t ih =>
    cases op with
    | Copy off sz =>
      simp only [List.map_cons, absOp, Delta.applyOps] at h
      cases hr : Delta.readExact old off sz with
      | none => simp [hr] at h
      | some b =>
        cases ht : Delta.applyOps old (t.map absOp) with
        | none => simp [hr, ht] at h
        | some r' =>
          simp only [hr, ht, Option.some.injEq] at h
          simp only [bytesWritten, ih r' ht, ← h, List.length_append, readExact_length hr]
    | Data d =>
      simp only [List.map_cons, absOp, Delta.applyOps] at h
      cases ht : Delta.applyOps old (t.map absOp) with
      | none => simp [ht] at h
      | some r' =>
        simp only [ht, Option.some.injEq] at h
        simp only [bytesWritten, ih r' ht, ← h, List.length_append, toU8, List.length_map]

/-- the parent directory exists once the helper has created the output file -/
theorem outWorld_parent_isDir (w : World) (p d : Rs.Path) (sp pos : Nat) (c : List Nat) (m : Option Nat) :
    (outWorld w p (selfAndAncestors d) sp pos c m).isDir d = true := by
  cases d with
  | nil => rfl
  | cons x t =>
    have := self_mem_selfAndAncestors (q := x :: t) (by simp)
    simp [World.isDir, outWorld, this]

end SyModel.Remote
