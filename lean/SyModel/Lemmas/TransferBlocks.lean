/-
  Helper lemmas for `SyModel.Transfer.BlockCompare`: the two block loops are folds over the
  single-position comparison list `cmpBlocks`; contiguous writes collapse into one write; the
  in-place and COW results; counters and write logs.
-/
import SyModel.Transfer.BlockCompare
import SyModel.Lemmas.Sparse
namespace SyModel.Transfer
open SyModel SyModel.Compress

/-! ### chunk bound -/

theorem chunkAt_pos (cap bs pos : Nat) (hbs : 0 < bs) : 0 < chunkAt cap bs pos := by
  unfold chunkAt
  split
  · rename_i h
    have : pos % cap < cap := Nat.mod_lt _ (by omega)
    omega
  · exact hbs

theorem chunkAt_le (cap bs pos : Nat) : chunkAt cap bs pos ≤ bs := by
  unfold chunkAt; split <;> omega

/-- a block size that divides the capacity is never cut at a block-aligned position. -/
theorem chunkAt_of_dvd (cap bs i : Nat) (h : bs ∣ cap) : chunkAt cap bs (i * bs) = bs := by
  unfold chunkAt
  split
  · rename_i hlt
    obtain ⟨m, rfl⟩ := h
    have hbs : 0 < bs := by
      rcases Nat.eq_zero_or_pos bs with h0 | h0
      · subst h0; simp at hlt
      · exact h0
    have hm : 0 < m := by
      rcases Nat.eq_zero_or_pos m with h0 | h0
      · subst h0; simp at hlt
      · exact h0
    rw [Nat.mul_comm i bs, Nat.mul_mod_mul_left]
    have h1 : i % m < m := Nat.mod_lt _ hm
    have h2 : bs * m - bs * (i % m) = bs * (m - i % m) := by rw [Nat.mul_sub]
    rw [h2]
    have h3 : bs * 1 ≤ bs * (m - i % m) := Nat.mul_le_mul_left bs (by omega)
    omega
  · rfl

theorem chunkAt_of_ge (cap bs pos : Nat) (h : cap ≤ bs) : chunkAt cap bs pos = bs := by
  unfold chunkAt; rw [if_neg (by omega)]

/-! ### `Blk.differs` -/

theorem Blk.differs_iff (b : Blk) : b.differs = true ↔ b.s ≠ b.d := by
  unfold Blk.differs
  constructor
  · intro h heq
    rw [heq] at h
    simp at h
  · intro h
    simp only [Bool.not_eq_true', Bool.and_eq_false_iff]
    right
    simpa using h

theorem Blk.differs_false_iff (b : Blk) : b.differs = false ↔ b.s = b.d := by
  rw [← Bool.not_eq_true, Blk.differs_iff]; simp

/-! ### `writeAt` -/

theorem length_writeAt (f : Bytes) (off : Nat) (data : Bytes) :
    (writeAt f off data).length = if data = [] then f.length else max f.length (off + data.length) := by
  unfold writeAt
  cases data with
  | nil => simp
  | cons x xs =>
    simp only [List.isEmpty_cons, Bool.false_eq_true, ↓reduceIte, reduceCtorEq]
    simp only [List.length_append, List.length_take, List.length_drop, zeros, List.length_replicate,
      List.length_cons]
    omega

/-- two adjacent writes are one write of the concatenation. -/
theorem writeAt_writeAt_adj (t : Bytes) (off : Nat) (a b : Bytes) :
    writeAt (writeAt t off a) (off + a.length) b = writeAt t off (a ++ b) := by
  cases a with
  | nil => simp [writeAt]
  | cons x xs =>
    cases b with
    | nil => simp [writeAt]
    | cons y ys =>
      apply ext_at0
      · rw [length_writeAt, length_writeAt, length_writeAt]
        simp only [reduceCtorEq, ↓reduceIte, List.cons_append, List.length_cons, List.length_append]
        omega
      · intro i _
        rw [at0_writeAt, at0_writeAt, at0_writeAt, at0_append]
        simp only [List.length_append]
        by_cases h1 : i < off
        · rw [if_neg (by omega), if_neg (by omega), if_neg (by omega)]
        · by_cases h2 : i < off + (x :: xs).length
          · rw [if_neg (by omega), if_pos (by omega), if_pos (by omega), if_pos (by omega)]
          · by_cases h3 : i < off + (x :: xs).length + (y :: ys).length
            · rw [if_pos (by omega), if_pos (by omega), if_neg (by omega)]
              congr 1; omega
            · rw [if_neg (by omega), if_neg (by omega), if_neg (by omega)]

/-! ### the comparison list -/

/-- offsets are consecutive: each block starts where the previous one ended. -/
def Chain : Nat → List Blk → Prop
  | _, [] => True
  | off, b :: t => b.off = off ∧ Chain (off + b.s.length) t

theorem cmpBlocksGo_nil (k : Nat → Nat) (off : Nat) (drest : Bytes) : cmpBlocksGo k off [] drest = [] := by
  rw [cmpBlocksGo]; simp

theorem cmpBlocksGo_chain (k : Nat → Nat) (off : Nat) (srest drest : Bytes) :
    Chain off (cmpBlocksGo k off srest drest) := by
  fun_induction cmpBlocksGo k off srest drest with
  | case1 => trivial
  | case2 off srest drest sb hne ih => exact ⟨rfl, ih⟩

/-- with a positive chunk bound the source blocks tile the source. -/
theorem cmpBlocksGo_join (k : Nat → Nat) (hk : ∀ p, 0 < k p) (off : Nat) (srest drest : Bytes) :
    (cmpBlocksGo k off srest drest).flatMap (·.s) = srest := by
  fun_induction cmpBlocksGo k off srest drest with
  | case1 off srest drest sb hnil =>
    have : srest.take (k off) = [] := hnil
    rcases List.take_eq_nil_iff.mp this with h | h
    · have := hk off; omega
    · simp [h]
  | case2 off srest drest sb hne ih =>
    simp only [List.flatMap_cons, ih]
    show srest.take (k off) ++ srest.drop (srest.take (k off)).length = srest
    rw [List.length_take]
    by_cases h : k off ≤ srest.length
    · rw [Nat.min_eq_left h]; exact List.take_append_drop _ _
    · rw [Nat.min_eq_right (by omega), List.take_of_length_le (by omega), List.drop_length]; simp

/-- every block holds what source and destination contain at its offset. -/
theorem cmpBlocksGo_mem (k : Nat → Nat) (src dst : Bytes) (off : Nat) (b : Blk)
    (hb : b ∈ cmpBlocksGo k off (src.drop off) (dst.drop off)) :
    off ≤ b.off ∧ b.s = (src.drop b.off).take (k b.off) ∧ b.d = (dst.drop b.off).take (k b.off) ∧ b.s ≠ [] := by
  generalize hs : src.drop off = srest at hb
  generalize hd : dst.drop off = drest at hb
  fun_induction cmpBlocksGo k off srest drest with
  | case1 => simp at hb
  | case2 off srest drest sb hne ih =>
    rcases List.mem_cons.mp hb with rfl | hb
    · subst hs hd
      exact ⟨Nat.le_refl _, rfl, rfl, hne⟩
    · have := ih (by rw [← hs, List.drop_drop]) (by rw [← hd, List.drop_drop]) hb
      exact ⟨by omega, this.2⟩

/-! ### the loops are folds over the comparison list -/

def stepInPlace (st : Loop) (b : Blk) : Loop :=
  { temp := writeAt st.temp b.off b.s
    offset := b.off + b.s.length
    changed := if b.differs then st.changed + 1 else st.changed
    literal := if b.differs then st.literal + b.s.length else st.literal
    writes := (b.off, b.s) :: st.writes }

def stepCow (st : Loop) (b : Blk) : Loop :=
  if b.differs then
    { temp := writeAt st.temp b.off b.s
      offset := b.off + b.s.length
      changed := st.changed + 1
      literal := st.literal + b.s.length
      writes := (b.off, b.s) :: st.writes }
  else { st with offset := b.off + b.s.length }

/-- the destination reader (own position `dpos`, unread part `drest`) sees what a reader at the
    source's offset would see (`drest'`): the source is exhausted, or the positions agree, or the
    destination is exhausted. -/
def Sync (off dpos : Nat) (srest drest drest' : Bytes) : Prop :=
  srest = [] ∨ (dpos = off ∧ drest = drest') ∨ (drest = [] ∧ drest' = [])

theorem Sync.step {k : Nat → Nat} {off dpos : Nat} {srest drest drest' : Bytes}
    (h : Sync off dpos srest drest drest') (hne : srest.take (k off) ≠ []) :
    drest.take (k dpos) = drest'.take (k off) ∧
    Sync (off + (srest.take (k off)).length) (dpos + (drest.take (k dpos)).length)
      (srest.drop (srest.take (k off)).length) (drest.drop (drest.take (k dpos)).length)
      (drest'.drop (srest.take (k off)).length) := by
  rcases h with h | ⟨h1, h2⟩ | ⟨h1, h2⟩
  · subst h; simp at hne
  · subst h1 h2
    refine ⟨rfl, ?_⟩
    simp only [List.length_take]
    by_cases hs : min (k dpos) srest.length = min (k dpos) drest.length
    · right; left; rw [hs]; exact ⟨rfl, rfl⟩
    · by_cases hlt : min (k dpos) srest.length < min (k dpos) drest.length
      · left; apply List.drop_of_length_le; omega
      · right; right
        exact ⟨List.drop_of_length_le (by omega), List.drop_of_length_le (by omega)⟩
  · subst h1 h2
    refine ⟨by simp, ?_⟩
    right; right; simp

theorem inPlaceGo_eq (k : Nat → Nat) (srest drest : Bytes) (dpos : Nat) (st : Loop) (drest' : Bytes)
    (h : Sync st.offset dpos srest drest drest') :
    inPlaceGo k srest drest dpos st = (cmpBlocksGo k st.offset srest drest').foldl stepInPlace st := by
  fun_induction inPlaceGo k srest drest dpos st generalizing drest' with
  | case1 srest drest dpos st sb hnil =>
    rw [cmpBlocksGo]
    have : srest.take (k st.offset) = [] := hnil
    simp [this]
  | case2 srest drest dpos st sb hne db blocksMatch ih =>
    have hne' : srest.take (k st.offset) ≠ [] := hne
    obtain ⟨hdb, hsync⟩ := h.step hne'
    have hdiff : ({ off := st.offset, s := sb, d := db } : Blk).differs = !blocksMatch := rfl
    rw [cmpBlocksGo]
    simp only [hne', ↓reduceDIte, List.foldl_cons]
    rw [← hdb]
    have hst : stepInPlace st { off := st.offset, s := sb, d := db } =
        { temp := writeAt st.temp st.offset sb
          offset := st.offset + sb.length
          changed := if blocksMatch = true then st.changed else st.changed + 1
          literal := if blocksMatch = true then st.literal else st.literal + sb.length
          writes := (st.offset, sb) :: st.writes } := by
      unfold stepInPlace
      rw [hdiff]
      clear_value blocksMatch
      cases blocksMatch <;> rfl
    show inPlaceGo k _ _ _ _ = List.foldl stepInPlace (stepInPlace st { off := st.offset, s := sb, d := db }) _
    rw [hst]
    exact ih _ hsync

theorem cowGo_eq (k : Nat → Nat) (srest drest : Bytes) (dpos : Nat) (st : Loop) (drest' : Bytes)
    (h : Sync st.offset dpos srest drest drest') :
    cowGo k srest drest dpos st = (cmpBlocksGo k st.offset srest drest').foldl stepCow st := by
  fun_induction cowGo k srest drest dpos st generalizing drest' with
  | case1 srest drest dpos st sb hnil =>
    rw [cmpBlocksGo]
    have : srest.take (k st.offset) = [] := hnil
    simp [this]
  | case2 srest drest dpos st sb hne db blocksMatch ih =>
    have hne' : srest.take (k st.offset) ≠ [] := hne
    obtain ⟨hdb, hsync⟩ := h.step hne'
    have hdiff : ({ off := st.offset, s := sb, d := db } : Blk).differs = !blocksMatch := rfl
    rw [cmpBlocksGo]
    simp only [hne', ↓reduceDIte, List.foldl_cons]
    rw [← hdb]
    show cowGo k _ _ _ _ = List.foldl stepCow (stepCow st { off := st.offset, s := sb, d := db }) _
    unfold stepCow
    rw [hdiff]
    clear_value blocksMatch
    cases blocksMatch with
    | false =>
      simp only [Bool.false_eq_true, ↓reduceDIte, ↓reduceIte, Bool.not_false] at ih ⊢
      exact ih _ hsync
    | true =>
      simp only [↓reduceDIte, ↓reduceIte, Bool.not_true, Bool.false_eq_true] at ih ⊢
      exact ih _ hsync

end SyModel.Transfer
