/-
  Helper lemmas about `Codec` and the magic test, and the toy codec used by the
  non-vacuity examples ("identity with magic").
-/
import SyModel.Compress.Sniff
namespace SyModel.Compress

/-- the sniffing test is exactly "the payload starts with the four magic bytes". -/
theorem hasZstdMagic_iff (l : Bytes) : hasZstdMagic l = true ↔ ∃ r, l = zstdMagic ++ r := by
  unfold hasZstdMagic zstdMagic
  constructor
  · intro h
    split at h
    · rename_i a b c d t
      simp only [Bool.and_eq_true, beq_iff_eq] at h
      obtain ⟨⟨⟨rfl, rfl⟩, rfl⟩, rfl⟩ := h
      exact ⟨t, rfl⟩
    · simp at h
  · rintro ⟨r, rfl⟩
    rfl

theorem hasZstdMagic_append (r : Bytes) : hasZstdMagic (zstdMagic ++ r) = true :=
  (hasZstdMagic_iff _).mpr ⟨r, rfl⟩

/-- payloads shorter than four bytes are never sniffed as zstd. -/
theorem hasZstdMagic_short (l : Bytes) (h : l.length < 4) : hasZstdMagic l = false := by
  match l, h with
  | [], _ => rfl
  | [_], _ => rfl
  | [_, _], _ => rfl
  | [_, _, _], _ => rfl

/-- "identity with magic": `compress x = 28 B5 2F FD ++ x`. -/
def toyZ : Codec where
  compress x := zstdMagic ++ x
  decompress y := if hasZstdMagic y then some (y.drop 4) else none

theorem toyZ_sound : toyZ.Sound where
  lossless x := by
    show (if hasZstdMagic (zstdMagic ++ x) then some ((zstdMagic ++ x).drop 4) else none) = some x
    rw [hasZstdMagic_append]; rfl
  framed x := hasZstdMagic_append x

/-- a lossless codec without any magic (stands for lz4 size-prepended): one length-ish byte in front. -/
def toyL : Codec where
  compress x := 0x4C :: x
  decompress y := match y with | 0x4C :: t => some t | _ => none

theorem toyL_lossless : toyL.Lossless := fun _ => rfl

theorem sniff_compress (Z : Codec) (hZ : Z.Sound) (x : Bytes) : sniff Z (Z.compress x) = some x := by
  unfold sniff
  rw [hZ.framed x, if_pos rfl, hZ.lossless x]

theorem sniff_raw (Z : Codec) (x : Bytes) (h : hasZstdMagic x = false) : sniff Z x = some x := by
  unfold sniff
  rw [h]; rfl

end SyModel.Compress
