/-
  Lemmas.GenTransfer — the world the translated task executors of the one-way engine
  (`Generated/Code/Transfer.lean`: `Transferrer::{create, update, delete, create_directory, copy_file,
  handle_symlink}`, src/sync/transfer.rs) are run in, the INSTANCE of `Ext` that gives every transport operation the
  meaning the handwritten engine model (`Engine/Model.lean`) gives it, the abstraction maps, and the helper lemmas
  of `Props/GenTransfer.lean`.

  ## The world `XWorld`

    * `root`  — the text of the destination root; a destination path text `p` stands for the model key
                `keyOf root p` (`strip_prefix(root)` split at `/`; the root itself is the key `[]`);
    * `w`     — the model's own `Engine.World`: destination tree `dst : Map DNode`, `linkMap` (source inode ↦ first
                destination path, -H), `nextIno`, `bytes`;
    * `src`   — what a SOURCE path text resolves to when links are followed (`stat`): `dangling` (nothing), `dir`, or a
                regular file with its content id / size / mtime.  `fs::copy`, `fs::metadata`, `Path::exists`,
                `Path::is_dir` all follow links, so this is all the executors can see of the source;
    * `valId` — the id the model gives to an extended-attribute value (the model's `FileMeta.xattrs` are
                (name, value id) pairs, the scanned `FileEntry.xattrs` are (name, bytes) pairs).

  ## The instance `extOf cfg` (TRUSTED: this is where the modelling decisions are)

  Every operation is the model's own helper applied to `w`, at the key of its path argument.  An operation that fails
  returns `Err` and leaves the world as it was (one operation is atomic); a path text that is not below `root` fails.

    t_create_dir_all p            mkdirAll at the key                       (LocalTransport::create_dir_all)
    t_copy_file s d               `writeFile` WITHOUT xattrs of what `src s` holds; fails when `s` is not a regular
                                  file or when `writeFile` fails            (local.rs:235-342: parents, remove a link at
                                  `d`, fs::copy, strip all xattrs, set mtime)
    t_sync_file_with_delta s d    the same final state                      (local.rs:344-: content and mtime of `s`;
                                  every route strips the xattrs — fix 85373d1)
    write_xattrs e d              with `cfg.xattrs`: the attributes of the ENTRY `e` are set on the file node at `d`
                                  (`xattr::set` per attribute: others stay, same names are overwritten); never fails
                                  (failures are warnings, transfer.rs:385-426)
    write_acls, write_bsd_flags   no-ops (ACLs and flags are not in the model)
    t_remove p is_dir             is_dir: `remove_dir_all` (a directory with its subtree; a symlink itself; ENOTDIR on
                                  a regular file); else `remove_file` (a file or link; EISDIR on a directory); a missing
                                  path fails (NotFound — the ENGINE turns that into success, src/sync/mod.rs:1085-1095)
    t_create_symlink t p          the model's `writeSymlink` of the text `t` (local.rs:927-975: parents, replace any
                                  non-directory, `symlink`; EEXIST on a directory)
    path_exists p, path_is_dir p  read-only: `src p ≠ dangling`, `src p = dir`
    transfer_link_member e d i u  ONE atomic step (the hand-off itself is modelled for C13): a recorded first path
                                  for inode `i` ⇒ `linkFile` (`u = false`) / `relinkFile` (`u = true`); none recorded ⇒
                                  `writeFile` WITH the entry's xattrs and `d` recorded as the group's first path —
                                  exactly the three arms of the model's `perform`.
-/
import SyModel.Generated.Code.Transfer
import SyModel.Lemmas.EngineFrame
set_option linter.unusedVariables false
set_option linter.unusedSimpArgs false
namespace SyModel.Lemmas.GenTransfer
open SyModel SyModel.Engine SyModel.Generated SyModel.Generated.Transfer

/-! ### path texts ↔ component paths (as in `Lemmas/GenPlannerFx.lean`, repeated here so that the two units do not
    depend on each other) -/

/-- a path text as the model's component path: the pieces between `/` -/
def compsOf (t : Rs.Path) : Engine.Path := (Rs.split t '/').map String.ofList

/-- a component path as text: components joined with `/` -/
def textOf : Engine.Path → Rs.Path
  | [] => []
  | [c] => c.toList
  | c :: d :: rest => c.toList ++ '/' :: textOf (d :: rest)

/-- keys a directory walk can produce: at least one component, none empty, none containing `/` -/
def CleanPath (k : Engine.Path) : Prop := k ≠ [] ∧ ∀ c ∈ k, c.toList ≠ [] ∧ '/' ∉ c.toList

instance (k : Engine.Path) : Decidable (CleanPath k) := by unfold CleanPath; infer_instance

theorem splitAux_no_sep (s rest cur : Rs.Str) (h : '/' ∉ s) :
    Rs.splitAux '/' (s ++ rest) cur = Rs.splitAux '/' rest (s.reverse ++ cur) := by
  induction s generalizing cur with
  | nil => rfl
  | cons x t ih =>
    have hx : (x == '/') = false := by
      have : x ≠ '/' := fun e => h (by simp [e])
      simpa using this
    have ht : '/' ∉ t := fun e => h (List.mem_cons_of_mem _ e)
    show Rs.splitAux '/' (x :: (t ++ rest)) cur = _
    rw [Rs.splitAux]
    simp only [hx, Bool.false_eq_true, ↓reduceIte]
    rw [ih _ ht]; simp

theorem split_textOf (k : Engine.Path) (h : CleanPath k) :
    Rs.split (textOf k) '/' = k.map String.toList := by
  obtain ⟨hne, hc⟩ := h
  unfold Rs.split
  induction k with
  | nil => exact absurd rfl hne
  | cons c rest ih =>
    have hcc := (hc c (by simp)).2
    cases rest with
    | nil =>
      have := splitAux_no_sep c.toList [] [] hcc
      simp only [List.append_nil] at this
      simp [textOf, this, Rs.splitAux]
    | cons d rest' =>
      have := splitAux_no_sep c.toList ('/' :: textOf (d :: rest')) [] hcc
      simp only [textOf, this, List.append_nil]
      rw [Rs.splitAux]
      simp only [BEq.rfl, ↓reduceIte, List.reverse_reverse, List.map_cons, List.cons.injEq, true_and]
      have := ih (by simp) (fun x hx => hc x (List.mem_cons_of_mem _ hx))
      simpa using this

/-- a clean key is the component path of its own text -/
theorem compsOf_textOf (k : Engine.Path) (h : CleanPath k) : compsOf (textOf k) = k := by
  unfold compsOf
  rw [split_textOf k h, List.map_map]
  have : (String.ofList ∘ String.toList) = id := by funext s; simp [String.ofList_toList]
  rw [this, List.map_id]

/-- `Path::strip_prefix` undoes `Path::join` (Prelude's versions), for every root and every relative text -/
theorem strip_prefix_join (root rel : Rs.Path) : Rs.strip_prefix (Rs.join root rel) root = .ok rel := by
  unfold Rs.strip_prefix Rs.join
  cases root with
  | nil => cases rel <;> simp
  | cons a t =>
    have h1 : ((a :: t ++ '/' :: rel) == (a :: t)) = false := by
      apply beq_eq_false_iff_ne.2
      intro h
      have := congrArg List.length h
      simp at this
    simp only [List.isEmpty_cons, Bool.false_eq_true, ↓reduceIte, h1]
    have h2 : ((a :: t) ++ ['/']).isPrefixOf (a :: t ++ '/' :: rel) = true := by
      rw [List.isPrefixOf_iff_prefix]
      exact ⟨rel, by simp⟩
    simp only [h2, ↓reduceIte]
    congr 1
    have : (a :: t ++ '/' :: rel) = ((a :: t) ++ ['/']) ++ rel := by simp
    rw [this, List.drop_left' (by simp)]

theorem textOf_ne_nil (k : Engine.Path) (h : CleanPath k) : textOf k ≠ [] := by
  obtain ⟨hne, hc⟩ := h
  cases k with
  | nil => exact absurd rfl hne
  | cons c rest =>
    have := (hc c (by simp)).1
    cases rest with
    | nil => simpa [textOf] using this
    | cons d r => simp [textOf]

/-! ### `Path::parent` of a destination path -/

/-- the model key of a destination path text (`strip_prefix(root)`, split at `/`); the root itself is `[]` -/
def keyOf (root p : Rs.Path) : Option Engine.Path :=
  match Rs.strip_prefix p root with
  | .ok r => some (if r = [] then [] else compsOf r)
  | .error _ => none

/-- the text of the destination path of key `k`: `dest_root.join(relative_path)` -/
def destOf (root : Rs.Path) (k : Engine.Path) : Rs.Path := Rs.join root (textOf k)

theorem keyOf_destOf (root : Rs.Path) (k : Engine.Path) (h : CleanPath k) : keyOf root (destOf root k) = some k := by
  simp [keyOf, destOf, strip_prefix_join, textOf_ne_nil k h, compsOf_textOf k h]

theorem keyOf_root (root : Rs.Path) : keyOf root root = some [] := by
  simp [keyOf, Rs.strip_prefix]

theorem dropWhile_all {α : Type} (p : α → Bool) (xs : List α) (h : ∀ x ∈ xs, p x = true) : xs.dropWhile p = [] := by
  induction xs with
  | nil => rfl
  | cons x t ih =>
    rw [List.dropWhile_cons, h x (by simp)]
    exact ih (fun y hy => h y (List.mem_cons_of_mem _ hy))

theorem dropWhile_stop {α : Type} (p : α → Bool) (xs : List α) (y : α) (ys : List α)
    (h : ∀ x ∈ xs, p x = true) (hy : p y = false) : (xs ++ y :: ys).dropWhile p = y :: ys := by
  induction xs with
  | nil => simp [List.dropWhile_cons, hy]
  | cons x t ih =>
    rw [List.cons_append, List.dropWhile_cons, h x (by simp)]
    exact ih (fun z hz => h z (List.mem_cons_of_mem _ hz))

theorem takeWhile_stop {α : Type} (p : α → Bool) (xs : List α) (y : α) (ys : List α)
    (h : ∀ x ∈ xs, p x = true) (hy : p y = false) : (xs ++ y :: ys).takeWhile p = xs := by
  induction xs with
  | nil => simp [List.takeWhile_cons, hy]
  | cons x t ih =>
    rw [List.cons_append, List.takeWhile_cons, h x (by simp)]
    simp only [↓reduceIte, List.cons.injEq, true_and]
    exact ih (fun z hz => h z (List.mem_cons_of_mem _ hz))

theorem splitLastAt_none (c : Rs.Str) (h : '/' ∉ c) : Rs.splitLastAt '/' c = none := by
  unfold Rs.splitLastAt
  have : c.reverse.dropWhile (fun x => decide (x ≠ '/')) = [] :=
    dropWhile_all _ _ (fun x hx => by
      have : x ≠ '/' := fun e => h (by rw [← e]; exact List.mem_reverse.1 hx)
      simpa using this)
  simp only [this]

theorem splitLastAt_last (a c : Rs.Str) (h : '/' ∉ c) : Rs.splitLastAt '/' (a ++ '/' :: c) = some (a, c) := by
  unfold Rs.splitLastAt
  have hall : ∀ x ∈ c.reverse, decide (x ≠ '/') = true := fun x hx => by
    have : x ≠ '/' := fun e => h (by rw [← e]; exact List.mem_reverse.1 hx)
    simpa using this
  have hr : (a ++ '/' :: c).reverse = c.reverse ++ '/' :: a.reverse := by simp
  have hstop : decide ('/' ≠ '/') = false := by simp
  simp only [hr, dropWhile_stop (fun x => decide (x ≠ '/')) _ '/' _ hall hstop,
    takeWhile_stop (fun x => decide (x ≠ '/')) _ '/' _ hall hstop, List.reverse_reverse]

theorem textOf_concat (ks : Engine.Path) (c : String) (h : ks ≠ []) :
    textOf (ks ++ [c]) = textOf ks ++ '/' :: c.toList := by
  induction ks with
  | nil => exact absurd rfl h
  | cons a t ih =>
    cases t with
    | nil => simp [textOf]
    | cons b r =>
      have := ih (by simp)
      simp only [List.cons_append, textOf] at this ⊢
      rw [this]; simp

/-- `Path::parent` of a destination path is the destination path of the parent key (the root for a top-level
    entry) -/
theorem parent_destOf (root : Rs.Path) (k : Engine.Path) (h : CleanPath k) :
    ∃ pp, Rs.parent (destOf root k) = some pp ∧ keyOf root pp = some (parentOf k) := by
  obtain ⟨hne, hc⟩ := h
  obtain ⟨ks, c, rfl⟩ : ∃ ks c, k = ks ++ [c] := ⟨k.dropLast, k.getLast hne, (List.dropLast_concat_getLast hne).symm⟩
  have hcc := hc c (by simp)
  have hpar : parentOf (ks ++ [c]) = ks := by simp [parentOf]
  rw [hpar]
  by_cases hks : ks = []
  · subst hks
    by_cases hr : root = []
    · subst hr
      refine ⟨[], ?_, keyOf_root []⟩
      have : c.toList.isEmpty = false := by simpa using hcc.1
      simp [destOf, Rs.join, textOf, Rs.parent, splitLastAt_none _ hcc.2, this]
    · refine ⟨root, ?_, keyOf_root root⟩
      have : root.isEmpty = false := by simpa using hr
      simp [destOf, Rs.join, textOf, Rs.parent, this, splitLastAt_last _ _ hcc.2]
  · have hclean : CleanPath ks := ⟨hks, fun x hx => hc x (by simp [hx])⟩
    refine ⟨destOf root ks, ?_, keyOf_destOf root ks hclean⟩
    rw [destOf, textOf_concat ks c hks]
    by_cases hr : root = []
    · subst hr
      simp [Rs.join, Rs.parent, splitLastAt_last _ _ hcc.2, destOf]
    · have : root.isEmpty = false := by simpa using hr
      have e : root ++ '/' :: (textOf ks ++ '/' :: c.toList) = (root ++ '/' :: textOf ks) ++ '/' :: c.toList := by simp
      simp only [Rs.join, this, Bool.false_eq_true, ↓reduceIte, Rs.parent, e, splitLastAt_last _ _ hcc.2, destOf]

/-! ### the world -/

/-- destination (the model's `World`) under a root text, and what source path texts resolve to (head of this file) -/
structure XWorld where
  root  : Rs.Path
  w     : World
  src   : Rs.Path → LinkTarget
  valId : List Nat → Nat

/-- scanned xattrs (name text, value bytes) ↦ the model's (name, value id) list -/
def absX (valId : List Nat → Nat) : Option (Rs.HashMap Rs.Str (List Nat)) → List (String × Nat)
  | none => []
  | some l => l.map fun nv => (String.ofList nv.1, valId nv.2)

/-- `xattr::set` for each attribute of `new`: same names are overwritten, the others stay -/
def mergeX (new old : List (String × Nat)) : List (String × Nat) :=
  new ++ old.filter fun o => !(new.any fun n => n.1 == o.1)

/-- `write_xattrs` on the node at `k` (a regular file; anything else is left alone) -/
def setXattrs (w : World) (k : Engine.Path) (xs : List (String × Nat)) : World :=
  match w.dst.get? k with
  | some (.file f) => { w with dst := w.dst.set k (.file { f with xattrs := mergeX xs f.xattrs }) }
  | _ => w

/-- the configuration `copy_file` runs with: it strips every attribute, whatever `-X` says -/
def stripX (cfg : Cfg) : Cfg := { cfg with xattrs := false }

/-- `create_dir_all` on the model's world (the `.dir` arm of `perform`) -/
def mkdirW (w : World) (k : Engine.Path) : Option World := (mkdirAll w.dst k).map fun d => { w with dst := d }

/-- `Transport::remove(path, is_dir)`: `remove_dir_all` / `remove_file` -/
def removeW (w : World) (k : Engine.Path) (isDir : Bool) : Option World :=
  match w.dst.get? k with
  | some .dir => if isDir then some { w with dst := w.dst.eraseSubtree k } else none
  | some (.file _) => if isDir then none else some { w with dst := w.dst.erase k }
  | some (.symlink _) => some { w with dst := w.dst.erase k }
  | none => none

/-- what `TransferResult::new(bytes)` holds -/
def xferResult (n : Nat) : TransferResult :=
  { bytes_written := n, delta_operations := none, literal_bytes := none, transferred_bytes := none,
    compression_used := false }

/-- the result of the link arms of `transfer_link_member` -/
def linkResult : TransferResult :=
  { bytes_written := 0, delta_operations := none, literal_bytes := none, transferred_bytes := some 0,
    compression_used := false }

/-- `copy_file` / `sync_file_with_delta`: the regular file `src s` written at `k`, xattrs stripped -/
def copyW (cfg : Cfg) (xw : XWorld) (s : Rs.Path) (k : Engine.Path) : Option (TransferResult × World) :=
  match xw.src s with
  | .file sm => (writeFile (stripX cfg) xw.w k sm).map fun w' => (xferResult sm.size, w')
  | _ => none

/-- `FileEntry ↦ FileMeta` for a regular-file entry: content, size and mtime of the file the world holds at
    `e.path` (what `fs::copy` + `set_file_mtime` transfer), the xattrs of the ENTRY (what `write_xattrs` writes),
    `inode` as the link-group id -/
def metaOf (xw : XWorld) (e : FileEntry) : FileMeta :=
  match xw.src e.path with
  | .file sm => { content := sm.content, size := sm.size, mtime := sm.mtime, xattrs := absX xw.valId e.xattrs,
                  ino := e.inode.getD 0 }
  | _ => { content := 0, size := 0, mtime := 0, xattrs := absX xw.valId e.xattrs, ino := e.inode.getD 0 }

/-- the inode of the regular file at `k` (0 when there is none): what the model records for a link group's first path -/
def inoAt (d : Map DNode) (k : Engine.Path) : Nat := match d.get? k with | some (.file f) => f.ino | _ => 0

/-- `transfer_link_member` as one step: the three hard-link arms of the model's `perform` -/
def linkMemberW (cfg : Cfg) (xw : XWorld) (e : FileEntry) (k : Engine.Path) (inode : Nat) (upd : Bool) :
    Option (Option TransferResult × World) :=
  match xw.w.linkMap.find? (·.1 == inode) with
  | some (_, first, _) =>
    (if upd then relinkFile xw.w k first else linkFile xw.w k first).map fun w' => (some linkResult, w')
  | none =>
    match xw.src e.path with
    | .file sm =>
      (writeFile cfg xw.w k (metaOf xw e)).map fun w' =>
        (some (xferResult sm.size), { w' with linkMap := (inode, k, inoAt w'.dst k) :: w'.linkMap })
    | _ => none

/-- a world operation given as a function -/
def op {W α : Type} (f : W → Except Rs.Err α × W) : Rs.M W α := ExceptT.mk (fun w => (f w : Id _))

/-- how a model step ends as an operation: `some` = `Ok` in the new world, `none` = `Err`, world unchanged -/
def XWorld.outcome {α : Type} (xw : XWorld) (r : Option (α × World)) : Except Rs.Err α × XWorld :=
  match r with
  | some (a, w') => (.ok a, { xw with w := w' })
  | none => (.error .io, xw)

/-- an operation on the destination path text `p`: the model step `f` at its key (a path outside the root fails) -/
def XWorld.at {α : Type} (xw : XWorld) (p : Rs.Path) (f : Engine.Path → Option (α × World)) :
    Except Rs.Err α × XWorld :=
  match keyOf xw.root p with
  | some k => xw.outcome (f k)
  | none => (.error .io, xw)

/-- `Path::exists` on a source path (follows links) -/
def XWorld.srcExists (xw : XWorld) (p : Rs.Path) : Bool := match xw.src p with | .dangling => false | _ => true
/-- `Path::is_dir` on a source path (follows links) -/
def XWorld.srcIsDir (xw : XWorld) (p : Rs.Path) : Bool := match xw.src p with | .dir => true | _ => false

/-- `write_xattrs` with `-X`: the entry's attributes on the node at the key of `p` -/
def XWorld.writeX (xw : XWorld) (e : FileEntry) (p : Rs.Path) : XWorld :=
  match keyOf xw.root p with
  | some k => { xw with w := setXattrs xw.w k (absX xw.valId e.xattrs) }
  | none => xw

/-- THE INSTANCE (head of this file) -/
def extOf (cfg : Cfg) : Ext XWorld where
  t_create_dir_all _ p := op fun xw => xw.at p fun k => (mkdirW xw.w k).map fun w' => ((), w')
  t_copy_file _ s d := op fun xw => xw.at d fun k => copyW cfg xw s k
  t_sync_file_with_delta _ s d := op fun xw => xw.at d fun k => copyW cfg xw s k
  t_remove _ p isDir := op fun xw => xw.at p fun k => (removeW xw.w k isDir).map fun w' => ((), w')
  t_create_symlink _ t p := op fun xw => xw.at p fun k => (writeSymlink xw.w k (String.ofList t)).map fun w' => ((), w')
  t_read_link _ p := op fun xw => xw.at p fun k =>
    some ((match xw.w.dst.get? k with | some (.symlink t) => some t.toList | _ => none), xw.w)
  path_exists p := op fun xw => (.ok (xw.srcExists p), xw)
  path_is_dir p := op fun xw => (.ok (xw.srcIsDir p), xw)
  write_xattrs _ e p := op fun xw => (.ok (), if cfg.xattrs then xw.writeX e p else xw)
  write_acls _ _ _ := pure ()
  write_bsd_flags _ _ _ := pure ()
  transfer_link_member _ e d inode upd := op fun xw => xw.at d fun k => linkMemberW cfg xw e k inode upd

section fields
variable (cfg : Cfg) (o : Rs.Opaque) (self : Transferrer) (e : FileEntry) (p s d : Rs.Path)
@[simp] theorem extOf_t_create_dir_all :
    (extOf cfg).t_create_dir_all o p = op fun xw => xw.at p fun k => (mkdirW xw.w k).map fun w' => ((), w') := rfl
@[simp] theorem extOf_t_copy_file : (extOf cfg).t_copy_file o s d = op fun xw => xw.at d fun k => copyW cfg xw s k := rfl
@[simp] theorem extOf_t_sync_file_with_delta :
    (extOf cfg).t_sync_file_with_delta o s d = op fun xw => xw.at d fun k => copyW cfg xw s k := rfl
@[simp] theorem extOf_t_remove (isDir : Bool) :
    (extOf cfg).t_remove o p isDir = op fun xw => xw.at p fun k => (removeW xw.w k isDir).map fun w' => ((), w') := rfl
@[simp] theorem extOf_t_create_symlink (t : Rs.Path) :
    (extOf cfg).t_create_symlink o t p =
      op fun xw => xw.at p fun k => (writeSymlink xw.w k (String.ofList t)).map fun w' => ((), w') := rfl
@[simp] theorem extOf_path_exists : (extOf cfg).path_exists p = op fun xw => (.ok (xw.srcExists p), xw) := rfl
@[simp] theorem extOf_path_is_dir : (extOf cfg).path_is_dir p = op fun xw => (.ok (xw.srcIsDir p), xw) := rfl
@[simp] theorem extOf_write_xattrs :
    (extOf cfg).write_xattrs self e p = op fun xw => (.ok (), if cfg.xattrs then xw.writeX e p else xw) := rfl
@[simp] theorem extOf_write_acls : (extOf cfg).write_acls self e p = pure () := rfl
@[simp] theorem extOf_write_bsd_flags : (extOf cfg).write_bsd_flags self e p = pure () := rfl
@[simp] theorem extOf_transfer_link_member (inode : Nat) (upd : Bool) :
    (extOf cfg).transfer_link_member self e d inode upd =
      op fun xw => xw.at d fun k => linkMemberW cfg xw e k inode upd := rfl
end fields

/-! ### running `Rs.M` -/

/-- run a translated computation from a world: its result and the world after it -/
def runM {W α : Type} (x : Rs.M W α) (w : W) : Except Rs.Err α × W := x.run.run w

@[simp] theorem runM_op {W α : Type} (f : W → Except Rs.Err α × W) (w : W) : runM (op f) w = f w := rfl
@[simp] theorem runM_pure {W α : Type} (a : α) (w : W) : runM (pure a : Rs.M W α) w = (.ok a, w) := rfl
@[simp] theorem runM_throw {W α : Type} (e : Rs.Err) (w : W) : runM (throw e : Rs.M W α) w = (.error e, w) := rfl

/-- `>>=` continues from the world the first computation left; an `Err` stops, KEEPING that world -/
theorem runM_bind {W α β : Type} (x : Rs.M W α) (k : α → Rs.M W β) (w : W) :
    runM (x >>= k) w = match runM x w with
      | (.ok a, w') => runM (k a) w'
      | (.error e, w') => (.error e, w') := by
  simp only [runM, ExceptT.run_bind, StateT.run_bind]
  show (match (x.run.run w) with | (r, s) => _) = _
  rcases h : x.run.run w with ⟨r, s⟩
  cases r <;> rfl

theorem runM_bind_ok {W α β : Type} {x : Rs.M W α} {f : α → Rs.M W β} {w w' : W} {a : α}
    (h : runM x w = (.ok a, w')) : runM (x >>= f) w = runM (f a) w' := by
  rw [runM_bind, h]

theorem runM_bind_error {W α β : Type} {x : Rs.M W α} {f : α → Rs.M W β} {w w' : W} {e : Rs.Err}
    (h : runM x w = (.error e, w')) : runM (x >>= f) w = (.error e, w') := by
  rw [runM_bind, h]

/-! ### the operations at a destination key -/

@[simp] theorem outcome_some {α : Type} (xw : XWorld) (a : α) (w' : World) :
    xw.outcome (some (a, w')) = (.ok a, { xw with w := w' }) := rfl
@[simp] theorem outcome_none {α : Type} (xw : XWorld) : xw.outcome (none : Option (α × World)) = (.error .io, xw) := rfl

theorem at_destOf {α : Type} (xw : XWorld) (r : Rs.Path) (hr : xw.root = r) (k : Engine.Path) (hk : CleanPath k)
    (f : Engine.Path → Option (α × World)) :
    xw.at (destOf r k) f = xw.outcome (f k) := by
  subst hr
  simp only [XWorld.at, keyOf_destOf xw.root k hk]

theorem at_key {α : Type} (xw : XWorld) (p : Rs.Path) (k : Engine.Path) (hk : keyOf xw.root p = some k)
    (f : Engine.Path → Option (α × World)) :
    xw.at p f = xw.outcome (f k) := by
  simp only [XWorld.at, hk]

theorem mkdirAll_idem {dst d : Map DNode} {p : Engine.Path} (h : mkdirAll dst p = some d) : mkdirAll d p = some d :=
  mkdirAll_of_dirs d p (fun x hx hp => mkdirAll_dirs h x hx hp)

theorem writeFile_after_mkdir (c : Cfg) (w : World) (k : Engine.Path) (m : FileMeta) (d : Map DNode)
    (h : mkdirAll w.dst (parentOf k) = some d) : writeFile c { w with dst := d } k m = writeFile c w k m := by
  unfold writeFile
  simp only [h, mkdirAll_idem h]

/-- `create_directory` = the model's `mkdirAll` at the key -/
theorem create_directory_run (cfg : Cfg) (self : Transferrer) (xw : XWorld) (k : Engine.Path) (hk : CleanPath k) :
    runM (self.create_directory (extOf cfg) (destOf xw.root k)) xw =
      match mkdirW xw.w k with
      | some w' => (.ok (), { xw with w := w' })
      | none => (.error .io, xw) := by
  unfold Transferrer.create_directory
  simp only [extOf_t_create_dir_all, runM_bind, runM_op, at_destOf xw _ rfl k hk, runM_pure]
  cases mkdirW xw.w k <;> rfl

theorem copy_file_run (cfg : Cfg) (self : Transferrer) (xw : XWorld) (s : Rs.Path) (k : Engine.Path)
    (hk : CleanPath k) :
    runM (self.copy_file (extOf cfg) s (destOf xw.root k)) xw =
      match mkdirAll xw.w.dst (parentOf k) with
      | none => (.error .io, xw)
      | some d =>
        match xw.src s with
        | .file sm =>
          match writeFile (stripX cfg) xw.w k sm with
          | some w' => (.ok (xferResult sm.size), { xw with w := w' })
          | none => (.error .io, { xw with w := { xw.w with dst := d } })
        | _ => (.error .io, { xw with w := { xw.w with dst := d } }) := by
  obtain ⟨pp, hpp, hkey⟩ := parent_destOf xw.root k hk
  unfold Transferrer.copy_file
  simp only [hpp, extOf_t_create_dir_all, extOf_t_copy_file, runM_bind, runM_op, runM_pure]
  rw [at_key xw pp _ hkey]
  simp only [mkdirW]
  cases hm : mkdirAll xw.w.dst (parentOf k) with
  | none => rfl
  | some d =>
    simp only [Option.map_some, outcome_some]
    rw [at_destOf _ _ rfl k hk]
    simp only [copyW]
    cases hs : xw.src s with
    | dangling => rfl
    | dir => rfl
    | file sm =>
      simp only [writeFile_after_mkdir _ _ _ _ _ hm]
      cases writeFile (stripX cfg) xw.w k sm <;> rfl


/-! ### xattrs: `copy_file` strips, `write_xattrs` sets -/

theorem erase_erase {α : Type} (m : Map α) (p : Engine.Path) : (m.erase p).erase p = m.erase p := by
  simp [Map.erase, List.filter_filter]

theorem set_set {α : Type} (m : Map α) (p : Engine.Path) (a b : α) : (m.set p a).set p b = m.set p b := by
  simp [Map.set, Map.erase, List.filter_filter]

/-- the model's `writeFile` with `-X` = `copy_file` (attributes stripped) followed by `write_xattrs` -/
theorem writeFile_split (cfg : Cfg) (w : World) (k : Engine.Path) (m : FileMeta) :
    writeFile cfg w k m =
      (writeFile (stripX cfg) w k m).map fun w2 => if cfg.xattrs then setXattrs w2 k m.xattrs else w2 := by
  unfold writeFile
  cases mkdirAll w.dst (parentOf k) with
  | none => rfl
  | some d =>
    cases hx : cfg.xattrs <;> cases hg : d.get? k with
    | none => simp [stripX, setXattrs, set_set, mergeX, hx, hg]
    | some n => cases n <;> simp [stripX, setXattrs, set_set, mergeX, hx, hg]

/-- `writeFile` reads content, size, mtime — and the xattrs only with `-X` -/
theorem writeFile_congr (c : Cfg) (w : World) (k : Engine.Path) (m1 m2 : FileMeta) (h1 : m1.content = m2.content)
    (h2 : m1.size = m2.size) (h3 : m1.mtime = m2.mtime) (h4 : c.xattrs = true → m1.xattrs = m2.xattrs) :
    writeFile c w k m1 = writeFile c w k m2 := by
  unfold writeFile
  cases hx : c.xattrs
  · simp [h1, h2, h3]
  · simp [h1, h2, h3, h4 hx]

/-! ### abstraction maps -/

/-- `SymlinkMode ↦ LinkMode` -/
def absMode : SymlinkMode → LinkMode
  | .Preserve => .preserve
  | .Follow => .follow
  | .Skip => .skip

/-- the executor value and the model's configuration describe the same run (`Transferrer::new` is called with the
    engine's `dry_run`, `symlink_mode`, `preserve_hardlinks`, src/sync/mod.rs; `preserve_xattrs` is not a field of the
    translated struct: the instance `extOf cfg` reads `cfg.xattrs`) -/
structure Agrees (self : Transferrer) (cfg : Cfg) : Prop where
  dry : self.dry_run = cfg.dryRun
  hl  : self.preserve_hardlinks = cfg.hardlinks
  lm  : absMode self.symlink_mode = cfg.links

/-- what the follow arm of `handle_symlink` transfers for a link to the regular file `sm`: its content, size and
    mtime and NO xattrs (that arm calls `copy_file` only) -/
def followMeta (sm : FileMeta) : FileMeta := { sm with xattrs := [] }

/-- `FileEntry ↦ Payload` (what a create/update task for this entry transfers, after dereferencing in follow mode) -/
def absPayload (cfg : Cfg) (xw : XWorld) (e : FileEntry) : Payload :=
  if e.is_symlink then
    match cfg.links with
    | .skip => .nothing
    | .preserve => match e.symlink_target with | some t => .symlink (String.ofList t) | none => .nothing
    | .follow => match xw.src e.path with | .file sm => .file (followMeta sm) 1 | _ => .nothing
  else if e.is_dir then .dir
  else .file (metaOf xw e) e.nlink

/-- the model task an executor call stands for -/
def absTask (cfg : Cfg) (xw : XWorld) (a : Act) (e : FileEntry) (k : Engine.Path) : Task :=
  { act := a, rel := k, payload := absPayload cfg xw e }

/-- the scanner could read the link (`symlink_target = read_link().ok()`); irrelevant in skip mode -/
def Readable (cfg : Cfg) (e : FileEntry) : Prop :=
  e.is_symlink = true → cfg.links ≠ .skip → e.symlink_target.isSome = true

/-- a regular-file entry still names a regular file (it was just scanned) -/
def SrcFile (xw : XWorld) (e : FileEntry) : Prop :=
  e.is_symlink = false → e.is_dir = false → ∃ sm, xw.src e.path = .file sm

/-- a regular-file entry with several names carries its inode number (always on Unix: `Some(metadata.ino())`,
    src/sync/scanner.rs) -/
def HasInode (cfg : Cfg) (e : FileEntry) : Prop :=
  e.is_symlink = false → e.is_dir = false → cfg.hardlinks = true → 1 < e.nlink → e.inode.isSome = true

/-- what a FAILED executor call leaves: the world as it was, or with the parent directories of `k` created
    (`copy_file` calls `create_dir_all(parent)` before the transport's copy), or — `update` of a directory entry only —
    with the symlink at `k` removed -/
def Left (xw xw' : XWorld) (k : Engine.Path) : Prop :=
  xw' = xw ∨ (∃ d, mkdirAll xw.w.dst (parentOf k) = some d ∧ xw' = { xw with w := { xw.w with dst := d } }) ∨
    -- `update` of a directory entry (fix 862af11): the link at `k` was removed, then `create_dir_all` failed — which needs
    -- a non-directory ABOVE the link, impossible in a parent-closed destination (`Engine.dirBase_closed`)
    (∃ s, xw.w.dst.get? k = some (.symlink s) ∧ xw' = { xw with w := { xw.w with dst := xw.w.dst.erase k } })

/-- result and world of an executor call against the model's answer: `some w'` ⇒ `Ok` and the world is `w'`;
    `none` ⇒ `Err` and what is left is described by `Left` -/
def Agree {α : Type} (xw : XWorld) (k : Engine.Path) (res : Except Rs.Err α × XWorld) (mod : Option World) : Prop :=
  match mod with
  | some w' => ∃ r, res = (.ok r, { xw with w := w' })
  | none => ∃ xw', res = (.error .io, xw') ∧ Left xw xw' k

theorem agree_some {α : Type} {xw : XWorld} {k : Engine.Path} {res : Except Rs.Err α × XWorld} {w' : World} (r : α)
    (h : res = (.ok r, { xw with w := w' })) : Agree xw k res (some w') := ⟨r, h⟩

theorem agree_none {α : Type} {xw : XWorld} {k : Engine.Path} {res : Except Rs.Err α × XWorld} (xw' : XWorld)
    (h : res = (.error .io, xw')) (hl : Left xw xw' k) : Agree (α := α) xw k res none := ⟨xw', h, hl⟩

/-! ### the model's `perform`, by arm -/

/-- the regular-file arm of the model's `perform` (create: `upd = false`, update: `upd = true`) -/
def fileArm (cfg : Cfg) (w : World) (k : Engine.Path) (m : FileMeta) (nlink : Nat) (upd : Bool) : Option World :=
  if cfg.hardlinks && decide (1 < nlink) then
    match w.linkMap.find? (·.1 == m.ino) with
    | some (_, first, _) => if upd then relinkFile w k first else linkFile w k first
    | none =>
      (writeFile cfg w k m).map fun w' => { w' with linkMap := (m.ino, k, inoAt w'.dst k) :: w'.linkMap }
  else writeFile cfg w k m

/-- the create/update arms of the model's `perform` outside a dry run, by payload -/
def cuArm (cfg : Cfg) (w : World) (k : Engine.Path) (upd : Bool) : Payload → Option World
  | .nothing => some w
  | .dir => mkdirW (if upd then { w with dst := unlinkLink w.dst k } else w) k
  | .symlink text => writeSymlink w k text
  | .file m nlink => fileArm cfg w k m nlink upd

theorem perform_dry (cfg : Cfg) (w : World) (t : Task) (h : cfg.dryRun = true) : perform cfg w t = some w := by
  unfold perform
  cases t.act <;> simp [h]

theorem perform_create (cfg : Cfg) (w : World) (k : Engine.Path) (pl : Payload) (h : cfg.dryRun = false) :
    perform cfg w ⟨.create, k, pl⟩ = cuArm cfg w k false pl := by
  cases pl with
  | file m n =>
    simp only [perform, h, cuArm, fileArm]
    by_cases hc : (cfg.hardlinks && decide (1 < n)) = true
    · cases hf : w.linkMap.find? (·.1 == m.ino) with
      | some x => simp [hc, hf]
      | none =>
        simp [hc, hf]
        refine congrArg (fun f => Option.map f _) (funext fun w' => ?_)
        unfold inoAt
        cases w'.dst.get? k with
        | none => rfl
        | some n => cases n <;> rfl
    · simp [hc]
  | _ => simp [perform, h, cuArm, mkdirW, dirBase]

theorem perform_update (cfg : Cfg) (w : World) (k : Engine.Path) (pl : Payload) (h : cfg.dryRun = false) :
    perform cfg w ⟨.update, k, pl⟩ = cuArm cfg w k true pl := by
  cases pl with
  | file m n =>
    simp only [perform, h, cuArm, fileArm]
    by_cases hc : (cfg.hardlinks && decide (1 < n)) = true
    · cases hf : w.linkMap.find? (·.1 == m.ino) with
      | some x => simp [hc, hf]
      | none =>
        simp [hc, hf]
        refine congrArg (fun f => Option.map f _) (funext fun w' => ?_)
        unfold inoAt
        cases w'.dst.get? k with
        | none => rfl
        | some n => cases n <;> rfl
    · simp [hc]
  | _ => simp [perform, h, cuArm, mkdirW, dirBase]

/-! ### the executors, arm by arm -/

theorem copy_file_ok (cfg : Cfg) (self : Transferrer) (xw : XWorld) (s : Rs.Path) (k : Engine.Path)
    (hk : CleanPath k) (sm : FileMeta) (hs : xw.src s = .file sm) (w' : World)
    (hw : writeFile (stripX cfg) xw.w k sm = some w') :
    runM (self.copy_file (extOf cfg) s (destOf xw.root k)) xw = (.ok (xferResult sm.size), { xw with w := w' }) := by
  rw [copy_file_run cfg self xw s k hk]
  cases hm : mkdirAll xw.w.dst (parentOf k) with
  | none => unfold writeFile at hw; simp [hm] at hw
  | some d => simp only [hs, hw]

/-- a failed `copy_file` leaves the world as it was or with the parents of `k` created (never the third case of `Left`) -/
theorem copy_file_err_strong (cfg : Cfg) (self : Transferrer) (xw : XWorld) (s : Rs.Path) (k : Engine.Path)
    (hk : CleanPath k) (hw : ∀ sm, xw.src s = .file sm → writeFile (stripX cfg) xw.w k sm = none) :
    ∃ xw', runM (self.copy_file (extOf cfg) s (destOf xw.root k)) xw = (.error .io, xw') ∧
      (xw' = xw ∨ ∃ d, mkdirAll xw.w.dst (parentOf k) = some d ∧ xw' = { xw with w := { xw.w with dst := d } }) := by
  rw [copy_file_run cfg self xw s k hk]
  cases hm : mkdirAll xw.w.dst (parentOf k) with
  | none => exact ⟨xw, rfl, Or.inl rfl⟩
  | some d =>
    cases hs : xw.src s with
    | dangling => exact ⟨_, rfl, Or.inr ⟨d, rfl, rfl⟩⟩
    | dir => exact ⟨_, rfl, Or.inr ⟨d, rfl, rfl⟩⟩
    | file sm => simp only [hw sm hs]; exact ⟨_, rfl, Or.inr ⟨d, rfl, rfl⟩⟩

theorem copy_file_err (cfg : Cfg) (self : Transferrer) (xw : XWorld) (s : Rs.Path) (k : Engine.Path)
    (hk : CleanPath k) (hw : ∀ sm, xw.src s = .file sm → writeFile (stripX cfg) xw.w k sm = none) :
    ∃ xw', runM (self.copy_file (extOf cfg) s (destOf xw.root k)) xw = (.error .io, xw') ∧ Left xw xw' k := by
  obtain ⟨xw', h1, h2⟩ := copy_file_err_strong cfg self xw s k hk hw
  exact ⟨xw', h1, h2.elim Or.inl (fun h => Or.inr (Or.inl h))⟩

/-- the follow arm's payload written by the model = the stripped copy -/
theorem writeFile_followMeta (cfg : Cfg) (w : World) (k : Engine.Path) (sm : FileMeta) :
    writeFile cfg w k (followMeta sm) = writeFile (stripX cfg) w k sm := by
  unfold writeFile
  cases hx : cfg.xattrs <;> simp [followMeta, stripX, hx]

theorem handle_symlink_agree (cfg : Cfg) (self : Transferrer) (ha : Agrees self cfg) (xw : XWorld) (e : FileEntry)
    (k : Engine.Path) (hk : CleanPath k) (hs : e.is_symlink = true) (hread : Readable cfg e) (upd : Bool) :
    Agree xw k (runM (self.handle_symlink (extOf cfg) e (destOf xw.root k)) xw)
      (cuArm cfg xw.w k upd (absPayload cfg xw e)) := by
  obtain ⟨hdry, hhl, hlm⟩ := ha
  unfold Transferrer.handle_symlink absPayload
  simp only [hs, ↓reduceIte]
  cases hm : self.symlink_mode with
  | Skip =>
    rw [hm] at hlm
    simp only [← hlm, absMode, cuArm]
    exact ⟨none, rfl⟩
  | Preserve =>
    rw [hm] at hlm
    have hr := hread hs (by rw [← hlm]; simp [absMode])
    simp only [← hlm, absMode]
    cases ht : e.symlink_target with
    | none => simp [ht] at hr
    | some t =>
      simp only [cuArm, extOf_t_create_symlink, runM_bind, runM_op, at_destOf xw _ rfl k hk]
      cases hw : writeSymlink xw.w k (String.ofList t) with
      | none => exact ⟨xw, rfl, Or.inl rfl⟩
      | some w' => exact ⟨none, rfl⟩
  | Follow =>
    rw [hm] at hlm
    have hr := hread hs (by rw [← hlm]; simp [absMode])
    simp only [← hlm, absMode, Rs.is_some, hr, ↓reduceIte, extOf_path_exists, extOf_path_is_dir, runM_bind, runM_op]
    cases hsrc : xw.src e.path with
    | dangling =>
      have hex : xw.srcExists e.path = false := by simp [XWorld.srcExists, hsrc]
      simp only [hex, Bool.not_false, ↓reduceIte, runM_pure, cuArm]
      exact ⟨none, rfl⟩
    | dir =>
      have hex : xw.srcExists e.path = true := by simp [XWorld.srcExists, hsrc]
      have hdir : xw.srcIsDir e.path = true := by simp [XWorld.srcIsDir, hsrc]
      simp only [hex, hdir, Bool.not_true, Bool.false_eq_true, ↓reduceIte, runM_pure, runM_bind, runM_op, cuArm]
      exact ⟨none, rfl⟩
    | file sm =>
      have hex : xw.srcExists e.path = true := by simp [XWorld.srcExists, hsrc]
      have hdir : xw.srcIsDir e.path = false := by simp [XWorld.srcIsDir, hsrc]
      simp only [hex, hdir, Bool.not_true, Bool.false_eq_true, ↓reduceIte, runM_bind, runM_op, cuArm, fileArm,
        Nat.lt_irrefl, decide_false, Bool.and_false, writeFile_followMeta]
      cases hwf : writeFile (stripX cfg) xw.w k sm with
      | some w' =>
        simp only [copy_file_ok cfg self xw e.path k hk sm hsrc w' hwf, runM_pure]
        exact ⟨_, rfl⟩
      | none =>
        obtain ⟨xw', h1, h2⟩ := copy_file_err cfg self xw e.path k hk
          (fun sm' hs' => by rw [hsrc] at hs'; cases hs'; exact hwf)
        simp only [h1]
        exact ⟨xw', rfl, h2⟩

theorem metaOf_xattrs (xw : XWorld) (e : FileEntry) : (metaOf xw e).xattrs = absX xw.valId e.xattrs := by
  unfold metaOf; split <;> rfl

theorem writeX_destOf (xw : XWorld) (e : FileEntry) (k : Engine.Path) (hk : CleanPath k) :
    xw.writeX e (destOf xw.root k) = { xw with w := setXattrs xw.w k (absX xw.valId e.xattrs) } := by
  simp only [XWorld.writeX, keyOf_destOf xw.root k hk]

/-- a transfer (`copy_file` or `sync_file_with_delta`: anything that runs as the stripped `writeFile`) followed by
    `write_xattrs`, `write_acls`, `write_bsd_flags` is the model's `writeFile` of the entry's meta -/
theorem transfer_then_attrs_agree (cfg : Cfg) (self : Transferrer) (xw : XWorld) (e : FileEntry) (k : Engine.Path)
    (hk : CleanPath k) (sm : FileMeta) (hsm : xw.src e.path = .file sm) (x : Rs.M XWorld TransferResult)
    (hok : ∀ w', writeFile (stripX cfg) xw.w k sm = some w' → runM x xw = (.ok (xferResult sm.size), { xw with w := w' }))
    (herr : writeFile (stripX cfg) xw.w k sm = none → ∃ xw', runM x xw = (.error .io, xw') ∧ Left xw xw' k) :
    Agree xw k
      (runM (x >>= fun r => (extOf cfg).write_xattrs self e (destOf xw.root k) >>= fun _ =>
        (extOf cfg).write_acls self e (destOf xw.root k) >>= fun _ =>
        (extOf cfg).write_bsd_flags self e (destOf xw.root k) >>= fun _ => pure (some r)) xw)
      (writeFile cfg xw.w k (metaOf xw e)) := by
  have hcg : writeFile (stripX cfg) xw.w k (metaOf xw e) = writeFile (stripX cfg) xw.w k sm :=
    writeFile_congr _ _ _ _ _ (by simp [metaOf, hsm]) (by simp [metaOf, hsm]) (by simp [metaOf, hsm])
      (by simp [stripX])
  rw [writeFile_split, hcg, metaOf_xattrs]
  cases hwf : writeFile (stripX cfg) xw.w k sm with
  | none =>
    obtain ⟨xw', h1, h2⟩ := herr hwf
    simp only [runM_bind, h1, Option.map_none]
    exact ⟨xw', rfl, h2⟩
  | some w2 =>
    simp only [runM_bind, hok w2 hwf, extOf_write_xattrs, extOf_write_acls, extOf_write_bsd_flags, runM_op, runM_pure,
      Option.map_some]
    cases hx : cfg.xattrs with
    | false => exact ⟨_, rfl⟩
    | true =>
      simp only [↓reduceIte]
      rw [writeX_destOf { xw with w := w2 } e k hk]
      exact ⟨_, rfl⟩

theorem create_agree (cfg : Cfg) (self : Transferrer) (ha : Agrees self cfg) (xw : XWorld) (e : FileEntry)
    (k : Engine.Path) (hk : CleanPath k) (hread : Readable cfg e) (hsrc : SrcFile xw e) (hino : HasInode cfg e) :
    Agree xw k (runM (self.create (extOf cfg) e (destOf xw.root k)) xw)
      (perform cfg xw.w (absTask cfg xw .create e k)) := by
  have ha' := ha
  obtain ⟨hdry, hhl, hlm⟩ := ha
  cases hd : cfg.dryRun with
  | true =>
    rw [perform_dry cfg _ _ hd]
    rw [hd] at hdry
    unfold Transferrer.create
    simp only [hdry, ↓reduceIte]
    refine ⟨none, ?_⟩
    split <;> rfl
  | false =>
    rw [hd] at hdry
    unfold absTask
    rw [perform_create cfg _ _ _ hd]
    unfold Transferrer.create
    simp only [hdry, Bool.false_eq_true, ↓reduceIte]
    cases hs : e.is_symlink with
    | true =>
      simp only [↓reduceIte]
      exact handle_symlink_agree cfg self ha' xw e k hk hs hread false
    | false =>
      simp only [Bool.false_eq_true, ↓reduceIte]
      cases hdir : e.is_dir with
      | true =>
        simp only [↓reduceIte, runM_bind, create_directory_run cfg self xw k hk, absPayload, hs, hdir, cuArm,
          Bool.false_eq_true]
        cases mkdirW xw.w k with
        | none => exact ⟨xw, rfl, Or.inl rfl⟩
        | some w' => exact ⟨none, rfl⟩
      | false =>
        obtain ⟨sm, hsm⟩ := hsrc hs hdir
        simp only [Bool.false_eq_true, ↓reduceIte, absPayload, hs, hdir, cuArm, fileArm]
        have hnl : decide (e.nlink > 1) = decide (1 < e.nlink) := rfl
        by_cases hc : (cfg.hardlinks && decide (1 < e.nlink)) = true
        · -- a member of a link group with -H: the hand-off
          have hc' := hc
          simp only [Bool.and_eq_true, decide_eq_true_eq] at hc'
          obtain ⟨i, hi⟩ := Option.isSome_iff_exists.1 (hino hs hdir hc'.1 hc'.2)
          have hmi : (metaOf xw e).ino = i := by simp [metaOf, hsm, hi]
          simp only [hhl, hnl, hc, ↓reduceIte, hi, extOf_transfer_link_member, runM_op, at_destOf xw _ rfl k hk,
            linkMemberW, hmi, hsm]
          cases hf : xw.w.linkMap.find? (·.1 == i) with
          | some x =>
            obtain ⟨a, first, b⟩ := x
            simp only [Bool.false_eq_true, ↓reduceIte]
            cases linkFile xw.w k first with
            | none => exact ⟨xw, rfl, Or.inl rfl⟩
            | some w' => exact ⟨_, rfl⟩
          | none =>
            simp only []
            cases writeFile cfg xw.w k (metaOf xw e) with
            | none => exact ⟨xw, rfl, Or.inl rfl⟩
            | some w' => exact ⟨_, rfl⟩
        · -- the plain copy
          simp only [hhl, hnl, hc, Bool.false_eq_true, ↓reduceIte]
          exact transfer_then_attrs_agree cfg self xw e k hk sm hsm _
            (fun w' hw => copy_file_ok cfg self xw e.path k hk sm hsm w' hw)
            (fun hw => copy_file_err cfg self xw e.path k hk (fun sm' hs' => by rw [hsm] at hs'; cases hs'; exact hw))


/-- the entry is not a plain directory (kept for the readers of older statements: since fix 862af11 `update` of a plain
    directory entry IS planned — for a destination link standing where the source has a directory — and is bridged by
    `update_dir_agree`; `update_agree` needs no such hypothesis any more) -/
def NotPlainDir (e : FileEntry) : Prop := e.is_symlink = false → e.is_dir = false

/-- `Rs.capture` (a `Result` kept as a value): the computation runs, its outcome is the value, nothing is thrown -/
theorem runM_capture_eq {W α : Type} (x : Rs.M W α) (w : W) :
    runM (Rs.capture x) w = ((.ok (runM x w).1 : Except Rs.Err (Except Rs.Err α)), (runM x w).2) := by
  simp only [runM, Rs.capture]
  rfl

/-- `read_link` on the instance: the text of a symlink node, `None` for anything else; the world is untouched -/
theorem read_link_run (cfg : Cfg) (o : Rs.Opaque) (xw : XWorld) (k : Engine.Path) (hk : CleanPath k) :
    runM ((extOf cfg).t_read_link o (destOf xw.root k)) xw =
      (.ok (match xw.w.dst.get? k with | some (.symlink t) => some t.toList | _ => none), xw) := by
  show runM (op fun xw => xw.at (destOf xw.root k) fun k =>
    some ((match xw.w.dst.get? k with | some (.symlink t) => some t.toList | _ => none), xw.w)) xw = _
  rw [runM_op, at_destOf xw _ rfl k hk]
  rfl

/-- BRIDGE, `update` of a plain directory entry (fix 862af11: `read_link` probe, `remove(path, false)` of a link,
    `create_dir_all`) = the `.dir` arm of the model's `perform` under `.update`, for EVERY node at the key: nothing or a
    directory (`create_dir_all` alone), a regular file (the probe answers "no link", `create_dir_all` fails: EEXIST), a
    symlink (unlinked as itself, then the directory is created) -/
theorem update_dir_agree (cfg : Cfg) (self : Transferrer) (ha : Agrees self cfg) (xw : XWorld) (e : FileEntry)
    (k : Engine.Path) (hk : CleanPath k) (hs : e.is_symlink = false) (hdir : e.is_dir = true) :
    Agree xw k (runM (self.update (extOf cfg) e (destOf xw.root k)) xw)
      (perform cfg xw.w (absTask cfg xw .update e k)) := by
  obtain ⟨hdry, hhl, hlm⟩ := ha
  cases hd : cfg.dryRun with
  | true =>
    rw [perform_dry cfg _ _ hd]
    rw [hd] at hdry
    unfold Transferrer.update
    simp only [hdry, ↓reduceIte]
    refine ⟨none, ?_⟩
    split <;> rfl
  | false =>
    rw [hd] at hdry
    unfold absTask
    rw [perform_update cfg _ _ _ hd]
    unfold Transferrer.update
    simp only [hdry, hs, hdir, Bool.false_eq_true, ↓reduceIte, Bool.not_true, Bool.false_and, runM_bind,
      runM_capture_eq, read_link_run cfg _ xw k hk, absPayload, cuArm]
    cases hg : xw.w.dst.get? k with
    | none =>
      have hu : unlinkLink xw.w.dst k = xw.w.dst := unlinkLink_of_not_link _ _ (by simp [hg])
      simp only [runM_bind, runM_pure, create_directory_run cfg self xw k hk, hu]
      cases mkdirW xw.w k with
      | none => exact ⟨xw, rfl, Or.inl rfl⟩
      | some w' => exact ⟨none, rfl⟩
    | some n =>
      cases n with
      | dir =>
        have hu : unlinkLink xw.w.dst k = xw.w.dst := unlinkLink_of_not_link _ _ (by simp [hg])
        simp only [runM_bind, runM_pure, create_directory_run cfg self xw k hk, hu]
        cases mkdirW xw.w k with
        | none => exact ⟨xw, rfl, Or.inl rfl⟩
        | some w' => exact ⟨none, rfl⟩
      | file m =>
        have hu : unlinkLink xw.w.dst k = xw.w.dst := unlinkLink_of_not_link _ _ (by simp [hg])
        simp only [runM_bind, runM_pure, create_directory_run cfg self xw k hk, hu]
        cases mkdirW xw.w k with
        | none => exact ⟨xw, rfl, Or.inl rfl⟩
        | some w' => exact ⟨none, rfl⟩
      | symlink t =>
        have hu : unlinkLink xw.w.dst k = xw.w.dst.erase k := unlinkLink_of_link _ _ t hg
        have hrm : runM ((extOf cfg).t_remove self.transport (destOf xw.root k) false) xw =
            (.ok (), { xw with w := { xw.w with dst := xw.w.dst.erase k } }) := by
          simp only [extOf_t_remove, runM_op, at_destOf xw _ rfl k hk, removeW, hg, Option.map_some, outcome_some]
        simp only [runM_bind, runM_pure, hrm, hu]
        have hcd := create_directory_run cfg self { xw with w := { xw.w with dst := xw.w.dst.erase k } } k hk
        simp only [] at hcd
        rw [hcd]
        cases hmk : mkdirW { xw.w with dst := xw.w.dst.erase k } k with
        | none => exact ⟨_, rfl, Or.inr (Or.inr ⟨t, hg, rfl⟩)⟩
        | some w' => exact ⟨none, rfl⟩

theorem update_agree (cfg : Cfg) (self : Transferrer) (ha : Agrees self cfg) (xw : XWorld) (e : FileEntry)
    (k : Engine.Path) (hk : CleanPath k) (hread : Readable cfg e) (hsrc : SrcFile xw e) (hino : HasInode cfg e) :
    Agree xw k (runM (self.update (extOf cfg) e (destOf xw.root k)) xw)
      (perform cfg xw.w (absTask cfg xw .update e k)) := by
  by_cases hpd : e.is_symlink = false ∧ e.is_dir = true
  · exact update_dir_agree cfg self ha xw e k hk hpd.1 hpd.2
  have hnd : NotPlainDir e := by
    intro hs
    cases hdir : e.is_dir with
    | false => rfl
    | true => exact absurd ⟨hs, hdir⟩ hpd
  have ha' := ha
  obtain ⟨hdry, hhl, hlm⟩ := ha
  cases hd : cfg.dryRun with
  | true =>
    rw [perform_dry cfg _ _ hd]
    rw [hd] at hdry
    unfold Transferrer.update
    simp only [hdry, ↓reduceIte]
    refine ⟨none, ?_⟩
    split <;> rfl
  | false =>
    rw [hd] at hdry
    unfold absTask
    rw [perform_update cfg _ _ _ hd]
    unfold Transferrer.update
    simp only [hdry, Bool.false_eq_true, ↓reduceIte]
    cases hs : e.is_symlink with
    | true =>
      simp only [↓reduceIte]
      exact handle_symlink_agree cfg self ha' xw e k hk hs hread true
    | false =>
      have hdir := hnd hs
      obtain ⟨sm, hsm⟩ := hsrc hs hdir
      simp only [Bool.false_eq_true, ↓reduceIte, absPayload, hs, hdir, cuArm, fileArm, Bool.not_false, Bool.true_and]
      have hnl : decide (e.nlink > 1) = decide (1 < e.nlink) := rfl
      by_cases hc : (cfg.hardlinks && decide (1 < e.nlink)) = true
      · have hc' := hc
        simp only [Bool.and_eq_true, decide_eq_true_eq] at hc'
        obtain ⟨i, hi⟩ := Option.isSome_iff_exists.1 (hino hs hdir hc'.1 hc'.2)
        have hmi : (metaOf xw e).ino = i := by simp [metaOf, hsm, hi]
        simp only [hhl, hnl, hc, ↓reduceIte, hi, extOf_transfer_link_member, runM_op, runM_bind, runM_pure,
          at_destOf xw _ rfl k hk, linkMemberW, hmi, hsm]
        cases hf : xw.w.linkMap.find? (·.1 == i) with
        | some x =>
          obtain ⟨a, first, b⟩ := x
          simp only [↓reduceIte]
          cases relinkFile xw.w k first with
          | none => exact ⟨xw, rfl, Or.inl rfl⟩
          | some w' => exact ⟨_, rfl⟩
        | none =>
          simp only []
          cases writeFile cfg xw.w k (metaOf xw e) with
          | none => exact ⟨xw, rfl, Or.inl rfl⟩
          | some w' => exact ⟨_, rfl⟩
      · simp only [hhl, hnl, hc, Bool.false_eq_true, ↓reduceIte]
        refine transfer_then_attrs_agree cfg self xw e k hk sm hsm _ (fun w' hw => ?_) (fun hw => ?_)
        · simp only [extOf_t_sync_file_with_delta, runM_op, at_destOf xw _ rfl k hk, copyW, hsm, hw, Option.map_some,
            outcome_some]
        · refine ⟨xw, ?_, Or.inl rfl⟩
          simp only [extOf_t_sync_file_with_delta, runM_op, at_destOf xw _ rfl k hk, copyW, hsm, hw, Option.map_none,
            outcome_none]

/-- the flag `Transport::remove` is given describes the node (the engine computes it from the destination path right
    before the call: `task.dest_path.is_dir()`, src/sync/mod.rs:1075; a link is removed as itself under either flag) -/
def FlagOK (w : World) (k : Engine.Path) (isDir : Bool) : Prop :=
  (w.dst.get? k = some .dir → isDir = true) ∧ (∀ m, w.dst.get? k = some (.file m) → isDir = false)

theorem perform_delete_at (cfg : Cfg) (w : World) (k : Engine.Path) (pl : Payload) :
    perform cfg w ⟨.delete, k, pl⟩ =
      if cfg.dryRun then some w else
        match w.dst.get? k with
        | some .dir => some { w with dst := w.dst.eraseSubtree k }
        | some _ => some { w with dst := w.dst.erase k }
        | none => some w := by
  simp only [perform]
  split
  · rfl
  · cases w.dst.get? k with
    | none => rfl
    | some n => cases n <;> rfl

theorem delete_run (cfg : Cfg) (self : Transferrer) (xw : XWorld) (k : Engine.Path) (hk : CleanPath k) (isDir : Bool) :
    runM (self.delete (extOf cfg) (destOf xw.root k) isDir) xw =
      if self.dry_run then (.ok (), xw) else xw.outcome ((removeW xw.w k isDir).map fun w' => ((), w')) := by
  unfold Transferrer.delete
  cases self.dry_run with
  | true => rfl
  | false =>
    simp only [Bool.false_eq_true, ↓reduceIte, extOf_t_remove, runM_bind, runM_op, at_destOf xw _ rfl k hk, runM_pure]
    cases removeW xw.w k isDir <;> rfl

/-! ### reading `Agree` -/

theorem Agree.ok_iff {α : Type} {xw : XWorld} {k : Engine.Path} {res : Except Rs.Err α × XWorld} {m : Option World}
    (h : Agree xw k res m) : (∃ r xw', res = (.ok r, xw')) ↔ m.isSome = true := by
  cases m with
  | none =>
    obtain ⟨xw', h1, _⟩ := h
    simp [h1]
  | some w' =>
    obtain ⟨r, h1⟩ := h
    simp only [Option.isSome_some, iff_true]
    exact ⟨r, _, h1⟩

theorem Agree.err_iff {α : Type} {xw : XWorld} {k : Engine.Path} {res : Except Rs.Err α × XWorld} {m : Option World}
    (h : Agree xw k res m) : (∃ er xw', res = (.error er, xw')) ↔ m = none := by
  cases m with
  | none =>
    obtain ⟨xw', h1, _⟩ := h
    simp only [iff_true]
    exact ⟨_, _, h1⟩
  | some w' =>
    obtain ⟨r, h1⟩ := h
    simp [h1]

theorem Agree.world {α : Type} {xw xw' : XWorld} {k : Engine.Path} {res : Except Rs.Err α × XWorld} {m : Option World}
    {r : α} (h : Agree xw k res m) (hr : res = (.ok r, xw')) : m = some xw'.w ∧ xw' = { xw with w := xw'.w } := by
  cases m with
  | none =>
    obtain ⟨_, h1, _⟩ := h
    rw [h1] at hr; cases hr
  | some w' =>
    obtain ⟨r', h1⟩ := h
    rw [h1] at hr
    cases hr
    exact ⟨rfl, rfl⟩

theorem Agree.left {α : Type} {xw xw' : XWorld} {k : Engine.Path} {res : Except Rs.Err α × XWorld} {m : Option World}
    {er : Rs.Err} (h : Agree xw k res m) (hr : res = (.error er, xw')) : m = none ∧ er = .io ∧ Left xw xw' k := by
  cases m with
  | none =>
    obtain ⟨x, h1, h2⟩ := h
    rw [h1] at hr
    cases hr
    exact ⟨rfl, rfl, h2⟩
  | some w' =>
    obtain ⟨r', h1⟩ := h
    rw [h1] at hr; cases hr

end SyModel.Lemmas.GenTransfer
