/-
  Lemmas.GenLocalCopyCow — symbolic execution of the translated `sync_file_with_delta` on the COW route
  (`use_cow_strategy`: reflinks supported, same file system, destination without hard links): `fs::copy(dest, temp)`, the
  xattr strip of the clone, the selective block loop (`cow_forIn`), `set_len(bytes_written)`, mtime, rename.
-/
import SyModel.Lemmas.GenLocalCopyStrip
set_option autoImplicit false
set_option linter.unusedSimpArgs false
set_option linter.unusedVariables false
namespace SyModel.LocalCopy
open SyModel SyModel.Generated SyModel.Generated.LocalCopy SyModel.Transfer
open SyModel.Compress (writeAt setLen zeros)

/-- the world after `TempFileGuard::new(temp)`, `fs::copy(dest, temp)` onto a free name and the xattr strip of the clone:
    a new inode holding the destination's bytes `D`, without attributes, under the name `temp` -/
def cowW (w : LWorld) (temp : Rs.Path) (D : List Nat) (X : List Rs.Str) : LWorld :=
  { w with names := upd w.names temp (some (.file w.nextIno)),
           inodes := upd w.inodes w.nextIno (some ⟨D, w.now, [], 1⟩),
           nextIno := w.nextIno + 1,
           guards := temp :: w.guards,
           log := w.log ++ ([.create temp w.nextIno, .write w.nextIno 0 D] ++ (stripNames X X).map (Op.xattrRemove w.nextIno)) }

/-- the attributes the clone starts with: those `fs::copy` brought along (none on Linux) -/
def cloneXattrs (cfg : Cfg) (xd : List Rs.Str) : List Rs.Str := if cfg.copyXattrs then xd else []

set_option maxRecDepth 8000 in
theorem sync_cow_eval_ratio_none (cfg : Cfg) (self : LocalTransport) (w : LWorld) (src dst : Rs.Path) (is id : Nat) (S D : Bytes)
    (ms md : Nat) (xs xd : List Rs.Str) (ls ld : Nat) (h : UpdPre w src dst is id S D ms md xs xd ls ld)
    (hbig : 10485760 ≤ D.length) (hsp : cfg.sparse = false) (hr : cfg.ratio = none)
    (hcow : (cfg.cow && cfg.sameFs && !decide (1 < ld)) = true) (hv : cfg.verifyOnWrite = false) :
    ∃ w', LocalTransport.sync_file_with_delta (posix cfg) self src dst w =
      (.ok (TransferResult.with_delta (cowGo (fun _ => 65536) S D 0 (cowInit D)).offset
          (cowGo (fun _ => 65536) S D 0 (cowInit D)).changed (cowGo (fun _ => 65536) S D 0 (cowInit D)).literal), w') ∧
      w'.names dst = some (.file w.nextIno) ∧ w'.names (dst ++ TEMP_SUFFIX) = none ∧
      (∀ p, p ≠ dst → p ≠ dst ++ TEMP_SUFFIX → w'.names p = w.names p) ∧
      w'.inodes w.nextIno = some ⟨ofU8 (setLen (cowGo (fun _ => 65536) S D 0 (cowInit D)).temp (cowGo (fun _ => 65536) S D 0 (cowInit D)).offset), ms, [], 1⟩ ∧
      w'.inodes is = some ⟨ofU8 S, ms, xs, ls⟩ ∧ w'.inodes id = some ⟨ofU8 D, md, xd, ld - 1⟩ ∧
      (∀ i, i ≠ w.nextIno → i ≠ id → w'.inodes i = w.inodes i) ∧
      w'.log = (unlinkSym w (dst ++ TEMP_SUFFIX)).log ++
        ([Op.create (dst ++ TEMP_SUFFIX) w.nextIno, Op.write w.nextIno 0 (ofU8 D)] ++
          (stripNames (cloneXattrs cfg xd) (cloneXattrs cfg xd)).map (Op.xattrRemove w.nextIno) ++
          (wsOf (cowGo (fun _ => 65536) S D 0 (cowInit D))).map (fun x => Op.write w.nextIno x.1 x.2) ++
          [Op.setLen w.nextIno (cowGo (fun _ => 65536) S D 0 (cowInit D)).offset,
           Op.utime (dst ++ TEMP_SUFFIX) w.nextIno ms, Op.rename (dst ++ TEMP_SUFFIX) dst]) ∧
      w'.guards = [] ∧ w'.fault = none := by
  obtain ⟨hnf, hsrc, hisrc, hdst, hidst, hne, htmp, hfresh, hng⟩ := h
  have hts : dst ++ TEMP_SUFFIX ≠ src := by
    intro e; rw [e] at htmp; rcases htmp with h | ⟨t, h⟩ <;> rw [hsrc] at h <;> cases h
  have htd : dst ++ TEMP_SUFFIX ≠ dst := by
    intro e; rw [e] at htmp; rcases htmp with h | ⟨t, h⟩ <;> rw [hdst] at h <;> cases h
  have hg1 : decide (List.length D < 10 * 1024 * 1024) = false := by simp; omega
  have hg2 : decide (List.length D < 4096) = false := by simp; omega
  have hhl : hasHardLinks w dst = decide (1 < ld) := by simp [hasHardLinks, inoOf_of_file w dst id hdst, hidst]
  have hcow' : (cfg.cow = true ∧ cfg.sameFs = true) ∧ ld ≤ 1 := by
    simp at hcow; exact ⟨⟨hcow.1.1, hcow.1.2⟩, by omega⟩
  have hrm := remove_temp_nf w (dst ++ TEMP_SUFFIX) hnf htmp
  rw [prim_nf _ _ hnf] at hrm
  have h0src : (unlinkSym w (dst ++ TEMP_SUFFIX)).names src = some (.file is) := by rw [unlinkSym_names_ne _ _ _ hts.symm, hsrc]
  have h0dst : (unlinkSym w (dst ++ TEMP_SUFFIX)).names dst = some (.file id) := by rw [unlinkSym_names_ne _ _ _ htd.symm, hdst]
  have h0tmp : (unlinkSym w (dst ++ TEMP_SUFFIX)).names (dst ++ TEMP_SUFFIX) = none := unlinkSym_names_self _ _ htmp
  have h0nf : (unlinkSym w (dst ++ TEMP_SUFFIX)).fault = none := by simp [hnf]
  have h0is : (unlinkSym w (dst ++ TEMP_SUFFIX)).inodes is = some ⟨ofU8 S, ms, xs, ls⟩ := by simp [hisrc]
  have h0id : (unlinkSym w (dst ++ TEMP_SUFFIX)).inodes id = some ⟨ofU8 D, md, xd, ld⟩ := by simp [hidst]
  have h0ng : (unlinkSym w (dst ++ TEMP_SUFFIX)).guards = [] := by simp [hng]
  have h0ni : (unlinkSym w (dst ++ TEMP_SUFFIX)).nextIno = w.nextIno := by simp
  generalize hw0def : unlinkSym w (dst ++ TEMP_SUFFIX) = w0 at *
  have hisne : is ≠ w0.nextIno := by omega
  have hidne : id ≠ w0.nextIno := by omega
  have hN1s : follow (upd w0.names (dst ++ TEMP_SUFFIX) (some (Node.file w0.nextIno))) LINK_FUEL src = some src :=
    follow_of_not_symlink _ _ _ (by intro t; simp [upd_ne, hts.symm, h0src])
  have hN1d : follow (upd w0.names (dst ++ TEMP_SUFFIX) (some (Node.file w0.nextIno))) LINK_FUEL dst = some dst :=
    follow_of_not_symlink _ _ _ (by intro t; simp [upd_ne, htd.symm, h0dst])
  have hN1t : follow (upd w0.names (dst ++ TEMP_SUFFIX) (some (Node.file w0.nextIno))) LINK_FUEL (dst ++ TEMP_SUFFIX) = some (dst ++ TEMP_SUFFIX) :=
    follow_of_not_symlink _ _ _ (by intro t; simp)
  refine ⟨?w', ?h1, ?h2⟩
  case h1 =>
    unfold LocalTransport.sync_file_with_delta
    generalize hbs : (64 * 1024 : Nat) = bs
    simp only [strip_forIn]
    simp only [run_bind, remove_if_symlink_nf cfg w dst hnf, unlinkSym_of_file w dst id hdst,
      LocalTransport.exists, LocalTransport.metadata, run_capture, run_pure, prim_nf _ _ hnf, posix_try_exists, posix_tokio_fs_metadata,
      Option.isSome_some, Bool.not_true, Bool.false_eq_true, if_false, ite_false,
      existsAct, metadataAct, stat_of_file w dst id hdst, stat_of_file w src is hsrc, hisrc, hidst, Rs.unwrap_or, Rs.len,
      ofU8_length, hg1, hg2]
    simp [hN1s, hN1d, hN1t, run_bind, run_capture, run_pure, run_map, prim_nf, hnf, metadataAct, stat_of_file w src is hsrc, hisrc, hsp, hr, hhl, hcow', hng,
      hrm, h0nf, h0ng,
      fsCopyAct, xattrListAct, createTrunc, follow_of_none w0 _ h0tmp, h0tmp, LWorld.newHandle, setLenAct, fileOpenAct, ooOpenAct,
      LWorld.inoOf, LWorld.stat, follow_of_file w src is hsrc, follow_of_file w dst id hdst, hsrc, hdst, upd_ne, hts, hts.symm, htd, htd.symm,
      h0src, h0dst, h0id, hidne, hidne.symm, follow_of_file w0 dst id h0dst, follow_of_file w0 src is h0src, Rs.oo_write, Rs.oo_new, Rs.bufreader_with_capacity, LWorld.logOp]
    generalize hX : (if cfg.copyXattrs = true then xd else []) = X
    rw [stripGo_spec (dst ++ TEMP_SUFFIX) w0.nextIno X _ ⟨ofU8 D, w0.now, X, 1⟩ rfl (by simp) (by simp)]
    simp [hN1s, hN1d, hN1t, run_bind, run_capture, run_pure, run_map, prim_nf, filter_not_mem_self, filter_not_mem_self',
      LWorld.newHandle, fileOpenAct, ooOpenAct,
      LWorld.inoOf, LWorld.stat, upd_ne, hts, hts.symm, htd, htd.symm,
      h0src, h0dst, h0id, hidne, hidne.symm, Rs.oo_write, Rs.oo_new, Rs.bufreader_with_capacity, LWorld.logOp]
    rw [cow_forIn (cowW w0 (dst ++ TEMP_SUFFIX) (ofU8 D) X) is id w0.nextIno [] bs S D _ _ _ _ (cowInit D) 0 0 _ ?hW ?hsb ?hdb ?hfuel ?hf]
    case hsb => simp
    case hdb => simp
    case hfuel => simp
    case hW =>
      simp [loopW, cowW, wsOf, h0ng, h0nf, Nat.add_assoc]
    case hf =>
      intro x sbuf dbuf st dpos tpos hsb hdb
      simp [cowStep, loopW, cowW, run_bind, run_pure, prim_nf, h0nf, readAct, seekAct, writeAllAct, hv, upd_ne, hisne, hidne, h0is, h0id,
        LWorld.setPos, LWorld.logOp]
      have hbspos : 0 < bs := by omega
      have e1 : w0.nextHandle ≠ w0.nextHandle + 1 := by omega
      have e2 : w0.nextHandle ≠ w0.nextHandle + 2 := by omega
      have e3 : w0.nextHandle + 1 ≠ w0.nextHandle + 2 := by omega
      have e4 : w0.nextHandle + 1 + 1 = w0.nextHandle + 2 := by omega
      simp only [read_len S st.offset bs sbuf hsb, read_data, slice_ofU8]
      by_cases hnil : (S.drop st.offset).take bs = []
      · have hle : List.length S ≤ st.offset := by
          have := congrArg List.length hnil
          simp [List.length_take, List.length_drop] at this; omega
        have h0 : (ofU8 S).length - st.offset = 0 := by simp [ofU8_length]; omega
        simp [h0, hnil, hle, run_pure, upd_shadow3a _ _ _ _ _ e1 e2, ofU8_nil]
      · have hpos := take_ne_nil_length _ _ hnil
        have hle : ¬ List.length S ≤ st.offset := by
          intro h; apply hnil; simp [List.drop_eq_nil_of_le h]
        have h0 : ¬ ((ofU8 S).length - st.offset = 0) := by simp [ofU8_length]; omega
        have hsne : sbuf ≠ [] := by intro h; simp [h] at hsb; omega
        have hbs0 : bs ≠ 0 := by omega
        have hoff : ¬ ((st.offset : Int) < 0) := by omega
        have hne' : ¬ (ofU8 ((S.drop st.offset).take bs) = []) := by rw [ofU8_eq_nil]; exact hnil
        simp [hoff, h0, hle, hsne, hbs0, run_bind, run_pure, run_map, prim_nf, h0nf, readAct, seekAct, writeAllAct, hv, upd_ne, hisne, hidne, h0is, h0id,
          LWorld.setPos, LWorld.logOp, upd_shadow3a _ _ _ _ _ e1 e2, upd_shadow3b _ _ _ _ _ e3, e1, e2, e3, e4, e1.symm, e2.symm, e3.symm]
        simp only [read_len D dpos bs dbuf hdb, read_data, slice_ofU8, hne', if_false, ofU8_writeAt, ofU8_length, ofU8_inj]
        have hkS : min bs (List.length S - st.offset) = ((S.drop st.offset).take bs).length := by simp [List.length_take, List.length_drop]
        have hkD : min bs (List.length D - dpos) = ((D.drop dpos).take bs).length := by simp [List.length_take, List.length_drop]
        simp only [hdb, hkS, hkD, read_data, slice_ofU8, ofU8_inj]
        by_cases hm : ((S.drop st.offset).take bs).length = ((D.drop dpos).take bs).length ∧ (S.drop st.offset).take bs = (D.drop dpos).take bs
        · have hmb : (((S.drop st.offset).take bs).length == ((D.drop dpos).take bs).length && (S.drop st.offset).take bs == (D.drop dpos).take bs) = true := by
            simp [hm.1, hm.2]
          have hm2 : ¬ (¬((S.drop st.offset).take bs).length = ((D.drop dpos).take bs).length ∨ ¬(S.drop st.offset).take bs = (D.drop dpos).take bs) := by
            intro h; rcases h with h | h
            · exact h hm.1
            · exact h hm.2
          rw [if_neg hm2, if_pos hm]
          unfold cowNext
          simp only [hmb]
          simp [run_pure, wsOf, Rs.cast]
        · have hm' : ¬((S.drop st.offset).take bs).length = ((D.drop dpos).take bs).length ∨ ¬(S.drop st.offset).take bs = (D.drop dpos).take bs := by
            by_cases h1 : ((S.drop st.offset).take bs).length = ((D.drop dpos).take bs).length
            · right; intro h2; exact hm ⟨h1, h2⟩
            · left; exact h1
          have hmb : (((S.drop st.offset).take bs).length == ((D.drop dpos).take bs).length && (S.drop st.offset).take bs == (D.drop dpos).take bs) = false := by
            rw [Bool.and_eq_false_iff]; rcases hm' with h | h
            · left; exact beq_eq_false_iff_ne.mpr h
            · right; exact beq_eq_false_iff_ne.mpr h
          rw [if_pos hm', if_neg hm]
          unfold cowNext
          simp only [hmb]
          simp [hoff, hne', run_bind, run_pure, run_map, prim_nf, h0nf, seekAct, writeAllAct, upd_ne, hisne, hidne,
            LWorld.setPos, LWorld.logOp, e1, e2, e3, e1.symm, e2.symm, e3.symm, ofU8_writeAt, ofU8_length, wsOf, Rs.cast]
    simp [loopW, cowW, Rs.modified, run_bind, run_pure, run_map, prim_nf, h0nf, setLenAct, setMtimeAct, renameAct, LWorld.inoOf, LWorld.stat, hN1t,
      upd_ne, htd, htd.symm, h0dst, LWorld.logOp, LWorld.decLink, h0id, h0ng, Rs.liftE, hidne, hisne, ofU8_setLen, Nat.add_assoc]
    subst hbs
    subst hX
    rfl
  case h2 =>
    have hnames : ∀ p, p ≠ dst ++ TEMP_SUFFIX → w0.names p = w.names p := by
      intro p hp; rw [← hw0def, unlinkSym_names_ne _ _ _ hp]
    have hino : w0.inodes = w.inodes := by rw [← hw0def]; simp
    refine ⟨?_, ?_, ?_, ?_, ?_, ?_, ?_, ?_, ?_, ?_⟩
    · simp [upd_ne, htd.symm, h0ni]
    · simp
    · intro p h1 h2; simp [upd_ne, h1, h2, hnames p h2]
    · have hidne' : w.nextIno ≠ id := by omega
      simp [upd_ne, hidne', h0ni]
    · simp [upd_ne, hisne, hne, h0is]
    · simp
    · intro i h1 h2; simp [upd_ne, h1, h2, h0ni, hino]
    · simp [h0ni, cloneXattrs]
    · simp
    · simp
set_option maxRecDepth 8000 in
theorem sync_cow_eval_ratio_true (cfg : Cfg) (self : LocalTransport) (w : LWorld) (src dst : Rs.Path) (is id : Nat) (S D : Bytes)
    (ms md : Nat) (xs xd : List Rs.Str) (ls ld : Nat) (h : UpdPre w src dst is id S D ms md xs xd ls ld)
    (hbig : 10485760 ≤ D.length) (hsp : cfg.sparse = false) (hr : cfg.ratio = some true)
    (hcow : (cfg.cow && cfg.sameFs && !decide (1 < ld)) = true) (hv : cfg.verifyOnWrite = false) :
    ∃ w', LocalTransport.sync_file_with_delta (posix cfg) self src dst w =
      (.ok (TransferResult.with_delta (cowGo (fun _ => 65536) S D 0 (cowInit D)).offset
          (cowGo (fun _ => 65536) S D 0 (cowInit D)).changed (cowGo (fun _ => 65536) S D 0 (cowInit D)).literal), w') ∧
      w'.names dst = some (.file w.nextIno) ∧ w'.names (dst ++ TEMP_SUFFIX) = none ∧
      (∀ p, p ≠ dst → p ≠ dst ++ TEMP_SUFFIX → w'.names p = w.names p) ∧
      w'.inodes w.nextIno = some ⟨ofU8 (setLen (cowGo (fun _ => 65536) S D 0 (cowInit D)).temp (cowGo (fun _ => 65536) S D 0 (cowInit D)).offset), ms, [], 1⟩ ∧
      w'.inodes is = some ⟨ofU8 S, ms, xs, ls⟩ ∧ w'.inodes id = some ⟨ofU8 D, md, xd, ld - 1⟩ ∧
      (∀ i, i ≠ w.nextIno → i ≠ id → w'.inodes i = w.inodes i) ∧
      w'.log = (unlinkSym w (dst ++ TEMP_SUFFIX)).log ++
        ([Op.create (dst ++ TEMP_SUFFIX) w.nextIno, Op.write w.nextIno 0 (ofU8 D)] ++
          (stripNames (cloneXattrs cfg xd) (cloneXattrs cfg xd)).map (Op.xattrRemove w.nextIno) ++
          (wsOf (cowGo (fun _ => 65536) S D 0 (cowInit D))).map (fun x => Op.write w.nextIno x.1 x.2) ++
          [Op.setLen w.nextIno (cowGo (fun _ => 65536) S D 0 (cowInit D)).offset,
           Op.utime (dst ++ TEMP_SUFFIX) w.nextIno ms, Op.rename (dst ++ TEMP_SUFFIX) dst]) ∧
      w'.guards = [] ∧ w'.fault = none := by
  obtain ⟨hnf, hsrc, hisrc, hdst, hidst, hne, htmp, hfresh, hng⟩ := h
  have hts : dst ++ TEMP_SUFFIX ≠ src := by
    intro e; rw [e] at htmp; rcases htmp with h | ⟨t, h⟩ <;> rw [hsrc] at h <;> cases h
  have htd : dst ++ TEMP_SUFFIX ≠ dst := by
    intro e; rw [e] at htmp; rcases htmp with h | ⟨t, h⟩ <;> rw [hdst] at h <;> cases h
  have hg1 : decide (List.length D < 10 * 1024 * 1024) = false := by simp; omega
  have hg2 : decide (List.length D < 4096) = false := by simp; omega
  have hhl : hasHardLinks w dst = decide (1 < ld) := by simp [hasHardLinks, inoOf_of_file w dst id hdst, hidst]
  have hcow' : (cfg.cow = true ∧ cfg.sameFs = true) ∧ ld ≤ 1 := by
    simp at hcow; exact ⟨⟨hcow.1.1, hcow.1.2⟩, by omega⟩
  have hrm := remove_temp_nf w (dst ++ TEMP_SUFFIX) hnf htmp
  rw [prim_nf _ _ hnf] at hrm
  have h0src : (unlinkSym w (dst ++ TEMP_SUFFIX)).names src = some (.file is) := by rw [unlinkSym_names_ne _ _ _ hts.symm, hsrc]
  have h0dst : (unlinkSym w (dst ++ TEMP_SUFFIX)).names dst = some (.file id) := by rw [unlinkSym_names_ne _ _ _ htd.symm, hdst]
  have h0tmp : (unlinkSym w (dst ++ TEMP_SUFFIX)).names (dst ++ TEMP_SUFFIX) = none := unlinkSym_names_self _ _ htmp
  have h0nf : (unlinkSym w (dst ++ TEMP_SUFFIX)).fault = none := by simp [hnf]
  have h0is : (unlinkSym w (dst ++ TEMP_SUFFIX)).inodes is = some ⟨ofU8 S, ms, xs, ls⟩ := by simp [hisrc]
  have h0id : (unlinkSym w (dst ++ TEMP_SUFFIX)).inodes id = some ⟨ofU8 D, md, xd, ld⟩ := by simp [hidst]
  have h0ng : (unlinkSym w (dst ++ TEMP_SUFFIX)).guards = [] := by simp [hng]
  have h0ni : (unlinkSym w (dst ++ TEMP_SUFFIX)).nextIno = w.nextIno := by simp
  generalize hw0def : unlinkSym w (dst ++ TEMP_SUFFIX) = w0 at *
  have hisne : is ≠ w0.nextIno := by omega
  have hidne : id ≠ w0.nextIno := by omega
  have hN1s : follow (upd w0.names (dst ++ TEMP_SUFFIX) (some (Node.file w0.nextIno))) LINK_FUEL src = some src :=
    follow_of_not_symlink _ _ _ (by intro t; simp [upd_ne, hts.symm, h0src])
  have hN1d : follow (upd w0.names (dst ++ TEMP_SUFFIX) (some (Node.file w0.nextIno))) LINK_FUEL dst = some dst :=
    follow_of_not_symlink _ _ _ (by intro t; simp [upd_ne, htd.symm, h0dst])
  have hN1t : follow (upd w0.names (dst ++ TEMP_SUFFIX) (some (Node.file w0.nextIno))) LINK_FUEL (dst ++ TEMP_SUFFIX) = some (dst ++ TEMP_SUFFIX) :=
    follow_of_not_symlink _ _ _ (by intro t; simp)
  refine ⟨?w', ?h1, ?h2⟩
  case h1 =>
    unfold LocalTransport.sync_file_with_delta
    generalize hbs : (64 * 1024 : Nat) = bs
    simp only [strip_forIn]
    simp only [run_bind, remove_if_symlink_nf cfg w dst hnf, unlinkSym_of_file w dst id hdst,
      LocalTransport.exists, LocalTransport.metadata, run_capture, run_pure, prim_nf _ _ hnf, posix_try_exists, posix_tokio_fs_metadata,
      Option.isSome_some, Bool.not_true, Bool.false_eq_true, if_false, ite_false,
      existsAct, metadataAct, stat_of_file w dst id hdst, stat_of_file w src is hsrc, hisrc, hidst, Rs.unwrap_or, Rs.len,
      ofU8_length, hg1, hg2]
    simp [hN1s, hN1d, hN1t, run_bind, run_capture, run_pure, run_map, prim_nf, hnf, metadataAct, stat_of_file w src is hsrc, hisrc, hsp, hr, hhl, hcow', hng,
      hrm, h0nf, h0ng,
      fsCopyAct, xattrListAct, createTrunc, follow_of_none w0 _ h0tmp, h0tmp, LWorld.newHandle, setLenAct, fileOpenAct, ooOpenAct,
      LWorld.inoOf, LWorld.stat, follow_of_file w src is hsrc, follow_of_file w dst id hdst, hsrc, hdst, upd_ne, hts, hts.symm, htd, htd.symm,
      h0src, h0dst, h0id, hidne, hidne.symm, follow_of_file w0 dst id h0dst, follow_of_file w0 src is h0src, Rs.oo_write, Rs.oo_new, Rs.bufreader_with_capacity, LWorld.logOp]
    generalize hX : (if cfg.copyXattrs = true then xd else []) = X
    rw [stripGo_spec (dst ++ TEMP_SUFFIX) w0.nextIno X _ ⟨ofU8 D, w0.now, X, 1⟩ rfl (by simp) (by simp)]
    simp [hN1s, hN1d, hN1t, run_bind, run_capture, run_pure, run_map, prim_nf, filter_not_mem_self, filter_not_mem_self',
      LWorld.newHandle, fileOpenAct, ooOpenAct,
      LWorld.inoOf, LWorld.stat, upd_ne, hts, hts.symm, htd, htd.symm,
      h0src, h0dst, h0id, hidne, hidne.symm, Rs.oo_write, Rs.oo_new, Rs.bufreader_with_capacity, LWorld.logOp]
    rw [cow_forIn (cowW w0 (dst ++ TEMP_SUFFIX) (ofU8 D) X) is id w0.nextIno [] bs S D _ _ _ _ (cowInit D) 0 0 _ ?hW ?hsb ?hdb ?hfuel ?hf]
    case hsb => simp
    case hdb => simp
    case hfuel => simp
    case hW =>
      simp [loopW, cowW, wsOf, h0ng, h0nf, Nat.add_assoc]
    case hf =>
      intro x sbuf dbuf st dpos tpos hsb hdb
      simp [cowStep, loopW, cowW, run_bind, run_pure, prim_nf, h0nf, readAct, seekAct, writeAllAct, hv, upd_ne, hisne, hidne, h0is, h0id,
        LWorld.setPos, LWorld.logOp]
      have hbspos : 0 < bs := by omega
      have e1 : w0.nextHandle ≠ w0.nextHandle + 1 := by omega
      have e2 : w0.nextHandle ≠ w0.nextHandle + 2 := by omega
      have e3 : w0.nextHandle + 1 ≠ w0.nextHandle + 2 := by omega
      have e4 : w0.nextHandle + 1 + 1 = w0.nextHandle + 2 := by omega
      simp only [read_len S st.offset bs sbuf hsb, read_data, slice_ofU8]
      by_cases hnil : (S.drop st.offset).take bs = []
      · have hle : List.length S ≤ st.offset := by
          have := congrArg List.length hnil
          simp [List.length_take, List.length_drop] at this; omega
        have h0 : (ofU8 S).length - st.offset = 0 := by simp [ofU8_length]; omega
        simp [h0, hnil, hle, run_pure, upd_shadow3a _ _ _ _ _ e1 e2, ofU8_nil]
      · have hpos := take_ne_nil_length _ _ hnil
        have hle : ¬ List.length S ≤ st.offset := by
          intro h; apply hnil; simp [List.drop_eq_nil_of_le h]
        have h0 : ¬ ((ofU8 S).length - st.offset = 0) := by simp [ofU8_length]; omega
        have hsne : sbuf ≠ [] := by intro h; simp [h] at hsb; omega
        have hbs0 : bs ≠ 0 := by omega
        have hoff : ¬ ((st.offset : Int) < 0) := by omega
        have hne' : ¬ (ofU8 ((S.drop st.offset).take bs) = []) := by rw [ofU8_eq_nil]; exact hnil
        simp [hoff, h0, hle, hsne, hbs0, run_bind, run_pure, run_map, prim_nf, h0nf, readAct, seekAct, writeAllAct, hv, upd_ne, hisne, hidne, h0is, h0id,
          LWorld.setPos, LWorld.logOp, upd_shadow3a _ _ _ _ _ e1 e2, upd_shadow3b _ _ _ _ _ e3, e1, e2, e3, e4, e1.symm, e2.symm, e3.symm]
        simp only [read_len D dpos bs dbuf hdb, read_data, slice_ofU8, hne', if_false, ofU8_writeAt, ofU8_length, ofU8_inj]
        have hkS : min bs (List.length S - st.offset) = ((S.drop st.offset).take bs).length := by simp [List.length_take, List.length_drop]
        have hkD : min bs (List.length D - dpos) = ((D.drop dpos).take bs).length := by simp [List.length_take, List.length_drop]
        simp only [hdb, hkS, hkD, read_data, slice_ofU8, ofU8_inj]
        by_cases hm : ((S.drop st.offset).take bs).length = ((D.drop dpos).take bs).length ∧ (S.drop st.offset).take bs = (D.drop dpos).take bs
        · have hmb : (((S.drop st.offset).take bs).length == ((D.drop dpos).take bs).length && (S.drop st.offset).take bs == (D.drop dpos).take bs) = true := by
            simp [hm.1, hm.2]
          have hm2 : ¬ (¬((S.drop st.offset).take bs).length = ((D.drop dpos).take bs).length ∨ ¬(S.drop st.offset).take bs = (D.drop dpos).take bs) := by
            intro h; rcases h with h | h
            · exact h hm.1
            · exact h hm.2
          rw [if_neg hm2, if_pos hm]
          unfold cowNext
          simp only [hmb]
          simp [run_pure, wsOf, Rs.cast]
        · have hm' : ¬((S.drop st.offset).take bs).length = ((D.drop dpos).take bs).length ∨ ¬(S.drop st.offset).take bs = (D.drop dpos).take bs := by
            by_cases h1 : ((S.drop st.offset).take bs).length = ((D.drop dpos).take bs).length
            · right; intro h2; exact hm ⟨h1, h2⟩
            · left; exact h1
          have hmb : (((S.drop st.offset).take bs).length == ((D.drop dpos).take bs).length && (S.drop st.offset).take bs == (D.drop dpos).take bs) = false := by
            rw [Bool.and_eq_false_iff]; rcases hm' with h | h
            · left; exact beq_eq_false_iff_ne.mpr h
            · right; exact beq_eq_false_iff_ne.mpr h
          rw [if_pos hm', if_neg hm]
          unfold cowNext
          simp only [hmb]
          simp [hoff, hne', run_bind, run_pure, run_map, prim_nf, h0nf, seekAct, writeAllAct, upd_ne, hisne, hidne,
            LWorld.setPos, LWorld.logOp, e1, e2, e3, e1.symm, e2.symm, e3.symm, ofU8_writeAt, ofU8_length, wsOf, Rs.cast]
    simp [loopW, cowW, Rs.modified, run_bind, run_pure, run_map, prim_nf, h0nf, setLenAct, setMtimeAct, renameAct, LWorld.inoOf, LWorld.stat, hN1t,
      upd_ne, htd, htd.symm, h0dst, LWorld.logOp, LWorld.decLink, h0id, h0ng, Rs.liftE, hidne, hisne, ofU8_setLen, Nat.add_assoc]
    subst hbs
    subst hX
    rfl
  case h2 =>
    have hnames : ∀ p, p ≠ dst ++ TEMP_SUFFIX → w0.names p = w.names p := by
      intro p hp; rw [← hw0def, unlinkSym_names_ne _ _ _ hp]
    have hino : w0.inodes = w.inodes := by rw [← hw0def]; simp
    refine ⟨?_, ?_, ?_, ?_, ?_, ?_, ?_, ?_, ?_, ?_⟩
    · simp [upd_ne, htd.symm, h0ni]
    · simp
    · intro p h1 h2; simp [upd_ne, h1, h2, hnames p h2]
    · have hidne' : w.nextIno ≠ id := by omega
      simp [upd_ne, hidne', h0ni]
    · simp [upd_ne, hisne, hne, h0is]
    · simp
    · intro i h1 h2; simp [upd_ne, h1, h2, h0ni, hino]
    · simp [h0ni, cloneXattrs]
    · simp
    · simp
end SyModel.LocalCopy
