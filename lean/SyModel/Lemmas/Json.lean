/-
  Helper lemmas for `SyModel.Json`: the decimal printer / parser round trip and `expect`.
-/
import SyModel.Json
namespace SyModel.Json

theorem digit_facts : ∀ d, d < 10 →
    isDigit (digitByte d) = true ∧ (digitByte d).toNat - 48 = d ∧ (0 < d → digitByte d ≠ 48) := by
  decide

theorem printNat_lt {n : Nat} (h : n < 10) : printNat n = [digitByte n] := by
  rw [printNat]; simp [h]

theorem printNat_ge {n : Nat} (h : ¬ n < 10) : printNat n = printNat (n / 10) ++ [digitByte (n % 10)] := by
  rw [printNat]; simp [h]

theorem parseDigits_stop (acc : Nat) (rest : Bytes) (h : startsDigit rest = false) :
    parseDigits acc rest = (acc, rest) := by
  cases rest with
  | nil => rfl
  | cons b t => simp only [startsDigit] at h; simp [parseDigits, h]

theorem parseDigits_print (n : Nat) : ∀ rest, parseDigits 0 (printNat n ++ rest) = parseDigits n rest := by
  induction n using Nat.strongRecOn with
  | _ n ih =>
    intro rest
    by_cases h : n < 10
    · obtain ⟨h1, h2, _⟩ := digit_facts n h
      rw [printNat_lt h]
      simp only [List.cons_append, List.nil_append, parseDigits, h1, ↓reduceIte, h2]
      simp
    · have hd : n % 10 < 10 := Nat.mod_lt _ (by omega)
      obtain ⟨h1, h2, _⟩ := digit_facts (n % 10) hd
      rw [printNat_ge h, List.append_assoc, ih (n / 10) (by omega)]
      simp only [List.cons_append, List.nil_append, parseDigits, h1, ↓reduceIte, h2]
      have : n / 10 * 10 + n % 10 = n := by omega
      rw [this]

theorem printNat_head (n : Nat) (hn : 0 < n) :
    ∃ b t, printNat n = b :: t ∧ isDigit b = true ∧ b ≠ 48 := by
  induction n using Nat.strongRecOn with
  | _ n ih =>
    by_cases h : n < 10
    · obtain ⟨h1, _, h3⟩ := digit_facts n h
      exact ⟨digitByte n, [], printNat_lt h, h1, h3 hn⟩
    · obtain ⟨b, t, hb, h1, h3⟩ := ih (n / 10) (by omega) (by omega)
      exact ⟨b, t ++ [digitByte (n % 10)], by rw [printNat_ge h, hb]; rfl, h1, h3⟩

theorem printNat_zero : printNat 0 = [48] := by
  rw [printNat_lt (by omega)]; rfl

/-- the round trip: a printed number followed by anything that does not start with a digit
    parses back to the number and leaves exactly the rest. -/
theorem parseNat_print (n : Nat) (rest : Bytes) (h : startsDigit rest = false) :
    parseNat (printNat n ++ rest) = some (n, rest) := by
  by_cases hn : n = 0
  · subst hn
    rw [printNat_zero]
    simp [parseNat, h]
  · obtain ⟨b, t, hb, h1, h3⟩ := printNat_head n (by omega)
    have hp := parseDigits_print n rest
    rw [hb] at hp ⊢
    simp only [List.cons_append] at hp ⊢
    simp only [parseNat, h3, ↓reduceIte, h1, hp, parseDigits_stop n rest h]

theorem expect_append (p rest : Bytes) : expect p (p ++ rest) = some rest := by
  induction p with
  | nil => rfl
  | cons a ps ih => simp [expect, ih]

/-- a printed number never starts with any non-digit byte. -/
theorem printNat_head_digit (n : Nat) : ∃ b t, printNat n = b :: t ∧ isDigit b = true := by
  by_cases hn : n = 0
  · subst hn; exact ⟨48, [], printNat_zero, by decide⟩
  · obtain ⟨b, t, hb, h1, _⟩ := printNat_head n (by omega)
    exact ⟨b, t, hb, h1⟩

end SyModel.Json
