/-
  Run-level lemmas: structure of `plan`, independence of the planned tasks, the hard-link map
  invariant, and the per-task post-condition of a whole fold (`foldl_task_post`).
-/
import SyModel.Lemmas.EngineFrame
import SyModel.Lemmas.EngineWF
namespace SyModel.Engine

/-! ### the planner -/

theorem planFileAct_ne_delete (cfg : Cfg) (m : FileMeta) (o : Option DNode) : planFileAct cfg m o ≠ .delete := by
  unfold planFileAct
  split
  · simp
  · simp
  · simp
  · split
    · split <;> simp
    · split <;> simp

theorem planEntry_rel (cfg : Cfg) (dst : Map DNode) (e : SEntry) : (planEntry cfg dst e).rel = e.rel := by
  unfold planEntry
  split
  · rfl
  · rfl
  · split
    · rfl
    · split <;> rfl
    · split <;> rfl

theorem planEntry_act_ne_delete (cfg : Cfg) (dst : Map DNode) (e : SEntry) :
    (planEntry cfg dst e).act ≠ .delete := by
  unfold planEntry
  split
  · simp only; split <;> simp
  · exact planFileAct_ne_delete _ _ _
  · split
    · simp
    · split
      · simp
      · simp only; split <;> simp
      · simp
    · split
      · exact planFileAct_ne_delete _ _ _
      · simp

theorem mem_planDeletions {f s : List SEntry} {dst : Map DNode} {t : Task} :
    t ∈ planDeletions f s dst ↔
      ∃ p, t = ⟨.delete, p, .nothing⟩ ∧ p ∈ dst.keys ∧ (∀ e ∈ f, e.rel ≠ p) ∧ (∀ e ∈ s, e.rel ≠ p) ∧
        p ∉ ownMetadata := by
  unfold planDeletions
  simp only [List.mem_map, List.mem_filter, Bool.and_eq_true, Bool.not_eq_true', List.any_eq_false,
    beq_iff_eq, List.contains_eq_mem, decide_eq_false_iff_not]
  constructor
  · rintro ⟨p, ⟨hk, ⟨hf, hs⟩, ho⟩, rfl⟩
    exact ⟨p, rfl, hk, hf, hs, ho⟩
  · rintro ⟨p, rfl, hk, hf, hs, ho⟩
    exact ⟨p, ⟨hk, ⟨hf, hs⟩, ho⟩, rfl⟩

theorem planDeletions_act {f s : List SEntry} {dst : Map DNode} {t : Task} (h : t ∈ planDeletions f s dst) :
    t.act = .delete := by
  obtain ⟨p, rfl, _⟩ := mem_planDeletions.1 h; rfl

/-- the plan: one task per selected entry, then the deletions -/
theorem plan_eq (cfg : Cfg) (scan : List SEntry) (dst : Map DNode) :
    plan cfg scan dst = (scanFilter cfg scan).map (planEntry cfg dst) ++
      (if cfg.delete then planDeletions (scanFilter cfg scan) scan dst else []) := by
  unfold plan
  split <;> simp

/-- a planned task with a multi-link file payload comes from a scanned regular file -/
theorem planEntry_file_payload {cfg : Cfg} {dst : Map DNode} {e : SEntry} {m : FileMeta} {n : Nat}
    (h : (planEntry cfg dst e).payload = .file m n) (hn : 1 < n) : e.kind = .file m n := by
  unfold planEntry at h
  split at h
  · cases h
  · rename_i m' n' hk; simp only [Payload.file.injEq] at h; rw [hk, h.1, h.2]
  · split at h
    · cases h
    · split at h <;> cases h
    · split at h
      · simp only [Payload.file.injEq] at h; omega
      · cases h

/-! ### independence of planned tasks -/

/-- `b` runs after `a`: if `a` is a create/update/skip then `b` has another path and, when a
    delete, is not at or above `a`'s path; deletes come last -/
def Later (a b : Task) : Prop :=
  (a.act ≠ .delete → b.rel ≠ a.rel ∧ (b.act = .delete → isPrefix b.rel a.rel = false)) ∧
  (a.act = .delete → b.act = .delete)

theorem pairwise_of_forall_mem {α} {R : α → α → Prop} (l : List α) (h : ∀ a ∈ l, ∀ b ∈ l, R a b) :
    l.Pairwise R := by
  induction l with
  | nil => exact List.Pairwise.nil
  | cons x xs ih =>
    rw [List.pairwise_cons]
    exact ⟨fun b hb => h x (List.mem_cons_self ..) b (List.mem_cons_of_mem _ hb),
      ih (fun a ha b hb => h a (List.mem_cons_of_mem _ ha) b (List.mem_cons_of_mem _ hb))⟩

/-- a planned deletion is neither at nor above a scanned path -/
theorem deletion_not_above {cfg : Cfg} {scan : List SEntry} {dst : Map DNode} (hc : ParentClosed scan)
    (hroot : dst.get? [] = none) {t : Task} (ht : t ∈ planDeletions (scanFilter cfg scan) scan dst)
    {e : SEntry} (he : e ∈ scan) : isPrefix t.rel e.rel = false := by
  obtain ⟨p, rfl, hk, _, hs, _⟩ := mem_planDeletions.1 ht
  cases hp : isPrefix p e.rel with
  | false => rfl
  | true =>
    exfalso
    have hne : p ≠ e.rel := fun h => hs e he h.symm
    have hp0 : p ≠ [] := by
      intro h; subst h
      exact ((Map.mem_keys_iff dst []).1 hk) hroot
    obtain ⟨d, hd, hr, _⟩ := hc.anc he hp0 hp hne
    exact hs d hd hr

theorem plan_pairwise (cfg : Cfg) (scan : List SEntry) (dst : Map DNode) (hu : UniqueRels scan)
    (hdel : cfg.delete = true → ParentClosed scan ∧ dst.get? [] = none) :
    (plan cfg scan dst).Pairwise Later := by
  rw [plan_eq, List.pairwise_append]
  refine ⟨?_, ?_, ?_⟩
  · rw [List.pairwise_map]
    apply List.Pairwise.imp _ (hu.sublist (scanFilter_sublist cfg scan))
    intro a b hab
    refine ⟨fun _ => ⟨?_, fun hd => absurd hd (planEntry_act_ne_delete _ _ _)⟩,
      fun hd => absurd hd (planEntry_act_ne_delete _ _ _)⟩
    rw [planEntry_rel, planEntry_rel]; exact fun h => hab h.symm
  · apply pairwise_of_forall_mem
    intro a ha b hb
    by_cases hd : cfg.delete = true
    · simp only [hd, ↓reduceIte] at ha hb
      exact ⟨fun hn => absurd (planDeletions_act ha) hn, fun _ => planDeletions_act hb⟩
    · simp only [hd, Bool.false_eq_true, ↓reduceIte, List.not_mem_nil] at ha
  · intro a ha b hb
    obtain ⟨e, he, rfl⟩ := List.mem_map.1 ha
    by_cases hd : cfg.delete = true
    · simp only [hd, ↓reduceIte] at hb
      obtain ⟨hc, hroot⟩ := hdel hd
      have hes := mem_of_mem_scanFilter he
      refine ⟨fun _ => ⟨?_, fun _ => ?_⟩, fun hd => absurd hd (planEntry_act_ne_delete _ _ _)⟩
      · rw [planEntry_rel]
        obtain ⟨p, rfl, _, _, hs, _⟩ := mem_planDeletions.1 hb
        exact fun h => hs e hes h.symm
      · rw [planEntry_rel]; exact deletion_not_above hc hroot hb hes
    · simp only [hd, Bool.false_eq_true, ↓reduceIte, List.not_mem_nil] at hb

/-! ### the hard-link map invariant -/

/-- link-group consistency on task payloads -/
def InoConsistentT (S : List Task) : Prop :=
  ∀ a ∈ S, ∀ b ∈ S, ∀ m n m' n', a.payload = .file m n → b.payload = .file m' n' →
    1 < n → 1 < n' → m.ino = m'.ino → SameData m m'

theorem plan_inoConsistent {cfg : Cfg} {scan : List SEntry} {dst : Map DNode} (h : InoConsistent scan) :
    InoConsistentT (plan cfg scan dst) := by
  have key : ∀ t ∈ plan cfg scan dst, ∀ m n, t.payload = .file m n → 1 < n →
      ∃ e ∈ scan, e.kind = .file m n := by
    intro t ht m n hp hn
    rw [plan_eq] at ht
    rcases List.mem_append.1 ht with ht | ht
    · obtain ⟨e, he, rfl⟩ := List.mem_map.1 ht
      exact ⟨e, mem_of_mem_scanFilter he, planEntry_file_payload hp hn⟩
    · split at ht
      · obtain ⟨p, rfl, _⟩ := mem_planDeletions.1 ht; cases hp
      · cases ht
  intro a ha b hb m n m' n' hpa hpb hn hn' hino
  obtain ⟨e, he, hk⟩ := key a ha m n hpa hn
  obtain ⟨e', he', hk'⟩ := key b hb m' n' hpb hn'
  exact h e he e' he' m n m' n' hk hk' hn hn' hino

theorem Matches.of_sameData {cfg : Cfg} {d m m' : FileMeta} (h : Matches cfg d m') (hs : SameData m m') :
    Matches cfg d m := by
  obtain ⟨a, b, c, e⟩ := h
  obtain ⟨a', b', c', e'⟩ := hs
  exact ⟨a.trans a'.symm, b.trans b'.symm, c.trans c'.symm, by rw [e, e']⟩

/-- every registered first path of a link group holds a regular file with the data of a group
    member from `S`, and no remaining task can disturb it -/
def LinkOK (cfg : Cfg) (S : List Task) (w : World) (rest : List Task) : Prop :=
  ∀ x ∈ w.linkMap,
    (∃ m n d, (∃ t ∈ S, t.payload = .file m n ∧ 1 < n) ∧ m.ino = x.1 ∧
        w.dst.get? x.2.1 = some (.file d) ∧ Matches cfg d m) ∧
    (∀ t ∈ rest, t.rel ≠ x.2.1 ∧ (t.act = .delete → isPrefix t.rel x.2.1 = false))

theorem execTask_linkOK {cfg : Cfg} (hdry : cfg.dryRun = false) (flt : Faults) {S : List Task} {st : Exec}
    {t : Task} {rest : List Task} (ht : t ∈ S) (hrest : ∀ b ∈ rest, Later t b)
    (h : LinkOK cfg S st.w (t :: rest)) : LinkOK cfg S (execTask cfg flt st t).w rest := by
  -- old entries survive any step that leaves the map and their node alone
  have keep : ∀ w' : World, w'.linkMap = st.w.linkMap →
      (∀ x ∈ st.w.linkMap, w'.dst.get? x.2.1 = st.w.dst.get? x.2.1) → LinkOK cfg S w' rest := by
    intro w' hl hg x hx
    rw [hl] at hx
    obtain ⟨⟨m, n, d, hs, hi, hn, hm⟩, hr⟩ := h x hx
    exact ⟨⟨m, n, d, hs, hi, by rw [hg x hx]; exact hn, hm⟩, fun b hb => hr b (List.mem_cons_of_mem _ hb)⟩
  have hne : ∀ x ∈ st.w.linkMap, t.rel ≠ x.2.1 ∧ (t.act = .delete → isPrefix t.rel x.2.1 = false) :=
    fun x hx => (h x hx).2 t (List.mem_cons_self ..)
  have hpres : ∀ x ∈ st.w.linkMap, st.w.dst.get? x.2.1 ≠ none := by
    intro x hx
    obtain ⟨⟨_, _, d, _, _, hn, _⟩, _⟩ := h x hx
    rw [hn]; simp
  -- the frame lemma gives the node part for every outcome
  have hnode : ∀ x ∈ st.w.linkMap, (execTask cfg flt st t).w.dst.get? x.2.1 = st.w.dst.get? x.2.1 := by
    intro x hx
    rcases execTask_frame cfg flt st t x.2.1 (hne x hx).1 (hne x hx).2 with h1 | ⟨a, _⟩
    · exact h1
    · exact absurd a (hpres x hx)
  rcases execTask_cases cfg flt st t with ⟨g, _, _, _, he⟩ | ⟨hf, w', hp, he⟩ | ⟨_, _, he⟩
  · exact keep _ (by rw [he]) hnode
  · by_cases hs : t.act = .skip
    · exact keep _ (by rw [he]; rw [perform_skip hs] at hp; cases hp; rfl) hnode
    · by_cases hd : t.act = .delete
      · exact keep _ (by rw [he]; exact (perform_delete_spec hd hdry hp).1) hnode
      · have hp' := hp
        rw [perform_cu hs hd hdry] at hp'
        have hnode' : ∀ x ∈ st.w.linkMap, w'.dst.get? x.2.1 = st.w.dst.get? x.2.1 := by
          intro x hx; have := hnode x hx; rw [he] at this; exact this
        cases hpl : t.payload with
        | nothing => exact keep _ (by rw [he]; rw [performCU_nothing hpl hp']) hnode
        | dir => exact keep _ (by rw [he]; exact (performCU_dir hpl hp').2) hnode
        | symlink text => exact keep _ (by rw [he]; exact (performCU_symlink hpl hp').2) hnode
        | file m n =>
          rcases performCU_file hpl hp' with ⟨node, hget, hmat, _, ⟨hl, _⟩ | ⟨⟨i, hl⟩, hn, _, _⟩⟩ | ⟨x, fm, _, _, _, _, _, _, _, hl, _⟩
          · exact keep _ (by rw [he]; exact hl) hnode
          · rw [he]
            intro x hx
            simp only at hx
            rw [hl] at hx
            rcases List.mem_cons.1 hx with rfl | hx
            · refine ⟨⟨m, n, node, ⟨t, ht, hpl, hn⟩, rfl, hget, hmat⟩, fun b hb => ?_⟩
              exact (hrest b hb).1 hd
            · obtain ⟨⟨m', n', d, hs', hi, hn', hm⟩, hr⟩ := h x hx
              exact ⟨⟨m', n', d, hs', hi, by rw [hnode' x hx]; exact hn', hm⟩,
                fun b hb => hr b (List.mem_cons_of_mem _ hb)⟩
          · exact keep _ (by rw [he]; exact hl) hnode
  · exact keep _ (by rw [he]) (fun _ _ => by rw [he])

theorem foldl_linkOK {cfg : Cfg} (hdry : cfg.dryRun = false) (flt : Faults) {S : List Task}
    (ts rest : List Task) (st : Exec) (hsub : ∀ t ∈ ts, t ∈ S) (hpw : (ts ++ rest).Pairwise Later)
    (h : LinkOK cfg S st.w (ts ++ rest)) : LinkOK cfg S (ts.foldl (execTask cfg flt) st).w rest := by
  induction ts generalizing st with
  | nil => exact h
  | cons t ts ih =>
    rw [List.foldl_cons]
    rw [List.cons_append, List.pairwise_cons] at hpw
    apply ih _ (fun t' ht' => hsub t' (List.mem_cons_of_mem _ ht')) hpw.2
    exact execTask_linkOK hdry flt (hsub t (List.mem_cons_self ..)) hpw.1 h

/-! ### (F2) at fold level -/

/-- what a completed task establishes at its own path, relative to the state just before it -/
structure LocalPost (cfg : Cfg) (before : Option DNode) (t : Task) (after : Option DNode) : Prop where
  skip : (t.act = .skip ∨ t.payload = .nothing) → after = before
  dir : t.act ≠ .skip → t.payload = .dir → t.rel ≠ [] → after = some .dir
  dir_pre : t.act ≠ .skip → t.payload = .dir → t.rel ≠ [] →
    before = none ∨ before = some .dir ∨ (t.act = .update ∧ ∃ s, before = some (.symlink s))
  symlink : t.act ≠ .skip → ∀ text, t.payload = .symlink text → after = some (.symlink text)
  file : t.act ≠ .skip → ∀ m n, t.payload = .file m n →
    ∃ d, after = some (.file d) ∧ Matches cfg d m ∧
      (cfg.hardlinks = false → ∀ o, before = some (.file o) → d.ino = o.ino)

theorem execTask_post {cfg : Cfg} (hdry : cfg.dryRun = false) (flt : Faults) {S : List Task}
    (hino : cfg.hardlinks = true → InoConsistentT S) {st : Exec} {t : Task} {rest : List Task}
    (ht : t ∈ S) (hnd : t.act ≠ .delete) (hlink : LinkOK cfg S st.w (t :: rest))
    (hok : (execTask cfg flt st t).b.errors = st.b.errors) :
    LocalPost cfg (st.w.dst.get? t.rel) t ((execTask cfg flt st t).w.dst.get? t.rel) := by
  obtain ⟨_, w', hp, he⟩ := execTask_ok_of_errors hok
  rw [he]
  by_cases hs : t.act = .skip
  · rw [perform_skip hs] at hp; cases hp
    exact ⟨fun _ => rfl, fun h => absurd hs h, fun h => absurd hs h, fun h => absurd hs h, fun h => absurd hs h⟩
  · rw [perform_cu hs hnd hdry] at hp
    refine ⟨fun h => ?_, fun _ hpl hne => ?_, fun _ hpl hne => ?_, fun _ text hpl => ?_, fun _ m n hpl => ?_⟩
    · rcases h with h | h
      · exact absurd h hs
      · rw [performCU_nothing h hp]
    · exact (performCU_dir hpl hp).1 hne
    · exact performCU_dir_pre hpl hp hne
    · exact (performCU_symlink hpl hp).1
    · rcases performCU_file hpl hp with ⟨node, hget, hmat, hi, _⟩ | ⟨x, fm, hhl, hn, _, hx, hxi, hfirst, hget, _, _⟩
      · exact ⟨node, hget, hmat, fun _ => hi⟩
      · obtain ⟨⟨m', n', d, ⟨t', ht', hpl', hn'⟩, hi', hd, hmat⟩, _⟩ := hlink x hx
        rw [hfirst] at hd
        simp only [Option.some.injEq, DNode.file.injEq] at hd
        subst hd
        have hsd : SameData m m' := hino hhl t ht t' ht' m n m' n' hpl hpl' hn hn' (hxi.symm.trans hi'.symm)
        exact ⟨fm, hget, hmat.of_sameData hsd, fun h => by rw [hhl] at h; cases h⟩

/-- what a completed task of a fold establishes at its own path in the *final* state, relative
    to the *initial* destination -/
structure TaskPost (cfg : Cfg) (dst0 : Map DNode) (ts : List Task) (t : Task) (after : Option DNode) : Prop where
  skip : (t.act = .skip ∨ t.payload = .nothing) →
    after = dst0.get? t.rel ∨
      (dst0.get? t.rel = none ∧ after = some .dir ∧ t.rel ≠ [] ∧
        ∃ t' ∈ ts, isPrefix t.rel t'.rel = true ∧ t'.rel ≠ t.rel ∧ t'.act ≠ .delete ∧ t'.act ≠ .skip)
  dir : t.act ≠ .skip → t.payload = .dir → t.rel ≠ [] → after = some .dir
  dir_pre : t.act ≠ .skip → t.payload = .dir → t.rel ≠ [] →
    dst0.get? t.rel = none ∨ dst0.get? t.rel = some .dir ∨
      (t.act = .update ∧ ∃ s, dst0.get? t.rel = some (.symlink s))
  symlink : t.act ≠ .skip → ∀ text, t.payload = .symlink text → after = some (.symlink text)
  file : t.act ≠ .skip → ∀ m n, t.payload = .file m n →
    ∃ d, after = some (.file d) ∧ Matches cfg d m ∧
      (cfg.hardlinks = false → ∀ o, dst0.get? t.rel = some (.file o) → d.ino = o.ino)

theorem foldl_task_post {cfg : Cfg} (hdry : cfg.dryRun = false) (flt : Faults) {ts pre post : List Task}
    {t : Task} (hts : ts = pre ++ t :: post) (hpw : ts.Pairwise Later)
    (hino : cfg.hardlinks = true → InoConsistentT ts) (st0 : Exec) (hl0 : st0.w.linkMap = [])
    (hnd : t.act ≠ .delete)
    (hok : (execTask cfg flt (pre.foldl (execTask cfg flt) st0) t).b.errors
            = (pre.foldl (execTask cfg flt) st0).b.errors) :
    TaskPost cfg st0.w.dst ts t ((ts.foldl (execTask cfg flt) st0).w.dst.get? t.rel) := by
  have hmem : t ∈ ts := by rw [hts]; simp
  have hpw' := hpw
  rw [hts, List.pairwise_append] at hpw'
  obtain ⟨_, hpwt, hcross⟩ := hpw'
  rw [List.pairwise_cons] at hpwt
  have hpre : ∀ a ∈ pre, a.rel ≠ t.rel ∧ (a.act = .delete → isPrefix a.rel t.rel = false) := by
    intro a ha
    have hl := hcross a ha t (List.mem_cons_self ..)
    have had : a.act ≠ .delete := fun h => hnd (hl.2 h)
    exact ⟨fun h => (hl.1 had).1 h.symm, fun h => absurd h had⟩
  have hpost : ∀ b ∈ post, b.rel ≠ t.rel ∧ (b.act = .delete → isPrefix b.rel t.rel = false) :=
    fun b hb => (hpwt.1 b hb).1 hnd
  have hl1 : LinkOK cfg ts (pre.foldl (execTask cfg flt) st0).w (t :: post) := by
    apply foldl_linkOK hdry flt pre (t :: post) st0
    · intro a ha; rw [hts]; exact List.mem_append_left _ ha
    · rw [← hts]; exact hpw
    · intro x hx; rw [hl0] at hx; cases hx
  have lp := execTask_post hdry flt hino hmem hnd hl1 hok
  have f1 := foldl_frame cfg flt pre st0 t.rel hpre
  have f2 := foldl_frame cfg flt post (execTask cfg flt (pre.foldl (execTask cfg flt) st0) t) t.rel hpost
  have hfold : ts.foldl (execTask cfg flt) st0
      = post.foldl (execTask cfg flt) (execTask cfg flt (pre.foldl (execTask cfg flt) st0) t) := by
    rw [hts, List.foldl_append, List.foldl_cons]
  rw [hfold]
  -- a present node at `t.rel` after the task survives the rest
  have keep : ∀ v, (execTask cfg flt (pre.foldl (execTask cfg flt) st0) t).w.dst.get? t.rel = some v →
      (post.foldl (execTask cfg flt) (execTask cfg flt (pre.foldl (execTask cfg flt) st0) t)).w.dst.get? t.rel = some v := by
    intro v hv
    rcases f2 with h2 | ⟨a, _⟩
    · rw [h2]; exact hv
    · rw [hv] at a; cases a
  refine ⟨fun h => ?_, fun hs hpl hne => keep _ (lp.dir hs hpl hne), fun hs hpl hne => ?_,
    fun hs text hpl => keep _ (lp.symlink hs text hpl), fun hs m n hpl => ?_⟩
  · have e2 := lp.skip h
    rcases f1 with h1 | ⟨a1, b1, c1, t1, ht1, d1⟩
    · rcases f2 with h2 | ⟨a2, b2, c2, t2, ht2, d2⟩
      · exact Or.inl (h2.trans (e2.trans h1))
      · refine Or.inr ⟨by rw [← h1, ← e2]; exact a2, b2, c2, t2, ?_, d2.1, (hpost t2 ht2).1, d2.2⟩
        rw [hts]; exact List.mem_append_right _ (List.mem_cons_of_mem _ ht2)
    · rcases f2 with h2 | ⟨a2, _⟩
      · refine Or.inr ⟨a1, by rw [h2, e2]; exact b1, c1, t1, ?_, d1.1, (hpre t1 ht1).1, d1.2⟩
        rw [hts]; exact List.mem_append_left _ ht1
      · rw [e2, b1] at a2; cases a2
  · have hb := lp.dir_pre hs hpl hne
    rcases f1 with h1 | ⟨a1, _⟩
    · rw [← h1]; exact hb
    · exact Or.inl a1
  · obtain ⟨d, hd, hm, hi⟩ := lp.file hs m n hpl
    refine ⟨d, keep _ hd, hm, fun hh o ho => hi hh o ?_⟩
    rcases f1 with h1 | ⟨a1, _⟩
    · rw [h1]; exact ho
    · rw [ho] at a1; cases a1

/-! ### members of one link group share one node (`-H`) -/

/-- the link map only grows, by entries for inodes that were not registered yet -/
theorem execTask_linkMap (cfg : Cfg) (flt : Faults) (st : Exec) (t : Task) :
    (execTask cfg flt st t).w.linkMap = st.w.linkMap ∨
    ∃ y, (execTask cfg flt st t).w.linkMap = y :: st.w.linkMap ∧ st.w.linkMap.find? (·.1 == y.1) = none := by
  rcases execTask_cases cfg flt st t with ⟨g, _, _, _, he⟩ | ⟨_, w', hp, he⟩ | ⟨_, _, he⟩
  · rw [he]; exact Or.inl rfl
  · rw [he]
    by_cases hdry : cfg.dryRun = true
    · rw [perform_dry cfg hdry] at hp; cases hp; exact Or.inl rfl
    · simp only [Bool.not_eq_true] at hdry
      by_cases hs : t.act = .skip
      · rw [perform_skip hs] at hp; cases hp; exact Or.inl rfl
      · by_cases hd : t.act = .delete
        · exact Or.inl (perform_delete_spec hd hdry hp).1
        · rw [perform_cu hs hd hdry] at hp
          cases hpl : t.payload with
          | nothing => rw [performCU_nothing hpl hp]; exact Or.inl rfl
          | dir => exact Or.inl (performCU_dir hpl hp).2
          | symlink text => exact Or.inl (performCU_symlink hpl hp).2
          | file m n =>
            rcases performCU_file hpl hp with ⟨_, _, _, _, ⟨hl, _⟩ | ⟨⟨i, hl⟩, _, _, hf⟩⟩ | ⟨_, _, _, _, _, _, _, _, _, hl, _⟩
            · exact Or.inl hl
            · exact Or.inr ⟨_, hl, hf⟩
            · exact Or.inl hl
  · rw [he]; exact Or.inl rfl

theorem execTask_find_stable (cfg : Cfg) (flt : Faults) (st : Exec) (t : Task) (i : Nat) (x : Nat × Path × Nat)
    (h : st.w.linkMap.find? (·.1 == i) = some x) :
    (execTask cfg flt st t).w.linkMap.find? (·.1 == i) = some x := by
  rcases execTask_linkMap cfg flt st t with hl | ⟨y, hl, hy⟩
  · rw [hl]; exact h
  · rw [hl, List.find?_cons]
    have hne : (y.1 == i) = false := by
      cases hyi : (y.1 == i) with
      | false => rfl
      | true =>
        have : y.1 = i := by simpa using hyi
        rw [this, h] at hy; cases hy
    rw [hne]; exact h

/-- a shared node pair (`p` and the registered first path `x.2.1` of inode `i`) survives tasks
    that own neither path -/
theorem foldl_share (cfg : Cfg) (flt : Faults) (ts : List Task) (st : Exec) (p : Path) (i : Nat)
    (x : Nat × Path × Nat) (hf : st.w.linkMap.find? (·.1 == i) = some x)
    (heq : st.w.dst.get? p = st.w.dst.get? x.2.1) (hp : st.w.dst.get? p ≠ none)
    (hts : ∀ t ∈ ts, (t.rel ≠ p ∧ (t.act = .delete → isPrefix t.rel p = false)) ∧
      (t.rel ≠ x.2.1 ∧ (t.act = .delete → isPrefix t.rel x.2.1 = false))) :
    (ts.foldl (execTask cfg flt) st).w.linkMap.find? (·.1 == i) = some x ∧
    (ts.foldl (execTask cfg flt) st).w.dst.get? p = (ts.foldl (execTask cfg flt) st).w.dst.get? x.2.1 := by
  induction ts generalizing st with
  | nil => exact ⟨hf, heq⟩
  | cons t ts ih =>
    rw [List.foldl_cons]
    obtain ⟨⟨a1, a2⟩, ⟨b1, b2⟩⟩ := hts t (List.mem_cons_self ..)
    have e1 : (execTask cfg flt st t).w.dst.get? p = st.w.dst.get? p := by
      rcases execTask_frame cfg flt st t p a1 a2 with h | ⟨h, _⟩
      · exact h
      · exact absurd h hp
    have e2 : (execTask cfg flt st t).w.dst.get? x.2.1 = st.w.dst.get? x.2.1 := by
      rcases execTask_frame cfg flt st t x.2.1 b1 b2 with h | ⟨h, _⟩
      · exact h
      · rw [← heq] at h; exact absurd h hp
    exact ih _ (execTask_find_stable cfg flt st t i x hf) (by rw [e1, e2]; exact heq) (by rw [e1]; exact hp)
      (fun t' ht' => hts t' (List.mem_cons_of_mem _ ht'))

/-- a completed `-H` group member ends up as a name of the registered first path of its inode -/
theorem foldl_task_share {cfg : Cfg} (hdry : cfg.dryRun = false) (flt : Faults) {ts pre post : List Task}
    {t : Task} (hts : ts = pre ++ t :: post) (hpw : ts.Pairwise Later) (st0 : Exec)
    (hl0 : st0.w.linkMap = []) (hnd : t.act ≠ .delete) (hs : t.act ≠ .skip) {m : FileMeta} {n : Nat}
    (hpl : t.payload = .file m n) (hhl : cfg.hardlinks = true) (hn : 1 < n)
    (hok : (execTask cfg flt (pre.foldl (execTask cfg flt) st0) t).b.errors
            = (pre.foldl (execTask cfg flt) st0).b.errors) :
    ∃ x, (ts.foldl (execTask cfg flt) st0).w.linkMap.find? (·.1 == m.ino) = some x ∧
      (ts.foldl (execTask cfg flt) st0).w.dst.get? t.rel = (ts.foldl (execTask cfg flt) st0).w.dst.get? x.2.1 := by
  have hmem : t ∈ ts := by rw [hts]; simp
  have hpw' := hpw
  rw [hts, List.pairwise_append] at hpw'
  obtain ⟨_, hpwt, _⟩ := hpw'
  rw [List.pairwise_cons] at hpwt
  have hpost : ∀ b ∈ post, b.rel ≠ t.rel ∧ (b.act = .delete → isPrefix b.rel t.rel = false) :=
    fun b hb => (hpwt.1 b hb).1 hnd
  have hl1 : LinkOK cfg ts (pre.foldl (execTask cfg flt) st0).w (t :: post) := by
    apply foldl_linkOK hdry flt pre (t :: post) st0
    · intro a ha; rw [hts]; exact List.mem_append_left _ ha
    · rw [← hts]; exact hpw
    · intro x hx; rw [hl0] at hx; cases hx
  have hl2 := execTask_linkOK hdry flt hmem hpwt.1 hl1
  have hfold : ts.foldl (execTask cfg flt) st0
      = post.foldl (execTask cfg flt) (execTask cfg flt (pre.foldl (execTask cfg flt) st0) t) := by
    rw [hts, List.foldl_append, List.foldl_cons]
  rw [hfold]
  -- the local fact, right after the task
  have loc : ∃ x, (execTask cfg flt (pre.foldl (execTask cfg flt) st0) t).w.linkMap.find? (·.1 == m.ino) = some x ∧
      (execTask cfg flt (pre.foldl (execTask cfg flt) st0) t).w.dst.get? t.rel
        = (execTask cfg flt (pre.foldl (execTask cfg flt) st0) t).w.dst.get? x.2.1 ∧
      (execTask cfg flt (pre.foldl (execTask cfg flt) st0) t).w.dst.get? t.rel ≠ none := by
    obtain ⟨_, w', hp, he⟩ := execTask_ok_of_errors hok
    rw [he]
    rw [perform_cu hs hnd hdry] at hp
    have hact : t.act = .create ∨ t.act = .update := by
      cases ha : t.act with
      | create => exact Or.inl rfl
      | update => exact Or.inr rfl
      | skip => exact absurd ha hs
      | delete => exact absurd ha hnd
    rcases performCU_file hpl hp with ⟨node, hget, _, _, ⟨_, hno⟩ | ⟨⟨i, hl⟩, _, _, _⟩⟩ | ⟨x, fm, _, _, hfind, hx, _, hfirst, hget, hl, _⟩
    · exact absurd ⟨hhl, hn⟩ (hno hact)
    · refine ⟨(m.ino, t.rel, i), ?_, rfl, by rw [hget]; simp⟩
      simp only; rw [hl, List.find?_cons]; simp
    · refine ⟨x, by simp only; rw [hl]; exact hfind, ?_, by rw [hget]; simp⟩
      by_cases hxt : x.2.1 = t.rel
      · rw [hxt]
      · rcases (performCU_frame hp).1 x.2.1 hxt with h | ⟨h, _⟩
        · simp only; rw [hget, h, hfirst]
        · rw [hfirst] at h; cases h
  obtain ⟨x, hf, heq, hpres⟩ := loc
  have hxmem : x ∈ (execTask cfg flt (pre.foldl (execTask cfg flt) st0) t).w.linkMap :=
    List.mem_of_find?_eq_some hf
  have hx2 := (hl2 x hxmem).2
  exact ⟨x, foldl_share cfg flt post _ t.rel m.ino x hf heq hpres (fun b hb => ⟨hpost b hb, hx2 b hb⟩)⟩

/-! ### which tasks completed -/

theorem execTask_errors (cfg : Cfg) (flt : Faults) (st : Exec) (t : Task) :
    (execTask cfg flt st t).b.errors = st.b.errors ∨
    (execTask cfg flt st t).b.errors = (t.act, t.rel) :: st.b.errors := by
  rcases execTask_cases cfg flt st t with ⟨g, _, _, _, he⟩ | ⟨_, w', _, he⟩ | ⟨_, _, he⟩
  · rw [he]; exact Or.inr rfl
  · rw [he]; exact Or.inl (Book.ok_errors _ _)
  · rw [he]; exact Or.inr rfl

theorem execTask_errors_len (cfg : Cfg) (flt : Faults) (st : Exec) (t : Task) :
    st.b.errors.length ≤ (execTask cfg flt st t).b.errors.length := by
  rcases execTask_errors cfg flt st t with h | h <;> rw [h] <;> simp

theorem foldl_errors_len (cfg : Cfg) (flt : Faults) (ts : List Task) (st : Exec) :
    st.b.errors.length ≤ (ts.foldl (execTask cfg flt) st).b.errors.length := by
  induction ts generalizing st with
  | nil => exact Nat.le_refl _
  | cons t ts ih => rw [List.foldl_cons]; exact Nat.le_trans (execTask_errors_len cfg flt st t) (ih _)

/-- task `t` of the list ran to completion (it was neither faulted nor did it fail) -/
def TaskOk (cfg : Cfg) (flt : Faults) (ts : List Task) (st0 : Exec) (t : Task) : Prop :=
  ∃ pre post, ts = pre ++ t :: post ∧
    (execTask cfg flt (pre.foldl (execTask cfg flt) st0) t).b.errors = (pre.foldl (execTask cfg flt) st0).b.errors

/-- when the fold adds no error every task completed -/
theorem taskOk_of_no_errors {cfg : Cfg} {flt : Faults} {ts : List Task} {st0 : Exec}
    (h : (ts.foldl (execTask cfg flt) st0).b.errors.length = st0.b.errors.length) {t : Task} (ht : t ∈ ts) :
    TaskOk cfg flt ts st0 t := by
  obtain ⟨pre, post, hts⟩ := List.append_of_mem ht
  refine ⟨pre, post, hts, ?_⟩
  rw [hts, List.foldl_append, List.foldl_cons] at h
  have h1 := foldl_errors_len cfg flt pre st0
  have h2 := execTask_errors_len cfg flt (pre.foldl (execTask cfg flt) st0) t
  have h3 := foldl_errors_len cfg flt post (execTask cfg flt (pre.foldl (execTask cfg flt) st0) t)
  rcases execTask_errors cfg flt (pre.foldl (execTask cfg flt) st0) t with he | he
  · exact he
  · rw [he] at h3 h2; simp only [List.length_cons] at h3; omega

theorem execTask_events (cfg : Cfg) (flt : Faults) (st : Exec) (t : Task) :
    ((execTask cfg flt st t).b.events = st.b.events ∧
        (execTask cfg flt st t).b.errors = (t.act, t.rel) :: st.b.errors) ∨
    ((execTask cfg flt st t).b.events = (t.act, t.rel) :: st.b.events ∧
        (execTask cfg flt st t).b.errors = st.b.errors) := by
  rcases execTask_cases cfg flt st t with ⟨g, _, _, _, he⟩ | ⟨_, w', _, he⟩ | ⟨_, _, he⟩
  · rw [he]; exact Or.inl ⟨rfl, rfl⟩
  · rw [he]; exact Or.inr ⟨Book.ok_events _ _, Book.ok_errors _ _⟩
  · rw [he]; exact Or.inl ⟨rfl, rfl⟩

/-- every event of the fold was produced by a task that completed -/
theorem taskOk_of_event {cfg : Cfg} {flt : Faults} (ts : List Task) (st0 : Exec) (ev : Act × Path)
    (h : ev ∈ (ts.foldl (execTask cfg flt) st0).b.events) :
    ev ∈ st0.b.events ∨ ∃ t, TaskOk cfg flt ts st0 t ∧ ev = (t.act, t.rel) := by
  induction ts generalizing st0 with
  | nil => exact Or.inl h
  | cons t ts ih =>
    rw [List.foldl_cons] at h
    rcases ih _ h with h1 | ⟨t', ⟨pre, post, hts, hok⟩, hev⟩
    · rcases execTask_events cfg flt st0 t with ⟨he, _⟩ | ⟨he, herr⟩
      · rw [he] at h1; exact Or.inl h1
      · rw [he] at h1
        rcases List.mem_cons.1 h1 with h2 | h2
        · exact Or.inr ⟨t, ⟨[], ts, rfl, herr⟩, h2⟩
        · exact Or.inl h2
    · refine Or.inr ⟨t', ⟨t :: pre, post, by rw [hts]; rfl, ?_⟩, hev⟩
      simpa [List.foldl_cons] using hok

/-- conversely a completed task has its event, a failed one its error -/
theorem event_of_taskOk {cfg : Cfg} {flt : Faults} {ts : List Task} {st0 : Exec} {t : Task}
    (h : TaskOk cfg flt ts st0 t) : (t.act, t.rel) ∈ (ts.foldl (execTask cfg flt) st0).b.events := by
  obtain ⟨pre, post, hts, hok⟩ := h
  have mono : ∀ (l : List Task) (s : Exec) ev, ev ∈ s.b.events → ev ∈ (l.foldl (execTask cfg flt) s).b.events := by
    intro l
    induction l with
    | nil => intro s ev h; exact h
    | cons a l ih =>
      intro s ev h
      rw [List.foldl_cons]
      apply ih
      rcases execTask_events cfg flt s a with ⟨he, _⟩ | ⟨he, _⟩ <;> rw [he]
      · exact h
      · exact List.mem_cons_of_mem _ h
  rw [hts, List.foldl_append, List.foldl_cons]
  apply mono
  rcases execTask_events cfg flt (pre.foldl (execTask cfg flt) st0) t with ⟨_, he⟩ | ⟨he, _⟩
  · rw [he] at hok
    have := congrArg List.length hok
    simp at this
  · rw [he]; exact List.mem_cons_self ..

/-- every task is in the events or in the errors -/
theorem task_accounted {cfg : Cfg} {flt : Faults} (ts : List Task) (st0 : Exec) {t : Task} (ht : t ∈ ts) :
    (t.act, t.rel) ∈ (ts.foldl (execTask cfg flt) st0).b.events ∨
    (t.act, t.rel) ∈ (ts.foldl (execTask cfg flt) st0).b.errors := by
  have mono : ∀ (l : List Task) (s : Exec) ev,
      (ev ∈ s.b.events → ev ∈ (l.foldl (execTask cfg flt) s).b.events) ∧
      (ev ∈ s.b.errors → ev ∈ (l.foldl (execTask cfg flt) s).b.errors) := by
    intro l
    induction l with
    | nil => intro s ev; exact ⟨id, id⟩
    | cons a l ih =>
      intro s ev
      rw [List.foldl_cons]
      rcases execTask_events cfg flt s a with ⟨he, he'⟩ | ⟨he, he'⟩
      · exact ⟨fun h => (ih _ ev).1 (he ▸ h), fun h => (ih _ ev).2 (he' ▸ List.mem_cons_of_mem _ h)⟩
      · exact ⟨fun h => (ih _ ev).1 (he ▸ List.mem_cons_of_mem _ h), fun h => (ih _ ev).2 (he' ▸ h)⟩
  obtain ⟨pre, post, hts⟩ := List.append_of_mem ht
  rw [hts, List.foldl_append, List.foldl_cons]
  rcases execTask_events cfg flt (pre.foldl (execTask cfg flt) st0) t with ⟨_, he⟩ | ⟨he, _⟩
  · exact Or.inr ((mono post _ _).2 (he ▸ List.mem_cons_self ..))
  · exact Or.inl ((mono post _ _).1 (he ▸ List.mem_cons_self ..))

/-! ### the run -/

/-- the state after the parallel section of a run that was not refused -/
def finalExec (cfg : Cfg) (flt : Faults) (scan : List SEntry) (dst : Map DNode) (n : Nat) : Exec :=
  (plan cfg scan dst).foldl (execTask cfg flt) (initExec dst n)

theorem runF_of_not_refused {cfg : Cfg} {flt : Faults} {scan : List SEntry} {dst : Map DNode} {n : Nat}
    (h : (runF cfg flt scan dst n).refused = false) :
    (runF cfg flt scan dst n).dst = (finalExec cfg flt scan dst n).w.dst ∧
    (runF cfg flt scan dst n).events = (finalExec cfg flt scan dst n).b.events.reverse ∧
    (runF cfg flt scan dst n).errors = (finalExec cfg flt scan dst n).b.errors.reverse ∧
    (runF cfg flt scan dst n).created = (finalExec cfg flt scan dst n).b.created ∧
    (runF cfg flt scan dst n).updated = (finalExec cfg flt scan dst n).b.updated ∧
    (runF cfg flt scan dst n).deleted = (finalExec cfg flt scan dst n).b.deleted ∧
    (runF cfg flt scan dst n).skipped = (finalExec cfg flt scan dst n).b.skipped ∧
    (runF cfg flt scan dst n).bytes = (finalExec cfg flt scan dst n).w.bytes ∧
    (runF cfg flt scan dst n).exit = (if (finalExec cfg flt scan dst n).b.errors.isEmpty then 0 else 1) := by
  unfold runF at h ⊢
  simp only at h ⊢
  split
  · rename_i hg; simp [hg] at h
  · exact ⟨rfl, rfl, rfl, rfl, rfl, rfl, rfl, rfl, rfl⟩

theorem runF_refused_iff {cfg : Cfg} {flt : Faults} {scan : List SEntry} {dst : Map DNode} {n : Nat} :
    (runF cfg flt scan dst n).refused =
      guardRefuses cfg ((plan cfg scan dst).filter (·.act == .delete)).length (destCount dst) := by
  unfold runF
  simp only
  split
  · rename_i hg; rw [hg]
  · rename_i hg; simp only [Bool.not_eq_true] at hg; rw [hg]

theorem runF_exit_zero {cfg : Cfg} {flt : Faults} {scan : List SEntry} {dst : Map DNode} {n : Nat}
    (h : (runF cfg flt scan dst n).exit = 0) :
    (runF cfg flt scan dst n).refused = false ∧ (finalExec cfg flt scan dst n).b.errors = [] := by
  have hr : (runF cfg flt scan dst n).refused = false := by
    unfold runF at h ⊢
    simp only at h ⊢
    split
    · rename_i hg; simp [hg] at h
    · rfl
  refine ⟨hr, ?_⟩
  have := (runF_of_not_refused hr).2.2.2.2.2.2.2.2
  rw [this] at h
  by_cases he : (finalExec cfg flt scan dst n).b.errors.isEmpty = true
  · simpa using he
  · simp [he] at h

/-- the per-entry post-condition of a run, for every selected entry whose task completed -/
theorem run_task_post {cfg : Cfg} (hdry : cfg.dryRun = false) (flt : Faults) (scan : List SEntry)
    (dst : Map DNode) (n : Nat) (hu : UniqueRels scan)
    (hdel : cfg.delete = true → ParentClosed scan ∧ dst.get? [] = none)
    (hino : cfg.hardlinks = true → InoConsistent scan) {e : SEntry}
    (hok : TaskOk cfg flt (plan cfg scan dst) (initExec dst n) (planEntry cfg dst e)) :
    TaskPost cfg dst (plan cfg scan dst) (planEntry cfg dst e)
      ((finalExec cfg flt scan dst n).w.dst.get? e.rel) := by
  obtain ⟨pre, post, hts, hok⟩ := hok
  have := foldl_task_post hdry flt hts (plan_pairwise cfg scan dst hu hdel)
    (fun h => plan_inoConsistent (hino h)) (initExec dst n) rfl (planEntry_act_ne_delete _ _ _) hok
  rw [planEntry_rel] at this
  exact this

theorem planEntry_mem_plan {cfg : Cfg} {scan : List SEntry} {dst : Map DNode} {e : SEntry}
    (he : e ∈ scanFilter cfg scan) : planEntry cfg dst e ∈ plan cfg scan dst := by
  rw [plan_eq]; exact List.mem_append_left _ (List.mem_map_of_mem he)

/-! ### a run without errors is the fault-free run -/

theorem execTask_eq_noFaults_of_ok {cfg : Cfg} {flt : Faults} {st : Exec} {t : Task}
    (h : (execTask cfg flt st t).b.errors = st.b.errors) :
    execTask cfg flt st t = execTask cfg noFaults st t := by
  obtain ⟨_, w', hp, he⟩ := execTask_ok_of_errors h
  rw [he]
  rcases execTask_cases cfg noFaults st t with ⟨g, hf, _⟩ | ⟨_, w'', hp', he'⟩ | ⟨_, hp', _⟩
  · rw [faultOf_noFaults] at hf; cases hf
  · rw [he']; rw [hp] at hp'; cases hp'; rfl
  · rw [hp] at hp'; cases hp'

theorem foldl_eq_noFaults_of_no_errors {cfg : Cfg} {flt : Faults} (ts : List Task) (st : Exec)
    (h : (ts.foldl (execTask cfg flt) st).b.errors.length = st.b.errors.length) :
    ts.foldl (execTask cfg flt) st = ts.foldl (execTask cfg noFaults) st := by
  induction ts generalizing st with
  | nil => rfl
  | cons t ts ih =>
    rw [List.foldl_cons] at h ⊢
    have h1 := execTask_errors_len cfg flt st t
    have h2 := foldl_errors_len cfg flt ts (execTask cfg flt st t)
    have hstep : (execTask cfg flt st t).b.errors = st.b.errors := by
      rcases execTask_errors cfg flt st t with he | he
      · exact he
      · rw [he] at h2; simp only [List.length_cons] at h2; omega
    rw [List.foldl_cons, ← execTask_eq_noFaults_of_ok hstep]
    exact ih _ (by rw [h, hstep])

theorem runF_eq_run_of_exit_zero {cfg : Cfg} {flt : Faults} {scan : List SEntry} {dst : Map DNode} {n : Nat}
    (h : (runF cfg flt scan dst n).exit = 0) : runF cfg flt scan dst n = run cfg scan dst n := by
  have he := (runF_exit_zero h).2
  have hfold : finalExec cfg flt scan dst n = finalExec cfg noFaults scan dst n := by
    unfold finalExec at he ⊢
    exact foldl_eq_noFaults_of_no_errors _ _ (by rw [he]; rfl)
  unfold finalExec at hfold
  unfold run runF
  simp only [hfold]

/-- **`-H`: all transferred members of one source inode are names of one destination node** -/
theorem run_share {cfg : Cfg} (hdry : cfg.dryRun = false) (flt : Faults) (scan : List SEntry)
    (dst : Map DNode) (n : Nat) (hu : UniqueRels scan)
    (hdel : cfg.delete = true → ParentClosed scan ∧ dst.get? [] = none)
    (hhl : cfg.hardlinks = true) {e e' : SEntry} {m m' : FileMeta} {k k' : Nat}
    (hk : e.kind = .file m k) (hk' : e'.kind = .file m' k') (hn : 1 < k) (hn' : 1 < k') (hi : m.ino = m'.ino)
    (hs : planFileAct cfg m (dst.get? e.rel) ≠ .skip) (hs' : planFileAct cfg m' (dst.get? e'.rel) ≠ .skip)
    (hok : TaskOk cfg flt (plan cfg scan dst) (initExec dst n) (planEntry cfg dst e))
    (hok' : TaskOk cfg flt (plan cfg scan dst) (initExec dst n) (planEntry cfg dst e')) :
    (finalExec cfg flt scan dst n).w.dst.get? e.rel = (finalExec cfg flt scan dst n).w.dst.get? e'.rel := by
  have hpe : planEntry cfg dst e = ⟨planFileAct cfg m (dst.get? e.rel), e.rel, .file m k⟩ := by
    unfold planEntry; simp [hk]
  have hpe' : planEntry cfg dst e' = ⟨planFileAct cfg m' (dst.get? e'.rel), e'.rel, .file m' k'⟩ := by
    unfold planEntry; simp [hk']
  obtain ⟨pre, post, hts, hok⟩ := hok
  obtain ⟨pre', post', hts', hok'⟩ := hok'
  have hpw := plan_pairwise cfg scan dst hu hdel
  obtain ⟨x, hf, hx⟩ := foldl_task_share hdry flt hts hpw (initExec dst n) rfl (planEntry_act_ne_delete _ _ _)
    (by rw [hpe]; exact hs) (by rw [hpe]) hhl hn hok
  obtain ⟨x', hf', hx'⟩ := foldl_task_share hdry flt hts' hpw (initExec dst n) rfl (planEntry_act_ne_delete _ _ _)
    (by rw [hpe']; exact hs') (by rw [hpe']) hhl hn' hok'
  rw [planEntry_rel] at hx hx'
  rw [← hi, hf] at hf'
  cases hf'
  unfold finalExec
  rw [hx, hx']

end SyModel.Engine
