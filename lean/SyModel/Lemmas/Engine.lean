/-
  Helper lemmas about the sequential engine model (`SyModel.Engine.Model`).
-/
import SyModel.Engine.Model
namespace SyModel.Engine

/-! ### generic fold invariant -/

theorem foldl_inv {σ τ} (f : σ → τ → σ) (P : σ → Prop) (l : List τ) (s : σ)
    (h0 : P s) (hstep : ∀ s t, t ∈ l → P s → P (f s t)) : P (l.foldl f s) := by
  induction l generalizing s with
  | nil => exact h0
  | cons t l ih =>
    simp only [List.foldl_cons]
    apply ih
    · exact hstep s t (List.mem_cons_self ..) h0
    · intro s' t' ht' hp; exact hstep s' t' (List.mem_cons_of_mem _ ht') hp

/-! ### bookkeeping -/

def countAct (a : Act) (ev : List (Act × Path)) : Nat := (ev.filter (·.1 == a)).length

/-- counters are the event counts by kind -/
structure BookInv (b : Book) : Prop where
  c : b.created = countAct .create b.events
  u : b.updated = countAct .update b.events
  s : b.skipped = countAct .skip b.events
  d : b.deleted = countAct .delete b.events

theorem Book.ok_inv (b : Book) (t : Task) (h : BookInv b) : BookInv (b.ok t) := by
  obtain ⟨hc, hu, hs, hd⟩ := h
  unfold Book.ok
  cases hact : t.act <;> constructor <;> simp [countAct, hc, hu, hs, hd] <;> rfl

theorem Book.fail_inv (b : Book) (t : Task) (h : BookInv b) : BookInv (b.fail t) := by
  obtain ⟨hc, hu, hs, hd⟩ := h
  exact ⟨hc, hu, hs, hd⟩

theorem execTask_book (cfg : Cfg) (flt : Faults) (st : Exec) (t : Task) :
    (∃ w', execTask cfg flt st t = ⟨w', st.b.ok t⟩) ∨
    (∃ w', execTask cfg flt st t = ⟨w', st.b.fail t⟩) := by
  unfold execTask
  split
  · exact Or.inr ⟨_, rfl⟩
  · cases h : perform cfg st.w t with
    | none => exact Or.inr ⟨_, rfl⟩
    | some w' => exact Or.inl ⟨w', rfl⟩

theorem execTask_bookInv (cfg : Cfg) (flt : Faults) (st : Exec) (t : Task) (h : BookInv st.b) :
    BookInv (execTask cfg flt st t).b := by
  rcases execTask_book cfg flt st t with ⟨w', he⟩ | ⟨w', he⟩ <;> rw [he]
  · exact Book.ok_inv _ _ h
  · exact Book.fail_inv _ _ h

theorem foldl_execTask_bookInv (cfg : Cfg) (flt : Faults) (tasks : List Task) (st : Exec) (h : BookInv st.b) :
    BookInv (tasks.foldl (execTask cfg flt) st).b :=
  foldl_inv (execTask cfg flt) (fun s => BookInv s.b) tasks st h (fun s t _ hs => execTask_bookInv cfg flt s t hs)

theorem initExec_bookInv (dst : Map DNode) (n : Nat) : BookInv (initExec dst n).b :=
  ⟨rfl, rfl, rfl, rfl⟩

/-! ### events and errors partition the task list -/

/-- every task is accounted for exactly once: as an event or as an error -/
theorem foldl_execTask_accounted (cfg : Cfg) (flt : Faults) (tasks : List Task) (st : Exec) :
    ((tasks.foldl (execTask cfg flt) st).b.events.length + (tasks.foldl (execTask cfg flt) st).b.errors.length
      = st.b.events.length + st.b.errors.length + tasks.length) := by
  induction tasks generalizing st with
  | nil => simp
  | cons t ts ih =>
    simp only [List.foldl_cons, ih, List.length_cons]
    rcases execTask_book cfg flt st t with ⟨w', he⟩ | ⟨w', he⟩ <;> rw [he]
    · have : (st.b.ok t).events.length = st.b.events.length + 1 ∧ (st.b.ok t).errors = st.b.errors := by
        unfold Book.ok; cases t.act <;> simp
      rw [this.1, this.2]; omega
    · simp only [Book.fail, List.length_cons]; omega

/-! ### dry run -/

theorem perform_dry (cfg : Cfg) (h : cfg.dryRun = true) (w : World) (t : Task) :
    perform cfg w t = some w := by
  unfold perform
  cases hact : t.act <;> simp [h]

theorem execTask_dry (cfg : Cfg) (flt : Faults) (h : cfg.dryRun = true) (st : Exec) (t : Task) :
    execTask cfg flt st t = ⟨st.w, st.b.ok t⟩ := by
  unfold execTask; simp only [h, Bool.true_or, ↓reduceIte]; rw [perform_dry cfg h]

theorem foldl_execTask_dry_w (cfg : Cfg) (flt : Faults) (h : cfg.dryRun = true) (tasks : List Task) (st : Exec) :
    (tasks.foldl (execTask cfg flt) st).w = st.w := by
  induction tasks generalizing st with
  | nil => rfl
  | cons t ts ih => simp only [List.foldl_cons, ih, execTask_dry cfg flt h]

theorem Book.ok_events (b : Book) (t : Task) : (b.ok t).events = (t.act, t.rel) :: b.events := by
  unfold Book.ok; cases t.act <;> rfl

theorem Book.ok_errors (b : Book) (t : Task) : (b.ok t).errors = b.errors := by
  unfold Book.ok; cases t.act <;> rfl

theorem foldl_execTask_dry_events (cfg : Cfg) (flt : Faults) (h : cfg.dryRun = true) (tasks : List Task) (st : Exec) :
    (tasks.foldl (execTask cfg flt) st).b.events = (tasks.map fun t => (t.act, t.rel)).reverse ++ st.b.events := by
  induction tasks generalizing st with
  | nil => simp
  | cons t ts ih =>
    simp only [List.foldl_cons, ih, execTask_dry cfg flt h, Book.ok_events, List.map_cons, List.reverse_cons,
      List.append_assoc, List.singleton_append]

theorem foldl_execTask_dry_errors (cfg : Cfg) (flt : Faults) (h : cfg.dryRun = true) (tasks : List Task) (st : Exec) :
    (tasks.foldl (execTask cfg flt) st).b.errors = st.b.errors := by
  induction tasks generalizing st with
  | nil => rfl
  | cons t ts ih => simp only [List.foldl_cons, ih, execTask_dry cfg flt h, Book.ok_errors]

/-- without failures the event list is the task list, in order -/
theorem foldl_execTask_events_of_no_errors (cfg : Cfg) (flt : Faults) (tasks : List Task) (st : Exec)
    (h : (tasks.foldl (execTask cfg flt) st).b.errors = st.b.errors) :
    (tasks.foldl (execTask cfg flt) st).b.events = (tasks.map fun t => (t.act, t.rel)).reverse ++ st.b.events := by
  induction tasks generalizing st with
  | nil => simp
  | cons t ts ih =>
    simp only [List.foldl_cons] at h ⊢
    -- errors only grow
    have hmono : ∀ (l : List Task) (s : Exec), s.b.errors.length ≤ (l.foldl (execTask cfg flt) s).b.errors.length := by
      intro l
      induction l with
      | nil => intro s; simp
      | cons a l ihl =>
        intro s
        simp only [List.foldl_cons]
        refine Nat.le_trans ?_ (ihl _)
        rcases execTask_book cfg flt s a with ⟨w', he⟩ | ⟨w', he⟩ <;> rw [he]
        · rw [Book.ok_errors]; exact Nat.le_refl _
        · simp [Book.fail]
    rcases execTask_book cfg flt st t with ⟨w', he⟩ | ⟨w', he⟩
    · rw [he] at h ⊢
      have := ih ⟨w', st.b.ok t⟩ (by rw [h, Book.ok_errors])
      rw [this, Book.ok_events]; simp
    · exfalso
      rw [he] at h
      have := hmono ts ⟨w', st.b.fail t⟩
      rw [h] at this
      simp [Book.fail] at this
      omega


/-! ### planning ignores the dry-run flag -/

theorem scanFilterGo_dry (cfg : Cfg) (b : Bool) (scan : List SEntry) (ex : List Path) :
    scanFilterGo { cfg with dryRun := b } scan ex = scanFilterGo cfg scan ex := by
  induction scan generalizing ex with
  | nil => rfl
  | cons e rest ih =>
    simp only [scanFilterGo, ih]
    rfl

theorem plan_dry (cfg : Cfg) (b : Bool) (scan : List SEntry) (dst : Map DNode) :
    plan { cfg with dryRun := b } scan dst = plan cfg scan dst := by
  unfold plan scanFilter
  simp only [scanFilterGo_dry]
  rfl

theorem guardRefuses_dry (cfg : Cfg) (b : Bool) (d c : Nat) :
    guardRefuses { cfg with dryRun := b } d c = guardRefuses cfg d c := rfl

end SyModel.Engine
