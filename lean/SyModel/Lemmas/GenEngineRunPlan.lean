/-
  Lemmas.GenEngineRunPlan — the PLANNING and GUARD stages of the capstone, and the coupling between the planner's world
  (`PlanWorld`, Lemmas/GenPlannerFx) and the executors' world (`XWorld`, Lemmas/GenTransfer):

    1. path texts: the two copies of `compsOf` / `textOf` / `CleanPath` are the same; `textOf (compsOf t) = t`;
    2. `absS` — ONE abstraction `FileEntry ↦ SEntry` for the whole run (the planner's `absE` forgets xattrs, the
       executors' `absPayload` reads them), and `planEntry` against it;
    3. `planLoop_coupled` — the planning loop with every appended task known (`Coupled`);
    4. `coupled_taskE` — the task the round appended, handed to the executors, IS `planEntry cfg dst (absS file)`;
       `coupled_taskOK` — it satisfies the hypotheses of the execution bridge;
    5. deletions: `retainGlue` = the model's `retainDeletions`; the deletion tasks handed to the executors;
    6. the guard: `dest_file_count` on `guardExt` = `destCount`; `guardGlue` = `guardRefuses`.
-/
import SyModel.Lemmas.GenEngineRunGlue
set_option linter.unusedVariables false
set_option linter.unusedSimpArgs false
namespace SyModel.Lemmas.GenEngineRun
open SyModel SyModel.Engine SyModel.Generated SyModel.GenEngineTask
open SyModel.Lemmas.GenEnginePlan
open SyModel.Props.GenEnginePlan (planLoop WalkOrder Walked RL RL_step below_eq_hasLinkAbove EntryOK ModelAt absT absE
  roundOut_eq_planEntry roundOut_dest fix1_source walkOrder_of_index modelAt_self)

namespace PF
export SyModel.Lemmas.GenPlannerFx (PlanWorld runM runM_bind runM_pure compsOf textOf CleanPath compsOf_textOf
  compsOf_injective joinPieces joinPieces_split joinPieces_cons relOf_join stat_join strip_prefix_join followEntry linkPlan
  simpleTask planAt absMeta absEntry absLinkEntry absTarget linkText absAct absTask delsOf delTask CleanKeys extOf
  plan_deletions_run delsOf_abs entryOf_path entryOf_rel)
end PF
namespace TR
export SyModel.Lemmas.GenTransfer (XWorld destOf keyOf keyOf_destOf Readable SrcFile HasInode absPayload metaOf absX
  followMeta)
end TR

/-! ## 1. path texts -/

theorem compsOf_eq : SyModel.Lemmas.GenTransfer.compsOf = PF.compsOf := rfl
theorem textOf_eq : ∀ k, SyModel.Lemmas.GenTransfer.textOf k = PF.textOf k
  | [] => rfl
  | [c] => rfl
  | c :: d :: rest => by
    show c.toList ++ '/' :: SyModel.Lemmas.GenTransfer.textOf (d :: rest) = c.toList ++ '/' :: PF.textOf (d :: rest)
    rw [textOf_eq (d :: rest)]
theorem cleanPath_iff (k : Engine.Path) : SyModel.Lemmas.GenTransfer.CleanPath k ↔ PF.CleanPath k := Iff.rfl

theorem textOf_map_ofList : ∀ l : List Rs.Str, PF.textOf (l.map String.ofList) = PF.joinPieces l
  | [] => rfl
  | [a] => by simp [PF.textOf, PF.joinPieces, SyModel.Lemmas.GenPlannerFx.textOf, SyModel.Lemmas.GenPlannerFx.joinPieces]
  | a :: b :: rest => by
    have ih := textOf_map_ofList (b :: rest)
    simp only [List.map_cons] at ih ⊢
    show (String.ofList a).toList ++ '/' :: PF.textOf (String.ofList b :: rest.map String.ofList) = _
    rw [ih]
    simp [SyModel.Lemmas.GenPlannerFx.joinPieces]

/-- a path text IS the text of its components -/
theorem textOf_compsOf (t : Rs.Path) : PF.textOf (PF.compsOf t) = t := by
  show PF.textOf ((Rs.split t '/').map String.ofList) = t
  rw [textOf_map_ofList, PF.joinPieces_split]

theorem destOf_compsOf (root rel : Rs.Path) : TR.destOf root (PF.compsOf rel) = Rs.join root rel := by
  unfold SyModel.Lemmas.GenTransfer.destOf
  rw [textOf_eq, textOf_compsOf]

theorem rel_ne_nil_of_clean (rel : Rs.Path) (h : PF.CleanPath (PF.compsOf rel)) : rel ≠ [] := by
  intro e
  subst e
  have := h.2 (String.ofList []) (by decide)
  exact this.1 (by simp)

/-! ## 2. ONE abstraction of a scanned entry for the whole run -/

/-- `FileEntry ↦ SEntry`: the relative path's components; a directory; a regular file with the data the executors
    transfer (`metaOf`: content / size / mtime of the file the source path names, the xattrs of the ENTRY, the inode
    group id); a symlink with its text and what it resolves to — for a regular file, what a followed link transfers: the
    target's data, the entry's xattrs, no inode group.  `size` is the scanned size, `excluded = false` (the list is the
    filtered one). -/
def absS (xw : TR.XWorld) (f : EnginePlan.FileEntry) : SEntry :=
  { rel := PF.compsOf f.relative_path,
    kind :=
      if f.is_symlink then
        .symlink (String.ofList (f.symlink_target.getD []))
          (match xw.src f.path with
            | .file sm => .file { content := sm.content, size := sm.size, mtime := sm.mtime,
                                  xattrs := TR.absX xw.valId f.xattrs, ino := 0 }
            | t => t)
      else if f.is_dir then .dir
      else .file (TR.metaOf xw (toE (toXEntry f))) f.nlink,
    size := f.size, excluded := false }

theorem absS_rel (xw : TR.XWorld) (f : EnginePlan.FileEntry) : (absS xw f).rel = PF.compsOf f.relative_path := rfl

theorem absS_kind_dir (xw : TR.XWorld) (f : EnginePlan.FileEntry) (h : (absS xw f).kind = .dir) : f.is_dir = true := by
  unfold absS at h
  simp only at h
  split at h
  · cases h
  · split at h
    · assumption
    · cases h

/-- the walk-order hypothesis of the planning loop from the MODEL's hypotheses on the abstracted list (as
    `GenEnginePlan.walkOrder_of_parentsFirst`, for `absS`) -/
theorem walkOrder_of_absS (xw : TR.XWorld) (files : List EnginePlan.FileEntry)
    (hu : UniqueRels (files.map (absS xw))) (hpf : ParentsFirst (files.map (absS xw)))
    (hnr : ∀ f ∈ files, f.relative_path ≠ []) : WalkOrder [] files := by
  apply walkOrder_of_index
  intro i hi
  simp only [List.nil_append]
  refine ⟨?_, fun f hf => hnr f (List.mem_of_mem_take hf), ?_⟩
  · intro f hf e
    obtain ⟨j, hj, rfl⟩ := List.getElem_of_mem hf
    have hjlen : j < (files.take i).length := hj
    have hji : j < i := by simp at hjlen; omega
    rw [List.getElem_take] at e
    unfold UniqueRels at hu
    rw [List.pairwise_iff_getElem] at hu
    have := hu j i (by simp; omega) (by simpa using hi) hji
    simp only [List.getElem_map, absS_rel] at this
    exact this (by rw [e])
  · intro a ha
    have := hpf i (by simpa using hi) a (by simpa [absS_rel] using ha)
    obtain ⟨d, hd, hdr, hdk⟩ := this
    rw [← List.map_take] at hd
    obtain ⟨f, hf, rfl⟩ := List.mem_map.1 hd
    exact ⟨f, hf, by rw [← absS_rel xw f]; exact hdr, absS_kind_dir xw f hdk⟩

/-- the planner's decision for a regular file reads content, size and mtime only -/
theorem planFileAct_sim (cfg : Cfg) (m m' : FileMeta) (o : Option DNode) (hc : m.content = m'.content)
    (hs : m.size = m'.size) (ht : m.mtime = m'.mtime) : planFileAct cfg m o = planFileAct cfg m' o := by
  unfold planFileAct
  rcases o with _ | (d | _ | s) <;> simp only []
  cases cfg.compare <;> simp [hc, hs, ht]

/-! ## 3. the planning loop with every appended task known -/

/-- two lists of the same length whose elements are pairwise related (core has no `List.Forall₂`) -/
inductive AllPairs {α β : Type} (R : α → β → Prop) : List α → List β → Prop
  | nil : AllPairs R [] []
  | cons {a : α} {b : β} {as : List α} {bs : List β} : R a b → AllPairs R as bs → AllPairs R (a :: as) (b :: bs)

theorem AllPairs.map_eq {α β γ : Type} {R : α → β → Prop} {g : α → γ} {h : β → γ} {as : List α} {bs : List β}
    (hp : AllPairs R as bs) (hr : ∀ a b, a ∈ as → b ∈ bs → R a b → g a = h b) : as.map g = bs.map h := by
  induction hp with
  | nil => rfl
  | cons hab _ ih =>
    simp only [List.map_cons]
    rw [hr _ _ (by simp) (by simp) hab, ih (fun a b ha hb => hr a b (by simp [ha]) (by simp [hb]))]

theorem AllPairs.forall_left {α β : Type} {R : α → β → Prop} {as : List α} {bs : List β} (hp : AllPairs R as bs) :
    ∀ a ∈ as, ∃ b ∈ bs, R a b := by
  induction hp with
  | nil => intro a ha; cases ha
  | cons hab _ ih =>
    intro a ha
    rcases List.mem_cons.1 ha with rfl | ha
    · exact ⟨_, by simp, hab⟩
    · obtain ⟨b, hb, hr⟩ := ih a ha
      exact ⟨b, by simp [hb], hr⟩

/-- `t` is the task the translated round appends for `f`, called with a `replaced_links` for which "below a replaced
    link" is "reached through a destination link" -/
def Coupled (w : PF.PlanWorld) (p : PlannerFx.StrategyPlanner) (self : EnginePlan.SyncEngine) (t : EnginePlan.SyncTask)
    (f : EnginePlan.FileEntry) : Prop :=
  ∃ rl, t = (roundOut w p self f false rl).1 ∧
    belowReplaced rl (Rs.join w.root f.relative_path) = hasLinkAbove w.dst (PF.compsOf f.relative_path)

/-- the planning loop (`GenEnginePlan.planLoop`: the translated round folded over the files) on the composed instance:
    never fails, leaves the world as it was, appends one `Coupled` task per file, in order -/
theorem planLoop_coupled (p : PlannerFx.StrategyPlanner) (self : EnginePlan.SyncEngine) (w : PF.PlanWorld)
    (pl : Rs.Opaque) (rest : List EnginePlan.FileEntry) :
    ∀ (pre : List EnginePlan.FileEntry) (ts : List EnginePlan.SyncTask) (rl : List Rs.Path),
      WalkOrder pre rest → RL w pre rl →
      ∃ ts' rl', PF.runM (planLoop (ext2 p) self w.root pl none rest ts rl) w = (.ok (ts ++ ts', rl'), w) ∧
        AllPairs (Coupled w p self) ts' rest := by
  induction rest with
  | nil =>
    intro pre ts rl _ _
    exact ⟨[], rl, by simp [planLoop], .nil⟩
  | cons f fs ih =>
    intro pre ts rl hwo hrl
    obtain ⟨hwk, hwo'⟩ := hwo
    have hrun : PF.runM (EnginePlan.plan_round (ext2 p) self f w.root pl none ts rl) w =
        (.ok ((), ts ++ [(roundOut w p self f false rl).1], (roundOut w p self f false rl).2), w) :=
      plan_round_run p self f w pl none ts rl
    have hrl1 := RL_step w p self pre rl f false hrl hwk
    obtain ⟨ts', rl', hrun', hc⟩ := ih (pre ++ [f]) (ts ++ [(roundOut w p self f false rl).1]) _ hwo' hrl1
    refine ⟨(roundOut w p self f false rl).1 :: ts', rl', ?_,
      .cons ⟨rl, rfl, below_eq_hasLinkAbove w pre rl f hrl hwk⟩ hc⟩
    simp only [planLoop, PF.runM_bind, hrun, hrun']
    simp

/-! ## 4. what the round appended, handed to the executors -/

theorem fix2_source (w : PF.PlanWorld) (self : EnginePlan.SyncEngine) (file : EnginePlan.FileEntry)
    (t : EnginePlan.SyncTask) (rl : List Rs.Path) : (fix2 w self file t rl).1.source = t.source := by
  unfold fix2 setAct
  split
  · split <;> rfl
  · split <;> rfl

/-- the source entry of the task the round appends: the scanned entry itself — or, for a symlink to a regular file in
    follow mode, the dereferenced entry `plan_symlink` builds -/
def srcOfRound (w : PF.PlanWorld) (self : EnginePlan.SyncEngine) (f : EnginePlan.FileEntry) : EnginePlan.FileEntry :=
  if f.is_symlink then
    match self.symlink_mode with
    | .Follow =>
      match w.metaAt f.path with
      | .ok m => if m.dir then f else ofPEntry (PF.followEntry (toPEntry f) m)
      | .error _ => f
    | _ => f
  else f

theorem roundOut_source (w : PF.PlanWorld) (p : PlannerFx.StrategyPlanner) (self : EnginePlan.SyncEngine)
    (f : EnginePlan.FileEntry) (u : Bool) (rl : List Rs.Path) :
    (roundOut w p self f u rl).1.source = some (srcOfRound w self f) := by
  unfold roundOut
  rw [fix2_source, fix1_source]
  unfold planned srcOfRound ofPTask
  cases hs : f.is_symlink
  · simp
  · simp only [if_true]
    unfold PF.linkPlan toPEngine
    cases hm : self.symlink_mode
    · simp [toPMode, PF.simpleTask]
    · simp only [toPMode, SyModel.Props.GenEnginePlan.toPEntry_path]
      cases hmeta : w.metaAt f.path with
      | error e => simp [PF.simpleTask]
      | ok m => cases hd : m.dir <;> simp [PF.simpleTask, hd]
    · simp [toPMode, PF.simpleTask]

/-- the per-entry hypotheses of the capstone (each clause as in the component bridges) -/
structure FileOK (cfg : Cfg) (ew : EWorld) (v : PlanView) (f : EnginePlan.FileEntry) : Prop where
  /-- the relative path is one a walk produces: no empty component (`CleanPath` of Lemmas/GenTransfer) -/
  clean : PF.CleanPath (PF.compsOf f.relative_path)
  /-- `is_dir` is the lstat kind (src/sync/scanner.rs) -/
  linkNotDir : f.is_symlink = true → f.is_dir = false
  /-- the scanner could read the link (`Readable` of Lemmas/GenTransfer; `EntryOK.target` of GenEnginePlan) -/
  readable : f.is_symlink = true → cfg.links ≠ .skip → f.symlink_target.isSome = true
  /-- the source path is not below the destination root: planner and executors resolve it alike -/
  outside : (planWorldOf ew v).relOf f.path = none
  /-- a regular-file entry still names a regular file with the scanned size and mtime (`SrcFile`; it was just scanned) -/
  fresh : f.is_symlink = false → f.is_dir = false →
    ∃ sm, ew.xw.src f.path = .file sm ∧ sm.size = f.size ∧ sm.mtime = f.modified
  /-- `HasInode` of Lemmas/GenTransfer -/
  inode : f.is_symlink = false → f.is_dir = false → cfg.hardlinks = true → 1 < f.nlink → f.inode.isSome = true

section coupling
variable (cfg : Cfg) (ew : EWorld) (v : PlanView) (f : EnginePlan.FileEntry)

theorem stat_outside (p : Rs.Path) (h : (planWorldOf ew v).relOf p = none) : (planWorldOf ew v).stat p = ew.xw.src p := by
  unfold SyModel.Lemmas.GenPlannerFx.PlanWorld.stat
  rw [h]
  rfl

theorem links_engOf : cfg.links = SyModel.Lemmas.GenPlannerFx.absLinkMode (toPMode (engOf cfg).symlink_mode) := by
  cases h : cfg.links <;> simp [engOf, modeOfLinks, toPMode, SyModel.Lemmas.GenPlannerFx.absLinkMode, h]

theorem modeOf_plannerOf : cfg.compare = SyModel.Lemmas.GenPlannerFx.modeOf (plannerOf cfg) := by
  cases h : cfg.compare <;> simp [SyModel.Lemmas.GenPlannerFx.modeOf, plannerOf, h]

theorem fromCli_plannerOf : SyModel.Lemmas.GenPlannerFx.FromCli (plannerOf cfg) := ⟨rfl, rfl⟩

/-- the per-entry hypotheses of the planning bridge follow -/
theorem entryOK_of_fileOK (h : FileOK cfg ew v f) :
    EntryOK (planWorldOf ew v) (plannerOf cfg) (engOf cfg) cfg f where
  links := links_engOf cfg
  cmp := modeOf_plannerOf cfg
  cli := fromCli_plannerOf cfg
  linkNotDir := h.linkNotDir
  target := by
    intro hs hm
    have hne : cfg.links ≠ .skip := by
      intro e
      simp [engOf, modeOfLinks, e] at hm
    exact Option.isSome_iff_exists.1 (h.readable hs hne)
  readable := by
    intro _ hs hd
    obtain ⟨sm, hsm, _⟩ := h.fresh hs hd
    exact ⟨sm, by rw [stat_outside ew v f.path h.outside, hsm]⟩

theorem task_eq {a b : Task} (h1 : a.act = b.act) (h2 : a.rel = b.rel) (h3 : a.payload = b.payload) : a = b := by
  cases a; cases b; simp_all

/-- (A) the planner's ACTION is the same against the planner-side abstraction `absE` (no xattrs) and against `absS` -/
theorem planEntry_act_absE_absS (h : FileOK cfg ew v f) (M : Map DNode) :
    (planEntry cfg M (absE (planWorldOf ew v) f)).act = (planEntry cfg M (absS ew.xw f)).act := by
  unfold planEntry absE absS
  cases hs : f.is_symlink
  · simp only [Bool.false_eq_true, if_false]
    unfold SyModel.Lemmas.GenPlannerFx.absEntry
    simp only [SyModel.Props.GenEnginePlan.toPEntry_is_dir, SyModel.Props.GenEnginePlan.toPEntry_relative_path]
    rcases Bool.eq_false_or_eq_true f.is_dir with hd | hd
    · simp only [hd, if_true]
    · simp only [hd, Bool.false_eq_true, if_false]
      obtain ⟨sm, hsm, hsz, hmt⟩ := h.fresh hs hd
      apply planFileAct_sim
      · simp [SyModel.Lemmas.GenPlannerFx.absMeta, SyModel.Lemmas.GenPlannerFx.PlanWorld.contentAt,
          stat_outside ew v f.path h.outside, hsm, SyModel.Lemmas.GenTransfer.metaOf, toE, toXEntry]
      · simp [SyModel.Lemmas.GenPlannerFx.absMeta, hsm, SyModel.Lemmas.GenTransfer.metaOf, toE, toXEntry, hsz, toPEntry]
      · simp [SyModel.Lemmas.GenPlannerFx.absMeta, hsm, SyModel.Lemmas.GenTransfer.metaOf, toE, toXEntry, hmt, toPEntry]
  · simp only [if_true]
    unfold SyModel.Lemmas.GenPlannerFx.absLinkEntry
    simp only [SyModel.Props.GenEnginePlan.toPEntry_path, stat_outside ew v f.path h.outside]
    cases cfg.links
    · rfl
    · cases hsrc : ew.xw.src f.path with
      | dangling => rfl
      | dir => rfl
      | file d =>
        simp only [SyModel.Lemmas.GenPlannerFx.absTarget]
        exact planFileAct_sim cfg _ _ _ rfl rfl rfl
    · rfl

theorem srcOfRound_cases (h : FileOK cfg ew v f) :
    srcOfRound (planWorldOf ew v) (engOf cfg) f = f ∨
    (f.is_symlink = true ∧ cfg.links = .follow ∧ ∃ d, ew.xw.src f.path = .file d ∧
      srcOfRound (planWorldOf ew v) (engOf cfg) f =
        ofPEntry (SyModel.Lemmas.GenPlannerFx.followEntry (toPEntry f) ⟨false, d.mtime, d.size⟩)) := by
  unfold srcOfRound
  cases hs : f.is_symlink
  · left; rfl
  · simp only [if_true]
    cases hl : cfg.links
    · left; simp [engOf, modeOfLinks, hl]
    · simp only [engOf, modeOfLinks, hl, SyModel.Lemmas.GenPlannerFx.PlanWorld.metaAt,
        stat_outside ew v f.path h.outside]
      cases hsrc : ew.xw.src f.path with
      | dangling => left; rfl
      | dir => left; rfl
      | file d => right; exact ⟨trivial, trivial, d, rfl, rfl⟩
    · left; simp [engOf, modeOfLinks, hl]

/-- (B) what the executors transfer for the round's source entry IS the payload of `planEntry` against `absS` -/
theorem payload_coupled (h : FileOK cfg ew v f) (M : Map DNode) :
    TR.absPayload cfg ew.xw (toE (toXEntry (srcOfRound (planWorldOf ew v) (engOf cfg) f))) =
      (planEntry cfg M (absS ew.xw f)).payload := by
  rcases srcOfRound_cases cfg ew v f h with he | ⟨hs, hl, d, hsrc, he⟩
  · rw [he]
    unfold SyModel.Lemmas.GenTransfer.absPayload planEntry absS
    cases hs : f.is_symlink
    · simp only [toE, toXEntry, hs, Bool.false_eq_true, if_false]
      cases hd : f.is_dir
      · rfl
      · rfl
    · simp only [toE, toXEntry, hs, if_true]
      cases hl : cfg.links
      · simp only []
        obtain ⟨t, ht⟩ := Option.isSome_iff_exists.1 (h.readable hs (by rw [hl]; simp))
        rw [ht]
        simp only [Option.getD_some]
        rcases M.get? (PF.compsOf f.relative_path) with _ | (m | _ | s) <;> rfl
      · simp only []
        -- follow mode with `srcOfRound = f`: the link does not resolve to a regular file
        unfold srcOfRound at he
        simp only [hs, if_true, engOf, modeOfLinks, hl, SyModel.Lemmas.GenPlannerFx.PlanWorld.metaAt,
          stat_outside ew v f.path h.outside] at he
        cases hsrc : ew.xw.src f.path with
        | dangling => rfl
        | dir => rfl
        | file d =>
          exfalso
          rw [hsrc] at he
          simp only [Bool.false_eq_true, if_false] at he
          have := congrArg EnginePlan.FileEntry.is_symlink he
          simp [ofPEntry, SyModel.Lemmas.GenPlannerFx.followEntry, hs] at this
      · rfl
  · rw [he]
    have hd := h.linkNotDir hs
    unfold SyModel.Lemmas.GenTransfer.absPayload planEntry absS
    simp only [toE, toXEntry, ofPEntry, SyModel.Lemmas.GenPlannerFx.followEntry, toPEntry, hs, hd, hl, hsrc,
      Bool.false_eq_true, if_false, if_true, SyModel.Lemmas.GenTransfer.metaOf, Option.getD_none]

theorem absAct_toXAct (a : EnginePlan.SyncAction) :
    GenEngineTask.absAct (toXAct a) = SyModel.Lemmas.GenPlannerFx.absAct (toPAct a) := by cases a <;> rfl

/-- **THE COUPLING.**  The task the translated round appended for `f`, converted field by field to the executors' type and
    read by the executors' abstraction `absTaskE` at the key of `f`, IS the model's `planEntry cfg M (absS f)` — action
    (through the planning bridge `roundOut_eq_planEntry`), key, and payload, xattrs included. -/
theorem coupled_taskE (h : FileOK cfg ew v f) (t : EnginePlan.SyncTask)
    (hc : Coupled (planWorldOf ew v) (plannerOf cfg) (engOf cfg) t f) (M : Map DNode)
    (hM : ModelAt (planWorldOf ew v) M (PF.compsOf f.relative_path)) :
    absTaskE cfg ew.xw (toXTask t) (PF.compsOf f.relative_path) = planEntry cfg M (absS ew.xw f) := by
  obtain ⟨rl, rfl, hcov⟩ := hc
  have habs := roundOut_eq_planEntry (planWorldOf ew v) (plannerOf cfg) (engOf cfg) f cfg
    (entryOK_of_fileOK cfg ew v f h) rl M hcov hM
  apply task_eq
  · show GenEngineTask.absAct (toXAct _) = _
    rw [absAct_toXAct, ← planEntry_act_absE_absS cfg ew v f h M, ← habs]
    rfl
  · rw [planEntry_rel]; rfl
  · show (match (toXTask _).source with | some e => TR.absPayload cfg ew.xw (toE e) | none => Payload.nothing) = _
    simp only [toXTask, roundOut_source, Option.map_some]
    exact payload_coupled cfg ew v f h M

/-- … and it satisfies the hypotheses of the execution bridge at that key -/
theorem coupled_taskOK (h : FileOK cfg ew v f) (t : EnginePlan.SyncTask)
    (hc : Coupled (planWorldOf ew v) (plannerOf cfg) (engOf cfg) t f) :
    TaskOK cfg ew.xw (toXTask t) (PF.compsOf f.relative_path) := by
  obtain ⟨rl, rfl, hcov⟩ := hc
  refine ⟨h.clean, ?_, ?_, ?_⟩
  · show (roundOut _ _ _ f false rl).1.dest_path = _
    rw [roundOut_dest, destOf_compsOf]; rfl
  · intro e he
    simp only [toXTask, roundOut_source, Option.map_some, Option.some.injEq] at he
    subst he
    rcases srcOfRound_cases cfg ew v f h with hq | ⟨hs, hl, d, hsrc, hq⟩
    · rw [hq]
      refine ⟨fun hs hne => h.readable hs hne, fun hs hd => ?_, fun hs hd hh hn => h.inode hs hd hh hn⟩
      obtain ⟨sm, hsm, _⟩ := h.fresh hs hd
      exact ⟨sm, hsm⟩
    · rw [hq]
      refine ⟨fun hs' => ?_, fun _ _ => ⟨d, hsrc⟩, fun _ _ _ hn => ?_⟩
      · simp [toE, toXEntry, ofPEntry, SyModel.Lemmas.GenPlannerFx.followEntry] at hs'
      · simp [toE, toXEntry, ofPEntry, SyModel.Lemmas.GenPlannerFx.followEntry] at hn
  · intro _
    simp [toXTask, roundOut_source]

end coupling

/-! ## 5. deletions -/

theorem textOf_eq_iff (k : Engine.Path) (hk : PF.CleanPath k) (n : Rs.Path) (hn : PF.compsOf n = [String.ofList n]) :
    PF.textOf k = n ↔ k = [String.ofList n] := by
  constructor
  · intro h; rw [← PF.compsOf_textOf k hk, h, hn]
  · intro h; subst h; simp [SyModel.Lemmas.GenPlannerFx.textOf]

/-- the TRANSLATED `is_own_metadata_file` on a key's text is the model's `ownMetadata.contains` on the key -/
theorem own_textOf (k : Engine.Path) (hk : PF.CleanPath k) :
    EngineGuard.is_own_metadata_file (PF.textOf k) = ownMetadata.contains k := by
  rw [SyModel.Props.GenEngineGuard.is_own_metadata_file_iff, Bool.eq_iff_iff]
  simp only [SyModel.Props.GenEngineGuard.ownNames, ownMetadata, List.contains_cons, List.contains_nil, Bool.or_false,
    Bool.or_eq_true, beq_iff_eq]
  rw [textOf_eq_iff k hk _ (by decide), textOf_eq_iff k hk _ (by decide), textOf_eq_iff k hk _ (by decide)]
  simp only [String.ofList_toList]

/-- `scanned_paths.contains(rel)` on a key's text is "some scanned entry has this key" -/
theorem scanned_textOf (k : Engine.Path) (hk : PF.CleanPath k) (sp : List Rs.Path) (scan : List SEntry)
    (hsp : sp.map PF.compsOf = scan.map (·.rel)) : sp.contains (PF.textOf k) = scan.any (·.rel == k) := by
  rw [Bool.eq_iff_iff]
  simp only [List.contains_eq_mem, decide_eq_true_eq, List.any_eq_true, beq_iff_eq]
  constructor
  · intro h
    have : k ∈ sp.map PF.compsOf := List.mem_map.2 ⟨_, h, PF.compsOf_textOf k hk⟩
    rw [hsp] at this
    obtain ⟨e, he, hr⟩ := List.mem_map.1 this
    exact ⟨e, he, hr⟩
  · rintro ⟨e, he, hr⟩
    have : k ∈ scan.map (·.rel) := List.mem_map.2 ⟨e, he, hr⟩
    rw [← hsp] at this
    obtain ⟨t, ht, htk⟩ := List.mem_map.1 this
    have : t = PF.textOf k := PF.compsOf_injective (by rw [htk, PF.compsOf_textOf k hk])
    rw [← this]; exact ht

theorem mem_delsOf (w : PF.PlanWorld) (srcs : List PlannerFx.FileEntry) (t : PlannerFx.SyncTask)
    (h : t ∈ PF.delsOf srcs (w.scanOf w.root)) : ∃ k n, (k, n) ∈ w.dst ∧ t = PF.delTask (w.entryOf k n) := by
  unfold SyModel.Lemmas.GenPlannerFx.delsOf SyModel.Lemmas.GenPlannerFx.PlanWorld.scanOf at h
  simp only [if_true, List.mem_map, List.mem_filter] at h
  obtain ⟨e, ⟨⟨kv, hkv, rfl⟩, _⟩, rfl⟩ := h
  exact ⟨kv.1, kv.2, hkv, rfl⟩

theorem mem_keys_of_mem {α : Type} {m : Map α} {k : Engine.Path} {n : α} (h : (k, n) ∈ m) : k ∈ m.keys :=
  List.mem_map.2 ⟨(k, n), h, rfl⟩

/-- a deletion task of `plan_deletions`, read by the planner-side abstraction -/
theorem absTask_delTask (w : PF.PlanWorld) (k : Engine.Path) (n : DNode) (hk : PF.CleanPath k) :
    PF.absTask w (PF.delTask (w.entryOf k n)) = ⟨.delete, k, .nothing⟩ := by
  simp [SyModel.Lemmas.GenPlannerFx.absTask, SyModel.Lemmas.GenPlannerFx.delTask, SyModel.Lemmas.GenPlannerFx.absAct,
    PF.entryOf_path, PF.relOf_join, PF.compsOf_textOf k hk]

/-- **the hand-transcribed `retain` IS the model's `retainDeletions`** on what `plan_deletions` returns -/
theorem retainGlue_abs (w : PF.PlanWorld) (hw : PF.CleanKeys w) (srcs : List PlannerFx.FileEntry) (sp : List Rs.Path)
    (scan : List SEntry) (hsp : sp.map PF.compsOf = scan.map (·.rel)) :
    (retainGlue sp w.root (PF.delsOf srcs (w.scanOf w.root))).map (PF.absTask w) =
      SyModel.Props.GenPlannerFx.retainDeletions scan ((PF.delsOf srcs (w.scanOf w.root)).map (PF.absTask w)) := by
  unfold retainGlue SyModel.Props.GenPlannerFx.retainDeletions
  rw [List.filter_map]
  congr 1
  apply List.filter_congr
  intro t ht
  obtain ⟨k, n, hkn, rfl⟩ := mem_delsOf w srcs t ht
  have hk : PF.CleanPath k := hw k (mem_keys_of_mem hkn)
  simp only [Function.comp_apply, absTask_delTask w k n hk]
  simp only [SyModel.Lemmas.GenPlannerFx.delTask, PF.entryOf_path, PF.strip_prefix_join, Rs.unwrap_or,
    Rs.UnwrapOr.unwrap_or, scanned_textOf k hk sp scan hsp, own_textOf k hk]

theorem planDeletions_congr (f1 f2 s : List SEntry) (dst : Map DNode) (h : f1.map (·.rel) = f2.map (·.rel)) :
    planDeletions f1 s dst = planDeletions f2 s dst := by
  unfold planDeletions
  congr 1
  apply List.filter_congr
  intro p _
  have e : ∀ f : List SEntry, f.any (·.rel == p) = (f.map (·.rel)).contains p := by
    intro f; induction f with
    | nil => rfl
    | cons a t ih =>
      simp only [List.any_cons, ih, List.map_cons, List.contains_cons]
      congr 1
      by_cases hq : a.rel = p
      · subst hq; simp
      · have hq' : ¬ p = a.rel := fun e => hq e.symm
        rw [beq_eq_false_iff_ne.2 hq, beq_eq_false_iff_ne.2 hq']
  rw [e f1, e f2, h]

/-- **deletions (stage i, second half).**  The translated `plan_deletions` on the files handed to the planning loop, then
    the `retain`: never fails, changes nothing, and — abstracted — IS the model's `planDeletions` of the filtered scan. -/
theorem deletions_eq_model (cfg : Cfg) (w : PF.PlanWorld) (hw : PF.CleanKeys w) (p : PlannerFx.StrategyPlanner)
    (files : List EnginePlan.FileEntry) (sp : List Rs.Path) (scan : List SEntry) (xw : TR.XWorld)
    (hsp : sp.map PF.compsOf = scan.map (·.rel)) (hfiles : files.map (absS xw) = scanFilter cfg scan) :
    PF.runM (p.plan_deletions PF.extOf (files.map toPEntry) w.root) w =
      (.ok (PF.delsOf (files.map toPEntry) (w.scanOf w.root)), w) ∧
    (retainGlue sp w.root (PF.delsOf (files.map toPEntry) (w.scanOf w.root))).map (PF.absTask w) =
      planDeletions (scanFilter cfg scan) scan w.dst := by
  refine ⟨PF.plan_deletions_run p _ w, ?_⟩
  rw [retainGlue_abs w hw _ sp scan hsp]
  obtain ⟨tasks, hrun, heq⟩ := SyModel.Props.GenPlannerFx.plan_deletions_eq_model p (files.map toPEntry) w hw scan
  rw [PF.plan_deletions_run] at hrun
  cases hrun
  rw [heq]
  apply planDeletions_congr
  rw [← hfiles]
  simp only [List.map_map]
  apply List.map_congr_left
  intro f _
  rfl

/-- a retained deletion task, handed to the executors: the model's deletion task at its key; `TaskOK` -/
theorem deletion_taskE (cfg : Cfg) (ew : EWorld) (v : PlanView) (hw : PF.CleanKeys (planWorldOf ew v))
    (srcs : List PlannerFx.FileEntry) (sp : List Rs.Path) (t : PlannerFx.SyncTask)
    (ht : t ∈ retainGlue sp ew.xw.root (PF.delsOf srcs ((planWorldOf ew v).scanOf ew.xw.root))) :
    absTaskE cfg ew.xw (toXTask (ofPTask t)) (keyOfTask ew.xw.root (toXTask (ofPTask t))) =
      PF.absTask (planWorldOf ew v) t ∧
    TaskOK cfg ew.xw (toXTask (ofPTask t)) (keyOfTask ew.xw.root (toXTask (ofPTask t))) := by
  unfold retainGlue at ht
  obtain ⟨k, n, hkn, rfl⟩ := mem_delsOf (planWorldOf ew v) srcs t (List.mem_filter.1 ht).1
  have hk : PF.CleanPath k := hw k (mem_keys_of_mem hkn)
  have hdp : (toXTask (ofPTask (PF.delTask ((planWorldOf ew v).entryOf k n)))).dest_path = TR.destOf ew.xw.root k := by
    show Rs.join ew.xw.root (PF.textOf k) = _
    unfold SyModel.Lemmas.GenTransfer.destOf
    rw [textOf_eq]
  have hkey : keyOfTask ew.xw.root (toXTask (ofPTask (PF.delTask ((planWorldOf ew v).entryOf k n)))) = k := by
    unfold keyOfTask
    rw [hdp, TR.keyOf_destOf ew.xw.root k hk]
    rfl
  rw [hkey, absTask_delTask _ k n hk]
  refine ⟨rfl, hk, hdp, ?_, ?_⟩
  · intro e he; cases he
  · intro ha
    rcases ha with ha | ha <;> cases ha

/-! ## 6. the guard -/

/-- **the denominator (stage ii).**  The translated `dest_file_count` on `guardExt` IS the model's `destCount` -/
theorem dest_count_eq (w : PF.PlanWorld) (hw : PF.CleanKeys w) :
    PF.runM (EngineGuard.dest_file_count guardExt w.root) w = (.ok (destCount w.dst), w) := by
  have hs : SyModel.Props.GenEngineGuard.runM (guardExt.scanner_scan (guardExt.scanner_Scanner_new w.root)) w =
      (.ok ((w.scanOf w.root).map toGEntry), w) := rfl
  have := SyModel.Props.GenEngineGuard.dest_file_count_eq guardExt w.root w w _ hs
  show SyModel.Props.GenEngineGuard.runM _ w = _
  rw [this]
  congr 2
  unfold destCount SyModel.Lemmas.GenPlannerFx.PlanWorld.scanOf Map.keys
  simp only [if_true, List.map_map]
  rw [List.filter_map, List.filter_map, List.length_map, List.length_map]
  congr 1
  apply List.filter_congr
  intro kv hkv
  have hk : PF.CleanPath kv.1 := hw kv.1 (List.mem_map.2 ⟨kv, hkv, rfl⟩)
  simp only [Function.comp_apply, toGEntry, PF.entryOf_rel]
  rw [← SyModel.Props.GenEngineGuard.is_own_metadata_file_iff, own_textOf kv.1 hk]

/-- **the guard (stage ii).**  The glue's guard — the nesting of the source with the three translated fragments — IS the
    model's `guardRefuses` on the number of deletions and `destCount`, in exact arithmetic (`tie = false`) -/
theorem guardGlue_eq (cfg : Cfg) (htie : cfg.tie = false) (w : PF.PlanWorld) (hw : PF.CleanKeys w)
    (dels : List PlannerFx.SyncTask) :
    (cfg.delete && guardGlue cfg dels w) = guardRefuses cfg dels.length (destCount w.dst) := by
  have h := SyModel.Props.GenGuards.mass_deletion_guard_exact cfg htie (dels.map fun _ => (⟨⟩ : Rs.Opaque))
    (destCount w.dst)
  rw [List.length_map] at h
  rw [h]
  unfold guardGlue
  rw [dest_count_eq w hw]
  cases hd : dels with
  | nil => simp
  | cons a t =>
    cases cfg.delete <;> cases cfg.force <;> simp
    all_goals
      by_cases hc : 0 < destCount w.dst <;> simp [hc]

end SyModel.Lemmas.GenEngineRun
