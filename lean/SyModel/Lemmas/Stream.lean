/-
  Invariant proof for the streaming generator.
-/
import SyModel.Delta.Stream
import SyModel.Lemmas.Delta
namespace SyModel.Delta

/-- Loop invariant (without the loop-head clause). -/
structure SInv (old new : Bytes) (chunk : Nat) (st : SSt) (pre : Bytes) : Prop where
  ops   : applyOps old st.opsRev.reverse = some pre
  data  : pre ++ st.litRev.reverse ++ st.wrest ++ st.fileRest = new
  more  : st.fileRest ≠ [] → 0 < st.bytesRead ∧ chunk ≤ st.wpos + st.wrest.length

theorem sbody_inv {H} [BEq H] (strong : Bytes → H) (old new : Bytes) (cs : List (Block H)) (bs chunk : Nat)
    (hs : CandidatesSound strong old new cs)
    (st : SSt) (x : UInt8) (tl : Bytes) (h : st.wrest = x :: tl) (pre : Bytes)
    (inv : SInv old new chunk st pre) :
    ∃ pre', SInv old new chunk (sbody strong cs bs st x tl) pre' := by
  obtain ⟨hops, hdata, hmore⟩ := inv
  rw [h] at hdata hmore
  have hlit : SInv old new chunk
      { st with wrest := tl, wpos := st.wpos + 1, litRev := x :: st.litRev,
                roll := match (x :: tl).drop bs with
                  | y :: _ => Adler.roll bs st.roll x y
                  | [] => st.roll } pre := by
    refine ⟨hops, ?_, ?_⟩
    · simpa using hdata
    · intro hf; have := hmore hf; simp at this ⊢; omega
  have hfl := applyOps_flush old st.litRev st.opsRev pre hops
  unfold sbody
  simp only
  split
  · rename_i hfull
    have hlen := (hasAtLeast_iff bs (x :: tl)).mp hfull
    split
    · rename_i c hfind
      obtain ⟨hmem, hp⟩ := find?_some_mem hfind
      simp only [Bool.and_eq_true] at hp
      have hinf : (x :: tl).take bs <:+: new :=
        take_infix_of_suffix (pre := pre ++ st.litRev.reverse) (rest := (x :: tl) ++ st.fileRest)
          (by simpa using hdata) bs |> fun hh => by
            rw [List.take_append_of_le_length hlen] at hh; exact hh
      have hr := hs c hmem _ hinf hp.2
      refine ⟨pre ++ st.litRev.reverse ++ (x :: tl).take bs, ?_, ?_, ?_⟩
      · simp only [List.reverse_cons]; exact applyOps_snoc_copy old _ _ _ _ _ hfl hr
      · simp only [List.reverse_nil, List.append_nil]
        rw [List.append_assoc (pre ++ st.litRev.reverse), List.take_append_drop]; exact hdata
      · intro hf; have := hmore hf
        simp only [List.length_drop, List.length_cons] at *; omega
    · exact ⟨pre, hlit⟩
  · split
    · rename_i c hfind
      obtain ⟨hmem, hp⟩ := find?_some_mem hfind
      simp only [Bool.and_eq_true] at hp
      have hinf : (x :: tl) <:+: new := ⟨pre ++ st.litRev.reverse, st.fileRest, by simpa using hdata⟩
      have hr := hs c hmem _ hinf hp.2.2
      refine ⟨pre ++ st.litRev.reverse ++ (x :: tl), ?_, ?_, ?_⟩
      · simp only [List.reverse_cons]; exact applyOps_snoc_copy old _ _ _ _ _ hfl hr
      · simpa using hdata
      · intro hf; have := hmore hf
        simp only [List.length_nil, List.length_cons] at *; omega
    · exact ⟨pre, hlit⟩

theorem srefill_inv (old new : Bytes) (bs chunk : Nat) (hbs : 0 < bs) (hchunk : bs ≤ chunk)
    (st : SSt) (pre : Bytes) (inv : SInv old new chunk st pre) :
    SInv old new chunk (srefill bs chunk st) pre ∧
      ((srefill bs chunk st).wrest = [] → (srefill bs chunk st).fileRest = []) := by
  obtain ⟨hops, hdata, hmore⟩ := inv
  unfold srefill
  split
  · rename_i hc
    refine ⟨⟨hops, ?_, ?_⟩, ?_⟩
    · simp only
      rw [List.append_assoc _ (st.wrest ++ _), List.append_assoc st.wrest, List.take_append_drop,
        ← List.append_assoc]; exact hdata
    · simp only
      intro hf
      have : chunk < st.fileRest.length := by
        have := List.length_pos_iff.mpr hf; simp at this; omega
      simp; omega
    · simp only
      intro hw
      have ht : st.fileRest.take chunk = [] := (List.append_eq_nil_iff.mp hw).2
      have : st.fileRest = [] := by
        rcases List.take_eq_nil_iff.mp ht with h0 | h0
        · omega
        · exact h0
      simp [this]
  · rename_i hc
    refine ⟨⟨hops, hdata, hmore⟩, ?_⟩
    intro hw
    by_cases hf : st.fileRest = []
    · exact hf
    · exfalso
      have := hmore hf
      apply hc
      refine ⟨?_, this.1, ?_⟩
      · rw [hw] at this; simp at this; omega
      · rw [hw, hasAtLeast_false_iff]; simpa using hbs

theorem genStreamGo_spec {H} [BEq H] (strong : Bytes → H) (old new : Bytes) (cs : List (Block H))
    (bs chunk : Nat) (hbs : 0 < bs) (hchunk : bs ≤ chunk)
    (hs : CandidatesSound strong old new cs)
    (st : SSt) (pre : Bytes) (inv : SInv old new chunk st pre)
    (hhead : st.wrest = [] → st.fileRest = []) :
    applyOps old (genStreamGo strong cs bs chunk hbs st) = some new := by
  fun_induction genStreamGo strong cs bs chunk hbs st generalizing pre with
  | case1 st h =>
    have hf := hhead h
    have := applyOps_flush old st.litRev st.opsRev pre inv.ops
    rw [this, ← inv.data, h, hf]; simp
  | case2 st x tl h ih =>
    obtain ⟨pre', inv'⟩ := sbody_inv strong old new cs bs chunk hs st x tl h pre inv
    obtain ⟨inv'', hhead'⟩ := srefill_inv old new bs chunk hbs hchunk _ pre' inv'
    exact ih pre' inv'' hhead'

theorem sinit_inv (old new : Bytes) (bs chunk : Nat) (hbs : 0 < bs) (hchunk : bs ≤ chunk) :
    SInv old new chunk (sinit bs chunk new) [] ∧
      ((sinit bs chunk new).wrest = [] → (sinit bs chunk new).fileRest = []) := by
  unfold sinit
  refine ⟨⟨by simp [applyOps], by simp, ?_⟩, ?_⟩
  · simp only
    intro hf
    have : chunk < new.length := by
      have := List.length_pos_iff.mpr hf; simp at this; omega
    simp; omega
  · simp only
    intro hw
    rcases List.take_eq_nil_iff.mp hw with h0 | h0
    · omega
    · simp [h0]

end SyModel.Delta
