/-
  Case analysis of one path under the repaired code (`Cfg.repaired`).
-/
import SyModel.Lemmas.BisyncSync
namespace SyModel.Bisync

theorem contentEqual_repaired (a b : File) :
    contentEqual .repaired a.entry b.entry = true ↔ a.content = b.content := by
  simp only [contentEqual, Cfg.repaired, File.entry, File.content, Prod.mk.injEq]
  by_cases h : a.size = b.size
  · simp [h]
  · simp [h]

theorem isModified_self (a : File) : isModified a.entry a.meta = false := by
  simp [isModified, File.entry, File.meta]

/-- rows in pairs, and two files that both match their rows agree. -/
def ViewOK (v : View) : Prop :=
  (v.rl = none ↔ v.rr = none) ∧
  ∀ l r rl rr, v.l = some l → v.r = some r → v.rl = some rl → v.rr = some rr →
    isModified l.entry rl = false → isModified r.entry rr = false → l.content = r.content

/-- a path as a successful sync leaves it: the same content on both sides with truthful rows,
    or nothing at all. -/
def Synced (v : View) : Prop :=
  match v.l, v.r with
  | some a, some b => a.content = b.content ∧ v.rl = some a.meta ∧ v.rr = some b.meta
  | none, none => v.rl = none ∧ v.rr = none
  | _, _ => False

theorem Synced.viewOK {v : View} (h : Synced v) : ViewOK v := by
  obtain ⟨l, r, rl, rr⟩ := v
  cases l <;> cases r <;> simp only [Synced] at h
  · obtain ⟨h1, h2⟩ := h; subst h1; subst h2; simp [ViewOK]
  · obtain ⟨h0, h1, h2⟩ := h; subst h1; subst h2
    refine ⟨by simp, ?_⟩
    intro l r rl rr e1 e2 _ _ _ _
    cases e1; cases e2; exact h0

@[simp] theorem File.entry_isDir (f : File) : f.entry.isDir = false := rfl

/-- what each verdict of the classifier means for a path whose rows come in pairs. -/
def CtypeSpec (v : View) : Option ChangeType → Prop
  | none =>
    (v.l = none ∧ v.r = none) ∨
    (∃ a b, v.l = some a ∧ v.r = some b ∧ v.rl = none ∧ v.rr = none ∧ a.content = b.content) ∨
    (∃ a b ra rb, v.l = some a ∧ v.r = some b ∧ v.rl = some ra ∧ v.rr = some rb ∧
      isModified a.entry ra = false ∧ isModified b.entry rb = false) ∨
    (∃ a b ra rb, v.l = some a ∧ v.r = some b ∧ v.rl = some ra ∧ v.rr = some rb ∧
      isModified a.entry ra = true ∧ isModified b.entry rb = true ∧ a.content = b.content)
  | some .newInSource => ∃ a, v.l = some a ∧ v.r = none ∧ v.rl = none ∧ v.rr = none
  | some .newInDest => ∃ b, v.l = none ∧ v.r = some b ∧ v.rl = none ∧ v.rr = none
  | some .modifiedInSource => ∃ a b ra rb, v.l = some a ∧ v.r = some b ∧ v.rl = some ra ∧ v.rr = some rb ∧
      isModified a.entry ra = true ∧ isModified b.entry rb = false
  | some .modifiedInDest => ∃ a b ra rb, v.l = some a ∧ v.r = some b ∧ v.rl = some ra ∧ v.rr = some rb ∧
      isModified a.entry ra = false ∧ isModified b.entry rb = true
  | some .deletedFromSource => ∃ b ra rb, v.l = none ∧ v.r = some b ∧ v.rl = some ra ∧ v.rr = some rb ∧
      isModified b.entry rb = false
  | some .deletedFromDest => ∃ a ra rb, v.l = some a ∧ v.r = none ∧ v.rl = some ra ∧ v.rr = some rb ∧
      isModified a.entry ra = false
  | some .modifiedBoth => ∃ a b ra rb, v.l = some a ∧ v.r = some b ∧ v.rl = some ra ∧ v.rr = some rb ∧
      isModified a.entry ra = true ∧ isModified b.entry rb = true ∧ a.content ≠ b.content
  | some .createCreate => ∃ a b, v.l = some a ∧ v.r = some b ∧ v.rl = none ∧ v.rr = none ∧
      a.content ≠ b.content
  | some .modifyDelete =>
    (∃ a ra rb, v.l = some a ∧ v.r = none ∧ v.rl = some ra ∧ v.rr = some rb ∧ isModified a.entry ra = true) ∨
    (∃ b ra rb, v.l = none ∧ v.r = some b ∧ v.rl = some ra ∧ v.rr = some rb ∧ isModified b.entry rb = true)

theorem ctype_spec (v : View) (hp : v.rl = none ↔ v.rr = none) : CtypeSpec v (v.ctype .repaired) := by
  obtain ⟨l, r, rl, rr⟩ := v
  cases l <;> cases r <;> cases rl <;> cases rr <;> simp at hp <;>
    simp only [View.ctype, classifySingle, Option.map, Option.getD, File.entry_isDir,
      Bool.or_false, Bool.false_eq_true, if_false]
  · simp [CtypeSpec]
  · simp [CtypeSpec]
  · simp [CtypeSpec]
  · split <;> simp_all [CtypeSpec]
  · simp [CtypeSpec]
  · split <;> simp_all [CtypeSpec]
  · split
    · rename_i h; simp [CtypeSpec, (contentEqual_repaired _ _).mp h]
    · rename_i h; rw [contentEqual_repaired] at h; simp [CtypeSpec, h]
  · split
    · rename_i h1 h2; simp [CtypeSpec, h1, h2]
    · rename_i h1 h2; simp [CtypeSpec, h1, h2]
    · rename_i h1 h2; simp [CtypeSpec, h1, h2]
    · rename_i h1 h2
      split
      · rename_i h; simp [CtypeSpec, h1, h2, (contentEqual_repaired _ _).mp h]
      · rename_i h; rw [contentEqual_repaired] at h; simp [CtypeSpec, h1, h2, h]

/-- what the resolver can answer for a conflict. -/
def RcSpec (p : Path) (s d : Option Entry) (stamp : Nat) : Action → Prop
  | .copyToDest q e => q = p ∧ s = some e
  | .copyToSource q e => q = p ∧ d = some e
  | .deleteFromDest q => q = p ∧ s = none
  | .deleteFromSource q => q = p ∧ d = none
  | .renameConflict q a b st => q = p ∧ s = some a ∧ d = some b ∧ st = stamp

theorem rc_spec (strat : Strategy) (p : Path) (s d : Option Entry) (stamp : Nat) :
    RcSpec p s d stamp (resolveConflict strat p s d stamp) := by
  cases strat <;> cases s <;> cases d <;>
    simp only [resolveConflict, resolveByMtime, resolveBySize] <;>
    (repeat' split) <;> simp [RcSpec]

/-- the new files of a path whose action is admissible are in sync. -/
def ActOK (a : Option Action) (l r : Option File) : Prop :=
  match a with
  | none => (l = none ∧ r = none) ∨ (∃ a b, l = some a ∧ r = some b ∧ a.content = b.content)
  | some (.copyToDest ..) => l ≠ none
  | some (.copyToSource ..) => r ≠ none
  | some (.deleteFromSource _) => r = none
  | some (.deleteFromDest _) => l = none
  | some (.renameConflict ..) => l ≠ none

theorem own_synced (now : Nat) (a : Option Action) (l r : Option File) (h : ActOK a l r) :
    Synced ⟨(own now a l r).1, (own now a l r).2,
      rowsOf (own now a l r).1 (own now a l r).2 .source, rowsOf (own now a l r).1 (own now a l r).2 .dest⟩ := by
  cases a with
  | none =>
    rcases h with ⟨rfl, rfl⟩ | ⟨a, b, rfl, rfl, hc⟩
    · simp [own, Synced, rowsOf]
    · simp [own, Synced, rowsOf, hc]
  | some act =>
    cases act <;> simp only [ActOK] at h
    · cases r with
      | none => exact absurd rfl h
      | some f => simp [own, Synced, rowsOf, File.content, File.meta]
    · cases l with
      | none => exact absurd rfl h
      | some f => simp [own, Synced, rowsOf, File.content, File.meta]
    · subst h; simp [own, Synced, rowsOf]
    · subst h; simp [own, Synced, rowsOf]
    · cases l with
      | none => exact absurd rfl h
      | some f => simp [own, Synced, rowsOf]

theorem action_ok (strat : Strategy) (stamp : Nat) (p : Path) (v : View) (hok : ViewOK v) :
    ActOK (v.action .repaired strat stamp p) v.l v.r := by
  have hs := ctype_spec v hok.1
  obtain ⟨l, r, rl, rr⟩ := v
  unfold View.action
  cases hct : View.ctype .repaired ⟨l, r, rl, rr⟩ with
  | none =>
    rw [hct] at hs
    simp only [CtypeSpec] at hs
    simp only [Option.bind_none, ActOK]
    rcases hs with ⟨h1, h2⟩ | ⟨a, b, h1, h2, _, _, hc⟩ | ⟨a, b, ra, rb, h1, h2, h3, h4, m1, m2⟩ |
      ⟨a, b, ra, rb, h1, h2, _, _, _, _, hc⟩
    · exact Or.inl ⟨h1, h2⟩
    · exact Or.inr ⟨a, b, h1, h2, hc⟩
    · exact Or.inr ⟨a, b, h1, h2, hok.2 a b ra rb h1 h2 h3 h4 m1 m2⟩
    · exact Or.inr ⟨a, b, h1, h2, hc⟩
  | some ct =>
    rw [hct] at hs
    simp only [Option.bind_some]
    cases ct <;> simp only [CtypeSpec] at hs <;> simp only [resolveOne]
    · obtain ⟨a, h1, h2, _⟩ := hs; subst h1; subst h2; simp [ActOK]
    · obtain ⟨b, h1, h2, _⟩ := hs; subst h1; subst h2; simp [ActOK]
    · obtain ⟨a, b, ra, rb, h1, h2, _⟩ := hs; subst h1; subst h2; simp [ActOK]
    · obtain ⟨a, b, ra, rb, h1, h2, _⟩ := hs; subst h1; subst h2; simp [ActOK]
    · obtain ⟨b, ra, rb, h1, h2, _⟩ := hs; subst h1; subst h2; simp [ActOK]
    · obtain ⟨a, ra, rb, h1, h2, _⟩ := hs; subst h1; subst h2; simp [ActOK]
    all_goals
      have hr := rc_spec strat p (Option.map File.entry l) (Option.map File.entry r) stamp
      generalize resolveConflict strat p (Option.map File.entry l) (Option.map File.entry r) stamp = act at hr
      cases act <;> simp only [RcSpec] at hr <;> simp only [ActOK]
      · obtain ⟨_, h⟩ := hr; cases r <;> simp at h ⊢
      · obtain ⟨_, h⟩ := hr; cases l <;> simp at h ⊢
      · obtain ⟨_, h⟩ := hr; cases r <;> simp at h ⊢
      · obtain ⟨_, h⟩ := hr; cases l <;> simp at h ⊢
      · obtain ⟨_, h, _⟩ := hr; cases l <;> simp at h ⊢

theorem stepView_synced (strat : Strategy) (stamp now : Nat) (p : Path) (v : View) (hok : ViewOK v) :
    Synced (stepView .repaired strat stamp now p v) :=
  own_synced now _ v.l v.r (action_ok strat stamp p v hok)

/-- a path already in sync is left alone. -/
theorem synced_ctype {v : View} (h : Synced v) : v.ctype .repaired = none := by
  obtain ⟨l, r, rl, rr⟩ := v
  cases l <;> cases r <;> simp only [Synced] at h
  · obtain ⟨h1, h2⟩ := h; subst h1; subst h2; rfl
  · obtain ⟨_, h1, h2⟩ := h; subst h1; subst h2
    simp [View.ctype, classifySingle, isModified_self]

theorem synced_action {v : View} (h : Synced v) (strat : Strategy) (stamp : Nat) (p : Path) :
    v.action .repaired strat stamp p = none := by
  unfold View.action; rw [synced_ctype h]; rfl

theorem synced_stepView {v : View} (h : Synced v) (strat : Strategy) (stamp now : Nat) (p : Path) :
    stepView .repaired strat stamp now p v = v := by
  unfold stepView
  rw [synced_action h]
  obtain ⟨l, r, rl, rr⟩ := v
  cases l <;> cases r <;> simp only [Synced] at h
  · obtain ⟨h1, h2⟩ := h; subst h1; subst h2; rfl
  · obtain ⟨_, h1, h2⟩ := h; subst h1; subst h2; rfl

/-! ### no silent loss, at one path -/

/-- `f` (held on one side of the path) survives at the path itself. -/
def KeptV (now : Nat) (a : Option Action) (l r : Option File) (f : File) : Prop :=
  (∃ g, (own now a l r).1 = some g ∧ g.cid = f.cid) ∨ (∃ g, (own now a l r).2 = some g ∧ g.cid = f.cid)

def SupersededV (v : View) (f : File) : Prop :=
  ∃ rl rr, v.rl = some rl ∧ v.rr = some rr ∧
    ((v.l = some f ∧ isModified f.entry rl = false ∧
        (v.r = none ∨ ∃ g, v.r = some g ∧ isModified g.entry rr = true)) ∨
     (v.r = some f ∧ isModified f.entry rr = false ∧
        (v.l = none ∨ ∃ g, v.l = some g ∧ isModified g.entry rl = true)))

def LoserV (strat : Strategy) (stamp : Nat) (p : Path) (v : View) (f : File) : Prop :=
  ∃ ct, v.ctype .repaired = some ct ∧ ct.isConflict = true ∧
    ((v.l = some f ∧
        (resolveConflict strat p (v.l.map File.entry) (v.r.map File.entry) stamp).discardsLeft = true) ∨
     (v.r = some f ∧
        (resolveConflict strat p (v.l.map File.entry) (v.r.map File.entry) stamp).discardsRight = true))

theorem loss_cases (strat : Strategy) (stamp now : Nat) (p : Path) (v : View)
    (hp : v.rl = none ↔ v.rr = none) (f : File) (hf : v.l = some f ∨ v.r = some f) :
    KeptV now (v.action .repaired strat stamp p) v.l v.r f ∨
    isRen (v.action .repaired strat stamp p) = true ∨
    SupersededV v f ∨ LoserV strat stamp p v f := by
  have hs := ctype_spec v hp
  obtain ⟨l, r, rl, rr⟩ := v
  unfold View.action
  cases hct : View.ctype .repaired ⟨l, r, rl, rr⟩ with
  | none =>
    left
    simp only [Option.bind_none, KeptV, own]
    rcases hf with h | h
    · exact Or.inl ⟨f, h, rfl⟩
    · exact Or.inr ⟨f, h, rfl⟩
  | some ct =>
    rw [hct] at hs
    simp only [Option.bind_some]
    cases ct <;> simp only [CtypeSpec] at hs <;> simp only [resolveOne]
    · -- newInSource
      obtain ⟨a, h1, h2, _⟩ := hs; subst h1; subst h2
      left; simp only [Option.map, KeptV, own]
      rcases hf with h | h
      · exact Or.inl ⟨f, h, rfl⟩
      · cases h
    · obtain ⟨b, h1, h2, _⟩ := hs; subst h1; subst h2
      left; simp only [Option.map, KeptV, own]
      rcases hf with h | h
      · cases h
      · exact Or.inr ⟨f, h, rfl⟩
    · -- modifiedInSource
      obtain ⟨a, b, ra, rb, h1, h2, h3, h4, m1, m2⟩ := hs; subst h1; subst h2; subst h3; subst h4
      rcases hf with h | h
      · left; simp only [Option.map, KeptV, own]; exact Or.inl ⟨f, h, rfl⟩
      · right; right; left
        cases h
        exact ⟨ra, rb, rfl, rfl, Or.inr ⟨rfl, m2, Or.inr ⟨a, rfl, m1⟩⟩⟩
    · obtain ⟨a, b, ra, rb, h1, h2, h3, h4, m1, m2⟩ := hs; subst h1; subst h2; subst h3; subst h4
      rcases hf with h | h
      · right; right; left
        cases h
        exact ⟨ra, rb, rfl, rfl, Or.inl ⟨rfl, m1, Or.inr ⟨b, rfl, m2⟩⟩⟩
      · left; simp only [Option.map, KeptV, own]; exact Or.inr ⟨f, h, rfl⟩
    · -- deletedFromSource
      obtain ⟨b, ra, rb, h1, h2, h3, h4, m⟩ := hs; subst h1; subst h2; subst h3; subst h4
      rcases hf with h | h
      · cases h
      · right; right; left
        cases h
        exact ⟨ra, rb, rfl, rfl, Or.inr ⟨rfl, m, Or.inl rfl⟩⟩
    · obtain ⟨a, ra, rb, h1, h2, h3, h4, m⟩ := hs; subst h1; subst h2; subst h3; subst h4
      rcases hf with h | h
      · right; right; left
        cases h
        exact ⟨ra, rb, rfl, rfl, Or.inl ⟨rfl, m, Or.inl rfl⟩⟩
      · cases h
    all_goals
      -- the three conflict verdicts
      have hr := rc_spec strat p (Option.map File.entry l) (Option.map File.entry r) stamp
      have hl : LoserV strat stamp p ⟨l, r, rl, rr⟩ f ↔
          ((l = some f ∧ (resolveConflict strat p (l.map File.entry) (r.map File.entry) stamp).discardsLeft = true) ∨
           (r = some f ∧ (resolveConflict strat p (l.map File.entry) (r.map File.entry) stamp).discardsRight = true)) := by
        unfold LoserV; rw [hct]; simp [ChangeType.isConflict]
      rw [hl]
      generalize resolveConflict strat p (Option.map File.entry l) (Option.map File.entry r) stamp = act at hr
      cases act <;> simp only [RcSpec] at hr
      · -- copyToSource: the right file stays, the left one is discarded
        rcases hf with h | h
        · right; right; right; exact Or.inl ⟨h, rfl⟩
        · left; obtain ⟨_, hd⟩ := hr; subst h
          simp only [KeptV, own]; exact Or.inr ⟨f, rfl, rfl⟩
      · rcases hf with h | h
        · left; subst h; simp only [KeptV, own]; exact Or.inl ⟨f, rfl, rfl⟩
        · right; right; right; exact Or.inr ⟨h, rfl⟩
      · -- deleteFromSource
        rcases hf with h | h
        · right; right; right; exact Or.inl ⟨h, rfl⟩
        · left; simp only [KeptV, own]; exact Or.inr ⟨f, h, rfl⟩
      · rcases hf with h | h
        · left; simp only [KeptV, own]; exact Or.inl ⟨f, h, rfl⟩
        · right; right; right; exact Or.inr ⟨h, rfl⟩
      · right; left; rfl

end SyModel.Bisync
