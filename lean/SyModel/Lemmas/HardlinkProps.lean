/-
  Lemmas for C13 on top of the invariant: enabledness, the error path of a failing owner, clean
  runs, executions, and the `poll` macro-step.
-/
import SyModel.Lemmas.Hardlink
namespace SyModel.Hardlink
set_option linter.unusedSimpArgs false

/-! ### executions -/

theorem exec_append {cfg : Cfg} {s s' s'' : State} {a b : List Nat}
    (h1 : Exec cfg s a s') (h2 : Exec cfg s' b s'') : Exec cfg s (a ++ b) s'' := by
  induction h1 with
  | nil s => simpa using h2
  | cons hstep _ ih => exact Exec.cons hstep (ih h2)

theorem reachable_exec {cfg : Cfg} {s s' : State} {sched : List Nat}
    (hr : Reachable cfg s) (h : Exec cfg s sched s') : Reachable cfg s' := by
  obtain ⟨a, ha⟩ := hr
  exact ⟨a ++ sched, exec_append ha h⟩

theorem reachable_step {cfg : Cfg} {s s' : State} {w : Nat} {l : Label}
    (hr : Reachable cfg s) (h : step cfg s w = some (l, s')) : Reachable cfg s' :=
  reachable_exec hr (Exec.cons h (Exec.nil s'))

theorem reachable_init (cfg : Cfg) : Reachable cfg (init cfg) := ⟨[], Exec.nil _⟩

/-- the executable run of a schedule that was consumed completely is an execution. -/
theorem exec_of_runMicro {cfg : Cfg} : ∀ (sched : List Nat) (s : State),
    (runMicro cfg s sched).2.2 = [] → Exec cfg s sched (runMicro cfg s sched).1
  | [], s, _ => Exec.nil s
  | w :: ws, s, h => by
    unfold runMicro at h ⊢
    cases hs : step cfg s w with
    | none => simp [hs] at h
    | some p =>
      obtain ⟨l, s'⟩ := p
      simp only [hs] at h ⊢
      exact Exec.cons hs (exec_of_runMicro ws s' h)

theorem step_none_of_ge {cfg : Cfg} {s : State} {w : Nat} (h : cfg.n ≤ w) : step cfg s w = none := by
  unfold step
  rw [if_neg (by omega)]

/-! ### enabledness -/

/-- Every pc except `done` and a `Notified` future that is not ready has a step. -/
theorem next_isSome (cfg : Cfg) (w : Nat) (c : WorkerCfg) (pc : Pc) (entry : Option Entry)
    (calls : Nat → Nat) (dst : Nat → Option File)
    (hd : pc.isDone = false) (hb : ∀ g snap, pc = .waiting g snap → calls g ≠ snap) :
    (next cfg w c pc entry calls dst).isSome = true := by
  cases pc with
  | start =>
    simp only [next]
    split
    · split <;> rfl
    · rfl
  | sawNone => simp only [next]; split <;> rfl
  | sawInProgress g => simp only [next]; split <;> rfl
  | armed g snap => simp only [next]; split <;> rfl
  | waiting g snap =>
    have := hb g snap rfl
    simp [next, this]
  | linkOp p k => cases k <;> simp only [next] <;> (try split) <;> rfl
  | sameOp p => simp only [next]; (repeat' split) <;> rfl
  | removeOp p k => cases k <;> simp only [next] <;> (try split) <;> rfl
  | syncOp k => cases k <;> simp only [next] <;> (repeat' split) <;> rfl
  | mkdirOp k => cases k <;> simp only [next] <;> (try split) <;> rfl
  | copyOp k => cases k <;> simp only [next] <;> (try split) <;> rfl
  | metaOp => simp only [next]; split <;> rfl
  | complete => rfl
  | notifyOk => rfl
  | cleanup op => rfl
  | failNotify op => rfl
  | done r => simp [Pc.isDone] at hd

theorem step_isSome {cfg : Cfg} {s : State} {w : Nat} (hw : w < cfg.n)
    (hd : (s.pc w).isDone = false) (hb : ∀ g snap, s.pc w = .waiting g snap → s.calls g ≠ snap) :
    (step cfg s w).isSome = true := by
  have h := next_isSome cfg w (cfg.worker w) (s.pc w) (s.map (cfg.worker w).inode) s.calls s.dst hd hb
  unfold step
  rw [if_pos hw]
  cases hn : next cfg w (cfg.worker w) (s.pc w) (s.map (cfg.worker w).inode) s.calls s.dst with
  | none => rw [hn] at h; cases h
  | some p => rfl

theorem Pc.holdsClaim_not_waiting (pc : Pc) (h : pc.holdsClaim = true) (g snap : Nat) :
    pc ≠ .waiting g snap := by
  cases pc <;> simp_all [Pc.holdsClaim]

theorem Pc.notifying_not_waiting (pc : Pc) (h : pc.notifying = true) (g snap : Nat) :
    pc ≠ .waiting g snap := by
  cases pc <;> simp_all [Pc.notifying]

/-- In the repaired protocol a worker that is not finished is enabled, or it waits on an owner
    that is. -/
theorem enabled_or_owner_enabled {cfg : Cfg} {s : State} (hr : InvR cfg s)
    {w : Nat} (hw : w < cfg.n) (hd : (s.pc w).isDone = false) :
    (step cfg s w).isSome = true ∨
      ∃ g, g < cfg.n ∧ (s.pc w).waitsOn = some g ∧ (step cfg s g).isSome = true := by
  by_cases hb : ∀ g snap, s.pc w = .waiting g snap → s.calls g ≠ snap
  · exact Or.inl (step_isSome hw hd hb)
  · right
    have hb' : ∃ g snap, s.pc w = .waiting g snap ∧ s.calls g = snap := by
      apply Classical.byContradiction
      intro hne
      apply hb
      intro g snap hp hc
      exact hne ⟨g, snap, hp, hc⟩
    obtain ⟨g, snap, hp, hc⟩ := hb'
    have hsnap := hr.snapWaiting w g snap hp
    have hwo : (s.pc w).waitsOn = some g := by rw [hp]; rfl
    obtain ⟨hg, _, hown⟩ := hr.waits w g hwo
    have hc0 : s.calls g = 0 := by omega
    refine ⟨g, hg, hwo, ?_⟩
    cases hown hc0 with
    | inl hc =>
      exact step_isSome hg (Pc.holdsClaim_not_done _ hc)
        (fun g' snap' hp' => absurd hp' (Pc.holdsClaim_not_waiting _ hc g' snap'))
    | inr hn =>
      exact step_isSome hg (Pc.notifying_not_done _ hn)
        (fun g' snap' hp' => absurd hp' (Pc.notifying_not_waiting _ hn g' snap'))

/-! ### the error path of a failing owner (repaired protocol) -/

/-- after its operation `op` failed, a claim-holding worker only cleans up, notifies and returns. -/
def Pc.errPath (op : Op) : Pc → Bool
  | .cleanup o | .failNotify o | .done (.err o) => o == op
  | _ => false

theorem errPath_next (cfg : Cfg) (w : Nat) (c : WorkerCfg) (pc : Pc) (entry : Option Entry)
    (calls : Nat → Nat) (dst : Nat → Option File) (l : Label) (e : Effect) (op : Op)
    (h : next cfg w c pc entry calls dst = some (l, e)) (hp : pc.errPath op = true) :
    e.pc.errPath op = true := by
  cases pc <;> simp [Pc.errPath] at hp
  case cleanup o => simp only [next] at h; cases h; simp [Pc.errPath, hp]
  case failNotify o => simp only [next] at h; cases h; simp [Pc.errPath, hp]
  case done r => simp [next] at h

theorem errPath_step {cfg : Cfg} {s s' : State} {w g : Nat} {l : Label} {op : Op}
    (h : step cfg s w = some (l, s')) (hp : (s.pc g).errPath op = true) :
    (s'.pc g).errPath op = true := by
  obtain ⟨_, e, hnext, rfl⟩ := step_eq_some h
  by_cases hgw : g = w
  · subst hgw
    rw [apply_pc_self]
    exact errPath_next _ _ _ _ _ _ _ _ _ _ hnext hp
  · rw [apply_pc_other _ _ _ _ _ hgw]; exact hp

theorem errPath_exec {cfg : Cfg} {s s' : State} {sched : List Nat} {g : Nat} {op : Op}
    (h : Exec cfg s sched s') (hp : (s.pc g).errPath op = true) : (s'.pc g).errPath op = true := by
  induction h with
  | nil s => exact hp
  | cons hstep _ ih => exact ih (errPath_step hstep hp)

/-- the step labelled `opErr op` of a hard-link owner in the repaired protocol enters the error
    path (and a link failure returns the error at once). -/
theorem opErr_enters_errPath (cfg : Cfg) (w : Nat) (c : WorkerCfg) (pc : Pc) (entry : Option Entry)
    (calls : Nat → Nat) (dst : Nat → Option File) (e : Effect) (op : Op)
    (hv : cfg.variant = .repaired) (hl : c.linked = true)
    (h : next cfg w c pc entry calls dst = some (.opErr op, e)) : e.pc.errPath op = true := by
  cases pc <;> simp only [next] at h
  case start => split at h <;> (try split at h) <;> cases h
  case sawNone => split at h <;> cases h
  case sawInProgress g => split at h <;> cases h
  case armed g snap => split at h <;> cases h
  case waiting g snap => split at h <;> cases h
  case linkOp p k =>
    cases k <;> simp only [next] at h
    · split at h <;> cases h; simp [Pc.errPath]
    · cases h
  case sameOp p => (repeat' split at h) <;> cases h
  case removeOp p k =>
    cases k <;> simp only [next] at h
    · split at h <;> cases h; simp [Pc.errPath]
    · cases h
  case syncOp k =>
    cases k <;> simp only [next] at h
    · (repeat' split at h) <;> cases h; simp [failPc, hv, hl, Pc.errPath]
    · cases h
  case mkdirOp k =>
    cases k <;> simp only [next] at h
    · split at h <;> cases h; simp [failPc, hv, hl, Pc.errPath]
    · cases h
  case copyOp k =>
    cases k <;> simp only [next] at h
    · split at h <;> cases h; simp [failPc, hv, hl, Pc.errPath]
    · cases h
  case metaOp => split at h <;> cases h; simp [failPc, hv, hl, Pc.errPath]
  case complete => cases h
  case notifyOk => cases h
  case cleanup o => cases h
  case failNotify o => cases h
  case done r => cases h

/-! ### clean runs: no operation fails -/

def WorkerCfg.clean (c : WorkerCfg) : Bool :=
  !c.failMkdir && !c.failCopy && !c.failMeta && !c.failLink

/-- pcs that only a failed operation leads to. -/
def Pc.errish : Pc → Bool
  | .cleanup _ | .failNotify _ | .done (.err _) => true
  | _ => false

theorem clean_next (cfg : Cfg) (w : Nat) (c : WorkerCfg) (pc : Pc) (entry : Option Entry)
    (calls : Nat → Nat) (dst : Nat → Option File) (l : Label) (e : Effect)
    (hc : c.clean = true) (h : next cfg w c pc entry calls dst = some (l, e))
    (hd : ∀ p k, pc = .removeOp p k → (dst w).isSome = true)
    (hp : pc.errish = false) : e.pc.errish = false := by
  simp only [WorkerCfg.clean, Bool.and_eq_true, Bool.not_eq_true'] at hc
  obtain ⟨⟨⟨h1, h2⟩, h3⟩, h4⟩ := hc
  cases pc <;> simp only [next] at h
  case start =>
    (repeat' split at h) <;> cases h <;> simp only <;> (try split) <;> rfl
  case sawNone => (repeat' split at h) <;> cases h <;> simp only <;> (try split) <;> rfl
  case sawInProgress g => split at h <;> cases h <;> rfl
  case armed g snap => split at h <;> cases h <;> rfl
  case waiting g snap => split at h <;> cases h; rfl
  case linkOp p k =>
    cases k <;> simp only [next, h4] at h
    · cases h; rfl
    · cases h; rfl
  case sameOp p => (repeat' split at h) <;> cases h <;> rfl
  case removeOp p k =>
    have := hd p k rfl
    cases k <;> simp only [next, h1] at h
    · cases hw : dst w with
      | none => rw [hw] at this; cases this
      | some f => simp [hw] at h; obtain ⟨_, rfl⟩ := h; rfl
    · cases h; rfl
  case mkdirOp k =>
    cases k <;> simp only [next, h1] at h
    · cases h; rfl
    · cases h; rfl
  case copyOp k =>
    cases k <;> simp only [next, h2] at h
    · cases h; rfl
    · cases h; rfl
  case syncOp k =>
    cases k <;> simp only [next, h2] at h
    · (repeat' split at h) <;> first | (rename_i hf; cases hf) | (cases h; rfl)
    · cases h; rfl
  case metaOp =>
    simp only [h3] at h
    cases h
    cases c.linked <;> rfl
  case complete => cases h; rfl
  case notifyOk => cases h; rfl
  case cleanup o => simp [Pc.errish] at hp
  case failNotify o => simp [Pc.errish] at hp
  case done r => cases h

/-- In a run without failures from a well-formed destination nobody ends on an error path. -/
theorem clean_step {cfg : Cfg} {s s' : State} {w : Nat} {l : Label}
    (hc : ∀ v, v < cfg.n → (cfg.worker v).clean = true) (hd : InvD cfg s)
    (hu : ∀ v, v < cfg.n → ∀ p k, s.pc v = .removeOp p k → (cfg.worker v).action = .update)
    (h : step cfg s w = some (l, s')) (hp : ∀ v, (s.pc v).errish = false) :
    ∀ v, (s'.pc v).errish = false := by
  obtain ⟨hw, e, hnext, rfl⟩ := step_eq_some h
  intro v
  by_cases hvw : v = w
  · subst hvw
    rw [apply_pc_self]
    refine clean_next _ _ _ _ _ _ _ _ _ (hc v hw) hnext ?_ (hp v)
    intro p k hpk
    exact hd.updDst v hw (hu v hw p k hpk) (by rw [hpk]; rfl)
  · rw [apply_pc_other _ _ _ _ _ hvw]; exact hp v

/-- only workers of an update reach `removeOp`. -/
def Pc.updateOnly : Pc → Bool
  | .removeOp _ _ | .sameOp _ | .syncOp _ => true
  | _ => false

theorem updateOnly_next (cfg : Cfg) (w : Nat) (c : WorkerCfg) (pc : Pc) (entry : Option Entry)
    (calls : Nat → Nat) (dst : Nat → Option File) (l : Label) (e : Effect)
    (h : next cfg w c pc entry calls dst = some (l, e))
    (hp : pc.updateOnly = true → c.action = .update) : e.pc.updateOnly = true → c.action = .update := by
  cases pc <;> simp only [next, failPc] at h
  case start =>
    (repeat' split at h) <;> cases h <;> simp only <;> (try split) <;> simp_all [Pc.updateOnly]
  case sawNone => (repeat' split at h) <;> cases h <;> simp only <;> (try split) <;> simp_all [Pc.updateOnly]
  case sawInProgress g => split at h <;> cases h <;> simp [Pc.updateOnly]
  case armed g snap => split at h <;> cases h <;> simp [Pc.updateOnly]
  case waiting g snap => split at h <;> cases h; simp [Pc.updateOnly]
  case linkOp p k => cases k <;> simp only [next] at h <;> (try split at h) <;> cases h <;> simp [Pc.updateOnly]
  case sameOp p => (repeat' split at h) <;> cases h <;> simp_all [Pc.updateOnly]
  case removeOp p k =>
    cases k <;> simp only [next] at h <;> (try split at h) <;> cases h <;> simp_all [Pc.updateOnly]
  case mkdirOp k =>
    cases k <;> simp only [next, failPc] at h <;> (repeat' split at h) <;> cases h <;> simp [Pc.updateOnly]
  case copyOp k =>
    cases k <;> simp only [next, failPc] at h <;> (repeat' split at h) <;> cases h <;> simp [Pc.updateOnly]
  case syncOp k =>
    cases k <;> simp only [next, failPc] at h <;> (repeat' split at h) <;> cases h <;> simp_all [Pc.updateOnly]
  case metaOp => (repeat' split at h) <;> cases h <;> (try split) <;> simp [Pc.updateOnly]
  case complete => cases h; simp [Pc.updateOnly]
  case notifyOk => cases h; simp [Pc.updateOnly]
  case cleanup o => cases h; simp [Pc.updateOnly]
  case failNotify o => cases h; simp [Pc.updateOnly]
  case done r => cases h

theorem updateOnly_step {cfg : Cfg} {s s' : State} {w : Nat} {l : Label}
    (h : step cfg s w = some (l, s'))
    (hp : ∀ v, (s.pc v).updateOnly = true → (cfg.worker v).action = .update) :
    ∀ v, (s'.pc v).updateOnly = true → (cfg.worker v).action = .update := by
  obtain ⟨hw, e, hnext, rfl⟩ := step_eq_some h
  intro v
  by_cases hvw : v = w
  · subst hvw
    rw [apply_pc_self]
    exact updateOnly_next _ _ _ _ _ _ _ _ _ hnext (hp v)
  · rw [apply_pc_other _ _ _ _ _ hvw]; exact hp v

theorem clean_exec {cfg : Cfg} {s s' : State} {sched : List Nat}
    (hc : ∀ v, v < cfg.n → (cfg.worker v).clean = true)
    (h : Exec cfg s sched s') (hi : Inv cfg s) (hd : InvD cfg s)
    (hu : ∀ v, (s.pc v).updateOnly = true → (cfg.worker v).action = .update)
    (hp : ∀ v, (s.pc v).errish = false) :
    ∀ v, (s'.pc v).errish = false := by
  induction h with
  | nil s => exact hp
  | cons hstep _ ih =>
    exact ih (inv_step hi hstep) (invD_step hi hd hstep) (updateOnly_step hstep hu)
      (clean_step hc hd (fun v _ p k hpk => hu v (by rw [hpk]; rfl)) hstep hp)

/-! ### the `poll` macro-step -/

/-- `pollN` performs micro-steps of `w` only, and with enough fuel it never stops for lack of it. -/
theorem pollN_spec (cfg : Cfg) (w : Nat) : ∀ (fuel : Nat) (s : State) (acc : List Label),
    (∃ k, Exec cfg s (List.replicate k w) (pollN cfg fuel s w acc).1) ∧
    (measure cfg s < fuel → (pollN cfg fuel s w acc).2.2 ≠ .outOfFuel)
  | 0, s, acc => ⟨⟨0, Exec.nil s⟩, fun h => absurd h (Nat.not_lt_zero _)⟩
  | fuel + 1, s, acc => by
    unfold pollN
    split
    · exact ⟨⟨0, Exec.nil s⟩, fun _ => by simp⟩
    · cases hs : step cfg s w with
      | none => exact ⟨⟨0, Exec.nil s⟩, fun _ => by simp⟩
      | some p =>
        obtain ⟨l, s'⟩ := p
        simp only
        split
        · exact ⟨⟨1, Exec.cons hs (Exec.nil s')⟩, fun _ => by simp⟩
        · obtain ⟨⟨k, hk⟩, hf⟩ := pollN_spec cfg w fuel s' (l :: acc)
          refine ⟨⟨k + 1, ?_⟩, ?_⟩
          · rw [List.replicate_succ]; exact Exec.cons hs hk
          · intro hm
            have := step_measure_lt hs
            exact hf (by omega)

end SyModel.Hardlink
