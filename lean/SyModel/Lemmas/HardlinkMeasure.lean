/-
  Lemmas for C13 `terminates`: the variant `measure` of `SyModel.Hardlink.Protocol` decreases on
  every micro-step — for every state (no invariant needed), both protocol variants, every number
  of workers.
-/
import SyModel.Hardlink.Protocol
namespace SyModel.Hardlink
set_option linter.unusedSimpArgs false

/-! ### finite sums over worker ids -/

theorem sumTo_le_add (f g : Nat → Nat) (B : Nat) :
    ∀ n, (∀ v, v < n → g v ≤ f v + B) → sumTo g n ≤ sumTo f n + n * B
  | 0, _ => by simp [sumTo]
  | n + 1, h => by
    have ih := sumTo_le_add f g B n (fun v hv => h v (Nat.lt_succ_of_lt hv))
    have hn := h n (Nat.lt_succ_self n)
    simp only [sumTo, Nat.succ_mul]
    omega

theorem sumTo_congr (f g : Nat → Nat) :
    ∀ n, (∀ v, v < n → g v = f v) → sumTo g n = sumTo f n
  | 0, _ => rfl
  | n + 1, h => by
    have ih := sumTo_congr f g n (fun v hv => h v (Nat.lt_succ_of_lt hv))
    have hn := h n (Nat.lt_succ_self n)
    simp only [sumTo]
    omega

/-- all summands equal except at `w`, which drops: the sum drops. -/
theorem sumTo_lt (f g : Nat → Nat) (w : Nat) :
    ∀ n, w < n → (∀ v, v < n → v ≠ w → g v = f v) → g w < f w → sumTo g n < sumTo f n
  | 0, hw, _, _ => absurd hw (Nat.not_lt_zero _)
  | n + 1, hw, h, hlt => by
    simp only [sumTo]
    by_cases hwn : w = n
    · subst hwn
      have := sumTo_congr f g w (fun v hv => h v (Nat.lt_succ_of_lt hv) (Nat.ne_of_lt hv))
      omega
    · have hw' : w < n := by omega
      have ih := sumTo_lt f g w n hw' (fun v hv => h v (Nat.lt_succ_of_lt hv)) hlt
      have hn := h n (Nat.lt_succ_self n) (fun e => hwn e.symm)
      omega

/-- every other summand grows by at most `B`, the one at `w` drops by `D`. -/
theorem sumTo_event (f g : Nat → Nat) (w B D : Nat) :
    ∀ n, w < n → (∀ v, v < n → v ≠ w → g v ≤ f v + B) → g w + D ≤ f w →
      sumTo g n + D ≤ sumTo f n + n * B
  | 0, hw, _, _ => absurd hw (Nat.not_lt_zero _)
  | n + 1, hw, h, hd => by
    simp only [sumTo, Nat.succ_mul]
    by_cases hwn : w = n
    · subst hwn
      have := sumTo_le_add f g B w (fun v hv => h v (Nat.lt_succ_of_lt hv) (Nat.ne_of_lt hv))
      omega
    · have hw' : w < n := by omega
      have ih := sumTo_event f g w B D n hw' (fun v hv => h v (Nat.lt_succ_of_lt hv)) hd
      have hn := h n (Nat.lt_succ_self n) (fun e => hwn e.symm)
      omega

/-! ### the rank of the acting worker -/

/-- `rank` as a function of the pieces of the state it depends on. -/
def rankOf (cfg : Cfg) (c : WorkerCfg) (pc : Pc) (entry : Option Entry) (calls : Nat → Nat) : Nat :=
  cfg.weight * pc.events + pc.local c + (if loopsBack pc entry calls then bonus else 0)

theorem rank_eq (cfg : Cfg) (s : State) (w : Nat) :
    rank cfg s w = rankOf cfg (cfg.worker w) (s.pc w) (s.map (cfg.worker w).inode) s.calls := rfl

theorem rankOf_le (cfg : Cfg) (c : WorkerCfg) (pc : Pc) (e e' : Option Entry) (k k' : Nat → Nat) :
    rankOf cfg c pc e' k' ≤ rankOf cfg c pc e k + bonus := by
  unfold rankOf
  split <;> split <;> omega

/-- the entry of the acting worker's inode after its step. -/
def Effect.entryAfter (e : Effect) (entry : Option Entry) : Option Entry :=
  match e.map with
  | none => entry
  | some m => m

/-- the notify counters after a step of worker `w`. -/
def Effect.callsAfter (e : Effect) (w : Nat) (calls : Nat → Nat) : Nat → Nat :=
  if e.notify then fun v => if v = w then calls v + 1 else calls v else calls

/-- an *event* changes shared state (the map or a notify counter). -/
def Effect.isEvent (e : Effect) : Bool := e.map.isSome || e.notify

/-- The acting worker's own rank: it drops by at least one on a silent step and by at least one
    event weight on an event. -/
theorem next_rank (cfg : Cfg) (w : Nat) (c : WorkerCfg) (pc : Pc) (entry : Option Entry)
    (calls : Nat → Nat) (dst : Nat → Option File) (l : Label) (e : Effect)
    (h : next cfg w c pc entry calls dst = some (l, e)) :
    (e.isEvent = false →
      rankOf cfg c e.pc (e.entryAfter entry) (e.callsAfter w calls) < rankOf cfg c pc entry calls) ∧
    (e.isEvent = true →
      rankOf cfg c e.pc (e.entryAfter entry) (e.callsAfter w calls) + cfg.weight
        ≤ rankOf cfg c pc entry calls) := by
  generalize hW : cfg.weight = W
  cases pc with
  | start =>
    simp only [next] at h
    split at h
    · split at h <;> (cases h; by_cases hu : c.action = Action.update <;>
        simp [hu, rankOf, Effect.isEvent, Effect.entryAfter, Effect.callsAfter,
        loopsBack, Pc.events, Pc.local, WorkerCfg.loopBase, bonus, hW]) <;> omega
    · cases h
      by_cases hu : c.action = Action.update <;>
        simp [hu, rankOf, Effect.isEvent, Effect.entryAfter, Effect.callsAfter,
        loopsBack, Pc.events, Pc.local, WorkerCfg.loopBase, bonus, hW] <;> omega
  | sawNone =>
    simp only [next] at h
    split at h <;> (cases h; by_cases hu : c.action = Action.update <;>
      simp_all [rankOf, Effect.isEvent, Effect.entryAfter, Effect.callsAfter,
        loopsBack, Pc.events, Pc.local, WorkerCfg.loopBase, bonus]) <;> omega
  | sawInProgress g =>
    simp only [next] at h
    split at h <;> (cases h; simp [rankOf, Effect.isEvent, Effect.entryAfter, Effect.callsAfter,
        loopsBack, Pc.events, Pc.local, WorkerCfg.loopBase, bonus, hW]) <;> (split <;> omega)
  | armed g snap =>
    simp only [next] at h
    split at h <;> (cases h; simp_all [rankOf, Effect.isEvent, Effect.entryAfter, Effect.callsAfter,
        loopsBack, Pc.events, Pc.local, WorkerCfg.loopBase, bonus])
    all_goals first | omega | (split <;> omega)
  | waiting g snap =>
    simp only [next] at h
    split at h
    · cases h
    · cases h
      simp_all [rankOf, Effect.isEvent, Effect.entryAfter, Effect.callsAfter,
        loopsBack, Pc.events, Pc.local, WorkerCfg.loopBase, bonus]
      omega
  | linkOp p k =>
    cases k <;> simp only [next] at h
    · split at h <;> (cases h; simp [rankOf, Effect.isEvent, Effect.entryAfter, Effect.callsAfter,
        loopsBack, Pc.events, Pc.local, WorkerCfg.loopBase, bonus, hW])
    · cases h; simp [rankOf, Effect.isEvent, Effect.entryAfter, Effect.callsAfter,
        loopsBack, Pc.events, Pc.local, WorkerCfg.loopBase, bonus, hW]
  | sameOp p =>
    simp only [next] at h
    (repeat' split at h) <;> (cases h; simp [rankOf, Effect.isEvent, Effect.entryAfter, Effect.callsAfter,
        loopsBack, Pc.events, Pc.local, WorkerCfg.loopBase, bonus, hW]) <;> omega
  | removeOp p k =>
    cases k <;> simp only [next] at h
    · split at h <;> (cases h; simp [rankOf, Effect.isEvent, Effect.entryAfter, Effect.callsAfter,
        loopsBack, Pc.events, Pc.local, WorkerCfg.loopBase, bonus, hW]) <;> omega
    · cases h; simp [rankOf, Effect.isEvent, Effect.entryAfter, Effect.callsAfter,
        loopsBack, Pc.events, Pc.local, WorkerCfg.loopBase, bonus, hW]
  | syncOp k =>
    cases k <;> simp only [next] at h
    · (repeat' split at h)
      · cases h
        simp only [failPc]
        split <;> (try split) <;> simp [rankOf, Effect.isEvent, Effect.entryAfter, Effect.callsAfter,
          loopsBack, Pc.events, Pc.local, WorkerCfg.loopBase, bonus, hW] <;> omega
      all_goals (cases h; simp [rankOf, Effect.isEvent, Effect.entryAfter, Effect.callsAfter,
          loopsBack, Pc.events, Pc.local, WorkerCfg.loopBase, bonus, hW])
    · cases h; simp [rankOf, Effect.isEvent, Effect.entryAfter, Effect.callsAfter,
        loopsBack, Pc.events, Pc.local, WorkerCfg.loopBase, bonus, hW]
  | mkdirOp k =>
    cases k <;> simp only [next] at h
    · split at h
      · cases h
        simp only [failPc]
        split <;> (try split) <;> simp [rankOf, Effect.isEvent, Effect.entryAfter, Effect.callsAfter,
          loopsBack, Pc.events, Pc.local, WorkerCfg.loopBase, bonus, hW] <;> omega
      · cases h; simp [rankOf, Effect.isEvent, Effect.entryAfter, Effect.callsAfter,
          loopsBack, Pc.events, Pc.local, WorkerCfg.loopBase, bonus, hW]
    · cases h; simp [rankOf, Effect.isEvent, Effect.entryAfter, Effect.callsAfter,
        loopsBack, Pc.events, Pc.local, WorkerCfg.loopBase, bonus, hW]
  | copyOp k =>
    cases k <;> simp only [next] at h
    · split at h
      · cases h
        simp only [failPc]
        split <;> (try split) <;> simp [rankOf, Effect.isEvent, Effect.entryAfter, Effect.callsAfter,
          loopsBack, Pc.events, Pc.local, WorkerCfg.loopBase, bonus, hW] <;> omega
      · cases h; simp [rankOf, Effect.isEvent, Effect.entryAfter, Effect.callsAfter,
          loopsBack, Pc.events, Pc.local, WorkerCfg.loopBase, bonus, hW]
    · cases h; simp [rankOf, Effect.isEvent, Effect.entryAfter, Effect.callsAfter,
        loopsBack, Pc.events, Pc.local, WorkerCfg.loopBase, bonus, hW]
  | metaOp =>
    simp only [next] at h
    split at h
    · cases h
      simp only [failPc]
      split <;> (try split) <;> simp [rankOf, Effect.isEvent, Effect.entryAfter, Effect.callsAfter,
        loopsBack, Pc.events, Pc.local, WorkerCfg.loopBase, bonus, hW] <;> omega
    · cases h
      by_cases hl : c.linked <;> simp [hl, rankOf, Effect.isEvent, Effect.entryAfter,
        Effect.callsAfter, loopsBack, Pc.events, Pc.local, WorkerCfg.loopBase, bonus, hW] <;> omega
  | complete =>
    simp only [next] at h; cases h
    simp [rankOf, Effect.isEvent, Effect.entryAfter, Effect.callsAfter,
      loopsBack, Pc.events, Pc.local, WorkerCfg.loopBase, bonus, hW]
    omega
  | notifyOk =>
    simp only [next] at h; cases h
    simp [rankOf, Effect.isEvent, Effect.entryAfter, Effect.callsAfter,
      loopsBack, Pc.events, Pc.local, WorkerCfg.loopBase, bonus, hW]
  | cleanup op =>
    simp only [next] at h; cases h
    simp [rankOf, Effect.isEvent, Effect.entryAfter, Effect.callsAfter,
      loopsBack, Pc.events, Pc.local, WorkerCfg.loopBase, bonus, hW]
    omega
  | failNotify op =>
    simp only [next] at h; cases h
    simp [rankOf, Effect.isEvent, Effect.entryAfter, Effect.callsAfter,
      loopsBack, Pc.events, Pc.local, WorkerCfg.loopBase, bonus, hW]
  | done r => simp [next] at h

/-! ### frame properties of `State.apply` -/

@[simp] theorem apply_pc_self (s : State) (w i : Nat) (e : Effect) : (s.apply w i e).pc w = e.pc := by
  simp [State.apply]

theorem apply_pc_other (s : State) (w i : Nat) (e : Effect) (v : Nat) (h : v ≠ w) :
    (s.apply w i e).pc v = s.pc v := by
  simp [State.apply, h]

theorem apply_map_self (s : State) (w i : Nat) (e : Effect) :
    (s.apply w i e).map i = e.entryAfter (s.map i) := by
  unfold State.apply Effect.entryAfter
  cases e.map <;> simp

theorem apply_map_other (s : State) (w i : Nat) (e : Effect) (j : Nat) (h : j ≠ i) :
    (s.apply w i e).map j = s.map j := by
  unfold State.apply
  cases e.map <;> simp [h]

theorem apply_calls (s : State) (w i : Nat) (e : Effect) :
    (s.apply w i e).calls = e.callsAfter w s.calls := rfl

theorem apply_silent (s : State) (w i : Nat) (e : Effect) (h : e.isEvent = false) :
    (s.apply w i e).map = s.map ∧ (s.apply w i e).calls = s.calls := by
  unfold Effect.isEvent at h
  unfold State.apply
  cases hm : e.map <;> cases hn : e.notify <;> simp_all

/-- `step` unfolded. -/
theorem step_eq_some {cfg : Cfg} {s s' : State} {w : Nat} {l : Label}
    (h : step cfg s w = some (l, s')) :
    w < cfg.n ∧ ∃ e, next cfg w (cfg.worker w) (s.pc w) (s.map (cfg.worker w).inode) s.calls s.dst
        = some (l, e) ∧ s' = s.apply w (cfg.worker w).inode e := by
  unfold step at h
  split at h
  · rename_i hw
    split at h
    · cases h
    · rename_i l' e heq
      cases h
      exact ⟨hw, e, heq, rfl⟩
  · cases h

/-- **The variant decreases on every micro-step**, whoever moves, in every state. -/
theorem step_measure_lt {cfg : Cfg} {s s' : State} {w : Nat} {l : Label}
    (h : step cfg s w = some (l, s')) : measure cfg s' < measure cfg s := by
  obtain ⟨hw, e, hnext, rfl⟩ := step_eq_some h
  have hr := next_rank cfg w (cfg.worker w) (s.pc w) (s.map (cfg.worker w).inode) s.calls s.dst l e hnext
  have hself : rank cfg (s.apply w (cfg.worker w).inode e) w
      = rankOf cfg (cfg.worker w) e.pc (e.entryAfter (s.map (cfg.worker w).inode))
          (e.callsAfter w s.calls) := by
    rw [rank_eq, apply_pc_self, apply_map_self, apply_calls]
  unfold measure
  cases hev : e.isEvent
  · -- silent step: nobody else's rank changes
    obtain ⟨hm, hc⟩ := apply_silent s w (cfg.worker w).inode e hev
    apply sumTo_lt _ _ w cfg.n hw
    · intro v _ hvw
      rw [rank_eq, rank_eq, apply_pc_other _ _ _ _ _ hvw, hm, hc]
    · rw [hself, rank_eq]; exact hr.1 hev
  · -- event: the others gain at most one bonus each, the actor pays one weight
    have hothers : ∀ v, v < cfg.n → v ≠ w →
        rank cfg (s.apply w (cfg.worker w).inode e) v ≤ rank cfg s v + bonus := by
      intro v _ hvw
      rw [rank_eq, rank_eq, apply_pc_other _ _ _ _ _ hvw]
      exact rankOf_le _ _ _ _ _ _ _
    have hpay : rank cfg (s.apply w (cfg.worker w).inode e) w + cfg.weight ≤ rank cfg s w := by
      rw [hself, rank_eq]; exact hr.2 hev
    have := sumTo_event (rank cfg s) (rank cfg (s.apply w (cfg.worker w).inode e)) w bonus cfg.weight
      cfg.n hw hothers hpay
    unfold Cfg.weight at this
    omega

/-- An execution of `k` micro-steps uses up at least `k` units of the variant. -/
theorem exec_measure {cfg : Cfg} {s s' : State} {sched : List Nat} (h : Exec cfg s sched s') :
    sched.length + measure cfg s' ≤ measure cfg s := by
  induction h with
  | nil s => simp
  | cons hstep _ ih =>
    have := step_measure_lt hstep
    simp only [List.length_cons]
    omega

end SyModel.Hardlink
