/-
  Lemmas relating report events to destination changes (C19) and filtered entries to tasks (C16).
-/
import SyModel.Lemmas.EngineDelete
namespace SyModel.Engine

theorem planFileAct_update_some {cfg : Cfg} {m : FileMeta} {o : Option DNode}
    (h : planFileAct cfg m o = .update) : o ≠ none := by
  intro ho; subst ho; simp [planFileAct] at h

/-- for a file or link a `create` is planned only where the destination has nothing -/
theorem planEntry_create_none {cfg : Cfg} {dst : Map DNode} {e : SEntry} (hk : e.kind ≠ .dir)
    (h : (planEntry cfg dst e).act = .create) : dst.get? e.rel = none := by
  unfold planEntry at h
  split at h
  · rename_i hd; exact absurd hd hk
  · exact (planFileAct_create_iff _ _ _).1 h
  · split at h
    · cases h
    · split at h
      · rename_i hg; exact hg
      · simp only at h; split at h <;> cases h
      · cases h
    · split at h
      · exact (planFileAct_create_iff _ _ _).1 h
      · cases h

/-- a directory is planned as `skip` where the destination has a directory, as `update` where it has a symlink
    (replaced by a directory, fix 862af11), else as `create` -/
theorem planEntry_dir_act {cfg : Cfg} {dst : Map DNode} {e : SEntry} (hk : e.kind = .dir) :
    (dst.get? e.rel = some .dir ∧ (planEntry cfg dst e).act = .skip) ∨
    ((∃ s, dst.get? e.rel = some (.symlink s)) ∧ (planEntry cfg dst e).act = .update) ∨
    (dst.get? e.rel ≠ some .dir ∧ (∀ s, dst.get? e.rel ≠ some (.symlink s)) ∧
      (planEntry cfg dst e).act = .create) := by
  cases hg : dst.get? e.rel with
  | none => exact Or.inr (Or.inr ⟨by simp, by simp, by unfold planEntry; simp [hk, hg]⟩)
  | some v =>
    cases v with
    | dir => exact Or.inl ⟨rfl, by unfold planEntry; simp [hk, hg]⟩
    | symlink s => exact Or.inr (Or.inl ⟨⟨s, rfl⟩, by unfold planEntry; simp [hk, hg]⟩)
    | file m => exact Or.inr (Or.inr ⟨by simp, by simp, by unfold planEntry; simp [hk, hg]⟩)

/-- an `update` is planned only where the destination has something -/
theorem planEntry_update_some {cfg : Cfg} {dst : Map DNode} {e : SEntry}
    (h : (planEntry cfg dst e).act = .update) : dst.get? e.rel ≠ none := by
  cases hk : e.kind with
  | dir =>
    rcases planEntry_dir_act (cfg := cfg) (dst := dst) hk with ⟨_, h'⟩ | ⟨⟨s, hs⟩, _⟩ | ⟨_, _, h'⟩
    · rw [h'] at h; cases h
    · rw [hs]; simp
    · rw [h'] at h; cases h
  | file m n =>
    unfold planEntry at h; simp only [hk] at h; exact planFileAct_update_some h
  | symlink text tgt =>
    unfold planEntry at h; simp only [hk] at h
    split at h
    · cases h
    · split at h
      · cases h
      · rename_i hg; rw [hg]; simp
      · simp_all
    · split at h
      · exact planFileAct_update_some h
      · cases h

theorem planEntry_payload_dir {cfg : Cfg} {dst : Map DNode} {e : SEntry} (h : e.kind = .dir) :
    (planEntry cfg dst e).payload = .dir := by unfold planEntry; simp [h]

theorem planEntry_kind_of_payload_dir {cfg : Cfg} {dst : Map DNode} {e : SEntry}
    (h : (planEntry cfg dst e).payload = .dir) : e.kind = .dir := by
  unfold planEntry at h
  split at h
  · assumption
  · cases h
  · split at h
    · cases h
    · split at h <;> cases h
    · split at h <;> cases h

/-- a create/update task is never planned with an empty payload -/
theorem planEntry_payload_of_cu {cfg : Cfg} {dst : Map DNode} {e : SEntry}
    (h : (planEntry cfg dst e).act ≠ .skip) : (planEntry cfg dst e).payload ≠ .nothing := by
  cases hk : e.kind with
  | dir => unfold planEntry; simp [hk]
  | file m n => unfold planEntry; simp [hk]
  | symlink text tgt =>
    cases hl : cfg.links with
    | skip => exfalso; apply h; unfold planEntry; simp [hk, hl]
    | preserve => unfold planEntry; simp only [hk, hl]; split <;> simp
    | follow =>
      cases tgt with
      | file m => unfold planEntry; simp [hk, hl]
      | dir => exfalso; apply h; unfold planEntry; simp [hk, hl]
      | dangling => exfalso; apply h; unfold planEntry; simp [hk, hl]

/-- with unique destination keys the deletions have pairwise distinct paths and come last -/
def DelLater (a b : Task) : Prop := a.act = .delete → b.act = .delete ∧ b.rel ≠ a.rel

theorem plan_pairwise_del (cfg : Cfg) (scan : List SEntry) (dst : Map DNode) (hk : dst.keys.Nodup) :
    (plan cfg scan dst).Pairwise DelLater := by
  rw [plan_eq, List.pairwise_append]
  refine ⟨?_, ?_, ?_⟩
  · apply pairwise_of_forall_mem
    intro a ha b _ had
    obtain ⟨e, _, rfl⟩ := List.mem_map.1 ha
    exact absurd had (planEntry_act_ne_delete _ _ _)
  · by_cases hd : cfg.delete = true
    · simp only [hd, ↓reduceIte]
      unfold planDeletions
      rw [List.pairwise_map]
      have hn : (dst.keys.filter fun p => !((scanFilter cfg scan).any (·.rel == p)) && !(scan.any (·.rel == p)) &&
          !(ownMetadata.contains p)).Pairwise (· ≠ ·) := List.Pairwise.sublist List.filter_sublist hk
      exact hn.imp (fun hab _ => ⟨rfl, fun h => hab h.symm⟩)
    · simp [hd]
  · intro a ha b _ had
    obtain ⟨e, _, rfl⟩ := List.mem_map.1 ha
    exact absurd had (planEntry_act_ne_delete _ _ _)

/-- deletes (completed, failed or faulted) at other paths never make an absent path present -/
theorem foldl_deletes_none_flt (cfg : Cfg) (flt : Faults) (ds : List Task) (st : Exec) (x : Path)
    (hd : ∀ t ∈ ds, t.act = .delete ∧ t.rel ≠ x) (hx : st.w.dst.get? x = none) :
    (ds.foldl (execTask cfg flt) st).w.dst.get? x = none := by
  induction ds generalizing st with
  | nil => exact hx
  | cons t ds ih =>
    rw [List.foldl_cons]
    apply ih _ (fun t' ht' => hd t' (List.mem_cons_of_mem _ ht'))
    obtain ⟨ha, hr⟩ := hd t (List.mem_cons_self ..)
    rcases execTask_cases cfg flt st t with ⟨g, _, _, _, he⟩ | ⟨_, w', hp, he⟩ | ⟨_, _, he⟩
    · rw [he]; simp only; rw [garbageAt_get?_ne _ _ _ _ (Ne.symm hr)]; exact hx
    · rw [he]
      by_cases hdry : cfg.dryRun = true
      · rw [perform_dry cfg hdry] at hp; cases hp; exact hx
      · simp only [Bool.not_eq_true] at hdry
        rcases (perform_delete_spec ha hdry hp).2.2.2.1 x with h | h
        · exact h
        · rw [h]; exact hx
    · rw [he]; exact hx

/-- a changed path is covered by some planned task -/
theorem changed_covered (cfg : Cfg) (flt : Faults) (ts : List Task) (st : Exec) (x : Path)
    (h : (ts.foldl (execTask cfg flt) st).w.dst.get? x ≠ st.w.dst.get? x) : ∃ t ∈ ts, Covers t x := by
  apply Classical.byContradiction
  intro hn
  apply h
  apply foldl_get?_eq
  intro t ht hc
  exact hn ⟨t, ht, hc⟩

/-- an event of the report comes from a planned task that ran to completion -/
theorem event_task {cfg : Cfg} {flt : Faults} {scan : List SEntry} {dst : Map DNode} {n : Nat} {a : Act} {p : Path}
    (hev : (a, p) ∈ (runF cfg flt scan dst n).events) :
    (runF cfg flt scan dst n).refused = false ∧
      ∃ t ∈ plan cfg scan dst, TaskOk cfg flt (plan cfg scan dst) (initExec dst n) t ∧ t.act = a ∧ t.rel = p := by
  have hr := not_refused_of_event hev
  refine ⟨hr, ?_⟩
  rw [(runF_of_not_refused hr).2.1, List.mem_reverse] at hev
  unfold finalExec at hev
  rcases taskOk_of_event _ _ _ hev with h | ⟨t, hok, hte⟩
  · cases h
  · obtain ⟨pre, post, hts, _⟩ := id hok
    simp only [Prod.mk.injEq] at hte
    exact ⟨t, by rw [hts]; simp, hok, hte.1.symm, hte.2.symm⟩

/-- a non-delete task of the plan is the task of a selected entry -/
theorem entry_of_task {cfg : Cfg} {scan : List SEntry} {dst : Map DNode} {t : Task}
    (ht : t ∈ plan cfg scan dst) (hnd : t.act ≠ .delete) : ∃ e ∈ scanFilter cfg scan, t = planEntry cfg dst e := by
  rw [plan_eq] at ht
  rcases List.mem_append.1 ht with h | h
  · obtain ⟨e, he, rfl⟩ := List.mem_map.1 h; exact ⟨e, he, rfl⟩
  · exfalso
    split at h
    · exact hnd (planDeletions_act h)
    · cases h

/-- a delete task of the plan is a planned deletion -/
theorem deletion_of_task {cfg : Cfg} {scan : List SEntry} {dst : Map DNode} {t : Task}
    (ht : t ∈ plan cfg scan dst) (hd : t.act = .delete) :
    cfg.delete = true ∧ t ∈ planDeletions (scanFilter cfg scan) scan dst := by
  rw [plan_eq] at ht
  rcases List.mem_append.1 ht with h | h
  · obtain ⟨e, he, rfl⟩ := List.mem_map.1 h; exact absurd hd (planEntry_act_ne_delete _ _ _)
  · by_cases hdel : cfg.delete = true
    · simp only [hdel, ↓reduceIte] at h; exact ⟨hdel, h⟩
    · simp [hdel] at h

theorem taskPost_present {cfg : Cfg} {dst0 : Map DNode} {ts : List Task} {t : Task} {res : Option DNode}
    (tp : TaskPost cfg dst0 ts t res) (hs : t.act ≠ .skip) (hp : t.payload ≠ .nothing) (hr : t.rel ≠ []) :
    res ≠ none := by
  cases hpl : t.payload with
  | nothing => exact absurd hpl hp
  | dir => rw [tp.dir hs hpl hr]; simp
  | symlink text => rw [tp.symlink hs text hpl]; simp
  | file m n => obtain ⟨d, h, _⟩ := tp.file hs m n hpl; rw [h]; simp

/-- a completed delete leaves its path absent at the end of the run (unique destination keys) -/
theorem delete_ok_absent {cfg : Cfg} (hdry : cfg.dryRun = false) {flt : Faults} {scan : List SEntry}
    {dst : Map DNode} {n : Nat} (hk : dst.keys.Nodup) {t : Task} (hd : t.act = .delete)
    (hok : TaskOk cfg flt (plan cfg scan dst) (initExec dst n) t) :
    (finalExec cfg flt scan dst n).w.dst.get? t.rel = none := by
  obtain ⟨pre, post, hts, hok⟩ := hok
  have hpw := plan_pairwise_del cfg scan dst hk
  rw [hts, List.pairwise_append] at hpw
  have hpost := (List.pairwise_cons.1 hpw.2.1).1
  unfold finalExec
  rw [hts, List.foldl_append, List.foldl_cons]
  apply foldl_deletes_none_flt cfg flt post _ t.rel (fun b hb => hpost b hb hd)
  obtain ⟨_, w', hp, he⟩ := execTask_ok_of_errors hok
  rw [he]
  exact (perform_delete_spec hd hdry hp).2.1

end SyModel.Engine
