/-
  Helper lemmas of `SyModel.Props.GenBisync` that do not mention the abstraction maps: an element-wise list
  relation, the additivity of the model's `conflictCounts`, a `for`-loop rule for `Except`, one for `Id`
  (loop = left fold), `Except.map`, what the model's `splitLast` answers (used for `conflict_filename`).
-/
import SyModel.Bisync.Resolver

namespace SyModel.Props.GenBisync
open SyModel

/-- element-wise relation between two lists of equal length -/
inductive ListRel {α β : Type} (Q : α → β → Prop) : List α → List β → Prop
  | nil : ListRel Q [] []
  | cons {a b as bs} : Q a b → ListRel Q as bs → ListRel Q (a :: as) (b :: bs)

theorem ListRel.append {α β : Type} {Q : α → β → Prop} {as bs as' bs'} (h : ListRel Q as bs)
    (h' : ListRel Q as' bs') : ListRel Q (as ++ as') (bs ++ bs') := by
  induction h with
  | nil => exact h'
  | cons hq _ ih => exact .cons hq ih

theorem ListRel.length_eq {α β : Type} {Q : α → β → Prop} {as bs} (h : ListRel Q as bs) :
    as.length = bs.length := by
  induction h with
  | nil => rfl
  | cons _ _ ih => simp [ih]

theorem ListRel.map_eq {α β : Type} {f : α → β} {as bs} (h : ListRel (fun a b => f a = b) as bs) :
    as.map f = bs := by
  induction h with
  | nil => rfl
  | cons hq _ ih => simp [hq, ih]

theorem conflictCounts_cons (st : Bisync.Strategy) (stamp : Nat) (c : Bisync.Change) (cs : List Bisync.Change) :
    Bisync.conflictCounts st stamp (c :: cs) =
      ((Bisync.conflictCounts st stamp [c]).1 + (Bisync.conflictCounts st stamp cs).1,
       (Bisync.conflictCounts st stamp [c]).2 + (Bisync.conflictCounts st stamp cs).2) := by
  simp only [Bisync.conflictCounts]
  by_cases h1 : c.ctype.isConflict = true <;>
    by_cases h2 : (Bisync.resolveConflict st c.path c.s c.d stamp).isRename = true <;>
    simp [h1, h2] <;> omega

/-- a `for` loop over a list in `Except` whose body never breaks and performs, on a view `fin` of its state,
    a step of a relation `R` that composes: the loop performs `R` of the whole list. The body `f` and the
    view `fin` are found by unification with the generated definition. -/
theorem forIn_run {σ ρ α ε : Type} (P : α → Prop) (R : List α → ρ → ρ → Prop)
    (hnil : ∀ r, R [] r r)
    (hcons : ∀ c cs r r' r'', R [c] r r' → R cs r' r'' → R (c :: cs) r r'')
    (f : α → σ → Except ε (ForInStep σ)) (fin : σ → ρ)
    (hstep : ∀ c s, P c → ∃ s', f c s = .ok (.yield s') ∧ R [c] (fin s) (fin s'))
    (cs : List α) (s0 : σ) (r0 : ρ) (h0 : fin s0 = r0) (hP : ∀ c ∈ cs, P c) :
    ∃ r, (forIn cs s0 f >>= fun s => pure (fin s)) = Except.ok r ∧ R cs r0 r := by
  subst h0
  induction cs generalizing s0 with
  | nil => exact ⟨fin s0, rfl, hnil _⟩
  | cons c cs ih =>
    obtain ⟨s1, hs1, hr1⟩ := hstep c s0 (hP c (List.mem_cons_self))
    obtain ⟨r, hr, hrr⟩ := ih s1 (fun x hx => hP x (List.mem_cons_of_mem _ hx))
    refine ⟨r, ?_, hcons _ _ _ _ _ hr1 hrr⟩
    rw [List.forIn_cons, hs1]
    exact hr

/-- a `for` loop over a list in `Id` whose body never breaks and whose every iteration is the step `g`:
    the loop is the left fold of `g`. The body `f` is found by unification with the generated definition;
    `hstep` is where the generated body is compared with `g`. -/
theorem forIn_id_foldl {σ α : Type} (g : σ → α → σ) (f : α → σ → Id (ForInStep σ))
    (hstep : ∀ c s, f c s = pure (.yield (g s c))) (cs : List α) (s0 : σ) :
    forIn cs s0 f = (pure (cs.foldl g s0) : Id σ) := by
  induction cs generalizing s0 with
  | nil => rfl
  | cons c cs ih => rw [List.forIn_cons, hstep]; exact ih _

/-- counting through an element-wise relation that preserves the counted property -/
theorem ListRel.countP_eq {α β : Type} {Q : α → β → Prop} {p : α → Bool} {q : β → Bool} {as bs}
    (h : ListRel Q as bs) (hpq : ∀ a b, Q a b → p a = q b) : as.countP p = bs.countP q := by
  induction h with
  | nil => rfl
  | cons hq _ ih => simp only [List.countP_cons, ih, hpq _ _ hq]

/-- summing through an element-wise relation that preserves the summand -/
theorem ListRel.sum_map_eq {α β : Type} {Q : α → β → Prop} {f : α → Nat} {g : β → Nat} {as bs}
    (h : ListRel Q as bs) (hfg : ∀ a b, Q a b → f a = g b) : (as.map f).sum = (bs.map g).sum := by
  induction h with
  | nil => rfl
  | cons hq _ ih => simp only [List.map_cons, List.sum_cons, ih, hfg _ _ hq]

/-- the first element `dropWhile p` keeps fails `p` -/
theorem dropWhile_eq_cons_head {α : Type} {p : α → Bool} {x : α} {t : List α} :
    ∀ l : List α, l.dropWhile p = x :: t → p x = false
  | [], h => by cases h
  | a :: l, h => by
    rw [List.dropWhile_cons] at h
    split at h
    · exact dropWhile_eq_cons_head l h
    · cases h; simp_all

/-- what the model's `splitLast` answers: the text is `before ++ sep :: after` -/
theorem splitLast_some {c : Char} {l b a : List Char} (h : Bisync.splitLast c l = some (b, a)) :
    l = b ++ c :: a := by
  unfold Bisync.splitLast at h
  simp only at h
  split at h
  · cases h
  · rename_i x before hd
    cases h
    have h1 := List.takeWhile_append_dropWhile (p := (· ≠ c)) (l := l.reverse)
    rw [hd] at h1
    have h2 : x = c := by simpa using dropWhile_eq_cons_head _ hd
    subst h2
    have := congrArg List.reverse h1
    simp only [List.reverse_append, List.reverse_cons, List.reverse_reverse, List.append_assoc,
      List.singleton_append] at this
    exact this.symm

/-- … and `after` does not contain the separator -/
theorem splitLast_some_not_mem {c : Char} {l b a : List Char} (h : Bisync.splitLast c l = some (b, a)) :
    c ∉ a := by
  unfold Bisync.splitLast at h
  simp only at h
  split at h
  · cases h
  · cases h
    intro hc
    have := List.all_takeWhile (p := (· ≠ c)) (l := l.reverse)
    rw [List.all_eq_true] at this
    simpa using this c (List.mem_reverse.mp hc)

/-- the converse of `splitLast_some` + `splitLast_some_not_mem` -/
theorem splitLast_eq_some {c : Char} {b a : List Char} (h : c ∉ a) :
    Bisync.splitLast c (b ++ c :: a) = some (b, a) := by
  have hp : ∀ x ∈ a.reverse, (decide (x ≠ c)) = true := by
    intro x hx; simp only [decide_eq_true_eq]; rintro rfl; exact h (List.mem_reverse.mp hx)
  have hr : (b ++ c :: a).reverse = a.reverse ++ (c :: b.reverse) := by simp
  unfold Bisync.splitLast
  simp only [hr, List.takeWhile_append_of_pos hp, List.dropWhile_append_of_pos hp]
  simp

/-- `dropWhile p` leaves nothing only when every element passes `p` -/
theorem dropWhile_eq_nil_all {α : Type} {p : α → Bool} :
    ∀ l : List α, l.dropWhile p = [] → ∀ x ∈ l, p x = true
  | [], _, x, hx => by cases hx
  | a :: l, h, x, hx => by
    rw [List.dropWhile_cons] at h
    split at h
    · rename_i hpa
      cases hx with
      | head => exact hpa
      | tail _ hx => exact dropWhile_eq_nil_all l h x hx
    · cases h

/-- `splitLast` answers `none` only when the separator does not occur -/
theorem splitLast_none_not_mem {c : Char} {l : List Char} (h : Bisync.splitLast c l = none) : c ∉ l := by
  intro hc
  unfold Bisync.splitLast at h
  simp only at h
  split at h
  · rename_i hd
    simpa using dropWhile_eq_nil_all _ hd c (List.mem_reverse.mpr hc)
  · cases h

/-- `splitLast` under a prefix ending in the separator -/
theorem splitLast_append_sep (c : Char) (a b : List Char) :
    Bisync.splitLast c (a ++ c :: b) =
      match Bisync.splitLast c b with
      | none => some (a, b)
      | some (p, n) => some (a ++ c :: p, n) := by
  cases hs : Bisync.splitLast c b with
  | none => exact splitLast_eq_some (splitLast_none_not_mem hs)
  | some pn =>
    obtain ⟨p, n⟩ := pn
    have h1 := splitLast_some hs
    have h2 := splitLast_some_not_mem hs
    subst h1
    have := splitLast_eq_some (b := a ++ c :: p) h2
    simpa using this

/-- the model's conflict name commutes with putting a root in front of the relative path -/
theorem conflictName_under_root (root rel : List Char) (stamp : Nat) (side : Bisync.Side) :
    Bisync.conflictName (root ++ '/' :: rel) stamp side = root ++ '/' :: Bisync.conflictName rel stamp side := by
  unfold Bisync.conflictName Bisync.conflictPrefix Bisync.conflictSuffix
  rw [splitLast_append_sep]
  cases Bisync.splitLast '/' rel with
  | none => simp
  | some pn => obtain ⟨p, n⟩ := pn; simp
theorem Except.map_eq_ok {ε α β : Type} {f : α → β} {x : Except ε α} {b : β} (h : x.map f = .ok b) :
    ∃ a, x = .ok a ∧ f a = b := by
  cases x with
  | error e => simp [Except.map] at h
  | ok a => exact ⟨a, rfl, by simpa [Except.map] using h⟩

end SyModel.Props.GenBisync
