/-
  Lemmas behind the two recorded C20 defects and the "eventually in `pending`" half of
  `no_event_lost`:
  * an idle loop (nothing queued, nothing pending) never syncs again;
  * a difference the comparison rule cannot see is never repaired, however often it syncs;
  * the first `queue.length` iterations of the loop receive exactly the queued events.
-/
import SyModel.Lemmas.WatchProgress
namespace SyModel.Watch

/-- nothing queued, nothing pending: under quiescence nothing ever happens again -/
theorem idle_run (c : Cfg) (is : List Input) :
    ∀ s : State, Quiescent is → s.phase = .loop → s.queue = [] → s.pending = [] → s.sig = false →
      (run c s is).dst = s.dst ∧ (run c s is).src = s.src ∧ (run c s is).syncs = s.syncs := by
  induction is with
  | nil => intro s _ _ _ _ _; simp
  | cons i t ih =>
    intro s hq hp hqu hpe hsig
    obtain ⟨hi, ht⟩ := quiescent_cons hq
    rcases quiet_cases hi with e | ⟨δ, e⟩
    · subst e
      simp only [run_cons, apply]
      rw [step_timeout_idle c s hp hsig hqu (Or.inl hpe)]
      exact ih _ ht hp hqu hpe hsig
    · subst e
      exact ih (advance s δ) ht hp hqu hpe hsig

/-- a difference invisible to the comparison rule survives every later sync -/
theorem blind_run (c : Cfg) (a d : Ver) (hb : needsUpdate c a d = false) (is : List Input) :
    ∀ s : State, Quiescent is → s.src = a → s.dst = d → s.sig = false →
      (s.phase = .loop ∨ (s.phase = .sync ∧ s.snap = a)) →
      (run c s is).dst = d ∧ (run c s is).src = a := by
  induction is with
  | nil => intro s _ h1 h2 _ _; exact ⟨by simpa using h2, by simpa using h1⟩
  | cons i t ih =>
    intro s hq hsrc hdst hsig hph
    obtain ⟨hi, ht⟩ := quiescent_cons hq
    rcases quiet_cases hi with e | ⟨δ, e⟩
    · subst e
      simp only [run_cons, apply]
      rcases hph with hp | ⟨hp, hsn⟩
      · cases hqu : s.queue with
        | cons k q =>
          by_cases hk : k.kept = true
          · rw [step_recv_kept c s k q hp hsig hqu hk]
            exact ih _ ht hsrc hdst hsig (Or.inl hp)
          · rw [step_recv_dropped c s k q hp hsig hqu (by simpa using hk)]
            exact ih _ ht hsrc hdst hsig (Or.inl hp)
        | nil =>
          by_cases hc : s.pending ≠ [] ∧ c.debounce ≤ s.now + c.selectSleep + c.recvTimeout - s.lastSync
          · rw [step_timeout_sync c s hp hsig hqu hc.1 hc.2]
            exact ih _ ht hsrc hdst hsig (Or.inr ⟨rfl, hsrc⟩)
          · rw [step_timeout_idle c s hp hsig hqu (by
              by_cases hpe : s.pending = []
              · exact Or.inl hpe
              · exact Or.inr (fun h' => hc ⟨hpe, h'⟩))]
            exact ih _ ht hsrc hdst hsig (Or.inl hp)
      · rw [step_sync_end c s hp]
        have : syncTo c s.snap s.dst = d := by
          rw [hsn, hdst]; unfold syncTo; simp [hb]
        exact ih _ ht hsrc this hsig (Or.inl rfl)
    · subst e
      exact ih (advance s δ) ht hsrc hdst hsig hph

theorem deliver_phase_aux (s : State) (k : Kind) (e : Option Ver) : (deliver s k e).phase = s.phase := by
  cases e <;> simp only [deliver] <;> split <;> rfl
theorem deliver_sig_aux (s : State) (k : Kind) (e : Option Ver) : (deliver s k e).sig = s.sig := by
  cases e <;> simp only [deliver] <;> split <;> rfl

/-- once the process is gone, the destination never changes again -/
theorem done_run (c : Cfg) (is : List Input) :
    ∀ s : State, s.phase = .done → (run c s is).dst = s.dst ∧ (run c s is).exit = s.exit := by
  induction is with
  | nil => intro s _; simp
  | cons i t ih =>
    intro s hd
    have hd' := apply_done c s i hd
    obtain ⟨h1, h2⟩ := ih _ hd'
    simp only [run_cons]
    rw [h1, h2]
    cases i with
    | event k e => cases e <;> simp only [apply, deliver] <;> split <;> exact ⟨rfl, rfl⟩
    | tick δ => exact ⟨rfl, rfl⟩
    | sigint => simp [apply, signal, hd]
    | step => simp [apply, step_done c s hd]
    | fail => simp [apply, failMove_other c s (by simp [hd]) (by simp [hd]), step_done c s hd]

/-- without a SIGINT and without a failing sync, `watch()` never returns -/
theorem no_exit_run (c : Cfg) (is : List Input) :
    ∀ s : State, (∀ i ∈ is, i ≠ .sigint ∧ i ≠ .fail) → s.sig = false → s.phase ≠ .done →
      (run c s is).phase ≠ .done ∧ (run c s is).sig = false := by
  induction is with
  | nil => intro s _ h1 h2; exact ⟨by simpa using h2, by simpa using h1⟩
  | cons i t ih =>
    intro s hn hs hp
    have hnt : ∀ j ∈ t, j ≠ .sigint ∧ j ≠ .fail := fun j hj => hn j (by simp [hj])
    cases i with
    | sigint => exact absurd rfl (hn .sigint (by simp)).1
    | fail => exact absurd rfl (hn .fail (by simp)).2
    | tick δ => exact ih (advance s δ) hnt hs hp
    | event k e =>
      apply ih _ hnt
      · simp only [apply]; rw [deliver_sig_aux]; exact hs
      · simp only [apply]; rw [deliver_phase_aux]; exact hp
    | step =>
      apply ih _ hnt
      · simp only [apply, step]
        split
        · split <;> exact hs
        · exact hs
        · split <;> exact hs
        · split
          · rename_i h; rw [hs] at h; cases h
          · split
            · split <;> exact hs
            · (try dsimp only); split <;> exact hs
        · exact hs
        · exact hs
      · simp only [apply, step]
        split
        · split <;> simp [*]
        · simp
        · split <;> simp [*]
        · split
          · rename_i h; rw [hs] at h; cases h
          · split
            · split <;> simp [*]
            · (try dsimp only); split <;> simp [*]
        · simp
        · rename_i h; exact absurd h hp

/-! ### queued events reach `pending` -/

theorem deliver_phase (s : State) (k : Kind) (e : Option Ver) : (deliver s k e).phase = s.phase := by
  cases e <;> simp only [deliver] <;> split <;> rfl
theorem deliver_sig (s : State) (k : Kind) (e : Option Ver) : (deliver s k e).sig = s.sig := by
  cases e <;> simp only [deliver] <;> split <;> rfl
theorem deliver_pending (s : State) (k : Kind) (e : Option Ver) : (deliver s k e).pending = s.pending := by
  cases e <;> simp only [deliver] <;> split <;> rfl
theorem deliver_queue (s : State) (k : Kind) (e : Option Ver) :
    (deliver s k e).queue = s.queue ∨ (deliver s k e).queue = s.queue ++ [k] := by
  cases e <;> simp only [deliver] <;> split <;> simp

/-- no SIGINT in the schedule (and no failing move: at the top of the loop no sync is completing, a
    `fail` would just be another `step` that `nSteps` does not count) -/
def NoSigint (is : List Input) : Prop := ∀ i ∈ is, i ≠ .sigint ∧ i ≠ .fail

instance (is : List Input) : Decidable (NoSigint is) := by unfold NoSigint; exact inferInstance

/-- From the top of the loop, while no SIGINT arrives: the first `n ≤ queue.length` iterations
    receive exactly the first `n` queued events, in order, whatever else is delivered meanwhile;
    no sync can start in between (a timeout needs an empty channel). -/
theorem receive_prefix (c : Cfg) (is : List Input) :
    ∀ s : State, NoSigint is → s.phase = .loop → s.sig = false → nSteps is ≤ s.queue.length →
      (run c s is).pending = s.pending ++ (s.queue.take (nSteps is)).filter Kind.kept ∧
      (run c s is).phase = .loop ∧ (run c s is).sig = false ∧ (run c s is).syncs = s.syncs ∧
      ∃ extra, (run c s is).queue = s.queue.drop (nSteps is) ++ extra := by
  induction is with
  | nil => intro s _ hp hs _; simp [hp, hs]
  | cons i t ih =>
    intro s hns hp hs hn
    have hnt : NoSigint t := fun j hj => hns j (by simp [hj])
    cases i with
    | sigint => exact absurd rfl (hns .sigint (by simp)).1
    | fail => exact absurd rfl (hns .fail (by simp)).2
    | tick δ =>
      simpa [apply] using ih (advance s δ) hnt hp hs (by simpa using hn)
    | event k e =>
      simp only [run_cons, apply, nSteps_event] at hn ⊢
      have hq := deliver_queue s k e
      obtain ⟨h1, h2, h3, h4, extra, h5⟩ := ih (deliver s k e) hnt (by rw [deliver_phase]; exact hp)
        (by rw [deliver_sig]; exact hs) (by rcases hq with h | h <;> rw [h] <;> (try simp only [List.length_append, List.length_singleton]) <;> omega)
      refine ⟨?_, h2, h3, ?_, ?_⟩
      · rw [h1, deliver_pending]
        rcases hq with h | h
        · rw [h]
        · rw [h, List.take_append_of_le_length hn]
      · rw [h4]; cases e <;> simp only [deliver] <;> split <;> rfl
      · rcases hq with h | h
        · exact ⟨extra, by rw [h5, h]⟩
        · exact ⟨[k] ++ extra, by rw [h5, h, List.drop_append_of_le_length hn]; simp⟩
    | step =>
      simp only [nSteps_step] at hn
      cases hqu : s.queue with
      | nil => rw [hqu] at hn; simp at hn
      | cons k q =>
        rw [hqu] at hn
        simp only [run_cons, apply, nSteps_step]
        by_cases hk : k.kept = true
        · rw [step_recv_kept c s k q hp hs hqu hk]
          have ih' := ih ({ s with now := s.now + c.selectSleep, queue := q, pending := s.pending ++ [k] } : State)
            hnt hp hs (show nSteps t ≤ q.length by simp at hn; omega)
          simp only at ih'
          obtain ⟨h1, h2, h3, h4, extra, h5⟩ := ih'
          exact ⟨by rw [h1]; simp [List.take_succ_cons, hk], h2, h3, h4, extra, by rw [h5]; simp⟩
        · have hk' : k.kept = false := by simpa using hk
          rw [step_recv_dropped c s k q hp hs hqu hk']
          have ih' := ih ({ s with now := s.now + c.selectSleep, queue := q } : State)
            hnt hp hs (show nSteps t ≤ q.length by simp at hn; omega)
          simp only at ih'
          obtain ⟨h1, h2, h3, h4, extra, h5⟩ := ih'
          exact ⟨by rw [h1]; simp [List.take_succ_cons, hk'], h2, h3, h4, extra, by rw [h5]; simp⟩

end SyModel.Watch
