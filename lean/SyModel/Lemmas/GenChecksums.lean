/-
  Lemmas.GenChecksums — the instance of the `Ext` record of the translated unit `Checksums`
  (`SyModel/Generated/Code/Checksums.lean`: `compute_checksums` of src/delta/checksum.rs) on the world `DWorld` of
  Lemmas/GenDelta.lean, the NORMAL FORM of the translated function (for every `Ext`), and the lemmas that relate it
  to the handwritten model `SyModel.Delta.checksums`.

  PART 1 (`statOp` … `cinstShort`, `toDeltaBC`, `absBlockC`) IS TRUSTED: the bridge theorems of
  `Props/GenChecksums.lean` are statements about `compute_checksums (cinst strong)`, so a wrong operation here
  misrepresents the operating system or the two checksum libraries.  Everything after PART 1 is proved.
-/
import SyModel.Generated.Code.Checksums
import SyModel.Lemmas.GenDelta
set_option autoImplicit false
set_option linter.unusedSimpArgs false
set_option linter.unusedVariables false
namespace SyModel.GenChecksums
open SyModel SyModel.Generated SyModel.Generated.Checksums SyModel.GenDelta

/-! ## PART 1 — the instance (trusted)

The world is `SyModel.GenDelta.DWorld` (regular files path ↦ bytes, read handles `1 … opened` with path and
position; nothing writes, nothing closes).  `GenDelta.inst` is an instance of ANOTHER record (`Delta.Ext`: this unit
has its own `Checksums.Ext` with `std_fs_metadata` and a live `h_seek`, which `GenDelta.inst` stubs with
`throw .other` because the generators never seek), so the instance is built here from the same world operations
(`openOp`, `readOp`) plus the two new ones. -/

/-- `std::fs::metadata(path)` (stat): ENOENT on a missing file, otherwise the length of the file (the only field the
    translated code looks at; `dir`/`mtime` are constants as in `GenDelta.metadataOp`).  The world does not change. -/
def statOp (p : Rs.Path) : Rs.M DWorld Rs.Metadata := fun w =>
  match w.files p with
  | none => (.error .io, w)
  | some c => (.ok { dir := false, mtime := 0, size := c.length }, w)

/-- `file.seek(pos)` (lseek): EBADF on a dead handle; `Start n` sets the position to `n` — also beyond the end of the
    file, as POSIX allows —, `End d` / `Current d` to `len + d` / `pos + d`, EINVAL when that is negative.  Answers the
    new position.  (`compute_checksums` only uses `Start`.) -/
def seekOp (h : Nat) (sf : Rs.SeekFrom) : Rs.M DWorld Nat := fun w =>
  match w.source h with
  | none => (.error .io, w)
  | some (c, p, pos) =>
    match sf with
    | .Start n => (.ok n, w.setPos h p n)
    | .End d =>
      if (c.length : Int) + d < 0 then (.error .io, w)
      else (.ok ((c.length : Int) + d).toNat, w.setPos h p ((c.length : Int) + d).toNat)
    | .Current d =>
      if (pos : Int) + d < 0 then (.error .io, w)
      else (.ok ((pos : Int) + d).toNat, w.setPos h p ((pos : Int) + d).toNat)

/-- `read(&mut buf)` that delivers AT MOST `k` bytes per call: `min(buf.len(), k, remaining)` bytes at the front of
    the buffer, the position advances by that amount.  This is what `Read::read` PROMISES (any `0 < n ≤ buf.len()`
    before end of file is allowed: a pipe, a network file system, a signal, a reader with an internal buffer of `k`
    bytes that is partly consumed); `GenDelta.readOp` — full reads — is the case `k ≥ buf.len()` (`readOp_eq_cap`). -/
def readCapOp (k : Nat) (h : Nat) (buf : List Nat) : Rs.M DWorld (Nat × List Nat) := fun w =>
  match w.source h with
  | none => (.error .io, w)
  | some (c, p, pos) =>
    let n := min (min buf.length k) (c.length - pos)
    (.ok (n, ofU8 ((c.drop pos).take n) ++ buf.drop n), w.setPos h p (pos + n))

/-- the instance with the `read` operation left open.  `strong` is xxh3-64 as an arbitrary function of the bytes.
    * `Adler32_hash` is the Nat model `SyModel.Delta.hashBytes` (proved equal to the `u32` code of
      src/delta/rolling.rs in `Props/GenRolling`), as in `GenDelta.inst`;
    * a streaming xxh3 hasher is the list of bytes fed so far (`Rs.xxh3_new = []`, `update` appends), `digest`
      hashes that list with `strong`, as in `GenDelta.inst`;
    * `std::fs::metadata` = `statOp`, `File::open` = `GenDelta.openOp` (read only, fresh handle at position 0,
      ENOENT on a missing file), `seek` = `seekOp`;
    * `read` = the parameter `rd`. -/
def cinstWith (strong : Bytes → Nat) (rd : Nat → List Nat → Rs.M DWorld (Nat × List Nat)) : Ext DWorld where
  Adler32_hash l := Delta.hashBytes (toU8 l)
  xxh3_update h l := h ++ l
  xxh3_digest h := strong (toU8 h)
  std_fs_metadata p := statOp p
  File_open p := openOp p
  h_seek h sf := seekOp h sf
  h_read h buf := rd h buf

/-- THE INSTANCE: full reads (`GenDelta.readOp`: `min(buf.len(), remaining)` bytes — POSIX allows short reads; on a
    regular file the kernel does not make them, DESIGN §6 C04 "Assumed") -/
def cinst (strong : Bytes → Nat) : Ext DWorld := cinstWith strong readOp

/-- the instance whose `read` delivers at most `k` bytes per call -/
def cinstShort (k : Nat) (strong : Bytes → Nat) : Ext DWorld := cinstWith strong (readCapOp k)

/-- THE FULL-READ HYPOTHESIS about a `read` operation: on every live handle it is `GenDelta.readOp`
    (`min(buf.len(), remaining)` bytes are delivered) -/
def FullReads (rd : Nat → List Nat → Rs.M DWorld (Nat × List Nat)) : Prop :=
  ∀ h buf w, (w.source h).isSome → rd h buf w = readOp h buf w

/-- `BlockChecksum` is translated once per unit that mentions it: the record of unit `Checksums` as the record of
    unit `Delta` (same Rust type `delta::checksum::BlockChecksum`, field by field) -/
def toDeltaBC (c : BlockChecksum) : Generated.Delta.BlockChecksum := ⟨c.index, c.offset, c.size, c.weak, c.strong⟩

/-- code checksum ↦ model checksum (`GenDelta.absBlock` on this unit's record; the model has no `index`) -/
def absBlockC (c : BlockChecksum) : Delta.Block Nat := ⟨c.offset, c.size, c.weak, c.strong⟩

/-! ## PART 2 — proved -/

theorem absBlock_toDeltaBC (c : BlockChecksum) : absBlock (toDeltaBC c) = absBlockC c := rfl

theorem map_absBlock_toDeltaBC (cs : List BlockChecksum) : (cs.map toDeltaBC).map absBlock = cs.map absBlockC := by
  rw [List.map_map]; rfl

/-! ### normal form of `compute_checksums` (any `Ext`) -/

/-- the record built from what `read` answered (`bytes_read`, `buffer`): checksum.rs:63-76 -/
def mkBlock {W : Type} (ext : Ext W) (bs index : Nat) (r : Nat × List Nat) : BlockChecksum :=
  { index := index, offset := index * bs, size := r.1,
    weak := ext.Adler32_hash (Rs.slice r.2 0 r.1),
    strong := ext.xxh3_digest (ext.xxh3_update Rs.xxh3_new (Rs.slice r.2 0 r.1)) }

/-- the closure of the parallel map (checksum.rs:49-77): open, seek to `index * block_size`, ONE read into a zeroed
    buffer of `block_size` bytes, the record -/
def blockM {W : Type} (ext : Ext W) (path : Rs.Path) (bs index : Nat) : Rs.M W BlockChecksum :=
  ext.File_open path >>= fun file =>
  ext.h_seek file (Rs.SeekFrom.Start (index * bs)) >>= fun _ =>
  ext.h_read file (List.replicate bs 0) >>= fun r => pure (mkBlock ext bs index r)

/-- `collect::<io::Result<Vec<_>>>()` of a map over indices, in index order: the first error ends it -/
def seqM {W β : Type} (g : Nat → Rs.M W β) : List Nat → Rs.M W (List β)
  | [] => pure []
  | i :: t => g i >>= fun x => seqM g t >>= fun xs => pure (x :: xs)

theorem run_capture {W α : Type} (x : Rs.M W α) (w : W) : Rs.capture x w = (.ok (x w).1, (x w).2) := rfl

/-- `let r: io::Result<_> = …; r` — keeping a `Result` as a value and returning it is the computation itself -/
theorem capture_liftE {W α : Type} (x : Rs.M W α) : (Rs.capture x >>= Rs.liftE) = x := by
  funext w
  rw [run_bind, run_capture]
  rcases h : x w with ⟨r, w'⟩
  cases r <;> rfl

/-- a `for` loop that appends one effectful result per element is `seqM` -/
theorem forIn_collect {W β : Type} (g : Nat → Rs.M W β) (f : Nat → List β → Rs.M W (ForInStep (List β)))
    (hf : ∀ i a, f i a = g i >>= fun x => pure (ForInStep.yield (a ++ [x]))) (l : List Nat) (acc : List β) :
    forIn l acc f = seqM g l >>= fun xs => pure (acc ++ xs) := by
  induction l generalizing acc with
  | nil => simp [seqM]
  | cons i t ih =>
    rw [List.forIn_cons, hf, bind_assoc]
    simp only [seqM, bind_assoc, pure_bind, ih]
    simp

/-- NORMAL FORM of the translated `compute_checksums`, for every `Ext`: `metadata(path)`, the empty-file return,
    then the closure `blockM` for the indices `0, 1, …, div_ceil(len, block_size) - 1` in this order, the first
    error ending the run. -/
theorem compute_checksums_nf {W : Type} (ext : Ext W) (path : Rs.Path) (bs : Nat) :
    compute_checksums ext path bs =
      (ext.std_fs_metadata path >>= fun md =>
        if (Rs.len md == 0) = true then pure []
        else seqM (blockM ext path bs) (List.range' 0 (Rs.div_ceil (Rs.len md) bs))) := by
  unfold compute_checksums
  simp only [bind_pure_comp]
  refine bind_congr fun md => ?_
  split
  · rfl
  · rw [capture_liftE]
    rw [Std.Legacy.Range.forIn_eq_forIn_range']
    rw [forIn_collect (blockM ext path bs)]
    · simp [Std.Legacy.Range.size, Rs.cast]
    · intro i a
      simp only [blockM, map_eq_pure_bind, bind_assoc, pure_bind, mkBlock]
      rfl

/-! ### one block on the instance -/

/-- the bytes one capped read delivers for block `i` -/
def blkBytes (k bs : Nat) (old : Bytes) (i : Nat) : Bytes :=
  (old.drop (i * bs)).take (min (min bs k) (old.length - i * bs))

/-- what the closure answers for block `i` of a file `old` when `read` delivers at most `k` bytes per call -/
def blockOf (k : Nat) (strong : Bytes → Nat) (bs : Nat) (old : Bytes) (i : Nat) : BlockChecksum :=
  ⟨i, i * bs, min (min bs k) (old.length - i * bs), Delta.hashBytes (blkBytes k bs old i), strong (blkBytes k bs old i)⟩

/-- the world after the closure ran for block `i`: one more handle, left behind the bytes it read -/
def stepW (k bs : Nat) (p : Rs.Path) (old : Bytes) (w : DWorld) (i : Nat) : DWorld :=
  { w with opened := w.opened + 1,
           handle := upd w.handle (w.opened + 1) (some (p, i * bs + min (min bs k) (old.length - i * bs))) }

theorem readOp_eq_cap (h : Nat) (buf : List Nat) (k : Nat) (hk : buf.length ≤ k) : readOp h buf = readCapOp k h buf := by
  funext w
  simp only [readOp, readCapOp, Nat.min_eq_left hk]
  rfl

theorem length_blkBytes (k bs : Nat) (old : Bytes) (i : Nat) :
    (blkBytes k bs old i).length = min (min bs k) (old.length - i * bs) := by
  simp only [blkBytes, List.length_take, List.length_drop]; omega

theorem slice_prefix {α : Type} (a b : List α) (n : Nat) (hn : n = a.length) : Rs.slice (a ++ b) 0 n = a := by
  subst hn; simp [Rs.slice]

theorem blockM_inst (k : Nat) (strong : Bytes → Nat) (rd : Nat → List Nat → Rs.M DWorld (Nat × List Nat)) (bs : Nat)
    (hrd : ∀ h w, (w.source h).isSome → rd h (List.replicate bs 0) w = readCapOp k h (List.replicate bs 0) w)
    (p : Rs.Path) (old : Bytes) (w : DWorld) (hfile : w.files p = some old) (i : Nat) :
    blockM (cinstWith strong rd) p bs i w = (.ok (blockOf k strong bs old i), stepW k bs p old w i) := by
  have h1 : (cinstWith strong rd).File_open p w =
      (.ok (w.opened + 1), { w with opened := w.opened + 1, handle := upd w.handle (w.opened + 1) (some (p, 0)) }) := by
    simp [cinstWith, openOp, hfile]
  have h2 : (cinstWith strong rd).h_seek (w.opened + 1) (Rs.SeekFrom.Start (i * bs))
      { w with opened := w.opened + 1, handle := upd w.handle (w.opened + 1) (some (p, 0)) } =
      (.ok (i * bs), { w with opened := w.opened + 1, handle := upd w.handle (w.opened + 1) (some (p, i * bs)) }) := by
    simp [cinstWith, seekOp, DWorld.source, DWorld.setPos, hfile]
  have h3 : (cinstWith strong rd).h_read (w.opened + 1) (List.replicate bs 0)
      { w with opened := w.opened + 1, handle := upd w.handle (w.opened + 1) (some (p, i * bs)) } =
      (.ok (min (min bs k) (old.length - i * bs),
          ofU8 (blkBytes k bs old i) ++ (List.replicate bs 0).drop (min (min bs k) (old.length - i * bs))),
        stepW k bs p old w i) := by
    show rd _ _ _ = _
    rw [hrd _ _ (by simp [DWorld.source, hfile])]
    simp [readCapOp, DWorld.source, DWorld.setPos, hfile, stepW, blkBytes]
  unfold blockM
  rw [run_bind, h1]
  simp only
  rw [run_bind, h2]
  simp only
  rw [run_bind, h3]
  simp only [run_pure, mkBlock, blockOf]
  rw [slice_prefix _ _ _ (by rw [length_ofU8, length_blkBytes])]
  simp [cinstWith, Rs.xxh3_new]

theorem stepW_files (k bs : Nat) (p : Rs.Path) (old : Bytes) (w : DWorld) (i : Nat) :
    (stepW k bs p old w i).files = w.files := rfl

theorem foldl_stepW_files (k bs : Nat) (p : Rs.Path) (old : Bytes) (l : List Nat) (w : DWorld) :
    (l.foldl (stepW k bs p old) w).files = w.files := by
  induction l generalizing w with
  | nil => rfl
  | cons i t ih => rw [List.foldl_cons, ih, stepW_files]

theorem foldl_stepW_opened (k bs : Nat) (p : Rs.Path) (old : Bytes) (l : List Nat) (w : DWorld) :
    (l.foldl (stepW k bs p old) w).opened = w.opened + l.length := by
  induction l generalizing w with
  | nil => rfl
  | cons i t ih => rw [List.foldl_cons, ih]; simp only [stepW, List.length_cons]; omega

/-- the whole map on the instance, for ANY list of indices: every closure succeeds -/
theorem seqM_inst (k : Nat) (strong : Bytes → Nat) (rd : Nat → List Nat → Rs.M DWorld (Nat × List Nat)) (bs : Nat)
    (hrd : ∀ h w, (w.source h).isSome → rd h (List.replicate bs 0) w = readCapOp k h (List.replicate bs 0) w)
    (p : Rs.Path) (old : Bytes) (l : List Nat) (w : DWorld) (hfile : w.files p = some old) :
    seqM (blockM (cinstWith strong rd) p bs) l w =
      (.ok (l.map (blockOf k strong bs old)), l.foldl (stepW k bs p old) w) := by
  induction l generalizing w with
  | nil => rfl
  | cons i t ih =>
    simp only [seqM]
    rw [run_bind, blockM_inst k strong rd bs hrd p old w hfile i]
    simp only
    rw [run_bind, ih (stepW k bs p old w i) (by rw [stepW_files]; exact hfile)]
    rfl

/-! ### the model as a map over block indices -/

/-- block `j` of the model's list for the bytes `l` starting at offset `off` -/
def modelBlock (strong : Bytes → Nat) (bs off : Nat) (l : Bytes) (j : Nat) : Delta.Block Nat :=
  ⟨off + j * bs, ((l.drop (j * bs)).take bs).length, Delta.hashBytes ((l.drop (j * bs)).take bs),
    strong ((l.drop (j * bs)).take bs)⟩

theorem div_ceil_step (a b : Nat) (ha : 0 < a) (hb : 0 < b) : Rs.div_ceil a b = Rs.div_ceil (a - b) b + 1 := by
  unfold Rs.div_ceil
  have h1 : a + b - 1 = (a - 1) + b := by omega
  rw [h1, Nat.add_div_right _ hb]
  congr 1
  by_cases h : b ≤ a
  · congr 1; omega
  · rw [Nat.div_eq_of_lt (by omega), Nat.div_eq_of_lt (by omega)]

theorem div_ceil_zero (b : Nat) : Rs.div_ceil 0 b = 0 := by
  unfold Rs.div_ceil
  cases b with
  | zero => simp
  | succ n => simp

theorem checksumsFrom_eq_range (strong : Bytes → Nat) (bs : Nat) (hbs : 0 < bs) (off : Nat) (l : Bytes) :
    Delta.checksumsFrom strong bs off l =
      (List.range' 0 (Rs.div_ceil l.length bs)).map (modelBlock strong bs off l) := by
  fun_induction Delta.checksumsFrom strong bs off l with
  | case1 off l h =>
    have : l = [] := by rcases h with h | h; · omega
                        · exact h
    subst this
    simp [div_ceil_zero]
  | case2 off l h blk ih =>
    have hl : l ≠ [] := fun e => h (Or.inr e)
    have hpos : 0 < l.length := List.length_pos_iff.mpr hl
    rw [ih, div_ceil_step _ _ hpos hbs, List.range'_succ]
    simp only [List.map_cons, List.length_drop]
    congr 1
    · simp [modelBlock, blk]
    · have hr : List.range' (0 + 1) (Rs.div_ceil (l.length - bs) bs) =
          (List.range' 0 (Rs.div_ceil (l.length - bs) bs)).map (1 + ·) := by
        rw [List.map_add_range']
      rw [hr, List.map_map]
      apply List.map_congr_left
      intro j _
      have e1 : (1 + j) * bs = bs + j * bs := by rw [Nat.add_mul]; omega
      simp only [modelBlock, Function.comp, List.drop_drop, e1, Nat.add_assoc]

/-! ### the whole function on the instance, reads capped at `k` -/

theorem statOp_some (p : Rs.Path) (old : Bytes) (w : DWorld) (hfile : w.files p = some old) :
    statOp p w = (.ok { dir := false, mtime := 0, size := old.length }, w) := by
  simp [statOp, hfile]

/-- EXACT RESULT for every block size (0 included), every file, every cap `k` on the bytes one `read` delivers:
    block `i` is labelled `offset = i * bs`, `size = min(bs, k, len - i * bs)` and hashes exactly those bytes. -/
theorem compute_checksums_cap (k : Nat) (strong : Bytes → Nat) (rd : Nat → List Nat → Rs.M DWorld (Nat × List Nat))
    (bs : Nat)
    (hrd : ∀ h w, (w.source h).isSome → rd h (List.replicate bs 0) w = readCapOp k h (List.replicate bs 0) w)
    (p : Rs.Path) (old : Bytes) (w : DWorld) (hfile : w.files p = some old) :
    compute_checksums (cinstWith strong rd) p bs w =
      (.ok ((List.range' 0 (Rs.div_ceil old.length bs)).map (blockOf k strong bs old)),
       (List.range' 0 (Rs.div_ceil old.length bs)).foldl (stepW k bs p old) w) := by
  rw [compute_checksums_nf, run_bind]
  have h1 : (cinstWith strong rd).std_fs_metadata p w = (.ok { dir := false, mtime := 0, size := old.length }, w) :=
    statOp_some p old w hfile
  rw [h1]
  simp only
  by_cases he : old.length = 0
  · have h0 : (Rs.len ({ dir := false, mtime := 0, size := old.length } : Rs.Metadata) == 0) = true := by
      simp [Rs.len, he]
    rw [if_pos h0, he, div_ceil_zero]
    rfl
  · have h0 : ¬ (Rs.len ({ dir := false, mtime := 0, size := old.length } : Rs.Metadata) == 0) = true := by
      simpa [Rs.len] using he
    rw [if_neg h0]
    exact seqM_inst k strong rd bs hrd p old _ w hfile

/-- with a cap of at least one block the bytes of block `i` are the model's -/
theorem blkBytes_full (k bs : Nat) (hk : bs ≤ k) (old : Bytes) (i : Nat) :
    blkBytes k bs old i = (old.drop (i * bs)).take bs := by
  unfold blkBytes
  rw [Nat.min_eq_left hk, List.take_eq_take_iff]
  simp

theorem absBlockC_blockOf_full (k : Nat) (strong : Bytes → Nat) (bs : Nat) (hk : bs ≤ k) (old : Bytes) (i : Nat) :
    absBlockC (blockOf k strong bs old i) = modelBlock strong bs 0 old i := by
  simp only [absBlockC, blockOf, modelBlock, blkBytes_full k bs hk, Nat.zero_add, Nat.min_eq_left hk,
    List.length_take, List.length_drop]

theorem map_blockOf_full (k : Nat) (strong : Bytes → Nat) (bs : Nat) (hbs : 0 < bs) (hk : bs ≤ k) (old : Bytes) :
    ((List.range' 0 (Rs.div_ceil old.length bs)).map (blockOf k strong bs old)).map absBlockC =
      Delta.checksums strong bs old := by
  rw [Delta.checksums, checksumsFrom_eq_range strong bs hbs, List.map_map]
  apply List.map_congr_left
  intro i _
  exact absBlockC_blockOf_full k strong bs hk old i

/-- the hypothesis of `compute_checksums_cap` from `FullReads`, with `k = bs` -/
theorem fullReads_cap (rd : Nat → List Nat → Rs.M DWorld (Nat × List Nat)) (hfull : FullReads rd) (bs : Nat) :
    ∀ h w, (w.source h).isSome → rd h (List.replicate bs 0) w = readCapOp bs h (List.replicate bs 0) w := by
  intro h w hs
  rw [hfull h _ w hs, readOp_eq_cap _ _ bs (by simp)]

theorem fullReads_readOp : FullReads readOp := fun _ _ _ _ => rfl

end SyModel.GenChecksums
