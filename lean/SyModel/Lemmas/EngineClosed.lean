/-
  Parent-closedness of the destination (`every strict ancestor of an existing path is a
  directory`) is an invariant of fault-free task execution; consequences for delete-only folds
  (order independence) and for re-running on an up-to-date destination.
-/
import SyModel.Lemmas.EngineFixpoint
namespace SyModel.Engine

/-- `DstParentClosed` in terms of `get?` -/
def GClosed (d : Map DNode) : Prop :=
  ∀ p, d.get? p ≠ none → ∀ a, a ≠ [] → isPrefix a p = true → a ≠ p → d.get? a = some .dir

theorem gclosed_iff (d : Map DNode) : GClosed d ↔ DstParentClosed d := by
  constructor
  · intro h p hp a ha
    obtain ⟨h1, h2, h3⟩ := mem_ancestors.1 ha
    exact h p ((Map.mem_keys_iff d p).1 hp) a h1 h2 h3
  · intro h p hp a h1 h2 h3
    exact h.anc hp h1 h2 h3

theorem GClosed.congr {d d' : Map DNode} (h : GClosed d) (he : ∀ p, d'.get? p = d.get? p) : GClosed d' := by
  intro p hp a h1 h2 h3
  rw [he] at hp ⊢
  exact h p hp a h1 h2 h3

theorem mkdirAll_closed {d0 d : Map DNode} {r : Path} (h : mkdirAll d0 r = some d) (hc : GClosed d0) :
    GClosed d := by
  intro p hp a h1 h2 h3
  rcases mkdirAll_frame h p with hs | ⟨_, hpr, _, _⟩
  · rw [hs] at hp
    have := hc p hp a h1 h2 h3
    rcases mkdirAll_frame h a with ha | ⟨_, _, hn, _⟩
    · rw [ha]; exact this
    · rw [this] at hn; cases hn
  · exact mkdirAll_dirs h a h1 (isPrefix_trans h2 hpr)

theorem set_mkdir_closed {d0 d : Map DNode} {r : Path} {v : DNode}
    (h : mkdirAll d0 (parentOf r) = some d) (hc : GClosed d0) (hnd : d.get? r ≠ some .dir) :
    GClosed (d.set r v) := by
  have hcd := mkdirAll_closed h hc
  intro p hp a h1 h2 h3
  by_cases hpr : p = r
  · subst hpr; exact set_mkdir_anc v h a h1 h2 h3
  · rw [Map.get?_set_ne _ _ _ _ (Ne.symm hpr)] at hp
    have := hcd p hp a h1 h2 h3
    by_cases har : a = r
    · subst har; exact absurd this hnd
    · rw [Map.get?_set_ne _ _ _ _ (Ne.symm har)]; exact this

/-- unlinking a symlink keeps the destination parent-closed: nothing lives below a link -/
theorem dirBase_closed (act : Act) {d : Map DNode} (r : Path) (hc : GClosed d) : GClosed (dirBase act d r) := by
  intro p hp a h1 h2 h3
  by_cases hpr : p = r
  · subst hpr
    rw [dirBase_get?_ne _ _ _ _ h3]
    rcases dirBase_get?_self act d p with he | ⟨_, _, hn⟩
    · rw [he] at hp; exact hc p hp a h1 h2 h3
    · exact absurd hn hp
  · rw [dirBase_get?_ne _ _ _ _ hpr] at hp
    have hda := hc p hp a h1 h2 h3
    by_cases har : a = r
    · subst har
      rcases dirBase_get?_self act d a with he | ⟨_, ⟨s, hs⟩, _⟩
      · rw [he]; exact hda
      · rw [hda] at hs; cases hs
    · rw [dirBase_get?_ne _ _ _ _ har]; exact hda

/-- fault-free execution keeps the destination parent-closed -/
theorem perform_closed {cfg : Cfg} {w w' : World} {t : Task} (h : perform cfg w t = some w')
    (hc : GClosed w.dst) : GClosed w'.dst := by
  by_cases hdry : cfg.dryRun = true
  · rw [perform_dry cfg hdry] at h; cases h; exact hc
  · simp only [Bool.not_eq_true] at hdry
    by_cases hs : t.act = .skip
    · rw [perform_skip hs] at h; cases h; exact hc
    · by_cases hd : t.act = .delete
      · have sp := (perform_delete_spec hd hdry h).2.2.2.2
        intro p hp a h1 h2 h3
        rw [sp] at hp ⊢
        split at hp
        · exact absurd rfl hp
        · rename_i hcov
          have hda := hc p hp a h1 h2 h3
          have : (isPrefix t.rel a && (a == t.rel || w.dst.get? t.rel == some DNode.dir)) = false := by
            cases hpa : isPrefix t.rel a with
            | false => rfl
            | true =>
              have hpp := isPrefix_trans hpa h2
              simp only [hpp, Bool.true_and, Bool.or_eq_true, beq_iff_eq, not_or] at hcov
              have hat : a ≠ t.rel := by
                intro hat; subst hat; exact hcov.2 hda
              simp [hat, hcov.2]
          rw [this]; exact hda
      · rw [perform_cu hs hd hdry] at h
        unfold performCU at h
        cases hp : t.payload with
        | nothing => simp only [hp, Option.some.injEq] at h; subst h; exact hc
        | dir =>
          simp only [hp] at h
          cases hm : mkdirAll (dirBase t.act w.dst t.rel) t.rel with
          | none => simp [hm] at h
          | some d =>
            simp only [hm, Option.map_some, Option.some.injEq] at h; subst h
            exact mkdirAll_closed hm (dirBase_closed t.act t.rel hc)
        | symlink text =>
          simp only [hp] at h
          obtain ⟨d, hm, hnd, hd', _⟩ := writeSymlink_spec h
          rw [hd']; exact set_mkdir_closed hm hc hnd
        | file m n =>
          simp only [hp] at h
          have hwf : ∀ w1, writeFile cfg w t.rel m = some w1 → GClosed w1.dst := by
            intro w1 h1
            obtain ⟨d, node, hm, hnd, hd', _⟩ := writeFile_spec h1
            rw [hd']; exact set_mkdir_closed hm hc hnd
          split at h
          · split at h
            · split at h
              · obtain ⟨d, fm, hm, hnone, _, hd', _⟩ := linkFile_spec h
                rw [hd']; exact set_mkdir_closed hm hc (by rw [hnone]; simp)
              · obtain ⟨d, fm, hm, hnd, _, hd', _⟩ := relinkFile_spec h
                rw [hd']; exact set_mkdir_closed hm hc hnd
            · cases h1 : writeFile cfg w t.rel m with
              | none => simp [h1] at h
              | some w1 =>
                simp only [h1, Option.map_some, Option.some.injEq] at h
                subst h; exact hwf w1 h1
          · exact hwf w' h

theorem execTask_noFaults_closed (cfg : Cfg) (st : Exec) (t : Task) (hc : GClosed st.w.dst) :
    GClosed (execTask cfg noFaults st t).w.dst := by
  rcases execTask_cases cfg noFaults st t with ⟨g, hf, _⟩ | ⟨_, w', hp, he⟩ | ⟨_, _, he⟩
  · rw [faultOf_noFaults] at hf; cases hf
  · rw [he]; exact perform_closed hp hc
  · rw [he]; exact hc

theorem foldl_noFaults_closed (cfg : Cfg) (ts : List Task) (st : Exec) (hc : GClosed st.w.dst) :
    GClosed (ts.foldl (execTask cfg noFaults) st).w.dst := by
  induction ts generalizing st with
  | nil => exact hc
  | cons t ts ih => rw [List.foldl_cons]; exact ih _ (execTask_noFaults_closed cfg st t hc)

/-- a clean run keeps a parent-closed destination parent-closed -/
theorem run_closed {cfg : Cfg} {flt : Faults} {scan : List SEntry} {dst : Map DNode} {n : Nat}
    (hok : (runF cfg flt scan dst n).exit = 0) (hc : GClosed dst) : GClosed (runF cfg flt scan dst n).dst := by
  have heq := runF_eq_run_of_exit_zero hok
  rw [heq] at hok ⊢
  unfold run at hok ⊢
  rw [(runF_of_not_refused (runF_exit_zero hok).1).1]
  exact foldl_noFaults_closed cfg _ _ hc

/-! ### deleting from a parent-closed destination: order does not matter -/

theorem delete_closed_get? {cfg : Cfg} (hdry : cfg.dryRun = false) {w w' : World} {t : Task}
    (hd : t.act = .delete) (hne : t.rel ≠ []) (hc : GClosed w.dst) (h : perform cfg w t = some w') (x : Path) :
    w'.dst.get? x = if isPrefix t.rel x then none else w.dst.get? x := by
  rw [(perform_delete_spec hd hdry h).2.2.2.2 x]
  cases hp : isPrefix t.rel x with
  | false => simp
  | true =>
    simp only [Bool.true_and, ↓reduceIte]
    split
    · rfl
    · rename_i hcov
      simp only [Bool.or_eq_true, beq_iff_eq, not_or] at hcov
      cases hg : w.dst.get? x with
      | none => rfl
      | some v =>
        exact absurd (hc x (by rw [hg]; simp) t.rel hne hp (Ne.symm hcov.1)) hcov.2

/-- the result of any list of deletions on a parent-closed destination: exactly the paths at or
    below a deleted path are gone -/
theorem foldl_deletes_get? {cfg : Cfg} (hdry : cfg.dryRun = false) (ds : List Task) (st : Exec)
    (hd : ∀ t ∈ ds, t.act = .delete) (hne : ∀ t ∈ ds, t.rel ≠ []) (hc : GClosed st.w.dst) (x : Path) :
    (ds.foldl (execTask cfg noFaults) st).w.dst.get? x =
      if ds.any (fun t => isPrefix t.rel x) then none else st.w.dst.get? x := by
  induction ds generalizing st with
  | nil => simp
  | cons t ds ih =>
    rw [List.foldl_cons]
    obtain ⟨w', hp, he⟩ := execTask_noFaults_delete hdry st (hd t (List.mem_cons_self ..))
    have hc' : GClosed (execTask cfg noFaults st t).w.dst := execTask_noFaults_closed cfg st t hc
    rw [ih _ (fun t' ht' => hd t' (List.mem_cons_of_mem _ ht')) (fun t' ht' => hne t' (List.mem_cons_of_mem _ ht')) hc']
    rw [he]
    simp only [List.any_cons]
    rw [delete_closed_get? hdry (hd t (List.mem_cons_self ..)) (hne t (List.mem_cons_self ..)) hc hp x]
    by_cases h1 : isPrefix t.rel x = true <;> by_cases h2 : (ds.any fun t => isPrefix t.rel x) = true <;>
      simp [h1, h2]

/-! ### re-running on an up-to-date destination rewrites nothing observable -/

theorem FileMeta.eq_of_matches {cfg : Cfg} {d m : FileMeta} (h : Matches cfg d m) :
    ({ content := m.content, size := m.size, mtime := m.mtime,
       xattrs := if cfg.xattrs then m.xattrs else [], ino := d.ino } : FileMeta) = d := by
  obtain ⟨a, b, c, e⟩ := h
  cases d
  simp only at a b c e
  simp [a, b, c, e]

/-- rewriting a file that already carries the source's data changes no `get?` -/
theorem writeFile_rewrite {cfg : Cfg} {w : World} {p : Path} {m d : FileMeta}
    (hg : w.dst.get? p = some (.file d))
    (hanc : ∀ x, x ≠ [] → isPrefix x p = true → x ≠ p → w.dst.get? x = some .dir)
    (hm : Matches cfg d m) :
    ∃ w', writeFile cfg w p m = some w' ∧ (∀ q, w'.dst.get? q = w.dst.get? q) ∧ w'.linkMap = w.linkMap := by
  have hmk : mkdirAll w.dst (parentOf p) = some w.dst := by
    apply mkdirAll_of_dirs
    intro x hx hpx
    apply hanc x hx (isPrefix_trans hpx (parentOf_isPrefix p))
    intro he; subst he
    have h1 := isPrefix_length hpx
    have : x.length ≠ 0 := fun h0 => hx (List.eq_nil_of_length_eq_zero h0)
    simp [parentOf] at h1; omega
  unfold writeFile
  simp only [hmk, hg]
  refine ⟨_, rfl, fun q => ?_, rfl⟩
  simp only [FileMeta.eq_of_matches hm, Map.get?_set]
  split
  · rename_i h; subst h; exact hg.symm
  · rfl

theorem planFileAct_file_cases (cfg : Cfg) (m d : FileMeta) :
    planFileAct cfg m (some (.file d)) = .skip ∨ planFileAct cfg m (some (.file d)) = .update := by
  unfold planFileAct
  simp only
  split
  · split <;> simp
  · split <;> simp

/-- re-linking a path that already is a name of the first member's node changes no `get?` -/
theorem relinkFile_same {w : World} {p first : Path} {d : FileMeta}
    (hg : w.dst.get? p = some (.file d))
    (hanc : ∀ x, x ≠ [] → isPrefix x p = true → x ≠ p → w.dst.get? x = some .dir)
    (hf : w.dst.get? first = some (.file d)) :
    ∃ w', relinkFile w p first = some w' ∧ (∀ q, w'.dst.get? q = w.dst.get? q) ∧ w'.linkMap = w.linkMap := by
  have hmk : mkdirAll w.dst (parentOf p) = some w.dst := by
    apply mkdirAll_of_dirs
    intro x hx hpx
    apply hanc x hx (isPrefix_trans hpx (parentOf_isPrefix p))
    intro he; subst he
    have h1 := isPrefix_length hpx
    have : x.length ≠ 0 := fun h0 => hx (List.eq_nil_of_length_eq_zero h0)
    simp [parentOf] at h1; omega
  unfold relinkFile
  simp only [hmk, hg, hf]
  refine ⟨_, rfl, fun q => ?_, rfl⟩
  simp only [Map.get?_set]
  split
  · rename_i h; subst h; exact hg.symm
  · rfl

/-- what the link map of a re-run holds: destination paths of selected `-H` group members that
    the first run transferred -/
def RelinkInv (cfg : Cfg) (scan : List SEntry) (dst : Map DNode) (L : List (Nat × Path × Nat)) : Prop :=
  ∀ y ∈ L, ∃ e' ∈ scanFilter cfg scan, ∃ m' n', e'.kind = .file m' n' ∧ 1 < n' ∧ m'.ino = y.1 ∧
    e'.rel = y.2.1 ∧ planFileAct cfg m' (dst.get? e'.rel) ≠ .skip

/-- in `d1` the transferred members of one source inode are names of one node -/
def Shared (cfg : Cfg) (scan : List SEntry) (dst d1 : Map DNode) : Prop :=
  ∀ e ∈ scanFilter cfg scan, ∀ e' ∈ scanFilter cfg scan, ∀ m k m' k', e.kind = .file m k →
    e'.kind = .file m' k' → 1 < k → 1 < k' → m.ino = m'.ino →
    planFileAct cfg m (dst.get? e.rel) ≠ .skip → planFileAct cfg m' (dst.get? e'.rel) ≠ .skip →
    d1.get? e.rel = d1.get? e'.rel

theorem rerun_task_pointwise {cfg : Cfg} (hdry : cfg.dryRun = false) {scan : List SEntry} {dst d1 : Map DNode}
    {e : SEntry} (he : e ∈ scanFilter cfg scan) (ep : EntryPost cfg scan dst e (d1.get? e.rel))
    (hne : e.kind = .dir → e.rel ≠ [])
    (hc : GClosed d1) (hsh : cfg.hardlinks = true → Shared cfg scan dst d1)
    (st : Exec) (hpt : ∀ p, st.w.dst.get? p = d1.get? p) (hL : RelinkInv cfg scan dst st.w.linkMap) :
    (∀ p, (execTask cfg noFaults st (planEntry cfg d1 e)).w.dst.get? p = d1.get? p) ∧
    RelinkInv cfg scan dst (execTask cfg noFaults st (planEntry cfg d1 e)).w.linkMap ∧
    (execTask cfg noFaults st (planEntry cfg d1 e)).b.errors = st.b.errors ∧
    (execTask cfg noFaults st (planEntry cfg d1 e)).b.created = st.b.created ∧
    (execTask cfg noFaults st (planEntry cfg d1 e)).b.deleted = st.b.deleted := by
  by_cases hs : (planEntry cfg d1 e).act = .skip
  · have hstep : execTask cfg noFaults st (planEntry cfg d1 e) = ⟨st.w, st.b.ok (planEntry cfg d1 e)⟩ := by
      rcases execTask_cases cfg noFaults st (planEntry cfg d1 e) with ⟨g, _, hns, _⟩ | ⟨_, w', hp, he⟩ | ⟨_, hp, _⟩
      · exact absurd hs hns
      · rw [perform_skip hs] at hp; cases hp; exact he
      · rw [perform_skip hs] at hp; cases hp
    rw [hstep]
    refine ⟨hpt, hL, Book.ok_errors _ _, ?_, ?_⟩ <;> (unfold Book.ok; rw [hs])
  · -- only a regular file (or followed link) can be re-planned as non-skip
    have key : ∃ m n, planEntry cfg d1 e = ⟨planFileAct cfg m (d1.get? e.rel), e.rel, .file m n⟩ ∧
        FilePost cfg dst e m (d1.get? e.rel) ∧ (e.kind = .file m n ∨ n = 1) := by
      cases hk : e.kind with
      | file m k => exact ⟨m, k, by unfold planEntry; simp [hk], ep.file m k hk, Or.inl rfl⟩
      | dir =>
        exfalso; apply hs
        exact planEntry_skip_of_entryPost_nonfile hne (by simp [hk]) (by simp [hk]) ep
      | symlink text tgt =>
        by_cases hf : cfg.links = .follow ∧ ∃ m, tgt = .file m
        · obtain ⟨hl, m, rfl⟩ := hf
          exact ⟨m, 1, by unfold planEntry; simp [hk, hl], ep.link_follow text m hk hl, Or.inr rfl⟩
        · exfalso; apply hs
          apply planEntry_skip_of_entryPost_nonfile hne (by simp [hk]) _ ep
          intro text' m' hk' hl
          rw [hk] at hk'
          simp only [SKind.symlink.injEq] at hk'
          exact hf ⟨hl, m', hk'.2⟩
    obtain ⟨m, n, hpe, ⟨d, hd1, hskip, hmat, _⟩, hkind⟩ := key
    have hact : planFileAct cfg m (d1.get? e.rel) = .update := by
      rw [hpe] at hs
      rw [hd1] at hs ⊢
      rcases planFileAct_file_cases cfg m d with h | h
      · exact absurd h hs
      · exact h
    have hns1 : planFileAct cfg m (dst.get? e.rel) ≠ .skip := by
      intro hsk
      rw [hpe] at hs
      apply hs
      show planFileAct cfg m (d1.get? e.rel) = .skip
      rw [hskip hsk]; exact hsk
    have hmatch : Matches cfg d m := hmat hns1
    have hgst : st.w.dst.get? e.rel = some (.file d) := by rw [hpt]; exact hd1
    have hancst : ∀ x, x ≠ [] → isPrefix x e.rel = true → x ≠ e.rel → st.w.dst.get? x = some .dir :=
      fun x hx hpx hxe => by rw [hpt]; exact hc e.rel (by rw [hd1]; simp) x hx hpx hxe
    obtain ⟨w', hw, hget, hlm⟩ := writeFile_rewrite (cfg := cfg) (w := st.w) (p := e.rel) (m := m) (d := d)
      hgst hancst hmatch
    -- the three ways the update is carried out
    have hperf : ∃ w'', perform cfg st.w (planEntry cfg d1 e) = some w'' ∧
        (∀ q, w''.dst.get? q = st.w.dst.get? q) ∧ RelinkInv cfg scan dst w''.linkMap := by
      rw [perform_cu hs (planEntry_act_ne_delete _ _ _) hdry]
      unfold performCU
      rw [hpe]
      simp only [hact]
      by_cases hb : cfg.hardlinks = true ∧ 1 < n
      · rw [if_pos (by simp [hb.1, hb.2])]
        cases hfind : st.w.linkMap.find? (·.1 == m.ino) with
        | none =>
          simp only [hw, Option.map_some]
          refine ⟨_, rfl, hget, ?_⟩
          intro y hy
          simp only at hy
          rw [hlm] at hy
          rcases List.mem_cons.1 hy with rfl | hy
          · rcases hkind with hk | h1
            · exact ⟨e, he, m, n, hk, hb.2, rfl, rfl, hns1⟩
            · omega
          · exact hL y hy
        | some y =>
          obtain ⟨i, first, j⟩ := y
          simp only [reduceCtorEq, ↓reduceIte]
          obtain ⟨e', he', m', n', hk', hn', hi', hr', hs'⟩ := hL _ (List.mem_of_find?_eq_some hfind)
          have hyi : i = m.ino := by have := List.find?_some hfind; simpa using this
          rcases hkind with hk | h1
          · have hshare := hsh hb.1 e he e' he' m n m' n' hk hk' hb.2 hn' (by rw [hi']; exact hyi.symm) hns1 hs'
            simp only at hr'
            have hfirst : st.w.dst.get? first = some (.file d) := by
              rw [hpt, ← hr', ← hshare]; exact hd1
            obtain ⟨w2, h2, g2, l2⟩ := relinkFile_same hgst hancst hfirst
            exact ⟨w2, h2, g2, by rw [l2]; exact hL⟩
          · omega
      · rw [if_neg (by intro h; simp at h; exact hb h)]
        exact ⟨w', hw, hget, by rw [hlm]; exact hL⟩
    obtain ⟨w'', hperf, hget'', hL''⟩ := hperf
    have hstep : execTask cfg noFaults st (planEntry cfg d1 e) = ⟨w'', st.b.ok (planEntry cfg d1 e)⟩ := by
      rcases execTask_cases cfg noFaults st (planEntry cfg d1 e) with ⟨g, hf, _⟩ | ⟨_, w3, hp, he⟩ | ⟨_, hp, _⟩
      · rw [faultOf_noFaults] at hf; cases hf
      · rw [hperf] at hp; cases hp; exact he
      · rw [hperf] at hp; cases hp
    rw [hstep]
    have hau : (planEntry cfg d1 e).act = .update := by rw [hpe]; exact hact
    refine ⟨fun p => (hget'' p).trans (hpt p), hL'', Book.ok_errors _ _, ?_, ?_⟩ <;> (unfold Book.ok; rw [hau])

/-- **re-run, any comparison mode (including `--ignore-times`)**: on the result of a clean run
    over a parent-closed destination, the second run leaves the node at every path as it is
    (content, size, mtime, xattrs, link text *and* inode: a rewritten file keeps its inode),
    creates and deletes nothing and does not fail -/
theorem rerun_content_unchanged {cfg : Cfg} (hdry : cfg.dryRun = false) {scan : List SEntry} {dst : Map DNode}
    {n n' : Nat} (hu : UniqueRels scan) (hnr : NoRoot scan)
    (hdel : cfg.delete = true → ParentClosed scan ∧ dst.get? [] = none)
    (hino : cfg.hardlinks = true → InoConsistent scan) (hc : GClosed dst)
    (hok : (run cfg scan dst n).exit = 0) :
    (∀ p, (run cfg scan (run cfg scan dst n).dst n').dst.get? p = (run cfg scan dst n).dst.get? p) ∧
    (run cfg scan (run cfg scan dst n).dst n').created = 0 ∧
    (run cfg scan (run cfg scan dst n).dst n').deleted = 0 ∧
    (run cfg scan (run cfg scan dst n).dst n').errors = [] ∧
    (run cfg scan (run cfg scan dst n).dst n').exit = 0 := by
  unfold run at hok
  have hc1 : GClosed (runF cfg noFaults scan dst n).dst := run_closed hok hc
  have hplan : plan cfg scan (runF cfg noFaults scan dst n).dst =
      (scanFilter cfg scan).map (planEntry cfg (runF cfg noFaults scan dst n).dst) := by
    rw [plan_eq]
    by_cases hd : cfg.delete = true
    · simp only [hd, ↓reduceIte]
      rw [no_deletions_after_clean_run hdry hd (hdel hd).1 hok]; simp
    · simp [hd]
  -- `-H`: transferred members of one inode share their node after the first run
  have hsh : cfg.hardlinks = true → Shared cfg scan dst (runF cfg noFaults scan dst n).dst := by
    intro hhl e he e' he' m k m' k' hk hk' h1 h1' hi hs hs'
    rw [(runF_of_not_refused (runF_exit_zero hok).1).1]
    exact run_share hdry noFaults scan dst n hu hdel hhl hk hk' h1 h1' hi hs hs'
      (taskOk_of_exit_zero hok (planEntry_mem_plan he)) (taskOk_of_exit_zero hok (planEntry_mem_plan he'))
  -- the invariant over the entry tasks
  have inv : ∀ (es : List SEntry), (∀ e ∈ es, e ∈ scanFilter cfg scan) → ∀ st : Exec,
      (∀ p, st.w.dst.get? p = (runF cfg noFaults scan dst n).dst.get? p) →
      RelinkInv cfg scan dst st.w.linkMap →
      let fin := (es.map (planEntry cfg (runF cfg noFaults scan dst n).dst)).foldl (execTask cfg noFaults) st
      (∀ p, fin.w.dst.get? p = (runF cfg noFaults scan dst n).dst.get? p) ∧
        fin.b.errors = st.b.errors ∧ fin.b.created = st.b.created ∧ fin.b.deleted = st.b.deleted := by
    intro es
    induction es with
    | nil => intro _ st hpt _; exact ⟨hpt, rfl, rfl, rfl⟩
    | cons e es ih =>
      intro hes st hpt hL
      simp only [List.map_cons, List.foldl_cons]
      have he := hes e (List.mem_cons_self ..)
      have ep := entryPost_of_exit_zero hdry noFaults scan dst n hu hdel hino he hok
      obtain ⟨a, l, b, c, d⟩ := rerun_task_pointwise hdry he ep (fun _ => hnr e (mem_of_mem_scanFilter he)) hc1 hsh
        st hpt hL
      obtain ⟨a', b', c', d'⟩ := ih (fun e' he' => hes e' (List.mem_cons_of_mem _ he')) _ a l
      exact ⟨a', b'.trans b, c'.trans c, d'.trans d⟩
  obtain ⟨i1, i2, i3, i4⟩ := inv (scanFilter cfg scan) (fun _ h => h)
    (initExec (runF cfg noFaults scan dst n).dst n') (fun _ => rfl) (fun y hy => by cases hy)
  have hdels : (plan cfg scan (runF cfg noFaults scan dst n).dst).filter (·.act == .delete) = [] := by
    rw [List.filter_eq_nil_iff, hplan]
    intro t ht
    obtain ⟨e, _, rfl⟩ := List.mem_map.1 ht
    simpa using planEntry_act_ne_delete _ _ _
  have hr : (runF cfg noFaults scan (runF cfg noFaults scan dst n).dst n').refused = false := by
    rw [runF_refused_iff, hdels]; simp [guardRefuses]
  obtain ⟨a1, _, a3, a4, _, a6, _, _, a9⟩ := runF_of_not_refused hr
  unfold finalExec at a1 a3 a4 a6 a9
  rw [hplan] at a1 a3 a4 a6 a9
  unfold run
  refine ⟨fun p => by rw [a1]; exact i1 p, by rw [a4, i3]; rfl, by rw [a6, i4]; rfl, by rw [a3, i2]; rfl,
    by rw [a9, i2]; rfl⟩

/-- after a clean `--delete` run of a root-free scan the root is (still) not a destination entry -/
theorem result_root_none {cfg : Cfg} (hdry : cfg.dryRun = false) {flt : Faults} {scan : List SEntry}
    {dst : Map DNode} {n : Nat} (hd : cfg.delete = true) (hc : ParentClosed scan) (hnr : NoRoot scan)
    (hok : (runF cfg flt scan dst n).exit = 0) : (runF cfg flt scan dst n).dst.get? [] = none := by
  cases hg : (runF cfg flt scan dst n).dst.get? [] with
  | none => rfl
  | some v =>
    exfalso
    rcases result_paths_scanned hdry hd hc hok [] (by rw [hg]; simp) with ⟨e, he, hr⟩ | h
    · exact hnr e he hr
    · revert h; decide

/-- every run of the re-run sequence exits 0 and leaves every path as the first run left it -/
theorem iterRun_stable {cfg : Cfg} (hdry : cfg.dryRun = false) {scan : List SEntry} {dst : Map DNode}
    (ns : Nat → Nat) (hu : UniqueRels scan) (hnr : NoRoot scan)
    (hdel : cfg.delete = true → ParentClosed scan ∧ dst.get? [] = none)
    (hino : cfg.hardlinks = true → InoConsistent scan) (hc : GClosed dst)
    (h0 : (iterRun cfg scan dst ns 0).exit = 0) (k : Nat) :
    (iterRun cfg scan dst ns k).exit = 0 ∧
    (∀ p, (iterRun cfg scan dst ns k).dst.get? p = (iterRun cfg scan dst ns 0).dst.get? p) ∧
    (1 ≤ k → (iterRun cfg scan dst ns k).created = 0 ∧ (iterRun cfg scan dst ns k).deleted = 0 ∧
      (iterRun cfg scan dst ns k).errors = []) := by
  have P : ∀ k, ∃ inp, iterRun cfg scan dst ns k = run cfg scan inp (ns k) ∧ GClosed inp ∧
      (cfg.delete = true → inp.get? [] = none) ∧ (run cfg scan inp (ns k)).exit = 0 ∧
      (∀ p, (run cfg scan inp (ns k)).dst.get? p = (iterRun cfg scan dst ns 0).dst.get? p) ∧
      (1 ≤ k → (run cfg scan inp (ns k)).created = 0 ∧ (run cfg scan inp (ns k)).deleted = 0 ∧
        (run cfg scan inp (ns k)).errors = []) := by
    intro k
    induction k with
    | zero => exact ⟨dst, rfl, hc, fun h => (hdel h).2, h0, fun _ => rfl, fun h => absurd h (by omega)⟩
    | succ k ih =>
      obtain ⟨inp, he, hci, hri, hex, hpt, _⟩ := ih
      have hdel' : cfg.delete = true → ParentClosed scan ∧ inp.get? [] = none := fun h => ⟨(hdel h).1, hri h⟩
      obtain ⟨a, b, c, d, e⟩ := rerun_content_unchanged (n := ns k) (n' := ns (k + 1)) hdry hu hnr hdel' hino hci hex
      refine ⟨(run cfg scan inp (ns k)).dst, ?_, ?_, ?_, e, fun p => (a p).trans (hpt p), fun _ => ⟨b, c, d⟩⟩
      · show run cfg scan (iterRun cfg scan dst ns k).dst (ns (k + 1)) = _
        rw [he]
      · unfold run at hex ⊢; exact run_closed hex hci
      · intro hd; unfold run at hex ⊢; exact result_root_none hdry hd (hdel hd).1 hnr hex
  obtain ⟨inp, he, _, _, hex, hpt, hk⟩ := P k
  rw [he]; exact ⟨hex, hpt, hk⟩

end SyModel.Engine
