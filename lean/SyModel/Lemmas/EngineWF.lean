/-
  Well-formedness hypotheses on scans and destinations used by the engine theorems, each with a
  non-vacuity example on a concrete scan / destination, and their first consequences.

  What each one excludes in the real world:
  * `UniqueRels`     — a scanner that reports the same relative path twice (never happens:
                       `ignore::Walk` visits every directory entry once).
  * `ParentClosed`   — a scan that contains `a/b` without the directory entry `a` (never happens
                       for a directory walk; it would happen if the walk itself dropped entries).
  * `ParentsFirst`   — a walk that yields a child before its parent (`ignore::Walk` does not).
  * `NoRoot`         — a scan that lists the source root itself (relative path "").
  * `InoConsistent`  — two source names with link count > 1 and the same inode number but
                       different data (impossible on one file system at one instant; a source
                       modified *during* the scan can violate it).
  * `DstParentClosed`— a destination listing with `a/b` where `a` is missing or not a directory
                       (impossible for a listing of a real tree).
-/
import SyModel.Lemmas.EnginePath
namespace SyModel.Engine

/-- scanned relative paths are pairwise distinct -/
def UniqueRels (scan : List SEntry) : Prop := scan.Pairwise (fun a b => a.rel ≠ b.rel)

/-- every non-root strict ancestor of a scanned path is a scanned directory entry -/
def ParentClosed (scan : List SEntry) : Prop :=
  ∀ e ∈ scan, ∀ a ∈ ancestors e.rel, ∃ d ∈ scan, d.rel = a ∧ d.kind = .dir

/-- … and that directory entry comes earlier in the scan -/
def ParentsFirst (scan : List SEntry) : Prop :=
  ∀ n, ∀ h : n < scan.length, ∀ a ∈ ancestors (scan[n]).rel, ∃ d ∈ scan.take n, d.rel = a ∧ d.kind = .dir

/-- the source root itself is not an entry -/
def NoRoot (scan : List SEntry) : Prop := ∀ e ∈ scan, e.rel ≠ []

/-- same data -/
def SameData (m m' : FileMeta) : Prop :=
  m.content = m'.content ∧ m.size = m'.size ∧ m.mtime = m'.mtime ∧ m.xattrs = m'.xattrs

instance (m m' : FileMeta) : Decidable (SameData m m') := by unfold SameData; infer_instance

/-- names of one inode (link count > 1, same inode number) carry the same data -/
def InoConsistent (scan : List SEntry) : Prop :=
  ∀ e ∈ scan, ∀ e' ∈ scan, ∀ m n m' n', e.kind = .file m n → e'.kind = .file m' n' →
    1 < n → 1 < n' → m.ino = m'.ino → SameData m m'

/-- every strict ancestor of a destination path is a destination directory -/
def DstParentClosed (dst : Map DNode) : Prop :=
  ∀ p ∈ dst.keys, ∀ a ∈ ancestors p, dst.get? a = some .dir

instance (scan : List SEntry) : Decidable (UniqueRels scan) := by unfold UniqueRels; infer_instance
instance (scan : List SEntry) : Decidable (ParentClosed scan) := by unfold ParentClosed; infer_instance
instance (scan : List SEntry) : Decidable (ParentsFirst scan) := by unfold ParentsFirst; infer_instance
instance (scan : List SEntry) : Decidable (NoRoot scan) := by unfold NoRoot; infer_instance
instance (dst : Map DNode) : Decidable (DstParentClosed dst) := by unfold DstParentClosed; infer_instance

/-! ### a concrete tree used for the non-vacuity examples -/

def exMeta (c sz mt ino : Nat) : FileMeta := { content := c, size := sz, mtime := mt, xattrs := [("user.k", c)], ino := ino }

/-- `d/`, `d/f`, `l -> d/f`, `g` and `d/h` (two names of inode 7), `big` (excluded by a rule) -/
def exScan : List SEntry :=
  [ ⟨["d"], .dir, 4096, false⟩,
    ⟨["d", "f"], .file (exMeta 1 10 5000000000 3) 1, 10, false⟩,
    ⟨["l"], .symlink "d/f" (.file (exMeta 1 10 5000000000 3)), 3, false⟩,
    ⟨["g"], .file (exMeta 2 20 7000000000 7) 2, 20, false⟩,
    ⟨["d", "h"], .file (exMeta 2 20 7000000000 7) 2, 20, false⟩,
    ⟨["big"], .file (exMeta 9 900 1 8) 1, 900, true⟩ ]

/-- a prior destination: `d/` exists, `d/f` is stale, `x/` and `x/y` are extras -/
def exDst : Map DNode :=
  [ (["d"], .dir), (["d", "f"], .file (exMeta 0 10 1000000000 100)),
    (["x"], .dir), (["x", "y"], .file (exMeta 5 1 1 101)) ]

example : UniqueRels exScan := by decide
example : ParentClosed exScan := by decide
example : ParentsFirst exScan := by decide
example : NoRoot exScan := by decide
example : DstParentClosed exDst := by decide
theorem exScan_inoConsistent : InoConsistent exScan := by
  intro e he e' he' m n m' n' hk hk' hn hn' _
  simp only [exScan, List.mem_cons, List.not_mem_nil, or_false] at he he'
  rcases he with rfl | rfl | rfl | rfl | rfl | rfl <;> simp at hk <;>
    rcases he' with rfl | rfl | rfl | rfl | rfl | rfl <;> simp at hk' <;>
    first
      | omega
      | (obtain ⟨rfl, rfl⟩ := hk; obtain ⟨rfl, rfl⟩ := hk'; decide)

/-- the hypotheses are not trivially true either -/
example : ¬ ParentClosed [⟨["a", "b"], .dir, 0, false⟩] := by decide
example : ¬ ParentsFirst [⟨["a", "b"], .dir, 0, false⟩, ⟨["a"], .dir, 0, false⟩] := by decide
example : ¬ DstParentClosed [(["a", "b"], .dir), (["a"], .symlink "z")] := by decide

/-! ### consequences -/

theorem ParentClosed.anc {scan : List SEntry} (h : ParentClosed scan) {e : SEntry} (he : e ∈ scan)
    {a : Path} (ha : a ≠ []) (hp : isPrefix a e.rel = true) (hne : a ≠ e.rel) :
    ∃ d ∈ scan, d.rel = a ∧ d.kind = .dir :=
  h e he a (mem_ancestors.2 ⟨ha, hp, hne⟩)

theorem ParentsFirst.closed {scan : List SEntry} (h : ParentsFirst scan) : ParentClosed scan := by
  intro e he a ha
  obtain ⟨n, hn, rfl⟩ := List.getElem_of_mem he
  obtain ⟨d, hd, hr⟩ := h n hn a ha
  exact ⟨d, List.mem_of_mem_take hd, hr⟩

theorem UniqueRels.eq_of_rel {scan : List SEntry} (h : UniqueRels scan) {e e' : SEntry}
    (he : e ∈ scan) (he' : e' ∈ scan) (hr : e.rel = e'.rel) : e = e' := by
  unfold UniqueRels at h
  induction scan with
  | nil => cases he
  | cons x xs ih =>
    rw [List.pairwise_cons] at h
    rcases List.mem_cons.1 he with rfl | he1 <;> rcases List.mem_cons.1 he' with rfl | he2
    · rfl
    · exact absurd hr (h.1 _ he2)
    · exact absurd hr.symm (h.1 _ he1)
    · exact ih h.2 he1 he2

theorem UniqueRels.sublist {scan sub : List SEntry} (h : UniqueRels scan) (hs : sub.Sublist scan) :
    UniqueRels sub := List.Pairwise.sublist hs h

/-- with unique, parent-closed paths only directory entries have scanned paths below them -/
theorem anc_is_dir {scan : List SEntry} (hu : UniqueRels scan) (hc : ParentClosed scan) {e e' : SEntry}
    (he : e ∈ scan) (he' : e' ∈ scan) (hne0 : e.rel ≠ []) (hp : isPrefix e.rel e'.rel = true)
    (hne : e.rel ≠ e'.rel) : e.kind = .dir := by
  obtain ⟨d, hd, hr, hk⟩ := hc.anc he' hne0 hp hne
  have := hu.eq_of_rel hd he hr
  subst this; exact hk

theorem DstParentClosed.anc {dst : Map DNode} (h : DstParentClosed dst) {p a : Path}
    (hp : dst.get? p ≠ none) (ha : a ≠ []) (hpre : isPrefix a p = true) (hne : a ≠ p) :
    dst.get? a = some .dir :=
  h p ((Map.mem_keys_iff dst p).2 hp) a (mem_ancestors.2 ⟨ha, hpre, hne⟩)

/-! ### the filter keeps a sublist -/

theorem scanFilterGo_sublist (cfg : Cfg) (scan : List SEntry) (ex : List Path) :
    (scanFilterGo cfg scan ex).Sublist scan := by
  induction scan generalizing ex with
  | nil => simp [scanFilterGo]
  | cons e rest ih =>
    unfold scanFilterGo
    split
    · exact (ih _).cons _
    · split
      · exact (ih _).cons _
      · split
        · exact (ih _).cons_cons _
        · split
          · exact (ih _).cons _
          · exact (ih _).cons_cons _

theorem scanFilter_sublist (cfg : Cfg) (scan : List SEntry) : (scanFilter cfg scan).Sublist scan :=
  scanFilterGo_sublist cfg scan []

theorem mem_of_mem_scanFilter {cfg : Cfg} {scan : List SEntry} {e : SEntry} (h : e ∈ scanFilter cfg scan) :
    e ∈ scan := (scanFilter_sublist cfg scan).subset h

end SyModel.Engine
