/-
  Lemmas for C13: the inductive invariant of the hard-link hand-off
  (`SyModel.Hardlink.Protocol`) and its preservation by every micro-step.
-/
import SyModel.Lemmas.HardlinkMeasure
namespace SyModel.Hardlink
set_option linter.unusedSimpArgs false

/-! ### pc classes -/

/-- between a successful claim and the release of the claim (entry is `InProgress(self)`). -/
def Pc.holdsClaim : Pc → Bool
  | .mkdirOp _ | .copyOp _ | .metaOp | .complete | .cleanup _ => true
  | _ => false

/-- entry already changed, `notify_waiters()` still to be called. -/
def Pc.notifying : Pc → Bool
  | .notifyOk | .failNotify _ => true
  | _ => false

/-- pcs a worker outside the hard-link branch can be at. -/
def Pc.plainOk : Pc → Bool
  | .start | .mkdirOp _ | .copyOp _ | .metaOp | .done _ => true
  | _ => false

/-- the `Notify` a worker is about to wait / waiting on. -/
def Pc.waitsOn : Pc → Option Nat
  | .sawInProgress g | .armed g _ | .waiting g _ => some g
  | _ => none

/-- the worker's own copy is in place (between `copy_file` and the insertion of `Completed`). -/
def Pc.copied : Pc → Bool
  | .metaOp | .complete => true
  | _ => false

theorem Pc.holdsClaim_not_done (pc : Pc) (h : pc.holdsClaim = true) : pc.isDone = false := by
  cases pc <;> simp_all [Pc.holdsClaim, Pc.isDone]

theorem Pc.notifying_not_done (pc : Pc) (h : pc.notifying = true) : pc.isDone = false := by
  cases pc <;> simp_all [Pc.notifying, Pc.isDone]

/-! ### the invariant -/

/-- Clauses that hold for both variants of the protocol. -/
structure Inv (cfg : Cfg) (s : State) : Prop where
  /-- workers outside the hard-link branch never touch the map -/
  plain : ∀ v, (cfg.worker v).linked = false → (s.pc v).plainOk = true
  /-- a worker holding a claim is the one recorded in the map -/
  claimMap : ∀ v, (cfg.worker v).linked = true → (s.pc v).holdsClaim = true →
    s.map (cfg.worker v).inode = some (.inProgress v)
  /-- an `InProgress` entry names a worker of that inode that holds the claim — or, in the pinned
      code only, one that has already returned an error -/
  mapClaim : ∀ i g, s.map i = some (.inProgress g) →
    g < cfg.n ∧ (cfg.worker g).linked = true ∧ (cfg.worker g).inode = i ∧
      ((s.pc g).holdsClaim = true ∨ (cfg.variant = .pinned ∧ ∃ op, s.pc g = .done (.err op)))
  /-- a `Notify` is signalled only by its creator's last step -/
  notified : ∀ g, s.calls g = 0 ∨ (s.pc g).isDone = true
  /-- a `Completed` entry names a finished (or notifying) owner whose copy is in place -/
  mapDone : ∀ i p, s.map i = some (.completed p) →
    p < cfg.n ∧ (cfg.worker p).linked = true ∧ (cfg.worker p).inode = i ∧
      s.dst p = some ⟨p, cfg.content i⟩ ∧ (s.pc p = .notifyOk ∨ s.pc p = .done .ok)
  /-- after `copy_file` the worker's own destination is a fresh inode with the source's content -/
  copied : ∀ v, (s.pc v).copied = true → s.dst v = some ⟨v, cfg.content (cfg.worker v).inode⟩
  /-- a linking worker links to the recorded first path of its own inode -/
  linking : ∀ v p k, s.pc v = .linkOp p k →
    (cfg.worker v).linked = true ∧ s.map (cfg.worker v).inode = some (.completed p)
  /-- result `ok` of a hard-link candidate: its path shares the inode of the recorded first path -/
  okLinked : ∀ v, (cfg.worker v).linked = true → s.pc v = .done .ok →
    ∃ p, s.map (cfg.worker v).inode = some (.completed p) ∧
      s.dst v = some ⟨p, cfg.content (cfg.worker v).inode⟩
  /-- result `ok` of an ordinary file: own fresh inode -/
  okPlain : ∀ v, (cfg.worker v).linked = false → s.pc v = .done .ok →
    s.dst v = some ⟨v, cfg.content (cfg.worker v).inode⟩
  /-- ids outside the run never move -/
  untouched : ∀ v, cfg.n ≤ v → s.pc v = .start
  /-- an owner about to signal success has recorded its own path -/
  notifyOkMap : ∀ v, s.pc v = .notifyOk →
    (cfg.worker v).linked = true ∧ s.map (cfg.worker v).inode = some (.completed v)

/-- Clauses that need the repaired protocol. -/
structure InvR (cfg : Cfg) (s : State) : Prop where
  /-- whoever waits (or is about to wait) on worker `g`'s `Notify`: as long as `g` has not
      signalled it, `g` is still on its owner path — and owner paths never block -/
  waits : ∀ v g, (s.pc v).waitsOn = some g →
    g < cfg.n ∧ (cfg.worker g).linked = true ∧
      (s.calls g = 0 → (s.pc g).holdsClaim = true ∨ (s.pc g).notifying = true)
  /-- a future that is awaited was created before its `Notify` was signalled -/
  snapWaiting : ∀ v g snap, s.pc v = .waiting g snap → snap = 0
  snapArmed : ∀ v g snap, s.pc v = .armed g snap → snap ≤ s.calls g

theorem inv_init (cfg : Cfg) : Inv cfg init := by
  constructor <;> simp [init, Pc.plainOk, Pc.holdsClaim, Pc.copied]

theorem invR_init (cfg : Cfg) : InvR cfg init := by
  constructor <;> simp [init, Pc.waitsOn]

/-! ### preservation, one lemma per program counter (keeps each proof small) -/

/-- the ten clauses of `Inv` for a state of the form `s.apply w i e` with concrete `e`. -/
macro "inv_clauses" : tactic => `(tactic| (
  constructor
  · intro v; simp only [State.apply]; grind [Pc.plainOk]
  · intro v; simp only [State.apply]; grind [Pc.holdsClaim]
  · intro i g; simp only [State.apply]; grind [Pc.holdsClaim]
  · intro g; simp only [State.apply]; grind [Pc.isDone]
  · intro i p; simp only [State.apply]; grind
  · intro v; simp only [State.apply]; grind [Pc.copied]
  · intro v p k; simp only [State.apply]; grind
  · intro v; simp only [State.apply]; grind
  · intro v; simp only [State.apply]; grind
  · intro v; simp only [State.apply]; grind
  · intro v; simp only [State.apply]; grind))

/-- destructure the invariant and specialise the pc-class clauses to the acting worker. -/
macro "inv_pre" hi:ident hpc:ident w:ident : tactic => `(tactic| (
  obtain ⟨h1, h2, h3, h4, h5, h6, h7, h8, h9, h10, h11⟩ := $hi
  have hw11 := h11 $w
  have hw1 := h1 $w
  have hw2 := h2 $w
  have hw6 := h6 $w
  simp only [$hpc:ident, Pc.plainOk, Pc.holdsClaim, Pc.copied] at hw1 hw2 hw6 hw11))

/-- split the definition of `next` at a fixed pc into its branches and prove every clause. -/
macro "inv_case" hi:ident hpc:ident w:ident hnext:ident : tactic => `(tactic| (
  inv_pre $hi $hpc $w
  simp only [next, failPc] at $hnext:ident
  (repeat' split at $hnext:ident) <;> (cases $hnext:ident <;> inv_clauses)))

section
variable {cfg : Cfg} {s : State} {w : Nat} {l : Label} {e : Effect}

theorem inv_start (hi : Inv cfg s) (hw : w < cfg.n) (hpc : s.pc w = .start)
    (hnext : next cfg w (cfg.worker w) .start (s.map (cfg.worker w).inode) s.calls s.dst = some (l, e)) :
    Inv cfg (s.apply w (cfg.worker w).inode e) := by
  inv_case hi hpc w hnext

theorem inv_sawNone (hi : Inv cfg s) (hw : w < cfg.n) (hpc : s.pc w = .sawNone)
    (hnext : next cfg w (cfg.worker w) .sawNone (s.map (cfg.worker w).inode) s.calls s.dst = some (l, e)) :
    Inv cfg (s.apply w (cfg.worker w).inode e) := by
  inv_case hi hpc w hnext

theorem inv_sawInProgress {g : Nat} (hi : Inv cfg s) (hw : w < cfg.n) (hpc : s.pc w = .sawInProgress g)
    (hnext : next cfg w (cfg.worker w) (.sawInProgress g) (s.map (cfg.worker w).inode) s.calls s.dst = some (l, e)) :
    Inv cfg (s.apply w (cfg.worker w).inode e) := by
  inv_case hi hpc w hnext

theorem inv_armed {g snap : Nat} (hi : Inv cfg s) (hw : w < cfg.n) (hpc : s.pc w = .armed g snap)
    (hnext : next cfg w (cfg.worker w) (.armed g snap) (s.map (cfg.worker w).inode) s.calls s.dst = some (l, e)) :
    Inv cfg (s.apply w (cfg.worker w).inode e) := by
  inv_case hi hpc w hnext

theorem inv_waiting {g snap : Nat} (hi : Inv cfg s) (hw : w < cfg.n) (hpc : s.pc w = .waiting g snap)
    (hnext : next cfg w (cfg.worker w) (.waiting g snap) (s.map (cfg.worker w).inode) s.calls s.dst = some (l, e)) :
    Inv cfg (s.apply w (cfg.worker w).inode e) := by
  inv_case hi hpc w hnext

theorem inv_linkOp {p k : Nat} (hi : Inv cfg s) (hw : w < cfg.n) (hpc : s.pc w = .linkOp p k)
    (hnext : next cfg w (cfg.worker w) (.linkOp p k) (s.map (cfg.worker w).inode) s.calls s.dst = some (l, e)) :
    Inv cfg (s.apply w (cfg.worker w).inode e) := by
  have hw7 := hi.linking w p k hpc
  cases k <;> inv_case hi hpc w hnext

theorem inv_mkdirOp {k : Nat} (hi : Inv cfg s) (hw : w < cfg.n) (hpc : s.pc w = .mkdirOp k)
    (hnext : next cfg w (cfg.worker w) (.mkdirOp k) (s.map (cfg.worker w).inode) s.calls s.dst = some (l, e)) :
    Inv cfg (s.apply w (cfg.worker w).inode e) := by
  cases k <;> inv_case hi hpc w hnext

theorem inv_copyOp {k : Nat} (hi : Inv cfg s) (hw : w < cfg.n) (hpc : s.pc w = .copyOp k)
    (hnext : next cfg w (cfg.worker w) (.copyOp k) (s.map (cfg.worker w).inode) s.calls s.dst = some (l, e)) :
    Inv cfg (s.apply w (cfg.worker w).inode e) := by
  cases k <;> inv_case hi hpc w hnext

theorem inv_metaOp (hi : Inv cfg s) (hw : w < cfg.n) (hpc : s.pc w = .metaOp)
    (hnext : next cfg w (cfg.worker w) .metaOp (s.map (cfg.worker w).inode) s.calls s.dst = some (l, e)) :
    Inv cfg (s.apply w (cfg.worker w).inode e) := by
  inv_case hi hpc w hnext

theorem inv_complete (hi : Inv cfg s) (hw : w < cfg.n) (hpc : s.pc w = .complete)
    (hnext : next cfg w (cfg.worker w) .complete (s.map (cfg.worker w).inode) s.calls s.dst = some (l, e)) :
    Inv cfg (s.apply w (cfg.worker w).inode e) := by
  inv_case hi hpc w hnext

theorem inv_notifyOk (hi : Inv cfg s) (hw : w < cfg.n) (hpc : s.pc w = .notifyOk)
    (hnext : next cfg w (cfg.worker w) .notifyOk (s.map (cfg.worker w).inode) s.calls s.dst = some (l, e)) :
    Inv cfg (s.apply w (cfg.worker w).inode e) := by
  inv_case hi hpc w hnext

theorem inv_cleanup {op : Op} (hi : Inv cfg s) (hw : w < cfg.n) (hpc : s.pc w = .cleanup op)
    (hnext : next cfg w (cfg.worker w) (.cleanup op) (s.map (cfg.worker w).inode) s.calls s.dst = some (l, e)) :
    Inv cfg (s.apply w (cfg.worker w).inode e) := by
  inv_case hi hpc w hnext

theorem inv_failNotify {op : Op} (hi : Inv cfg s) (hw : w < cfg.n) (hpc : s.pc w = .failNotify op)
    (hnext : next cfg w (cfg.worker w) (.failNotify op) (s.map (cfg.worker w).inode) s.calls s.dst = some (l, e)) :
    Inv cfg (s.apply w (cfg.worker w).inode e) := by
  inv_case hi hpc w hnext

end

/-- `Inv` is preserved by every micro-step of every worker (both variants). -/
theorem inv_step {cfg : Cfg} {s s' : State} {w : Nat} {l : Label} (hi : Inv cfg s)
    (h : step cfg s w = some (l, s')) : Inv cfg s' := by
  obtain ⟨hw, e, hnext, rfl⟩ := step_eq_some h
  cases hpc : s.pc w <;> rw [hpc] at hnext
  case start => exact inv_start hi hw hpc hnext
  case sawNone => exact inv_sawNone hi hw hpc hnext
  case sawInProgress g => exact inv_sawInProgress hi hw hpc hnext
  case armed g snap => exact inv_armed hi hw hpc hnext
  case waiting g snap => exact inv_waiting hi hw hpc hnext
  case linkOp p k => exact inv_linkOp hi hw hpc hnext
  case mkdirOp k => exact inv_mkdirOp hi hw hpc hnext
  case copyOp k => exact inv_copyOp hi hw hpc hnext
  case metaOp => exact inv_metaOp hi hw hpc hnext
  case complete => exact inv_complete hi hw hpc hnext
  case notifyOk => exact inv_notifyOk hi hw hpc hnext
  case cleanup op => exact inv_cleanup hi hw hpc hnext
  case failNotify op => exact inv_failNotify hi hw hpc hnext
  case done r => simp [next] at hnext

/-! ### preservation of the repaired-protocol clauses -/

macro "invR_clauses" : tactic => `(tactic| (
  constructor
  · intro v g; simp only [State.apply]; grind [Pc.waitsOn, Pc.holdsClaim, Pc.notifying]
  · intro v g snap; simp only [State.apply]; grind [Pc.holdsClaim, Pc.isDone, Pc.holdsClaim_not_done]
  · intro v g snap; simp only [State.apply]; grind))

macro "invR_case" hi:ident hr:ident hpc:ident w:ident hnext:ident : tactic => `(tactic| (
  inv_pre $hi $hpc $w
  obtain ⟨r1, r2, r3⟩ := $hr
  have hr1 := r1 $w
  simp only [$hpc:ident, Pc.waitsOn] at hr1
  simp only [next, failPc] at $hnext:ident
  (repeat' split at $hnext:ident) <;> (cases $hnext:ident <;> invR_clauses)))

section
variable {cfg : Cfg} {s : State} {w : Nat} {l : Label} {e : Effect}

theorem invR_start (hi : Inv cfg s) (hr : InvR cfg s) (hv : cfg.variant = .repaired) (hw : w < cfg.n)
    (hpc : s.pc w = .start)
    (hnext : next cfg w (cfg.worker w) .start (s.map (cfg.worker w).inode) s.calls s.dst = some (l, e)) :
    InvR cfg (s.apply w (cfg.worker w).inode e) := by
  invR_case hi hr hpc w hnext

theorem invR_sawNone (hi : Inv cfg s) (hr : InvR cfg s) (hv : cfg.variant = .repaired) (hw : w < cfg.n)
    (hpc : s.pc w = .sawNone)
    (hnext : next cfg w (cfg.worker w) .sawNone (s.map (cfg.worker w).inode) s.calls s.dst = some (l, e)) :
    InvR cfg (s.apply w (cfg.worker w).inode e) := by
  invR_case hi hr hpc w hnext

theorem invR_sawInProgress {g : Nat} (hi : Inv cfg s) (hr : InvR cfg s) (hv : cfg.variant = .repaired)
    (hw : w < cfg.n) (hpc : s.pc w = .sawInProgress g)
    (hnext : next cfg w (cfg.worker w) (.sawInProgress g) (s.map (cfg.worker w).inode) s.calls s.dst = some (l, e)) :
    InvR cfg (s.apply w (cfg.worker w).inode e) := by
  invR_case hi hr hpc w hnext

theorem invR_armed {g snap : Nat} (hi : Inv cfg s) (hr : InvR cfg s) (hv : cfg.variant = .repaired)
    (hw : w < cfg.n) (hpc : s.pc w = .armed g snap)
    (hnext : next cfg w (cfg.worker w) (.armed g snap) (s.map (cfg.worker w).inode) s.calls s.dst = some (l, e)) :
    InvR cfg (s.apply w (cfg.worker w).inode e) := by
  have hsnap := hr.snapArmed w g snap hpc
  have hnot := hi.notified g
  invR_case hi hr hpc w hnext

theorem invR_waiting {g snap : Nat} (hi : Inv cfg s) (hr : InvR cfg s) (hv : cfg.variant = .repaired)
    (hw : w < cfg.n) (hpc : s.pc w = .waiting g snap)
    (hnext : next cfg w (cfg.worker w) (.waiting g snap) (s.map (cfg.worker w).inode) s.calls s.dst = some (l, e)) :
    InvR cfg (s.apply w (cfg.worker w).inode e) := by
  invR_case hi hr hpc w hnext

theorem invR_linkOp {p k : Nat} (hi : Inv cfg s) (hr : InvR cfg s) (hv : cfg.variant = .repaired)
    (hw : w < cfg.n) (hpc : s.pc w = .linkOp p k)
    (hnext : next cfg w (cfg.worker w) (.linkOp p k) (s.map (cfg.worker w).inode) s.calls s.dst = some (l, e)) :
    InvR cfg (s.apply w (cfg.worker w).inode e) := by
  cases k <;> invR_case hi hr hpc w hnext

theorem invR_mkdirOp {k : Nat} (hi : Inv cfg s) (hr : InvR cfg s) (hv : cfg.variant = .repaired)
    (hw : w < cfg.n) (hpc : s.pc w = .mkdirOp k)
    (hnext : next cfg w (cfg.worker w) (.mkdirOp k) (s.map (cfg.worker w).inode) s.calls s.dst = some (l, e)) :
    InvR cfg (s.apply w (cfg.worker w).inode e) := by
  cases k <;> invR_case hi hr hpc w hnext

theorem invR_copyOp {k : Nat} (hi : Inv cfg s) (hr : InvR cfg s) (hv : cfg.variant = .repaired)
    (hw : w < cfg.n) (hpc : s.pc w = .copyOp k)
    (hnext : next cfg w (cfg.worker w) (.copyOp k) (s.map (cfg.worker w).inode) s.calls s.dst = some (l, e)) :
    InvR cfg (s.apply w (cfg.worker w).inode e) := by
  cases k <;> invR_case hi hr hpc w hnext

theorem invR_metaOp (hi : Inv cfg s) (hr : InvR cfg s) (hv : cfg.variant = .repaired) (hw : w < cfg.n)
    (hpc : s.pc w = .metaOp)
    (hnext : next cfg w (cfg.worker w) .metaOp (s.map (cfg.worker w).inode) s.calls s.dst = some (l, e)) :
    InvR cfg (s.apply w (cfg.worker w).inode e) := by
  invR_case hi hr hpc w hnext

theorem invR_complete (hi : Inv cfg s) (hr : InvR cfg s) (hv : cfg.variant = .repaired) (hw : w < cfg.n)
    (hpc : s.pc w = .complete)
    (hnext : next cfg w (cfg.worker w) .complete (s.map (cfg.worker w).inode) s.calls s.dst = some (l, e)) :
    InvR cfg (s.apply w (cfg.worker w).inode e) := by
  invR_case hi hr hpc w hnext

theorem invR_notifyOk (hi : Inv cfg s) (hr : InvR cfg s) (hv : cfg.variant = .repaired) (hw : w < cfg.n)
    (hpc : s.pc w = .notifyOk)
    (hnext : next cfg w (cfg.worker w) .notifyOk (s.map (cfg.worker w).inode) s.calls s.dst = some (l, e)) :
    InvR cfg (s.apply w (cfg.worker w).inode e) := by
  invR_case hi hr hpc w hnext

theorem invR_cleanup {op : Op} (hi : Inv cfg s) (hr : InvR cfg s) (hv : cfg.variant = .repaired)
    (hw : w < cfg.n) (hpc : s.pc w = .cleanup op)
    (hnext : next cfg w (cfg.worker w) (.cleanup op) (s.map (cfg.worker w).inode) s.calls s.dst = some (l, e)) :
    InvR cfg (s.apply w (cfg.worker w).inode e) := by
  invR_case hi hr hpc w hnext

theorem invR_failNotify {op : Op} (hi : Inv cfg s) (hr : InvR cfg s) (hv : cfg.variant = .repaired)
    (hw : w < cfg.n) (hpc : s.pc w = .failNotify op)
    (hnext : next cfg w (cfg.worker w) (.failNotify op) (s.map (cfg.worker w).inode) s.calls s.dst = some (l, e)) :
    InvR cfg (s.apply w (cfg.worker w).inode e) := by
  invR_case hi hr hpc w hnext

end

/-- `InvR` is preserved by every micro-step of the repaired protocol. -/
theorem invR_step {cfg : Cfg} {s s' : State} {w : Nat} {l : Label} (hv : cfg.variant = .repaired)
    (hi : Inv cfg s) (hr : InvR cfg s) (h : step cfg s w = some (l, s')) : InvR cfg s' := by
  obtain ⟨hw, e, hnext, rfl⟩ := step_eq_some h
  cases hpc : s.pc w <;> rw [hpc] at hnext
  case start => exact invR_start hi hr hv hw hpc hnext
  case sawNone => exact invR_sawNone hi hr hv hw hpc hnext
  case sawInProgress g => exact invR_sawInProgress hi hr hv hw hpc hnext
  case armed g snap => exact invR_armed hi hr hv hw hpc hnext
  case waiting g snap => exact invR_waiting hi hr hv hw hpc hnext
  case linkOp p k => exact invR_linkOp hi hr hv hw hpc hnext
  case mkdirOp k => exact invR_mkdirOp hi hr hv hw hpc hnext
  case copyOp k => exact invR_copyOp hi hr hv hw hpc hnext
  case metaOp => exact invR_metaOp hi hr hv hw hpc hnext
  case complete => exact invR_complete hi hr hv hw hpc hnext
  case notifyOk => exact invR_notifyOk hi hr hv hw hpc hnext
  case cleanup op => exact invR_cleanup hi hr hv hw hpc hnext
  case failNotify op => exact invR_failNotify hi hr hv hw hpc hnext
  case done r => simp [next] at hnext

theorem invR_exec {cfg : Cfg} {s s' : State} {sched : List Nat} (hv : cfg.variant = .repaired)
    (hi : Inv cfg s) (hr : InvR cfg s) (h : Exec cfg s sched s') : InvR cfg s' := by
  induction h with
  | nil s => exact hr
  | cons hstep _ ih => exact ih (inv_step hi hstep) (invR_step hv hi hr hstep)

theorem invR_reachable {cfg : Cfg} {s : State} (hv : cfg.variant = .repaired) (h : Reachable cfg s) :
    InvR cfg s := by
  obtain ⟨sched, hex⟩ := h
  exact invR_exec hv (inv_init cfg) (invR_init cfg) hex

theorem inv_exec {cfg : Cfg} {s s' : State} {sched : List Nat} (hi : Inv cfg s)
    (h : Exec cfg s sched s') : Inv cfg s' := by
  induction h with
  | nil s => exact hi
  | cons hstep _ ih => exact ih (inv_step hi hstep)

theorem inv_reachable {cfg : Cfg} {s : State} (h : Reachable cfg s) : Inv cfg s := by
  obtain ⟨sched, hex⟩ := h
  exact inv_exec (inv_init cfg) hex

end SyModel.Hardlink
