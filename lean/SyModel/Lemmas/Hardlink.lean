/-
  Lemmas for C13: the inductive invariants of the hard-link hand-off
  (`SyModel.Hardlink.Protocol`) and their preservation by every micro-step.
  `Inv`  — protocol bookkeeping (both variants, no assumption on the destination);
  `InvR` — what needs the repaired protocol (nobody waits on a worker that cannot move);
  `InvD` — the destination name space (needs `Cfg.DstOk`: old inode ids ≥ n, one content per inode;
           nothing about which names share an inode).
-/
import SyModel.Lemmas.HardlinkMeasure
namespace SyModel.Hardlink
set_option linter.unusedSimpArgs false

/-! ### pc classes -/

/-- between a successful claim and the release of the claim (entry is `InProgress(self)`). -/
def Pc.holdsClaim : Pc → Bool
  | .mkdirOp _ | .copyOp _ | .syncOp _ | .metaOp | .complete | .cleanup _ => true
  | _ => false

/-- entry already changed, `notify_waiters()` still to be called. -/
def Pc.notifying : Pc → Bool
  | .notifyOk | .failNotify _ => true
  | _ => false

/-- pcs a worker outside the hard-link branch can be at. -/
def Pc.plainOk : Pc → Bool
  | .start | .mkdirOp _ | .copyOp _ | .syncOp _ | .metaOp | .done _ => true
  | _ => false

/-- the `Notify` a worker is about to wait / waiting on. -/
def Pc.waitsOn : Pc → Option Nat
  | .sawInProgress g | .armed g _ | .waiting g _ => some g
  | _ => none

/-- the first path a non-owner is about to link its own path to. -/
def Pc.linksTo : Pc → Option Nat
  | .linkOp p _ | .sameOp p | .removeOp p _ => some p
  | _ => none

/-- the worker's own copy is in place (between the copy and the insertion of `Completed`). -/
def Pc.copied : Pc → Bool
  | .metaOp | .complete => true
  | _ => false

/-- the worker's copy operation (`copy_file` / `sync_file_with_delta`) is behind it, or it never
    had one. -/
def Pc.pastCopy : Pc → Bool
  | .metaOp | .complete | .notifyOk | .cleanup _ | .failNotify _ | .done _ => true
  | _ => false

/-- an updated path still names its pre-run file or its rewrite (it is removed only just before it
    is re-linked). -/
def Pc.beforeRelink : Pc → Bool
  | .linkOp _ _ | .done _ => false
  | _ => true

/-- the worker's own copy / rewrite is in place and it has not failed since: owners (and ordinary
    files) from the end of their copy operation to their successful return. -/
def Pc.rootPc : Pc → Bool
  | .metaOp | .complete | .notifyOk | .done .ok => true
  | _ => false

theorem Pc.holdsClaim_not_done (pc : Pc) (h : pc.holdsClaim = true) : pc.isDone = false := by
  cases pc <;> simp_all [Pc.holdsClaim, Pc.isDone]

theorem Pc.notifying_not_done (pc : Pc) (h : pc.notifying = true) : pc.isDone = false := by
  cases pc <;> simp_all [Pc.notifying, Pc.isDone]

/-! ### the invariants -/

/-- Protocol bookkeeping; holds for both variants. -/
structure Inv (cfg : Cfg) (s : State) : Prop where
  /-- workers outside the hard-link branch never touch the map -/
  plain : ∀ v, (cfg.worker v).linked = false → (s.pc v).plainOk = true
  /-- a worker holding a claim is the one recorded in the map -/
  claimMap : ∀ v, (cfg.worker v).linked = true → (s.pc v).holdsClaim = true →
    s.map (cfg.worker v).inode = some (.inProgress v)
  /-- an `InProgress` entry names a worker of that inode that holds the claim — or, in the pinned
      code only, one that has already returned an error -/
  mapClaim : ∀ i g, s.map i = some (.inProgress g) →
    g < cfg.n ∧ (cfg.worker g).linked = true ∧ (cfg.worker g).inode = i ∧
      ((s.pc g).holdsClaim = true ∨ (cfg.variant = .pinned ∧ ∃ op, s.pc g = .done (.err op)))
  /-- a `Notify` is signalled only by its creator's last step -/
  notified : ∀ g, s.calls g = 0 ∨ (s.pc g).isDone = true
  /-- a `Completed` entry names a finished (or notifying) owner -/
  mapDone : ∀ i p, s.map i = some (.completed p) →
    p < cfg.n ∧ (cfg.worker p).linked = true ∧ (cfg.worker p).inode = i ∧
      (s.pc p = .notifyOk ∨ s.pc p = .done .ok)
  /-- a non-owner links to the recorded first path of its own inode -/
  linking : ∀ v p, (s.pc v).linksTo = some p →
    (cfg.worker v).linked = true ∧ s.map (cfg.worker v).inode = some (.completed p)
  /-- an owner about to signal success has recorded its own path -/
  notifyOkMap : ∀ v, s.pc v = .notifyOk →
    (cfg.worker v).linked = true ∧ s.map (cfg.worker v).inode = some (.completed v)

/-- Clauses that need the repaired protocol. -/
structure InvR (cfg : Cfg) (s : State) : Prop where
  /-- whoever waits (or is about to wait) on worker `g`'s `Notify`: as long as `g` has not
      signalled it, `g` is still on its owner path — and owner paths never block -/
  waits : ∀ v g, (s.pc v).waitsOn = some g →
    g < cfg.n ∧ (cfg.worker g).linked = true ∧
      (s.calls g = 0 → (s.pc g).holdsClaim = true ∨ (s.pc g).notifying = true)
  /-- a future that is awaited was created before its `Notify` was signalled -/
  snapWaiting : ∀ v g snap, s.pc v = .waiting g snap → snap = 0
  snapArmed : ∀ v g snap, s.pc v = .armed g snap → snap ≤ s.calls g

/-- The pre-run destination is a real name space: inode ids of existing files do not collide with
    the ids of inodes created in the run and names of one inode show one content. Nothing is assumed
    about *which* names share an inode: links between names of different source files (the source
    was regrouped since the last `-H` sync) are allowed. -/
structure Cfg.DstOk (cfg : Cfg) : Prop where
  oldInodes : ∀ q f, q < cfg.n → (cfg.worker q).dst0 = some f → cfg.n ≤ f.ino
  inoContent : ∀ q r fq fr, q < cfg.n → r < cfg.n → (cfg.worker q).dst0 = some fq →
    (cfg.worker r).dst0 = some fr → fq.ino = fr.ino → fq.content = fr.content
  /-- the planner issues an update only for an existing destination file -/
  updateHasDst : ∀ q, q < cfg.n → (cfg.worker q).action = .update → (cfg.worker q).dst0.isSome = true

/-- The destination name space (`(s.dst q).map File.ino` = the inode a path names, if it exists). -/
structure InvD (cfg : Cfg) (s : State) : Prop where
  /-- every name of the inode that a *root* names — a path whose own copy / rewrite is in place:
      an ordinary file, or the recorded first path of its group — belongs to the root's source
      inode -/
  refines : ∀ p r i, (s.pc p).rootPc = true →
    (((cfg.worker p).linked = false ∧ (cfg.worker p).action ≠ .skip) ∨ (s.pc p).copied = true ∨
      s.map (cfg.worker p).inode = some (.completed p)) →
    (s.dst p).map File.ino = some i → (s.dst r).map File.ino = some i →
    (cfg.worker p).inode = (cfg.worker r).inode
  /-- names of one inode show one content -/
  inoContent : ∀ q r i, (s.dst q).map File.ino = some i → (s.dst r).map File.ino = some i →
    (s.dst q).map File.content = (s.dst r).map File.content
  /-- an inode created in the run was created by a worker of the same source inode, whose copy
      operation is behind it -/
  freshOwner : ∀ q i, (s.dst q).map File.ino = some i → i < cfg.n →
    (cfg.worker q).inode = (cfg.worker i).inode ∧ (s.pc i).pastCopy = true
  /-- the recorded first path exists and has the source's content -/
  doneDst : ∀ i p, s.map i = some (.completed p) → (s.dst p).map File.content = some (cfg.content i)
  /-- after its copy operation the worker's own destination has the source's content -/
  copied : ∀ v, (s.pc v).copied = true →
    (s.dst v).map File.content = some (cfg.content (cfg.worker v).inode)
  /-- result `ok` of a hard-link candidate that was transferred: a first path is recorded … -/
  okLinkedMap : ∀ v, (cfg.worker v).linked = true → (cfg.worker v).action ≠ .skip →
    s.pc v = .done .ok → ∃ p, s.map (cfg.worker v).inode = some (.completed p)
  /-- … its path names the inode of that first path and has the source's content -/
  okLinkedDst : ∀ v p, (cfg.worker v).linked = true → (cfg.worker v).action ≠ .skip →
    s.pc v = .done .ok → s.map (cfg.worker v).inode = some (.completed p) →
      (s.dst v).map File.ino = (s.dst p).map File.ino ∧
      (s.dst v).map File.content = some (cfg.content (cfg.worker v).inode)
  /-- result `ok` of an ordinary file that was transferred -/
  okPlain : ∀ v, (cfg.worker v).linked = false → (cfg.worker v).action ≠ .skip → s.pc v = .done .ok →
    (s.dst v).map File.content = some (cfg.content (cfg.worker v).inode)
  /-- paths outside the run do not exist -/
  outside : ∀ v, cfg.n ≤ v → s.dst v = none
  /-- nobody but the updating worker itself removes the path it updates -/
  updDst : ∀ v, v < cfg.n → (cfg.worker v).action = .update → (s.pc v).beforeRelink = true →
    (s.dst v).isSome = true

/-! ### `writeThrough` seen through `Option.map` -/

theorem wt_ino (d : Nat → Option File) (w c v : Nat) :
    (writeThrough d w c v).map File.ino = (d v).map File.ino := by
  unfold writeThrough
  cases d w <;> cases d v <;> simp
  split <;> simp

theorem wt_content (d : Nat → Option File) (w c v : Nat) :
    (writeThrough d w c v).map File.content =
      if (d v).isSome = true ∧ (d v).map File.ino = (d w).map File.ino then some c
      else (d v).map File.content := by
  unfold writeThrough
  cases hw : d w <;> cases hv : d v <;> simp
  split <;> simp_all

theorem isSome_of_ino (o : Option File) (i : Nat) (h : o.map File.ino = some i) : o.isSome = true := by
  cases o <;> simp_all

theorem wt_isSome (d : Nat → Option File) (w c v : Nat) :
    (writeThrough d w c v).isSome = (d v).isSome := by
  unfold writeThrough
  cases hw : d w <;> cases hv : d v <;> simp
  split <;> simp

theorem wt_none (d : Nat → Option File) (w c v : Nat) : writeThrough d w c v = none ↔ d v = none := by
  unfold writeThrough
  cases hw : d w <;> cases hv : d v <;> simp
  split <;> simp

theorem sharedIno_false {n : Nat} {dst : Nat → Option File} {w i : Nat} (h : sharedIno n dst w i = false)
    (q : Nat) (hq : q < n) (hne : q ≠ w) : (dst q).map File.ino ≠ some i := by
  unfold sharedIno at h
  simp only [List.any_eq_false, List.mem_range] at h
  have := h q hq
  cases hd : dst q with
  | none => simp
  | some f =>
    rw [hd] at this
    simp only [Option.map_some, ne_eq, Option.some.injEq]
    intro he
    apply this
    simp [hne, he]

theorem inv_init (cfg : Cfg) : Inv cfg (init cfg) := by
  constructor
  · intro v _; simp only [init]; split <;> rfl
  · intro v _ h; simp only [init] at h; split at h <;> simp [Pc.holdsClaim] at h
  · intro i g h; simp [init] at h
  · intro g; left; rfl
  · intro i p h; simp [init] at h
  · intro v p h; simp only [init] at h; split at h <;> simp [Pc.linksTo] at h
  · intro v h; simp only [init] at h; split at h <;> cases h

theorem invR_init (cfg : Cfg) : InvR cfg (init cfg) := by
  constructor
  · intro v g h; simp only [init] at h; split at h <;> simp [Pc.waitsOn] at h
  · intro v g snap h; simp only [init] at h; split at h <;> cases h
  · intro v g snap h; simp only [init] at h; split at h <;> cases h

theorem invD_init (cfg : Cfg) (h : cfg.DstOk) : InvD cfg (init cfg) := by
  obtain ⟨h1, h2, h4⟩ := h
  have key : ∀ q i, ((init cfg).dst q).map File.ino = some i →
      q < cfg.n ∧ ∃ f, (cfg.worker q).dst0 = some f ∧ f.ino = i := by
    intro q i hq
    simp only [init] at hq
    split at hq
    · refine ⟨‹_›, ?_⟩
      cases hf : (cfg.worker q).dst0 with
      | none => simp [hf] at hq
      | some f => simp [hf] at hq; exact ⟨f, rfl, hq⟩
    · simp at hq
  have dst_eq : ∀ q, q < cfg.n → (init cfg).dst q = (cfg.worker q).dst0 := by
    intro q hq; simp [init, hq]
  constructor
  · intro p r i hroot hor _ _
    simp only [init] at hroot hor
    split at hroot
    · rename_i hskip
      simp only [hskip, ↓reduceIte, Pc.copied, Bool.false_eq_true, reduceCtorEq, false_or] at hor
      rcases hor with ⟨_, hact⟩ | hm
      · exact absurd rfl hact
      · cases hm
    · simp [Pc.rootPc] at hroot
  · intro q r i hq hr
    obtain ⟨hq', fq, hfq, hiq⟩ := key q i hq
    obtain ⟨hr', fr, hfr, hir⟩ := key r i hr
    rw [dst_eq q hq', dst_eq r hr', hfq, hfr]
    simp [h2 q r fq fr hq' hr' hfq hfr (by rw [hiq, hir])]
  · intro q i hq hlt
    obtain ⟨hq', f, hf, hi⟩ := key q i hq
    have := h1 q f hq' hf
    omega
  · intro i p hm; simp [init] at hm
  · intro v hv
    simp only [init] at hv
    split at hv <;> simp [Pc.copied] at hv
  · intro v _ hs hp
    simp only [init] at hp
    split at hp
    · exact absurd ‹_› hs
    · cases hp
  · intro v p _ hs hp
    simp only [init] at hp
    split at hp
    · exact absurd ‹_› hs
    · cases hp
  · intro v _ hs hp
    simp only [init] at hp
    split at hp
    · exact absurd ‹_› hs
    · cases hp
  · intro v hv
    simp only [init]
    rw [if_neg (by omega)]
  · intro v hv hu _
    rw [dst_eq v hv]
    exact h4 v hv hu

/-! ### preservation, one lemma per program counter (keeps each proof small) -/

/-- the clauses of `Inv` for a state of the form `s.apply w i e` with concrete `e`. -/
macro "inv_clauses" : tactic => `(tactic| (
  constructor
  · intro v; simp only [State.apply]; grind [Pc.plainOk]
  · intro v; simp only [State.apply]; grind [Pc.holdsClaim]
  · intro i g; simp only [State.apply]; grind [Pc.holdsClaim]
  · intro g; simp only [State.apply]; grind [Pc.isDone]
  · intro i p; simp only [State.apply]; grind
  · intro v p; simp only [State.apply]; grind [Pc.linksTo]
  · intro v; simp only [State.apply]; grind))

/-- destructure the invariant and specialise the pc-class clauses to the acting worker. -/
macro "inv_pre" hi:ident hpc:ident w:ident : tactic => `(tactic| (
  obtain ⟨h1, h2, h3, h4, h5, h6, h7⟩ := $hi
  have hw7 := h7 $w
  have hw1 := h1 $w
  have hw2 := h2 $w
  have hw6 := h6 $w
  simp only [$hpc:ident, Pc.plainOk, Pc.holdsClaim, Pc.linksTo] at hw1 hw2 hw6 hw7))

/-- split the definition of `next` at a fixed pc into its branches and prove every clause. -/
macro "inv_case" hi:ident hpc:ident w:ident hnext:ident : tactic => `(tactic| (
  inv_pre $hi $hpc $w
  simp only [next, failPc] at $hnext:ident
  (repeat' split at $hnext:ident) <;> (cases $hnext:ident <;> inv_clauses)))

macro "invR_clauses" : tactic => `(tactic| (
  constructor
  · intro v g; simp only [State.apply]; grind [Pc.waitsOn, Pc.holdsClaim, Pc.notifying]
  · intro v g snap; simp only [State.apply]; grind [Pc.holdsClaim, Pc.isDone, Pc.holdsClaim_not_done]
  · intro v g snap; simp only [State.apply]; grind))

macro "invR_case" hi:ident hr:ident hpc:ident w:ident hnext:ident : tactic => `(tactic| (
  inv_pre $hi $hpc $w
  obtain ⟨r1, r2, r3⟩ := $hr
  have hr1 := r1 $w
  simp only [$hpc:ident, Pc.waitsOn] at hr1
  simp only [next, failPc] at $hnext:ident
  (repeat' split at $hnext:ident) <;> (cases $hnext:ident <;> invR_clauses)))

set_option hygiene false in
/-- the clauses of `InvD`; every clause keeps only the hypotheses it needs. -/
macro "invD_clauses" : tactic => `(tactic| (
  constructor
  · intro q r i; clear h1 h2 h3 h4 hw1 hw2 d2 d4 d5 d6 d6' d7 hd5 d9
    simp only [State.apply, wt_ino, wt_content, apply_ite (Option.map File.ino), apply_ite (Option.map File.content), Option.map_some, Option.map_none]; grind [Pc.rootPc, Pc.copied, Pc.pastCopy, sharedIno_false, isSome_of_ino, Option.isSome_some, Option.isSome_none]
  · intro q r i; clear h1 h2 h3 h4 h5 h6 h7 hw1 hw2 hw6 hw7 d4 d5 d6 d6' d7 hd5 d9
    simp only [State.apply, wt_ino, wt_content, apply_ite (Option.map File.ino), apply_ite (Option.map File.content), Option.map_some, Option.map_none]; grind [sharedIno_false, Pc.pastCopy, isSome_of_ino, Option.isSome_some, Option.isSome_none]
  · intro q i; clear h1 h2 h3 h4 h7 hw1 hw2 hw7 d2 d4 d5 d6 d6' d7 hd5 d9
    simp only [State.apply, wt_ino, wt_content, apply_ite (Option.map File.ino), apply_ite (Option.map File.content), Option.map_some, Option.map_none]; grind [sharedIno_false, Pc.pastCopy, isSome_of_ino, Option.isSome_some, Option.isSome_none]
  · intro i p; clear h1 h2 h3 h4 hw1 d2 d3 d6 d6' d7 hd3 d9
    simp only [State.apply, wt_ino, wt_content, apply_ite (Option.map File.ino), apply_ite (Option.map File.content), Option.map_some, Option.map_none]; grind [sharedIno_false, Pc.holdsClaim, isSome_of_ino, Option.isSome_some, Option.isSome_none]
  · intro v; clear h1 h2 h3 h4 h7 hw1 hw2 hw7 d2 d3 d4 d6 d6' d7 hd3 d9
    simp only [State.apply, wt_ino, wt_content, apply_ite (Option.map File.ino), apply_ite (Option.map File.content), Option.map_some, Option.map_none]; grind [sharedIno_false, Pc.copied, isSome_of_ino, Option.isSome_some, Option.isSome_none]
  · intro v; clear h1 h2 h3 h4 d1 d2 d3 d4 d5 d6' d7 hd3 hd5 d9
    simp only [State.apply, wt_ino, wt_content, apply_ite (Option.map File.ino), apply_ite (Option.map File.content), Option.map_some, Option.map_none]; grind [sharedIno_false, isSome_of_ino, Option.isSome_some, Option.isSome_none]
  · intro v p; clear h1 h2 h3 h4 d3 d5 d7 hd3 hd5 d9
    simp only [State.apply, wt_ino, wt_content, apply_ite (Option.map File.ino), apply_ite (Option.map File.content), Option.map_some, Option.map_none]; grind [sharedIno_false, isSome_of_ino, Option.isSome_some, Option.isSome_none]
  · intro v; clear h2 h3 h4 hw2 d2 d3 d4 d6 d6' hd3 d9
    simp only [State.apply, wt_ino, wt_content, apply_ite (Option.map File.ino), apply_ite (Option.map File.content), Option.map_some, Option.map_none]; grind [sharedIno_false, Pc.plainOk, isSome_of_ino, Option.isSome_some, Option.isSome_none]
  · intro v; clear h1 h2 h3 h4 h5 h6 h7 hw1 hw2 hw6 hw7 d1 d2 d3 d4 d5 d6 d6' d7 hd3 hd5 d9
    simp only [State.apply, wt_ino, wt_content, apply_ite (Option.map File.ino), apply_ite (Option.map File.content), Option.map_some, Option.map_none]; grind [sharedIno_false, wt_none]
  · intro v; clear h1 h2 h3 h4 h5 h6 h7 hw1 hw2 hw6 hw7 d1 d2 d3 d4 d5 d6 d6' d7 hd3 hd5
    simp only [State.apply, wt_isSome, apply_ite Option.isSome, Option.isSome_some, Option.isSome_none]; grind [sharedIno_false, Pc.beforeRelink]))

set_option hygiene false in
macro "invD_case" hi:ident hd:ident hpc:ident w:ident hnext:ident : tactic => `(tactic| (
  obtain ⟨h1, h2, h3, h4, h5, h6, h7⟩ := $hi
  have hw7 := h7 $w
  have hw1 := h1 $w
  have hw2 := h2 $w
  have hw6 := h6 $w
  simp only [$hpc:ident, Pc.plainOk, Pc.holdsClaim, Pc.linksTo] at hw1 hw2 hw6 hw7
  obtain ⟨d1, d2, d3, d4, d5, d6, d6', d7, d8, d9⟩ := $hd
  have hd5 := d5 $w
  have hd3 := d3 $w
  simp only [$hpc:ident, Pc.copied, Pc.pastCopy] at hd5
  simp only [next, failPc] at $hnext:ident
  (repeat' split at $hnext:ident) <;> (cases $hnext:ident <;> invD_clauses)))

section
variable {cfg : Cfg} {s : State} {w : Nat} {l : Label} {e : Effect}

theorem inv_start (hi : Inv cfg s) (hw : w < cfg.n) (hpc : s.pc w = .start)
    (hnext : next cfg w (cfg.worker w) .start (s.map (cfg.worker w).inode) s.calls s.dst = some (l, e)) :
    Inv cfg (s.apply w (cfg.worker w).inode e) := by
  inv_case hi hpc w hnext

theorem inv_sawNone (hi : Inv cfg s) (hw : w < cfg.n) (hpc : s.pc w = .sawNone)
    (hnext : next cfg w (cfg.worker w) .sawNone (s.map (cfg.worker w).inode) s.calls s.dst = some (l, e)) :
    Inv cfg (s.apply w (cfg.worker w).inode e) := by
  inv_case hi hpc w hnext

theorem inv_sawInProgress {g : Nat} (hi : Inv cfg s) (hw : w < cfg.n) (hpc : s.pc w = .sawInProgress g)
    (hnext : next cfg w (cfg.worker w) (.sawInProgress g) (s.map (cfg.worker w).inode) s.calls s.dst = some (l, e)) :
    Inv cfg (s.apply w (cfg.worker w).inode e) := by
  inv_case hi hpc w hnext

theorem inv_armed {g snap : Nat} (hi : Inv cfg s) (hw : w < cfg.n) (hpc : s.pc w = .armed g snap)
    (hnext : next cfg w (cfg.worker w) (.armed g snap) (s.map (cfg.worker w).inode) s.calls s.dst = some (l, e)) :
    Inv cfg (s.apply w (cfg.worker w).inode e) := by
  inv_case hi hpc w hnext

theorem inv_waiting {g snap : Nat} (hi : Inv cfg s) (hw : w < cfg.n) (hpc : s.pc w = .waiting g snap)
    (hnext : next cfg w (cfg.worker w) (.waiting g snap) (s.map (cfg.worker w).inode) s.calls s.dst = some (l, e)) :
    Inv cfg (s.apply w (cfg.worker w).inode e) := by
  inv_case hi hpc w hnext

theorem inv_linkOp {p k : Nat} (hi : Inv cfg s) (hw : w < cfg.n) (hpc : s.pc w = .linkOp p k)
    (hnext : next cfg w (cfg.worker w) (.linkOp p k) (s.map (cfg.worker w).inode) s.calls s.dst = some (l, e)) :
    Inv cfg (s.apply w (cfg.worker w).inode e) := by
  cases k <;> inv_case hi hpc w hnext

theorem inv_sameOp {p : Nat} (hi : Inv cfg s) (hw : w < cfg.n) (hpc : s.pc w = .sameOp p)
    (hnext : next cfg w (cfg.worker w) (.sameOp p) (s.map (cfg.worker w).inode) s.calls s.dst = some (l, e)) :
    Inv cfg (s.apply w (cfg.worker w).inode e) := by
  inv_case hi hpc w hnext

theorem inv_removeOp {p k : Nat} (hi : Inv cfg s) (hw : w < cfg.n) (hpc : s.pc w = .removeOp p k)
    (hnext : next cfg w (cfg.worker w) (.removeOp p k) (s.map (cfg.worker w).inode) s.calls s.dst = some (l, e)) :
    Inv cfg (s.apply w (cfg.worker w).inode e) := by
  cases k <;> inv_case hi hpc w hnext

theorem inv_mkdirOp {k : Nat} (hi : Inv cfg s) (hw : w < cfg.n) (hpc : s.pc w = .mkdirOp k)
    (hnext : next cfg w (cfg.worker w) (.mkdirOp k) (s.map (cfg.worker w).inode) s.calls s.dst = some (l, e)) :
    Inv cfg (s.apply w (cfg.worker w).inode e) := by
  cases k <;> inv_case hi hpc w hnext

theorem inv_copyOp {k : Nat} (hi : Inv cfg s) (hw : w < cfg.n) (hpc : s.pc w = .copyOp k)
    (hnext : next cfg w (cfg.worker w) (.copyOp k) (s.map (cfg.worker w).inode) s.calls s.dst = some (l, e)) :
    Inv cfg (s.apply w (cfg.worker w).inode e) := by
  cases k <;> inv_case hi hpc w hnext

theorem inv_syncOp {k : Nat} (hi : Inv cfg s) (hw : w < cfg.n) (hpc : s.pc w = .syncOp k)
    (hnext : next cfg w (cfg.worker w) (.syncOp k) (s.map (cfg.worker w).inode) s.calls s.dst = some (l, e)) :
    Inv cfg (s.apply w (cfg.worker w).inode e) := by
  cases k <;> inv_case hi hpc w hnext

theorem inv_metaOp (hi : Inv cfg s) (hw : w < cfg.n) (hpc : s.pc w = .metaOp)
    (hnext : next cfg w (cfg.worker w) .metaOp (s.map (cfg.worker w).inode) s.calls s.dst = some (l, e)) :
    Inv cfg (s.apply w (cfg.worker w).inode e) := by
  inv_case hi hpc w hnext

theorem inv_complete (hi : Inv cfg s) (hw : w < cfg.n) (hpc : s.pc w = .complete)
    (hnext : next cfg w (cfg.worker w) .complete (s.map (cfg.worker w).inode) s.calls s.dst = some (l, e)) :
    Inv cfg (s.apply w (cfg.worker w).inode e) := by
  inv_case hi hpc w hnext

theorem inv_notifyOk (hi : Inv cfg s) (hw : w < cfg.n) (hpc : s.pc w = .notifyOk)
    (hnext : next cfg w (cfg.worker w) .notifyOk (s.map (cfg.worker w).inode) s.calls s.dst = some (l, e)) :
    Inv cfg (s.apply w (cfg.worker w).inode e) := by
  inv_case hi hpc w hnext

theorem inv_cleanup {op : Op} (hi : Inv cfg s) (hw : w < cfg.n) (hpc : s.pc w = .cleanup op)
    (hnext : next cfg w (cfg.worker w) (.cleanup op) (s.map (cfg.worker w).inode) s.calls s.dst = some (l, e)) :
    Inv cfg (s.apply w (cfg.worker w).inode e) := by
  inv_case hi hpc w hnext

theorem inv_failNotify {op : Op} (hi : Inv cfg s) (hw : w < cfg.n) (hpc : s.pc w = .failNotify op)
    (hnext : next cfg w (cfg.worker w) (.failNotify op) (s.map (cfg.worker w).inode) s.calls s.dst = some (l, e)) :
    Inv cfg (s.apply w (cfg.worker w).inode e) := by
  inv_case hi hpc w hnext

theorem invR_start (hi : Inv cfg s) (hr : InvR cfg s) (hv : cfg.variant = .repaired) (hw : w < cfg.n) (hpc : s.pc w = .start)
    (hnext : next cfg w (cfg.worker w) .start (s.map (cfg.worker w).inode) s.calls s.dst = some (l, e)) :
    InvR cfg (s.apply w (cfg.worker w).inode e) := by
  invR_case hi hr hpc w hnext

theorem invR_sawNone (hi : Inv cfg s) (hr : InvR cfg s) (hv : cfg.variant = .repaired) (hw : w < cfg.n) (hpc : s.pc w = .sawNone)
    (hnext : next cfg w (cfg.worker w) .sawNone (s.map (cfg.worker w).inode) s.calls s.dst = some (l, e)) :
    InvR cfg (s.apply w (cfg.worker w).inode e) := by
  invR_case hi hr hpc w hnext

theorem invR_sawInProgress {g : Nat} (hi : Inv cfg s) (hr : InvR cfg s) (hv : cfg.variant = .repaired) (hw : w < cfg.n) (hpc : s.pc w = .sawInProgress g)
    (hnext : next cfg w (cfg.worker w) (.sawInProgress g) (s.map (cfg.worker w).inode) s.calls s.dst = some (l, e)) :
    InvR cfg (s.apply w (cfg.worker w).inode e) := by
  invR_case hi hr hpc w hnext

theorem invR_armed {g snap : Nat} (hi : Inv cfg s) (hr : InvR cfg s) (hv : cfg.variant = .repaired) (hw : w < cfg.n) (hpc : s.pc w = .armed g snap)
    (hnext : next cfg w (cfg.worker w) (.armed g snap) (s.map (cfg.worker w).inode) s.calls s.dst = some (l, e)) :
    InvR cfg (s.apply w (cfg.worker w).inode e) := by
  have hsnap := hr.snapArmed w g snap hpc
  have hnot := hi.notified g
  invR_case hi hr hpc w hnext

theorem invR_waiting {g snap : Nat} (hi : Inv cfg s) (hr : InvR cfg s) (hv : cfg.variant = .repaired) (hw : w < cfg.n) (hpc : s.pc w = .waiting g snap)
    (hnext : next cfg w (cfg.worker w) (.waiting g snap) (s.map (cfg.worker w).inode) s.calls s.dst = some (l, e)) :
    InvR cfg (s.apply w (cfg.worker w).inode e) := by
  invR_case hi hr hpc w hnext

theorem invR_linkOp {p k : Nat} (hi : Inv cfg s) (hr : InvR cfg s) (hv : cfg.variant = .repaired) (hw : w < cfg.n) (hpc : s.pc w = .linkOp p k)
    (hnext : next cfg w (cfg.worker w) (.linkOp p k) (s.map (cfg.worker w).inode) s.calls s.dst = some (l, e)) :
    InvR cfg (s.apply w (cfg.worker w).inode e) := by
  cases k <;> invR_case hi hr hpc w hnext

theorem invR_sameOp {p : Nat} (hi : Inv cfg s) (hr : InvR cfg s) (hv : cfg.variant = .repaired) (hw : w < cfg.n) (hpc : s.pc w = .sameOp p)
    (hnext : next cfg w (cfg.worker w) (.sameOp p) (s.map (cfg.worker w).inode) s.calls s.dst = some (l, e)) :
    InvR cfg (s.apply w (cfg.worker w).inode e) := by
  invR_case hi hr hpc w hnext

theorem invR_removeOp {p k : Nat} (hi : Inv cfg s) (hr : InvR cfg s) (hv : cfg.variant = .repaired) (hw : w < cfg.n) (hpc : s.pc w = .removeOp p k)
    (hnext : next cfg w (cfg.worker w) (.removeOp p k) (s.map (cfg.worker w).inode) s.calls s.dst = some (l, e)) :
    InvR cfg (s.apply w (cfg.worker w).inode e) := by
  cases k <;> invR_case hi hr hpc w hnext

theorem invR_mkdirOp {k : Nat} (hi : Inv cfg s) (hr : InvR cfg s) (hv : cfg.variant = .repaired) (hw : w < cfg.n) (hpc : s.pc w = .mkdirOp k)
    (hnext : next cfg w (cfg.worker w) (.mkdirOp k) (s.map (cfg.worker w).inode) s.calls s.dst = some (l, e)) :
    InvR cfg (s.apply w (cfg.worker w).inode e) := by
  cases k <;> invR_case hi hr hpc w hnext

theorem invR_copyOp {k : Nat} (hi : Inv cfg s) (hr : InvR cfg s) (hv : cfg.variant = .repaired) (hw : w < cfg.n) (hpc : s.pc w = .copyOp k)
    (hnext : next cfg w (cfg.worker w) (.copyOp k) (s.map (cfg.worker w).inode) s.calls s.dst = some (l, e)) :
    InvR cfg (s.apply w (cfg.worker w).inode e) := by
  cases k <;> invR_case hi hr hpc w hnext

theorem invR_syncOp {k : Nat} (hi : Inv cfg s) (hr : InvR cfg s) (hv : cfg.variant = .repaired) (hw : w < cfg.n) (hpc : s.pc w = .syncOp k)
    (hnext : next cfg w (cfg.worker w) (.syncOp k) (s.map (cfg.worker w).inode) s.calls s.dst = some (l, e)) :
    InvR cfg (s.apply w (cfg.worker w).inode e) := by
  cases k <;> invR_case hi hr hpc w hnext

theorem invR_metaOp (hi : Inv cfg s) (hr : InvR cfg s) (hv : cfg.variant = .repaired) (hw : w < cfg.n) (hpc : s.pc w = .metaOp)
    (hnext : next cfg w (cfg.worker w) .metaOp (s.map (cfg.worker w).inode) s.calls s.dst = some (l, e)) :
    InvR cfg (s.apply w (cfg.worker w).inode e) := by
  invR_case hi hr hpc w hnext

theorem invR_complete (hi : Inv cfg s) (hr : InvR cfg s) (hv : cfg.variant = .repaired) (hw : w < cfg.n) (hpc : s.pc w = .complete)
    (hnext : next cfg w (cfg.worker w) .complete (s.map (cfg.worker w).inode) s.calls s.dst = some (l, e)) :
    InvR cfg (s.apply w (cfg.worker w).inode e) := by
  invR_case hi hr hpc w hnext

theorem invR_notifyOk (hi : Inv cfg s) (hr : InvR cfg s) (hv : cfg.variant = .repaired) (hw : w < cfg.n) (hpc : s.pc w = .notifyOk)
    (hnext : next cfg w (cfg.worker w) .notifyOk (s.map (cfg.worker w).inode) s.calls s.dst = some (l, e)) :
    InvR cfg (s.apply w (cfg.worker w).inode e) := by
  invR_case hi hr hpc w hnext

theorem invR_cleanup {op : Op} (hi : Inv cfg s) (hr : InvR cfg s) (hv : cfg.variant = .repaired) (hw : w < cfg.n) (hpc : s.pc w = .cleanup op)
    (hnext : next cfg w (cfg.worker w) (.cleanup op) (s.map (cfg.worker w).inode) s.calls s.dst = some (l, e)) :
    InvR cfg (s.apply w (cfg.worker w).inode e) := by
  invR_case hi hr hpc w hnext

theorem invR_failNotify {op : Op} (hi : Inv cfg s) (hr : InvR cfg s) (hv : cfg.variant = .repaired) (hw : w < cfg.n) (hpc : s.pc w = .failNotify op)
    (hnext : next cfg w (cfg.worker w) (.failNotify op) (s.map (cfg.worker w).inode) s.calls s.dst = some (l, e)) :
    InvR cfg (s.apply w (cfg.worker w).inode e) := by
  invR_case hi hr hpc w hnext

theorem invD_start (hi : Inv cfg s) (hd : InvD cfg s) (hw : w < cfg.n) (hpc : s.pc w = .start)
    (hnext : next cfg w (cfg.worker w) .start (s.map (cfg.worker w).inode) s.calls s.dst = some (l, e)) :
    InvD cfg (s.apply w (cfg.worker w).inode e) := by
  invD_case hi hd hpc w hnext

theorem invD_sawNone (hi : Inv cfg s) (hd : InvD cfg s) (hw : w < cfg.n) (hpc : s.pc w = .sawNone)
    (hnext : next cfg w (cfg.worker w) .sawNone (s.map (cfg.worker w).inode) s.calls s.dst = some (l, e)) :
    InvD cfg (s.apply w (cfg.worker w).inode e) := by
  invD_case hi hd hpc w hnext

theorem invD_sawInProgress {g : Nat} (hi : Inv cfg s) (hd : InvD cfg s) (hw : w < cfg.n) (hpc : s.pc w = .sawInProgress g)
    (hnext : next cfg w (cfg.worker w) (.sawInProgress g) (s.map (cfg.worker w).inode) s.calls s.dst = some (l, e)) :
    InvD cfg (s.apply w (cfg.worker w).inode e) := by
  invD_case hi hd hpc w hnext

theorem invD_armed {g snap : Nat} (hi : Inv cfg s) (hd : InvD cfg s) (hw : w < cfg.n) (hpc : s.pc w = .armed g snap)
    (hnext : next cfg w (cfg.worker w) (.armed g snap) (s.map (cfg.worker w).inode) s.calls s.dst = some (l, e)) :
    InvD cfg (s.apply w (cfg.worker w).inode e) := by
  invD_case hi hd hpc w hnext

theorem invD_waiting {g snap : Nat} (hi : Inv cfg s) (hd : InvD cfg s) (hw : w < cfg.n) (hpc : s.pc w = .waiting g snap)
    (hnext : next cfg w (cfg.worker w) (.waiting g snap) (s.map (cfg.worker w).inode) s.calls s.dst = some (l, e)) :
    InvD cfg (s.apply w (cfg.worker w).inode e) := by
  invD_case hi hd hpc w hnext

theorem invD_linkOp {p k : Nat} (hi : Inv cfg s) (hd : InvD cfg s) (hw : w < cfg.n) (hpc : s.pc w = .linkOp p k)
    (hnext : next cfg w (cfg.worker w) (.linkOp p k) (s.map (cfg.worker w).inode) s.calls s.dst = some (l, e)) :
    InvD cfg (s.apply w (cfg.worker w).inode e) := by
  cases k <;> invD_case hi hd hpc w hnext

theorem invD_sameOp {p : Nat} (hi : Inv cfg s) (hd : InvD cfg s) (hw : w < cfg.n) (hpc : s.pc w = .sameOp p)
    (hnext : next cfg w (cfg.worker w) (.sameOp p) (s.map (cfg.worker w).inode) s.calls s.dst = some (l, e)) :
    InvD cfg (s.apply w (cfg.worker w).inode e) := by
  invD_case hi hd hpc w hnext

theorem invD_removeOp {p k : Nat} (hi : Inv cfg s) (hd : InvD cfg s) (hw : w < cfg.n) (hpc : s.pc w = .removeOp p k)
    (hnext : next cfg w (cfg.worker w) (.removeOp p k) (s.map (cfg.worker w).inode) s.calls s.dst = some (l, e)) :
    InvD cfg (s.apply w (cfg.worker w).inode e) := by
  cases k <;> invD_case hi hd hpc w hnext

theorem invD_mkdirOp {k : Nat} (hi : Inv cfg s) (hd : InvD cfg s) (hw : w < cfg.n) (hpc : s.pc w = .mkdirOp k)
    (hnext : next cfg w (cfg.worker w) (.mkdirOp k) (s.map (cfg.worker w).inode) s.calls s.dst = some (l, e)) :
    InvD cfg (s.apply w (cfg.worker w).inode e) := by
  cases k <;> invD_case hi hd hpc w hnext

theorem invD_copyOp {k : Nat} (hi : Inv cfg s) (hd : InvD cfg s) (hw : w < cfg.n) (hpc : s.pc w = .copyOp k)
    (hnext : next cfg w (cfg.worker w) (.copyOp k) (s.map (cfg.worker w).inode) s.calls s.dst = some (l, e)) :
    InvD cfg (s.apply w (cfg.worker w).inode e) := by
  cases k <;> invD_case hi hd hpc w hnext

theorem invD_syncOp_succ {k : Nat} (hi : Inv cfg s) (hd : InvD cfg s) (hw : w < cfg.n) (hpc : s.pc w = .syncOp (k + 1))
    (hnext : next cfg w (cfg.worker w) (.syncOp (k + 1)) (s.map (cfg.worker w).inode) s.calls s.dst = some (l, e)) :
    InvD cfg (s.apply w (cfg.worker w).inode e) := by
  invD_case hi hd hpc w hnext

-- four branches (failure, vanished destination, fresh inode, write-through of an unshared inode)
-- × ten clauses in one declaration
set_option maxHeartbeats 400000 in
theorem invD_syncOp_zero (hi : Inv cfg s) (hd : InvD cfg s) (hw : w < cfg.n) (hpc : s.pc w = .syncOp 0)
    (hnext : next cfg w (cfg.worker w) (.syncOp 0) (s.map (cfg.worker w).inode) s.calls s.dst = some (l, e)) :
    InvD cfg (s.apply w (cfg.worker w).inode e) := by
  invD_case hi hd hpc w hnext

theorem invD_syncOp {k : Nat} (hi : Inv cfg s) (hd : InvD cfg s) (hw : w < cfg.n) (hpc : s.pc w = .syncOp k)
    (hnext : next cfg w (cfg.worker w) (.syncOp k) (s.map (cfg.worker w).inode) s.calls s.dst = some (l, e)) :
    InvD cfg (s.apply w (cfg.worker w).inode e) := by
  cases k with
  | zero => exact invD_syncOp_zero hi hd hw hpc hnext
  | succ k => exact invD_syncOp_succ hi hd hw hpc hnext

theorem invD_metaOp (hi : Inv cfg s) (hd : InvD cfg s) (hw : w < cfg.n) (hpc : s.pc w = .metaOp)
    (hnext : next cfg w (cfg.worker w) .metaOp (s.map (cfg.worker w).inode) s.calls s.dst = some (l, e)) :
    InvD cfg (s.apply w (cfg.worker w).inode e) := by
  invD_case hi hd hpc w hnext

theorem invD_complete (hi : Inv cfg s) (hd : InvD cfg s) (hw : w < cfg.n) (hpc : s.pc w = .complete)
    (hnext : next cfg w (cfg.worker w) .complete (s.map (cfg.worker w).inode) s.calls s.dst = some (l, e)) :
    InvD cfg (s.apply w (cfg.worker w).inode e) := by
  invD_case hi hd hpc w hnext

theorem invD_notifyOk (hi : Inv cfg s) (hd : InvD cfg s) (hw : w < cfg.n) (hpc : s.pc w = .notifyOk)
    (hnext : next cfg w (cfg.worker w) .notifyOk (s.map (cfg.worker w).inode) s.calls s.dst = some (l, e)) :
    InvD cfg (s.apply w (cfg.worker w).inode e) := by
  invD_case hi hd hpc w hnext

theorem invD_cleanup {op : Op} (hi : Inv cfg s) (hd : InvD cfg s) (hw : w < cfg.n) (hpc : s.pc w = .cleanup op)
    (hnext : next cfg w (cfg.worker w) (.cleanup op) (s.map (cfg.worker w).inode) s.calls s.dst = some (l, e)) :
    InvD cfg (s.apply w (cfg.worker w).inode e) := by
  invD_case hi hd hpc w hnext

theorem invD_failNotify {op : Op} (hi : Inv cfg s) (hd : InvD cfg s) (hw : w < cfg.n) (hpc : s.pc w = .failNotify op)
    (hnext : next cfg w (cfg.worker w) (.failNotify op) (s.map (cfg.worker w).inode) s.calls s.dst = some (l, e)) :
    InvD cfg (s.apply w (cfg.worker w).inode e) := by
  invD_case hi hd hpc w hnext

end

theorem inv_step {cfg : Cfg} {s s' : State} {w : Nat} {l : Label} (hi : Inv cfg s)
    (h : step cfg s w = some (l, s')) : Inv cfg s' := by
  obtain ⟨hw, e, hnext, rfl⟩ := step_eq_some h
  cases hpc : s.pc w <;> rw [hpc] at hnext
  case start => exact inv_start hi hw hpc hnext
  case sawNone => exact inv_sawNone hi hw hpc hnext
  case sawInProgress g => exact inv_sawInProgress hi hw hpc hnext
  case armed g snap => exact inv_armed hi hw hpc hnext
  case waiting g snap => exact inv_waiting hi hw hpc hnext
  case linkOp p k => exact inv_linkOp hi hw hpc hnext
  case sameOp p => exact inv_sameOp hi hw hpc hnext
  case removeOp p k => exact inv_removeOp hi hw hpc hnext
  case mkdirOp k => exact inv_mkdirOp hi hw hpc hnext
  case copyOp k => exact inv_copyOp hi hw hpc hnext
  case syncOp k => exact inv_syncOp hi hw hpc hnext
  case metaOp => exact inv_metaOp hi hw hpc hnext
  case complete => exact inv_complete hi hw hpc hnext
  case notifyOk => exact inv_notifyOk hi hw hpc hnext
  case cleanup op => exact inv_cleanup hi hw hpc hnext
  case failNotify op => exact inv_failNotify hi hw hpc hnext
  case done r => simp [next] at hnext

theorem invR_step {cfg : Cfg} {s s' : State} {w : Nat} {l : Label} (hv : cfg.variant = .repaired) (hi : Inv cfg s) (hr : InvR cfg s)
    (h : step cfg s w = some (l, s')) : InvR cfg s' := by
  obtain ⟨hw, e, hnext, rfl⟩ := step_eq_some h
  cases hpc : s.pc w <;> rw [hpc] at hnext
  case start => exact invR_start hi hr hv hw hpc hnext
  case sawNone => exact invR_sawNone hi hr hv hw hpc hnext
  case sawInProgress g => exact invR_sawInProgress hi hr hv hw hpc hnext
  case armed g snap => exact invR_armed hi hr hv hw hpc hnext
  case waiting g snap => exact invR_waiting hi hr hv hw hpc hnext
  case linkOp p k => exact invR_linkOp hi hr hv hw hpc hnext
  case sameOp p => exact invR_sameOp hi hr hv hw hpc hnext
  case removeOp p k => exact invR_removeOp hi hr hv hw hpc hnext
  case mkdirOp k => exact invR_mkdirOp hi hr hv hw hpc hnext
  case copyOp k => exact invR_copyOp hi hr hv hw hpc hnext
  case syncOp k => exact invR_syncOp hi hr hv hw hpc hnext
  case metaOp => exact invR_metaOp hi hr hv hw hpc hnext
  case complete => exact invR_complete hi hr hv hw hpc hnext
  case notifyOk => exact invR_notifyOk hi hr hv hw hpc hnext
  case cleanup op => exact invR_cleanup hi hr hv hw hpc hnext
  case failNotify op => exact invR_failNotify hi hr hv hw hpc hnext
  case done r => simp [next] at hnext

theorem invD_step {cfg : Cfg} {s s' : State} {w : Nat} {l : Label} (hi : Inv cfg s) (hd : InvD cfg s)
    (h : step cfg s w = some (l, s')) : InvD cfg s' := by
  obtain ⟨hw, e, hnext, rfl⟩ := step_eq_some h
  cases hpc : s.pc w <;> rw [hpc] at hnext
  case start => exact invD_start hi hd hw hpc hnext
  case sawNone => exact invD_sawNone hi hd hw hpc hnext
  case sawInProgress g => exact invD_sawInProgress hi hd hw hpc hnext
  case armed g snap => exact invD_armed hi hd hw hpc hnext
  case waiting g snap => exact invD_waiting hi hd hw hpc hnext
  case linkOp p k => exact invD_linkOp hi hd hw hpc hnext
  case sameOp p => exact invD_sameOp hi hd hw hpc hnext
  case removeOp p k => exact invD_removeOp hi hd hw hpc hnext
  case mkdirOp k => exact invD_mkdirOp hi hd hw hpc hnext
  case copyOp k => exact invD_copyOp hi hd hw hpc hnext
  case syncOp k => exact invD_syncOp hi hd hw hpc hnext
  case metaOp => exact invD_metaOp hi hd hw hpc hnext
  case complete => exact invD_complete hi hd hw hpc hnext
  case notifyOk => exact invD_notifyOk hi hd hw hpc hnext
  case cleanup op => exact invD_cleanup hi hd hw hpc hnext
  case failNotify op => exact invD_failNotify hi hd hw hpc hnext
  case done r => simp [next] at hnext

theorem inv_exec {cfg : Cfg} {s s' : State} {sched : List Nat} (hi : Inv cfg s)
    (h : Exec cfg s sched s') : Inv cfg s' := by
  induction h with
  | nil s => exact hi
  | cons hstep _ ih => exact ih (inv_step hi hstep)

theorem inv_reachable {cfg : Cfg} {s : State} (h : Reachable cfg s) : Inv cfg s := by
  obtain ⟨sched, hex⟩ := h
  exact inv_exec (inv_init cfg) hex

theorem invR_exec {cfg : Cfg} {s s' : State} {sched : List Nat} (hv : cfg.variant = .repaired)
    (hi : Inv cfg s) (hr : InvR cfg s) (h : Exec cfg s sched s') : InvR cfg s' := by
  induction h with
  | nil s => exact hr
  | cons hstep _ ih => exact ih (inv_step hi hstep) (invR_step hv hi hr hstep)

theorem invR_reachable {cfg : Cfg} {s : State} (hv : cfg.variant = .repaired) (h : Reachable cfg s) :
    InvR cfg s := by
  obtain ⟨sched, hex⟩ := h
  exact invR_exec hv (inv_init cfg) (invR_init cfg) hex

theorem invD_exec {cfg : Cfg} {s s' : State} {sched : List Nat}
    (hi : Inv cfg s) (hd : InvD cfg s) (h : Exec cfg s sched s') : InvD cfg s' := by
  induction h with
  | nil s => exact hd
  | cons hstep _ ih => exact ih (inv_step hi hstep) (invD_step hi hd hstep)

theorem invD_reachable {cfg : Cfg} {s : State} (hok : cfg.DstOk) (h : Reachable cfg s) :
    InvD cfg s := by
  obtain ⟨sched, hex⟩ := h
  exact invD_exec (inv_init cfg) (invD_init cfg hok) hex

end SyModel.Hardlink
