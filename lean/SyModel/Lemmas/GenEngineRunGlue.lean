/-
  Lemmas.GenEngineRunGlue — THE GLUE of the capstone `Props/GenEngineRun.lean`: `seqEngine`, the sequential composition
  of the translated pieces of `SyncEngine::sync` (src/sync/mod.rs) and of the exit decision of `main` (src/main.rs).

  EVERYTHING in this file is TRUSTED: it stands for the parts of `sync` that are NOT translated — the `for` headers, the
  hand-over of values between the translated fragments, the one-worker schedule — and for the field-wise identification of
  the copies of `FileEntry` / `SyncTask` / `SyncAction` that each translation unit carries.  It is kept as small and as
  explicit as possible; the Rust lines each piece stands for are cited.

    unit (translated, regenerated on every run)        used here as
    EnginePlan.plan_round (mod.rs:527-582)             body of `planLoop` (the fold is `Props.GenEnginePlan.planLoop`)
    PlannerFx.*  (strategy.rs)                         inside the instance `ext2` of the round; `plan_deletions`
    EngineGuard.dest_file_count (mod.rs:603-612)       the guard's denominator, on `guardExt`
    Guards.delete_percentage / threshold_exceeded      the guard's arithmetic (mod.rs:615-618)
    EngineTask.run_task (mod.rs:828-1190)              body of `execLoop`, on the instance `engineExt cfg`
    Transfer.* (transfer.rs)                           inside the instance `engineExt cfg`
    MainExit.sync_failed (main.rs:776, last `if` on stats)  the exit status

  NOT in the glue (see INTEGRATION.md): the filter closure (the filtered list `files` is an INPUT; its bridge is
  `Props/GenFilter.lean`), the sort that moves replaced links first and the barrier (mod.rs:584-585, 668-681, 767-775),
  `tokio::spawn` / semaphore / `join_all` with more than one worker, the checksum database (`checksum_db = None` is passed
  to every round), the resume state, progress bars, the `Start` / `Summary` events, `max_errors`.
-/
import SyModel.Lemmas.GenEngineRun
import SyModel.Props.GenEnginePlan
import SyModel.Props.GenEngineGuard
import SyModel.Props.GenGuards
import SyModel.Props.GenMainExit
set_option linter.unusedVariables false
set_option linter.unusedSimpArgs false
namespace SyModel.Lemmas.GenEngineRun
open SyModel SyModel.Engine SyModel.Generated SyModel.GenEngineTask
open SyModel.Lemmas.GenEnginePlan (ext2 toPEntry ofPTask)
open SyModel.Lemmas.GenPlannerFx (PlanWorld)
open SyModel.Props.GenEnginePlan (planLoop)

/-! ## field-wise identification of the units' copies of the same Rust types -/

/-- `FileEntry` of unit EnginePlan ↦ `FileEntry` of unit EngineTask (same Rust struct, src/sync/scanner.rs) -/
def toXEntry (e : EnginePlan.FileEntry) : EngineTask.FileEntry :=
  { path := e.path, relative_path := e.relative_path, size := e.size, modified := e.modified, is_dir := e.is_dir,
    is_symlink := e.is_symlink, symlink_target := e.symlink_target, is_sparse := e.is_sparse,
    allocated_size := e.allocated_size, xattrs := e.xattrs, inode := e.inode, nlink := e.nlink, acls := e.acls,
    bsd_flags := e.bsd_flags }

/-- `SyncAction` of unit EnginePlan ↦ `SyncAction` of unit EngineTask -/
def toXAct : EnginePlan.SyncAction → EngineTask.SyncAction
  | .Skip => .Skip | .Create => .Create | .Update => .Update | .Delete => .Delete

/-- `SyncTask` of unit EnginePlan ↦ `SyncTask` of unit EngineTask (same Rust struct, src/sync/strategy.rs) -/
def toXTask (t : EnginePlan.SyncTask) : EngineTask.SyncTask :=
  { source := t.source.map toXEntry, dest_path := t.dest_path, action := toXAct t.action,
    source_checksum := t.source_checksum, dest_checksum := t.dest_checksum }

/-- `FileEntry` of unit PlannerFx ↦ `FileEntry` of unit EngineGuard -/
def toGEntry (e : PlannerFx.FileEntry) : EngineGuard.FileEntry :=
  { path := e.path, relative_path := e.relative_path, size := e.size, modified := e.modified, is_dir := e.is_dir,
    is_symlink := e.is_symlink, symlink_target := e.symlink_target, is_sparse := e.is_sparse,
    allocated_size := e.allocated_size, xattrs := e.xattrs, inode := e.inode, nlink := e.nlink, acls := e.acls,
    bsd_flags := e.bsd_flags }

/-! ## the engine's fields, read off the model's configuration -/

def modeOfLinks : LinkMode → EnginePlan.SymlinkMode
  | .preserve => .Preserve | .follow => .Follow | .skip => .Skip

/-- the view of `SyncEngine` the planning round reads: `self.symlink_mode`, `self.transport` -/
def engOf (cfg : Cfg) : EnginePlan.SyncEngine := ⟨modeOfLinks cfg.links, {}⟩

/-- `StrategyPlanner::with_comparison_flags(self.ignore_times, self.size_only, self.checksum)` (src/sync/mod.rs:518-522,
    src/sync/strategy.rs:60-75: tolerance = the literal 1, a `Fast` verifier exactly with `--checksum`) -/
def plannerOf (cfg : Cfg) : PlannerFx.StrategyPlanner :=
  { mtime_tolerance := MTIME_TOLERANCE_SECS, ignore_times := cfg.compare == .ignoreTimes,
    size_only := cfg.compare == .sizeOnly, checksum := cfg.compare == .checksum,
    verifier := if cfg.compare == .checksum then some ⟨.Fast, false⟩ else none }

/-! ## one world for the planner and the executors -/

/-- what the planner's world has beyond the executors': what a destination symlink resolves to, the metadata of
    directories, the source root text (row keys of the checksum database — unused: the database is empty) -/
structure PlanView where
  through : Engine.Path → LinkTarget
  dirInfo : Rs.Path → Nat × Nat
  srcRoot : Rs.Path

/-- **the planner probes the SAME destination tree the executors write, and the SAME source files**: the planner's
    world (`Lemmas/GenPlannerFx.PlanWorld`) read off the executors' world (`Lemmas/GenEngineTask.EWorld`): same root text,
    same destination map, source path texts resolve as `xw.src` says, no checksum-database rows -/
def planWorldOf (ew : EWorld) (v : PlanView) : PlanWorld :=
  { root := ew.xw.root, dst := ew.xw.w.dst, through := v.through, dirInfo := v.dirInfo, outside := ew.xw.src,
    srcRoot := v.srcRoot, db := [] }

/-- the instance of unit EngineGuard: `Scanner::new(destination).scan()` is the walk of the destination the planner's
    world defines (`PlanWorld.scanOf`: one entry per node of the map, relative path = the key's text) -/
def guardExt : EngineGuard.Ext PlanWorld where
  scanner_Scanner_new p := p
  scanner_scan r := SyModel.Lemmas.GenPlannerFx.probe fun w => .ok ((w.scanOf r).map toGEntry)

/-! ## the untranslated fragments between the translated ones -/

/-- `deletions.retain(|task| { let rel = task.dest_path.strip_prefix(destination).unwrap_or(&task.dest_path);
    !scanned_paths.contains(rel) && !Self::is_own_metadata_file(rel) })` (src/sync/mod.rs:590-596) — transcribed by
    hand; `is_own_metadata_file` is the TRANSLATED function of unit EngineGuard -/
def retainGlue (scanned : List Rs.Path) (destination : Rs.Path) (ds : List PlannerFx.SyncTask) :
    List PlannerFx.SyncTask :=
  ds.filter fun t =>
    let rel := Rs.unwrap_or (Rs.strip_prefix t.dest_path destination) t.dest_path
    !(scanned.contains rel) && !(EngineGuard.is_own_metadata_file rel)

/-- the mass-deletion guard (src/sync/mod.rs:599-643), the nesting of the source kept: `if !deletions.is_empty() &&
    !self.force_delete { let dest_file_count = …; if dest_file_count > 0 { let delete_percentage = …; if delete_percentage
    > self.delete_threshold as f64 { return Err(..) } } }` with the three TRANSLATED fragments in their places.  (The
    interactive confirmation above 1000 deletions is skipped: `json = true`.) -/
def guardGlue (cfg : Cfg) (dels : List PlannerFx.SyncTask) (pw : PlanWorld) : Bool :=
  if !dels.isEmpty && !cfg.force then
    match SyModel.Lemmas.GenPlannerFx.runM (EngineGuard.dest_file_count guardExt pw.root) pw with
    | (.ok cnt, _) =>
      if cnt > 0 then
        Guards.threshold_exceeded (SyModel.Props.GenGuards.viewOf cfg) (Guards.delete_percentage (dels.map fun _ => ⟨⟩) cnt)
      else false
    | (.error _, _) => false
  else false

/-- `SyncStats::default()` -/
def stats0 : EngineTask.SyncStats :=
  { files_scanned := 0, files_created := 0, files_updated := 0, files_skipped := 0, files_deleted := 0,
    bytes_transferred := 0, files_delta_synced := 0, delta_bytes_saved := 0, files_compressed := 0,
    compression_bytes_saved := 0, files_verified := 0, verification_failures := 0, duration := 0,
    bytes_would_add := 0, bytes_would_change := 0, bytes_would_delete := 0, errors := [] }

/-- the inputs of a run that are not in the model's configuration -/
structure RunIn where
  /-- `source_files`: the scan AFTER the filter closure (src/sync/mod.rs:393-440) -/
  files : List EnginePlan.FileEntry
  /-- `scanned_paths`: the relative paths of ALL scanned entries (src/sync/mod.rs:383-387) -/
  scanned : List Rs.Path
  view : PlanView
  /-- `self.verification_mode` -/
  mode : EngineTask.ChecksumType

/-- what a run answers -/
structure SeqOut where
  /-- `sync` returned the guard's `Err` (src/sync/mod.rs:637-641) -/
  refused : Bool
  /-- the task list handed to the execution loop -/
  tasks : List EngineTask.SyncTask
  /-- the final `SyncStats` -/
  stats : EngineTask.SyncStats
  /-- the `Result` of every task body, in task order -/
  results : List (Except Rs.Err Unit)
  /-- the world afterwards: destination tree, link map, the JSON event stream -/
  world : EWorld
  /-- the process exit status -/
  exit : Nat

/-- **THE GLUE (TRUSTED): `SyncEngine::sync` + the exit decision of `main`, sequentially, from the translated pieces.**
    `none` = `sync` returned `Err` through a `?` before the guard (never on these instances).
    (a) planning: the TRANSLATED round `EnginePlan.plan_round` on the instance `ext2` (whose planner operations are the
        translated functions of unit PlannerFx), folded over `source_files` in order with `tasks` / `replaced_links`
        threaded, from `[]` / `[]`, `checksum_db = None` (mod.rs:523-582; the fold is `GenEnginePlan.planLoop`);
    (b) with `--delete`: the TRANSLATED `plan_deletions`, the `retain`, the guard with the TRANSLATED fragments; a refusal
        ends the run with exit status 1 (`sync` returns `Err`, `main` propagates it); else `tasks.extend(deletions)`
        (mod.rs:588-681 without the working-file partition);
    (c) execution: the TRANSLATED `EngineTask.run_task` on `engineExt cfg` (whose executors are the translated functions
        of unit Transfer), folded over the tasks in order with the statistics threaded (`execLoop`), `json = true`,
        no rate limiter, no performance monitor;
    (d) the TRANSLATED `MainExit.sync_failed` (src/main.rs:776) on the final statistics: exit status 1 if it fires, else 0. -/
def seqEngine (cfg : Cfg) (I : RunIn) (ew : EWorld) : Option SeqOut :=
  let pw := planWorldOf ew I.view
  match SyModel.Lemmas.GenPlannerFx.runM
      (planLoop (ext2 (plannerOf cfg)) (engOf cfg) pw.root {} none I.files [] []) pw with
  | (.error _, _) => none
  | (.ok (ts, _), pw1) =>
    let dels : List PlannerFx.SyncTask :=
      if cfg.delete then
        match SyModel.Lemmas.GenPlannerFx.runM
            ((plannerOf cfg).plan_deletions SyModel.Lemmas.GenPlannerFx.extOf (I.files.map toPEntry) pw1.root) pw1 with
        | (.ok ds, _) => retainGlue I.scanned pw1.root ds
        | (.error _, _) => []
      else []
    let tasks := ts.map toXTask ++ dels.map (fun d => toXTask (ofPTask d))
    if cfg.delete && guardGlue cfg dels pw1 then
      some { refused := true, tasks := tasks, stats := stats0, results := [], world := ew, exit := 1 }
    else
      match SyModel.Lemmas.GenTransfer.runM
          (execLoop (engineExt cfg) {} {} cfg.dryRun true I.mode none none tasks stats0 []) ew with
      | (.error _, _) => none
      | (.ok (st, rs), ew') =>
        some { refused := false, tasks := tasks, stats := st, results := rs, world := ew',
               exit := if MainExit.sync_failed ⟨st.errors.map fun _ => ⟨⟩, st.verification_failures⟩ then 1 else 0 }

/-! ## the abstraction of what a run answers -/

/-- the model key of a task: its destination path relative to the root, as components -/
def keyOfTask (root : Rs.Path) (t : EngineTask.SyncTask) : Engine.Path :=
  (SyModel.Lemmas.GenTransfer.keyOf root t.dest_path).getD []

/-- `SeqOut ↦ Engine.Result`: destination map and byte counter of the world; counters, events, error records through
    `absBook` (Lemmas/GenEngineTask); tasks through `absTaskE`; `aborted` is computed from the error list as the model
    computes it (the `max_errors` abort itself is not in the glue) -/
def absOut (cfg : Cfg) (ew0 : EWorld) (o : SeqOut) : Result :=
  let b := absBook o.world.xw.root o.stats o.world.log
  { refused := o.refused,
    aborted := !o.refused && (decide (0 < cfg.maxErrors) && decide (cfg.maxErrors ≤ b.errors.length)),
    dst := o.world.xw.w.dst,
    tasks := o.tasks.map fun t => absTaskE cfg ew0.xw t (keyOfTask ew0.xw.root t),
    created := b.created, updated := b.updated, skipped := b.skipped, deleted := b.deleted,
    bytes := o.world.xw.w.bytes, events := b.events.reverse, errors := b.errors.reverse, exit := o.exit }

end SyModel.Lemmas.GenEngineRun
