/-
  Lemmas about `FilterRule::matches`, `FilterEngine::should_include` and the rule-list
  construction order.
-/
import SyModel.Lemmas.FilterGlob
set_option linter.unusedVariables false
namespace SyModel.Filter

/-! ### paths -/

theorem any_ancestorsSkip1 (p : RelPath) (f : RelPath → Bool) :
    (ancestorsSkip1 p).any f = true ↔ ∃ k, k < p.length ∧ f (p.take k) = true := by
  unfold ancestorsSkip1
  simp only [List.any_eq_true, List.mem_map, List.mem_reverse, List.mem_range]
  constructor
  · rintro ⟨q, ⟨k, hk, rfl⟩, hf⟩; exact ⟨k, hk, hf⟩
  · rintro ⟨k, hk, hf⟩; exact ⟨_, ⟨k, hk, rfl⟩, hf⟩

theorem matchesBase_nil (toks : List Token) : matchesBase toks [] = false := rfl

theorem pathStr_ne_nil_of_clean {p : RelPath} (hp : CleanPath p) (hne : p ≠ []) : pathStr p ≠ [] := by
  cases p with
  | nil => exact absurd rfl hne
  | cons a rest =>
    have ha : cleanName a = true := hp a List.mem_cons_self
    have ha' : a ≠ [] := by
      intro e; subst e; simp [cleanName] at ha
    cases rest with
    | nil => simpa [pathStr] using ha'
    | cons b rest =>
      simp only [pathStr]
      intro h
      cases a with
      | nil => exact ha' rfl
      | cons x xs => simp at h

theorem cleanPath_take {p : RelPath} (hp : CleanPath p) (k : Nat) : CleanPath (p.take k) :=
  fun n hn => hp n (List.mem_of_mem_take hn)

theorem take_eq_self_iff_len {α} (p : List α) (k : Nat) (hk : k ≤ p.length) :
    p.take k = p ↔ k = p.length := by
  constructor
  · intro h
    have := congrArg List.length h
    simp [List.length_take] at this; omega
  · intro h; subst h; simp

/-! ### `Rule.new` -/

theorem Rule.new_ok {incl : Bool} {pat : List Char} {r : Rule} (h : Rule.new incl pat = .ok r) :
    r.isInclude = incl ∧ r.patternStr = pat ∧
    r.dirOnly = (pat.getLast? == some '/') ∧
    r.glob = (if (pat.getLast? == some '/') then trimEndSlash pat else pat) ∧
    r.hasSlash = r.glob.contains '/' ∧
    parse r.glob = .ok r.toks := by
  unfold Rule.new at h
  simp only at h
  split at h
  · cases h
  · rename_i toks hp
    cases h
    exact ⟨rfl, rfl, rfl, rfl, rfl, hp⟩

theorem Rule.new_wf {incl : Bool} {pat : List Char} {r : Rule} (h : Rule.new incl pat = .ok r) :
    WF r.toks := parse_wf' (Rule.new_ok h).2.2.2.2.2

/-! ### the matching classes -/

theorem Rule.matches_basename (r : Rule) (p : RelPath) (d : Bool)
    (hs : r.hasSlash = false) (hd : r.dirOnly = false) :
    r.matches p d = matchesBase r.toks p := by
  simp [Rule.matches, hs, hd]

theorem Rule.matches_fullpath (r : Rule) (p : RelPath) (d : Bool)
    (hs : r.hasSlash = true) (hd : r.dirOnly = false) :
    r.matches p d = globMatch r.toks (pathStr p) := by
  simp [Rule.matches, hs, hd]

theorem Rule.matches_star_slash (r : Rule) (p : RelPath) (d : Bool)
    (hs : r.hasSlash = false) (hd : r.dirOnly = true) (hg : r.glob = ['*']) :
    r.matches p d = (d && matchesBase r.toks p) := by
  simp [Rule.matches, hs, hd, hg]

/-- directory-only rule other than the bare `*/`: the entry matches iff some directory on its
    path — the entry itself when it is a directory, or a proper ancestor — is matched by the
    pattern. -/
theorem Rule.matches_dironly (r : Rule) (p : RelPath) (d : Bool)
    (hd : r.dirOnly = true) (hg : r.glob ≠ ['*']) (hp : CleanPath p) (hne : p ≠ []) :
    r.matches p d = true ↔
      ∃ k, 0 < k ∧ k ≤ p.length ∧ (k = p.length → d = true) ∧ r.matchesDirPath (p.take k) = true := by
  have hlen : 0 < p.length := List.length_pos_iff.mpr hne
  have hgb : (r.glob == ['*']) = false := by simpa using hg
  cases hs : r.hasSlash
  · -- base-name variant
    simp only [Rule.matches, hd, hs, hgb, if_true, Bool.false_eq_true, if_false, Bool.or_eq_true,
      Bool.and_eq_true, any_ancestorsSkip1, Rule.matchesDirPath]
    constructor
    · rintro (⟨hdir, hm⟩ | ⟨k, hk, hm⟩)
      · exact ⟨p.length, hlen, Nat.le_refl _, fun _ => hdir, by simpa using hm⟩
      · refine ⟨k, ?_, Nat.le_of_lt hk, fun h => by omega, hm⟩
        cases k with
        | zero => simp [matchesBase_nil] at hm
        | succ k => omega
    · rintro ⟨k, hk0, hkl, hdir, hm⟩
      by_cases hk : k = p.length
      · left; subst hk; exact ⟨hdir rfl, by simpa using hm⟩
      · right; exact ⟨k, by omega, hm⟩
  · -- full-path variant
    simp only [Rule.matches, hd, hs, if_true, Bool.or_eq_true,
      Bool.and_eq_true, any_ancestorsSkip1, Rule.matchesDirPath]
    constructor
    · rintro (⟨hdir, hm⟩ | ⟨k, hk, hne', hm⟩)
      · exact ⟨p.length, hlen, Nat.le_refl _, fun _ => hdir, by simpa using hm⟩
      · refine ⟨k, ?_, Nat.le_of_lt hk, fun h => by omega, hm⟩
        cases k with
        | zero => simp [pathStr] at hne'
        | succ k => omega
    · rintro ⟨k, hk0, hkl, hdir, hm⟩
      by_cases hk : k = p.length
      · left; subst hk; exact ⟨hdir rfl, by simpa using hm⟩
      · right
        refine ⟨k, by omega, ?_, hm⟩
        have hcl := cleanPath_take hp k
        have : p.take k ≠ [] := by
          intro e
          have h0 : (p.take k).length = k := by rw [List.length_take]; omega
          rw [e] at h0; simp at h0; omega
        have := pathStr_ne_nil_of_clean hcl this
        simpa using this

/-! ### first match wins -/

theorem shouldIncludeLoop_eq (p : RelPath) (d : Bool) (rs : List Rule) :
    shouldIncludeLoop p d rs =
      match rs.find? (fun r => r.matches p d) with
      | some r => r.isInclude
      | none => true := by
  induction rs with
  | nil => rfl
  | cons r rest ih =>
    simp only [shouldIncludeLoop, List.find?]
    cases h : r.matches p d <;> simp [ih]

theorem shouldInclude_eq (rs : List Rule) (p : RelPath) (d : Bool) :
    shouldInclude rs p d =
      match rs.find? (fun r => r.matches p d) with
      | some r => r.isInclude
      | none => true := by
  unfold shouldInclude
  cases rs with
  | nil => rfl
  | cons r rest => simp [shouldIncludeLoop_eq]

/-! ### construction order -/

theorem flatMap_single {α β} (f : α → β) (l : List α) : l.flatMap (fun p => [f p]) = l.map f := by
  induction l with
  | nil => rfl
  | cons a l ih => simp [List.flatMap_cons, ih]


theorem addPattern_ok {rs rs' : List Rule} {incl : Bool} {pat : List Char}
    (h : addPattern rs incl pat = .ok rs') :
    ∃ r, rs' = rs ++ [r] ∧ Rule.new incl pat = .ok r ∧ r.key = (incl, pat) := by
  unfold addPattern at h
  split at h
  · rename_i r hr
    cases h
    have := Rule.new_ok hr
    exact ⟨r, rfl, hr, by simp [Rule.key, this.1, this.2.1]⟩
  · cases h

/-- every rule in the list was compiled from its own key -/
def Compiled (rs : List Rule) : Prop := ∀ r ∈ rs, Rule.new r.isInclude r.patternStr = .ok r

theorem compiled_append_new {rs : List Rule} {r : Rule} {incl : Bool} {pat : List Char}
    (hc : Compiled rs) (hr : Rule.new incl pat = .ok r) : Compiled (rs ++ [r]) := by
  intro x hx
  rcases List.mem_append.mp hx with hx | hx
  · exact hc x hx
  · have : x = r := by simpa using hx
    subst this
    have := Rule.new_ok hr
    rw [this.1, this.2.1]; exact hr

theorem addRule_keys {rs rs' : List Rule} {line : List Char} (h : addRule rs line = .ok rs') :
    rs'.map Rule.key = rs.map Rule.key ++ specKey line ∧ (Compiled rs → Compiled rs') := by
  unfold addRule at h
  unfold specKey
  split at h
  · cases h
  · rename_i hs
    cases h
    simp [hs]
  · rename_i incl pat hs
    obtain ⟨r, rfl, hr, hk⟩ := addPattern_ok h
    simp only [hs, List.map_append, List.map_cons, List.map_nil, hk]
    exact ⟨by first | rfl | trivial, fun hc => compiled_append_new hc hr⟩

theorem addPatternLine_keys {incl : Bool} {rs rs' : List Rule} {line : List Char}
    (h : addPatternLine incl rs line = .ok rs') :
    rs'.map Rule.key = rs.map Rule.key ++ patLineKey incl line ∧ (Compiled rs → Compiled rs') := by
  unfold addPatternLine at h
  unfold patLineKey
  simp only at h ⊢
  split at h
  · rename_i hc
    cases h
    simp [hc]
  · rename_i hc
    obtain ⟨r, rfl, hr, hk⟩ := addPattern_ok h
    simp only [hc, Bool.false_eq_true, if_false, List.map_append, List.map_cons, List.map_nil, hk]
    exact ⟨by first | rfl | trivial, fun hc' => compiled_append_new hc' hr⟩

theorem addAll_keys (f : List Rule → List Char → Except RuleErr (List Rule))
    (g : List Char → List (Bool × List Char))
    (hf : ∀ rs rs' x, f rs x = .ok rs' →
      rs'.map Rule.key = rs.map Rule.key ++ g x ∧ (Compiled rs → Compiled rs')) :
    ∀ (xs : List (List Char)) (rs rs' : List Rule), addAll f rs xs = .ok rs' →
      rs'.map Rule.key = rs.map Rule.key ++ xs.flatMap g ∧ (Compiled rs → Compiled rs') := by
  intro xs
  induction xs with
  | nil => intro rs rs' h; simp only [addAll] at h; cases h; simp
  | cons x xs ih =>
    intro rs rs' h
    simp only [addAll] at h
    split at h
    · cases h
    · rename_i r1 h1
      obtain ⟨k1, c1⟩ := hf _ _ _ h1
      obtain ⟨k2, c2⟩ := ih _ _ h
      refine ⟨?_, fun hc => c2 (c1 hc)⟩
      rw [k2, k1]; simp

theorem addRule_ok_iff (rs : List Rule) (line : List Char) :
    (∃ rs', addRule rs line = .ok rs') ↔ lineOk line = true := by
  unfold lineOk addRule
  cases hs : ruleSpec line with
  | error e => simp
  | ok o =>
    cases o with
    | none => simp
    | some k =>
      obtain ⟨incl, pat⟩ := k
      simp only [addPattern]
      cases hr : Rule.new incl pat <;> simp

theorem addAllLenient_keys :
    ∀ (xs : List (List Char)) (rs : List Rule),
      (addAllLenient addRule rs xs).map Rule.key
        = rs.map Rule.key ++ (xs.takeWhile lineOk).flatMap specKey ∧
      (Compiled rs → Compiled (addAllLenient addRule rs xs)) := by
  intro xs
  induction xs with
  | nil => intro rs; simp [addAllLenient]
  | cons x xs ih =>
    intro rs
    simp only [addAllLenient]
    cases h : addRule rs x with
    | error e =>
      have : lineOk x = false := by
        cases hl : lineOk x
        · rfl
        · obtain ⟨rs', h'⟩ := (addRule_ok_iff rs x).mpr hl
          rw [h] at h'; cases h'
      simp [List.takeWhile, this]
    | ok rs' =>
      have hl : lineOk x = true := (addRule_ok_iff rs x).mp ⟨rs', h⟩
      obtain ⟨k1, c1⟩ := addRule_keys h
      obtain ⟨k2, c2⟩ := ih rs'
      simp only [List.takeWhile, hl, List.flatMap_cons]
      refine ⟨?_, fun hc => c2 (c1 hc)⟩
      rw [k2, k1]; simp

theorem foldl_lenient_keys :
    ∀ (ts : List (List (List Char))) (rs : List Rule),
      (ts.foldl (fun rs ls => addAllLenient addRule rs ls) rs).map Rule.key
        = rs.map Rule.key ++ ts.flatMap (fun ls => (ls.takeWhile lineOk).flatMap specKey) ∧
      (Compiled rs → Compiled (ts.foldl (fun rs ls => addAllLenient addRule rs ls) rs)) := by
  intro ts
  induction ts with
  | nil => intro rs; simp
  | cons t ts ih =>
    intro rs
    simp only [List.foldl_cons, List.flatMap_cons]
    obtain ⟨k1, c1⟩ := addAllLenient_keys t rs
    obtain ⟨k2, c2⟩ := ih (addAllLenient addRule rs t)
    refine ⟨?_, fun hc => c2 (c1 hc)⟩
    rw [k2, k1]; simp

end SyModel.Filter
