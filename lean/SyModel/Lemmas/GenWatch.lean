/-
  Lemmas/GenWatch — vocabulary and helper lemmas of `SyModel.Props.GenWatch`: the bridge between the TRANSLATED
  `WatchMode::watch` / `WatchMode::should_sync_event` (Generated/Code/Watch.lean, regenerated from
  src/sync/watch.rs on every run) and the handwritten model `SyModel.Watch` (Watch/Loop.lean, what C20 is about).

  Contents
    1. running a computation of the effect monad `Rs.M W = ExceptT Rs.Err (StateM W)` (`runM` and its equations);
       the endless `loop` as `loopN` (n-fold iteration of a body with `break`), `forIn_range_eq_loopN`;
    2. the loop body of the generated `watch` written out (`selectPart`, `recvPart`, `syncPart`) — tied to the
       generated definition by `rfl` in Props/GenWatch (`watch_eq`) — and its equations for ANY instance, one per
       outcome of `tokio_select` / `recv_timeout` / `engine_sync`;
    3. the abstraction of event kinds (`absKind`, `absItem`) and of environment inputs (`EnvIn`, `absIn`);
    4. the WORLD (`WWorld`) and the INSTANCE `inst : Ext WWorld` (trusted base: every field is documented);
    5. the abstraction of (loop locals, world) to the model's `State` (`absAt`) and its commutation with the
       environment's moves (`absAt_wapply`, `absAt_wrun`);
    6. the model-side schedule of n iterations (`sched`).
-/
import SyModel.Generated.Code.Watch
import SyModel.Lemmas.WatchConverge
import SyModel.Lemmas.WatchCounter
namespace SyModel.Props.GenWatch
open SyModel SyModel.Watch SyModel.Generated SyModel.Generated.Watch

/-! ## 1. running `Rs.M W` -/
section Monad
variable {W α β σ : Type}

/-- run a translated computation from world `w`: its `Result` and the world it leaves (an `Err` keeps the world
    reached so far: the state is inside the exception layer) -/
def runM (x : Rs.M W α) (w : W) : Except Rs.Err α × W := x.run.run w

/-- a world operation given as a function (how the instance defines the externs) -/
def op (f : W → Except Rs.Err α × W) : Rs.M W α := ExceptT.mk (fun w => (f w : Id _))

@[simp] theorem runM_op (f : W → Except Rs.Err α × W) (w : W) : runM (op f) w = f w := rfl
@[simp] theorem runM_pure (a : α) (w : W) : runM (pure a : Rs.M W α) w = (.ok a, w) := rfl
@[simp] theorem runM_throw (e : Rs.Err) (w : W) : runM (throw e : Rs.M W α) w = (.error e, w) := rfl
@[simp] theorem runM_capture (x : Rs.M W α) (w : W) :
    runM (Rs.capture x) w = (.ok (runM x w).1, (runM x w).2) := rfl

/-- `>>=` continues from the world the first computation left; an `Err` stops, KEEPING that world -/
theorem runM_bind (x : Rs.M W α) (f : α → Rs.M W β) (w : W) :
    runM (x >>= f) w = match runM x w with
      | (.ok a, w') => runM (f a) w'
      | (.error e, w') => (.error e, w') := by
  unfold runM
  simp only [ExceptT.run_bind, StateT.run_bind]
  generalize StateT.run (ExceptT.run x) w = r
  obtain ⟨a, w'⟩ := r
  cases a <;> rfl

theorem runM_bind_ok {x : Rs.M W α} {f : α → Rs.M W β} {w w' : W} {a : α}
    (h : runM x w = (.ok a, w')) : runM (x >>= f) w = runM (f a) w' := by
  rw [runM_bind, h]

theorem runM_bind_error {x : Rs.M W α} {f : α → Rs.M W β} {w w' : W} {e : Rs.Err}
    (h : runM x w = (.error e, w')) : runM (x >>= f) w = (.error e, w') := by
  rw [runM_bind, h]

/-- `n` iterations of a loop body that may `break` (`ForInStep.done`): the meaning of the translated endless
    `loop { … }` with fuel `n` -/
def loopN : Nat → (σ → Rs.M W (ForInStep σ)) → σ → Rs.M W σ
  | 0, _, s => pure s
  | n + 1, b, s => do
    match (← b s) with
    | .done s' => pure s'
    | .yield s' => loopN n b s'

theorem forIn_range'_eq_loopN (b : σ → Rs.M W (ForInStep σ)) (n : Nat) : ∀ (a : Nat) (s : σ),
    forIn (List.range' a n 1) s (fun _ r => b r) = loopN n b s := by
  induction n with
  | zero => intro a s; rfl
  | succ n ih =>
    intro a s
    rw [List.range'_succ, List.forIn_cons]
    simp only [loopN]
    congr 1
    funext r
    cases r with
    | done s' => rfl
    | yield s' => exact ih _ _

/-- `for _ in [0:n] do body` is `loopN n body` -/
theorem forIn_range_eq_loopN (b : σ → Rs.M W (ForInStep σ)) (n : Nat) (s : σ) :
    forIn [0:n] s (fun _ r => b r) = loopN n b s := by
  rw [Std.Legacy.Range.forIn_eq_forIn_range']
  have : ([0:n] : Std.Legacy.Range).size = n := by simp [Std.Legacy.Range.size]
  rw [this]
  exact forIn_range'_eq_loopN b n 0 s

theorem runM_loopN_zero (b : σ → Rs.M W (ForInStep σ)) (s : σ) (w : W) :
    runM (loopN 0 b s) w = (.ok s, w) := rfl

theorem runM_loopN_done {b : σ → Rs.M W (ForInStep σ)} {s s' : σ} {w w' : W} (n : Nat)
    (h : runM (b s) w = (.ok (.done s'), w')) : runM (loopN (n + 1) b s) w = (.ok s', w') := by
  simp only [loopN]; rw [runM_bind_ok h]; rfl

theorem runM_loopN_yield {b : σ → Rs.M W (ForInStep σ)} {s s' : σ} {w w' : W} (n : Nat)
    (h : runM (b s) w = (.ok (.yield s'), w')) : runM (loopN (n + 1) b s) w = runM (loopN n b s') w' := by
  simp only [loopN]; rw [runM_bind_ok h]

theorem runM_loopN_error {b : σ → Rs.M W (ForInStep σ)} {s : σ} {w w' : W} {e : Rs.Err} (n : Nat)
    (h : runM (b s) w = (.error e, w')) : runM (loopN (n + 1) b s) w = (.error e, w') := by
  simp only [loopN]; rw [runM_bind_error h]

end Monad

/-! ## 2. the loop body of the generated `watch`, for ANY instance -/
section Body
variable {W : Type}

/-- the loop state: `(pending_changes, last_sync)` -/
abbrev Locals := List Event × Nat

/-- watch.rs:159-179: the sync of the Timeout arm; whatever it returns, `pending_changes.clear()` and
    `last_sync = Instant::now()` -/
def syncPart (ext : Ext W) (self : WatchMode) (loc : Locals) : Rs.M W (ForInStep Locals) := do
  match (← Rs.capture (ext.engine_sync self.engine self.source self.destination)) with
  | .ok _ => pure ()
  | .error _ => pure ()
  let t ← ext.Instant_now ()
  pure (ForInStep.yield (Rs.clear loc.1, t))

/-- watch.rs:123-187: `match rx.recv_timeout(100 ms) { … }` -/
def recvPart (ext : Ext W) (self : WatchMode) (rx : Rs.Opaque) (loc : Locals) : Rs.M W (ForInStep Locals) := do
  match (← ext.recv_timeout rx (Rs.duration_from_millis 100)) with
  | .ok (.ok event) =>
    if WatchMode.should_sync_event self event then pure (ForInStep.yield (loc.1 ++ [event], loc.2))
    else pure (ForInStep.yield (loc.1, loc.2))
  | .ok (.error _) => pure (ForInStep.yield (loc.1, loc.2))
  | .error RecvTimeoutError.Timeout =>
    if (← (do if (!(Rs.is_empty loc.1)) then (do pure (decide ((← ext.instant_elapsed loc.2) >= self.debounce)))
              else pure false)) then
      syncPart ext self loc
    else pure (ForInStep.yield (loc.1, loc.2))
  | .error RecvTimeoutError.Disconnected => pure (ForInStep.done (loc.1, loc.2))

/-- watch.rs:108-188: one iteration of `loop { select!{…}; match rx.recv_timeout(..) {…} }` -/
def body (ext : Ext W) (self : WatchMode) (rx : Rs.Opaque) (loc : Locals) : Rs.M W (ForInStep Locals) := do
  match (← ext.tokio_select 2) with
  | 0 => pure (ForInStep.done (loc.1, loc.2))
  | _ => recvPart ext self rx loc

variable (ext : Ext W) (self : WatchMode) (rx : Rs.Opaque) (loc : Locals) {w w1 w2 w3 : W}

/-- the `ctrl_c` arm of the `select!` completes: `break`, nothing else is called -/
theorem body_sigint (h : runM (ext.tokio_select 2) w = (.ok 0, w1)) :
    runM (body ext self rx loc) w = (.ok (.done loc), w1) := by
  unfold body; rw [runM_bind_ok h]; rfl

/-- the `sleep` arm completes: go on to `recv_timeout` -/
theorem body_sleep {k : Nat} (h : runM (ext.tokio_select 2) w = (.ok (k + 1), w1)) :
    runM (body ext self rx loc) w = runM (recvPart ext self rx loc) w1 := by
  unfold body; rw [runM_bind_ok h]; rfl

/-- `Ok(Ok(event))`: pushed iff `should_sync_event` -/
theorem recvPart_event {ev : Event}
    (h : runM (ext.recv_timeout rx (Rs.duration_from_millis 100)) w = (.ok (.ok (.ok ev)), w1)) :
    runM (recvPart ext self rx loc) w =
      (.ok (.yield (if WatchMode.should_sync_event self ev then loc.1 ++ [ev] else loc.1, loc.2)), w1) := by
  unfold recvPart; rw [runM_bind_ok h]
  dsimp only
  split <;> rfl

/-- `Ok(Err(e))`: logged, the loop goes on, nothing changes -/
theorem recvPart_watch_error {e : Rs.Err}
    (h : runM (ext.recv_timeout rx (Rs.duration_from_millis 100)) w = (.ok (.ok (.error e)), w1)) :
    runM (recvPart ext self rx loc) w = (.ok (.yield loc), w1) := by
  unfold recvPart; rw [runM_bind_ok h]; rfl

/-- `Err(Disconnected)`: `break` -/
theorem recvPart_disconnected
    (h : runM (ext.recv_timeout rx (Rs.duration_from_millis 100)) w = (.ok (.error .Disconnected), w1)) :
    runM (recvPart ext self rx loc) w = (.ok (.done loc), w1) := by
  unfold recvPart; rw [runM_bind_ok h]; rfl

/-- `Err(Timeout)` with nothing pending: `last_sync.elapsed()` is NOT evaluated (short-circuit `&&`), no sync -/
theorem recvPart_timeout_empty (hp : loc.1 = [])
    (h : runM (ext.recv_timeout rx (Rs.duration_from_millis 100)) w = (.ok (.error .Timeout), w1)) :
    runM (recvPart ext self rx loc) w = (.ok (.yield loc), w1) := by
  unfold recvPart; rw [runM_bind_ok h]
  obtain ⟨p, t⟩ := loc
  simp only at hp
  subst hp
  rfl

/-- `Err(Timeout)`, pending, debounce not reached: no sync -/
theorem recvPart_timeout_early {d : Rs.Duration} (hp : loc.1 ≠ [])
    (h : runM (ext.recv_timeout rx (Rs.duration_from_millis 100)) w = (.ok (.error .Timeout), w1))
    (he : runM (ext.instant_elapsed loc.2) w1 = (.ok d, w2)) (hd : d < self.debounce) :
    runM (recvPart ext self rx loc) w = (.ok (.yield loc), w2) := by
  unfold recvPart; rw [runM_bind_ok h]
  have hne : (!(Rs.is_empty loc.1)) = true := by
    cases hl : loc.1 with
    | nil => exact absurd hl hp
    | cons a t => rfl
  simp only [hne, if_true]
  rw [runM_bind, runM_bind_ok he]
  have : decide (d ≥ self.debounce) = false := by simp; omega
  simp only [runM_pure, this]
  rfl

/-- `Err(Timeout)`, pending, debounce reached: the sync part runs -/
theorem recvPart_timeout_due {d : Rs.Duration} (hp : loc.1 ≠ [])
    (h : runM (ext.recv_timeout rx (Rs.duration_from_millis 100)) w = (.ok (.error .Timeout), w1))
    (he : runM (ext.instant_elapsed loc.2) w1 = (.ok d, w2)) (hd : self.debounce ≤ d) :
    runM (recvPart ext self rx loc) w = runM (syncPart ext self loc) w2 := by
  unfold recvPart; rw [runM_bind_ok h]
  have hne : (!(Rs.is_empty loc.1)) = true := by
    cases hl : loc.1 with
    | nil => exact absurd hl hp
    | cons a t => rfl
  simp only [hne, if_true]
  rw [runM_bind, runM_bind_ok he]
  have : decide (d ≥ self.debounce) = true := by simp; omega
  simp only [runM_pure, this]
  rfl

/-- the sync of the loop, whether it returns `Ok` or `Err`: the loop goes on with `pending_changes` EMPTY and
    `last_sync` = the clock read AFTER the sync returned -/
theorem syncPart_any {r : Except Rs.Err Rs.Opaque} {t : Nat}
    (hs : runM (ext.engine_sync self.engine self.source self.destination) w = (r, w1))
    (hn : runM (ext.Instant_now ()) w1 = (.ok t, w2)) :
    runM (syncPart ext self loc) w = (.ok (.yield ([], t)), w2) := by
  unfold syncPart
  rw [runM_bind, runM_capture, hs]
  dsimp only
  cases r <;> (dsimp only; rw [runM_bind]; simp only [runM_pure]; rw [hn]; rfl)

end Body

/-! ## 3. abstraction of event kinds and of the environment's inputs -/

/-- `notify::EventKind` of the translation ↦ the model's `Kind` (the payloads are forgotten) -/
def absKind : EventKind → Kind
  | .Any => .any
  | .Access _ => .access
  | .Create _ => .create
  | .Modify _ => .modify
  | .Remove _ => .remove
  | .Other => .other

/-- an item of the mpsc channel (`Result<Event, notify::Error>`) ↦ the model's `Kind` (`error` for `Err`) -/
def absItem : Except Rs.Err Event → Kind
  | .ok ev => absKind ev.kind
  | .error _ => .error

/-- a concrete event of every kind, and a watcher error (used by the non-vacuity examples) -/
def repItem : Kind → Except Rs.Err Event
  | .any => .ok ⟨.Any⟩
  | .access => .ok ⟨.Access ⟨⟩⟩
  | .create => .ok ⟨.Create ⟨⟩⟩
  | .modify => .ok ⟨.Modify ⟨⟩⟩
  | .remove => .ok ⟨.Remove ⟨⟩⟩
  | .other => .ok ⟨.Other⟩
  | .error => .error .io

theorem absItem_repItem (k : Kind) : absItem (repItem k) = k := by cases k <;> rfl

/-- what the environment does between (and during) the operations of the loop thread: a source change and/or the
    delivery of an item by the `notify` thread, the passage of time, a SIGINT -/
inductive EnvIn
  | event (it : Except Rs.Err Event) (edit : Option Ver)
  | tick (δ : Nat)
  | sigint
  deriving Repr

def absIn : EnvIn → Input
  | .event it e => .event (absItem it) e
  | .tick δ => .tick δ
  | .sigint => .sigint

/-! ## 4. the world and the instance (TRUSTED: this is where the meaning of the operations lives) -/

/-- one entry of the sync log -/
structure SyncRec where
  /-- the clock when `engine.sync` was called -/
  start : Nat
  /-- was the watcher armed at that moment -/
  armed : Bool
  /-- number of items waiting in the channel at that moment -/
  queued : Nat
  /-- did it return `Ok` -/
  ok : Bool
  deriving DecidableEq, Repr

/-- The world the translated `watch` runs in: the pieces of the model's `State` that are NOT local variables of
    `watch` (those — `pending_changes`, `last_sync` — live in the translated code), a log, and two scripts that say
    what the environment does. -/
structure WWorld where
  /-- contents of the mpsc channel, oldest first (`Ok(event)` / `Err(e)` items sent by the notify thread) -/
  queue : List (Except Rs.Err Event)
  /-- `watcher.watch(..)` has been called: the notify thread delivers into the channel -/
  armed : Bool
  /-- the (monotonic) clock, in the unit of `Rs.Duration` (nanoseconds) -/
  now : Nat
  /-- current version of the source -/
  src : Ver
  /-- current version of the destination -/
  dst : Ver
  /-- the source version the most recently started sync works from -/
  snap : Ver
  /-- `signal::ctrl_c()` has been created (tokio's SIGINT handler is installed with its first poll) -/
  handler : Bool
  /-- a SIGINT was caught and not yet observed by the `select!` -/
  sig : Bool
  /-- every sender of the channel is gone.  Never set by an operation: the `watcher` local owns the sender until
      `watch` returns, so `Disconnected` is unreachable in the real program; kept so that the fourth outcome of
      `recv_timeout` can be exercised -/
  disc : Bool
  /-- number of syncs started so far (ghost, the model's `syncs`) -/
  syncs : Nat
  /-- the most recently started sync has not failed (ghost, the model's `ok`) -/
  ok : Bool
  /-- the sync log, oldest first -/
  log : List SyncRec
  /-- script: what the environment does before / while each `select!` sleeps (one chunk per call of `tokio_select`;
      an exhausted script means "nothing") -/
  pre : List (List EnvIn)
  /-- script: what the environment does while each `engine.sync` runs, and whether that sync succeeds (one entry per
      call of `engine_sync`; an exhausted script means "nothing happens, `Ok`") -/
  during : List (List EnvIn × Bool)
  deriving Repr

/-- one move of the environment.  `sigint` sets the flag the `select!` looks at: meaningful once tokio's handler is
    installed (`handler = true`; before that the default disposition kills the process, which no run of a function
    can express — the theorems ask for `handler = true` or for scripts without `sigint`). -/
def wapply (w : WWorld) : EnvIn → WWorld
  | .event it e =>
    let w1 : WWorld := match e with
      | some v => { w with src := v }
      | none => w
    if w1.armed then { w1 with queue := w1.queue ++ [it] } else w1
  | .tick δ => { w with now := w.now + δ }
  | .sigint => { w with sig := true }

def wrun (w : WWorld) (es : List EnvIn) : WWorld := es.foldl wapply w

/-- `tokio::select!{ ctrl_c, sleep(10 ms) }`: the environment's next chunk happens; then arm 0 completes iff a SIGINT
    is pending, else arm 1 after the clock advanced by `selectSleep` (anything slower is a `tick` of the next chunk) -/
def selW (c : Cfg) (w : WWorld) : Except Rs.Err Nat × WWorld :=
  let w1 := wrun { w with pre := w.pre.tail } (w.pre.headD [])
  if w1.sig then (.ok 0, w1) else (.ok 1, { w1 with now := w1.now + c.selectSleep })

/-- `rx.recv_timeout(d)`: pops the oldest item if there is one (without waiting); otherwise `Disconnected` if every
    sender is gone, else `Timeout` after the clock advanced by `d` -/
def recvW (d : Rs.Duration) (w : WWorld) : Except Rs.Err (Except RecvTimeoutError (Except Rs.Err Event)) × WWorld :=
  match w.queue with
  | it :: q => (.ok (.ok it), { w with queue := q })
  | [] => if w.disc then (.ok (.error .Disconnected), w) else (.ok (.error .Timeout), { w with now := w.now + d })

/-- the world when an `engine.sync` has just started: snapshot taken, counted, logged, its script entry consumed -/
def syncStarted (w : WWorld) : WWorld :=
  { w with snap := w.src, syncs := w.syncs + 1, ok := true, during := w.during.tail,
           log := w.log ++ [⟨w.now, w.armed, w.queue.length, (w.during.headD ([], true)).2⟩] }

/-- `engine.sync(src, dst)`: takes its snapshot of the source when it starts and is logged; the next entry of the
    `during` script happens while it runs (events are QUEUED if the watcher is armed, the clock may advance, the
    source may change under it); it then either succeeds — the destination becomes `syncTo c snap dst`, the model's
    abstract sync (C01's function seen through the comparison rule) — or fails with `Err` leaving the destination -/
def syncW (c : Cfg) (w : WWorld) : Except Rs.Err Rs.Opaque × WWorld :=
  let d := w.during.headD ([], true)
  let w1 := wrun (syncStarted w) d.1
  if d.2 then (.ok ⟨⟩, { w1 with dst := syncTo c w1.snap w1.dst }) else (.error .io, { w1 with ok := false })

/-- THE INSTANCE.
    * `channel`, `notify_recommended_watcher`: return handles; the channel itself is the world's `queue` (there is
      one channel).  `recommended_watcher` never fails here (inotify initialisation errors are outside C20).
    * `watcher_watch`: arms the watcher (from now on `event` inputs are queued); never fails here.
    * `engine_sync`: `syncW`.  * `signal_ctrl_c`: installs the handler.
    * `Instant_now`: reads the clock.  * `instant_elapsed t`: `now - t`.
    * `tokio_select`: `selW` (the argument, the number of arms, is not looked at).
    * `recv_timeout rx d`: `recvW d` — the duration is the one the CODE passes. -/
def inst (c : Cfg) (fuel : Nat) : Ext WWorld where
  fuel := fuel
  channel := fun _ => pure (⟨⟩, ⟨⟩)
  notify_recommended_watcher := fun _ => pure ⟨⟩
  signal_ctrl_c := fun _ => op fun w => (.ok ⟨⟩, { w with handler := true })
  Instant_now := fun _ => op fun w => (.ok w.now, w)
  tokio_select := fun _ => op (selW c)
  watcher_watch := fun _ _ _ => op fun w => (.ok (), { w with armed := true })
  engine_sync := fun _ _ _ => op (syncW c)
  recv_timeout := fun _ d => op (recvW d)
  instant_elapsed := fun t => op fun w => (.ok (w.now - t), w)

/-! ## 5. abstraction of (locals, world) to the model's state -/

/-- the model state seen from program point `ph` with loop locals `loc` in world `w` -/
def absAt (ph : Phase) (loc : Locals) (w : WWorld) : State :=
  { phase := ph, pending := loc.1.map (fun e => absKind e.kind), lastSync := loc.2,
    queue := w.queue.map absItem, now := w.now, src := w.src, dst := w.dst, snap := w.snap,
    armed := w.armed, handler := w.handler, sig := w.sig, exit := none, syncs := w.syncs, ok := w.ok }

/-- the state after the `ctrl_c` arm: `break`, `watch` returns `Ok(())`, the watcher is dropped -/
def exited (s : State) : State := { s with phase := .done, armed := false, exit := some .sigint }

/-- the abstraction of what one iteration returns -/
def absR (r : ForInStep Locals) (w : WWorld) : State :=
  match r with
  | .yield l => absAt .loop l w
  | .done l => exited (absAt .loop l w)

theorem absAt_wapply (c : Cfg) (ph : Phase) (loc : Locals) (w : WWorld) (e : EnvIn) (hph : ph ≠ .done)
    (hh : e = .sigint → w.handler = true) :
    absAt ph loc (wapply w e) = apply c (absAt ph loc w) (absIn e) := by
  cases e with
  | event it ed =>
    cases ed <;> simp only [wapply, absIn, apply, deliver, absAt] <;> split <;> simp_all
  | tick δ => rfl
  | sigint =>
    have := hh rfl
    simp [wapply, absIn, apply, signal, absAt, hph, this]

@[simp] theorem wapply_handler (w : WWorld) (e : EnvIn) : (wapply w e).handler = w.handler := by
  cases e with
  | event it ed => cases ed <;> simp only [wapply] <;> split <;> rfl
  | tick δ => rfl
  | sigint => rfl
@[simp] theorem wapply_disc (w : WWorld) (e : EnvIn) : (wapply w e).disc = w.disc := by
  cases e with
  | event it ed => cases ed <;> simp only [wapply] <;> split <;> rfl
  | tick δ => rfl
  | sigint => rfl
@[simp] theorem wapply_pre (w : WWorld) (e : EnvIn) : (wapply w e).pre = w.pre := by
  cases e with
  | event it ed => cases ed <;> simp only [wapply] <;> split <;> rfl
  | tick δ => rfl
  | sigint => rfl
@[simp] theorem wapply_during (w : WWorld) (e : EnvIn) : (wapply w e).during = w.during := by
  cases e with
  | event it ed => cases ed <;> simp only [wapply] <;> split <;> rfl
  | tick δ => rfl
  | sigint => rfl
@[simp] theorem wapply_log (w : WWorld) (e : EnvIn) : (wapply w e).log = w.log := by
  cases e with
  | event it ed => cases ed <;> simp only [wapply] <;> split <;> rfl
  | tick δ => rfl
  | sigint => rfl
@[simp] theorem wapply_armed (w : WWorld) (e : EnvIn) : (wapply w e).armed = w.armed := by
  cases e with
  | event it ed => cases ed <;> simp only [wapply] <;> split <;> rfl
  | tick δ => rfl
  | sigint => rfl

theorem wrun_fields (es : List EnvIn) : ∀ w : WWorld, (wrun w es).handler = w.handler ∧ (wrun w es).disc = w.disc ∧
    (wrun w es).pre = w.pre ∧ (wrun w es).during = w.during ∧ (wrun w es).log = w.log ∧
    (wrun w es).armed = w.armed := by
  induction es with
  | nil => intro w; exact ⟨rfl, rfl, rfl, rfl, rfl, rfl⟩
  | cons e t ih =>
    intro w
    have := ih (wapply w e)
    simp only [wapply_handler, wapply_disc, wapply_pre, wapply_during, wapply_log, wapply_armed] at this
    exact this

/-- the environment's moves commute with the abstraction: a chunk of the script is the same chunk of model inputs -/
theorem absAt_wrun (c : Cfg) (ph : Phase) (loc : Locals) (hph : ph ≠ .done) (es : List EnvIn) :
    ∀ w : WWorld, (w.handler = true ∨ ∀ e ∈ es, e ≠ .sigint) →
      absAt ph loc (wrun w es) = run c (absAt ph loc w) (es.map absIn) := by
  induction es with
  | nil => intro w _; rfl
  | cons e t ih =>
    intro w hh
    show absAt ph loc (wrun (wapply w e) t) = run c (apply c (absAt ph loc w) (absIn e)) (t.map absIn)
    rw [ih (wapply w e) (by
      rcases hh with h | h
      · left; simpa using h
      · right; exact fun x hx => h x (List.mem_cons_of_mem _ hx))]
    rw [absAt_wapply c ph loc w e hph (by
      intro he
      rcases hh with h | h
      · exact h
      · exact absurd he (h e List.mem_cons_self))]

/-! ## 6. the model-side schedule -/

/-- the model inputs of ONE iteration of the translated loop from model state `s`, when the environment's next
    `pre` chunk is `p` and its next `during` entry is `d`: the chunk, one move of the loop thread, and — if that move
    started a sync — the `during` chunk and the thread's move that completes the sync (`step`) or fails it (`fail`) -/
def iterIn (c : Cfg) (s : State) (p : List Input) (d : List Input × Bool) : List Input :=
  if (run c s (p ++ [.step])).phase = .sync then p ++ [.step] ++ d.1 ++ [if d.2 then .step else .fail]
  else p ++ [.step]

/-- the model inputs of `n` iterations (fewer if the loop `break`s) -/
def sched (c : Cfg) : Nat → State → List (List Input) → List (List Input × Bool) → List Input
  | 0, _, _, _ => []
  | n + 1, s, pre, dur =>
    let p := pre.headD []
    let d := dur.headD ([], true)
    let s1 := run c s (p ++ [.step])
    if s1.phase = .done then p ++ [.step]
    else if s1.phase = .sync then
      iterIn c s p d ++ sched c n (run c s (iterIn c s p d)) pre.tail dur.tail
    else iterIn c s p d ++ sched c n (run c s (iterIn c s p d)) pre.tail dur

/-- the scripts of a world as model inputs -/
def absPre (w : WWorld) : List (List Input) := w.pre.map (·.map absIn)
def absDur (w : WWorld) : List (List Input × Bool) := w.during.map (fun d => (d.1.map absIn, d.2))

/-! ## 7. one move of the model's loop thread on abstracted states -/

theorem should_sync_event_kept (self : WatchMode) (ev : Event) :
    WatchMode.should_sync_event self ev = (absKind ev.kind).kept := by
  obtain ⟨k⟩ := ev
  cases k <;> rfl

/-- what ties a model configuration to the translated code: the debounce is the field the code compares with, the
    receive timeout is the literal the code passes to `recv_timeout` -/
structure Tied (c : Cfg) (wm : WatchMode) : Prop where
  hdeb : c.debounce = wm.debounce
  hrecv : c.recvTimeout = Rs.duration_from_millis 100

/-- the model configuration of a `WatchMode` value (select sleep, tolerance and unit taken from `base`) -/
def cfgOf (base : Cfg) (self : WatchMode) : Cfg :=
  { base with debounce := self.debounce, recvTimeout := Rs.duration_from_millis 100, armFirst := true }

theorem tied_cfgOf (base : Cfg) (self : WatchMode) : Tied (cfgOf base self) self := ⟨rfl, rfl⟩

section Steps
variable (c : Cfg) (self : WatchMode) (loc : Locals) (w : WWorld)

theorem step_abs_sig (hs : w.sig = true) :
    (step c (absAt .loop loc w)).1 = exited (absAt .loop loc w) := by
  simp [step, absAt, exited, hs]

theorem step_abs_event {ev : Event} {q} (hs : w.sig = false) (hq : w.queue = .ok ev :: q) :
    (step c (absAt .loop loc w)).1 =
      absAt .loop (if WatchMode.should_sync_event self ev then loc.1 ++ [ev] else loc.1, loc.2)
        { w with now := w.now + c.selectSleep, queue := q } := by
  rw [should_sync_event_kept]
  cases hk : (absKind ev.kind).kept <;> simp [step, absAt, hs, hq, absItem, hk]

theorem step_abs_watch_error {e : Rs.Err} {q} (hs : w.sig = false) (hq : w.queue = .error e :: q) :
    (step c (absAt .loop loc w)).1 = absAt .loop loc { w with now := w.now + c.selectSleep, queue := q } := by
  simp [step, absAt, hs, hq, absItem, Kind.kept]

theorem step_abs_idle (hs : w.sig = false) (hq : w.queue = [])
    (h : loc.1 = [] ∨ w.now + c.selectSleep + c.recvTimeout - loc.2 < c.debounce) :
    (step c (absAt .loop loc w)).1 =
      absAt .loop loc { w with now := w.now + c.selectSleep + c.recvTimeout } := by
  rcases h with h | h
  · simp [step, absAt, hs, hq, h]
  · have : ¬ c.debounce ≤ w.now + c.selectSleep + c.recvTimeout - loc.2 := by omega
    simp [step, absAt, hs, hq, this]

theorem step_abs_sync (hs : w.sig = false) (hq : w.queue = []) (hp : loc.1 ≠ [])
    (h : c.debounce ≤ w.now + c.selectSleep + c.recvTimeout - loc.2) :
    (step c (absAt .loop loc w)).1 =
      absAt .sync loc { w with now := w.now + c.selectSleep + c.recvTimeout, snap := w.src,
                               syncs := w.syncs + 1, ok := true } := by
  simp [step, absAt, hs, hq, hp, h]

theorem step_abs_sync_end : (step c (absAt .sync loc w)).1 =
    absAt .loop ([], w.now) { w with dst := syncTo c w.snap w.dst } := by
  simp [step, absAt]

theorem fail_abs_sync : (failMove c (absAt .sync loc w)).1 = absAt .loop ([], w.now) { w with ok := false } := by
  simp [failMove, absAt]

end Steps

end SyModel.Props.GenWatch
