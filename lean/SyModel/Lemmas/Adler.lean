/-
  Helper lemmas for the Adler-32 model: closed forms of the two sums and the
  modular-arithmetic step behind `roll`.
-/
import SyModel.Delta.Adler
namespace SyModel.Delta

/-- unreduced `a`-sum started at `a0`. -/
def sumA (a0 : Nat) : Bytes → Nat
  | [] => a0
  | x :: d => sumA (a0 + x.toNat) d

/-- unreduced `b`-sum started at `(a0, b0)`. -/
def sumB (a0 b0 : Nat) : Bytes → Nat
  | [] => b0
  | x :: d => sumB (a0 + x.toNat) (b0 + a0 + x.toNat) d

theorem foldl_push (a0 b0 : Nat) (d : Bytes) :
    d.foldl Adler.push ⟨a0 % MOD, b0 % MOD⟩ = ⟨sumA a0 d % MOD, sumB a0 b0 d % MOD⟩ := by
  induction d generalizing a0 b0 with
  | nil => simp [sumA, sumB]
  | cons x d ih =>
    simp only [List.foldl_cons, sumA, sumB]
    have h : Adler.push ⟨a0 % MOD, b0 % MOD⟩ x
        = ⟨(a0 + x.toNat) % MOD, (b0 + a0 + x.toNat) % MOD⟩ := by
      simp only [Adler.push, Adler.mk.injEq, MOD]
      constructor <;> omega
    rw [h, ih]

theorem ofBlock_eq (d : Bytes) : Adler.ofBlock d = ⟨sumA 1 d % MOD, sumB 1 0 d % MOD⟩ := by
  have := foldl_push 1 0 d
  simpa [Adler.ofBlock, Adler.init] using this

theorem sumA_shift (a0 x : Nat) (d : Bytes) : sumA (a0 + x) d = sumA a0 d + x := by
  induction d generalizing a0 with
  | nil => simp [sumA]
  | cons y d ih =>
    simp only [sumA]
    rw [show a0 + x + y.toNat = (a0 + y.toNat) + x by omega, ih]

theorem sumB_shift (a0 b0 x c : Nat) (d : Bytes) :
    sumB (a0 + x) (b0 + c) d = sumB a0 b0 d + x * d.length + c := by
  induction d generalizing a0 b0 c with
  | nil => simp [sumB]
  | cons y d ih =>
    simp only [sumB, List.length_cons]
    rw [show a0 + x + y.toNat = (a0 + y.toNat) + x by omega,
        show b0 + c + (a0 + x) + y.toNat = (b0 + a0 + y.toNat) + (c + x) by omega,
        ih]
    rw [Nat.mul_add]; omega

theorem sumA_snoc (a0 : Nat) (d : Bytes) (y : UInt8) : sumA a0 (d ++ [y]) = sumA a0 d + y.toNat := by
  induction d generalizing a0 with
  | nil => simp [sumA]
  | cons x d ih => simp only [List.cons_append, sumA, ih]

theorem sumB_snoc (a0 b0 : Nat) (d : Bytes) (y : UInt8) :
    sumB a0 b0 (d ++ [y]) = sumB a0 b0 d + sumA a0 d + y.toNat := by
  induction d generalizing a0 b0 with
  | nil => simp [sumA, sumB]
  | cons x d ih => simp only [List.cons_append, sumA, sumB, ih]

theorem sumA_ge (a0 : Nat) (d : Bytes) : a0 ≤ sumA a0 d := by
  induction d generalizing a0 with
  | nil => simp [sumA]
  | cons x d ih => simp only [sumA]; have := ih (a0 + x.toNat); omega

/-- The rolling step: removing the first byte of a window of length `n` and appending `y`
    gives exactly the state of the shifted window (provided `n * 255` does not wrap `u32`). -/
theorem roll_ofBlock (x y : UInt8) (d : Bytes) (n : Nat) (hn : n = d.length + 1)
    (hov : n * 255 < 4294967296) :
    Adler.roll n (Adler.ofBlock (x :: d)) x y = Adler.ofBlock (d ++ [y]) := by
  rw [ofBlock_eq, ofBlock_eq]
  have hx : x.toNat < 256 := x.toNat_lt
  have hy : y.toNat < 256 := y.toNat_lt
  -- true (unreduced) values
  have hA : sumA 1 (x :: d) = sumA 1 d + x.toNat := by simp only [sumA]; rw [sumA_shift]
  have hB : sumB 1 0 (x :: d) = sumB 1 0 d + x.toNat * d.length + (1 + x.toNat) := by
    have h := sumB_shift 1 0 x.toNat (1 + x.toNat) d
    simp only [sumB]; simpa using h
  have hA' := sumA_snoc 1 d y
  have hB' := sumB_snoc 1 0 d y
  have hA1 := sumA_ge 1 d
  -- the product
  have hnx : n * x.toNat = x.toNat * d.length + x.toNat := by rw [hn, Nat.add_mul, Nat.mul_comm]; omega
  have hw1 : wrap32 n = n := by
    unfold wrap32; apply Nat.mod_eq_of_lt; omega
  have hw2 : wrap32 (n * x.toNat) = n * x.toNat := by
    unfold wrap32; apply Nat.mod_eq_of_lt
    have : n * x.toNat ≤ n * 255 := Nat.mul_le_mul_left n (by omega)
    omega
  simp only [Adler.roll, hw1, hw2, Adler.mk.injEq, MOD]
  generalize sumA 1 d = A at *
  generalize sumB 1 0 d = B at *
  generalize n * x.toNat = t at *
  generalize x.toNat * d.length = u at *
  rw [hA, hB, hA', hB']
  constructor <;> omega

end SyModel.Delta

namespace SyModel.Delta

theorem take_succ_of_drop {α} (t : List α) (m : Nat) (y : α) (rest : List α)
    (h : t.drop m = y :: rest) : t.take (m + 1) = t.take m ++ [y] := by
  induction m generalizing t with
  | zero => cases t with
    | nil => simp at h
    | cons a t => simp at h; simp [h.1]
  | succ m ih =>
    cases t with
    | nil => simp at h
    | cons a t =>
      simp only [List.drop_succ_cons] at h
      simp only [List.take_succ_cons, List.cons_append, ih t h]

theorem rollN_window (n : Nat) (hn : 0 < n) (hov : n * 255 < 4294967296) :
    ∀ (k : Nat) (d : Bytes), k + n ≤ d.length →
      rollN n (Adler.ofBlock (d.take n)) d k = Adler.ofBlock ((d.drop k).take n) := by
  intro k
  induction k with
  | zero => intro d _; simp [rollN]
  | succ k ih =>
    intro d hk
    obtain ⟨m, rfl⟩ : ∃ m, n = m + 1 := ⟨n - 1, by omega⟩
    cases d with
    | nil => simp at hk
    | cons x t =>
      have hlen : m < t.length := by simp at hk; omega
      cases hdrop : t.drop m with
      | nil =>
        have := List.drop_eq_nil_iff.mp hdrop
        omega
      | cons y rest =>
        have htake := take_succ_of_drop t m y rest hdrop
        have hm : (t.take m).length = m := by simp; omega
        have hstep : ∀ s, rollN (m + 1) s (x :: t) (k + 1) = rollN (m + 1) (Adler.roll (m + 1) s x y) t k := by
          intro s; simp only [rollN, List.drop_succ_cons, hdrop]
        simp only [List.take_succ_cons, hstep]
        rw [roll_ofBlock x y (t.take m) (m + 1) (by rw [hm]) hov, ← htake]
        have := ih t (by simp at hk; omega)
        simpa using this

end SyModel.Delta
