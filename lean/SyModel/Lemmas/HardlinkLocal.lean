/-
  Lemmas for C13: locality of the destination effects. Since 8b4f96e `sync_file_with_delta` writes
  through an existing inode only when no other path of the run names it, so a micro-step of worker
  `w` changes no destination path but its own; hence a path whose worker has returned (in
  particular a skipped, up-to-date name) is never changed again.
-/
import SyModel.Lemmas.Hardlink
namespace SyModel.Hardlink

theorem next_through {cfg : Cfg} {w : Nat} {c : WorkerCfg} {pc : Pc} {entry : Option Entry}
    {calls : Nat → Nat} {dst : Nat → Option File} {l : Label} {e : Effect} {k : Nat}
    (h : next cfg w c pc entry calls dst = some (l, e)) (ht : e.dst = .through k) :
    ∃ fw, dst w = some fw ∧ sharedIno cfg.n dst w fw.ino = false := by
  cases pc <;> simp only [next, failPc] at h <;> (repeat' split at h) <;>
    first
    | (cases h; simp at ht; done)
    | (cases h)
    | skip
  all_goals
    rename_i fw hfw hsh
    refine ⟨fw, hfw, ?_⟩
    simp only [Bool.or_eq_true, not_or, Bool.not_eq_true] at hsh
    exact hsh.2

/-- a micro-step of worker `w` changes the destination of no other path of the run -/
theorem step_dst_other {cfg : Cfg} {s s' : State} {w : Nat} {l : Label}
    (h : step cfg s w = some (l, s')) (hout : ∀ v, cfg.n ≤ v → s.dst v = none)
    (q : Nat) (hq : q ≠ w) : s'.dst q = s.dst q := by
  obtain ⟨hw, e, hnext, rfl⟩ := step_eq_some h
  simp only [State.apply]
  cases hd : e.dst with
  | keep => rfl
  | set d => simp [hq]
  | through c =>
    obtain ⟨fw, hfw, hsh⟩ := next_through hnext hd
    simp only
    unfold writeThrough
    rw [hfw]
    cases hv : s.dst q with
    | none => rfl
    | some fv =>
      simp only
      by_cases hlt : q < cfg.n
      · have := sharedIno_false hsh q hlt hq
        rw [hv] at this
        simp only [Option.map_some, ne_eq, Option.some.injEq] at this
        simp [this]
      · rw [hout q (by omega)] at hv; cases hv

/-- a worker that has returned takes no further step -/
theorem done_not_enabled {cfg : Cfg} {s s' : State} {w : Nat} {l : Label}
    (h : step cfg s w = some (l, s')) : (s.pc w).isDone = false := by
  obtain ⟨_, e, hnext, _⟩ := step_eq_some h
  cases hpc : s.pc w <;> simp [Pc.isDone]
  rw [hpc] at hnext
  simp [next] at hnext

/-- once a worker has returned, nobody changes its destination path any more -/
theorem exec_done_untouched {cfg : Cfg} {s s' : State} {sched : List Nat}
    (hi : Inv cfg s) (hd : InvD cfg s) (h : Exec cfg s sched s') (q : Nat)
    (hpc : (s.pc q).isDone = true) : s'.dst q = s.dst q ∧ s'.pc q = s.pc q := by
  induction h with
  | nil s => exact ⟨rfl, rfl⟩
  | @cons s s₁ s₂ w l ws hstep _ ih =>
    have hne : q ≠ w := by
      intro he; subst he
      rw [done_not_enabled hstep] at hpc; cases hpc
    have h1 : s₁.dst q = s.dst q := step_dst_other hstep hd.outside q hne
    have h2 : s₁.pc q = s.pc q := by
      obtain ⟨_, e, _, rfl⟩ := step_eq_some hstep
      simp [State.apply, hne]
    obtain ⟨i1, i2⟩ := ih (inv_step hi hstep) (invD_step hi hd hstep) (by rw [h2]; exact hpc)
    exact ⟨i1.trans h1, i2.trans h2⟩

end SyModel.Hardlink
