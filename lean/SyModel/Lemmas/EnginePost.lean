/-
  The per-entry post-condition of a run in terms of the *source entry* (`EntryPost`), derived
  from the per-task post-condition (`TaskPost`), and the comparison rule spelled out.
-/
import SyModel.Lemmas.EngineRun
namespace SyModel.Engine

/-! ### the comparison rule -/

/-- "up to date" per comparison mode, as the property text states it -/
def UpToDate (c : Compare) (m d : FileMeta) : Prop :=
  match c with
  | .default => m.size = d.size ∧ absDiff m.mtime d.mtime / 1000000000 ≤ 1
  | .checksum => m.content = d.content
  | .ignoreTimes => False
  | .sizeOnly => m.size = d.size

theorem planFileAct_skip_iff (cfg : Cfg) (m : FileMeta) (o : Option DNode) :
    planFileAct cfg m o = .skip ↔ ∃ d, o = some (.file d) ∧ UpToDate cfg.compare m d := by
  unfold planFileAct UpToDate
  cases o with
  | none => simp
  | some v =>
    cases v with
    | dir => simp
    | symlink s => simp
    | file d =>
      cases hc : cfg.compare <;> simp [needsUpdate, mtimeMatches]

theorem planFileAct_create_iff (cfg : Cfg) (m : FileMeta) (o : Option DNode) :
    planFileAct cfg m o = .create ↔ o = none := by
  unfold planFileAct
  cases o with
  | none => simp
  | some v =>
    cases v with
    | dir => simp
    | symlink s => simp
    | file d =>
      simp only [reduceCtorEq, iff_false]
      split
      · split <;> simp
      · split <;> simp

/-- whole-second truncation with tolerance 1 is the open 2 s window -/
theorem mtime_window (a b : Nat) : absDiff a b / 1000000000 ≤ 1 ↔ absDiff a b < 2000000000 := by
  omega

theorem absDiff_self (a : Nat) : absDiff a a = 0 := by simp [absDiff]

/-- transferred data is up to date under every rule except `--ignore-times` -/
theorem upToDate_of_matches {cfg : Cfg} {d m : FileMeta} (h : Matches cfg d m) (hc : cfg.compare ≠ .ignoreTimes) :
    UpToDate cfg.compare m d := by
  obtain ⟨a, b, c, _⟩ := h
  unfold UpToDate
  cases hcmp : cfg.compare with
  | default => simp only; rw [b, c, absDiff_self]; exact ⟨rfl, by omega⟩
  | checksum => exact a.symm
  | ignoreTimes => exact absurd hcmp hc
  | sizeOnly => exact b.symm

/-! ### per-entry post-condition -/

/-- the node at `e.rel` is what it was, except that an absent one may have become a directory
    because a selected entry lives below it -/
def Unchanged (cfg : Cfg) (scan : List SEntry) (dst : Map DNode) (e : SEntry) (res : Option DNode) : Prop :=
  res = dst.get? e.rel ∨
    (dst.get? e.rel = none ∧ res = some .dir ∧ e.rel ≠ [] ∧
      ∃ s ∈ scanFilter cfg scan, isPrefix e.rel s.rel = true ∧ s.rel ≠ e.rel)

theorem Unchanged.eq {cfg : Cfg} {scan : List SEntry} {dst : Map DNode} {e : SEntry} {res : Option DNode}
    (h : Unchanged cfg scan dst e res) (hu : UniqueRels scan) (hc : ParentClosed scan) (he : e ∈ scan)
    (hk : e.kind ≠ .dir) : res = dst.get? e.rel := by
  rcases h with h | ⟨_, _, hne, s, hs, hp, hsr⟩
  · exact h
  · exact absurd (anc_is_dir hu hc he (mem_of_mem_scanFilter hs) hne hp (Ne.symm hsr)) hk

theorem Unchanged.of_present {cfg : Cfg} {scan : List SEntry} {dst : Map DNode} {e : SEntry} {res : Option DNode}
    (h : Unchanged cfg scan dst e res) (hp : dst.get? e.rel ≠ none) : res = dst.get? e.rel := by
  rcases h with h | ⟨a, _⟩
  · exact h
  · exact absurd a hp

/-- a regular file (or followed link) with source data `m` -/
def FilePost (cfg : Cfg) (dst : Map DNode) (e : SEntry) (m : FileMeta) (res : Option DNode) : Prop :=
  ∃ d, res = some (.file d) ∧
    (planFileAct cfg m (dst.get? e.rel) = .skip → res = dst.get? e.rel) ∧
    (planFileAct cfg m (dst.get? e.rel) ≠ .skip → Matches cfg d m) ∧
    (cfg.hardlinks = false → ∀ o, dst.get? e.rel = some (.file o) → d.ino = o.ino)

structure EntryPost (cfg : Cfg) (scan : List SEntry) (dst : Map DNode) (e : SEntry) (res : Option DNode) : Prop where
  dir : e.kind = .dir → e.rel ≠ [] → res = some .dir
  dir_old : e.kind = .dir → dst.get? e.rel = some .dir → res = some .dir
  /-- a selected directory completes only over nothing, a directory, or a symlink (which is replaced, fix 862af11) -/
  dir_pre : e.kind = .dir → e.rel ≠ [] →
    dst.get? e.rel = none ∨ dst.get? e.rel = some .dir ∨ ∃ s, dst.get? e.rel = some (.symlink s)
  file : ∀ m n, e.kind = .file m n → FilePost cfg dst e m res
  link_preserve : ∀ text tgt, e.kind = .symlink text tgt → cfg.links = .preserve → res = some (.symlink text)
  link_follow : ∀ text m, e.kind = .symlink text (.file m) → cfg.links = .follow → FilePost cfg dst e m res
  link_follow_other : ∀ text tgt, e.kind = .symlink text tgt → cfg.links = .follow → (∀ m, tgt ≠ .file m) →
    Unchanged cfg scan dst e res
  link_skip : ∀ text tgt, e.kind = .symlink text tgt → cfg.links = .skip → Unchanged cfg scan dst e res

theorem unchanged_of_taskPost {cfg : Cfg} {scan : List SEntry} {dst : Map DNode} {e : SEntry} {res : Option DNode}
    (tp : TaskPost cfg dst (plan cfg scan dst) (planEntry cfg dst e) res)
    (h : (planEntry cfg dst e).act = .skip ∨ (planEntry cfg dst e).payload = .nothing) :
    Unchanged cfg scan dst e res := by
  have := tp.skip h
  rw [planEntry_rel] at this
  rcases this with h1 | ⟨a, b, c, t', ht', hp, hr, hd, _⟩
  · exact Or.inl h1
  · refine Or.inr ⟨a, b, c, ?_⟩
    rw [plan_eq] at ht'
    rcases List.mem_append.1 ht' with ht' | ht'
    · obtain ⟨s, hs, rfl⟩ := List.mem_map.1 ht'
      rw [planEntry_rel] at hp hr
      exact ⟨s, hs, hp, hr⟩
    · exfalso
      split at ht'
      · exact hd (planDeletions_act ht')
      · cases ht'

theorem filePost_of_taskPost {cfg : Cfg} {scan : List SEntry} {dst : Map DNode} {e : SEntry} {res : Option DNode}
    {m : FileMeta} {n : Nat}
    (tp : TaskPost cfg dst (plan cfg scan dst) (planEntry cfg dst e) res)
    (hpe : planEntry cfg dst e = ⟨planFileAct cfg m (dst.get? e.rel), e.rel, .file m n⟩) :
    FilePost cfg dst e m res := by
  by_cases hs : planFileAct cfg m (dst.get? e.rel) = .skip
  · obtain ⟨d, hd, _⟩ := (planFileAct_skip_iff _ _ _).1 hs
    have hun := unchanged_of_taskPost tp (Or.inl (by rw [hpe]; exact hs))
    have := hun.of_present (by rw [hd]; simp)
    exact ⟨d, this.trans hd, fun _ => this, fun h => absurd hs h,
      fun _ o ho => by rw [hd] at ho; simp only [Option.some.injEq, DNode.file.injEq] at ho; rw [ho]⟩
  · have hact : (planEntry cfg dst e).act ≠ .skip := by rw [hpe]; exact hs
    obtain ⟨d, hd, hm, hi⟩ := tp.file hact m n (by rw [hpe])
    rw [planEntry_rel] at hi
    exact ⟨d, hd, fun h => absurd h hs, fun _ => hm, hi⟩

theorem entryPost_of_taskPost {cfg : Cfg} {scan : List SEntry} {dst : Map DNode} {e : SEntry} {res : Option DNode}
    (tp : TaskPost cfg dst (plan cfg scan dst) (planEntry cfg dst e) res) :
    EntryPost cfg scan dst e res := by
  have dirSkip : e.kind = .dir → dst.get? e.rel = some .dir → res = some .dir := by
    intro hk hd
    have hpe : planEntry cfg dst e = ⟨.skip, e.rel, .dir⟩ := by
      unfold planEntry; simp [hk, hd]
    rw [(unchanged_of_taskPost tp (Or.inl (by rw [hpe]))).of_present (by rw [hd]; simp), hd]
  have dirCreate : e.kind = .dir → dst.get? e.rel ≠ some .dir →
      (planEntry cfg dst e).act ≠ .skip ∧ (planEntry cfg dst e).payload = .dir := by
    intro hk hd
    unfold planEntry
    simp only [hk]
    refine ⟨?_, trivial⟩
    split
    · rename_i h; exact absurd h hd
    · simp
    · simp
  refine ⟨fun hk hne => ?_, dirSkip, fun hk hne => ?_, fun m n hk => ?_, fun text tgt hk hl => ?_,
    fun text m hk hl => ?_, fun text tgt hk hl hnf => ?_, fun text tgt hk hl => ?_⟩
  · by_cases hd : dst.get? e.rel = some .dir
    · exact dirSkip hk hd
    · have hpe := dirCreate hk hd
      exact tp.dir hpe.1 hpe.2 (by rw [planEntry_rel]; exact hne)
  · by_cases hd : dst.get? e.rel = some .dir
    · exact Or.inr (Or.inl hd)
    · have hpe := dirCreate hk hd
      have := tp.dir_pre hpe.1 hpe.2 (by rw [planEntry_rel]; exact hne)
      rw [planEntry_rel] at this
      rcases this with h | h | ⟨_, h⟩
      · exact Or.inl h
      · exact Or.inr (Or.inl h)
      · exact Or.inr (Or.inr h)
  · exact filePost_of_taskPost (n := n) tp (by unfold planEntry; simp [hk])
  · cases hg : dst.get? e.rel with
    | none =>
      have hpe : planEntry cfg dst e = ⟨.create, e.rel, .symlink text⟩ := by
        unfold planEntry; simp [hk, hl, hg]
      exact tp.symlink (by rw [hpe]; simp) text (by rw [hpe])
    | some v =>
      by_cases hsame : v = .symlink text
      · have hpe : planEntry cfg dst e = ⟨.skip, e.rel, .symlink text⟩ := by
          unfold planEntry; simp [hk, hl, hg, hsame]
        have := (unchanged_of_taskPost tp (Or.inl (by rw [hpe]))).of_present (by rw [hg]; simp)
        rw [this, hg, hsame]
      · have hpe : planEntry cfg dst e = ⟨.update, e.rel, .symlink text⟩ := by
          unfold planEntry
          cases v with
          | dir => simp [hk, hl, hg]
          | file o => simp [hk, hl, hg]
          | symlink t =>
            have : t ≠ text := fun h => hsame (by rw [h])
            simp [hk, hl, hg, this]
        exact tp.symlink (by rw [hpe]; simp) text (by rw [hpe])
  · exact filePost_of_taskPost (n := 1) tp (by unfold planEntry; simp [hk, hl])
  · have hpe : planEntry cfg dst e = ⟨.skip, e.rel, .nothing⟩ := by
      unfold planEntry
      cases tgt with
      | file m => exact absurd rfl (hnf m)
      | dir => simp [hk, hl]
      | dangling => simp [hk, hl]
    exact unchanged_of_taskPost tp (Or.inl (by rw [hpe]))
  · have hpe : planEntry cfg dst e = ⟨.skip, e.rel, .nothing⟩ := by
      unfold planEntry; simp [hk, hl]
    exact unchanged_of_taskPost tp (Or.inl (by rw [hpe]))

/-- the run-level statement: every selected entry whose task completed satisfies `EntryPost` -/
theorem run_entry_post {cfg : Cfg} (hdry : cfg.dryRun = false) (flt : Faults) (scan : List SEntry)
    (dst : Map DNode) (n : Nat) (hu : UniqueRels scan)
    (hdel : cfg.delete = true → ParentClosed scan ∧ dst.get? [] = none)
    (hino : cfg.hardlinks = true → InoConsistent scan) {e : SEntry}
    (hok : TaskOk cfg flt (plan cfg scan dst) (initExec dst n) (planEntry cfg dst e)) :
    EntryPost cfg scan dst e ((finalExec cfg flt scan dst n).w.dst.get? e.rel) :=
  entryPost_of_taskPost (run_task_post hdry flt scan dst n hu hdel hino hok)

/-- with exit status 0 every planned task completed -/
theorem taskOk_of_exit_zero {cfg : Cfg} {flt : Faults} {scan : List SEntry} {dst : Map DNode} {n : Nat}
    (h : (runF cfg flt scan dst n).exit = 0) {t : Task} (ht : t ∈ plan cfg scan dst) :
    TaskOk cfg flt (plan cfg scan dst) (initExec dst n) t := by
  apply taskOk_of_no_errors _ ht
  have := (runF_exit_zero h).2
  unfold finalExec at this
  rw [this]; rfl

theorem runF_refused_events {cfg : Cfg} {flt : Faults} {scan : List SEntry} {dst : Map DNode} {n : Nat}
    (h : (runF cfg flt scan dst n).refused = true) : (runF cfg flt scan dst n).events = [] := by
  unfold runF at h ⊢
  simp only at h ⊢
  split
  · rfl
  · rename_i hg; simp [hg] at h

/-- an event in the report means the run was not refused -/
theorem not_refused_of_event {cfg : Cfg} {flt : Faults} {scan : List SEntry} {dst : Map DNode} {n : Nat}
    {ev : Act × Path} (hev : ev ∈ (runF cfg flt scan dst n).events) :
    (runF cfg flt scan dst n).refused = false := by
  cases h : (runF cfg flt scan dst n).refused with
  | false => rfl
  | true => rw [runF_refused_events h] at hev; cases hev

/-- the event of a selected entry identifies its task, which then ran to completion -/
theorem completed_of_event {cfg : Cfg} {flt : Faults} {scan : List SEntry} {dst : Map DNode} {n : Nat}
    (hu : UniqueRels scan) {e : SEntry} (he : e ∈ scanFilter cfg scan)
    (hev : ((planEntry cfg dst e).act, e.rel) ∈ (runF cfg flt scan dst n).events) :
    (runF cfg flt scan dst n).refused = false ∧
      TaskOk cfg flt (plan cfg scan dst) (initExec dst n) (planEntry cfg dst e) := by
  have hr := not_refused_of_event hev
  refine ⟨hr, ?_⟩
  rw [(runF_of_not_refused hr).2.1, List.mem_reverse] at hev
  unfold finalExec at hev
  rcases taskOk_of_event _ _ _ hev with h | ⟨t, hok, hte⟩
  · cases h
  · obtain ⟨pre, post, hts, _⟩ := id hok
    have htm : t ∈ plan cfg scan dst := by rw [hts]; simp
    simp only [Prod.mk.injEq] at hte
    have : t = planEntry cfg dst e := by
      rw [plan_eq] at htm
      rcases List.mem_append.1 htm with h | h
      · obtain ⟨s, hs, rfl⟩ := List.mem_map.1 h
        rw [planEntry_rel] at hte
        have := hu.eq_of_rel (mem_of_mem_scanFilter hs) (mem_of_mem_scanFilter he) hte.2.symm
        rw [this]
      · exfalso
        split at h
        · exact planEntry_act_ne_delete cfg dst e (hte.1.trans (planDeletions_act h))
        · cases h
    rw [← this]; exact hok

/-- every selected entry whose action event is in the report satisfies `EntryPost`, under any
    fault plan -/
theorem entryPost_of_event {cfg : Cfg} (hdry : cfg.dryRun = false) (flt : Faults) (scan : List SEntry)
    (dst : Map DNode) (n : Nat) (hu : UniqueRels scan)
    (hdel : cfg.delete = true → ParentClosed scan ∧ dst.get? [] = none)
    (hino : cfg.hardlinks = true → InoConsistent scan) {e : SEntry} (he : e ∈ scanFilter cfg scan)
    (hev : ((planEntry cfg dst e).act, e.rel) ∈ (runF cfg flt scan dst n).events) :
    EntryPost cfg scan dst e ((runF cfg flt scan dst n).dst.get? e.rel) := by
  obtain ⟨hr, hok⟩ := completed_of_event hu he hev
  rw [(runF_of_not_refused hr).1]
  exact run_entry_post hdry flt scan dst n hu hdel hino hok

/-- … in particular every selected entry of a run that exits 0 -/
theorem entryPost_of_exit_zero {cfg : Cfg} (hdry : cfg.dryRun = false) (flt : Faults) (scan : List SEntry)
    (dst : Map DNode) (n : Nat) (hu : UniqueRels scan)
    (hdel : cfg.delete = true → ParentClosed scan ∧ dst.get? [] = none)
    (hino : cfg.hardlinks = true → InoConsistent scan) {e : SEntry} (he : e ∈ scanFilter cfg scan)
    (hok : (runF cfg flt scan dst n).exit = 0) :
    EntryPost cfg scan dst e ((runF cfg flt scan dst n).dst.get? e.rel) := by
  rw [(runF_of_not_refused (runF_exit_zero hok).1).1]
  exact run_entry_post hdry flt scan dst n hu hdel hino (taskOk_of_exit_zero hok (planEntry_mem_plan he))

end SyModel.Engine
