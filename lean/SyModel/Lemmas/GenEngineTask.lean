/-
  Lemmas/GenEngineTask — vocabulary and helper lemmas for Props/GenEngineTask: the bridge for the TRANSLATED per-task body
  of `SyncEngine::sync` (`run_task`, Generated/Code/EngineTask.lean, regenerated from src/sync/mod.rs ≈ 838-1190 on every
  run): executor call, counters of `SyncStats`, verification accounting, JSON event, error record, rate limiter, the
  "already gone" rule of deletions.

  Contents
    1. the STRUCTURED PROGRAM `taskSpec`: per action `xferArm call onOk` (executor call → on Ok `bookOk`: throttle →
       verifyPhase → emitIf → `Ok(())` | on Err: `pushErr` → `Err e`), `skipArm`, `deleteArm` (`deletePre` → executor →
       `goneRule` → count+event | error record), with the pure bookkeeping functions `createCount`, `updateCount`,
       `compressionPart`, `deltaPart`, `verifyStats`, `pushErr`;
    2. `run_task_eq_taskSpec`: the generated do-block (nested join points, 17-field record updates) IS that program, for
       ANY `Ext W` — the body is unfolded here ONCE per arm (`create_arm`, `update_arm`, `skip_arm`, `delete_arm`); the
       join points are pulled out with `extract_lets` and proved equal to the named pieces one by one, so the proof is
       linear in the size of the body;
    3. running the pieces (`runM` of Lemmas/GenTransfer) and the big-step relation `Ran` with `run_task_ran`
       (`runM (run_task …) w = (.ok (res, st'), w') ↔ Ran … w res st' w'`); `deletePre_inv`, `goneRule_ok_iff`;
    4. field lemmas of the pure bookkeeping functions (simp set);
    5. THE INSTANCE `engineExt cfg : Ext EWorld` (TRUSTED) that composes this unit with the translated executors of unit
       Transfer on `extOf cfg`, the abstraction maps (`absBook`, `absExec`, `absTaskE`, `evAbs`, `errAbs`) and the bridge
       lemmas to the model's `execTask`.
-/
import SyModel.Generated.Code.EngineTask
import SyModel.Lemmas.GenTransfer
set_option linter.unusedVariables false
namespace SyModel.GenEngineTask
open SyModel.Generated SyModel.Generated.EngineTask
open SyModel.Lemmas.GenTransfer (runM runM_bind runM_bind_ok runM_bind_error runM_pure runM_throw)

section
variable {W : Type}

/-! ## 1. the structured program -/

/-- `bytes_written` of the executor's answer (`None`: nothing was copied) -/
def bytesOf (r : Option TransferResult) : Nat := match r with | some r => r.bytes_written | none => 0

def compressionPart (r : Option TransferResult) (st : SyncStats) : SyncStats :=
  match r with
  | some r =>
    if r.compression_used then
      match r.transferred_bytes with
      | some t => { st with files_compressed := st.files_compressed + 1,
                            compression_bytes_saved := st.compression_bytes_saved + (r.bytes_written - t) }
      | none => { st with files_compressed := st.files_compressed + 1 }
    else st
  | none => st

def deltaPart (r : TransferResult) (st : SyncStats) : SyncStats :=
  if r.delta_operations.isSome then
    match r.literal_bytes with
    | some l => { st with files_delta_synced := st.files_delta_synced + 1,
                          delta_bytes_saved := st.delta_bytes_saved + (r.bytes_written - l) }
    | none => { st with files_delta_synced := st.files_delta_synced + 1 }
  else st

/-- the counters after a successful `create` -/
def createCount (dry : Bool) (source : FileEntry) (r : Option TransferResult) (st : SyncStats) : SyncStats :=
  compressionPart r
    (let st := { st with bytes_transferred := st.bytes_transferred + bytesOf r, files_created := st.files_created + 1 }
     if dry && !source.is_dir then { st with bytes_would_add := st.bytes_would_add + source.size } else st)

/-- the counters after a successful `update` -/
def updateCount (dry : Bool) (source : FileEntry) (r : Option TransferResult) (st : SyncStats) : SyncStats :=
  let st := match r with
    | some res => compressionPart r (deltaPart res { st with bytes_transferred := st.bytes_transferred + res.bytes_written })
    | none => st
  let st := { st with files_updated := st.files_updated + 1 }
  if dry && !source.is_dir then { st with bytes_would_change := st.bytes_would_change + source.size } else st

def verifyStats (st : SyncStats) (v : Except Rs.Err Bool) : SyncStats :=
  match v with
  | .ok true => { st with files_verified := st.files_verified + 1 }
  | _ => { st with verification_failures := st.verification_failures + 1 }

/-- the verifier answered `Ok(true)` — the ONLY answer that counts as verified -/
def verdictOk (v : Except Rs.Err Bool) : Bool := match v with | .ok true => true | _ => false

def wantsVerify (mode : ChecksumType) (dry : Bool) (source : FileEntry) (r : Option TransferResult) : Bool :=
  mode != ChecksumType.None && !dry && !source.is_dir && r.isSome

/-- the rate limiter: `consume(bytes)` and the sleep it asks for -/
def throttle (ext : Ext W) (limiter : Option Rs.Opaque) (bytes : Nat) : Rs.M W Unit :=
  match limiter with
  | some l =>
    if bytes > 0 then do
      let d ← ext.limiter_consume l bytes
      if d > Rs.DURATION_ZERO then ext.tokio_time_sleep d else pure ()
    else pure ()
  | none => pure ()

def verifyPhase (ext : Ext W) (verifier : Rs.Opaque) (mode : ChecksumType) (dry : Bool) (source : FileEntry)
    (dest : Rs.Path) (r : Option TransferResult) (st : SyncStats) : Rs.M W SyncStats :=
  if wantsVerify mode dry source r then do
    let v ← Rs.capture (ext.verify_transfer verifier source.path dest)
    pure (verifyStats st v)
  else pure st

def emitIf (ext : Ext W) (json : Bool) (ev : SyncEvent) : Rs.M W Unit := if json then ext.emit ev else pure ()

/-- what follows a successful executor call: rate limiting, verification accounting, event, `Ok(())` -/
def bookOk (ext : Ext W) (limiter : Option Rs.Opaque) (verifier : Rs.Opaque) (mode : ChecksumType) (dry json : Bool)
    (source : FileEntry) (dest : Rs.Path) (r : Option TransferResult) (st : SyncStats) (ev : SyncEvent) :
    Rs.M W (Except Rs.Err Unit × SyncStats) := do
  throttle ext limiter (bytesOf r)
  let st ← verifyPhase ext verifier mode dry source dest r st
  emitIf ext json ev
  pure (.ok (), st)

def pushErr (st : SyncStats) (dest : Rs.Path) (e : Rs.Err) (action : Rs.Str) : SyncStats :=
  { st with errors := st.errors ++ [{ path := dest, error := Rs.to_string e, action := action }] }

def createEvent (task : SyncTask) (source : FileEntry) (r : Option TransferResult) : SyncEvent :=
  SyncEvent.Create task.dest_path source.size (bytesOf r)

def updateEvent (task : SyncTask) (source : FileEntry) (r : Option TransferResult) : SyncEvent :=
  SyncEvent.Update task.dest_path source.size (bytesOf r) ((r.map TransferResult.used_delta).getD false)

def createOk (ext : Ext W) (task : SyncTask) (source : FileEntry) (verifier : Rs.Opaque) (stats : SyncStats)
    (dry json : Bool) (mode : ChecksumType) (limiter : Option Rs.Opaque) (r : Option TransferResult) :
    Rs.M W (Except Rs.Err Unit × SyncStats) :=
  bookOk ext limiter verifier mode dry json source task.dest_path r (createCount dry source r stats)
    (createEvent task source r)

def updateOk (ext : Ext W) (task : SyncTask) (source : FileEntry) (verifier : Rs.Opaque) (stats : SyncStats)
    (dry json : Bool) (mode : ChecksumType) (limiter : Option Rs.Opaque) (r : Option TransferResult) :
    Rs.M W (Except Rs.Err Unit × SyncStats) :=
  bookOk ext limiter verifier mode dry json source task.dest_path r (updateCount dry source r stats)
    (updateEvent task source r)

/-- executor call → on `Ok`: the bookkeeping of a success | on `Err e`: the error record, `Err e` -/
def xferArm (call : Rs.M W (Option TransferResult))
    (onOk : Option TransferResult → Rs.M W (Except Rs.Err Unit × SyncStats)) (stats : SyncStats) (dest : Rs.Path)
    (action : Rs.Str) : Rs.M W (Except Rs.Err Unit × SyncStats) := do
  match (← Rs.capture call) with
  | .ok r => onOk r
  | .error e => pure (.error e, pushErr stats dest e action)

def skipArm (ext : Ext W) (task : SyncTask) (stats : SyncStats) (json : Bool) :
    Rs.M W (Except Rs.Err Unit × SyncStats) := do
  emitIf ext json (SyncEvent.Skip task.dest_path "up_to_date".toList)
  pure (.ok (), { stats with files_skipped := stats.files_skipped + 1 })

/-- what precedes the deletion: `is_dir = dest_path.is_dir()`, and in a dry run the size that would be freed -/
def deletePre (ext : Ext W) (task : SyncTask) (dry : Bool) (stats : SyncStats) : Rs.M W (Bool × SyncStats) := do
  let is_dir ← ext.path_is_dir task.dest_path
  if dry && !is_dir then do
    match (← Rs.capture (ext.std_fs_metadata task.dest_path)) with
    | .ok md => pure (is_dir, { stats with bytes_would_delete := stats.bytes_would_delete + md.size })
    | .error _ => pure (is_dir, stats)
  else pure (is_dir, stats)

/-- the error kinds that mean "the entry is not there (any more)": `NotFound`, and — since the repair recorded as
    `fixed: C06/spurious-delete-errors/parent-name-reused` — `NotADirectory` (the parent was removed and its name reused by a
    file, e.g. the working file of a concurrent update: nothing can exist below it) -/
def goneKind (ext : Ext W) (e : Rs.Err) : Bool :=
  ext.io_error_kind e == ErrorKind.NotFound || ext.io_error_kind e == ErrorKind.NotADirectory

/-- THE "ALREADY GONE" RULE: an `Io` error of kind `NotFound` / `NotADirectory` is a success; every other answer stays what it is -/
def goneRule (ext : Ext W) (r : Except Rs.Err Unit) : Except Rs.Err Unit :=
  match r with
  | .error e => if ext.err_is_io e && goneKind ext e then .ok () else .error e
  | .ok u => .ok u

def deleteArm (ext : Ext W) (task : SyncTask) (transferrer : Rs.Opaque) (stats : SyncStats) (dry json : Bool) :
    Rs.M W (Except Rs.Err Unit × SyncStats) := do
  let pre ← deletePre ext task dry stats
  let r ← Rs.capture (ext.transferrer_delete transferrer task.dest_path pre.1)
  match goneRule ext r with
  | .ok _ => do
    emitIf ext json (SyncEvent.Delete task.dest_path)
    pure (.ok (), { pre.2 with files_deleted := pre.2.files_deleted + 1 })
  | .error e => pure (.error e, pushErr pre.2 task.dest_path e "delete".toList)

/-- THE STRUCTURED PROGRAM -/
def taskSpec (ext : Ext W) (task : SyncTask) (transferrer verifier : Rs.Opaque) (stats : SyncStats)
    (dry json : Bool) (mode : ChecksumType) (limiter : Option Rs.Opaque) : Rs.M W (Except Rs.Err Unit × SyncStats) :=
  match task.action with
  | .Create =>
    match task.source with
    | some source =>
      xferArm (ext.transferrer_create transferrer source task.dest_path)
        (createOk ext task source verifier stats dry json mode limiter) stats task.dest_path "create".toList
    | none => pure (.ok (), stats)
  | .Update =>
    match task.source with
    | some source =>
      xferArm (ext.transferrer_update transferrer source task.dest_path)
        (updateOk ext task source verifier stats dry json mode limiter) stats task.dest_path "update".toList
    | none => pure (.ok (), stats)
  | .Skip => skipArm ext task stats json
  | .Delete => deleteArm ext task transferrer stats dry json

/-! ## 2. the generated function is the structured program (the ONLY place where the generated body is unfolded) -/

theorem emit_jp (ext : Ext W) (json : Bool) (ev : SyncEvent) {β : Type} (k : Rs.M W β) :
    (if json = true then (ext.emit ev >>= fun _ => k) else k) = (emitIf ext json ev >>= fun _ => k) := by
  cases json <;> simp [emitIf]

theorem create_arm (ext : Ext W) (task : SyncTask) (transferrer verifier : Rs.Opaque) (stats : SyncStats)
    (dry json : Bool) (mode : ChecksumType) (limiter pm : Option Rs.Opaque) (source : FileEntry)
    (ha : task.action = .Create) (hs : task.source = some source) :
    run_task ext task transferrer verifier stats dry json mode limiter pm =
      xferArm (ext.transferrer_create transferrer source task.dest_path)
        (createOk ext task source verifier stats dry json mode limiter) stats task.dest_path "create".toList := by
  unfold run_task xferArm
  simp (config := {zeta := false}) only [ha, hs]
  extract_lets st0 jp0 sp dp
  refine bind_congr fun r => ?_
  cases r with
  | error e => rfl
  | ok r =>
    simp (config := {zeta := false}) only []
    extract_lets bw st1 st2 jp1 jp2 jp3 stD jp4
    have hbw : bw = bytesOf r := by cases r <;> rfl
    have h1 : ∀ st, jp1 () st = (emitIf ext json (createEvent task source r) >>= fun _ => pure (.ok (), st)) := by
      intro st
      simp only [jp1, jp0, emitIf, createEvent, hbw]
      cases json <;> simp
    have h2 : ∀ st, jp2 () st =
        bookOk ext limiter verifier mode dry json source task.dest_path r st (createEvent task source r) := by
      intro st
      simp (config := {zeta := false}) only [jp2]
      extract_lets sV sF K
      have hK : K () = (verifyPhase ext verifier mode dry source task.dest_path r st >>= fun st =>
          emitIf ext json (createEvent task source r) >>= fun _ => pure (Except.ok (), st)) := by
        simp only [K, h1, verifyPhase, wantsVerify, sp, dp, sV, sF, Rs.is_some]
        by_cases hc : (mode != ChecksumType.None && !dry && !source.is_dir && r.isSome) = true
        case neg => simp only [hc, Bool.false_eq_true, if_false, pure_bind]
        case pos =>
          simp only [hc, if_true, bind_assoc]
          refine bind_congr fun v => ?_
          rcases v with e | (_ | _) <;> simp [verifyStats]
      unfold bookOk throttle
      rw [← hbw]
      cases limiter with
      | none => simp [hK]
      | some l =>
        simp only [gt_iff_lt, decide_eq_true_eq]
        split
        · simp only [bind_assoc]
          refine bind_congr fun d => ?_
          split <;> simp [hK]
        · simp [hK]
    have h3 : ∀ st, jp3 () st = bookOk ext limiter verifier mode dry json source task.dest_path r
        (compressionPart r st) (createEvent task source r) := by
      intro st
      simp only [jp3, h2, compressionPart]
      rcases r with _ | ⟨bwr, dops, lit, tb, cu⟩
      · rfl
      · cases cu <;> cases tb <;> rfl
    have h4 : jp4 () = createOk ext task source verifier stats dry json mode limiter r := by
      simp only [jp4, h3, createOk, createCount, stD, st2, st1, st0, hbw]
      split <;> rfl
    cases pm with
    | none => exact h4
    | some m => simp only []; split <;> exact h4

theorem update_arm (ext : Ext W) (task : SyncTask) (transferrer verifier : Rs.Opaque) (stats : SyncStats)
    (dry json : Bool) (mode : ChecksumType) (limiter pm : Option Rs.Opaque) (source : FileEntry)
    (ha : task.action = .Update) (hs : task.source = some source) :
    run_task ext task transferrer verifier stats dry json mode limiter pm =
      xferArm (ext.transferrer_update transferrer source task.dest_path)
        (updateOk ext task source verifier stats dry json mode limiter) stats task.dest_path "update".toList := by
  unfold run_task xferArm
  simp (config := {zeta := false}) only [ha, hs]
  extract_lets st0 jp0 sp dp
  refine bind_congr fun r => ?_
  cases r with
  | error e => rfl
  | ok r =>
    simp (config := {zeta := false}) only []
    extract_lets bw du jp1 jp2 jp3
    have hbw : bw = bytesOf r := by cases r <;> rfl
    have hdu : du = (r.map TransferResult.used_delta).getD false := by cases r <;> rfl
    have h1 : ∀ st, jp1 () st = (emitIf ext json (updateEvent task source r) >>= fun _ => pure (.ok (), st)) := by
      intro st
      simp only [jp1, jp0, emitIf, updateEvent, hbw, hdu]
      cases json <;> simp
    have h2 : ∀ st, jp2 () st =
        bookOk ext limiter verifier mode dry json source task.dest_path r st (updateEvent task source r) := by
      intro st
      simp (config := {zeta := false}) only [jp2]
      extract_lets sV sF K
      have hK : K () = (verifyPhase ext verifier mode dry source task.dest_path r st >>= fun st =>
          emitIf ext json (updateEvent task source r) >>= fun _ => pure (Except.ok (), st)) := by
        simp only [K, h1, verifyPhase, wantsVerify, sp, dp, sV, sF, Rs.is_some]
        by_cases hc : (mode != ChecksumType.None && !dry && !source.is_dir && r.isSome) = true
        case neg => simp only [hc, Bool.false_eq_true, if_false, pure_bind]
        case pos =>
          simp only [hc, if_true, bind_assoc]
          refine bind_congr fun v => ?_
          rcases v with e | (_ | _) <;> simp [verifyStats]
      unfold bookOk throttle
      rw [← hbw]
      cases limiter with
      | none => simp [hK]
      | some l =>
        simp only [gt_iff_lt, decide_eq_true_eq]
        split
        · simp only [bind_assoc]
          refine bind_congr fun d => ?_
          split <;> simp [hK]
        · simp [hK]
    have h3 : ∀ st, jp3 () st = bookOk ext limiter verifier mode dry json source task.dest_path r
        (let st := { st with files_updated := st.files_updated + 1 }
         if dry && !source.is_dir then { st with bytes_would_change := st.bytes_would_change + source.size } else st)
        (updateEvent task source r) := by
      intro st
      simp (config := {zeta := false}) only [jp3]
      extract_lets stU stC K
      have hK : K () = bookOk ext limiter verifier mode dry json source task.dest_path r
          (if dry && !source.is_dir then { stU with bytes_would_change := stU.bytes_would_change + source.size } else stU)
          (updateEvent task source r) := by
        simp only [K, h2, stC]
        split <;> rfl
      cases pm with
      | none => exact hK
      | some m => simp only []; split <;> exact hK
    rcases r with _ | ⟨bwr, dops, lit, tb, cu⟩
    · simp only [h3, updateOk, updateCount, st0]
    · simp only [h3, updateOk, updateCount, st0, compressionPart, deltaPart, TransferResult.used_delta, Rs.is_some,
        TransferResult.compression_ratio]
      cases dops <;> cases lit <;> cases cu <;> cases tb <;>
        simp only [Option.isSome, Bool.false_eq_true, if_true, if_false] <;> first | rfl | (split <;> rfl)

theorem skip_arm (ext : Ext W) (task : SyncTask) (transferrer verifier : Rs.Opaque) (stats : SyncStats)
    (dry json : Bool) (mode : ChecksumType) (limiter pm : Option Rs.Opaque) (ha : task.action = .Skip) :
    run_task ext task transferrer verifier stats dry json mode limiter pm = skipArm ext task stats json := by
  unfold run_task skipArm emitIf
  simp only [ha]
  cases json
  · simp
  · simp; rfl

theorem delete_arm (ext : Ext W) (task : SyncTask) (transferrer verifier : Rs.Opaque) (stats : SyncStats)
    (dry json : Bool) (mode : ChecksumType) (limiter pm : Option Rs.Opaque) (ha : task.action = .Delete) :
    run_task ext task transferrer verifier stats dry json mode limiter pm =
      deleteArm ext task transferrer stats dry json := by
  unfold deleteArm deletePre
  rw [bind_assoc]
  unfold run_task
  simp (config := {zeta := false}) only [ha]
  extract_lets st0 jp0
  refine bind_congr fun isDir => ?_
  extract_lets isd jpD
  have hD : ∀ st, jpD () st = (do
      let r ← Rs.capture (ext.transferrer_delete transferrer task.dest_path isDir)
      match goneRule ext r with
      | .ok _ => do
        emitIf ext json (SyncEvent.Delete task.dest_path)
        pure (.ok (), { st with files_deleted := st.files_deleted + 1 })
      | .error e => pure (.error e, pushErr st task.dest_path e "delete".toList)) := by
    intro st
    simp (config := {zeta := false}) only [jpD, isd]
    refine bind_congr fun r => ?_
    extract_lets scr stD jpa jpb jpR oth
    have hR : ∀ x, jpR x = (match x with
        | .ok _ => do
          emitIf ext json (SyncEvent.Delete task.dest_path)
          pure (.ok (), { st with files_deleted := st.files_deleted + 1 })
        | .error e => pure (.error e, pushErr st task.dest_path e "delete".toList)) := by
      intro x
      cases x with
      | error e => rfl
      | ok u =>
        simp only [jpR, jpb, jpa, jp0, emitIf, stD]
        cases pm <;> cases json <;> simp
    rcases r with e | u
    · simp only [scr, oth, goneRule, goneKind, hR, pure_bind]
      split <;> rename_i hh <;> simp only [hh, if_true, if_false, ↓reduceIte] <;> simp
    · simp only [scr, goneRule, hR, pure_bind]
  by_cases hc : (dry && !isDir) = true
  case neg =>
    simp only [isd, hc, Bool.false_eq_true, if_false, pure_bind, hD, st0] <;> rfl
  case pos =>
    simp only [isd, hc, if_true, bind_assoc]
    refine bind_congr fun md => ?_
    rcases md with e | md
    · simp only [hD, st0, pure_bind] <;> rfl
    · simp only [hD, st0, pure_bind] <;> rfl

/-- NORMAL FORM: for ANY `Ext`, the generated `run_task` is the structured program `taskSpec` -/
theorem run_task_eq_taskSpec (ext : Ext W) (task : SyncTask) (transferrer verifier : Rs.Opaque) (stats : SyncStats)
    (dry json : Bool) (mode : ChecksumType) (limiter pm : Option Rs.Opaque) :
    run_task ext task transferrer verifier stats dry json mode limiter pm =
      taskSpec ext task transferrer verifier stats dry json mode limiter := by
  unfold taskSpec
  cases ha : task.action with
  | Create =>
    cases hs : task.source with
    | some source => exact create_arm ext task transferrer verifier stats dry json mode limiter pm source ha hs
    | none => unfold run_task; simp only [ha, hs]; rfl
  | Update =>
    cases hs : task.source with
    | some source => exact update_arm ext task transferrer verifier stats dry json mode limiter pm source ha hs
    | none => unfold run_task; simp only [ha, hs]; rfl
  | Skip => exact skip_arm ext task transferrer verifier stats dry json mode limiter pm ha
  | Delete => exact delete_arm ext task transferrer verifier stats dry json mode limiter pm ha

/-! ## 3. running the structured program -/

theorem runM_capture {α : Type} (x : Rs.M W α) (w : W) :
    runM (Rs.capture x) w = (.ok (runM x w).1, (runM x w).2) := rfl

theorem runM_bind_eq_ok {α β : Type} {x : Rs.M W α} {f : α → Rs.M W β} {w wf : W} {b : β}
    (h : runM (x >>= f) w = (.ok b, wf)) : ∃ a w', runM x w = (.ok a, w') ∧ runM (f a) w' = (.ok b, wf) := by
  rw [runM_bind] at h
  rcases hx : runM x w with ⟨_ | a, w'⟩ <;> rw [hx] at h
  · cases h
  · exact ⟨a, w', rfl, h⟩

/-- the verification phase never fails: the `Result` of `verify_transfer` is kept as a value -/
theorem verifyPhase_run (ext : Ext W) (verifier : Rs.Opaque) (mode : ChecksumType) (dry : Bool) (source : FileEntry)
    (dest : Rs.Path) (r : Option TransferResult) (st : SyncStats) (w : W) :
    runM (verifyPhase ext verifier mode dry source dest r st) w =
      if wantsVerify mode dry source r = true then
        (.ok (verifyStats st (runM (ext.verify_transfer verifier source.path dest) w).1),
          (runM (ext.verify_transfer verifier source.path dest) w).2)
      else (.ok st, w) := by
  unfold verifyPhase
  split
  · rw [runM_bind, runM_capture]; rfl
  · rfl

theorem emitIf_run (ext : Ext W) (json : Bool) (ev : SyncEvent) (w : W) :
    runM (emitIf ext json ev) w = if json = true then runM (ext.emit ev) w else (.ok (), w) := by
  unfold emitIf; split <;> rfl

theorem xferArm_run (call : Rs.M W (Option TransferResult))
    (onOk : Option TransferResult → Rs.M W (Except Rs.Err Unit × SyncStats)) (stats : SyncStats) (dest : Rs.Path)
    (action : Rs.Str) (w : W) :
    runM (xferArm call onOk stats dest action) w =
      match runM call w with
      | (.ok r, w1) => runM (onOk r) w1
      | (.error e, w1) => (.ok (.error e, pushErr stats dest e action), w1) := by
  unfold xferArm
  rw [runM_bind, runM_capture]
  rcases runM call w with ⟨e | r, w1⟩ <;> rfl

/-! ### the task as a relation between the world before and (result, stats, world) after -/

def actionName : SyncAction → Rs.Str
  | .Create => "create".toList
  | .Update => "update".toList
  | .Skip => "skip".toList
  | .Delete => "delete".toList

/-- the executor a Create/Update task calls -/
def xferCall (ext : Ext W) (task : SyncTask) (transferrer : Rs.Opaque) (source : FileEntry) :
    Rs.M W (Option TransferResult) :=
  match task.action with
  | .Update => ext.transferrer_update transferrer source task.dest_path
  | _ => ext.transferrer_create transferrer source task.dest_path

/-- the counters after a successful Create/Update, before the verification accounting -/
def countOf (a : SyncAction) (dry : Bool) (source : FileEntry) (r : Option TransferResult) (st : SyncStats) :
    SyncStats :=
  match a with
  | .Update => updateCount dry source r st
  | _ => createCount dry source r st

/-- the event of a successful Create/Update -/
def ownEvent (task : SyncTask) (source : FileEntry) (r : Option TransferResult) : SyncEvent :=
  match task.action with
  | .Update => updateEvent task source r
  | _ => createEvent task source r

def skipEvent (task : SyncTask) : SyncEvent := SyncEvent.Skip task.dest_path "up_to_date".toList
def deleteEvent (task : SyncTask) : SyncEvent := SyncEvent.Delete task.dest_path

/-- BIG-STEP DESCRIPTION of one task: every way `run_task` can answer `(result, stats')` from the world `w`, in terms
    of what the operations of `ext` answered -/
inductive Ran (ext : Ext W) (task : SyncTask) (transferrer verifier : Rs.Opaque) (stats : SyncStats)
    (dry json : Bool) (mode : ChecksumType) (limiter : Option Rs.Opaque) (w : W) :
    Except Rs.Err Unit → SyncStats → W → Prop
  /-- a Create/Update task without source entry: nothing is called, nothing is counted -/
  | noSource (ha : task.action = .Create ∨ task.action = .Update) (hs : task.source = none) :
      Ran ext task transferrer verifier stats dry json mode limiter w (.ok ()) stats w
  /-- the executor failed: ONE error record, no counter, no event, nothing else is called -/
  | xferErr (ha : task.action = .Create ∨ task.action = .Update) (source : FileEntry) (hs : task.source = some source)
      (e : Rs.Err) (w1 : W) (hx : runM (xferCall ext task transferrer source) w = (.error e, w1)) :
      Ran ext task transferrer verifier stats dry json mode limiter w (.error e)
        (pushErr stats task.dest_path e (actionName task.action)) w1
  /-- the executor succeeded: counters, rate limiter, verification accounting, event -/
  | xferOk (ha : task.action = .Create ∨ task.action = .Update) (source : FileEntry) (hs : task.source = some source)
      (r : Option TransferResult) (w1 w2 w' : W)
      (hx : runM (xferCall ext task transferrer source) w = (.ok r, w1))
      (ht : runM (throttle ext limiter (bytesOf r)) w1 = (.ok (), w2))
      (he : runM (emitIf ext json (ownEvent task source r))
        (runM (verifyPhase ext verifier mode dry source task.dest_path r (countOf task.action dry source r stats)) w2).2
          = (.ok (), w')) :
      Ran ext task transferrer verifier stats dry json mode limiter w (.ok ())
        (if wantsVerify mode dry source r = true then
           verifyStats (countOf task.action dry source r stats)
             (runM (ext.verify_transfer verifier source.path task.dest_path) w2).1
         else countOf task.action dry source r stats) w'
  | skip (ha : task.action = .Skip) (w' : W) (he : runM (emitIf ext json (skipEvent task)) w = (.ok (), w')) :
      Ran ext task transferrer verifier stats dry json mode limiter w (.ok ())
        { stats with files_skipped := stats.files_skipped + 1 } w'
  /-- the deletion succeeded, or failed with an `Io` error of kind `NotFound` -/
  | delOk (ha : task.action = .Delete) (isDir : Bool) (st1 : SyncStats) (w1 w2 w' : W) (dres : Except Rs.Err Unit)
      (hp : runM (deletePre ext task dry stats) w = (.ok (isDir, st1), w1))
      (hd : runM (ext.transferrer_delete transferrer task.dest_path isDir) w1 = (dres, w2))
      (hg : goneRule ext dres = .ok ())
      (he : runM (emitIf ext json (deleteEvent task)) w2 = (.ok (), w')) :
      Ran ext task transferrer verifier stats dry json mode limiter w (.ok ())
        { st1 with files_deleted := st1.files_deleted + 1 } w'
  | delErr (ha : task.action = .Delete) (isDir : Bool) (st1 : SyncStats) (w1 w2 : W) (dres : Except Rs.Err Unit)
      (e : Rs.Err)
      (hp : runM (deletePre ext task dry stats) w = (.ok (isDir, st1), w1))
      (hd : runM (ext.transferrer_delete transferrer task.dest_path isDir) w1 = (dres, w2))
      (hg : goneRule ext dres = .error e) :
      Ran ext task transferrer verifier stats dry json mode limiter w (.error e)
        (pushErr st1 task.dest_path e (actionName task.action)) w2

theorem bookOk_ok_inv (ext : Ext W) (limiter : Option Rs.Opaque) (verifier : Rs.Opaque) (mode : ChecksumType)
    (dry json : Bool) (source : FileEntry) (dest : Rs.Path) (r : Option TransferResult) (st : SyncStats) (ev : SyncEvent)
    {w w' : W} {res : Except Rs.Err Unit} {st' : SyncStats}
    (h : runM (bookOk ext limiter verifier mode dry json source dest r st ev) w = (.ok (res, st'), w')) :
    ∃ w2, runM (throttle ext limiter (bytesOf r)) w = (.ok (), w2) ∧
      runM (emitIf ext json ev) (runM (verifyPhase ext verifier mode dry source dest r st) w2).2 = (.ok (), w') ∧
      res = .ok () ∧
      st' = if wantsVerify mode dry source r = true then
              verifyStats st (runM (ext.verify_transfer verifier source.path dest) w2).1 else st := by
  unfold bookOk at h
  obtain ⟨_, w2, ht, h⟩ := runM_bind_eq_ok h
  obtain ⟨st2, w3, hv, h⟩ := runM_bind_eq_ok h
  obtain ⟨_, w4, he, h⟩ := runM_bind_eq_ok h
  cases h
  refine ⟨w2, ht, ?_, rfl, ?_⟩
  · rw [hv]; exact he
  · rw [verifyPhase_run] at hv
    split at hv <;> cases hv <;> simp_all

theorem bookOk_run_ok (ext : Ext W) (limiter : Option Rs.Opaque) (verifier : Rs.Opaque) (mode : ChecksumType)
    (dry json : Bool) (source : FileEntry) (dest : Rs.Path) (r : Option TransferResult) (st : SyncStats) (ev : SyncEvent)
    {w w2 w' : W} (ht : runM (throttle ext limiter (bytesOf r)) w = (.ok (), w2))
    (he : runM (emitIf ext json ev) (runM (verifyPhase ext verifier mode dry source dest r st) w2).2 = (.ok (), w')) :
    runM (bookOk ext limiter verifier mode dry json source dest r st ev) w =
      (.ok (.ok (), if wantsVerify mode dry source r = true then
              verifyStats st (runM (ext.verify_transfer verifier source.path dest) w2).1 else st), w') := by
  unfold bookOk
  rw [runM_bind_ok ht]
  have hv : runM (verifyPhase ext verifier mode dry source dest r st) w2 =
      (.ok (if wantsVerify mode dry source r = true then
              verifyStats st (runM (ext.verify_transfer verifier source.path dest) w2).1 else st),
        (runM (verifyPhase ext verifier mode dry source dest r st) w2).2) := by
    rw [verifyPhase_run]; split <;> rfl
  rw [runM_bind_ok hv, runM_bind_ok he]
  rfl

/-- the translated task and the big-step description are the same thing -/
theorem run_task_ran (ext : Ext W) (task : SyncTask) (transferrer verifier : Rs.Opaque) (stats : SyncStats)
    (dry json : Bool) (mode : ChecksumType) (limiter pm : Option Rs.Opaque) (w w' : W) (res : Except Rs.Err Unit)
    (st' : SyncStats) :
    runM (run_task ext task transferrer verifier stats dry json mode limiter pm) w = (.ok (res, st'), w') ↔
      Ran ext task transferrer verifier stats dry json mode limiter w res st' w' := by
  rw [run_task_eq_taskSpec]
  constructor
  · intro h
    unfold taskSpec at h
    cases ha : task.action with
    | Create =>
      rw [ha] at h
      cases hs : task.source with
      | none => rw [hs] at h; cases h; exact .noSource (.inl ha) hs
      | some source =>
        rw [hs] at h
        simp only [] at h
        rw [xferArm_run] at h
        have hcall : xferCall ext task transferrer source = ext.transferrer_create transferrer source task.dest_path := by
          simp only [xferCall, ha]
        rcases hx : runM (ext.transferrer_create transferrer source task.dest_path) w with ⟨e | r, w1⟩ <;> rw [hx] at h
        · have := Ran.xferErr (ext := ext) (task := task) (transferrer := transferrer) (verifier := verifier)
            (stats := stats) (dry := dry) (json := json) (mode := mode) (limiter := limiter) (w := w)
            (.inl ha) source hs e w1 (by rw [hcall]; exact hx)
          rw [ha] at this
          cases h
          exact this
        · obtain ⟨w2, ht, he, rfl, rfl⟩ := bookOk_ok_inv _ _ _ _ _ _ _ _ _ _ _ h
          have := Ran.xferOk (ext := ext) (task := task) (transferrer := transferrer) (verifier := verifier)
            (stats := stats) (dry := dry) (json := json) (mode := mode) (limiter := limiter) (w := w)
            (.inl ha) source hs r w1 w2 w' (by rw [hcall]; exact hx) ht
            (by simp only [ownEvent, countOf, ha]; exact he)
          simp only [countOf, ha] at this; exact this
    | Update =>
      rw [ha] at h
      cases hs : task.source with
      | none => rw [hs] at h; cases h; exact .noSource (.inr ha) hs
      | some source =>
        rw [hs] at h
        simp only [] at h
        rw [xferArm_run] at h
        have hcall : xferCall ext task transferrer source = ext.transferrer_update transferrer source task.dest_path := by
          simp only [xferCall, ha]
        rcases hx : runM (ext.transferrer_update transferrer source task.dest_path) w with ⟨e | r, w1⟩ <;> rw [hx] at h
        · have := Ran.xferErr (ext := ext) (task := task) (transferrer := transferrer) (verifier := verifier)
            (stats := stats) (dry := dry) (json := json) (mode := mode) (limiter := limiter) (w := w)
            (.inr ha) source hs e w1 (by rw [hcall]; exact hx)
          rw [ha] at this
          cases h
          exact this
        · obtain ⟨w2, ht, he, rfl, rfl⟩ := bookOk_ok_inv _ _ _ _ _ _ _ _ _ _ _ h
          have := Ran.xferOk (ext := ext) (task := task) (transferrer := transferrer) (verifier := verifier)
            (stats := stats) (dry := dry) (json := json) (mode := mode) (limiter := limiter) (w := w)
            (.inr ha) source hs r w1 w2 w' (by rw [hcall]; exact hx) ht
            (by simp only [ownEvent, countOf, ha]; exact he)
          simp only [countOf, ha] at this; exact this
    | Skip =>
      rw [ha] at h
      simp only [skipArm] at h
      obtain ⟨_, w1, he, h⟩ := runM_bind_eq_ok h
      cases h
      exact .skip ha _ he
    | Delete =>
      rw [ha] at h
      simp only [deleteArm] at h
      obtain ⟨⟨isDir, st1⟩, w1, hp, h⟩ := runM_bind_eq_ok h
      rw [runM_bind, runM_capture] at h
      simp only [] at h
      cases hg : goneRule ext (runM (ext.transferrer_delete transferrer task.dest_path isDir) w1).1 with
      | ok u =>
        rw [hg] at h
        obtain ⟨_, w3, he, h⟩ := runM_bind_eq_ok h
        cases h
        exact .delOk ha isDir st1 w1 _ _ _ hp rfl hg he
      | error e =>
        rw [hg] at h
        cases h
        have := Ran.delErr (ext := ext) (task := task) (transferrer := transferrer) (verifier := verifier)
          (stats := stats) (dry := dry) (json := json) (mode := mode) (limiter := limiter) (w := w)
          ha isDir st1 w1 _ _ e hp rfl hg
        rw [ha] at this; exact this
  · intro h
    unfold taskSpec
    cases h with
    | noSource ha hs => rcases ha with ha | ha <;> simp only [ha, hs] <;> rfl
    | xferErr ha source hs e w1 hx =>
      rcases ha with ha | ha <;> simp only [ha, hs, xferCall] at hx ⊢ <;> rw [xferArm_run, hx] <;> rfl
    | xferOk ha source hs r w1 w2 w' hx ht he =>
      rcases ha with ha | ha <;> simp only [ha, hs, xferCall, countOf, ownEvent] at hx he ⊢ <;>
        rw [xferArm_run, hx] <;> simp only [createOk, updateOk] <;> exact bookOk_run_ok _ _ _ _ _ _ _ _ _ _ _ ht he
    | skip ha w' he =>
      simp only [ha, skipArm]
      simp only [skipEvent] at he
      rw [runM_bind_ok he]; rfl
    | delOk ha isDir st1 w1 w2 w' dres hp hd hg he =>
      simp only [ha, deleteArm]
      rw [runM_bind_ok hp, runM_bind, runM_capture, hd]
      simp only [hg]
      simp only [deleteEvent] at he
      rw [runM_bind_ok he]; rfl
    | delErr ha isDir st1 w1 w2 dres e hp hd hg =>
      simp only [ha, deleteArm]
      rw [runM_bind_ok hp, runM_bind, runM_capture, hd]
      simp only [hg, actionName]
      rfl


/-! ### the prelude of a deletion -/

/-- `is_dir` is what `Path::is_dir(dest_path)` answered in the world the task started in; the stats are untouched
    except — dry run, not a directory, `metadata` succeeded — `bytes_would_delete` -/
theorem deletePre_inv (ext : Ext W) (task : SyncTask) (dry : Bool) (stats : SyncStats) {w w1 : W} {isDir : Bool}
    {st1 : SyncStats} (h : runM (deletePre ext task dry stats) w = (.ok (isDir, st1), w1)) :
    ∃ w0, runM (ext.path_is_dir task.dest_path) w = (.ok isDir, w0) ∧
      (((dry && !isDir) = false ∧ w1 = w0 ∧ st1 = stats) ∨
       ((dry && !isDir) = true ∧ w1 = (runM (ext.std_fs_metadata task.dest_path) w0).2 ∧
          st1 = match (runM (ext.std_fs_metadata task.dest_path) w0).1 with
            | .ok md => { stats with bytes_would_delete := stats.bytes_would_delete + md.size }
            | .error _ => stats)) := by
  unfold deletePre at h
  obtain ⟨b, w0, hb, h⟩ := runM_bind_eq_ok h
  cases hc : (dry && !b)
  · simp only [hc, Bool.false_eq_true, if_false] at h
    cases h
    exact ⟨_, hb, .inl ⟨hc, rfl, rfl⟩⟩
  · simp only [hc, if_true] at h
    rw [runM_bind, runM_capture] at h
    simp only [] at h
    rcases hm : (runM (ext.std_fs_metadata task.dest_path) w0).1 with e | md <;> rw [hm] at h <;> cases h
    · exact ⟨w0, hb, .inr ⟨hc, rfl, by rw [hm]⟩⟩
    · exact ⟨w0, hb, .inr ⟨hc, rfl, by rw [hm]⟩⟩

theorem deletePre_stats (ext : Ext W) (task : SyncTask) (dry : Bool) (stats : SyncStats) {w w1 : W} {isDir : Bool}
    {st1 : SyncStats} (h : runM (deletePre ext task dry stats) w = (.ok (isDir, st1), w1)) :
    ∃ n, st1 = { stats with bytes_would_delete := n } := by
  obtain ⟨w0, _, h | h⟩ := deletePre_inv ext task dry stats h
  · exact ⟨stats.bytes_would_delete, h.2.2⟩
  · rcases hm : (runM (ext.std_fs_metadata task.dest_path) w0).1 with e | md
    · exact ⟨stats.bytes_would_delete, by rw [h.2.2, hm]⟩
    · exact ⟨_, by rw [h.2.2, hm]⟩

/-- the rule, read as a proposition -/
theorem goneRule_ok_iff (ext : Ext W) (dres : Except Rs.Err Unit) :
    goneRule ext dres = .ok () ↔
      dres = .ok () ∨ ∃ e, dres = .error e ∧ ext.err_is_io e = true ∧ goneKind ext e = true := by
  rcases dres with e | u
  · simp only [goneRule]
    by_cases hc : (ext.err_is_io e && goneKind ext e) = true
    · simp only [hc, if_true, true_iff]
      simp only [Bool.and_eq_true] at hc
      exact .inr ⟨e, rfl, hc.1, hc.2⟩
    · simp only [hc]
      constructor
      · intro h; cases h
      · rintro (h | ⟨e', h, h1, h2⟩)
        · cases h
        · cases h
          exact absurd (by simp [h1, h2]) hc
  · simp [goneRule]

theorem goneRule_error (ext : Ext W) (dres : Except Rs.Err Unit) (e : Rs.Err) (h : goneRule ext dres = .error e) :
    dres = .error e ∧ ¬ (ext.err_is_io e = true ∧ goneKind ext e = true) := by
  rcases dres with e' | u
  · simp only [goneRule] at h
    split at h
    · cases h
    · rename_i hc
      cases h
      refine ⟨rfl, fun hh => hc ?_⟩
      simp [hh.1, hh.2]
  · cases h

/-! ## 4. what the pure bookkeeping functions do to each field -/
section fields
variable (dry : Bool) (source : FileEntry) (r : Option TransferResult) (st : SyncStats)
local macro "fields_tac" : tactic => `(tactic| (first | rfl | (repeat' split) <;> rfl))
@[simp] theorem createCount_files_scanned : (createCount dry source r st).files_scanned = st.files_scanned := by
  unfold createCount compressionPart; fields_tac
@[simp] theorem createCount_files_created : (createCount dry source r st).files_created = st.files_created + 1 := by
  unfold createCount compressionPart; fields_tac
@[simp] theorem createCount_files_updated : (createCount dry source r st).files_updated = st.files_updated := by
  unfold createCount compressionPart; fields_tac
@[simp] theorem createCount_files_skipped : (createCount dry source r st).files_skipped = st.files_skipped := by
  unfold createCount compressionPart; fields_tac
@[simp] theorem createCount_files_deleted : (createCount dry source r st).files_deleted = st.files_deleted := by
  unfold createCount compressionPart; fields_tac
@[simp] theorem createCount_bytes_transferred : (createCount dry source r st).bytes_transferred = st.bytes_transferred + bytesOf r := by
  unfold createCount compressionPart; fields_tac
@[simp] theorem createCount_files_delta_synced : (createCount dry source r st).files_delta_synced = st.files_delta_synced := by
  unfold createCount compressionPart; fields_tac
@[simp] theorem createCount_delta_bytes_saved : (createCount dry source r st).delta_bytes_saved = st.delta_bytes_saved := by
  unfold createCount compressionPart; fields_tac
@[simp] theorem createCount_files_verified : (createCount dry source r st).files_verified = st.files_verified := by
  unfold createCount compressionPart; fields_tac
@[simp] theorem createCount_verification_failures : (createCount dry source r st).verification_failures = st.verification_failures := by
  unfold createCount compressionPart; fields_tac
@[simp] theorem createCount_duration : (createCount dry source r st).duration = st.duration := by
  unfold createCount compressionPart; fields_tac
@[simp] theorem createCount_bytes_would_change : (createCount dry source r st).bytes_would_change = st.bytes_would_change := by
  unfold createCount compressionPart; fields_tac
@[simp] theorem createCount_bytes_would_delete : (createCount dry source r st).bytes_would_delete = st.bytes_would_delete := by
  unfold createCount compressionPart; fields_tac
@[simp] theorem createCount_errors : (createCount dry source r st).errors = st.errors := by
  unfold createCount compressionPart; fields_tac
@[simp] theorem updateCount_files_scanned : (updateCount dry source r st).files_scanned = st.files_scanned := by
  unfold updateCount compressionPart deltaPart; fields_tac
@[simp] theorem updateCount_files_created : (updateCount dry source r st).files_created = st.files_created := by
  unfold updateCount compressionPart deltaPart; fields_tac
@[simp] theorem updateCount_files_updated : (updateCount dry source r st).files_updated = st.files_updated + 1 := by
  unfold updateCount compressionPart deltaPart; fields_tac
@[simp] theorem updateCount_files_skipped : (updateCount dry source r st).files_skipped = st.files_skipped := by
  unfold updateCount compressionPart deltaPart; fields_tac
@[simp] theorem updateCount_files_deleted : (updateCount dry source r st).files_deleted = st.files_deleted := by
  unfold updateCount compressionPart deltaPart; fields_tac
@[simp] theorem updateCount_files_verified : (updateCount dry source r st).files_verified = st.files_verified := by
  unfold updateCount compressionPart deltaPart; fields_tac
@[simp] theorem updateCount_verification_failures : (updateCount dry source r st).verification_failures = st.verification_failures := by
  unfold updateCount compressionPart deltaPart; fields_tac
@[simp] theorem updateCount_duration : (updateCount dry source r st).duration = st.duration := by
  unfold updateCount compressionPart deltaPart; fields_tac
@[simp] theorem updateCount_bytes_would_add : (updateCount dry source r st).bytes_would_add = st.bytes_would_add := by
  unfold updateCount compressionPart deltaPart; fields_tac
@[simp] theorem updateCount_bytes_would_delete : (updateCount dry source r st).bytes_would_delete = st.bytes_would_delete := by
  unfold updateCount compressionPart deltaPart; fields_tac
@[simp] theorem updateCount_errors : (updateCount dry source r st).errors = st.errors := by
  unfold updateCount compressionPart deltaPart; fields_tac
@[simp] theorem updateCount_bytes_transferred : (updateCount dry source r st).bytes_transferred = st.bytes_transferred + bytesOf r := by
  unfold updateCount compressionPart deltaPart bytesOf; fields_tac
variable (v : Except Rs.Err Bool)
@[simp] theorem verifyStats_files_scanned : (verifyStats st v).files_scanned = st.files_scanned := by
  unfold verifyStats; fields_tac
@[simp] theorem verifyStats_files_created : (verifyStats st v).files_created = st.files_created := by
  unfold verifyStats; fields_tac
@[simp] theorem verifyStats_files_updated : (verifyStats st v).files_updated = st.files_updated := by
  unfold verifyStats; fields_tac
@[simp] theorem verifyStats_files_skipped : (verifyStats st v).files_skipped = st.files_skipped := by
  unfold verifyStats; fields_tac
@[simp] theorem verifyStats_files_deleted : (verifyStats st v).files_deleted = st.files_deleted := by
  unfold verifyStats; fields_tac
@[simp] theorem verifyStats_bytes_transferred : (verifyStats st v).bytes_transferred = st.bytes_transferred := by
  unfold verifyStats; fields_tac
@[simp] theorem verifyStats_files_delta_synced : (verifyStats st v).files_delta_synced = st.files_delta_synced := by
  unfold verifyStats; fields_tac
@[simp] theorem verifyStats_delta_bytes_saved : (verifyStats st v).delta_bytes_saved = st.delta_bytes_saved := by
  unfold verifyStats; fields_tac
@[simp] theorem verifyStats_files_compressed : (verifyStats st v).files_compressed = st.files_compressed := by
  unfold verifyStats; fields_tac
@[simp] theorem verifyStats_compression_bytes_saved : (verifyStats st v).compression_bytes_saved = st.compression_bytes_saved := by
  unfold verifyStats; fields_tac
@[simp] theorem verifyStats_duration : (verifyStats st v).duration = st.duration := by
  unfold verifyStats; fields_tac
@[simp] theorem verifyStats_bytes_would_add : (verifyStats st v).bytes_would_add = st.bytes_would_add := by
  unfold verifyStats; fields_tac
@[simp] theorem verifyStats_bytes_would_change : (verifyStats st v).bytes_would_change = st.bytes_would_change := by
  unfold verifyStats; fields_tac
@[simp] theorem verifyStats_bytes_would_delete : (verifyStats st v).bytes_would_delete = st.bytes_would_delete := by
  unfold verifyStats; fields_tac
@[simp] theorem verifyStats_errors : (verifyStats st v).errors = st.errors := by
  unfold verifyStats; fields_tac
theorem verifyStats_verified :
    (verifyStats st v).files_verified = st.files_verified + (if verdictOk v = true then 1 else 0) := by
  rcases v with e | (_ | _) <;> simp [verifyStats, verdictOk]
theorem verifyStats_failures :
    (verifyStats st v).verification_failures = st.verification_failures + (if verdictOk v = true then 0 else 1) := by
  rcases v with e | (_ | _) <;> simp [verifyStats, verdictOk]
variable (dest : Rs.Path) (e : Rs.Err) (action : Rs.Str)
@[simp] theorem pushErr_files_scanned : (pushErr st dest e action).files_scanned = st.files_scanned := by
  unfold pushErr; fields_tac
@[simp] theorem pushErr_files_created : (pushErr st dest e action).files_created = st.files_created := by
  unfold pushErr; fields_tac
@[simp] theorem pushErr_files_updated : (pushErr st dest e action).files_updated = st.files_updated := by
  unfold pushErr; fields_tac
@[simp] theorem pushErr_files_skipped : (pushErr st dest e action).files_skipped = st.files_skipped := by
  unfold pushErr; fields_tac
@[simp] theorem pushErr_files_deleted : (pushErr st dest e action).files_deleted = st.files_deleted := by
  unfold pushErr; fields_tac
@[simp] theorem pushErr_bytes_transferred : (pushErr st dest e action).bytes_transferred = st.bytes_transferred := by
  unfold pushErr; fields_tac
@[simp] theorem pushErr_files_delta_synced : (pushErr st dest e action).files_delta_synced = st.files_delta_synced := by
  unfold pushErr; fields_tac
@[simp] theorem pushErr_delta_bytes_saved : (pushErr st dest e action).delta_bytes_saved = st.delta_bytes_saved := by
  unfold pushErr; fields_tac
@[simp] theorem pushErr_files_compressed : (pushErr st dest e action).files_compressed = st.files_compressed := by
  unfold pushErr; fields_tac
@[simp] theorem pushErr_compression_bytes_saved : (pushErr st dest e action).compression_bytes_saved = st.compression_bytes_saved := by
  unfold pushErr; fields_tac
@[simp] theorem pushErr_files_verified : (pushErr st dest e action).files_verified = st.files_verified := by
  unfold pushErr; fields_tac
@[simp] theorem pushErr_verification_failures : (pushErr st dest e action).verification_failures = st.verification_failures := by
  unfold pushErr; fields_tac
@[simp] theorem pushErr_duration : (pushErr st dest e action).duration = st.duration := by
  unfold pushErr; fields_tac
@[simp] theorem pushErr_bytes_would_add : (pushErr st dest e action).bytes_would_add = st.bytes_would_add := by
  unfold pushErr; fields_tac
@[simp] theorem pushErr_bytes_would_change : (pushErr st dest e action).bytes_would_change = st.bytes_would_change := by
  unfold pushErr; fields_tac
@[simp] theorem pushErr_bytes_would_delete : (pushErr st dest e action).bytes_would_delete = st.bytes_would_delete := by
  unfold pushErr; fields_tac
@[simp] theorem pushErr_errors : (pushErr st dest e action).errors = st.errors ++ [{ path := dest, error := Rs.to_string e, action := action }] := rfl
end fields

end

set_option linter.unusedSimpArgs false
open SyModel SyModel.Engine
open SyModel.Lemmas.GenTransfer

/-! ## 5. the model's instance: the two translated units composed -/

/-- the world of the bridge: the world of Lemmas/GenTransfer (the model's `World` under a root text + what source paths
    resolve to) and the JSON event stream emitted so far -/
structure EWorld where
  xw : XWorld
  log : List SyncEvent

/-- an operation of unit Transfer's world, run on the `xw` component -/
def liftX {α : Type} (x : Rs.M XWorld α) : Rs.M EWorld α :=
  op fun ew => ((runM x ew.xw).1, { ew with xw := (runM x ew.xw).2 })

def toE (e : FileEntry) : Generated.Transfer.FileEntry :=
  { path := e.path, relative_path := e.relative_path, size := e.size, modified := e.modified, is_dir := e.is_dir,
    is_symlink := e.is_symlink, symlink_target := e.symlink_target, is_sparse := e.is_sparse,
    allocated_size := e.allocated_size, xattrs := e.xattrs, inode := e.inode, nlink := e.nlink, acls := e.acls,
    bsd_flags := e.bsd_flags }

def ofR (r : Generated.Transfer.TransferResult) : TransferResult :=
  { bytes_written := r.bytes_written, delta_operations := r.delta_operations, literal_bytes := r.literal_bytes,
    transferred_bytes := r.transferred_bytes, compression_used := r.compression_used }

def modeOf : LinkMode → Generated.Transfer.SymlinkMode
  | .preserve => .Preserve | .follow => .Follow | .skip => .Skip

/-- `Transferrer::new(transport, dry_run, diff_mode, symlink_mode, …, preserve_hardlinks, …)` as the engine builds it
    for every task (src/sync/mod.rs:806-816) -/
def selfOf (cfg : Cfg) : Generated.Transfer.Transferrer :=
  { transport := {}, dry_run := cfg.dryRun, diff_mode := false, symlink_mode := modeOf cfg.links,
    preserve_hardlinks := cfg.hardlinks }

theorem selfOf_agrees (cfg : Cfg) : Agrees (selfOf cfg) cfg :=
  ⟨rfl, rfl, by cases h : cfg.links <;> simp [selfOf, modeOf, absMode, h]⟩

/-- the destination node a path text names -/
def nodeAt (xw : XWorld) (p : Rs.Path) : Option DNode := (keyOf xw.root p).bind fun k => xw.w.dst.get? k

/-- `verify_transfer(source, dest)`: both are regular files with the same content -/
def verifyW (xw : XWorld) (s d : Rs.Path) : Bool :=
  match xw.src s, nodeAt xw d with
  | .file sm, some (.file m) => sm.content == m.content
  | _, _ => false

/-- THE INSTANCE (TRUSTED — the modelling decisions of this bridge):
    * `transferrer_create/update/delete` ARE the translated executors of unit Transfer on `extOf cfg`, with the
      `Transferrer` value the engine builds from its configuration;
    * `path_is_dir`, `std_fs_metadata` read the destination tree; `verify_transfer` compares content ids;
    * `emit` appends to the event stream; the rate limiter never asks for a sleep;
    * errors: every error of `extOf cfg` is `Err.io`; `io_error_kind` is consulted by `run_task` ONLY on an error of
      `transferrer_delete`, and on this instance — whose `is_dir` flag is read from the same tree — that call fails
      only when the entry is absent (`delete_fails_only_absent`): kind `NotFound`. -/
def engineExt (cfg : Cfg) : Ext EWorld where
  err_is_io e := e == .io
  io_error_kind _ := .NotFound
  std_fs_metadata p := op fun ew =>
    (match nodeAt ew.xw p with
      | some (.file m) => .ok ⟨false, m.mtime, m.size⟩
      | some .dir => .ok ⟨true, 0, 0⟩
      | _ => .error .io, ew)
  tokio_time_sleep _ := pure ()
  transferrer_create _ e p :=
    liftX (Generated.Transfer.Transferrer.create (extOf cfg) (selfOf cfg) (toE e) p >>= fun r => pure (r.map ofR))
  transferrer_update _ e p :=
    liftX (Generated.Transfer.Transferrer.update (extOf cfg) (selfOf cfg) (toE e) p >>= fun r => pure (r.map ofR))
  transferrer_delete _ p b := liftX (Generated.Transfer.Transferrer.delete (extOf cfg) (selfOf cfg) p b)
  verify_transfer _ s d := op fun ew => (.ok (verifyW ew.xw s d), ew)
  emit ev := op fun ew => (.ok (), { ew with log := ew.log ++ [ev] })
  limiter_consume _ _ := pure 0
  path_is_dir p := op fun ew => (.ok (nodeAt ew.xw p == some .dir), ew)

/-! ### abstraction: stats + event stream ↦ the model's `Book`, `EWorld` ↦ the model's `World` -/

def absAct : SyncAction → Act
  | .Create => .create | .Update => .update | .Skip => .skip | .Delete => .delete

def actOfName (s : Rs.Str) : Option Act :=
  if s = "create".toList then some .create else if s = "update".toList then some .update
  else if s = "skip".toList then some .skip else if s = "delete".toList then some .delete else none

theorem actOfName_actionName (a : SyncAction) : actOfName (actionName a) = some (absAct a) := by
  cases a <;> decide

/-- a JSON event as the model's (action, key) -/
def evAbs (root : Rs.Path) : SyncEvent → Option (Act × Engine.Path)
  | .Create p _ _ => (keyOf root p).map fun k => (.create, k)
  | .Update p _ _ _ => (keyOf root p).map fun k => (.update, k)
  | .Skip p _ => (keyOf root p).map fun k => (.skip, k)
  | .Delete p => (keyOf root p).map fun k => (.delete, k)
  | _ => none

/-- an error record as the model's (action, key) -/
def errAbs (root : Rs.Path) (e : SyncError) : Option (Act × Engine.Path) :=
  match actOfName e.action, keyOf root e.path with
  | some a, some k => some (a, k)
  | _, _ => none

/-- the model's `Book` (its lists are newest-first) -/
def absBook (root : Rs.Path) (st : SyncStats) (log : List SyncEvent) : Book :=
  { created := st.files_created, updated := st.files_updated, skipped := st.files_skipped, deleted := st.files_deleted,
    events := (log.filterMap (evAbs root)).reverse, errors := (st.errors.filterMap (errAbs root)).reverse }

def absExec (ew : EWorld) (st : SyncStats) : Exec := ⟨ew.xw.w, absBook ew.xw.root st ew.log⟩

/-- the model task a `SyncTask` for the key `k` stands for -/
def absTaskE (cfg : Cfg) (xw : XWorld) (task : SyncTask) (k : Engine.Path) : Task :=
  { act := absAct task.action, rel := k,
    payload := match task.source with | some e => absPayload cfg xw (toE e) | none => .nothing }

/-! ### the operations of the instance, run -/

section ops
variable (cfg : Cfg) (ew : EWorld)

theorem liftX_run {α : Type} (x : Rs.M XWorld α) :
    runM (liftX x) ew = ((runM x ew.xw).1, { ew with xw := (runM x ew.xw).2 }) := rfl

theorem throttle_engine (limiter : Option Rs.Opaque) (n : Nat) :
    runM (throttle (engineExt cfg) limiter n) ew = (.ok (), ew) := by
  unfold throttle
  cases limiter with
  | none => rfl
  | some l =>
    simp only []
    split
    · rfl
    · rfl

theorem verifyPhase_engine (v : Rs.Opaque) (mode : ChecksumType) (dry : Bool) (source : FileEntry) (dest : Rs.Path)
    (r : Option TransferResult) (st : SyncStats) :
    (runM (verifyPhase (engineExt cfg) v mode dry source dest r st) ew).2 = ew := by
  rw [verifyPhase_run]; split <;> rfl

theorem emit_engine (ev : SyncEvent) :
    runM (emitIf (engineExt cfg) true ev) ew = (.ok (), { ew with log := ew.log ++ [ev] }) := rfl

theorem nodeAt_destOf (xw : XWorld) (k : Engine.Path) (hk : CleanPath k) :
    nodeAt xw (destOf xw.root k) = xw.w.dst.get? k := by
  simp [nodeAt, keyOf_destOf xw.root k hk]

end ops

/-! ### the bridge, arm by arm -/

section bridge
variable (cfg : Cfg) (ew : EWorld) (task : SyncTask) (k : Engine.Path) (transferrer verifier : Rs.Opaque)
  (stats : SyncStats) (mode : ChecksumType) (limiter pm : Option Rs.Opaque)

theorem evAbs_own (hk : CleanPath k) (hd : task.dest_path = destOf ew.xw.root k) (source : FileEntry)
    (r : Option TransferResult) (ha : task.action = .Create ∨ task.action = .Update) :
    evAbs ew.xw.root (ownEvent task source r) = some (absAct task.action, k) := by
  rcases ha with ha | ha <;>
    simp [ownEvent, ha, createEvent, updateEvent, evAbs, hd, keyOf_destOf ew.xw.root k hk, absAct]

theorem errAbs_record (hk : CleanPath k) (hd : task.dest_path = destOf ew.xw.root k) (e : Rs.Err) :
    errAbs ew.xw.root { path := task.dest_path, error := Rs.to_string e, action := actionName task.action } =
      some (absAct task.action, k) := by
  simp [errAbs, actOfName_actionName, hd, keyOf_destOf ew.xw.root k hk]

/-- the executor of a Create/Update task on the instance against the model's `perform` -/
theorem xferCall_engine (hk : CleanPath k) (hd : task.dest_path = destOf ew.xw.root k) (e : FileEntry)
    (ha : task.action = .Create ∨ task.action = .Update) (hs : task.source = some e)
    (hread : Readable cfg (toE e)) (hsrc : SrcFile ew.xw (toE e)) (hino : HasInode cfg (toE e)) :
    match perform cfg ew.xw.w (absTaskE cfg ew.xw task k) with
    | some w' => ∃ r, runM (xferCall (engineExt cfg) task transferrer e) ew =
        (.ok r, { ew with xw := { ew.xw with w := w' } })
    | none => ∃ xw', runM (xferCall (engineExt cfg) task transferrer e) ew = (.error .io, { ew with xw := xw' }) ∧
        Left ew.xw xw' k := by
  rcases ha with ha | ha
  · have hag := create_agree cfg (selfOf cfg) (selfOf_agrees cfg) ew.xw (toE e) k hk hread hsrc hino
    have ht : absTaskE cfg ew.xw task k = absTask cfg ew.xw .create (toE e) k := by
      simp [absTaskE, absTask, ha, hs, absAct]
    have hc : xferCall (engineExt cfg) task transferrer e =
        liftX (Generated.Transfer.Transferrer.create (extOf cfg) (selfOf cfg) (toE e) (destOf ew.xw.root k) >>=
          fun r => pure (r.map ofR)) := by
      simp only [xferCall, ha, hd]; rfl
    rw [ht, hc, liftX_run, runM_bind]
    cases hp : perform cfg ew.xw.w (absTask cfg ew.xw .create (toE e) k) with
    | some w' =>
      rw [hp] at hag
      obtain ⟨r, hr⟩ := hag
      rw [hr]
      exact ⟨r.map ofR, rfl⟩
    | none =>
      rw [hp] at hag
      obtain ⟨xw', hr, hl⟩ := hag
      rw [hr]
      exact ⟨xw', rfl, hl⟩
  · have hag := update_agree cfg (selfOf cfg) (selfOf_agrees cfg) ew.xw (toE e) k hk hread hsrc hino
    have ht : absTaskE cfg ew.xw task k = absTask cfg ew.xw .update (toE e) k := by
      simp [absTaskE, absTask, ha, hs, absAct]
    have hc : xferCall (engineExt cfg) task transferrer e =
        liftX (Generated.Transfer.Transferrer.update (extOf cfg) (selfOf cfg) (toE e) (destOf ew.xw.root k) >>=
          fun r => pure (r.map ofR)) := by
      simp only [xferCall, ha, hd]; rfl
    rw [ht, hc, liftX_run, runM_bind]
    cases hp : perform cfg ew.xw.w (absTask cfg ew.xw .update (toE e) k) with
    | some w' =>
      rw [hp] at hag
      obtain ⟨r, hr⟩ := hag
      rw [hr]
      exact ⟨r.map ofR, rfl⟩
    | none =>
      rw [hp] at hag
      obtain ⟨xw', hr, hl⟩ := hag
      rw [hr]
      exact ⟨xw', rfl, hl⟩

theorem execTask_noFaults (st : Exec) (t : Task) :
    execTask cfg noFaults st t =
      match perform cfg st.w t with
      | some w' => ⟨w', st.b.ok t⟩
      | none => ⟨st.w, st.b.fail t⟩ := by
  unfold execTask noFaults
  simp only [ite_self]
  rfl

/-- BRIDGE, Create/Update: `run_task` on the instance answers; the abstraction of (stats', event stream') is the
    `Book` of the model's `execTask` in EVERY case; on `Ok` the world is the model's world; on `Err` the model's world is
    unchanged and the instance's differs from it at most as `Left` says (parents of `k` created, or the replaced link
    removed); `Ok` exactly when `perform` succeeds. -/
theorem xfer_eq_execTask (hk : CleanPath k) (hd : task.dest_path = destOf ew.xw.root k) (e : FileEntry)
    (ha : task.action = .Create ∨ task.action = .Update) (hs : task.source = some e)
    (hread : Readable cfg (toE e)) (hsrc : SrcFile ew.xw (toE e)) (hino : HasInode cfg (toE e)) :
    ∃ res st' ew',
      runM (run_task (engineExt cfg) task transferrer verifier stats cfg.dryRun true mode limiter pm) ew =
        (.ok (res, st'), ew') ∧
      ew'.xw.root = ew.xw.root ∧
      absBook ew'.xw.root st' ew'.log = (execTask cfg noFaults (absExec ew stats) (absTaskE cfg ew.xw task k)).b ∧
      (∀ u, res = .ok u → ew'.xw.w = (execTask cfg noFaults (absExec ew stats) (absTaskE cfg ew.xw task k)).w ∧
        (perform cfg ew.xw.w (absTaskE cfg ew.xw task k)).isSome = true) ∧
      (∀ er, res = .error er → (execTask cfg noFaults (absExec ew stats) (absTaskE cfg ew.xw task k)).w = ew.xw.w ∧
        Left ew.xw ew'.xw k ∧ perform cfg ew.xw.w (absTaskE cfg ew.xw task k) = none) := by
  have hx := xferCall_engine cfg ew task k transferrer hk hd e ha hs hread hsrc hino
  have hw0 : (absExec ew stats).w = ew.xw.w := rfl
  have hact : (absTaskE cfg ew.xw task k).act = absAct task.action := rfl
  have hrel : (absTaskE cfg ew.xw task k).rel = k := rfl
  cases hp : perform cfg ew.xw.w (absTaskE cfg ew.xw task k) with
  | some w' =>
    rw [hp] at hx
    simp only [execTask_noFaults, hw0, hp]
    obtain ⟨r, hr⟩ := hx
    have hran := Ran.xferOk (ext := engineExt cfg) (task := task) (transferrer := transferrer) (verifier := verifier)
      (stats := stats) (dry := cfg.dryRun) (json := true) (mode := mode) (limiter := limiter) (w := ew)
      ha e hs r _ _ _ hr (throttle_engine cfg _ limiter _)
      (by rw [verifyPhase_engine]; exact emit_engine cfg _ _)
    refine ⟨_, _, _, (run_task_ran _ _ _ _ _ _ _ _ _ pm _ _ _ _).2 hran, rfl, ?_, fun _ _ => ⟨rfl, rfl⟩,
      fun er h => by cases h⟩
    simp only [absExec, absBook, List.filterMap_append, List.filterMap_cons, List.filterMap_nil,
      evAbs_own ew task k hk hd e r ha, List.reverse_append, List.reverse_cons, List.reverse_nil, List.nil_append,
      List.singleton_append, Book.ok, hact, hrel]
    rcases ha with ha | ha <;> split <;> simp [ha, countOf, absAct]
  | none =>
    rw [hp] at hx
    simp only [execTask_noFaults, hw0, hp]
    obtain ⟨xw', hr, hl⟩ := hx
    have hran := Ran.xferErr (ext := engineExt cfg) (task := task) (transferrer := transferrer) (verifier := verifier)
      (stats := stats) (dry := cfg.dryRun) (json := true) (mode := mode) (limiter := limiter) (w := ew)
      ha e hs _ _ hr
    have hroot : xw'.root = ew.xw.root := by
      rcases hl with rfl | ⟨d, _, rfl⟩ | ⟨s, _, rfl⟩ <;> rfl
    refine ⟨_, _, _, (run_task_ran _ _ _ _ _ _ _ _ _ pm _ _ _ _).2 hran, hroot, ?_, fun u h => (by cases h),
      fun _ _ => ⟨trivial, hl, trivial⟩⟩
    simp only [absExec, absBook, hroot, pushErr_errors, List.filterMap_append, List.filterMap_cons, List.filterMap_nil,
      errAbs_record ew task k hk hd, List.reverse_append, List.reverse_cons, List.reverse_nil, List.nil_append,
      List.singleton_append, Book.fail, hact, hrel]
    simp

theorem evAbs_skip (hk : CleanPath k) (hd : task.dest_path = destOf ew.xw.root k) :
    evAbs ew.xw.root (skipEvent task) = some (.skip, k) := by
  simp [skipEvent, evAbs, hd, keyOf_destOf ew.xw.root k hk]

theorem evAbs_delete (hk : CleanPath k) (hd : task.dest_path = destOf ew.xw.root k) :
    evAbs ew.xw.root (deleteEvent task) = some (.delete, k) := by
  simp [deleteEvent, evAbs, hd, keyOf_destOf ew.xw.root k hk]

/-- BRIDGE, Skip: exactly the model's `execTask` (world untouched, `skipped` + 1, one `skip` event). -/
theorem skip_eq_execTask (hk : CleanPath k) (hd : task.dest_path = destOf ew.xw.root k) (ha : task.action = .Skip)
    (dry : Bool) :
    ∃ st' ew',
      runM (run_task (engineExt cfg) task transferrer verifier stats dry true mode limiter pm) ew =
        (.ok (.ok (), st'), ew') ∧
      absExec ew' st' = execTask cfg noFaults (absExec ew stats) (absTaskE cfg ew.xw task k) := by
  have hran := Ran.skip (ext := engineExt cfg) (task := task) (transferrer := transferrer) (verifier := verifier)
    (stats := stats) (dry := dry) (json := true) (mode := mode) (limiter := limiter) (w := ew) ha _
    (emit_engine cfg ew _)
  refine ⟨_, _, (run_task_ran _ _ _ _ _ _ _ _ _ pm _ _ _ _).2 hran, ?_⟩
  have hperf : perform cfg (absExec ew stats).w (absTaskE cfg ew.xw task k) = some ew.xw.w := by
    simp [perform, absTaskE, ha, absAct, absExec]
  simp only [execTask_noFaults, hperf]
  simp [absExec, absBook, evAbs_skip ew task k hk hd, Book.ok, absTaskE, ha, absAct]

/-- the prelude of a deletion on the instance: the flag is "the node at the path is a directory", the world is
    untouched, the stats change in `bytes_would_delete` at most -/
theorem deletePre_engine (dry : Bool) :
    ∃ n, runM (deletePre (engineExt cfg) task dry stats) ew =
      (.ok (nodeAt ew.xw task.dest_path == some .dir, { stats with bytes_would_delete := n }), ew) := by
  have h1 : runM ((engineExt cfg).path_is_dir task.dest_path) ew =
      (.ok (nodeAt ew.xw task.dest_path == some .dir), ew) := rfl
  have h2 : runM ((engineExt cfg).std_fs_metadata task.dest_path) ew =
      ((match nodeAt ew.xw task.dest_path with
        | some (.file m) => (.ok ⟨false, m.mtime, m.size⟩ : Except Rs.Err Rs.Metadata)
        | some .dir => .ok ⟨true, 0, 0⟩
        | _ => .error .io), ew) := rfl
  unfold deletePre
  rw [runM_bind, h1]
  simp only []
  by_cases hc : (dry && !(nodeAt ew.xw task.dest_path == some .dir)) = true
  · simp only [hc, if_true]
    rw [runM_bind, runM_capture, h2]
    rcases nodeAt ew.xw task.dest_path with _ | (m | _ | t)
    · exact ⟨stats.bytes_would_delete, rfl⟩
    · exact ⟨_, rfl⟩
    · exact ⟨_, rfl⟩
    · exact ⟨stats.bytes_would_delete, rfl⟩
  · simp only [hc, if_false]
    exact ⟨stats.bytes_would_delete, rfl⟩

/-- `Transferrer::delete` of unit Transfer on the instance -/
theorem delete_engine_run (hk : CleanPath k) (isDir : Bool) :
    runM ((engineExt cfg).transferrer_delete transferrer (destOf ew.xw.root k) isDir) ew =
      if cfg.dryRun = true then (.ok (), ew)
      else match removeW ew.xw.w k isDir with
        | some w' => (.ok (), { ew with xw := { ew.xw with w := w' } })
        | none => (.error .io, ew) := by
  show runM (liftX _) ew = _
  rw [liftX_run, delete_run cfg (selfOf cfg) ew.xw k hk isDir]
  have hdr : (selfOf cfg).dry_run = cfg.dryRun := rfl
  rw [hdr]
  cases cfg.dryRun
  · simp only [Bool.false_eq_true, if_false]
    cases removeW ew.xw.w k isDir <;> rfl
  · rfl

/-- on the instance the deletion executor fails ONLY when the entry is absent — the one error the instance calls
    `NotFound` -/
theorem delete_fails_only_absent (w : World) (k : Engine.Path) :
    removeW w k (w.dst.get? k == some .dir) = none ↔ w.dst.get? k = none := by
  unfold removeW
  rcases w.dst.get? k with _ | (m | _ | t) <;> simp

/-- BRIDGE, Delete: exactly the model's `execTask` — a directory goes with its subtree, a file or link alone, an entry
    that is ALREADY GONE is counted as deleted by both (the executor's `NotFound` turned into success by the rule;
    `perform` answers "deleted"), a dry run changes nothing; one `delete` event, `deleted` + 1, no error. -/
theorem delete_eq_execTask (hk : CleanPath k) (hd : task.dest_path = destOf ew.xw.root k) (ha : task.action = .Delete) :
    ∃ st' ew',
      runM (run_task (engineExt cfg) task transferrer verifier stats cfg.dryRun true mode limiter pm) ew =
        (.ok (.ok (), st'), ew') ∧
      absExec ew' st' = execTask cfg noFaults (absExec ew stats) (absTaskE cfg ew.xw task k) := by
  obtain ⟨n, hp⟩ := deletePre_engine cfg ew task stats cfg.dryRun
  have hflag : (nodeAt ew.xw task.dest_path == some DNode.dir) = (ew.xw.w.dst.get? k == some .dir) := by
    rw [hd, nodeAt_destOf _ _ hk]
  rw [hflag] at hp
  have hdel := delete_engine_run cfg ew k transferrer hk (ew.xw.w.dst.get? k == some .dir)
  rw [← hd] at hdel
  have hperf : perform cfg (absExec ew stats).w (absTaskE cfg ew.xw task k) =
      if cfg.dryRun then some ew.xw.w else
        match ew.xw.w.dst.get? k with
        | some .dir => some { ew.xw.w with dst := ew.xw.w.dst.eraseSubtree k }
        | some _ => some { ew.xw.w with dst := ew.xw.w.dst.erase k }
        | none => some ew.xw.w := by
    have : absTaskE cfg ew.xw task k = ⟨.delete, k, (absTaskE cfg ew.xw task k).payload⟩ := by
      simp [absTaskE, ha, absAct]
    rw [this, perform_delete_at]; rfl
  -- the world after the executor call, and the answer after the rule
  have key : goneRule (engineExt cfg) (runM ((engineExt cfg).transferrer_delete transferrer task.dest_path
        (ew.xw.w.dst.get? k == some .dir)) ew).1 = .ok () ∧
      (runM ((engineExt cfg).transferrer_delete transferrer task.dest_path
        (ew.xw.w.dst.get? k == some .dir)) ew).2.log = ew.log ∧
      (runM ((engineExt cfg).transferrer_delete transferrer task.dest_path
        (ew.xw.w.dst.get? k == some .dir)) ew).2.xw.root = ew.xw.root ∧
      perform cfg (absExec ew stats).w (absTaskE cfg ew.xw task k) =
        some (runM ((engineExt cfg).transferrer_delete transferrer task.dest_path
          (ew.xw.w.dst.get? k == some .dir)) ew).2.xw.w := by
    rw [hdel, hperf]
    cases hdry : cfg.dryRun
    · simp only [Bool.false_eq_true, if_false]
      rcases hg : ew.xw.w.dst.get? k with _ | (m | _ | t) <;>
        simp [removeW, hg, goneRule, goneKind, engineExt]
    · simp [goneRule]
  rcases hres : runM ((engineExt cfg).transferrer_delete transferrer task.dest_path
      (ew.xw.w.dst.get? k == some .dir)) ew with ⟨dres, ew2⟩
  rw [hres] at key
  simp only [] at key
  obtain ⟨hg, hlog, hroot, hperf2⟩ := key
  have hran := Ran.delOk (ext := engineExt cfg) (task := task) (transferrer := transferrer) (verifier := verifier)
    (stats := stats) (dry := cfg.dryRun) (json := true) (mode := mode) (limiter := limiter) (w := ew)
    ha _ _ _ _ _ dres hp hres hg (emit_engine cfg ew2 _)
  refine ⟨_, _, (run_task_ran _ _ _ _ _ _ _ _ _ pm _ _ _ _).2 hran, ?_⟩
  simp only [execTask_noFaults, hperf2]
  simp [absExec, absBook, hroot, hlog, evAbs_delete ew task k hk hd, Book.ok, absTaskE, ha, absAct]

/-- BRIDGE, lifted to every task kind the model has: the abstraction of (stats', event stream', world') after
    `run_task` on the instance against `execTask cfg noFaults` on the abstraction of the state before.  The `Book`
    (counters, events, errors) agrees in EVERY case; the world agrees whenever the task answers `Ok`; after an `Err`
    (Create/Update only) the model keeps its world and the instance's differs from it as `Left` says. -/
theorem run_task_eq_execTask (hk : CleanPath k) (hd : task.dest_path = destOf ew.xw.root k)
    (hsrc : ∀ e, task.source = some e → Readable cfg (toE e) ∧ SrcFile ew.xw (toE e) ∧ HasInode cfg (toE e))
    (hwork : (task.action = .Create ∨ task.action = .Update) → task.source.isSome = true) :
    ∃ res st' ew',
      runM (run_task (engineExt cfg) task transferrer verifier stats cfg.dryRun true mode limiter pm) ew =
        (.ok (res, st'), ew') ∧
      ew'.xw.root = ew.xw.root ∧
      (absExec ew' st').b = (execTask cfg noFaults (absExec ew stats) (absTaskE cfg ew.xw task k)).b ∧
      (∀ u, res = .ok u →
        absExec ew' st' = execTask cfg noFaults (absExec ew stats) (absTaskE cfg ew.xw task k)) ∧
      (∀ er, res = .error er → (execTask cfg noFaults (absExec ew stats) (absTaskE cfg ew.xw task k)).w = ew.xw.w ∧
        Left ew.xw ew'.xw k) := by
  cases ha : task.action with
  | Skip =>
    obtain ⟨st', ew', h1, h2⟩ := skip_eq_execTask cfg ew task k transferrer verifier stats mode limiter pm hk hd ha
      cfg.dryRun
    have hroot : ew'.xw.root = ew.xw.root := by
      have := (run_task_ran _ _ _ _ _ _ _ _ _ pm _ _ _ _).1 h1
      cases this with
      | skip _ _ he => rw [emit_engine] at he; cases he; rfl
      | noSource ha' => rcases ha' with ha' | ha' <;> rw [ha] at ha' <;> cases ha'
      | xferOk ha' => rcases ha' with ha' | ha' <;> rw [ha] at ha' <;> cases ha'
      | delOk ha' => rw [ha] at ha'; cases ha'
    exact ⟨_, _, _, h1, hroot, by rw [h2], fun _ _ => h2, fun er h => by cases h⟩
  | Delete =>
    obtain ⟨st', ew', h1, h2⟩ := delete_eq_execTask cfg ew task k transferrer verifier stats mode limiter pm hk hd ha
    have hroot : ew'.xw.root = ew.xw.root := by
      have := (run_task_ran _ _ _ _ _ _ _ _ _ pm _ _ _ _).1 h1
      cases this with
      | delOk _ isDir st1 w1 w2 _ dres hp hd' hg he =>
        rw [emit_engine] at he; cases he
        obtain ⟨n, hp'⟩ := deletePre_engine cfg ew task stats cfg.dryRun
        rw [hp'] at hp; cases hp
        rw [hd] at hd'
        rw [delete_engine_run cfg ew k transferrer hk] at hd'
        split at hd'
        · cases hd'; rfl
        · split at hd' <;> cases hd' <;> rfl
      | noSource ha' => rcases ha' with ha' | ha' <;> rw [ha] at ha' <;> cases ha'
      | xferOk ha' => rcases ha' with ha' | ha' <;> rw [ha] at ha' <;> cases ha'
      | skip ha' => rw [ha] at ha'; cases ha'
    exact ⟨_, _, _, h1, hroot, by rw [h2], fun _ _ => h2, fun er h => by cases h⟩
  | Create =>
    obtain ⟨e, hs⟩ := Option.isSome_iff_exists.1 (hwork (.inl ha))
    obtain ⟨hr, hsf, hi⟩ := hsrc e hs
    obtain ⟨res, st', ew', h1, hroot, hb, hok, herr⟩ :=
      xfer_eq_execTask cfg ew task k transferrer verifier stats mode limiter pm hk hd e (.inl ha) hs hr hsf hi
    refine ⟨res, st', ew', h1, hroot, hb, fun u hu => ?_, fun er h => ⟨(herr er h).1, (herr er h).2.1⟩⟩
    have := (hok u hu).1
    show Exec.mk _ _ = _
    rw [this, hb]
  | Update =>
    obtain ⟨e, hs⟩ := Option.isSome_iff_exists.1 (hwork (.inr ha))
    obtain ⟨hr, hsf, hi⟩ := hsrc e hs
    obtain ⟨res, st', ew', h1, hroot, hb, hok, herr⟩ :=
      xfer_eq_execTask cfg ew task k transferrer verifier stats mode limiter pm hk hd e (.inr ha) hs hr hsf hi
    refine ⟨res, st', ew', h1, hroot, hb, fun u hu => ?_, fun er h => ⟨(herr er h).1, (herr er h).2.1⟩⟩
    have := (hok u hu).1
    show Exec.mk _ _ = _
    rw [this, hb]

end bridge

end SyModel.GenEngineTask
