/-
  Helper lemmas and model-side definitions of `SyModel.Props.GenBisyncEngine` that do not mention the world
  instance `modelExt`:
    * running a computation of the effect monad `Rs.M W = ExceptT Rs.Err (StateM W)` from a world (`runM`) and the
      equations of `pure`, `>>=`, `<$>`, `throw`, `Rs.capture`, `Rs.liftE`, `for … in … do` under it; `op` (a world
      operation given as a function); `Pres` (computations that leave the world alone) and its rules;
    * root texts: `Rs.join` and stripping a root text from a joined path (`stripRoot`);
    * the Prelude's hash sets and maps (`Rs.set_insert`, `Rs.extend`, `Rs.insert_mut`, `Rs.get`, `Rs.keys`) as
      duplicate-free lists / finite maps; the model's first-match `lookup`; `pushOpt`;
    * `changesIn`, `syncIn`: the model's `Bisync.sync Cfg.repaired` with its two iteration orders exposed
      (`syncIn_allPaths`: it IS `Bisync.sync` for the model's own order), and — section `Fresh` — `syncIn_spec`,
      `syncIn_eq_sync`: with fresh conflict names every pair of orders that are permutations of `allPaths` leaves
      the same world seen path by path (the generalisation of `Bisync.sync_spec` to any order);
    * the model's executor step by step: errors are only appended (`execOne_errors`, `execActions_errors`), which
      actions succeed (`stepOk`, `okActions`, `okBytes`, `okActions_all`), one step of `updateStateRepaired` (`updOne`).
-/
import SyModel.Generated.Prelude
import SyModel.Lemmas.BisyncSync

namespace SyModel.Props.GenBisyncEngine
open SyModel
open SyModel.Generated (Rs.M Rs.Err Rs.Path)

/-! ## the effect monad -/

/-- run a translated effectful computation from world `w`: the result (`Ok`/`Err`) and the world it leaves -/
def runM {W α : Type} (x : Rs.M W α) (w : W) : Except Rs.Err α × W := x.run.run w

/-- a world operation given as a function (how the instance defines the externs) -/
def op {W α : Type} (f : W → Except Rs.Err α × W) : Rs.M W α := ExceptT.mk (fun w => (f w : Id _))

@[simp] theorem runM_op {W α} (f : W → Except Rs.Err α × W) (w : W) : runM (op f) w = f w := rfl

@[simp] theorem runM_pure {W α} (a : α) (w : W) : runM (pure a : Rs.M W α) w = (.ok a, w) := rfl

@[simp] theorem runM_throw {W α} (e : Rs.Err) (w : W) : runM (throw e : Rs.M W α) w = (.error e, w) := rfl

/-- `>>=` continues from the world the first computation left; an `Err` stops, KEEPING that world -/
theorem runM_bind {W α β} (x : Rs.M W α) (f : α → Rs.M W β) (w : W) :
    runM (x >>= f) w = match runM x w with
      | (.ok a, w') => runM (f a) w'
      | (.error e, w') => (.error e, w') := by
  simp only [runM, ExceptT.run_bind, StateT.run_bind]
  show (match (x.run.run w) with | (r, s) => _) = _
  rcases h : x.run.run w with ⟨r, s⟩
  cases r <;> rfl

theorem runM_map {W α β} (x : Rs.M W α) (f : α → β) (w : W) :
    runM (f <$> x) w = match runM x w with
      | (.ok a, w') => (.ok (f a), w')
      | (.error e, w') => (.error e, w') := by
  rw [← bind_pure_comp, runM_bind]
  rfl

theorem runM_bind_ok {W α β} {x : Rs.M W α} {f : α → Rs.M W β} {w w' : W} {a : α}
    (h : runM x w = (.ok a, w')) : runM (x >>= f) w = runM (f a) w' := by
  rw [runM_bind, h]

theorem runM_bind_error {W α β} {x : Rs.M W α} {f : α → Rs.M W β} {w w' : W} {e : Rs.Err}
    (h : runM x w = (.error e, w')) : runM (x >>= f) w = (.error e, w') := by
  rw [runM_bind, h]

@[simp] theorem runM_capture {W α} (x : Rs.M W α) (w : W) :
    runM (Generated.Rs.capture x) w = (.ok (runM x w).1, (runM x w).2) := rfl

@[simp] theorem runM_liftE_ok {W α} (a : α) (w : W) :
    runM (Generated.Rs.liftE (.ok a) : Rs.M W α) w = (.ok a, w) := rfl

@[simp] theorem runM_liftE_error {W α} (e : Rs.Err) (w : W) :
    runM (Generated.Rs.liftE (.error e) : Rs.M W α) w = (.error e, w) := rfl

/-- a `for` loop over a list whose body never fails and never breaks is a left fold over (loop state, world) -/
theorem runM_forIn_fold {W σ α : Type} (g : σ × W → α → σ × W) (f : α → σ → Rs.M W (ForInStep σ))
    (hstep : ∀ c s w, runM (f c s) w = (.ok (.yield (g (s, w) c).1), (g (s, w) c).2))
    (cs : List α) (s0 : σ) (w : W) :
    runM (forIn cs s0 f) w = (.ok (cs.foldl g (s0, w)).1, (cs.foldl g (s0, w)).2) := by
  induction cs generalizing s0 w with
  | nil => rfl
  | cons c cs ih =>
    rw [List.forIn_cons, runM_bind, hstep]
    exact ih _ _

/-- the same with the body's equation only asked for the elements of the list -/
theorem runM_forIn_fold' {W σ α : Type} (g : σ × W → α → σ × W) {f : α → σ → Rs.M W (ForInStep σ)}
    {cs : List α} (hstep : ∀ c ∈ cs, ∀ s w, runM (f c s) w = (.ok (.yield (g (s, w) c).1), (g (s, w) c).2))
    (s0 : σ) (w : W) :
    runM (forIn cs s0 f) w = (.ok (cs.foldl g (s0, w)).1, (cs.foldl g (s0, w)).2) := by
  induction cs generalizing s0 w with
  | nil => rfl
  | cons c cs ih =>
    rw [List.forIn_cons, runM_bind, hstep c List.mem_cons_self]
    exact ih (fun c hc => hstep c (List.mem_cons_of_mem _ hc)) _ _

/-- the same for a pure loop: the world is not touched -/
theorem runM_forIn_pure {W σ α : Type} (g : σ → α → σ) {f : α → σ → Rs.M W (ForInStep σ)}
    (hstep : ∀ c s w, runM (f c s) w = (.ok (.yield (g s c)), w))
    (cs : List α) (s0 : σ) (w : W) :
    runM (forIn cs s0 f) w = (.ok (cs.foldl g s0), w) := by
  induction cs generalizing s0 with
  | nil => rfl
  | cons c cs ih =>
    rw [List.forIn_cons, runM_bind, hstep]
    exact ih _

/-! ## root texts and joined paths -/

theorem join_eq {root : Rs.Path} (h : root ≠ []) (rel : Rs.Path) :
    Generated.Rs.join root rel = root ++ '/' :: rel := by
  cases root with
  | nil => exact absurd rfl h
  | cons _ _ => rfl

/-- `p` with the text `root ++ "/"` taken off its front, if it starts with it -/
def stripRoot (root p : Rs.Path) : Option Bisync.Path :=
  if (root ++ ['/']).isPrefixOf p then some (p.drop (root.length + 1)) else none

theorem stripRoot_join {root : Rs.Path} (h : root ≠ []) (rel : Rs.Path) :
    stripRoot root (Generated.Rs.join root rel) = some rel := by
  rw [join_eq h]
  have e : root ++ '/' :: rel = (root ++ ['/']) ++ rel := by simp
  have hp : (root ++ ['/']).isPrefixOf (root ++ '/' :: rel) = true := by
    rw [List.isPrefixOf_iff_prefix, e]; exact List.prefix_append _ _
  have hd : (root ++ '/' :: rel).drop (root.length + 1) = rel := by
    rw [e]
    have : root.length + 1 = (root ++ ['/']).length := by simp
    rw [this, List.drop_left]
  simp only [stripRoot, hp, if_true, hd]

theorem stripRoot_join_other {a b : Rs.Path} (hb : b ≠ [])
    (h1 : ¬ (a ++ ['/']) <+: (b ++ ['/'])) (h2 : ¬ (b ++ ['/']) <+: (a ++ ['/'])) (rel : Rs.Path) :
    stripRoot a (Generated.Rs.join b rel) = none := by
  rw [join_eq hb]
  have e : b ++ '/' :: rel = (b ++ ['/']) ++ rel := by simp
  have hp : (a ++ ['/']).isPrefixOf (b ++ '/' :: rel) = false := by
    rw [Bool.eq_false_iff]
    intro hc
    rw [List.isPrefixOf_iff_prefix, e] at hc
    rcases List.prefix_or_prefix_of_prefix hc (List.prefix_append _ _) with h | h
    · exact h1 h
    · exact h2 h
  simp [stripRoot, hp]

/-! ## the Prelude's hash sets: duplicate-free lists in insertion order -/

section
variable {α : Type} [BEq α] [LawfulBEq α]

theorem set_insert_eq (s : List α) (y : α) : Generated.Rs.set_insert s y = if y ∈ s then s else s ++ [y] := by
  unfold Generated.Rs.set_insert
  simp only [List.contains_iff_mem]

theorem mem_set_insert (s : List α) (y x : α) : x ∈ Generated.Rs.set_insert s y ↔ x ∈ s ∨ x = y := by
  rw [set_insert_eq]
  by_cases h : y ∈ s
  · simp only [h, if_true]
    constructor
    · exact Or.inl
    · rintro (h' | rfl)
      · exact h'
      · exact h
  · simp [h]

theorem nodup_set_insert (s : List α) (y : α) (h : s.Nodup) : (Generated.Rs.set_insert s y).Nodup := by
  rw [set_insert_eq]
  by_cases hc : y ∈ s
  · simp [hc, h]
  · simp only [hc, if_false]
    rw [List.nodup_append]
    refine ⟨h, by simp, ?_⟩
    intro a ha b hb
    simp at hb
    subst hb
    intro e; subst e
    exact hc ha

theorem mem_extend (s l : List α) (x : α) : x ∈ Generated.Rs.extend s l ↔ x ∈ s ∨ x ∈ l := by
  unfold Generated.Rs.extend
  induction l generalizing s with
  | nil => simp
  | cons a t ih => rw [List.foldl_cons, ih, mem_set_insert]; simp [or_assoc]

theorem nodup_extend (s l : List α) (h : s.Nodup) : (Generated.Rs.extend s l).Nodup := by
  unfold Generated.Rs.extend
  induction l generalizing s with
  | nil => exact h
  | cons a t ih => rw [List.foldl_cons]; exact ih _ (nodup_set_insert s a h)
end

/-! ## the Prelude's hash maps as finite maps -/

section hashmap
variable {κ ν : Type} [BEq κ] [LawfulBEq κ]

theorem get_insert_mut (m : Generated.Rs.HashMap κ ν) (k k' : κ) (v : ν) :
    Generated.Rs.get (Generated.Rs.insert_mut m k v) k' = if (k == k') = true then some v else Generated.Rs.get m k' := by
  unfold Generated.Rs.get Generated.Rs.insert_mut
  by_cases hb : (k == k') = true
  · simp [hb]
  · have hb' : (k == k') = false := by simpa using hb
    simp only [List.find?_cons, hb', Bool.false_eq_true, if_false]
    congr 1
    rw [List.find?_filter]
    congr 1
    funext p
    by_cases hp : (p.1 == k') = true
    · have : (p.1 == k) = false := by
        rw [Bool.eq_false_iff]; intro h
        rw [beq_iff_eq] at hp h
        rw [← hp, h] at hb'
        simp at hb'
      simp [hp, this]
    · simp [hp]

theorem mem_keys_insert_mut (m : Generated.Rs.HashMap κ ν) (k k' : κ) (v : ν) :
    k' ∈ Generated.Rs.keys (Generated.Rs.insert_mut m k v) ↔ k' = k ∨ k' ∈ Generated.Rs.keys m := by
  unfold Generated.Rs.keys Generated.Rs.insert_mut
  simp only [List.map_cons, List.mem_cons, List.mem_map, List.mem_filter]
  constructor
  · rintro (h | ⟨p, ⟨hp, _⟩, rfl⟩)
    · exact .inl h
    · exact .inr ⟨p, hp, rfl⟩
  · rintro (h | ⟨p, hp, rfl⟩)
    · exact .inl h
    · by_cases hk : p.1 = k
      · exact .inl hk
      · exact .inr ⟨p, ⟨hp, by simpa using hk⟩, rfl⟩

/-- the map a `for e in l { m.insert(key(e), e) }` loop builds from `m0`, looked up: when no key occurs twice in
    `l`, the entry of `l` with that key, else what `m0` held -/
theorem get_foldl_insert_mut {α : Type} (key : α → κ) (l : List α) (hnd : (l.map key).Nodup)
    (m0 : Generated.Rs.HashMap κ α) (k : κ) :
    Generated.Rs.get (l.foldl (fun m e => Generated.Rs.insert_mut m (key e) e) m0) k =
      match l.find? (fun e => key e == k) with
      | some e => some e
      | none => Generated.Rs.get m0 k := by
  induction l generalizing m0 with
  | nil => rfl
  | cons e t ih =>
    rw [List.map_cons, List.nodup_cons] at hnd
    rw [List.foldl_cons, ih hnd.2, List.find?_cons]
    by_cases hk : key e = k
    · have hnone : t.find? (fun e => key e == k) = none := by
        rw [List.find?_eq_none]
        intro x hx hxk
        apply hnd.1
        rw [hk, ← (beq_iff_eq.mp hxk)]
        exact List.mem_map_of_mem hx
      simp [hnone, hk, get_insert_mut]
    · have : (key e == k) = false := by simpa using hk
      simp only [this, get_insert_mut, Bool.false_eq_true, if_false]

theorem mem_keys_foldl_insert_mut {α : Type} (key : α → κ) (l : List α) (m0 : Generated.Rs.HashMap κ α) (k : κ) :
    k ∈ Generated.Rs.keys (l.foldl (fun m e => Generated.Rs.insert_mut m (key e) e) m0) ↔ k ∈ l.map key ∨ k ∈ Generated.Rs.keys m0 := by
  induction l generalizing m0 with
  | nil => simp
  | cons e t ih =>
    rw [List.foldl_cons, ih, mem_keys_insert_mut]
    simp only [List.map_cons, List.mem_cons]
    constructor
    · rintro (h | h | h)
      · exact .inl (.inr h)
      · exact .inl (.inl h)
      · exact .inr h
    · rintro ((h | h) | h)
      · exact .inr (.inl h)
      · exact .inl h
      · exact .inr (.inr h)
end hashmap

/-- the model's first-match lookup in a list of (key, value) pairs made from a list -/
theorem lookup_map_find {α β : Type} (key : α → Bisync.Path) (f : α → β) (l : List α) (k : Bisync.Path) :
    Bisync.lookup k (l.map fun e => (key e, f e)) = (l.find? (fun e => key e == k)).map f := by
  induction l with
  | nil => rfl
  | cons e t ih =>
    by_cases hk : key e = k
    · simp [Bisync.lookup, hk]
    · have : (key e == k) = false := by simpa using hk
      simp [Bisync.lookup, hk, this, ih]

/-- `Generated.Rs.get` is the model's first-match lookup -/
theorem get_eq_lookup {β : Type} (m : Generated.Rs.HashMap Bisync.Path β) (k : Bisync.Path) :
    Generated.Rs.get m k = Bisync.lookup k m := by
  induction m with
  | nil => rfl
  | cons p t ih =>
    obtain ⟨a, v⟩ := p
    unfold Generated.Rs.get at ih ⊢
    by_cases hk : a = k
    · simp [Bisync.lookup, hk]
    · have : (a == k) = false := by simpa using hk
      simp [Bisync.lookup, hk, this, ih]

/-- `if let Some(c) = o { acc.push(c) }` -/
def pushOpt {β : Type} (acc : List β) : Option β → List β
  | some c => acc ++ [c]
  | none => acc

/-- `acc ++` the `Some` results, in order: what a `for x in l { if let Some(c) = f(x) { acc.push(c) } }` loop computes -/
theorem foldl_push_filterMap {α β : Type} (f : α → Option β) (l : List α) (acc : List β) :
    l.foldl (fun acc x => pushOpt acc (f x)) acc = acc ++ l.filterMap f := by
  induction l generalizing acc with
  | nil => simp
  | cons x t ih =>
    rw [List.foldl_cons, ih, List.filterMap_cons]
    cases f x <;> simp [pushOpt]

/-! ## the model's sync with its iteration orders exposed -/

/-- the changes of `w`, in the order `order`, as the model classifies them -/
def changesIn (order : List Bisync.Path) (w : Bisync.World) : List Bisync.Change :=
  order.filterMap (Bisync.classifyOne .repaired (Bisync.scan w.left) (Bisync.scan w.right) w.db.loadAll)

/-- `Bisync.sync Cfg.repaired` with the two iteration orders exposed (`order`: the paths as `classify_changes`
    visits them, hence the order of the changes and of the actions; `paths`: as `update_state` visits them) and
    without the tick of the logical clock that stands for the time passing until the next event.
    `syncIn_allPaths`: with `w.allPaths` for both it IS `Bisync.sync`. -/
def syncIn (strat : Bisync.Strategy) (maxDelete stamp : Nat) (order paths : List Bisync.Path) (w : Bisync.World) :
    Bisync.SyncResult :=
  let changes := changesIn order w
  if Bisync.deletionLimitExceeded changes maxDelete then
    { world := w, changes := changes, actions := [], errors := [], refused := true }
  else
    let actions := Bisync.resolveChanges strat stamp changes
    let st := Bisync.execActions w.clock actions ⟨w.left, w.right, []⟩
    { world := { left := st.left, right := st.right,
                 db := Bisync.updateStateRepaired st.left st.right st.errors w.db paths, clock := w.clock },
      changes := changes, actions := actions, errors := st.errors, refused := false }

theorem syncIn_allPaths (strat : Bisync.Strategy) (maxDelete stamp : Nat) (w : Bisync.World) :
    let r := syncIn strat maxDelete stamp w.allPaths w.allPaths w
    let m := Bisync.sync .repaired strat maxDelete stamp w
    r.world = { m.world with clock := w.clock } ∧ r.changes = m.changes ∧ r.actions = m.actions ∧
      r.errors = m.errors ∧ r.refused = m.refused := by
  unfold syncIn changesIn Bisync.sync Bisync.World.changes Bisync.classifyChanges Bisync.World.allPaths
  dsimp only
  split <;> simp [Bisync.Cfg.repaired]

theorem syncIn_refused {strat : Bisync.Strategy} {maxDelete stamp : Nat} {order paths : List Bisync.Path} {w : Bisync.World}
    (h : Bisync.deletionLimitExceeded (changesIn order w) maxDelete = true) :
    syncIn strat maxDelete stamp order paths w =
      { world := w, changes := changesIn order w, actions := [], errors := [], refused := true } := by
  unfold syncIn; simp [h]

theorem syncIn_accepted {strat : Bisync.Strategy} {maxDelete stamp : Nat} {order paths : List Bisync.Path} {w : Bisync.World}
    (h : ¬ Bisync.deletionLimitExceeded (changesIn order w) maxDelete = true) :
    syncIn strat maxDelete stamp order paths w =
      (let actions := Bisync.resolveChanges strat stamp (changesIn order w)
       let st := Bisync.execActions w.clock actions ⟨w.left, w.right, []⟩
       { world := { left := st.left, right := st.right,
                    db := Bisync.updateStateRepaired st.left st.right st.errors w.db paths, clock := w.clock },
         changes := changesIn order w, actions := actions, errors := st.errors, refused := false }) := by
  unfold syncIn; simp [h]

theorem updateStateRepaired_congr (l r : Bisync.Root) (f1 f2 : List Bisync.Path) (h : ∀ p, p ∈ f1 ↔ p ∈ f2) (db : Bisync.Db)
    (ps : List Bisync.Path) :
    Bisync.updateStateRepaired l r f1 db ps = Bisync.updateStateRepaired l r f2 db ps := by
  induction ps generalizing db with
  | nil => rfl
  | cons p t ih =>
    simp only [Bisync.updateStateRepaired]
    by_cases hp : p ∈ f1
    · have := (h p).mp hp
      simp only [hp, this, if_true]; exact ih _
    · have : p ∉ f2 := fun h2 => hp ((h p).mpr h2)
      simp only [hp, this, if_false]; exact ih _

/-! ## with fresh conflict names the iteration orders do not matter -/

section Fresh
open SyModel.Bisync


theorem _root_.SyModel.Bisync.FreshFor.perm {stamp : Nat} {ps qs : List Path} (h : FreshFor stamp ps) (hp : qs.Perm ps) :
    FreshFor stamp qs := by
  refine ⟨hp.nodup_iff.mpr h.nodup, (hp.flatMap_right (names stamp)).nodup_iff.mpr h.nnodup, ?_⟩
  intro q hq hq'
  exact h.disj q ((hp.flatMap_right (names stamp)).mem_iff.mp hq) (hp.mem_iff.mp hq')

theorem actionsIn_eq (strat : Strategy) (stamp : Nat) (order : List Path) (w : World) :
    resolveChanges strat stamp (changesIn order w) = order.filterMap (w.act .repaired strat stamp) := by
  unfold resolveChanges changesIn
  rw [List.filterMap_filterMap]
  congr 1
  funext p
  rw [classifyOne_eq]
  unfold World.act View.action
  cases (w.view p).ctype .repaired <;> rfl

theorem deletionLimitExceeded_perm {a b : List Change} (h : a.Perm b) (md : Nat) :
    deletionLimitExceeded a md = deletionLimitExceeded b md := by
  unfold deletionLimitExceeded
  simp only [h.length_eq, (h.filter _).length_eq]

theorem changesIn_perm {order : List Path} {w : World} (h : order.Perm w.allPaths) :
    (changesIn order w).Perm (w.changes .repaired) := by
  unfold changesIn World.changes classifyChanges
  exact h.filterMap _

/-- what one accepted `syncIn` leaves, path by path — `Bisync.sync_spec` for any iteration orders that are
    permutations of `allPaths` -/
theorem syncIn_spec (strat : Strategy) (md stamp : Nat) (w : World) (hf : Fresh w stamp)
    {order paths : List Path} (ho : order.Perm w.allPaths) (hp : paths.Perm w.allPaths)
    (hlim : ¬ deletionLimitExceeded (changesIn order w) md = true) :
    let r := syncIn strat md stamp order paths w
    (∀ p ∈ w.allPaths, r.world.view p = stepView .repaired strat stamp w.clock p (w.view p)) ∧
    (∀ p ∈ w.allPaths, r.world.view (conflictName p stamp .source) =
      ⟨if isRen (w.act .repaired strat stamp p) = true then (w.view p).l else none, none, none, none⟩) ∧
    (∀ p ∈ w.allPaths, r.world.view (conflictName p stamp .dest) =
      ⟨none, if isRen (w.act .repaired strat stamp p) = true then (w.view p).r else none, none, none⟩) ∧
    (∀ q, q ∉ w.allPaths → q ∉ conflictNames w stamp → r.world.view q = View.empty) ∧
    r.errors = [] ∧ r.actions = order.filterMap (w.act .repaired strat stamp) := by
  intro r
  have hff : FreshFor stamp order := hf.freshFor.perm ho
  have hmo : ∀ p, p ∈ order ↔ p ∈ w.allPaths := fun p => ho.mem_iff
  have hmp : ∀ p, p ∈ paths ↔ p ∈ w.allPaths := fun p => hp.mem_iff
  have hmn : ∀ q, q ∈ order.flatMap (names stamp) ↔ q ∈ conflictNames w stamp := fun q => by
    rw [conflictNames_eq]; exact (ho.flatMap_right (names stamp)).mem_iff
  have hg : GoodChoice stamp (w.act .repaired strat stamp) := by
    intro p a ha
    refine ⟨action_path ha, ?_⟩
    intro p' s d st e; subst e; exact action_stamp ha
  have hacts := actionsIn_eq strat stamp order w
  let F0 : FS := (⟨w.left, w.right, []⟩ : ExecState).abs
  let st := execActions w.clock (resolveChanges strat stamp (changesIn order w)) ⟨w.left, w.right, []⟩
  have habs : st.abs = runF w.clock (w.act .repaired strat stamp) order F0 := by
    show (execActions _ _ _).abs = _
    rw [abs_execActions, hacts]; rfl
  obtain ⟨hA, hB, hC, hD⟩ := runF_spec w.clock stamp (w.act .repaired strat stamp) hg order F0 hff
  have hF0L : ∀ q, F0.L q = (w.view q).l := fun _ => rfl
  have hF0R : ∀ q, F0.R q = (w.view q).r := fun _ => rfl
  have herr : st.errors = [] := by
    have : st.abs.errs = F0.errs := by
      rw [habs]; apply hD
      intro p _ a ha
      exact action_enabled ha
    exact this
  have hL : ∀ q, aget q st.left = (runF w.clock (w.act .repaired strat stamp) order F0).L q := by
    intro q; rw [← habs]; rfl
  have hR : ∀ q, aget q st.right = (runF w.clock (w.act .repaired strat stamp) order F0).R q := by
    intro q; rw [← habs]; rfl
  have hr : r = (⟨⟨st.left, st.right, updateStateRepaired st.left st.right st.errors w.db paths, w.clock⟩,
      changesIn order w, resolveChanges strat stamp (changesIn order w), st.errors, false⟩ : SyncResult) :=
    syncIn_accepted hlim
  have hworld : r.world =
      (⟨st.left, st.right, updateStateRepaired st.left st.right st.errors w.db paths, w.clock⟩ : World) := by
    rw [hr]
  have hdb : ∀ q sd, aget (q, sd) r.world.db =
      if q ∈ w.allPaths then rowsOf (aget q st.left) (aget q st.right) sd else aget (q, sd) w.db := by
    intro q sd
    rw [hworld, herr]
    have := updRepaired_get st.left st.right paths w.db (hp.nodup_iff.mpr (nodup_allPaths w)) q sd
    simp only [hmp] at this
    exact this
  have hnames_not_mem : ∀ p ∈ w.allPaths, ∀ sd, conflictName p stamp sd ∉ w.allPaths := by
    intro p hp' sd hm
    refine hff.disj (conflictName p stamp sd) ?_ ((hmo _).mpr hm)
    rw [List.mem_flatMap]; exact ⟨p, (hmo p).mpr hp', by cases sd <;> simp [names]⟩
  refine ⟨?_, ?_, ?_, ?_, ?_, ?_⟩
  · intro p hp'
    have hb := hB p ((hmo p).mpr hp')
    rw [hF0L, hF0R] at hb
    have h1 : aget p st.left = (own w.clock (w.act .repaired strat stamp p) (w.view p).l (w.view p).r).1 := by
      rw [hL, ← hb]
    have h2 : aget p st.right = (own w.clock (w.act .repaired strat stamp p) (w.view p).l (w.view p).r).2 := by
      rw [hR, ← hb]
    show World.view _ p = _
    unfold World.view
    rw [hdb, hdb]
    simp only [hp', if_true]
    rw [hworld]
    simp only [h1, h2, stepView, World.act]
    rfl
  · intro p hp'
    have hn := hnames_not_mem p hp' .source
    have hv := view_of_not_mem w _ hn
    obtain ⟨c1, c2, _, _⟩ := hC p ((hmo p).mpr hp')
    rw [hF0L, hF0L] at c1
    rw [hF0R] at c2
    rw [hv] at c1 c2
    show World.view _ _ = _
    unfold World.view
    rw [hdb, hdb]
    simp only [hn, if_false]
    have e1 : aget (conflictName p stamp .source, Side.source) w.db = none := by
      have := congrArg View.rl hv; exact this
    have e2 : aget (conflictName p stamp .source, Side.dest) w.db = none := by
      have := congrArg View.rr hv; exact this
    rw [hworld]
    simp only [hL, hR, c1, c2, e1, e2, View.empty]
    congr 1
    by_cases hren : isRen (w.act .repaired strat stamp p) = true
    · cases hl : (w.view p).l <;> simp [hren] <;> exact hl.symm
    · simp [hren]
  · intro p hp'
    have hn := hnames_not_mem p hp' .dest
    have hv := view_of_not_mem w _ hn
    obtain ⟨_, _, c3, c4⟩ := hC p ((hmo p).mpr hp')
    rw [hF0L] at c3
    rw [hF0R, hF0R, hF0L] at c4
    rw [hv] at c3 c4
    show World.view _ _ = _
    unfold World.view
    rw [hdb, hdb]
    simp only [hn, if_false]
    have e1 : aget (conflictName p stamp .dest, Side.source) w.db = none := by
      have := congrArg View.rl hv; exact this
    have e2 : aget (conflictName p stamp .dest, Side.dest) w.db = none := by
      have := congrArg View.rr hv; exact this
    rw [hworld]
    simp only [hL, hR, c3, c4, e1, e2, View.empty]
    congr 1
    by_cases hren : isRen (w.act .repaired strat stamp p) = true
    · have hen : ∃ a, w.act .repaired strat stamp p = some a ∧ a.isRename = true := by
        unfold isRen at hren
        cases ha : w.act .repaired strat stamp p with
        | none => simp [ha] at hren
        | some a => exact ⟨a, rfl, by simpa [ha] using hren⟩
      obtain ⟨a, ha, hren'⟩ := hen
      have := action_enabled (v := w.view p) ha
      cases a <;> simp only [Action.isRename, Bool.false_eq_true] at hren'
      simp only [enabled, Bool.and_eq_true] at this
      simp [hren, this.1, this.2]
      rfl
    · simp [hren]
  · intro q hq hqn
    have hv := view_of_not_mem w q hq
    obtain ⟨a1, a2⟩ := hA q (fun h => hq ((hmo q).mp h)) (fun h => hqn ((hmn q).mp h))
    rw [hF0L] at a1
    rw [hF0R] at a2
    rw [hv] at a1 a2
    show World.view _ _ = _
    unfold World.view
    rw [hdb, hdb]
    simp only [hq, if_false]
    have e1 : aget (q, Side.source) w.db = none := congrArg View.rl hv
    have e2 : aget (q, Side.dest) w.db = none := congrArg View.rr hv
    rw [hworld]
    simp only [hL, hR, a1, a2, e1, e2, View.empty]
  · rw [hr]; exact herr
  · rw [hr]; exact hacts


/-- **with a fresh stamp, `syncIn` in any orders is `Bisync.sync`**: the same refusal, the same changes and actions up
    to order, no failed action on either side, and the same world seen path by path (both roots and both state rows
    of every path) — only the tick of the clock is the model's own. -/
theorem syncIn_eq_sync (strat : Strategy) (md stamp : Nat) (w : World) (hf : Fresh w stamp)
    {order paths : List Path} (ho : order.Perm w.allPaths) (hp : paths.Perm w.allPaths) :
    let r := syncIn strat md stamp order paths w
    let m := sync .repaired strat md stamp w
    r.refused = m.refused ∧ (∀ q, r.world.view q = m.world.view q) ∧ r.world.clock = w.clock ∧
      m.world.clock = w.clock + 1 ∧ r.changes.Perm m.changes ∧ r.actions.Perm m.actions ∧
      r.errors = [] ∧ m.errors = [] := by
  intro r m
  have hcp := changesIn_perm ho
  have hlimeq := deletionLimitExceeded_perm hcp md
  by_cases hlim : deletionLimitExceeded (changesIn order w) md = true
  · have hr : r = _ := syncIn_refused hlim
    have hm : m = ⟨{ w with clock := w.clock + 1 }, w.changes .repaired, [], [], true⟩ := by
      show sync .repaired strat md stamp w = _
      unfold sync
      simp only [← hlimeq, hlim, if_true]
    rw [hr, hm]
    exact ⟨rfl, fun _ => rfl, rfl, rfl, hcp, List.Perm.refl _, rfl, rfl⟩
  · have hlim' : deletionLimitExceeded (w.changes .repaired) md = false := by
      rw [← hlimeq]; simpa using hlim
    have hnr : m.refused = false := by
      show (sync .repaired strat md stamp w).refused = false
      unfold sync; simp only [hlim']; rfl
    obtain ⟨⟨mown, mS, mD, mO, mclock⟩, merr, mact⟩ := sync_spec .repaired rfl strat md stamp w hf hnr
    obtain ⟨rown, rS, rD, rO, rerr, ract⟩ := syncIn_spec strat md stamp w hf ho hp hlim
    have hr : r = _ := syncIn_accepted hlim
    have hrr : r.refused = false := by rw [hr]
    have hrc : r.changes = changesIn order w := by rw [hr]
    have hmc : m.changes = w.changes .repaired := by
      show (sync .repaired strat md stamp w).changes = _
      unfold sync; simp only [hlim']; rfl
    refine ⟨by rw [hrr, hnr], ?_, by rw [hr], mclock, by rw [hrc, hmc]; exact hcp, ?_, rerr, merr⟩
    · intro q
      by_cases hq : q ∈ w.allPaths
      · rw [rown q hq]; exact (mown q hq).symm
      · by_cases hqn : q ∈ conflictNames w stamp
        · rw [conflictNames_eq, List.mem_flatMap] at hqn
          obtain ⟨p, hp', hqp⟩ := hqn
          simp only [names, List.mem_cons, List.not_mem_nil, or_false] at hqp
          rcases hqp with rfl | rfl
          · rw [rS p hp']; exact (mS p hp').symm
          · rw [rD p hp']; exact (mD p hp').symm
        · rw [rO q hq hqn]; exact (mO q hq hqn).symm
    · show r.actions.Perm m.actions
      rw [ract, mact]
      exact ho.filterMap _

end Fresh

/-! ## the model's executor and state update, step by step; computations that leave the world alone -/

open SyModel.Bisync (World Root Db File Row aget aset aerase ExecState execOne execActions Action)

theorem execOne_errors (now : Nat) (l r : Root) (errs : List Bisync.Path) (a : Action) :
    execOne now ⟨l, r, errs⟩ a =
      ⟨(execOne now ⟨l, r, []⟩ a).left, (execOne now ⟨l, r, []⟩ a).right,
        errs ++ (execOne now ⟨l, r, []⟩ a).errors⟩ := by
  cases a <;> simp only [execOne] <;> (repeat' split) <;> simp_all

theorem execActions_errors (now : Nat) (acts : List Action) (l r : Root) (errs : List Bisync.Path) :
    execActions now acts ⟨l, r, errs⟩ =
      ⟨(execActions now acts ⟨l, r, []⟩).left, (execActions now acts ⟨l, r, []⟩).right,
        errs ++ (execActions now acts ⟨l, r, []⟩).errors⟩ := by
  induction acts generalizing l r errs with
  | nil => simp [execActions]
  | cons a t ih =>
    simp only [execActions, List.foldl_cons] at ih ⊢
    rw [execOne_errors, ih]
    conv => rhs; rw [ih]
    simp

/-- does action `a` succeed from `st`? (the model's executor appends the path of a failed action to `errors`) -/
def stepOk (now : Nat) (st : ExecState) (a : Action) : Bool :=
  (execOne now ⟨st.left, st.right, []⟩ a).errors.isEmpty

/-- the bytes a successful `a` copies from `st`: the size the copied file has NOW -/
def mBytes (st : ExecState) : Action → Nat
  | .copyToSource p _ => ((aget p st.right).map (·.size)).getD 0
  | .copyToDest p _ => ((aget p st.left).map (·.size)).getD 0
  | _ => 0

/-- the actions that succeed when the list is executed in order from `st` -/
def okActions (now : Nat) : List Action → ExecState → List Action
  | [], _ => []
  | a :: t, st => (if stepOk now st a then [a] else []) ++ okActions now t (execOne now st a)

/-- the bytes they copy -/
def okBytes (now : Nat) : List Action → ExecState → Nat
  | [], _ => 0
  | a :: t, st => (if stepOk now st a then mBytes st a else 0) + okBytes now t (execOne now st a)

theorem okActions_errors (now : Nat) (acts : List Action) (l r : Root) (errs : List Bisync.Path) :
    okActions now acts ⟨l, r, errs⟩ = okActions now acts ⟨l, r, []⟩ := by
  induction acts generalizing l r errs with
  | nil => rfl
  | cons a t ih =>
    simp only [okActions]
    congr 1
    rw [execOne_errors, ih]
    conv => rhs; rw [ih]

theorem okBytes_errors (now : Nat) (acts : List Action) (l r : Root) (errs : List Bisync.Path) :
    okBytes now acts ⟨l, r, errs⟩ = okBytes now acts ⟨l, r, []⟩ := by
  induction acts generalizing l r errs with
  | nil => rfl
  | cons a t ih =>
    simp only [okBytes]
    congr 1
    rw [execOne_errors, ih]
    conv => rhs; rw [ih]

theorem execOne_errors_cases (now : Nat) (l r : Root) (a : Action) :
    (execOne now ⟨l, r, []⟩ a).errors = [] ∨ (execOne now ⟨l, r, []⟩ a).errors = [a.path] := by
  cases a <;> simp only [execOne, Action.path] <;> (repeat' split) <;> simp

theorem okActions_all (now : Nat) (acts : List Action) (l r : Root)
    (h : (execActions now acts ⟨l, r, []⟩).errors = []) : okActions now acts ⟨l, r, []⟩ = acts := by
  induction acts generalizing l r with
  | nil => rfl
  | cons a t ih =>
    have hst : execOne now ⟨l, r, []⟩ a =
        ⟨(execOne now ⟨l, r, []⟩ a).left, (execOne now ⟨l, r, []⟩ a).right, (execOne now ⟨l, r, []⟩ a).errors⟩ := rfl
    simp only [execActions, List.foldl_cons] at h
    rw [hst] at h
    have h' := execActions_errors now t (execOne now ⟨l, r, []⟩ a).left (execOne now ⟨l, r, []⟩ a).right
      (execOne now ⟨l, r, []⟩ a).errors
    simp only [execActions] at h'
    rw [h'] at h
    simp only [List.append_eq_nil_iff] at h
    have hs : stepOk now ⟨l, r, []⟩ a = true := by unfold stepOk; simp [h.1]
    simp only [okActions, hs, if_true]
    rw [hst, okActions_errors, ih _ _ h.2]
    rfl

/-- one iteration of the model's `updateStateRepaired` -/
def updOne (left right : Root) (failed : List Bisync.Path) (db : Db) (p : Bisync.Path) : Db :=
  if p ∈ failed then db
  else match aget p left, aget p right with
    | some l, some r => aset (p, Bisync.Side.dest) r.meta (aset (p, Bisync.Side.source) l.meta db)
    | _, _ => Bisync.Db.delete p db

theorem updateStateRepaired_eq_foldl (left right : Root) (failed : List Bisync.Path) (db : Db)
    (ps : List Bisync.Path) :
    Bisync.updateStateRepaired left right failed db ps = ps.foldl (updOne left right failed) db := by
  induction ps generalizing db with
  | nil => rfl
  | cons p t ih => simp only [Bisync.updateStateRepaired, List.foldl_cons, ih]; rfl

theorem aget_of_mem_nodup {κ β : Type} [DecidableEq κ] {m : List (κ × β)} (h : (m.map (·.1)).Nodup) {k : κ} {v : β}
    (hm : (k, v) ∈ m) : aget k m = some v := by
  induction m with
  | nil => cases hm
  | cons kv t ih =>
    obtain ⟨a, b⟩ := kv
    rw [List.map_cons, List.nodup_cons] at h
    rcases List.mem_cons.mp hm with e | e
    · cases e; simp [aget]
    · have hne : a ≠ k := by
        intro e'; subst e'
        exact h.1 (List.mem_map_of_mem (f := (·.1)) e)
      simp [aget, hne, ih h.2 e]

theorem classifySingle_none_none (cfg : Bisync.Cfg) (ps pd : Option Row) :
    Bisync.classifySingle cfg none none ps pd = none := by
  cases ps <;> cases pd <;> rfl

theorem conflictCounts_perm (st : Bisync.Strategy) (stamp : Nat) {a b : List Bisync.Change} (h : a.Perm b) :
    Bisync.conflictCounts st stamp a = Bisync.conflictCounts st stamp b := by
  unfold Bisync.conflictCounts
  have hp := (h.filter (·.ctype.isConflict)).map
    (fun c => (Bisync.resolveConflict st c.path c.s c.d stamp).isRename)
  simp only [(hp.filter _).length_eq]

/-- a computation that leaves every world as it found it (whatever it answers) -/
def Pres {W α : Type} (x : Rs.M W α) : Prop := ∀ w, (runM x w).2 = w

theorem Pres.pure {W α : Type} (a : α) : Pres (pure a : Rs.M W α) := fun _ => rfl

theorem Pres.liftE {W α : Type} (e : Except Rs.Err α) : Pres (Generated.Rs.liftE e : Rs.M W α) := by
  intro w; cases e <;> rfl

theorem Pres.bind {W α β : Type} {x : Rs.M W α} {f : α → Rs.M W β} (hx : Pres x) (hf : ∀ a, Pres (f a)) :
    Pres (x >>= f) := by
  intro w
  rw [runM_bind]
  have := hx w
  rcases h : runM x w with ⟨r, w'⟩
  rw [h] at this
  cases r with
  | ok a => simp only; rw [hf a w']; exact this
  | error e => exact this

theorem Pres.forIn {W σ α : Type} (cs : List α) (s0 : σ) {f : α → σ → Rs.M W (ForInStep σ)}
    (hf : ∀ c s, Pres (f c s)) : Pres (forIn cs s0 f) := by
  induction cs generalizing s0 with
  | nil => exact Pres.pure _
  | cons c cs ih =>
    rw [List.forIn_cons]
    apply Pres.bind (hf c s0)
    intro r
    cases r with
    | done s => exact Pres.pure _
    | yield s => exact ih s

end SyModel.Props.GenBisyncEngine
