/-
  Lemmas about the routing of `sync_file_with_delta` and about `estimate_change_ratio`
  (`SyModel.Transfer.BlockCompare`).
-/
import SyModel.Lemmas.TransferRebuild
namespace SyModel.Transfer
open SyModel SyModel.Compress

/-! ### full copies -/

theorem fsCopy_bytes (src : Bytes) (now : Nat) : (fsCopy src now).1.bytes = src := by
  unfold fsCopy
  show writeAt (setLen [] 0) 0 src = src
  have h0 : setLen [] 0 = ([] : Bytes) := by simp [setLen, zeros]
  rw [h0]
  unfold writeAt
  cases src with
  | nil => rfl
  | cons x xs => simp [zeros]

theorem fsCopy_count (src : Bytes) (now : Nat) : (fsCopy src now).2 = src.length := rfl

theorem copySparseFile_bytes (src : Bytes) (seek : Option (List Region)) (now : Nat)
    (h : ∀ rs, seek = some rs → Covers src rs) : (copySparseFile src seek now).1.bytes = src := by
  unfold copySparseFile
  cases seek with
  | none => exact localBlocks_eq src
  | some rs => exact localSeek_eq src rs (h rs rfl)

theorem copySparseFile_count (src : Bytes) (seek : Option (List Region)) (now : Nat) :
    (copySparseFile src seek now).2 = src.length := by
  unfold copySparseFile; cases seek <;> rfl

/-! ### size gates -/

theorem effDestSize_ge (cfg : Cfg) (d : Nat) : d ≤ effDestSize cfg d := by
  unfold effDestSize
  cases cfg.hookThreshold with
  | none => exact Nat.le_refl _
  | some t => simp only; split <;> omega

/-- under the hook, a destination of at least the hook threshold passes both gates. -/
theorem effDestSize_hook (cfg : Cfg) (t d : Nat) (h : cfg.hookThreshold = some t) (hd : t ≤ d) :
    DELTA_THRESHOLD ≤ effDestSize cfg d := by
  unfold effDestSize; rw [h]; simp only; rw [if_pos hd]; omega

theorem effDestSize_hook_below (cfg : Cfg) (t d : Nat) (h : cfg.hookThreshold = some t) (hd : d < t) :
    effDestSize cfg d = d := by
  unfold effDestSize; rw [h]; simp only; rw [if_neg (by omega)]

theorem effDestSize_none (cfg : Cfg) (d : Nat) (h : cfg.hookThreshold = none) : effDestSize cfg d = d := by
  unfold effDestSize; rw [h]

/-- the `dest_size < 4096` gate (local.rs:388) can never fire: it sits behind `dest_size < 10 MiB`. -/
theorem routeOf_ne_smallDest (cfg : Cfg) (src : Bytes) (dst : Option Bytes) : routeOf cfg src dst ≠ .smallDest := by
  unfold routeOf
  cases dst with
  | none => simp
  | some d =>
    simp only
    split
    · simp
    · rename_i h
      rw [if_neg (by simp only [DELTA_THRESHOLD, SMALL_DEST] at *; omega)]
      split
      · simp
      · split
        · simp
        · split <;> simp

/-! ### sampling -/

theorem length_samplePositions (tb sc : Nat) : (samplePositions tb sc).length = sc := by
  simp [samplePositions]

/-- every sampled block index lies inside the destination. -/
theorem samplePositions_lt (tb sc : Nat) (h : 0 < tb) : ∀ p ∈ samplePositions tb sc, p < tb := by
  intro p hp
  simp only [samplePositions, List.mem_map, List.mem_range] at hp
  obtain ⟨i, _, rfl⟩ := hp
  split
  · have : min (i * (tb / (sc - 1))) (tb - 1) ≤ tb - 1 := Nat.min_le_right _ _
    omega
  · exact h

/-- the first sample is block 0. -/
theorem samplePositions_head (tb sc : Nat) (h : 0 < sc) : (samplePositions tb sc).head? = some 0 := by
  unfold samplePositions
  cases sc with
  | zero => omega
  | succ n => simp [List.range_succ_eq_map]

theorem RatioResult.useDelta_iff (num den s c : Nat) :
    (RatioResult.mk' num den s c).useDelta = true ↔ 4 * num ≤ 3 * den := by
  simp only [RatioResult.mk', RATIO_DEN, RATIO_NUM, decide_eq_true_eq]; omega

theorem changeRatioH_den_pos [BEq H] (hash : Bytes → H) (bs : Nat) (src dst : Bytes) :
    0 < (changeRatioH hash bs src dst).den := by
  unfold changeRatioH
  simp only
  generalize absDiff src.length dst.length = diff
  by_cases h0 : dst.length = 0
  · rw [if_pos h0]; simp [RatioResult.mk']
  · rw [if_neg h0]
    by_cases h1 : SIZE_DIFF_DEN * diff > SIZE_DIFF_NUM * dst.length
    · rw [if_pos h1]
      by_cases h2 : diff ≥ dst.length
      · rw [if_pos h2]; simp [RatioResult.mk']
      · rw [if_neg h2]; simp only [RatioResult.mk']; omega
    · rw [if_neg h1]
      by_cases h2 : min SAMPLE_COUNT ((dst.length + bs - 1) / bs) > 0
      · rw [if_pos h2]; simp only [RatioResult.mk']; exact h2
      · rw [if_neg h2]; simp [RatioResult.mk']

theorem changeRatioH_changed_le [BEq H] (hash : Bytes → H) (bs : Nat) (src dst : Bytes) :
    (changeRatioH hash bs src dst).changed ≤ (changeRatioH hash bs src dst).sampled ∧
    (changeRatioH hash bs src dst).sampled ≤ SAMPLE_COUNT := by
  unfold changeRatioH
  simp only
  generalize absDiff src.length dst.length = diff
  by_cases h0 : dst.length = 0
  · rw [if_pos h0]; simp [RatioResult.mk']
  · rw [if_neg h0]
    by_cases h1 : SIZE_DIFF_DEN * diff > SIZE_DIFF_NUM * dst.length
    · rw [if_pos h1]
      by_cases h2 : diff ≥ dst.length
      · rw [if_pos h2]; simp [RatioResult.mk']
      · rw [if_neg h2]; simp [RatioResult.mk']
    · rw [if_neg h1]
      have hle : ((samplePositions ((dst.length + bs - 1) / bs) (min SAMPLE_COUNT ((dst.length + bs - 1) / bs))).filter
          (sampleChanged hash bs src dst)).length ≤ min SAMPLE_COUNT ((dst.length + bs - 1) / bs) := by
        have := List.length_filter_le (sampleChanged hash bs src dst)
          (samplePositions ((dst.length + bs - 1) / bs) (min SAMPLE_COUNT ((dst.length + bs - 1) / bs)))
        rw [length_samplePositions] at this
        exact this
      by_cases h2 : min SAMPLE_COUNT ((dst.length + bs - 1) / bs) > 0
      · rw [if_pos h2]; simp only [RatioResult.mk']; exact ⟨hle, Nat.min_le_left _ _⟩
      · rw [if_neg h2]; simp only [RatioResult.mk']; exact ⟨hle, Nat.min_le_left _ _⟩

/-- sizes that differ by more than half of the destination are decided without reading a block;
    delta is still chosen when the difference is at most three quarters. -/
theorem changeRatioH_size_gate [BEq H] (hash : Bytes → H) (bs : Nat) (src dst : Bytes)
    (hd : 0 < dst.length) (h : dst.length < 2 * absDiff src.length dst.length) :
    (changeRatioH hash bs src dst).sampled = 0 ∧
    ((changeRatioH hash bs src dst).useDelta = true ↔ 4 * absDiff src.length dst.length ≤ 3 * dst.length) := by
  unfold changeRatioH
  simp only
  generalize absDiff src.length dst.length = diff at h ⊢
  rw [if_neg (by omega), if_pos (by simp only [SIZE_DIFF_DEN, SIZE_DIFF_NUM]; omega)]
  by_cases h2 : diff ≥ dst.length
  · rw [if_pos h2]
    refine ⟨rfl, ?_⟩
    rw [RatioResult.useDelta_iff]; omega
  · rw [if_neg h2]
    refine ⟨rfl, ?_⟩
    rw [RatioResult.useDelta_iff]

theorem sampleChanged_same (bs : Nat) (src : Bytes) (idx : Nat) :
    sampleChanged (fun b => b) bs src src idx = false := by
  simp [sampleChanged]

/-- identical non-empty files are never routed to the full copy by the ratio gate.
    (An empty destination gives ratio 1.0: ratio.rs:103-107.) -/
theorem changeRatio_same (bs : Nat) (src : Bytes) (hne : 0 < src.length) :
    (changeRatio bs src src).useDelta = true := by
  unfold changeRatio changeRatioH
  simp only
  have hd : absDiff src.length src.length = 0 := by simp [absDiff]
  rw [hd, if_neg (by omega), if_neg (by simp)]
  have hf : ((samplePositions ((src.length + bs - 1) / bs) (min SAMPLE_COUNT ((src.length + bs - 1) / bs))).filter
      (sampleChanged (fun b => b) bs src src)).length = 0 := by
    rw [List.length_eq_zero_iff, List.filter_eq_nil_iff]
    intro p _; rw [sampleChanged_same]; simp
  rw [hf]
  split <;> rw [RatioResult.useDelta_iff] <;> omega

end SyModel.Transfer
