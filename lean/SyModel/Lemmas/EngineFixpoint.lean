/-
  Lemmas for the fixed-point property (C03) and the deletion property (C06): what delete-only and
  skip-only task lists do, which paths exist after a clean run, and that a transferred entry is
  recognised as up to date by the next plan.
-/
import SyModel.Lemmas.EnginePost
namespace SyModel.Engine

/-! ### delete-only folds (fault-free) -/

theorem execTask_noFaults_delete {cfg : Cfg} (hdry : cfg.dryRun = false) (st : Exec) {t : Task}
    (ha : t.act = .delete) :
    ∃ w', perform cfg st.w t = some w' ∧ execTask cfg noFaults st t = ⟨w', st.b.ok t⟩ := by
  rcases execTask_cases cfg noFaults st t with ⟨g, hf, _⟩ | ⟨_, w', hp, he⟩ | ⟨_, hp, _⟩
  · rw [faultOf_noFaults] at hf; cases hf
  · exact ⟨w', hp, he⟩
  · rw [perform_delete ha] at hp
    simp only [hdry, Bool.false_eq_true, ↓reduceIte] at hp
    split at hp <;> cases hp

/-- deletes never make an absent path present -/
theorem foldl_deletes_none {cfg : Cfg} (hdry : cfg.dryRun = false) (ds : List Task) (st : Exec)
    (hd : ∀ t ∈ ds, t.act = .delete) (x : Path) (hx : st.w.dst.get? x = none) :
    (ds.foldl (execTask cfg noFaults) st).w.dst.get? x = none := by
  induction ds generalizing st with
  | nil => exact hx
  | cons t ds ih =>
    rw [List.foldl_cons]
    apply ih _ (fun t' ht' => hd t' (List.mem_cons_of_mem _ ht'))
    obtain ⟨w', hp, he⟩ := execTask_noFaults_delete hdry st (hd t (List.mem_cons_self ..))
    rw [he]
    rcases (perform_delete_spec (hd t (List.mem_cons_self ..)) hdry hp).2.2.2.1 x with h | h
    · exact h
    · rw [h]; exact hx

/-- a deleted path is absent at the end -/
theorem foldl_deletes_removed {cfg : Cfg} (hdry : cfg.dryRun = false) (ds : List Task) (st : Exec)
    (hd : ∀ t ∈ ds, t.act = .delete) {t : Task} (ht : t ∈ ds) :
    (ds.foldl (execTask cfg noFaults) st).w.dst.get? t.rel = none := by
  obtain ⟨pre, post, rfl⟩ := List.append_of_mem ht
  rw [List.foldl_append, List.foldl_cons]
  apply foldl_deletes_none hdry post _ (fun t' ht' => hd t' (by simp [ht']))
  obtain ⟨w', hp, he⟩ := execTask_noFaults_delete hdry (pre.foldl (execTask cfg noFaults) st) (hd t (by simp))
  rw [he]
  exact (perform_delete_spec (hd t (by simp)) hdry hp).2.1

/-- deletes add no error (a stale entry that vanished with its parent counts as deleted) -/
theorem foldl_deletes_errors {cfg : Cfg} (hdry : cfg.dryRun = false) (ds : List Task) (st : Exec)
    (hd : ∀ t ∈ ds, t.act = .delete) :
    (ds.foldl (execTask cfg noFaults) st).b.errors = st.b.errors := by
  induction ds generalizing st with
  | nil => rfl
  | cons t ds ih =>
    rw [List.foldl_cons, ih _ (fun t' ht' => hd t' (List.mem_cons_of_mem _ ht'))]
    obtain ⟨w', _, he⟩ := execTask_noFaults_delete hdry st (hd t (List.mem_cons_self ..))
    rw [he, Book.ok_errors]

/-! ### which paths exist after a clean run with `--delete` -/

/-- the fold of `plan` is the fold of the deletions after the fold of the entry tasks -/
theorem finalExec_eq (cfg : Cfg) (flt : Faults) (scan : List SEntry) (dst : Map DNode) (n : Nat) :
    finalExec cfg flt scan dst n =
      (if cfg.delete then planDeletions (scanFilter cfg scan) scan dst else []).foldl (execTask cfg flt)
        (((scanFilter cfg scan).map (planEntry cfg dst)).foldl (execTask cfg flt) (initExec dst n)) := by
  unfold finalExec; rw [plan_eq, List.foldl_append]

/-- a path that is not a scanned path is not changed by the entry tasks, unless it is an absent
    ancestor of a selected entry -/
theorem entry_tasks_frame (cfg : Cfg) (flt : Faults) (scan : List SEntry) (dst : Map DNode) (st : Exec)
    (x : Path) (hx : ∀ e ∈ scanFilter cfg scan, e.rel ≠ x) :
    (((scanFilter cfg scan).map (planEntry cfg dst)).foldl (execTask cfg flt) st).w.dst.get? x = st.w.dst.get? x ∨
      (st.w.dst.get? x = none ∧
        (((scanFilter cfg scan).map (planEntry cfg dst)).foldl (execTask cfg flt) st).w.dst.get? x = some .dir ∧
        x ≠ [] ∧ ∃ e ∈ scanFilter cfg scan, isPrefix x e.rel = true ∧ x ≠ e.rel) := by
  have h := foldl_frame cfg flt ((scanFilter cfg scan).map (planEntry cfg dst)) st x (by
    intro t ht
    obtain ⟨e, he, rfl⟩ := List.mem_map.1 ht
    rw [planEntry_rel]
    exact ⟨hx e he, fun h => absurd h (planEntry_act_ne_delete _ _ _)⟩)
  rcases h with h | ⟨a, b, c, t, ht, hp, _⟩
  · exact Or.inl h
  · obtain ⟨e, he, rfl⟩ := List.mem_map.1 ht
    rw [planEntry_rel] at hp
    exact Or.inr ⟨a, b, c, e, he, hp, fun h => hx e he h.symm⟩

/-- after a clean run with `--delete` every remaining path is a scanned path or one of sy's own
    metadata files -/
theorem result_paths_scanned {cfg : Cfg} (hdry : cfg.dryRun = false) {flt : Faults} {scan : List SEntry}
    {dst : Map DNode} {n : Nat} (hd : cfg.delete = true) (hc : ParentClosed scan)
    (hok : (runF cfg flt scan dst n).exit = 0) (p : Path)
    (hp : (runF cfg flt scan dst n).dst.get? p ≠ none) :
    (∃ e ∈ scan, e.rel = p) ∨ p ∈ ownMetadata := by
  rw [runF_eq_run_of_exit_zero hok] at hp hok
  unfold run at hp hok
  rw [(runF_of_not_refused (runF_exit_zero hok).1).1, finalExec_eq] at hp
  simp only [hd, ↓reduceIte] at hp
  by_cases hs : ∃ e ∈ scan, e.rel = p
  · exact Or.inl hs
  · by_cases ho : p ∈ ownMetadata
    · exact Or.inr ho
    · exfalso
      apply hp
      have hns : ∀ e ∈ scan, e.rel ≠ p := fun e he h => hs ⟨e, he, h⟩
      have hA := entry_tasks_frame cfg noFaults scan dst (initExec dst n) p
        (fun e he => hns e (mem_of_mem_scanFilter he))
      have hdel : ∀ t ∈ planDeletions (scanFilter cfg scan) scan dst, t.act = .delete :=
        fun t ht => planDeletions_act ht
      rcases hA with hA | ⟨_, _, hne, e, he, hpre, hpe⟩
      · cases hg : dst.get? p with
        | none =>
          apply foldl_deletes_none hdry _ _ hdel
          rw [hA]; exact hg
        | some v =>
          have hmem : (⟨.delete, p, .nothing⟩ : Task) ∈ planDeletions (scanFilter cfg scan) scan dst :=
            mem_planDeletions.2 ⟨p, rfl, (Map.mem_keys_iff dst p).2 (by rw [hg]; simp),
              fun e he => hns e (mem_of_mem_scanFilter he), hns, ho⟩
          exact foldl_deletes_removed hdry _ _ hdel hmem
      · obtain ⟨d, hd', hr, _⟩ := hc.anc (mem_of_mem_scanFilter he) hne hpre hpe
        exact absurd hr (hns d hd')

/-! ### skip-only folds -/

theorem foldl_all_skip (cfg : Cfg) (flt : Faults) (ts : List Task) (st : Exec)
    (h : ∀ t ∈ ts, t.act = .skip) :
    (ts.foldl (execTask cfg flt) st).w = st.w ∧
    (ts.foldl (execTask cfg flt) st).b.created = st.b.created ∧
    (ts.foldl (execTask cfg flt) st).b.updated = st.b.updated ∧
    (ts.foldl (execTask cfg flt) st).b.deleted = st.b.deleted ∧
    (ts.foldl (execTask cfg flt) st).b.errors = st.b.errors ∧
    (∀ ev ∈ (ts.foldl (execTask cfg flt) st).b.events, ev ∈ st.b.events ∨ ev.1 = .skip) := by
  induction ts generalizing st with
  | nil => exact ⟨rfl, rfl, rfl, rfl, rfl, fun ev h => Or.inl h⟩
  | cons t ts ih =>
    rw [List.foldl_cons]
    have hs := h t (List.mem_cons_self ..)
    have hstep : execTask cfg flt st t = ⟨st.w, st.b.ok t⟩ := by
      rcases execTask_cases cfg flt st t with ⟨g, _, hns, _⟩ | ⟨_, w', hp, he⟩ | ⟨_, hp, _⟩
      · exact absurd hs hns
      · rw [perform_skip hs] at hp; cases hp; exact he
      · rw [perform_skip hs] at hp; cases hp
    obtain ⟨a, b, c, d, e, f⟩ := ih (execTask cfg flt st t) (fun t' ht' => h t' (List.mem_cons_of_mem _ ht'))
    rw [hstep] at a b c d e f
    rw [hstep]
    have hok : (st.b.ok t).created = st.b.created ∧ (st.b.ok t).updated = st.b.updated ∧
        (st.b.ok t).deleted = st.b.deleted := by
      unfold Book.ok; rw [hs]; exact ⟨rfl, rfl, rfl⟩
    refine ⟨a, b.trans hok.1, c.trans hok.2.1, d.trans hok.2.2, e.trans (Book.ok_errors _ _), fun ev hev => ?_⟩
    rcases f ev hev with h1 | h1
    · rw [Book.ok_events] at h1
      rcases List.mem_cons.1 h1 with h2 | h2
      · exact Or.inr (by rw [h2]; exact hs)
      · exact Or.inl h2
    · exact Or.inr h1

/-! ### a transferred entry is up to date for the next plan -/

/-- every mode but `--ignore-times`: an entry whose post-condition holds in `dst'` is planned as
    `skip` against `dst'` -/
theorem planEntry_skip_of_entryPost {cfg : Cfg} {scan : List SEntry} {dst dst' : Map DNode} {e : SEntry}
    (hcmp : cfg.compare ≠ .ignoreTimes) (hne : e.kind = .dir → e.rel ≠ [])
    (ep : EntryPost cfg scan dst e (dst'.get? e.rel)) : (planEntry cfg dst' e).act = .skip := by
  have fileCase : ∀ m, FilePost cfg dst e m (dst'.get? e.rel) → planFileAct cfg m (dst'.get? e.rel) = .skip := by
    intro m ⟨d, h1, h2, h3, _⟩
    by_cases hs : planFileAct cfg m (dst.get? e.rel) = .skip
    · rw [h2 hs]; exact hs
    · exact (planFileAct_skip_iff _ _ _).2 ⟨d, h1, upToDate_of_matches (h3 hs) hcmp⟩
  unfold planEntry
  cases hk : e.kind with
  | dir =>
    simp only [ep.dir hk (hne hk)]
  | file m k => exact fileCase m (ep.file m k hk)
  | symlink text tgt =>
    cases hl : cfg.links with
    | skip => rfl
    | preserve => simp only; rw [ep.link_preserve text tgt hk hl]; simp
    | follow =>
      cases tgt with
      | file m => exact fileCase m (ep.link_follow text m hk hl)
      | dir => rfl
      | dangling => rfl

/-- also under `--ignore-times` directories and preserved / skipped links are up to date -/
theorem planEntry_skip_of_entryPost_nonfile {cfg : Cfg} {scan : List SEntry} {dst dst' : Map DNode} {e : SEntry}
    (hne : e.kind = .dir → e.rel ≠ []) (hnf : ∀ m k, e.kind ≠ .file m k)
    (hnl : ∀ text m, e.kind = .symlink text (.file m) → cfg.links ≠ .follow)
    (ep : EntryPost cfg scan dst e (dst'.get? e.rel)) : (planEntry cfg dst' e).act = .skip := by
  unfold planEntry
  cases hk : e.kind with
  | dir =>
    simp only [ep.dir hk (hne hk)]
  | file m k => exact absurd hk (hnf m k)
  | symlink text tgt =>
    cases hl : cfg.links with
    | skip => rfl
    | preserve => simp only; rw [ep.link_preserve text tgt hk hl]; simp
    | follow =>
      cases tgt with
      | file m => exact absurd hl (hnl text m hk)
      | dir => rfl
      | dangling => rfl

/-! ### a plan of skips is a no-op run -/

theorem run_all_skip {cfg : Cfg} {flt : Faults} {scan : List SEntry} {dst : Map DNode} {n : Nat}
    (h : ∀ t ∈ plan cfg scan dst, t.act = .skip) :
    (runF cfg flt scan dst n).refused = false ∧ (runF cfg flt scan dst n).dst = dst ∧
    (runF cfg flt scan dst n).created = 0 ∧ (runF cfg flt scan dst n).updated = 0 ∧
    (runF cfg flt scan dst n).deleted = 0 ∧ (runF cfg flt scan dst n).bytes = 0 ∧
    (runF cfg flt scan dst n).errors = [] ∧ (runF cfg flt scan dst n).exit = 0 ∧
    (∀ ev ∈ (runF cfg flt scan dst n).events, ev.1 = .skip) := by
  have hdels : (plan cfg scan dst).filter (·.act == .delete) = [] := by
    rw [List.filter_eq_nil_iff]
    intro t ht; rw [h t ht]; decide
  have hr : (runF cfg flt scan dst n).refused = false := by
    rw [runF_refused_iff, hdels]
    simp [guardRefuses]
  obtain ⟨a1, a2, a3, a4, a5, a6, _, a8, a9⟩ := runF_of_not_refused hr
  obtain ⟨b1, b2, b3, b4, b5, b6⟩ := foldl_all_skip cfg flt (plan cfg scan dst) (initExec dst n) h
  have b1' : (finalExec cfg flt scan dst n).w = (initExec dst n).w := b1
  have b5' : (finalExec cfg flt scan dst n).b.errors = [] := b5
  refine ⟨hr, ?_, ?_, ?_, ?_, ?_, ?_, ?_, ?_⟩
  · rw [a1, b1']; rfl
  · rw [a4]; exact b2
  · rw [a5]; exact b3
  · rw [a6]; exact b4
  · rw [a8, b1']; rfl
  · rw [a3, b5']; rfl
  · rw [a9, b5']; rfl
  · intro ev hev
    rw [a2, List.mem_reverse] at hev
    rcases b6 ev hev with h1 | h1
    · cases h1
    · exact h1

/-- after a clean run with `--delete` the next plan contains no deletion -/
theorem no_deletions_after_clean_run {cfg : Cfg} (hdry : cfg.dryRun = false) {flt : Faults}
    {scan : List SEntry} {dst : Map DNode} {n : Nat} (hd : cfg.delete = true) (hc : ParentClosed scan)
    (hok : (runF cfg flt scan dst n).exit = 0) :
    planDeletions (scanFilter cfg scan) scan (runF cfg flt scan dst n).dst = [] := by
  rw [List.eq_nil_iff_forall_not_mem]
  intro t ht
  obtain ⟨p, _, hk, _, hs, ho⟩ := mem_planDeletions.1 ht
  rcases result_paths_scanned hdry hd hc hok p ((Map.mem_keys_iff _ p).1 hk) with ⟨e, he, hr⟩ | h
  · exact hs e he hr
  · exact ho h

/-- re-running on the result of a clean run (any mode but `--ignore-times`): every task is a skip -/
theorem replan_all_skip {cfg : Cfg} (hdry : cfg.dryRun = false) (hcmp : cfg.compare ≠ .ignoreTimes)
    {flt : Faults} {scan : List SEntry} {dst : Map DNode} {n : Nat} (hu : UniqueRels scan) (hnr : NoRoot scan)
    (hdel : cfg.delete = true → ParentClosed scan ∧ dst.get? [] = none)
    (hino : cfg.hardlinks = true → InoConsistent scan)
    (hok : (runF cfg flt scan dst n).exit = 0) :
    ∀ t ∈ plan cfg scan (runF cfg flt scan dst n).dst, t.act = .skip := by
  intro t ht
  rw [plan_eq] at ht
  rcases List.mem_append.1 ht with ht | ht
  · obtain ⟨e, he, rfl⟩ := List.mem_map.1 ht
    exact planEntry_skip_of_entryPost hcmp (fun _ => hnr e (mem_of_mem_scanFilter he))
      (entryPost_of_exit_zero hdry flt scan dst n hu hdel hino he hok)
  · exfalso
    by_cases hd : cfg.delete = true
    · simp only [hd, ↓reduceIte] at ht
      rw [no_deletions_after_clean_run hdry hd (hdel hd).1 hok] at ht; cases ht
    · simp only [hd, Bool.false_eq_true, ↓reduceIte, List.not_mem_nil] at ht

/-- the sequence of re-runs: run 0 on `dst`, run `k+1` on the result of run `k` (`ns k` is the
    inode counter seen by run `k`) -/
def iterRun (cfg : Cfg) (scan : List SEntry) (dst : Map DNode) (ns : Nat → Nat) : Nat → Result
  | 0 => run cfg scan dst (ns 0)
  | k + 1 => run cfg scan (iterRun cfg scan dst ns k).dst (ns (k + 1))

end SyModel.Engine
