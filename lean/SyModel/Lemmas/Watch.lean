/-
  Helper lemmas about the watch loop model (C20): schedule algebra, the inductive invariant
  of the repaired order, and the "receive everything, then time out until the debounce has
  elapsed" progress lemma.
-/
import SyModel.Watch.Loop
namespace SyModel.Watch

/-! ### schedules -/

@[simp] theorem run_nil (c : Cfg) (s : State) : run c s [] = s := rfl
@[simp] theorem run_cons (c : Cfg) (s : State) (i : Input) (t : List Input) :
    run c s (i :: t) = run c (apply c s i) t := rfl
theorem run_append (c : Cfg) (s : State) (a b : List Input) :
    run c s (a ++ b) = run c (run c s a) b := by
  simp [run, List.foldl_append]

@[simp] theorem nSteps_nil : nSteps [] = 0 := rfl
@[simp] theorem nSteps_step (t : List Input) : nSteps (.step :: t) = nSteps t + 1 := rfl
@[simp] theorem nSteps_tick (δ : Nat) (t : List Input) : nSteps (.tick δ :: t) = nSteps t := rfl
@[simp] theorem nSteps_event (k e) (t : List Input) : nSteps (.event k e :: t) = nSteps t := rfl
@[simp] theorem nSteps_sigint (t : List Input) : nSteps (.sigint :: t) = nSteps t := rfl
@[simp] theorem nSteps_fail (t : List Input) : nSteps (.fail :: t) = nSteps t := rfl

theorem nSteps_append (a b : List Input) : nSteps (a ++ b) = nSteps a + nSteps b := by
  induction a with
  | nil => simp
  | cons i t ih => cases i <;> simp [ih] <;> omega

theorem quiescent_cons {i : Input} {t : List Input} (h : Quiescent (i :: t)) :
    i.quiet = true ∧ Quiescent t :=
  ⟨h i (by simp), fun j hj => h j (by simp [hj])⟩

theorem quiescent_append {a b : List Input} (h : Quiescent (a ++ b)) : Quiescent a ∧ Quiescent b :=
  ⟨fun j hj => h j (by simp [hj]), fun j hj => h j (by simp [hj])⟩

/-- a quiescent input is a `step` or a `tick` -/
theorem quiet_cases {i : Input} (h : i.quiet = true) : i = .step ∨ ∃ δ, i = .tick δ := by
  cases i <;> simp [Input.quiet] at h ⊢

theorem nSteps_replicate (n : Nat) : nSteps (List.replicate n Input.step) = n := by
  induction n with
  | zero => rfl
  | succ m ih => simp [List.replicate_succ, ih]

theorem quiescent_replicate (n : Nat) : Quiescent (List.replicate n Input.step) := by
  intro i hi; rw [List.eq_of_mem_replicate hi]; rfl

instance (is : List Input) : Decidable (Quiescent is) := by unfold Quiescent; exact inferInstance

/-! ### the comparison rule -/

theorem syncTo_of_vis {c : Cfg} {a d : Ver} (h : Vis c a d) : syncTo c a d = a := by
  unfold syncTo
  rcases h with h | h
  · subst h; split <;> rfl
  · simp [h]

theorem syncTo_cases (c : Cfg) (a d : Ver) : syncTo c a d = a ∨ syncTo c a d = d := by
  unfold syncTo; split <;> simp

/-- after a sync from `a` the destination equals `a` or the rule saw no difference -/
theorem syncTo_settled (c : Cfg) (a d : Ver) :
    syncTo c a d = a ∨ needsUpdate c a (syncTo c a d) = false := by
  unfold syncTo
  by_cases h : needsUpdate c a d = true
  · simp [h]
  · simp [h]

@[simp] theorem syncTo_self (c : Cfg) (a : Ver) : syncTo c a a = a := by
  unfold syncTo; split <;> rfl

/-! ### failing syncs -/

theorem failMove_sync (c : Cfg) (s : State) (hp : s.phase = .sync) :
    (failMove c s).1 = { s with phase := .loop, pending := [], lastSync := s.now, ok := false } := by
  simp [failMove, hp]

theorem failMove_init (c : Cfg) (s : State) (hp : s.phase = .initSync) :
    (failMove c s).1 = { s with phase := .done, armed := false, exit := some .error, ok := false } := by
  simp [failMove, hp]

theorem failMove_other (c : Cfg) (s : State) (h1 : s.phase ≠ .sync) (h2 : s.phase ≠ .initSync) :
    failMove c s = step c s := by
  unfold failMove; split <;> simp_all

/-! ### `done` is final; SIGINT -/

theorem step_done (c : Cfg) (s : State) (h : s.phase = .done) : (step c s).1 = s := by
  simp [step, h]

theorem apply_done (c : Cfg) (s : State) (i : Input) (h : s.phase = .done) :
    (apply c s i).phase = .done := by
  cases i with
  | event k e =>
    cases e <;> simp [apply, deliver] <;> split <;> simp [h]
  | step => simp [apply, step_done c s h, h]
  | tick δ => simp [apply, advance, h]
  | sigint => simp [apply, signal, h]
  | fail =>
    simp only [apply]
    rw [failMove_other c s (by simp [h]) (by simp [h]), step_done c s h]; exact h

theorem run_done (c : Cfg) (is : List Input) : ∀ s : State, s.phase = .done → (run c s is).phase = .done := by
  induction is with
  | nil => intro s h; simpa using h
  | cons i t ih => intro s h; exact ih _ (apply_done c s i h)

/-- the handler is only ever installed when the loop is entered -/
def HandlerOK (s : State) : Prop :=
  (s.handler = true → s.phase = .loop ∨ s.phase = .sync ∨ s.phase = .done) ∧
  (s.sig = true → s.handler = true)

theorem handlerOK_init (v0 d0 : Ver) : HandlerOK (init v0 d0) := by
  simp [HandlerOK, init]

theorem handlerOK_step (c : Cfg) (s : State) (h : HandlerOK s) : HandlerOK (step c s).1 := by
  obtain ⟨h1, h2⟩ := h
  simp only [step]
  split
  · -- boot
    rename_i hp
    split
    · refine ⟨fun hh => ?_, h2⟩
      have := h1 hh; simp [hp] at this
    · refine ⟨fun hh => ?_, h2⟩
      have := h1 hh; simp [hp] at this
  · rename_i hp
    refine ⟨fun hh => ?_, h2⟩
    have := h1 hh; simp [hp] at this
  · rename_i hp
    split
    · refine ⟨fun hh => ?_, h2⟩
      have := h1 hh; simp [hp] at this
    · exact ⟨fun _ => by simp, fun _ => rfl⟩
  · -- loop
    split
    · exact ⟨fun _ => by simp, h2⟩
    · split
      · split <;> exact ⟨fun _ => by simp_all, h2⟩
      · split <;> exact ⟨fun _ => by simp_all, h2⟩
  · exact ⟨fun _ => by simp, h2⟩
  · exact ⟨h1, h2⟩

theorem handlerOK_apply (c : Cfg) (s : State) (i : Input) (h : HandlerOK s) : HandlerOK (apply c s i) := by
  obtain ⟨h1, h2⟩ := h
  cases i with
  | event k e =>
    cases e <;> simp only [apply, deliver] <;> split <;> exact ⟨h1, h2⟩
  | tick δ => exact ⟨h1, h2⟩
  | sigint =>
    simp only [apply, signal]
    split
    · exact ⟨h1, h2⟩
    · split
      · rename_i hh; exact ⟨fun _ => by simpa using h1 hh, fun _ => hh⟩
      · exact ⟨fun _ => by simp, h2⟩
  | fail =>
    simp only [apply]
    by_cases hs : s.phase = .sync
    · rw [failMove_sync c s hs]; exact ⟨fun _ => by simp, h2⟩
    · by_cases hi : s.phase = .initSync
      · rw [failMove_init c s hi]; exact ⟨fun _ => by simp, h2⟩
      · rw [failMove_other c s hs hi]
        exact handlerOK_step c s ⟨h1, h2⟩
  | step => exact handlerOK_step c s ⟨h1, h2⟩

theorem handlerOK_run (c : Cfg) (is : List Input) : ∀ s, HandlerOK s → HandlerOK (run c s is) := by
  induction is with
  | nil => intro s h; simpa using h
  | cons i t ih => intro s h; exact ih _ (handlerOK_apply c s i h)

/-- with a caught SIGINT pending, the loop is left after at most two moves of the loop thread,
    whatever else happens in between -/
theorem sig_progress (c : Cfg) (is : List Input) :
    ∀ s : State, s.sig = true →
      (s.phase = .done ∨ (s.phase = .loop ∧ 1 ≤ nSteps is) ∨ (s.phase = .sync ∧ 2 ≤ nSteps is)) →
      (run c s is).phase = .done := by
  induction is with
  | nil =>
    intro s _ h
    rcases h with h | h | h
    · simpa using h
    · simp at h
    · simp at h
  | cons i t ih =>
    intro s hs h
    rcases h with h | ⟨hp, hn⟩ | ⟨hp, hn⟩
    · exact run_done c _ _ h
    · cases i with
      | event k e =>
        simp only [run_cons]
        apply ih
        · cases e <;> simp only [apply, deliver] <;> split <;> simpa using hs
        · right; left
          refine ⟨?_, by simpa using hn⟩
          cases e <;> simp only [apply, deliver] <;> split <;> simpa using hp
      | tick δ => exact ih _ hs (Or.inr (Or.inl ⟨hp, by simpa using hn⟩))
      | sigint =>
        simp only [run_cons]
        have : apply c s .sigint = s ∨ (apply c s .sigint).phase = .done := by
          simp only [apply, signal]; split
          · left; rfl
          · split
            · left; cases s; simp_all
            · right; rfl
        rcases this with e | e
        · rw [e]; exact ih _ hs (Or.inr (Or.inl ⟨hp, by simpa using hn⟩))
        · exact run_done c _ _ e
      | fail =>
        simp only [run_cons, apply]
        rw [failMove_other c s (by simp [hp]) (by simp [hp])]
        apply run_done
        simp [step, hp, hs]
      | step =>
        simp only [run_cons]
        apply run_done
        simp [apply, step, hp, hs]
    · cases i with
      | event k e =>
        simp only [run_cons]
        apply ih
        · cases e <;> simp only [apply, deliver] <;> split <;> simpa using hs
        · right; right
          refine ⟨?_, by simpa using hn⟩
          cases e <;> simp only [apply, deliver] <;> split <;> simpa using hp
      | tick δ => exact ih _ hs (Or.inr (Or.inr ⟨hp, by simpa using hn⟩))
      | sigint =>
        simp only [run_cons]
        have : apply c s .sigint = s ∨ (apply c s .sigint).phase = .done := by
          simp only [apply, signal]; split
          · left; rfl
          · split
            · left; cases s; simp_all
            · right; rfl
        rcases this with e | e
        · rw [e]; exact ih _ hs (Or.inr (Or.inr ⟨hp, by simpa using hn⟩))
        · exact run_done c _ _ e
      | fail =>
        simp only [run_cons, apply]
        rw [failMove_sync c s hp]
        exact ih _ hs (Or.inr (Or.inl ⟨rfl, by simp at hn; omega⟩))
      | step =>
        simp only [run_cons]
        apply ih
        · simp [apply, step, hp, hs]
        · right; left
          refine ⟨by simp [apply, step, hp], ?_⟩
          simp at hn; omega

end SyModel.Watch
