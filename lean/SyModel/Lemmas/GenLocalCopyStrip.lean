/-
  Lemmas.GenLocalCopyStrip — the xattr strip loop of the translated unit `LocalCopy`
  (`if let Ok(list) = xattr::list(p) { for name in list { let _ = xattr::remove(p, &name); } }`, local.rs) as a function on
  worlds: `strip_forIn` (the loop IS `stripGo`, unconditionally), `stripGo_spec` (without a pending fault, on a regular
  file: every listed attribute is gone, one `removexattr` is logged per attribute actually present, nothing else changes).
-/
import SyModel.Lemmas.GenLocalCopy
set_option autoImplicit false
set_option linter.unusedSimpArgs false
set_option linter.unusedVariables false
namespace SyModel.LocalCopy
open SyModel SyModel.Generated SyModel.Generated.LocalCopy

/-- the world after `let _ = xattr::remove(p, a)` for every `a` of the list, in order (errors are dropped) -/
def stripGo (p : Rs.Path) : List Rs.Str → LWorld → LWorld
  | [], W => W
  | a :: t, W => stripGo p t (prim (xattrRemoveAct p a) W).2

/-- the strip loop of the translation is `stripGo` -/
theorem strip_forIn (cfg : Cfg) (p : Rs.Path) (l : List Rs.Str) :
    (forIn l PUnit.unit (fun attr_name __s => do
        let _ := (← Rs.capture ((posix cfg).xattr_remove p attr_name))
        pure (ForInStep.yield PUnit.unit)) : Rs.M LWorld PUnit) = fun W => (.ok PUnit.unit, stripGo p l W) := by
  induction l with
  | nil => funext W; rfl
  | cons a t ih =>
    funext W
    rw [List.forIn_cons, run_bind, run_bind, run_capture]
    simp only [run_pure]
    rw [ih]
    rfl

/-- the attribute names for which a `removexattr` is actually performed: those present at that moment -/
def stripNames : List Rs.Str → List Rs.Str → List Rs.Str
  | _, [] => []
  | xs, a :: t => if a ∈ xs then a :: stripNames (xs.filter (· ≠ a)) t else stripNames xs t

theorem filter_strip_cons_mem (xs : List Rs.Str) (a : Rs.Str) (t : List Rs.Str) :
    (xs.filter (· ≠ a)).filter (fun x => decide (x ∉ t)) = xs.filter (fun x => decide (x ∉ a :: t)) := by
  rw [List.filter_filter]
  apply List.filter_congr
  intro x _
  by_cases hx : x = a <;> simp [hx]

theorem filter_strip_cons_not_mem (xs : List Rs.Str) (a : Rs.Str) (t : List Rs.Str) (ha : a ∉ xs) :
    xs.filter (fun x => decide (x ∉ t)) = xs.filter (fun x => decide (x ∉ a :: t)) := by
  apply List.filter_congr
  intro x hx
  have : x ≠ a := fun e => ha (e ▸ hx)
  simp [this]

theorem stripGo_spec (p : Rs.Path) (i : Nat) (l : List Rs.Str) (W : LWorld) (n : Inode) (hnf : W.fault = none)
    (hn : W.names p = some (.file i)) (hi : W.inodes i = some n) :
    stripGo p l W = { W with inodes := upd W.inodes i (some { n with xattrs := n.xattrs.filter (fun x => decide (x ∉ l)) }),
                             log := W.log ++ (stripNames n.xattrs l).map (Op.xattrRemove i) } := by
  induction l generalizing W n with
  | nil =>
    rcases W with ⟨nm, ino, ni, hs, nh, g, lg, now, F⟩
    simp only at hi
    have hu : upd ino i (some { n with xattrs := n.xattrs.filter (fun x => decide (x ∉ ([] : List Rs.Str))) }) = ino := by
      funext x; simp only [upd]; split
      · rename_i h; rw [h, hi]; cases n; simp
      · rfl
    simp only [stripGo, stripNames, List.map_nil, List.append_nil, hu]
  | cons a t ih =>
    rw [stripGo, prim_nf _ _ hnf]
    simp only [xattrRemoveAct, hn, hi]
    by_cases ha : a ∈ n.xattrs
    · simp only [ha, if_true]
      rw [ih _ { n with xattrs := n.xattrs.filter (· ≠ a) } (by simp [hnf]) (by simpa using hn) (by simp)]
      simp only [logOp_inodes, logOp_log, upd_upd, stripNames, ha, if_true, List.map_cons, List.append_assoc, List.singleton_append,
        filter_strip_cons_mem]
      rfl
    · simp only [ha, if_false]
      rw [ih W n hnf hn hi]
      simp only [stripNames, ha, if_false, filter_strip_cons_not_mem _ a t ha]

/-- listing what is there and removing it leaves no attribute -/
theorem filter_not_mem_self (xs : List Rs.Str) : xs.filter (fun x => decide (x ∉ xs)) = [] := by
  apply List.filter_eq_nil_iff.mpr
  intro x hx; simp [hx]

theorem filter_not_mem_self' (xs : List Rs.Str) : xs.filter (fun x => !decide (x ∈ xs)) = [] := by
  apply List.filter_eq_nil_iff.mpr
  intro x hx; simp [hx]

/-- every removal of the strip loop is a removal of an attribute that was there -/
theorem stripNames_subset (xs l : List Rs.Str) : ∀ a ∈ stripNames xs l, a ∈ xs := by
  induction l generalizing xs with
  | nil => intro a h; simp [stripNames] at h
  | cons b t ih =>
    intro a h
    simp only [stripNames] at h
    split at h
    · rename_i hb
      rcases List.mem_cons.mp h with h | h
      · rw [h]; exact hb
      · exact (List.mem_filter.mp (ih _ a h)).1
    · exact ih _ a h

end SyModel.LocalCopy
