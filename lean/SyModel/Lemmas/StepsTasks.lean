/-
  SyModel.Lemmas.StepsTasks — paths, temp names and the footprints of task step lists.
-/
import SyModel.Lemmas.Steps
set_option linter.unusedVariables false
namespace SyModel.Engine

/-! ### prefixes and ancestors -/

theorem isPrefix_nil_right {d : Path} (h : isPrefix d [] = true) : d = [] := by
  cases d with
  | nil => rfl
  | cons a d => simp [isPrefix] at h

theorem isPrefix_trans {a b c : Path} (h1 : isPrefix a b = true) (h2 : isPrefix b c = true) :
    isPrefix a c = true := by
  induction a generalizing b c with
  | nil => rfl
  | cons x a ih =>
    cases b with
    | nil => simp [isPrefix] at h1
    | cons y b =>
      cases c with
      | nil => simp [isPrefix] at h2
      | cons z c =>
        simp only [isPrefix, Bool.and_eq_true, beq_iff_eq] at h1 h2 ⊢
        exact ⟨h1.1.trans h2.1, ih h1.2 h2.2⟩

theorem isPrefix_take (p : Path) (i : Nat) : isPrefix (p.take i) p = true := by
  induction p generalizing i with
  | nil => simp [isPrefix]
  | cons a p ih =>
    cases i with
    | zero => rfl
    | succ i => simp [isPrefix, ih]

theorem mem_ancestors {p q : Path} (h : q ∈ ancestors p) :
    ∃ i, 0 < i ∧ i < p.length ∧ q = p.take i := by
  unfold ancestors at h
  rw [List.mem_filterMap] at h
  obtain ⟨i, hi, hq⟩ := h
  rw [List.mem_range] at hi
  by_cases h0 : i = 0
  · simp [h0] at hq
  · simp only [h0, ↓reduceIte, Option.some.injEq] at hq
    exact ⟨i, Nat.pos_of_ne_zero h0, hi, hq.symm⟩

theorem ancestors_prefix {p q : Path} (h : q ∈ ancestors p) : isPrefix q p = true := by
  obtain ⟨i, _, _, rfl⟩ := mem_ancestors h
  exact isPrefix_take p i

theorem ancestors_ne {p q : Path} (h : q ∈ ancestors p) : q ≠ p := by
  obtain ⟨i, _, hi, rfl⟩ := mem_ancestors h
  intro he
  have := congrArg List.length he
  rw [List.length_take] at this; omega

theorem ancestors_ne_nil {p q : Path} (h : q ∈ ancestors p) : q ≠ [] := by
  obtain ⟨i, h0, hi, rfl⟩ := mem_ancestors h
  intro he
  have := congrArg List.length he
  rw [List.length_take, List.length_nil] at this; omega

/-! ### temp names -/

theorem tempOf_eq_nil {sfx : String} {p : Path} (h : tempOf sfx p = []) : p = [] := by
  cases p with
  | nil => rfl
  | cons a r => cases r <;> simp [tempOf] at h

theorem string_append_right_cancel {a b s : String} (h : a ++ s = b ++ s) : a = b := by
  have := congrArg String.toList h
  simp [String.toList_append] at this
  exact String.toList_inj.mp this

/-- appending the suffix to the last component is injective -/
theorem tempOf_inj (sfx : String) {p q : Path} (h : tempOf sfx p = tempOf sfx q) : p = q := by
  induction p generalizing q with
  | nil => exact (tempOf_eq_nil h.symm).symm
  | cons a r ih =>
    cases r with
    | nil =>
      cases q with
      | nil => simp [tempOf] at h
      | cons b r' =>
        cases r' with
        | nil => simp only [tempOf, List.cons.injEq, and_true] at h; rw [string_append_right_cancel h]
        | cons c r'' =>
          simp only [tempOf, List.cons.injEq] at h
          exact absurd (tempOf_eq_nil h.2.symm) (by simp)
    | cons a' r2 =>
      cases q with
      | nil => simp [tempOf] at h
      | cons b r' =>
        cases r' with
        | nil =>
          simp only [tempOf, List.cons.injEq] at h
          exact absurd (tempOf_eq_nil h.2) (by simp)
        | cons c r'' =>
          simp only [tempOf, List.cons.injEq] at h
          rw [h.1, ih h.2]

theorem tempOf_ne (sfx : String) (hs : sfx ≠ "") {p : Path} (hp : p ≠ []) : tempOf sfx p ≠ p := by
  induction p with
  | nil => exact absurd rfl hp
  | cons a r ih =>
    cases r with
    | nil =>
      simp only [tempOf, ne_eq, List.cons.injEq, and_true]
      intro h
      apply hs
      have := congrArg String.toList h
      simp [String.toList_append] at this
      exact String.toList_inj.mp (by simpa using this)
    | cons b r' =>
      simp only [tempOf, ne_eq, List.cons.injEq, true_and]
      exact ih (by simp)

/-- a prefix of a temp path is the temp path itself or a prefix of the destination path -/
theorem isPrefix_tempOf {sfx : String} {d p : Path} (h : isPrefix d (tempOf sfx p) = true) :
    d = tempOf sfx p ∨ isPrefix d p = true := by
  induction p generalizing d with
  | nil => simp only [tempOf] at h; left; exact isPrefix_nil_right h
  | cons a r ih =>
    cases d with
    | nil => right; rfl
    | cons c d' =>
      cases r with
      | nil =>
        simp only [tempOf, isPrefix, Bool.and_eq_true, beq_iff_eq] at h
        left; rw [h.1, isPrefix_nil_right h.2]; rfl
      | cons b r' =>
        simp only [tempOf, isPrefix, Bool.and_eq_true, beq_iff_eq] at h
        rcases ih h.2 with h' | h'
        · left; rw [h.1, h']; rfl
        · right; simp [isPrefix, h.1, h']


/-! ### what the step lists of a task touch -/

/-- a single-path, non-`mkdir` step at `p` -/
def At (p : Path) (s : Step) : Prop := s.single = true ∧ s.path = p ∧ s.isMkdir = false

theorem At.touches {p : Path} {s : Step} (h : At p s) {x : Path} (hx : s.touches x = true) : x = p := by
  rw [touches_single s h.1] at hx
  rw [← h.2.1]; simpa using hx

theorem mem_mkdirChain {p : Path} {s : Step} (h : s ∈ mkdirChain p) : ∃ q ∈ ancestors p, s = .mkdir q := by
  unfold mkdirChain at h
  obtain ⟨q, hq, rfl⟩ := List.mem_map.mp h
  exact ⟨q, hq, rfl⟩

theorem mem_growSteps {p : Path} {c ch sz : Nat} {s : Step} (h : s ∈ growSteps p c ch sz) :
    ∃ u ∈ uptos ch sz, s = .grow p c u := by
  unfold growSteps at h
  obtain ⟨u, hu, rfl⟩ := List.mem_map.mp h
  exact ⟨u, hu, rfl⟩

theorem mem_fillSteps {p : Path} {c ch sz : Nat} {s : Step} (h : s ∈ fillSteps p c ch sz) :
    ∃ u ∈ uptos ch sz, s = .fill p c u := by
  unfold fillSteps at h
  obtain ⟨u, hu, rfl⟩ := List.mem_map.mp h
  exact ⟨u, hu, rfl⟩

theorem writeSteps_at {p : Path} {m : FileMeta} {ch now : Nat} {s : Step}
    (h : s ∈ writeSteps p m ch now) : At p s := by
  unfold writeSteps at h
  simp only [List.mem_append, List.mem_cons, List.not_mem_nil, or_false] at h
  rcases h with (rfl | h) | rfl
  · exact ⟨rfl, rfl, rfl⟩
  · obtain ⟨u, _, rfl⟩ := mem_growSteps h; exact ⟨rfl, rfl, rfl⟩
  · exact ⟨rfl, rfl, rfl⟩

theorem fullCopySteps_class {p : Path} {m : FileMeta} {ch : Nat} {h : Hint} {s : Step}
    (hs : s ∈ fullCopySteps p m ch h) : (∃ q ∈ ancestors p, s = .mkdir q) ∨ At p s := by
  unfold fullCopySteps at hs
  simp only [List.mem_append, List.mem_cons, List.not_mem_nil, or_false] at hs
  rcases hs with ((hs | rfl) | hs) | hs
  · exact Or.inl (mem_mkdirChain hs)
  · exact Or.inr ⟨rfl, rfl, rfl⟩
  · split at hs
    · simp at hs; subst hs; exact Or.inr ⟨rfl, rfl, rfl⟩
    · simp at hs
  · exact Or.inr (writeSteps_at hs)

theorem sparseSeekSteps_at {p : Path} {m : FileMeta} {ch now : Nat} {s : Step}
    (h : s ∈ sparseSeekSteps p m ch now) : At p s := by
  unfold sparseSeekSteps at h
  simp only [List.mem_append, List.mem_cons, List.not_mem_nil, or_false] at h
  rcases h with rfl | h
  · exact ⟨rfl, rfl, rfl⟩
  · exact writeSteps_at h

theorem sparseBlocksSteps_at {p : Path} {m : FileMeta} {ch now : Nat} {s : Step}
    (h : s ∈ sparseBlocksSteps p m ch now) : At p s := by
  unfold sparseBlocksSteps at h
  simp only [List.mem_append, List.mem_cons, List.not_mem_nil, or_false] at h
  rcases h with ((rfl | rfl | rfl) | h) | rfl
  · exact ⟨rfl, rfl, rfl⟩
  · exact ⟨rfl, rfl, rfl⟩
  · exact ⟨rfl, rfl, rfl⟩
  · obtain ⟨u, _, rfl⟩ := mem_fillSteps h; exact ⟨rfl, rfl, rfl⟩
  · exact ⟨rfl, rfl, rfl⟩

/-- a step of the temp+rename section touches the temp path and the destination only -/
def OnTemp (sfx : String) (p : Path) (s : Step) : Prop :=
  ∀ x, s.touches x = true → x = p ∨ x = tempOf sfx p

theorem deltaSteps_onTemp {sfx : String} {p : Path} {m : FileMeta} {s : Step}
    (h : s ∈ deltaSteps sfx p m) : OnTemp sfx p s ∧ s.isMkdir = false ∧ s.isDeletion = false := by
  unfold deltaSteps at h
  simp only [List.mem_cons, List.not_mem_nil, or_false] at h
  rcases h with rfl | rfl
  · refine ⟨?_, rfl, rfl⟩; intro x hx; simp [Step.touches] at hx; exact Or.inr hx
  · refine ⟨?_, rfl, rfl⟩; intro x hx; simp [Step.touches] at hx; exact hx.symm

theorem updateSteps_class {thr ch : Nat} {sfx : String} {h : Hint} {old : Option DNode} {p : Path}
    {m : FileMeta} {s : Step} (hs : s ∈ updateSteps thr ch sfx h old p m) :
    (∃ q ∈ ancestors p, s = .mkdir q) ∨ At p s ∨ (OnTemp sfx p s ∧ s.isMkdir = false ∧ s.isDeletion = false) := by
  unfold updateSteps at hs
  split at hs
  · split at hs
    · rcases fullCopySteps_class hs with h | h
      · exact Or.inl h
      · exact Or.inr (Or.inl h)
    · split at hs
      · exact Or.inr (Or.inr (deltaSteps_onTemp hs))
      · simp only [List.mem_append] at hs
        rcases hs with hs | hs
        · split at hs
          · simp at hs; subst hs; exact Or.inr (Or.inl ⟨rfl, rfl, rfl⟩)
          · simp at hs
        · exact Or.inr (Or.inl (writeSteps_at hs))
      · exact Or.inr (Or.inl (sparseSeekSteps_at hs))
      · exact Or.inr (Or.inl (sparseBlocksSteps_at hs))
      · rcases fullCopySteps_class hs with h | h
        · exact Or.inl h
        · exact Or.inr (Or.inl h)
  · rcases fullCopySteps_class hs with h | h
    · exact Or.inl h
    · exact Or.inr (Or.inl h)

theorem symlinkSteps_class {old : Option DNode} {p : Path} {text : String} {s : Step}
    (hs : s ∈ symlinkSteps old p text) : (∃ q ∈ ancestors p, s = .mkdir q) ∨ At p s := by
  unfold symlinkSteps at hs
  simp only [List.mem_append, List.mem_cons, List.not_mem_nil, or_false] at hs
  rcases hs with (hs | hs) | rfl
  · exact Or.inl (mem_mkdirChain hs)
  · split at hs
    · simp at hs
    · simp at hs
    · simp at hs; subst hs; exact Or.inr ⟨rfl, rfl, rfl⟩
  · exact Or.inr ⟨rfl, rfl, rfl⟩

def Payload.isFile : Payload → Bool
  | .file _ _ => true
  | _ => false

/-- a task that may go through temp + rename -/
def Task.mayDelta (t : Task) : Prop := t.act = .update ∧ t.payload.isFile = true

instance (t : Task) : Decidable t.mayDelta := by unfold Task.mayDelta; exact inferInstance

/-- the paths a task may touch apart from `mkdir`s of its ancestor chain -/
def InFoot (sfx : String) (t : Task) (x : Path) : Prop :=
  x = t.rel ∨
  (x = tempOf sfx t.rel ∧ t.mayDelta) ∨
  (t.act = .delete ∧ isPrefix t.rel x = true)

/-- classification of every step of a task's list -/
theorem stepsOfH_class {cfg : Cfg} {thr ch : Nat} {sfx : String} {h : Hint} {old : Option DNode}
    {t : Task} {s : Step} (hs : s ∈ stepsOfH cfg thr ch sfx h old t) :
    (∃ q, s = .mkdir q ∧ t.act ≠ .delete ∧ (q ∈ ancestors t.rel ∨ (q = t.rel ∧ t.payload = .dir))) ∨
    ((∀ x, s.touches x = true → InFoot sfx t x) ∧ s.isMkdir = false ∧
      (t.act = .delete → s.isDeletion = true)) := by
  unfold stepsOfH at hs
  split at hs
  · simp at hs
  split at hs
  · simp at hs
  · -- delete
    rename_i hact
    split at hs
    · simp at hs; subst hs
      right; refine ⟨?_, rfl, fun _ => rfl⟩
      intro x hx; exact Or.inr (Or.inr ⟨hact, hx⟩)
    · simp at hs; subst hs
      right; refine ⟨?_, rfl, fun _ => rfl⟩
      intro x hx; simp [Step.touches] at hx; exact Or.inl hx
    · simp at hs
  · -- create
    rename_i hact
    split at hs
    · simp at hs
    · rename_i hpay
      unfold dirSteps at hs
      split at hs
      · simp at hs
      · simp only [List.mem_append, List.mem_cons, List.not_mem_nil, or_false] at hs
        rcases hs with hs | rfl
        · obtain ⟨q, hq, rfl⟩ := mem_mkdirChain hs
          exact Or.inl ⟨q, rfl, by simp [hact], Or.inl hq⟩
        · exact Or.inl ⟨t.rel, rfl, by simp [hact], Or.inr ⟨rfl, hpay⟩⟩
    · rcases symlinkSteps_class hs with ⟨q, hq, rfl⟩ | h
      · exact Or.inl ⟨q, rfl, by simp [hact], Or.inl hq⟩
      · exact Or.inr ⟨fun x hx => Or.inl (h.touches hx), h.2.2, by simp [hact]⟩
    · rcases fullCopySteps_class hs with ⟨q, hq, rfl⟩ | h
      · exact Or.inl ⟨q, rfl, by simp [hact], Or.inl hq⟩
      · exact Or.inr ⟨fun x hx => Or.inl (h.touches hx), h.2.2, by simp [hact]⟩
  · -- update
    rename_i hact
    split at hs
    · simp at hs
    · -- a directory over a link: the conditional unlink at the path itself, then `create_dir_all`
      rename_i hpay
      simp only [List.singleton_append, List.mem_cons] at hs
      rcases hs with rfl | hs
      · right; refine ⟨?_, rfl, by simp [hact]⟩
        intro x hx; simp [Step.touches] at hx; exact Or.inl hx
      · unfold dirSteps at hs
        split at hs
        · simp at hs
        · simp only [List.mem_append, List.mem_cons, List.not_mem_nil, or_false] at hs
          rcases hs with hs | rfl
          · obtain ⟨q, hq, rfl⟩ := mem_mkdirChain hs
            exact Or.inl ⟨q, rfl, by simp [hact], Or.inl hq⟩
          · exact Or.inl ⟨t.rel, rfl, by simp [hact], Or.inr ⟨rfl, hpay⟩⟩
    · rcases symlinkSteps_class hs with ⟨q, hq, rfl⟩ | h
      · exact Or.inl ⟨q, rfl, by simp [hact], Or.inl hq⟩
      · exact Or.inr ⟨fun x hx => Or.inl (h.touches hx), h.2.2, by simp [hact]⟩
    · rename_i m n hpay
      split at hs
      · rcases fullCopySteps_class hs with ⟨q, hq, rfl⟩ | h
        · exact Or.inl ⟨q, rfl, by simp [hact], Or.inl hq⟩
        · exact Or.inr ⟨fun x hx => Or.inl (h.touches hx), h.2.2, by simp [hact]⟩
      · simp only [List.mem_append, List.mem_cons, List.not_mem_nil, or_false] at hs
        rcases hs with rfl | hs
        · right; refine ⟨?_, rfl, by simp [hact]⟩
          intro x hx; simp [Step.touches] at hx; exact Or.inl hx
        · rcases updateSteps_class hs with ⟨q, hq, rfl⟩ | h | ⟨h, hm, _⟩
          · exact Or.inl ⟨q, rfl, by simp [hact], Or.inl hq⟩
          · exact Or.inr ⟨fun x hx => Or.inl (h.touches hx), h.2.2, by simp [hact]⟩
          · right; refine ⟨?_, hm, by simp [hact]⟩
            intro x hx
            rcases h x hx with h' | h'
            · exact Or.inl h'
            · exact Or.inr (Or.inl ⟨h', hact, by simp [hpay, Payload.isFile]⟩)


theorem stepsOfH_skip {cfg : Cfg} {thr ch : Nat} {sfx : String} {h : Hint} {old : Option DNode}
    {t : Task} (hs : t.act = .skip) : stepsOfH cfg thr ch sfx h old t = [] := by
  unfold stepsOfH; simp [hs]

/-- the step list of a directory CREATION is made of `mkdir`s only (the replacement of a link by a directory —
    `update` with a directory payload, fix 862af11 — starts with a conditional unlink at the path) -/
theorem stepsOfH_dir_mkdir {cfg : Cfg} {thr ch : Nat} {sfx : String} {h : Hint} {old : Option DNode}
    {t : Task} (hd : t.payload = .dir) (hnd : t.act ≠ .delete) (hnu : t.act ≠ .update) {s : Step}
    (hs : s ∈ stepsOfH cfg thr ch sfx h old t) : s.isMkdir = true := by
  unfold stepsOfH at hs
  split at hs
  · simp at hs
  split at hs
  · simp at hs
  · rename_i hact; exact absurd hact hnd
  · simp only [hd] at hs
    unfold dirSteps at hs
    split at hs
    · simp at hs
    · simp only [List.mem_append, List.mem_cons, List.not_mem_nil, or_false] at hs
      rcases hs with hs | rfl
      · obtain ⟨q, _, rfl⟩ := mem_mkdirChain hs; rfl
      · rfl
  · rename_i hact; exact absurd hact hnu

/-! ### hypotheses of the plan-level theorems -/

/-- the tasks of a run are laid out like a plan over a tree -/
structure PlanOK (tasks : List Task) : Prop where
  /-- one task per relative path -/
  uniq : tasks.Pairwise (fun a b => a.rel ≠ b.rel)
  /-- a path that is written as a file or a link is not a proper prefix of another planned path
      (in a scanned tree only directories have entries below them) — nor is the path of a directory
      that REPLACES a destination link (`update` with a directory payload, fix 862af11): the engine
      completes those replacements before any other task starts (src/sync/mod.rs, `deletions_first`
      barrier), so a replaced link with planned entries below it is not part of the FREE
      interleaving this structure describes -/
  tree : ∀ t1 ∈ tasks, ∀ t2 ∈ tasks, t1.rel ≠ t2.rel → (t2.payload = .dir → t2.act = .update) →
    t2.act ≠ .delete → t2.act ≠ .skip → isPrefix t2.rel t1.rel = false
  /-- delete tasks target paths that are not above (or equal to) any path written in this run
      (`plan_deletions` only lists entries absent from the scan, and the scan contains the
      parents of everything it contains) -/
  delClear : ∀ d ∈ tasks, d.act = .delete → ∀ t ∈ tasks, t.act ≠ .delete → t.act ≠ .skip →
    isPrefix d.rel t.rel = false

/-- the temp path of every task that may use one is not a planned path nor an ancestor of one,
    and nothing exists there (injectivity of the naming is a theorem: `tempOf_inj`) -/
structure TempFresh (sfx : String) (tasks : List Task) (w : SWorld) : Prop where
  notPlanned : ∀ t ∈ tasks, t.mayDelta → ∀ t' ∈ tasks, isPrefix (tempOf sfx t.rel) t'.rel = false
  notExisting : ∀ t ∈ tasks, t.mayDelta → w (tempOf sfx t.rel) = none

theorem foot_disjoint {sfx : String} {tasks : List Task} {w : SWorld} (hok : PlanOK tasks)
    (hf : TempFresh sfx tasks w) {t1 t2 : Task} (h1 : t1 ∈ tasks) (h2 : t2 ∈ tasks)
    (hne : t1.rel ≠ t2.rel) (hs1 : t1.act ≠ .skip) (hs2 : t2.act ≠ .skip)
    (hdel : ¬ (t1.act = .delete ∧ t2.act = .delete)) {x : Path}
    (hx1 : InFoot sfx t1 x) (hx2 : InFoot sfx t2 x) : False := by
  have key : ∀ {a b : Task}, a ∈ tasks → b ∈ tasks → a.rel ≠ b.rel → a.act ≠ .skip → b.act ≠ .skip →
      ¬ (a.act = .delete ∧ b.act = .delete) →
      (x = a.rel ∨ (x = tempOf sfx a.rel ∧ a.mayDelta)) → (b.act = .delete ∧ isPrefix b.rel x = true) → False := by
    intro a b ha hb hab hsa hsb hdd hxa ⟨hbd, hbx⟩
    have had : a.act ≠ .delete := fun h => hdd ⟨h, hbd⟩
    rcases hxa with rfl | ⟨rfl, hm⟩
    · have := hok.delClear b hb hbd a ha had hsa; rw [this] at hbx; cases hbx
    · rcases isPrefix_tempOf hbx with h | h
      · have := hf.notPlanned a ha hm b hb
        rw [← h, isPrefix_refl] at this; cases this
      · have := hok.delClear b hb hbd a ha had hsa; rw [this] at h; cases h
  rcases hx1 with rfl | ⟨rfl, hm1⟩ | hd1
  · rcases hx2 with h | ⟨h, hm2⟩ | hd2
    · exact hne h
    · have := hf.notPlanned t2 h2 hm2 t1 h1
      rw [← h, isPrefix_refl] at this; cases this
    · exact key h1 h2 hne hs1 hs2 hdel (Or.inl rfl) hd2
  · rcases hx2 with h | ⟨h, hm2⟩ | hd2
    · have := hf.notPlanned t1 h1 hm1 t2 h2
      rw [h, isPrefix_refl] at this; cases this
    · exact hne (tempOf_inj sfx h)
    · exact key h1 h2 hne hs1 hs2 hdel (Or.inr ⟨rfl, hm1⟩) hd2
  · have hdel' : ¬ (t2.act = .delete ∧ t1.act = .delete) := fun h => hdel ⟨h.2, h.1⟩
    rcases hx2 with h | ⟨h, hm2⟩ | hd2
    · exact key h2 h1 (Ne.symm hne) hs2 hs1 hdel' (Or.inl h) hd1
    · exact key h2 h1 (Ne.symm hne) hs2 hs1 hdel' (Or.inr ⟨h, hm2⟩) hd1
    · exact hdel ⟨hd1.1, hd2.1⟩

theorem InFoot.mayDelta {sfx : String} {t : Task} {x : Path} (h : InFoot sfx t x) :
    x = t.rel ∨ (x = tempOf sfx t.rel ∧ t.mayDelta) ∨ (t.act = .delete ∧ isPrefix t.rel x = true) := h

/-- the step lists of two different tasks of a well-laid-out plan are independent -/
theorem tasks_indep {cfg : Cfg} {thr ch : Nat} {sfx : String} {tasks : List Task} {w : SWorld}
    (hok : PlanOK tasks) (hf : TempFresh sfx tasks w) {t1 t2 : Task} (h1 : t1 ∈ tasks)
    (h2 : t2 ∈ tasks) (hne : t1.rel ≠ t2.rel) (hh1 hh2 : Hint) (o1 o2 : Option DNode) :
    IndepLists (stepsOfH cfg thr ch sfx hh1 o1 t1) (stepsOfH cfg thr ch sfx hh2 o2 t2) := by
  -- a mkdir of a's chain against a footprint step of b
  have aux : ∀ {a b : Task} {ha' hb' : Hint} {oa ob : Option DNode}, a ∈ tasks → b ∈ tasks → a.rel ≠ b.rel →
      ∀ q, a.act ≠ .delete → a.act ≠ .skip → isPrefix q a.rel = true →
      ∀ s ∈ stepsOfH cfg thr ch sfx hb' ob b, (∀ x, s.touches x = true → InFoot sfx b x) →
        s.isMkdir = false → ∀ x, ¬ ((Step.mkdir q).touches x = true ∧ s.touches x = true) := by
    intro a b ha' hb' oa ob ha hb hab q had has hq s hs hfoot hnm x ⟨hx1, hx2⟩
    simp only [Step.touches, beq_iff_eq] at hx1
    subst hx1
    have hbs : b.act ≠ .skip := by
      intro h; rw [stepsOfH_skip h] at hs; simp at hs
    rcases hfoot x hx2 with h | ⟨h, hm⟩ | ⟨hbd, hbx⟩
    · by_cases hbd : b.act = .delete
      · have := hok.delClear b hb hbd a ha had has
        rw [← h, hq] at this; cases this
      · have hbp : b.payload = .dir → b.act = .update := by
          intro hp
          apply Classical.byContradiction
          intro hnu
          have := stepsOfH_dir_mkdir hp hbd hnu hs
          rw [hnm] at this; cases this
        have := hok.tree a ha b hb hab hbp hbd hbs
        rw [← h, hq] at this; cases this
    · have := hf.notPlanned b hb hm a ha
      rw [← h, hq] at this; cases this
    · have := hok.delClear b hb hbd a ha had has
      rw [isPrefix_trans hbx hq] at this; cases this
  intro s1 hs1 s2 hs2
  have hk1 : t1.act ≠ .skip := by intro h; rw [stepsOfH_skip h] at hs1; simp at hs1
  have hk2 : t2.act ≠ .skip := by intro h; rw [stepsOfH_skip h] at hs2; simp at hs2
  rcases stepsOfH_class hs1 with ⟨q1, rfl, hd1, hq1⟩ | ⟨hf1, hm1, hdl1⟩
  · have hp1 : isPrefix q1 t1.rel = true := by
      rcases hq1 with h | ⟨h, _⟩
      · exact ancestors_prefix h
      · rw [h]; exact isPrefix_refl _
    rcases stepsOfH_class hs2 with ⟨q2, rfl, hd2, hq2⟩ | ⟨hf2, hm2, hdl2⟩
    · by_cases hqq : q1 = q2
      · subst hqq; exact Or.inr (Or.inl ⟨q1, rfl, rfl⟩)
      · left; intro x ⟨hx1, hx2⟩
        simp only [Step.touches, beq_iff_eq] at hx1 hx2
        exact hqq (hx1 ▸ hx2)
    · exact Or.inl (aux (ha' := hh1) (oa := o1) h1 h2 hne q1 hd1 hk1 hp1 s2 hs2 hf2 hm2)
  · rcases stepsOfH_class hs2 with ⟨q2, rfl, hd2, hq2⟩ | ⟨hf2, hm2, hdl2⟩
    · have hp2 : isPrefix q2 t2.rel = true := by
        rcases hq2 with h | ⟨h, _⟩
        · exact ancestors_prefix h
        · rw [h]; exact isPrefix_refl _
      left; intro x ⟨hx1, hx2⟩
      exact aux (ha' := hh2) (oa := o2) h2 h1 (Ne.symm hne) q2 hd2 hk2 hp2 s1 hs1 hf1 hm1 x ⟨hx2, hx1⟩
    · by_cases hdd : t1.act = .delete ∧ t2.act = .delete
      · exact Or.inr (Or.inr ⟨hdl1 hdd.1, hdl2 hdd.2⟩)
      · left; intro x ⟨hx1, hx2⟩
        exact foot_disjoint hok hf h1 h2 hne hk1 hk2 hdd (hf1 x hx1) (hf2 x hx2)

/-- … hence the lists of all (non-link) tasks are pairwise independent -/
theorem taskLists_indep {cfg : Cfg} {thr ch : Nat} {sfx : String} {tasks : List Task} {w : SWorld}
    (hok : PlanOK tasks) (hf : TempFresh sfx tasks w) (hint : Task → Hint) (dst : Map DNode) :
    PairwiseIndep (taskLists cfg thr ch sfx hint dst tasks) := by
  unfold PairwiseIndep taskLists
  rw [List.pairwise_map]
  have hu : tasks.Pairwise (fun a b => a ∈ tasks ∧ b ∈ tasks ∧ a.rel ≠ b.rel) := by
    have := hok.uniq
    exact List.Pairwise.imp_of_mem (fun {a b} ha hb hab => ⟨ha, hb, hab⟩) this
  exact (hu.filter _).imp fun {a b} ⟨ha, hb, hab⟩ => tasks_indep hok hf ha hb hab _ _ _ _

end SyModel.Engine
