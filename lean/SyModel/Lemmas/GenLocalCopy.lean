/-
  Lemmas.GenLocalCopy — PART 2 (all proved): executing the translated unit `LocalCopy` in the world of
  `Lemmas/GenLocalCopyWorld.lean`.

    §1  running `Rs.M`; `prim` without a pending fault
    §2  bytes as numbers (`ofU8`) and the `List Nat` twins of `writeAt` / `setLen`
    §3  the two block loops as pure step functions over a loop world, and their relation to
        `Transfer.inPlaceGo` / `Transfer.cowGo`
-/
import SyModel.Lemmas.GenLocalCopyWorld
import SyModel.Lemmas.TransferRoute
set_option autoImplicit false
set_option linter.unusedSimpArgs false
set_option linter.unusedVariables false
namespace SyModel.LocalCopy
open SyModel SyModel.Generated SyModel.Generated.LocalCopy SyModel.Transfer
open SyModel.Compress (writeAt setLen zeros)

/-! ## §1 running the monad -/

@[simp] theorem upd_same {κ ν : Type} [DecidableEq κ] (f : κ → ν) (k : κ) (v : ν) : upd f k v k = v := by simp [upd]
theorem upd_ne {κ ν : Type} [DecidableEq κ] (f : κ → ν) {k x : κ} (v : ν) (h : x ≠ k) : upd f k v x = f x := by simp [upd, h]
@[simp] theorem upd_upd {κ ν : Type} [DecidableEq κ] (f : κ → ν) (k : κ) (v v' : ν) : upd (upd f k v) k v' = upd f k v' := by
  funext x; simp only [upd]; split <;> rfl
theorem upd_comm {κ ν : Type} [DecidableEq κ] (f : κ → ν) {k k' : κ} (v v' : ν) (h : k ≠ k') :
    upd (upd f k v) k' v' = upd (upd f k' v') k v := by
  funext x; simp only [upd]; split <;> split <;> simp_all

theorem upd_shadow3a {κ ν : Type} [DecidableEq κ] (f : κ → ν) {a b c : κ} (x y z x' : ν) (hab : a ≠ b) (hac : a ≠ c) :
    upd (upd (upd (upd f a x) b y) c z) a x' = upd (upd (upd f a x') b y) c z := by
  funext k; simp only [upd]; by_cases h1 : k = a <;> by_cases h2 : k = b <;> by_cases h3 : k = c <;> simp_all
theorem upd_shadow3b {κ ν : Type} [DecidableEq κ] (f : κ → ν) {a b c : κ} (x y z y' : ν) (hbc : b ≠ c) :
    upd (upd (upd (upd f a x) b y) c z) b y' = upd (upd (upd f a x) b y') c z := by
  funext k; simp only [upd]; by_cases h1 : k = a <;> by_cases h2 : k = b <;> by_cases h3 : k = c <;> simp_all

theorem run_bind {W α β : Type} (x : Rs.M W α) (f : α → Rs.M W β) (w : W) :
    (x >>= f) w = match x w with
      | (.ok a, w') => f a w'
      | (.error e, w') => (.error e, w') := by
  show (ExceptT.bind x f) w = _
  simp only [ExceptT.bind, ExceptT.mk]
  show (StateT.bind x _) w = _
  simp only [StateT.bind]
  rcases x w with ⟨r, w'⟩
  cases r <;> rfl

theorem run_map {W α β : Type} (g : α → β) (x : Rs.M W α) (w : W) :
    (g <$> x) w = match x w with
      | (.ok a, w') => (.ok (g a), w')
      | (.error e, w') => (.error e, w') := by
  rw [map_eq_pure_bind, run_bind]
  rcases x w with ⟨r, w'⟩
  cases r <;> rfl

theorem run_pure {W α : Type} (a : α) (w : W) : (pure a : Rs.M W α) w = (.ok a, w) := rfl
theorem run_throw {W α : Type} (e : Rs.Err) (w : W) : (throw e : Rs.M W α) w = (.error e, w) := rfl
theorem run_liftE_ok {W α : Type} (a : α) (w : W) : (Rs.liftE (.ok a) : Rs.M W α) w = (.ok a, w) := rfl
theorem run_liftE_error {W α : Type} (e : Rs.Err) (w : W) : (Rs.liftE (.error e) : Rs.M W α) w = (.error e, w) := rfl
theorem run_capture {W α : Type} (x : Rs.M W α) (w : W) : Rs.capture x w = (.ok (x w).1, (x w).2) := rfl

/-- no fault is pending: `prim f` is `f` -/
theorem prim_nf {α : Type} (f : Act α) (w : LWorld) (h : w.fault = none) :
    prim f w = match f w with
      | .ok (a, w') => (.ok a, w')
      | .error e => (.error e, w) := by
  unfold prim; rw [h]; rfl

theorem follow_of_not_symlink (names : Rs.Path → Option Node) (n : Nat) (p : Rs.Path)
    (h : ∀ t, names p ≠ some (.symlink t)) : follow names (n + 1) p = some p := by
  unfold follow
  split
  · rename_i t ht; exact absurd ht (h t)
  · rfl

theorem stat_of_file (w : LWorld) (p : Rs.Path) (i : Nat) (h : w.names p = some (.file i)) : w.stat p = some (.file i) := by
  unfold LWorld.stat
  rw [follow_of_not_symlink _ _ _ (by intro t; rw [h]; simp)]
  simpa using h

theorem stat_of_none (w : LWorld) (p : Rs.Path) (h : w.names p = none) : w.stat p = none := by
  unfold LWorld.stat
  rw [follow_of_not_symlink _ _ _ (by intro t; rw [h]; simp)]
  simpa using h

theorem inoOf_of_file (w : LWorld) (p : Rs.Path) (i : Nat) (h : w.names p = some (.file i)) : w.inoOf p = some i := by
  unfold LWorld.inoOf; rw [stat_of_file w p i h]

theorem follow_of_file (w : LWorld) (p : Rs.Path) (i : Nat) (h : w.names p = some (.file i)) :
    follow w.names LINK_FUEL p = some p := follow_of_not_symlink _ _ _ (by intro t; rw [h]; simp)

theorem follow_of_none (w : LWorld) (p : Rs.Path) (h : w.names p = none) :
    follow w.names LINK_FUEL p = some p := follow_of_not_symlink _ _ _ (by intro t; rw [h]; simp)

/-! ## §2 bytes as numbers -/

def ofU8 (l : Bytes) : List Nat := l.map UInt8.toNat

theorem ofU8_length (a : Bytes) : (ofU8 a).length = a.length := by simp [ofU8]
theorem ofU8_append (a b : Bytes) : ofU8 (a ++ b) = ofU8 a ++ ofU8 b := by simp [ofU8]
theorem ofU8_take (a : Bytes) (n : Nat) : (ofU8 a).take n = ofU8 (a.take n) := by simp [ofU8, List.map_take]
theorem ofU8_drop (a : Bytes) (n : Nat) : (ofU8 a).drop n = ofU8 (a.drop n) := by simp [ofU8, List.map_drop]
theorem ofU8_nil : ofU8 [] = [] := rfl
theorem ofU8_zeros (n : Nat) : ofU8 (zeros n) = zerosN n := by simp [ofU8, zeros, zerosN]

theorem ofU8_injective : ∀ (a b : Bytes), ofU8 a = ofU8 b → a = b := by
  intro a
  induction a with
  | nil => intro b h; cases b with
    | nil => rfl
    | cons y t => simp [ofU8] at h
  | cons x t ih =>
    intro b h
    cases b with
    | nil => simp [ofU8] at h
    | cons y u =>
      simp only [ofU8, List.map_cons, List.cons.injEq] at h
      rw [UInt8.toNat_inj] at h
      rw [h.1, ih u h.2]

theorem ofU8_beq (a b : Bytes) : (ofU8 a == ofU8 b) = (a == b) := by
  rw [Bool.eq_iff_iff]
  simp only [beq_iff_eq]
  exact ⟨ofU8_injective a b, fun h => by rw [h]⟩

theorem ofU8_isEmpty (a : Bytes) : (ofU8 a).isEmpty = a.isEmpty := by cases a <;> rfl

theorem ofU8_writeAt (t : Bytes) (off : Nat) (d : Bytes) : writeAtN (ofU8 t) off (ofU8 d) = ofU8 (writeAt t off d) := by
  unfold writeAtN writeAt
  rw [ofU8_isEmpty]
  split
  · rfl
  · rw [← ofU8_zeros, ← ofU8_append, ofU8_take, ofU8_length]
    simp only [ofU8_append, ofU8_drop, ofU8_length]

theorem ofU8_setLen (t : Bytes) (n : Nat) : setLenN (ofU8 t) n = ofU8 (setLen t n) := by
  unfold setLenN setLen
  rw [← ofU8_zeros, ofU8_take, ofU8_length, ofU8_append]

theorem ofU8_inj (a b : Bytes) : ofU8 a = ofU8 b ↔ a = b := ⟨ofU8_injective a b, fun h => by rw [h]⟩
theorem ofU8_eq_nil (a : Bytes) : ofU8 a = [] ↔ a = [] := by cases a <;> simp [ofU8]

/-- `&buf[..n]` of a buffer whose first `n` bytes were just read -/
theorem slice_ofU8 (X : Bytes) (Y : List Nat) : Rs.slice (ofU8 X ++ Y) 0 X.length = ofU8 X := by
  simp [Rs.slice, ← ofU8_length X]

/-- what a full read of at most `bs` bytes at position `off` delivers -/
theorem read_len (S : Bytes) (off bs : Nat) (buf : List Nat) (hb : buf.length = bs) :
    min buf.length ((ofU8 S).length - off) = ((S.drop off).take bs).length := by
  simp [ofU8_length, hb, List.length_take, List.length_drop]
theorem read_data (S : Bytes) (off bs : Nat) :
    List.take ((S.drop off).take bs).length (List.drop off (ofU8 S)) = ofU8 ((S.drop off).take bs) := by
  rw [ofU8_drop, ofU8_take]
  congr 1
  simp [List.take_take, List.length_take]

/-! ## §3 the block loops -/

/-- the world while a block loop runs.  `a` is the world just before the three descriptors are opened; `nh = a.nextHandle`,
    `nh+1`, `nh+2` read the source inode `is`, read the destination inode `id` and write the working file's inode `it`, at
    positions `spos`, `dpos`, `tpos`; the working file holds `T` (xattrs `xt`); `ws` are the `(offset, data)` pairs written
    by the loop so far, oldest first. -/
def loopW (a : LWorld) (is id it : Nat) (xt : List Rs.Str) (spos dpos tpos : Nat) (T : List Nat) (ws : List (Nat × List Nat)) : LWorld :=
  { a with handles := upd (upd (upd a.handles a.nextHandle (some ⟨is, spos, false⟩)) (a.nextHandle + 1) (some ⟨id, dpos, false⟩))
                        (a.nextHandle + 2) (some ⟨it, tpos, true⟩),
           nextHandle := a.nextHandle + 3,
           inodes := upd a.inodes it (some ⟨T, a.now, xt, 1⟩),
           log := a.log ++ ws.map (fun x => Op.write it x.1 x.2) }

/-- the loop state of the translated loops: `(source_buf, dest_buf, offset, bytes_written, literal_bytes, changed_blocks)` -/
abbrev LoopSt := List Nat × List Nat × Nat × Nat × Nat × Nat

def wsOf (st : Loop) : List (Nat × List Nat) := st.writes.reverse.map (fun x => (x.1, ofU8 x.2))

/-- the loop state of the model after one more iteration of the IN-PLACE loop (`inPlaceGo`, one unfolding) -/
def ipNext (bs : Nat) (S D : Bytes) (st : Loop) (dpos : Nat) : Loop :=
  let sb := (S.drop st.offset).take bs
  let db := (D.drop dpos).take bs
  let m := sb.length == db.length && sb == db
  { temp := writeAt st.temp st.offset sb, offset := st.offset + sb.length,
    changed := if m then st.changed else st.changed + 1,
    literal := if m then st.literal else st.literal + sb.length,
    writes := (st.offset, sb) :: st.writes }

/-- the same for the COW loop (`cowGo`) -/
def cowNext (bs : Nat) (S D : Bytes) (st : Loop) (dpos : Nat) : Loop :=
  let sb := (S.drop st.offset).take bs
  let db := (D.drop dpos).take bs
  let m := sb.length == db.length && sb == db
  if m then { st with offset := st.offset + sb.length } else
    { temp := writeAt st.temp st.offset sb, offset := st.offset + sb.length,
      changed := st.changed + 1, literal := st.literal + sb.length,
      writes := (st.offset, sb) :: st.writes }

theorem ipNext_offset (bs : Nat) (S D : Bytes) (st : Loop) (dpos : Nat) :
    (ipNext bs S D st dpos).offset = st.offset + ((S.drop st.offset).take bs).length := rfl
theorem cowNext_offset (bs : Nat) (S D : Bytes) (st : Loop) (dpos : Nat) :
    (cowNext bs S D st dpos).offset = st.offset + ((S.drop st.offset).take bs).length := by
  unfold cowNext; simp only; split <;> rfl

/-- one iteration of the IN-PLACE loop (local.rs:775-844) in a loop world, as a pure function -/
def ipStep (a : LWorld) (is id it : Nat) (xt : List Rs.Str) (bs : Nat) (S D : Bytes) (sbuf dbuf : List Nat)
    (st : Loop) (dpos tpos : Nat) : Except Rs.Err (ForInStep LoopSt) × LWorld :=
  let sb := (S.drop st.offset).take bs
  if sb = [] then
    (.ok (.done (sbuf, dbuf, st.offset, st.offset, st.literal, st.changed)),
      loopW a is id it xt st.offset dpos tpos (ofU8 st.temp) (wsOf st))
  else
    let db := (D.drop dpos).take bs
    let st' := ipNext bs S D st dpos
    (.ok (.yield (ofU8 sb ++ sbuf.drop sb.length, ofU8 db ++ dbuf.drop db.length, st'.offset, st'.offset, st'.literal, st'.changed)),
      loopW a is id it xt st'.offset (dpos + db.length) st'.offset (ofU8 st'.temp) (wsOf st'))

/-- one iteration of the COW loop (local.rs:633-703): only a non-matching block is written -/
def cowStep (a : LWorld) (is id it : Nat) (xt : List Rs.Str) (bs : Nat) (S D : Bytes) (sbuf dbuf : List Nat)
    (st : Loop) (dpos tpos : Nat) : Except Rs.Err (ForInStep LoopSt) × LWorld :=
  let sb := (S.drop st.offset).take bs
  if sb = [] then
    (.ok (.done (sbuf, dbuf, st.offset, st.offset, st.literal, st.changed)),
      loopW a is id it xt st.offset dpos tpos (ofU8 st.temp) (wsOf st))
  else
    let db := (D.drop dpos).take bs
    let m := sb.length == db.length && sb == db
    let st' := cowNext bs S D st dpos
    (.ok (.yield (ofU8 sb ++ sbuf.drop sb.length, ofU8 db ++ dbuf.drop db.length, st'.offset, st'.offset, st'.literal, st'.changed)),
      loopW a is id it xt st'.offset (dpos + db.length) (if m then tpos else st'.offset) (ofU8 st'.temp) (wsOf st'))

/-- what is NOT part of the model's loop state when a loop ends after at most `n` iterations: the two buffers and the
    positions of the destination reader and of the working file's descriptor -/
def ipRest (bs : Nat) (S D : Bytes) : Nat → List Nat → List Nat → Loop → Nat → Nat → List Nat × List Nat × Nat × Nat
  | 0, sbuf, dbuf, _, dpos, tpos => (sbuf, dbuf, dpos, tpos)
  | n + 1, sbuf, dbuf, st, dpos, tpos =>
    if (S.drop st.offset).take bs = [] then (sbuf, dbuf, dpos, tpos)
    else ipRest bs S D n (ofU8 ((S.drop st.offset).take bs) ++ sbuf.drop ((S.drop st.offset).take bs).length)
      (ofU8 ((D.drop dpos).take bs) ++ dbuf.drop ((D.drop dpos).take bs).length) (ipNext bs S D st dpos)
      (dpos + ((D.drop dpos).take bs).length) (ipNext bs S D st dpos).offset

def cowRest (bs : Nat) (S D : Bytes) : Nat → List Nat → List Nat → Loop → Nat → Nat → List Nat × List Nat × Nat × Nat
  | 0, sbuf, dbuf, _, dpos, tpos => (sbuf, dbuf, dpos, tpos)
  | n + 1, sbuf, dbuf, st, dpos, tpos =>
    if (S.drop st.offset).take bs = [] then (sbuf, dbuf, dpos, tpos)
    else cowRest bs S D n (ofU8 ((S.drop st.offset).take bs) ++ sbuf.drop ((S.drop st.offset).take bs).length)
      (ofU8 ((D.drop dpos).take bs) ++ dbuf.drop ((D.drop dpos).take bs).length) (cowNext bs S D st dpos)
      (dpos + ((D.drop dpos).take bs).length)
      (if (((S.drop st.offset).take bs).length == ((D.drop dpos).take bs).length &&
            (S.drop st.offset).take bs == (D.drop dpos).take bs) then tpos else (cowNext bs S D st dpos).offset)

theorem take_ne_nil_length {α : Type} (l : List α) (n : Nat) (h : l.take n ≠ []) : 0 < (l.take n).length :=
  List.length_pos_iff.mpr h

/-- a loop whose body is `ipStep` computes `inPlaceGo`: for every list of iteration indices longer than what is left of
    the source (the translation's fuel), whatever the buffers hold. -/
theorem inplace_forIn (a : LWorld) (is id it : Nat) (xt : List Rs.Str) (bs : Nat) (S D : Bytes)
    (f : Nat → LoopSt → Rs.M LWorld (ForInStep LoopSt)) (l : List Nat) (sbuf dbuf : List Nat) (st : Loop) (dpos tpos : Nat)
    (W : LWorld) (hW : W = loopW a is id it xt st.offset dpos tpos (ofU8 st.temp) (wsOf st))
    (hsb : sbuf.length = bs) (hdb : dbuf.length = bs) (hfuel : (S.drop st.offset).length < l.length)
    (hf : ∀ x sbuf dbuf st dpos tpos, sbuf.length = bs → dbuf.length = bs →
      f x (sbuf, dbuf, st.offset, st.offset, st.literal, st.changed)
        (loopW a is id it xt st.offset dpos tpos (ofU8 st.temp) (wsOf st)) = ipStep a is id it xt bs S D sbuf dbuf st dpos tpos) :
    forIn l (sbuf, dbuf, st.offset, st.offset, st.literal, st.changed) f W =
      (let r := inPlaceGo (fun _ => bs) (S.drop st.offset) (D.drop dpos) dpos st
       let q := ipRest bs S D l.length sbuf dbuf st dpos tpos
       (.ok (q.1, q.2.1, r.offset, r.offset, r.literal, r.changed),
        loopW a is id it xt r.offset q.2.2.1 q.2.2.2 (ofU8 r.temp) (wsOf r))) := by
  subst hW
  induction l generalizing sbuf dbuf st dpos tpos with
  | nil => simp at hfuel
  | cons x t ih =>
    rw [List.forIn_cons, run_bind, hf x sbuf dbuf st dpos tpos hsb hdb]
    unfold ipStep
    by_cases hnil : (S.drop st.offset).take bs = []
    · rw [inPlaceGo]
      simp [hnil, run_pure, ipRest]
    · simp only [hnil, if_false]
      have hpos := take_ne_nil_length _ _ hnil
      have hle : ((S.drop st.offset).take bs).length ≤ bs := by simp [List.length_take]; omega
      have hle2 : ((D.drop dpos).take bs).length ≤ bs := by simp [List.length_take]; omega
      have hle3 : ((S.drop st.offset).take bs).length ≤ (S.drop st.offset).length := by simp [List.length_take]; omega
      have hih := ih
        (sbuf := ofU8 ((S.drop st.offset).take bs) ++ sbuf.drop ((S.drop st.offset).take bs).length)
        (ofU8 ((D.drop dpos).take bs) ++ dbuf.drop ((D.drop dpos).take bs).length)
        (ipNext bs S D st dpos)
        (dpos + ((D.drop dpos).take bs).length) (ipNext bs S D st dpos).offset
        (by simp [ofU8_length, List.length_drop]; omega) (by simp [ofU8_length, List.length_drop]; omega)
        (by rw [ipNext_offset]; simp only [List.length_drop, List.length_cons] at *; omega)
      simp only at hih ⊢
      rw [hih]
      conv => rhs; rw [inPlaceGo]
      simp only [hnil, dite_false, List.drop_drop, ipRest, List.length_cons, if_false, ipNext_offset]
      rfl

/-- a loop whose body is `cowStep` computes `cowGo` -/
theorem cow_forIn (a : LWorld) (is id it : Nat) (xt : List Rs.Str) (bs : Nat) (S D : Bytes)
    (f : Nat → LoopSt → Rs.M LWorld (ForInStep LoopSt)) (l : List Nat) (sbuf dbuf : List Nat) (st : Loop) (dpos tpos : Nat)
    (W : LWorld) (hW : W = loopW a is id it xt st.offset dpos tpos (ofU8 st.temp) (wsOf st))
    (hsb : sbuf.length = bs) (hdb : dbuf.length = bs) (hfuel : (S.drop st.offset).length < l.length)
    (hf : ∀ x sbuf dbuf st dpos tpos, sbuf.length = bs → dbuf.length = bs →
      f x (sbuf, dbuf, st.offset, st.offset, st.literal, st.changed)
        (loopW a is id it xt st.offset dpos tpos (ofU8 st.temp) (wsOf st)) = cowStep a is id it xt bs S D sbuf dbuf st dpos tpos) :
    forIn l (sbuf, dbuf, st.offset, st.offset, st.literal, st.changed) f W =
      (let r := cowGo (fun _ => bs) (S.drop st.offset) (D.drop dpos) dpos st
       let q := cowRest bs S D l.length sbuf dbuf st dpos tpos
       (.ok (q.1, q.2.1, r.offset, r.offset, r.literal, r.changed),
        loopW a is id it xt r.offset q.2.2.1 q.2.2.2 (ofU8 r.temp) (wsOf r))) := by
  subst hW
  induction l generalizing sbuf dbuf st dpos tpos with
  | nil => simp at hfuel
  | cons x t ih =>
    rw [List.forIn_cons, run_bind, hf x sbuf dbuf st dpos tpos hsb hdb]
    unfold cowStep
    by_cases hnil : (S.drop st.offset).take bs = []
    · rw [cowGo]
      simp [hnil, run_pure, cowRest]
    · simp only [hnil, if_false]
      have hpos := take_ne_nil_length _ _ hnil
      have hle : ((S.drop st.offset).take bs).length ≤ bs := by simp [List.length_take]; omega
      have hle2 : ((D.drop dpos).take bs).length ≤ bs := by simp [List.length_take]; omega
      have hle3 : ((S.drop st.offset).take bs).length ≤ (S.drop st.offset).length := by simp [List.length_take]; omega
      have hih := ih
        (sbuf := ofU8 ((S.drop st.offset).take bs) ++ sbuf.drop ((S.drop st.offset).take bs).length)
        (ofU8 ((D.drop dpos).take bs) ++ dbuf.drop ((D.drop dpos).take bs).length)
        (cowNext bs S D st dpos)
        (dpos + ((D.drop dpos).take bs).length)
        (if (((S.drop st.offset).take bs).length == ((D.drop dpos).take bs).length &&
            (S.drop st.offset).take bs == (D.drop dpos).take bs) then tpos else (cowNext bs S D st dpos).offset)
        (by simp [ofU8_length, List.length_drop]; omega) (by simp [ofU8_length, List.length_drop]; omega)
        (by rw [cowNext_offset]; simp only [List.length_drop, List.length_cons] at *; omega)
      simp only at hih ⊢
      rw [hih]
      conv => rhs; rw [cowGo]
      simp only [hnil, dite_false, List.drop_drop, cowRest, List.length_cons, if_false, cowNext_offset]
      rfl

/-! ## §4 small pieces: projections, `remove_if_symlink`, `break_unshared_hard_link`, the parent, the xattr strip -/

@[simp] theorem logOp_fault (w : LWorld) (o : Op) : (w.logOp o).fault = w.fault := rfl
@[simp] theorem logOp_names (w : LWorld) (o : Op) : (w.logOp o).names = w.names := rfl
@[simp] theorem logOp_inodes (w : LWorld) (o : Op) : (w.logOp o).inodes = w.inodes := rfl
@[simp] theorem logOp_handles (w : LWorld) (o : Op) : (w.logOp o).handles = w.handles := rfl
@[simp] theorem logOp_nextHandle (w : LWorld) (o : Op) : (w.logOp o).nextHandle = w.nextHandle := rfl
@[simp] theorem logOp_nextIno (w : LWorld) (o : Op) : (w.logOp o).nextIno = w.nextIno := rfl
@[simp] theorem logOp_guards (w : LWorld) (o : Op) : (w.logOp o).guards = w.guards := rfl
@[simp] theorem logOp_now (w : LWorld) (o : Op) : (w.logOp o).now = w.now := rfl
@[simp] theorem logOp_log (w : LWorld) (o : Op) : (w.logOp o).log = w.log ++ [o] := rfl
@[simp] theorem decLink_fault (w : LWorld) (i : Nat) : (w.decLink i).fault = w.fault := by unfold LWorld.decLink; split <;> rfl
@[simp] theorem decLink_names (w : LWorld) (i : Nat) : (w.decLink i).names = w.names := by unfold LWorld.decLink; split <;> rfl
@[simp] theorem decLink_handles (w : LWorld) (i : Nat) : (w.decLink i).handles = w.handles := by unfold LWorld.decLink; split <;> rfl
@[simp] theorem decLink_nextHandle (w : LWorld) (i : Nat) : (w.decLink i).nextHandle = w.nextHandle := by unfold LWorld.decLink; split <;> rfl
@[simp] theorem decLink_nextIno (w : LWorld) (i : Nat) : (w.decLink i).nextIno = w.nextIno := by unfold LWorld.decLink; split <;> rfl
@[simp] theorem decLink_guards (w : LWorld) (i : Nat) : (w.decLink i).guards = w.guards := by unfold LWorld.decLink; split <;> rfl
@[simp] theorem decLink_now (w : LWorld) (i : Nat) : (w.decLink i).now = w.now := by unfold LWorld.decLink; split <;> rfl
@[simp] theorem decLink_log (w : LWorld) (i : Nat) : (w.decLink i).log = w.log := by unfold LWorld.decLink; split <;> rfl
theorem decLink_inodes_of (w : LWorld) (i : Nat) (n : Inode) (h : w.inodes i = some n) :
    (w.decLink i).inodes = upd w.inodes i (some { n with nlink := n.nlink - 1 }) := by unfold LWorld.decLink; rw [h]

@[simp] theorem loopW_fault (a : LWorld) (is id it : Nat) (xt : List Rs.Str) (sp dp tp : Nat) (T : List Nat) (ws : List (Nat × List Nat)) :
    (loopW a is id it xt sp dp tp T ws).fault = a.fault := rfl

/-! ### the fields of the instance, one by one (all `rfl`) -/
section Fields
variable (cfg : Cfg)
@[simp] theorem posix_try_exists : (posix cfg).try_exists = fun p => prim (existsAct p) := rfl
@[simp] theorem posix_tokio_fs_metadata : (posix cfg).tokio_fs_metadata = fun p => prim (metadataAct p) := rfl
@[simp] theorem posix_fs_metadata : (posix cfg).fs_metadata = fun p => prim (metadataAct p) := rfl
@[simp] theorem posix_tokio_fs_symlink_metadata : (posix cfg).tokio_fs_symlink_metadata = fun p => prim (lstatAct p) := rfl
@[simp] theorem posix_fs_symlink_metadata : (posix cfg).fs_symlink_metadata = fun p => prim (lstatAct p) := rfl
@[simp] theorem posix_create_dir_all : (posix cfg).create_dir_all = fun p => prim (createDirAllAct p) := rfl
@[simp] theorem posix_remove_file : (posix cfg).remove_file = fun p => prim (removeFileAct p) := rfl
@[simp] theorem posix_fs_copy : (posix cfg).fs_copy = fun s d => prim (fsCopyAct cfg s d) := rfl
@[simp] theorem posix_fs_rename : (posix cfg).fs_rename = fun q p => prim (renameAct q p) := rfl
@[simp] theorem posix_xattr_list : (posix cfg).xattr_list = fun p => prim (xattrListAct p) := rfl
@[simp] theorem posix_xattr_remove : (posix cfg).xattr_remove = fun p n => prim (xattrRemoveAct p n) := rfl
@[simp] theorem posix_filetime_set_file_mtime : (posix cfg).filetime_set_file_mtime = fun p t => prim (setMtimeAct p t) := rfl
@[simp] theorem posix_is_file_sparse : (posix cfg).is_file_sparse = fun m => pure cfg.sparse := rfl
@[simp] theorem posix_copy_sparse_file : (posix cfg).copy_sparse_file = fun s d => prim (copySparseAct s d) := rfl
@[simp] theorem posix_supports_cow_reflinks : (posix cfg).supports_cow_reflinks = fun p => pure cfg.cow := rfl
@[simp] theorem posix_same_filesystem : (posix cfg).same_filesystem = fun p q => pure cfg.sameFs := rfl
@[simp] theorem posix_has_hard_links : (posix cfg).has_hard_links = fun p => fun w => (.ok (hasHardLinks w p), w) := rfl
@[simp] theorem posix_working_file_path : (posix cfg).working_file_path = fun p => p ++ TEMP_SUFFIX := rfl
@[simp] theorem posix_TempFileGuard_new : (posix cfg).TempFileGuard_new = fun p => fun w => (.ok {}, { w with guards := p :: w.guards }) := rfl
@[simp] theorem posix_guard_defuse : (posix cfg).guard_defuse = fun g => fun w => (.ok (), { w with guards := w.guards.tail }) := rfl
@[simp] theorem posix_scope_exit : (posix cfg).scope_exit = fun u => fun w => (.ok (), w.guards.foldl dropGuard { w with guards := [] }) := rfl
@[simp] theorem posix_File_open : (posix cfg).File_open = fun p => prim (fileOpenAct p) := rfl
@[simp] theorem posix_File_create : (posix cfg).File_create = fun p => prim (fileCreateAct p) := rfl
@[simp] theorem posix_oo_open : (posix cfg).oo_open = fun o p => prim (ooOpenAct o p) := rfl
@[simp] theorem posix_Instant_now : (posix cfg).Instant_now = fun u => pure {} := rfl
@[simp] theorem posix_instant_elapsed : (posix cfg).instant_elapsed = fun i => pure 0 := rfl
@[simp] theorem posix_h_read : (posix cfg).h_read = fun h buf => prim (readAct h buf) := rfl
@[simp] theorem posix_h_read_exact : (posix cfg).h_read_exact = fun h buf => prim (readExactAct h buf) := rfl
@[simp] theorem posix_h_write_all : (posix cfg).h_write_all = fun h d => prim (writeAllAct h d) := rfl
@[simp] theorem posix_h_seek : (posix cfg).h_seek = fun h s => prim (seekAct h s) := rfl
@[simp] theorem posix_h_set_len : (posix cfg).h_set_len = fun h n => prim (setLenAct h n) := rfl
@[simp] theorem posix_h_flush : (posix cfg).h_flush = fun h => pure () := rfl
@[simp] theorem posix_verify_on_write : (posix cfg).verify_on_write = fun v => pure cfg.verifyOnWrite := rfl
@[simp] theorem posix_verify_block : (posix cfg).verify_block = fun v a b => pure (a == b) := rfl
@[simp] theorem posix_compute_data_checksum : (posix cfg).compute_data_checksum = fun v a => pure 0 := rfl
@[simp] theorem posix_to_hex : (posix cfg).to_hex = fun n => pure [] := rfl
@[simp] theorem posix_estimate_change_ratio : (posix cfg).estimate_change_ratio = fun _ _ _ _ _ => prim (fun w =>
    match cfg.ratio with
    | some b => .ok (⟨b, 0, 0, 0⟩, w)
    | none => .error .io) := rfl
end Fields

/-- what `remove_if_symlink p` leaves -/
def unlinkSym (w : LWorld) (p : Rs.Path) : LWorld :=
  match w.names p with
  | some (.symlink _) => { w with names := upd w.names p none }.logOp (.unlink p)
  | _ => w

@[simp] theorem unlinkSym_fault (w : LWorld) (p : Rs.Path) : (unlinkSym w p).fault = w.fault := by unfold unlinkSym; split <;> rfl

theorem unlinkSym_of_file (w : LWorld) (p : Rs.Path) (i : Nat) (h : w.names p = some (.file i)) : unlinkSym w p = w := by
  unfold unlinkSym; rw [h]
theorem unlinkSym_of_none (w : LWorld) (p : Rs.Path) (h : w.names p = none) : unlinkSym w p = w := by
  unfold unlinkSym; rw [h]
theorem unlinkSym_of_symlink (w : LWorld) (p t : Rs.Path) (h : w.names p = some (.symlink t)) :
    unlinkSym w p = { w with names := upd w.names p none, log := w.log ++ [.unlink p] } := by
  unfold unlinkSym; rw [h]; rfl

theorem remove_if_symlink_nf (cfg : Cfg) (w : LWorld) (p : Rs.Path) (hnf : w.fault = none) :
    remove_if_symlink (posix cfg) p w = (.ok (), unlinkSym w p) := by
  unfold remove_if_symlink unlinkSym
  simp only [run_bind, run_capture, posix_tokio_fs_symlink_metadata, posix_remove_file, prim_nf _ _ hnf, lstatAct]
  cases hn : w.names p with
  | none => simp [run_pure]
  | some nd =>
    cases nd with
    | dir => simp [run_pure, Rs.l_is_symlink, Rs.l_file_type]
    | symlink t => simp [run_pure, Rs.l_is_symlink, Rs.l_file_type, run_bind, prim_nf _ _ hnf, removeFileAct, hn]
    | file i =>
      cases hi : w.inodes i <;> simp [hi, run_pure, Rs.l_is_symlink, Rs.l_file_type]

/-- the directory `dest` lives in is there already (or `dest` is a bare name in the current directory):
    `create_dir_all(parent)` has nothing to do -/
def ParentReady (w : LWorld) (p : Rs.Path) : Prop :=
  ∀ d, Rs.parent p = some d → d = [] ∨ (∃ nd, w.names d = some nd) ∧ w.stat d = some .dir

theorem create_parent_nf (cfg : Cfg) (self : LocalTransport) (w : LWorld) (d : Rs.Path) (hnf : w.fault = none)
    (h : d = [] ∨ (∃ nd, w.names d = some nd) ∧ w.stat d = some .dir) :
    LocalTransport.create_dir_all (posix cfg) self d w = (.ok (), w) := by
  unfold LocalTransport.create_dir_all
  simp only [posix_create_dir_all, prim_nf _ _ hnf, createDirAllAct]
  rcases h with h | ⟨⟨nd, h1⟩, h2⟩
  · simp [h]
  · by_cases hd : d = []
    · simp [hd]
    · simp [hd, h1, h2]

/-- the world after `TempFileGuard::new(temp)`, `File::create(temp)` on a free name and `set_len(n)` (in-place strategy,
    local.rs:724-739): a new inode of `n` zero bytes under the name `temp`, one (write-only) descriptor on it -/
def tempW (w : LWorld) (temp : Rs.Path) (n : Nat) : LWorld :=
  { w with names := upd w.names temp (some (.file w.nextIno)),
           inodes := upd w.inodes w.nextIno (some ⟨setLenN [] n, w.now, [], 1⟩),
           nextIno := w.nextIno + 1,
           handles := upd w.handles w.nextHandle (some ⟨w.nextIno, 0, true⟩),
           nextHandle := w.nextHandle + 1,
           guards := temp :: w.guards,
           log := w.log ++ [.create temp w.nextIno, .setLen w.nextIno n] }

/-- the initial loop state of the in-place strategy -/
@[reducible] def ipInit (S : Bytes) : Loop := { temp := setLen [] S.length, offset := 0, changed := 0, literal := 0, writes := [] }
/-- the initial loop state of the COW strategy -/
@[reducible] def cowInit (D : Bytes) : Loop := { temp := D, offset := 0, changed := 0, literal := 0, writes := [] }

/-- the working-file path is free, or holds a symlink (which `fs::remove_file(&temp_dest)` unlinks first) -/
def TempOK (w : LWorld) (p : Rs.Path) : Prop := w.names p = none ∨ ∃ t, w.names p = some (.symlink t)

theorem unlinkSym_names_ne (w : LWorld) (p q : Rs.Path) (h : q ≠ p) : (unlinkSym w p).names q = w.names q := by
  unfold unlinkSym; split <;> simp [upd_ne, h]
theorem unlinkSym_names_self (w : LWorld) (p : Rs.Path) (h : TempOK w p) : (unlinkSym w p).names p = none := by
  unfold unlinkSym; rcases h with h | ⟨t, h⟩ <;> simp [h]
@[simp] theorem unlinkSym_inodes (w : LWorld) (p : Rs.Path) : (unlinkSym w p).inodes = w.inodes := by unfold unlinkSym; split <;> rfl
@[simp] theorem unlinkSym_nextIno (w : LWorld) (p : Rs.Path) : (unlinkSym w p).nextIno = w.nextIno := by unfold unlinkSym; split <;> rfl
@[simp] theorem unlinkSym_guards (w : LWorld) (p : Rs.Path) : (unlinkSym w p).guards = w.guards := by unfold unlinkSym; split <;> rfl
@[simp] theorem unlinkSym_handles (w : LWorld) (p : Rs.Path) : (unlinkSym w p).handles = w.handles := by unfold unlinkSym; split <;> rfl
@[simp] theorem unlinkSym_nextHandle (w : LWorld) (p : Rs.Path) : (unlinkSym w p).nextHandle = w.nextHandle := by unfold unlinkSym; split <;> rfl
@[simp] theorem unlinkSym_now (w : LWorld) (p : Rs.Path) : (unlinkSym w p).now = w.now := by unfold unlinkSym; split <;> rfl

/-- `let _ = fs::remove_file(&temp_dest)` (local.rs:577): a symlink at the working-file path is unlinked; on a free name the
    call fails and the error is dropped -/
theorem remove_temp_nf (w : LWorld) (p : Rs.Path) (hnf : w.fault = none) (h : TempOK w p) :
    (prim (removeFileAct p) w).2 = unlinkSym w p := by
  rw [prim_nf _ _ hnf]
  unfold removeFileAct unlinkSym
  rcases h with h | ⟨t, h⟩ <;> simp [h]

/-- an update of an existing regular file `dst` (inode `id`, holding `D`) from the regular file `src` (inode `is`, holding `S`) -/
structure UpdPre (w : LWorld) (src dst : Rs.Path) (is id : Nat) (S D : Bytes) (ms md : Nat) (xs xd : List Rs.Str) (ls ld : Nat) : Prop where
  /-- no fault is injected -/
  nf : w.fault = none
  hsrc : w.names src = some (.file is)
  hisrc : w.inodes is = some ⟨ofU8 S, ms, xs, ls⟩
  hdst : w.names dst = some (.file id)
  hidst : w.inodes id = some ⟨ofU8 D, md, xd, ld⟩
  /-- source and destination are different files -/
  ne : is ≠ id
  /-- the working-file name is free or a symlink (a regular file there is unlinked as well by the code; that case is not
      covered by the bridge) -/
  htmp : TempOK w (dst ++ TEMP_SUFFIX)
  /-- inode numbers in use are below the allocation counter -/
  fresh : is < w.nextIno ∧ id < w.nextIno
  /-- no guard is alive when the call starts -/
  noguards : w.guards = []

end SyModel.LocalCopy
