/-
  Lemmas.GenLocalCopyWp — a weakest-precondition reading of `Rs.M LWorld` for runs in which the injected fault
  (`LWorld.fault`) is NOT known: `wp m Q E w` says "the run of `m` from `w` ends in `Q a w'` when it answers `Ok(a)` and
  in `E e w'` when it answers `Err(e)`".  The structural rules are equations (so `simp` generates the verification
  conditions of straight-line code); `wp_prim` splits a fallible system call into "the injected fault is due here" and
  "it is not" (the countdown advances: `tick`); `wp_forIn_list` is the loop rule (invariant).
-/
import SyModel.Lemmas.GenLocalCopy
set_option autoImplicit false
set_option linter.unusedSimpArgs false
set_option linter.unusedVariables false
namespace SyModel.LocalCopy
open SyModel SyModel.Generated SyModel.Generated.LocalCopy

def wp {α : Type} (m : Rs.M LWorld α) (Q : α → LWorld → Prop) (E : Rs.Err → LWorld → Prop) (w : LWorld) : Prop :=
  match m w with
  | (.ok a, w') => Q a w'
  | (.error e, w') => E e w'

theorem wp_def {α : Type} (m : Rs.M LWorld α) (Q : α → LWorld → Prop) (E : Rs.Err → LWorld → Prop) (w : LWorld) :
    wp m Q E w ↔ (∀ a w', m w = (.ok a, w') → Q a w') ∧ (∀ e w', m w = (.error e, w') → E e w') := by
  unfold wp
  rcases h : m w with ⟨r, w'⟩
  cases r with
  | error e =>
    constructor
    · intro hq; exact ⟨fun a w1 h1 => (by cases h1), fun e1 w1 h1 => (by cases h1; exact hq)⟩
    · intro hq; exact hq.2 e w' rfl
  | ok a =>
    constructor
    · intro hq; exact ⟨fun a w1 h1 => (by cases h1; exact hq), fun e1 w1 h1 => (by cases h1)⟩
    · intro hq; exact hq.1 a w' rfl

theorem wp_bind {α β : Type} (x : Rs.M LWorld α) (f : α → Rs.M LWorld β) (Q : β → LWorld → Prop) (E : Rs.Err → LWorld → Prop) (w : LWorld) :
    wp (x >>= f) Q E w = wp x (fun a w' => wp (f a) Q E w') E w := by
  unfold wp; rw [run_bind]
  rcases x w with ⟨r, w'⟩
  cases r <;> rfl

theorem wp_pure {α : Type} (a : α) (Q : α → LWorld → Prop) (E : Rs.Err → LWorld → Prop) (w : LWorld) :
    wp (pure a) Q E w = Q a w := rfl

theorem wp_throw {α : Type} (e : Rs.Err) (Q : α → LWorld → Prop) (E : Rs.Err → LWorld → Prop) (w : LWorld) :
    wp (throw e : Rs.M LWorld α) Q E w = E e w := rfl

theorem wp_map {α β : Type} (g : α → β) (x : Rs.M LWorld α) (Q : β → LWorld → Prop) (E : Rs.Err → LWorld → Prop) (w : LWorld) :
    wp (g <$> x) Q E w = wp x (fun a w' => Q (g a) w') E w := by
  unfold wp; rw [run_map]
  rcases x w with ⟨r, w'⟩
  cases r <;> rfl

theorem wp_capture {α : Type} (x : Rs.M LWorld α) (Q : Except Rs.Err α → LWorld → Prop) (E : Rs.Err → LWorld → Prop) (w : LWorld) :
    wp (Rs.capture x) Q E w = wp x (fun a w' => Q (.ok a) w') (fun e w' => Q (.error e) w') w := by
  unfold wp; rw [run_capture]
  rcases x w with ⟨r, w'⟩
  cases r <;> rfl

theorem wp_liftE_ok {α : Type} (a : α) (Q : α → LWorld → Prop) (E : Rs.Err → LWorld → Prop) (w : LWorld) :
    wp (Rs.liftE (.ok a)) Q E w = Q a w := rfl
theorem wp_liftE_error {α : Type} (e : Rs.Err) (Q : α → LWorld → Prop) (E : Rs.Err → LWorld → Prop) (w : LWorld) :
    wp (Rs.liftE (.error e) : Rs.M LWorld α) Q E w = E e w := rfl

theorem wp_ite {α : Type} (c : Prop) [Decidable c] (a b : Rs.M LWorld α) (Q : α → LWorld → Prop) (E : Rs.Err → LWorld → Prop) (w : LWorld) :
    wp (if c then a else b) Q E w = if c then wp a Q E w else wp b Q E w := by split <;> rfl

/-- an operation that cannot fail and does not consult the fault countdown -/
theorem wp_fun {α : Type} (g : LWorld → α) (t : LWorld → LWorld) (Q : α → LWorld → Prop) (E : Rs.Err → LWorld → Prop) (w : LWorld) :
    wp (fun w => (Except.ok (g w), t w)) Q E w = Q (g w) (t w) := rfl

theorem wp_has_hard_links (p : Rs.Path) (Q : Bool → LWorld → Prop) (E : Rs.Err → LWorld → Prop) (w : LWorld) :
    wp (fun w => (Except.ok (hasHardLinks w p), w)) Q E w = Q (hasHardLinks w p) w := rfl
theorem wp_guard_new (p : Rs.Path) (Q : Rs.Opaque → LWorld → Prop) (E : Rs.Err → LWorld → Prop) (w : LWorld) :
    wp (fun w => (Except.ok ({} : Rs.Opaque), { w with guards := p :: w.guards })) Q E w = Q {} { w with guards := p :: w.guards } := rfl
theorem wp_guard_defuse (Q : Unit → LWorld → Prop) (E : Rs.Err → LWorld → Prop) (w : LWorld) :
    wp (fun w => (Except.ok (), { w with guards := w.guards.tail })) Q E w = Q () { w with guards := w.guards.tail } := rfl
/-- the world after `scope_exit`: every guard that is still armed is dropped -/
def exitW (w : LWorld) : LWorld := w.guards.foldl dropGuard { w with guards := [] }
theorem wp_scope_exit (Q : Unit → LWorld → Prop) (E : Rs.Err → LWorld → Prop) (w : LWorld) :
    wp (fun w => (Except.ok (), w.guards.foldl dropGuard { w with guards := [] })) Q E w = Q () (exitW w) := rfl

theorem wp_mono {α : Type} (m : Rs.M LWorld α) (Q Q' : α → LWorld → Prop) (E E' : Rs.Err → LWorld → Prop) (w : LWorld)
    (h : wp m Q E w) (hq : ∀ a w', Q a w' → Q' a w') (he : ∀ e w', E e w' → E' e w') : wp m Q' E' w := by
  unfold wp at *
  rcases hm : m w with ⟨r, w'⟩
  rw [hm] at h
  cases r
  · exact he _ _ h
  · exact hq _ _ h

/-- the countdown after one more fallible call that was not hit -/
def dec : Option Nat → Option Nat
  | some (k + 1) => some k
  | x => x

/-- the world in which a fallible call that is not hit runs -/
def tick (w : LWorld) : LWorld := { w with fault := dec w.fault }
/-- the world after the injected fault has been used up -/
def spent (w : LWorld) : LWorld := { w with fault := none }

@[simp] theorem tick_names (w : LWorld) : (tick w).names = w.names := rfl
@[simp] theorem tick_inodes (w : LWorld) : (tick w).inodes = w.inodes := rfl
@[simp] theorem tick_nextIno (w : LWorld) : (tick w).nextIno = w.nextIno := rfl
@[simp] theorem tick_handles (w : LWorld) : (tick w).handles = w.handles := rfl
@[simp] theorem tick_nextHandle (w : LWorld) : (tick w).nextHandle = w.nextHandle := rfl
@[simp] theorem tick_guards (w : LWorld) : (tick w).guards = w.guards := rfl
@[simp] theorem tick_log (w : LWorld) : (tick w).log = w.log := rfl
@[simp] theorem tick_now (w : LWorld) : (tick w).now = w.now := rfl
@[simp] theorem tick_fault (w : LWorld) : (tick w).fault = dec w.fault := rfl
@[simp] theorem spent_names (w : LWorld) : (spent w).names = w.names := rfl
@[simp] theorem spent_inodes (w : LWorld) : (spent w).inodes = w.inodes := rfl
@[simp] theorem spent_nextIno (w : LWorld) : (spent w).nextIno = w.nextIno := rfl
@[simp] theorem spent_handles (w : LWorld) : (spent w).handles = w.handles := rfl
@[simp] theorem spent_nextHandle (w : LWorld) : (spent w).nextHandle = w.nextHandle := rfl
@[simp] theorem spent_guards (w : LWorld) : (spent w).guards = w.guards := rfl
@[simp] theorem spent_log (w : LWorld) : (spent w).log = w.log := rfl
@[simp] theorem spent_now (w : LWorld) : (spent w).now = w.now := rfl
@[simp] theorem spent_fault (w : LWorld) : (spent w).fault = none := rfl
@[simp] theorem tick_stat (w : LWorld) (p : Rs.Path) : (tick w).stat p = w.stat p := rfl
@[simp] theorem tick_inoOf (w : LWorld) (p : Rs.Path) : (tick w).inoOf p = w.inoOf p := rfl
@[simp] theorem spent_stat (w : LWorld) (p : Rs.Path) : (spent w).stat p = w.stat p := rfl
@[simp] theorem spent_inoOf (w : LWorld) (p : Rs.Path) : (spent w).inoOf p = w.inoOf p := rfl
@[simp] theorem hasHardLinks_tick (w : LWorld) (p : Rs.Path) : hasHardLinks (tick w) p = hasHardLinks w p := rfl
@[simp] theorem hasHardLinks_spent (w : LWorld) (p : Rs.Path) : hasHardLinks (spent w) p = hasHardLinks w p := rfl
@[simp] theorem dec_none : dec none = none := rfl
@[simp] theorem dec_succ (k : Nat) : dec (some (k + 1)) = some k := rfl
@[simp] theorem dec_eq_none (F : Option Nat) : dec F = none ↔ F = none := by
  cases F with
  | none => simp [dec]
  | some k => cases k <;> simp [dec]

theorem tick_of_nf (w : LWorld) (h : w.fault = none) : tick w = w := by
  rcases w with ⟨nm, ino, ni, hs, nh, g, l, now, F⟩
  simp only at h; subst h; rfl

/-- what the result of a system call (run in `W`) means for the postconditions -/
def actPost {α : Type} (r : Except Rs.Err (α × LWorld)) (Q : α → LWorld → Prop) (E : Rs.Err → LWorld → Prop) (W : LWorld) : Prop :=
  match r with
  | .ok (a, w') => Q a w'
  | .error e => E e W

@[simp] theorem actPost_ok {α : Type} (a : α) (w' : LWorld) (Q : α → LWorld → Prop) (E : Rs.Err → LWorld → Prop) (W : LWorld) :
    actPost (.ok (a, w')) Q E W = Q a w' := rfl
@[simp] theorem actPost_error {α : Type} (e : Rs.Err) (Q : α → LWorld → Prop) (E : Rs.Err → LWorld → Prop) (W : LWorld) :
    actPost (.error e) Q E W = E e W := rfl
@[simp] theorem actPost_ite {α : Type} (c : Prop) [Decidable c] (x y : Except Rs.Err (α × LWorld)) (Q : α → LWorld → Prop)
    (E : Rs.Err → LWorld → Prop) (W : LWorld) :
    actPost (if c then x else y) Q E W = if c then actPost x Q E W else actPost y Q E W := by split <;> rfl

/-- a FALLIBLE system call under an unknown countdown: either the injected fault is due (the call fails, nothing
    changes, the fault is used up), or it is not (the countdown advances and the call does what it does) -/
theorem wp_prim {α : Type} (f : Act α) (Q : α → LWorld → Prop) (E : Rs.Err → LWorld → Prop) (w : LWorld) :
    wp (prim f) Q E w ↔
      (w.fault = some 0 → E .io (spent w)) ∧
      (w.fault ≠ some 0 → actPost (f (tick w)) Q E (tick w)) := by
  rcases w with ⟨nm, ino, ni, hs, nh, g, l, now, F⟩
  unfold wp prim tick spent actPost
  rcases F with _ | k
  · simp only [dec]
    rcases f _ with e | ⟨a, w'⟩ <;> simp
  · cases k with
    | zero => simp
    | succ k =>
      simp only [dec]
      rcases f _ with e | ⟨a, w'⟩ <;> simp

/-- `seek(SeekFrom::Start(n))` never computes a negative position -/
@[simp] theorem natCast_lt_zero (n : Nat) : ((n : Int) < 0) = False := by
  apply eq_false; omega

/-- the loop rule: an invariant of the WORLD that every iteration preserves (whatever the loop state), and that is all
    the code after the loop needs -/
theorem wp_forIn_list {β : Type} (Inv : LWorld → Prop) (l : List Nat) (f : Nat → β → Rs.M LWorld (ForInStep β)) (b0 : β)
    (Q : β → LWorld → Prop) (E : Rs.Err → LWorld → Prop) (W0 : LWorld) (h0 : Inv W0)
    (hstep : ∀ x b W, Inv W → wp (f x b) (fun _ W' => Inv W') E W)
    (hend : ∀ b W, Inv W → Q b W) : wp (forIn l b0 f) Q E W0 := by
  induction l generalizing b0 W0 with
  | nil => exact hend b0 W0 h0
  | cons x t ih =>
    rw [List.forIn_cons, wp_bind]
    refine wp_mono _ _ _ E E W0 (hstep x b0 W0 h0) ?_ (fun _ _ h => h)
    intro s W' hW'
    cases s with
    | done b' => exact hend b' W' hW'
    | yield b' => exact ih b' W' hW'

end SyModel.LocalCopy
