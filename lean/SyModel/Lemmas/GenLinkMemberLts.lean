/-
  Lemmas.GenLinkMemberLts — the CONCURRENT tie of the translated hard-link hand-off
  `Transferrer::transfer_link_member` (`Generated/Code/LinkMember.lean`, regenerated on every run from
  /repo/src/sync/transfer.rs) to the handwritten labelled transition system of `Hardlink/Protocol.lean`
  (the model of property C13): definitions and helper lemmas of `Props/GenLinkMemberLts.lean`.

  §1  encodings (LTS path / Notify / inode identifiers ↦ `Rs.Path` / `Nat`), the error values
  §2  THE INSTANCE `ltsExt cfg w fuel : Ext LWorld` (TRUSTED — described field by field at its definition)
  §3  `genPoll`: one `Future::poll` of worker `w` as a run of the GENERATED function on `ltsExt`
  §4  kernel-checked scenarios: `genPoll = poll` on concrete configurations and states (`by decide`; independent of
      the normal form of Lemmas/GenLinkMember.lean, so they are the alarm of a mutation of the Rust source)
  §4b thread-level interleavings (`interleaveExt`: other workers move between two operations, by a script), the instance for
      the PINNED variant (`ltsExtPinned`), and their kernel-checked scenarios (`recheckChanged`, `claimLost`, no lost wake-up)
  §5  the model side: `Steps` (a chain of non-yield micro-steps of one worker) and `poll` computed from a chain
  §6  the generated side: `Runs` (what a computation on `ltsExt` does, as a chain), one lemma per operation
  §7  the arms of the normal form as chains; `round_sim`
  §8  every run on `ltsExt` is an execution of micro-steps of `w` ALONE (`OwnSteps`), for every world and fuel — hence
      the lock scope `contains_key` + `insert`, which the translation emits as two operations, is one atomic step
-/
import SyModel.Lemmas.GenLinkMember
import SyModel.Lemmas.HardlinkProps
import SyModel.Lemmas.HardlinkLocal
set_option linter.unusedVariables false
set_option linter.unusedSimpArgs false
set_option linter.unusedSectionVars false
namespace SyModel.Lemmas.GenLinkMemberLts
open SyModel SyModel.Hardlink SyModel.Generated SyModel.Generated.LinkMember SyModel.Lemmas.GenLinkMember
open SyModel.Lemmas.GenTransfer (runM op runM_op runM_pure runM_throw runM_bind runM_bind_ok runM_bind_error
  runM_capture_eq)

/-! ## §1 encodings -/

/-- the destination path of worker `p` as a path text: `p` followed by `p` strokes (unary) -/
def encPath (p : Nat) : Rs.Path := 'p' :: List.replicate p '|'

theorem encPath_injective {a b : Nat} (h : encPath a = encPath b) : a = b := by
  have := congrArg List.length h
  simpa [encPath] using this

/-- the LTS names a `Notify` by the worker that created it; the unit names it by a `Nat` identity: the same number.
    A source inode is a `Nat` on both sides: the same number. -/
def encNotify (g : Nat) : Nat := g
def encInode (i : Nat) : Nat := i

theorem encNotify_injective {a b : Nat} (h : encNotify a = encNotify b) : a = b := h
theorem encInode_injective {a b : Nat} (h : encInode a = encInode b) : a = b := h

/-- a value of the shared map -/
def encEntry : Entry → InodeState
  | .inProgress g => .InProgress (encNotify g)
  | .completed p => .Completed (encPath p)

theorem encEntry_injective {a b : Entry} (h : encEntry a = encEntry b) : a = b := by
  cases a <;> cases b <;> simp only [encEntry, InodeState.InProgress.injEq, InodeState.Completed.injEq, reduceCtorEq] at h
  · rw [encNotify_injective h]
  · rw [encPath_injective h]

def opName : Op → Rs.Str
  | .mkdir => ['m', 'k', 'd', 'i', 'r']
  | .copy => ['c', 'o', 'p', 'y']
  | .attrs => ['a', 't', 't', 'r', 's']
  | .link => ['l', 'i', 'n', 'k']
  | .sync => ['s', 'y', 'n', 'c']
  | .remove => ['r', 'e', 'm', 'o', 'v', 'e']

/-- the error of a failed transport operation `o` (the LTS's `Res.err o`) -/
def errOf (o : Op) : Rs.Err := .config (opName o)
/-- NOT an error of the code: the run reached `notified.await` and the future is not ready — the poll returns `Pending` -/
def blockedErr : Rs.Err := .config ['b', 'l', 'o', 'c', 'k', 'e', 'd']
/-- NOT an error of the code: the generated function called an operation at a point where the LTS's worker is not about
    to perform it (never happens: `poll_eq_generated`) -/
def desyncErr : Rs.Err := .config ['d', 'e', 's', 'y', 'n', 'c']

theorem errOf_injective {a b : Op} (h : errOf a = errOf b) : a = b := by
  cases a <;> cases b <;> first | rfl | (exact absurd h (by decide))

theorem errOf_ne_blocked (o : Op) : errOf o ≠ blockedErr := by cases o <;> decide
theorem errOf_ne_desync (o : Op) : errOf o ≠ desyncErr := by cases o <;> decide
theorem errOf_ne_other (o : Op) : errOf o ≠ Rs.Err.other := by cases o <;> decide
theorem blocked_ne_desync : blockedErr ≠ desyncErr := by decide

def decodeErr (e : Rs.Err) : Option Op :=
  [Op.mkdir, .copy, .attrs, .link, .sync, .remove].find? fun o => errOf o == e

theorem decodeErr_errOf (o : Op) : decodeErr (errOf o) = some o := by cases o <;> decide
theorem decodeErr_blocked : decodeErr blockedErr = none := by decide

/-! ## §2 the instance

  ### The world `LWorld` (TRUSTED)
  `s` is the state of the labelled transition system (`Hardlink.State`: every worker's program counter, the shared inode
  map, the `notify_waiters()` counters, the destination name space); `labels` the labels of the micro-steps performed so
  far in this run (oldest first); `blocked` is set when the run stopped at `notified.await` with a future that is not
  ready.

  ### The instance `ltsExt cfg w fuel` (TRUSTED: this is where the modelling decisions are)
  The generated function is run AS worker `w` of the configuration `cfg`.  An operation performs the micro-step(s)
  `Hardlink.step cfg s w` of that worker — and of nobody else — that the LTS attaches to the corresponding piece of the
  code, logs the label(s), and answers from the state BEFORE the step (reads) or from the label (transport operations:
  `opOk`/`opErr`; `same_inode`: `sameInode`/`otherInode`).  Every operation is GUARDED: it checks that the worker's
  program counter is at the point where the LTS expects this very operation with these very arguments (own inode, own
  destination path `encPath w`, own Notify `w`, the recorded first path); otherwise it answers `desyncErr` and does
  nothing.  So "the generated run never answers `desyncErr`" says that the code performs the LTS's steps in the LTS's
  order with the right arguments.

    map_get i            lock scope `map.get(&inode).cloned()`: at `start` (top of the loop: `readNone`/`readInProgress`/
                         `readCompleted`) or at `armed` (the re-check: `recheckSame`/`recheckChanged`); answers the entry
                         of `i` in `s.map` (encoded), read BEFORE the step
    Notify_new ()        at `sawNone`: the identity `w` (the LTS names the `Notify` inserted by a claim by the claiming
                         worker; a `Notify` created in a round whose claim is lost is never seen by anybody); no step
    map_contains i       at `sawNone`: the READ half of the claim's lock scope.  Entry present ⇒ the step `claimLost`,
                         answer `true`.  Entry absent ⇒ answer `false`, NO step yet and NOTHING changes: the mutex is still
                         held (Rust holds it across `contains_key` and `insert`) —
    map_insert i (InProgress n)   — the WRITE half: at `sawNone` with the entry still absent and `n = w`: the step
                         `claimOk`.  A run of the monad is one worker's uninterrupted macro-step (`OwnSteps`, §8), so no
                         other worker's step comes between the two halves: the pair IS the LTS's one step.
    map_insert i (Completed p)    at `complete`, `p = encPath w`: the step `complete`
    map_remove i         at `cleanup _`: the step `remove`
    notify_waiters n     at `notifyOk` / `failNotify _`, `n = w`: the step `notify` (the counter `calls w` goes up)
    notified n           at `sawInProgress n`: the step `arm n`; answers the snapshot `s.calls n` of the counter (tokio)
    await_notified t     at `waiting g t`: counter moved ⇒ the step `wake`, `Ok`; counter unchanged ⇒ BLOCKED: the flag is
                         set and the run leaves through `Err(blockedErr)` — one run = one `poll`
    same_inode a b       at `sameOp p`, `a = encPath p`, `b = encPath w`: the step; `true` iff its label is `sameInode`
    t_remove b false     at `removeOp p 0`: the step; `opErr o` ⇒ `Err(errOf o)`
    t_create_hardlink a b   at `linkOp p 0`, `a = encPath p`: the step
    t_sync_file_with_delta _ b     at `syncOp 0`: the step; the result value is `default` (the LTS has no byte counts)
    transferrer_copy_file _ b      `Transferrer::copy_file` = `create_dir_all(parent)` then `transport.copy_file`: at
                         `mkdirOp 0` the step, then at `copyOp 0` the step; the first `opErr` ends it
    write_xattrs _ b     at `metaOp`: the step `attrs` — the LTS has ONE step for the three attribute writers and one
                         fault bit `failMeta`; the instance attributes it to the first writer —
    write_acls, write_bsd_flags    — and these two do nothing (at `complete`)

  Await points of the transport (`yield` labels, `yMkdir`/`yCopy`/`yLink > 0`) have no counterpart in the generated code
  (no representation of a pending transport future): the operations are guarded by "no yield left" (`mkdirOp 0`, …), the
  theorems assume `NoYield`.  A panic of `lock().unwrap()` is not modelled.
-/
structure LWorld where
  s : State
  labels : List Label
  blocked : Bool

/-- perform the micro-step of `w` if `guard` holds of the state: log its label, answer `ans state-before label` -/
def tick {α : Type} (cfg : Cfg) (w : Nat) (guard : State → Bool) (ans : State → Label → Except Rs.Err α) :
    Rs.M LWorld α :=
  op fun lw =>
    if guard lw.s then
      match step cfg lw.s w with
      | some (l, s') => (ans lw.s l, { lw with s := s', labels := lw.labels ++ [l] })
      | none => (.error desyncErr, lw)
    else (.error desyncErr, lw)

/-- no step, only the guard -/
def check {α : Type} (w : Nat) (guard : State → Bool) (a : α) : Rs.M LWorld α :=
  op fun lw => if guard lw.s then (.ok a, lw) else (.error desyncErr, lw)

/-- the answer of a transport operation, from the label of its step -/
def ansOp {α : Type} (a : α) (_ : State) : Label → Except Rs.Err α
  | .opOk _ => .ok a
  | .opErr o => .error (errOf o)
  | _ => .error desyncErr

def Pc.atRead : Pc → Bool
  | .start => true
  | .armed _ _ => true
  | _ => false
def Pc.atCleanup : Pc → Bool
  | .cleanup _ => true
  | _ => false
def Pc.atNotify : Pc → Bool
  | .notifyOk => true
  | .failNotify _ => true
  | _ => false

/-- THE INSTANCE (head of this section) -/
def ltsExt (cfg : Cfg) (w : Nat) (fuel : Nat) : Ext LWorld where
  fuel := fuel
  Notify_new _ := check w (fun s => decide (s.pc w = .sawNone)) (encNotify w)
  map_get i :=
    tick cfg w (fun s => decide (i = encInode (cfg.worker w).inode) && Pc.atRead (s.pc w))
      (fun s _ => .ok ((s.map i).map encEntry))
  map_contains i := op fun lw =>
    if decide (i = encInode (cfg.worker w).inode) && decide (lw.s.pc w = .sawNone) then
      if (lw.s.map i).isSome then runM (tick cfg w (fun _ => true) (fun _ _ => .ok true)) lw
      else (.ok false, lw)
    else (.error desyncErr, lw)
  map_insert i st :=
    match st with
    | .InProgress n =>
      tick cfg w (fun s => decide (i = encInode (cfg.worker w).inode) && decide (n = encNotify w) &&
        decide (s.pc w = .sawNone) && (s.map i).isNone) (fun _ _ => .ok ())
    | .Completed p =>
      tick cfg w (fun s => decide (i = encInode (cfg.worker w).inode) && decide (p = encPath w) &&
        decide (s.pc w = .complete)) (fun _ _ => .ok ())
  map_remove i :=
    tick cfg w (fun s => decide (i = encInode (cfg.worker w).inode) && Pc.atCleanup (s.pc w)) (fun _ _ => .ok ())
  notify_waiters n := tick cfg w (fun s => decide (n = encNotify w) && Pc.atNotify (s.pc w)) (fun _ _ => .ok ())
  notified n := tick cfg w (fun s => decide (s.pc w = .sawInProgress n)) (fun s _ => .ok (s.calls n))
  await_notified t := op fun lw =>
    match lw.s.pc w with
    | .waiting g snap =>
      if t = snap then
        match step cfg lw.s w with
        | some (l, s') => (.ok (), { lw with s := s', labels := lw.labels ++ [l] })
        | none => (.error blockedErr, { lw with blocked := true })
      else (.error desyncErr, lw)
    | _ => (.error desyncErr, lw)
  same_inode _ a b :=
    tick cfg w (fun s => match s.pc w with
        | .sameOp p => decide (a = encPath p) && decide (b = encPath w)
        | _ => false)
      (fun _ l => match l with
        | .sameInode => .ok true
        | .otherInode => .ok false
        | _ => .error desyncErr)
  t_remove _ b isDir :=
    tick cfg w (fun s => match s.pc w with
        | .removeOp _ 0 => decide (b = encPath w) && !isDir
        | _ => false) (ansOp ())
  t_create_hardlink _ a b :=
    tick cfg w (fun s => match s.pc w with
        | .linkOp p 0 => decide (a = encPath p) && decide (b = encPath w)
        | _ => false) (ansOp ())
  t_sync_file_with_delta _ _ b :=
    tick cfg w (fun s => decide (s.pc w = .syncOp 0) && decide (b = encPath w)) (ansOp default)
  transferrer_copy_file _ _ b := do
    tick cfg w (fun s => decide (s.pc w = .mkdirOp 0) && decide (b = encPath w)) (ansOp ())
    tick cfg w (fun s => decide (s.pc w = .copyOp 0)) (ansOp default)
  write_xattrs _ _ b := tick cfg w (fun s => decide (s.pc w = .metaOp) && decide (b = encPath w)) (ansOp ())
  write_acls _ _ b := check w (fun s => decide (s.pc w = .complete) && decide (b = encPath w)) ()
  write_bsd_flags _ _ b := check w (fun s => decide (s.pc w = .complete) && decide (b = encPath w)) ()

section fields
variable (cfg : Cfg) (w fuel : Nat) (i n : Nat) (a b : Rs.Path) (o : Rs.Opaque) (tr : Transferrer) (fe : FileEntry)
theorem ltsExt_fuel : (ltsExt cfg w fuel).fuel = fuel := rfl
theorem ltsExt_Notify_new (u : Unit) :
    (ltsExt cfg w fuel).Notify_new u = check w (fun s => decide (s.pc w = .sawNone)) (encNotify w) := rfl
theorem ltsExt_map_get : (ltsExt cfg w fuel).map_get i =
    tick cfg w (fun s => decide (i = encInode (cfg.worker w).inode) && Pc.atRead (s.pc w))
      (fun s _ => .ok ((s.map i).map encEntry)) := rfl
theorem ltsExt_map_contains : (ltsExt cfg w fuel).map_contains i = op fun lw =>
    if decide (i = encInode (cfg.worker w).inode) && decide (lw.s.pc w = .sawNone) then
      if (lw.s.map i).isSome then runM (tick cfg w (fun _ => true) (fun _ _ => .ok true)) lw
      else (.ok false, lw)
    else (.error desyncErr, lw) := rfl
theorem ltsExt_map_insert_inProgress : (ltsExt cfg w fuel).map_insert i (.InProgress n) =
    tick cfg w (fun s => decide (i = encInode (cfg.worker w).inode) && decide (n = encNotify w) &&
      decide (s.pc w = .sawNone) && (s.map i).isNone) (fun _ _ => .ok ()) := rfl
theorem ltsExt_map_insert_completed : (ltsExt cfg w fuel).map_insert i (.Completed a) =
    tick cfg w (fun s => decide (i = encInode (cfg.worker w).inode) && decide (a = encPath w) &&
      decide (s.pc w = .complete)) (fun _ _ => .ok ()) := rfl
theorem ltsExt_map_remove : (ltsExt cfg w fuel).map_remove i =
    tick cfg w (fun s => decide (i = encInode (cfg.worker w).inode) && Pc.atCleanup (s.pc w)) (fun _ _ => .ok ()) := rfl
theorem ltsExt_notify_waiters : (ltsExt cfg w fuel).notify_waiters n =
    tick cfg w (fun s => decide (n = encNotify w) && Pc.atNotify (s.pc w)) (fun _ _ => .ok ()) := rfl
theorem ltsExt_notified : (ltsExt cfg w fuel).notified n =
    tick cfg w (fun s => decide (s.pc w = .sawInProgress n)) (fun s _ => .ok (s.calls n)) := rfl
theorem ltsExt_await_notified : (ltsExt cfg w fuel).await_notified n = op fun lw =>
    match lw.s.pc w with
    | .waiting g snap =>
      if n = snap then
        match step cfg lw.s w with
        | some (l, s') => (.ok (), { lw with s := s', labels := lw.labels ++ [l] })
        | none => (.error blockedErr, { lw with blocked := true })
      else (.error desyncErr, lw)
    | _ => (.error desyncErr, lw) := rfl
theorem ltsExt_same_inode : (ltsExt cfg w fuel).same_inode tr a b =
    tick cfg w (fun s => match s.pc w with
        | .sameOp p => decide (a = encPath p) && decide (b = encPath w)
        | _ => false)
      (fun _ l => match l with
        | .sameInode => .ok true
        | .otherInode => .ok false
        | _ => .error desyncErr) := rfl
theorem ltsExt_t_remove (isDir : Bool) : (ltsExt cfg w fuel).t_remove o b isDir =
    tick cfg w (fun s => match s.pc w with
        | .removeOp _ 0 => decide (b = encPath w) && !isDir
        | _ => false) (ansOp ()) := rfl
theorem ltsExt_t_create_hardlink : (ltsExt cfg w fuel).t_create_hardlink o a b =
    tick cfg w (fun s => match s.pc w with
        | .linkOp p 0 => decide (a = encPath p) && decide (b = encPath w)
        | _ => false) (ansOp ()) := rfl
theorem ltsExt_t_sync : (ltsExt cfg w fuel).t_sync_file_with_delta o a b =
    tick cfg w (fun s => decide (s.pc w = .syncOp 0) && decide (b = encPath w)) (ansOp default) := rfl
theorem ltsExt_copy_file : (ltsExt cfg w fuel).transferrer_copy_file tr a b =
    (tick cfg w (fun s => decide (s.pc w = .mkdirOp 0) && decide (b = encPath w)) (ansOp ()) >>= fun _ =>
      tick cfg w (fun s => decide (s.pc w = .copyOp 0)) (ansOp default)) := rfl
theorem ltsExt_write_xattrs : (ltsExt cfg w fuel).write_xattrs tr fe b =
    tick cfg w (fun s => decide (s.pc w = .metaOp) && decide (b = encPath w)) (ansOp ()) := rfl
theorem ltsExt_write_acls : (ltsExt cfg w fuel).write_acls tr fe b =
    check w (fun s => decide (s.pc w = .complete) && decide (b = encPath w)) () := rfl
theorem ltsExt_write_bsd_flags : (ltsExt cfg w fuel).write_bsd_flags tr fe b =
    check w (fun s => decide (s.pc w = .complete) && decide (b = encPath w)) () := rfl
end fields

/-! ## §3 one poll as a run of the generated function -/

/-- how a run ended, in the LTS's vocabulary -/
def outcome {α : Type} (r : Except Rs.Err α) (blocked : Bool) : PollOut :=
  match r with
  | .ok _ => .ready .ok
  | .error e =>
    if blocked && e == blockedErr then .pending
    else match decodeErr e with
      | some o => .ready (.err o)
      | none => .outOfFuel

/-- `is_update` of the call: the planner's action for the path -/
def isUpdate (cfg : Cfg) (w : Nat) : Bool := decide ((cfg.worker w).action = .update)

/-- the call `self.transfer_link_member(source, dest, inode, is_update)` of worker `w`, GENERATED function, on `ltsExt` -/
def genCall (cfg : Cfg) (w fuel : Nat) (self : Transferrer) (source : FileEntry) : Rs.M LWorld (Option TransferResult) :=
  Transferrer.transfer_link_member (ltsExt cfg w fuel) self source (encPath w) (encInode (cfg.worker w).inode)
    (isUpdate cfg w)

/-- ONE `Future::poll` of worker `w`'s future, the hand-off being the GENERATED function.
    * at the top of the function (`start`): one run of the generated function;
    * suspended at `notified.await` (`waiting g snap`): the await is polled again; when it completes the code goes on
      with `continue`, and since the loop carries no state (`Props.GenLinkMember.transfer_link_member_eq`) what follows
      IS the function from its top: `await_notified snap` then one run of the generated function;
    * a future that has returned is not polled again (`ready r`, nothing happens);
    * a worker outside the hard-link branch (`linked = false`) does not run this function: the model's `poll`;
    * any other program counter is not a poll boundary of a linked worker without transport yields: `outOfFuel`. -/
def genPoll (cfg : Cfg) (fuel : Nat) (self : Transferrer) (source : FileEntry) (s : State) (w : Nat) :
    State × List Label × PollOut :=
  if (cfg.worker w).linked then
    match s.pc w with
    | .start =>
      let r := runM (genCall cfg w fuel self source) ⟨s, [], false⟩
      (r.2.s, r.2.labels, outcome r.1 r.2.blocked)
    | .waiting _ snap =>
      let r := runM ((ltsExt cfg w fuel).await_notified snap >>= fun _ => genCall cfg w fuel self source) ⟨s, [], false⟩
      (r.2.s, r.2.labels, outcome r.1 r.2.blocked)
    | .done r => (s, [], .ready r)
    | _ => (s, [], .outOfFuel)
  else poll cfg s w

/-! ## §4 kernel-checked scenarios (independent of the normal form) -/

/-- what is compared of a state: the program counters, counters and destinations of the workers `0 … n-1`, and the map
    at the listed inodes -/
structure Obs where
  pcs : List Pc
  entries : List (Option Entry)
  calls : List Nat
  dsts : List (Option File)
  labels : List Label
  out : PollOut
  deriving DecidableEq, Repr
def obs (n : Nat) (inodes : List Nat) (r : State × List Label × PollOut) : Obs :=
  ⟨(List.range n).map r.1.pc, inodes.map r.1.map, (List.range n).map r.1.calls, (List.range n).map r.1.dst, r.2.1, r.2.2⟩

/-- the state after the poll schedule `ws` of the MODEL's `poll` -/
def pollSched (cfg : Cfg) : State → List Nat → State
  | s, [] => s
  | s, w :: ws => pollSched cfg (poll cfg s w).1 ws

/-- along the poll schedule `ws` (run with the MODEL's `poll`): before every poll, the model's `poll` of that worker and
    `genPoll` (the generated function on `ltsExt`) give the same state, labels and outcome -/
def agreeAlong (cfg : Cfg) (fuel : Nat) (inodes : List Nat) (s : State) (ws : List Nat) : Bool :=
  (List.range ws.length).all fun k =>
    decide (obs cfg.n inodes (genPoll cfg fuel default default (pollSched cfg s (ws.take k)) (ws.getD k 0)) =
      obs cfg.n inodes (poll cfg (pollSched cfg s (ws.take k)) (ws.getD k 0)))

/-- evaluate a scenario: the `for` over the fuel range becomes a list iteration, then the kernel computes -/
macro "scen_run" : tactic => `(tactic|
  (unfold agreeAlong genPoll genCall Transferrer.transfer_link_member
   simp only [Std.Legacy.Range.forIn_eq_forIn_range', Std.Legacy.Range.size]
   decide))

/-- four names of source inode 7 to be created; the copy of worker 0 fails, the attribute writers of worker 1 fail -/
def demo : Cfg where
  variant := .repaired
  n := 4
  worker := fun w => { inode := 7, linked := true, yMkdir := 0, yCopy := 0, yLink := 0,
                       failMkdir := false, failCopy := w = 0, failMeta := w = 1, failLink := w = 3 }
  content := fun i => i + 100

/-- the state after a THREAD-level schedule of micro-steps (so that a worker can be found in the middle of its copy) -/
def after (cfg : Cfg) (micro : List Nat) : State := (runMicro cfg (init cfg) micro).1

/-- from the initial state, whole polls only: every owner runs to its end in one poll (no transport yields), so:
    0 claims, fails, releases, `Err(copy)`; 1 claims, fails in the attribute writers, releases; 2 claims and succeeds;
    3 finds `Completed(2)` and its link fails; finished futures answer `ready` again -/
theorem scen_owner_paths : agreeAlong demo 1 [7] (init demo) [0, 1, 2, 3, 0, 1, 2, 3] = true := by scen_run
/-- the paths end as announced (the scenario is not about an empty run) -/
theorem scen_owner_paths_labels :
    (poll demo (init demo) 0).2 = ([.readNone, .claimOk, .opOk .mkdir, .opErr .copy, .remove, .notify], .ready (.err .copy)) ∧
    (poll demo (pollSched demo (init demo) [0, 1]) 2).2 =
      ([.readNone, .claimOk, .opOk .mkdir, .opOk .copy, .opOk .attrs, .complete, .notify], .ready .ok) ∧
    (poll demo (pollSched demo (init demo) [0, 1, 2]) 3).2 = ([.readCompleted 2, .opErr .link], .ready (.err .link)) := by
  decide

/-- worker 0 holds the claim and is in the middle of its copy (thread-level prefix `[0, 0]`): 1 and 2 register, re-check
    and BLOCK; then 0 fails and releases (micro-steps); 1 is woken, goes round (`continue`), claims, fails, releases; 2 is
    woken, goes round, claims, succeeds; 3 links (its link fails) -/
theorem scen_waiters_block : agreeAlong demo 1 [7] (after demo [0, 0]) [1, 2, 1, 2] = true := by scen_run
theorem scen_waiters_block_labels :
    (poll demo (after demo [0, 0]) 1).2 = ([.readInProgress 0, .arm 0, .recheckSame], .pending) := by decide
theorem scen_wake_and_take_over :
    agreeAlong demo 1 [7] (after demo [0, 0, 1, 1, 1, 2, 2, 2, 0, 0, 0, 0]) [1, 2, 3, 1, 2] = true := by scen_run
theorem scen_wake_and_take_over_labels :
    (poll demo (after demo [0, 0, 1, 1, 1, 2, 2, 2, 0, 0, 0, 0]) 1).2 =
      ([.wake, .readNone, .claimOk, .opOk .mkdir, .opOk .copy, .opErr .attrs, .remove, .notify], .ready (.err .attrs)) := by
  decide
/-- a woken waiter finds ANOTHER worker's claim (0 failed, 1 took over and is copying): it registers on the new Notify
    and blocks again -/
theorem scen_wake_then_block_again :
    agreeAlong demo 1 [7] (after demo [0, 0, 1, 1, 1, 2, 2, 2, 0, 0, 0, 0, 1, 1, 1]) [2, 3, 2] = true := by scen_run
theorem scen_wake_then_block_again_labels :
    (poll demo (after demo [0, 0, 1, 1, 1, 2, 2, 2, 0, 0, 0, 0, 1, 1, 1]) 2).2 =
      ([.wake, .readInProgress 1, .arm 1, .recheckSame], .pending) := by decide
/-- a woken waiter finds `Completed` and links -/
theorem scen_wake_and_link :
    agreeAlong { demo with worker := fun w => { demo.worker w with failCopy := false } } 1 [7]
      (after { demo with worker := fun w => { demo.worker w with failCopy := false } }
        [0, 0, 1, 1, 1, 0, 0, 0, 0, 0]) [1, 2, 1] = true := by scen_run

/-- three names of source inode 7 to be UPDATED; the destination has 0 and 1 as one inode, 2 as another file whose
    removal fails -/
def demoU : Cfg where
  variant := .repaired
  n := 3
  worker := fun w => { inode := 7, linked := true, action := .update, dst0 := some ⟨if w = 2 then 101 else 100, 1⟩,
                       yMkdir := 0, yCopy := 0, yLink := 0,
                       failMkdir := w = 2, failCopy := false, failMeta := false, failLink := false }
  content := fun i => i

/-- update: 0 claims and rewrites (`sync_file_with_delta`), 1 finds `Completed(0)`, another inode: remove + link;
    2: the removal fails -/
theorem scen_update : agreeAlong demoU 1 [7] (init demoU) [0, 1, 2, 0, 1, 2] = true := by scen_run
theorem scen_update_labels :
    (poll demoU (pollSched demoU (init demoU) [0]) 1).2 =
      ([.readCompleted 0, .otherInode, .opOk .remove, .opOk .link], .ready .ok) ∧
    (poll demoU (pollSched demoU (init demoU) [0, 1]) 2).2 =
      ([.readCompleted 0, .otherInode, .opErr .remove], .ready (.err .remove)) := by decide
/-- update, the path already names the first path's inode (a hand-made state): `same_inode` answers true, nothing else -/
def sameState : State where
  pc := fun _ => .start
  map := fun i => if i = 7 then some (.completed 0) else none
  calls := fun _ => 0
  dst := fun _ => some ⟨5, 1⟩
theorem scen_update_same_inode : agreeAlong demoU 1 [7] sameState [1] = true := by scen_run
theorem scen_update_same_inode_labels : (poll demoU sameState 1).2 = ([.readCompleted 0, .sameInode], .ready .ok) := by
  decide

/-! ### §4b thread-level interleavings: other workers move BETWEEN two operations of the run

  A run on `ltsExt` is one uninterrupted macro-step (what a single-threaded executor interleaves).  On the multi-threaded
  runtime other workers' micro-steps come between two operations of a run.  `interleaveExt cfg e` wraps every operation of
  an instance: before it, the workers listed in the head of a SCRIPT perform their micro-steps (`runMicro`).  With it the
  re-check can see a change (`recheckChanged`), the claim can be lost (`claimLost`), and the lost wake-up of a
  registration that comes too late becomes a concrete run. -/
abbrev IWorld := LWorld × List (List Nat)

def interleave {α : Type} (cfg : Cfg) (x : Rs.M LWorld α) : Rs.M IWorld α :=
  op fun iw =>
    let r := runM x { iw.1 with s := (runMicro cfg iw.1.s (iw.2.headD [])).1 }
    (r.1, (r.2, iw.2.tail))

def interleaveExt (cfg : Cfg) (e : Ext LWorld) : Ext IWorld where
  fuel := e.fuel
  Notify_new u := interleave cfg (e.Notify_new u)
  map_get i := interleave cfg (e.map_get i)
  map_contains i := interleave cfg (e.map_contains i)
  map_insert i st := interleave cfg (e.map_insert i st)
  map_remove i := interleave cfg (e.map_remove i)
  same_inode t a b := interleave cfg (e.same_inode t a b)
  t_remove o a d := interleave cfg (e.t_remove o a d)
  t_create_hardlink o a b := interleave cfg (e.t_create_hardlink o a b)
  t_sync_file_with_delta o a b := interleave cfg (e.t_sync_file_with_delta o a b)
  transferrer_copy_file t a b := interleave cfg (e.transferrer_copy_file t a b)
  write_xattrs t fe b := interleave cfg (e.write_xattrs t fe b)
  write_acls t fe b := interleave cfg (e.write_acls t fe b)
  write_bsd_flags t fe b := interleave cfg (e.write_bsd_flags t fe b)
  notified n := interleave cfg (e.notified n)
  await_notified t := interleave cfg (e.await_notified t)
  notify_waiters n := interleave cfg (e.notify_waiters n)

/-- the instance for the PINNED variant of the LTS (the code as originally shipped: no re-check, `arm` leads straight to
    `waiting`).  It is `ltsExt` except that a `map_get` at `sawInProgress` — a read for which the pinned LTS has no step — is
    allowed as a pure read.  Used only to show what a mutant of the waiter's arm corresponds to. -/
def ltsExtPinned (cfg : Cfg) (w fuel : Nat) : Ext LWorld :=
  { ltsExt cfg w fuel with
    map_get := fun i => op fun lw =>
      match lw.s.pc w with
      | .sawInProgress _ =>
        if i = encInode (cfg.worker w).inode then (.ok ((lw.s.map i).map encEntry), lw) else (.error desyncErr, lw)
      | _ => runM ((ltsExt cfg w fuel).map_get i) lw }

/-- one run of the GENERATED function as worker `w` from the top of the function, on an interleaved instance, the
    environment moving as the script says -/
def threadPoll (cfg : Cfg) (ext : Ext IWorld) (w : Nat) (s : State) (script : List (List Nat)) : Obs :=
  let r := runM (Transferrer.transfer_link_member ext default default (encPath w) (encInode (cfg.worker w).inode)
    (isUpdate cfg w)) (⟨s, [], false⟩, script)
  obs cfg.n [(cfg.worker w).inode] (r.2.1.s, r.2.1.labels, outcome r.1 r.2.1.blocked)

macro "thread_run" : tactic => `(tactic|
  (unfold threadPoll Transferrer.transfer_link_member
   simp only [Std.Legacy.Range.forIn_eq_forIn_range', Std.Legacy.Range.size]
   decide))

/-- two names of source inode 7 to be created, nothing fails -/
def pair (v : Variant) : Cfg where
  variant := v
  n := 2
  worker := fun _ => { inode := 7, linked := true, yMkdir := 0, yCopy := 0, yLink := 0,
                       failMkdir := false, failCopy := false, failMeta := false, failLink := false }
  content := fun _ => 1

/-- THREAD-level, repaired: worker 0 claims before worker 1's first read and COMPLETES (copy, `Completed`, notify) between
    worker 1's registration and its re-check.  The re-check sees the change: NO await, round the loop, link.  The state is
    the one the LTS reaches by the micro-step schedule `[0,0, 1,1, 0,0,0,0,0, 1,1,1]`. -/
theorem scen_thread_recheck_sees_completion :
    threadPoll (pair .repaired) (interleaveExt (pair .repaired) (ltsExt (pair .repaired) 1 2)) 1 (init (pair .repaired))
        [[0, 0], [], [0, 0, 0, 0, 0]] =
      obs 2 [7] ((runMicro (pair .repaired) (init (pair .repaired)) [0, 0, 1, 1, 0, 0, 0, 0, 0, 1, 1, 1]).1,
        [.readInProgress 0, .arm 0, .recheckChanged, .readCompleted 0, .opOk .link], .ready .ok) := by thread_run
/-- THREAD-level, repaired: the owner completes AFTER the re-check and before the await: the future was registered before
    the `notify_waiters()` call, so the await completes at once (`wake`): no lost wake-up -/
theorem scen_thread_completion_after_recheck :
    threadPoll (pair .repaired) (interleaveExt (pair .repaired) (ltsExt (pair .repaired) 1 2)) 1 (init (pair .repaired))
        [[0, 0], [], [], [0, 0, 0, 0, 0]] =
      obs 2 [7] ((runMicro (pair .repaired) (init (pair .repaired)) [0, 0, 1, 1, 1, 0, 0, 0, 0, 0, 1, 1, 1]).1,
        [.readInProgress 0, .arm 0, .recheckSame, .wake, .readCompleted 0, .opOk .link], .ready .ok) := by thread_run
/-- THREAD-level, repaired: the claim is lost (worker 0 claims between worker 1's read of `None` and its claim): nothing
    inserted, round the loop, register, re-check, block -/
theorem scen_thread_claim_lost :
    threadPoll (pair .repaired) (interleaveExt (pair .repaired) (ltsExt (pair .repaired) 1 2)) 1 (init (pair .repaired))
        [[], [], [0, 0]] =
      obs 2 [7] ((runMicro (pair .repaired) (init (pair .repaired)) [1, 0, 0, 1, 1, 1, 1]).1,
        [.readNone, .claimLost, .readInProgress 0, .arm 0, .recheckSame], .pending) := by thread_run
/-- the CLEAN code does not correspond to the pinned variant: on the pinned instance its re-check (which the pinned LTS
    does not have, after `arm`) desynchronises -/
theorem scen_clean_is_not_pinned :
    (threadPoll (pair .pinned) (interleaveExt (pair .pinned) (ltsExtPinned (pair .pinned) 1 2)) 1 (init (pair .pinned))
        [[0, 0]]).out = .outOfFuel := by thread_run

/-! ## §5 the model side: chains of micro-steps, and `poll` computed from a chain -/

/-- `Steps cfg w s ls s'`: worker `w` performs the micro-steps labelled `ls` (none of them a transport `yield`) from `s`
    to `s'`, nobody else moves -/
inductive Steps (cfg : Cfg) (w : Nat) : State → List Label → State → Prop where
  | nil (s : State) : Steps cfg w s [] s
  | cons {s s' s'' : State} {l : Label} {ls : List Label} :
      step cfg s w = some (l, s') → l.isYield = false → Steps cfg w s' ls s'' → Steps cfg w s (l :: ls) s''

theorem Steps.single {cfg : Cfg} {w : Nat} {s s' : State} {l : Label} (h : step cfg s w = some (l, s'))
    (hy : l.isYield = false) : Steps cfg w s [l] s' := .cons h hy (.nil _)

theorem Steps.trans {cfg : Cfg} {w : Nat} {s s' s'' : State} {l1 l2 : List Label} (h1 : Steps cfg w s l1 s')
    (h2 : Steps cfg w s' l2 s'') : Steps cfg w s (l1 ++ l2) s'' := by
  induction h1 with
  | nil _ => exact h2
  | cons hs hy _ ih => exact .cons hs hy (ih h2)

/-- a chain is an execution of the LTS whose schedule names `w` only -/
theorem Steps.exec {cfg : Cfg} {w : Nat} {s s' : State} {ls : List Label} (h : Steps cfg w s ls s') :
    Exec cfg s (List.replicate ls.length w) s' := by
  induction h with
  | nil _ => exact Exec.nil _
  | cons hs _ _ ih => exact Exec.cons hs ih

theorem step_some_not_done {cfg : Cfg} {s s' : State} {w : Nat} {l : Label} (h : step cfg s w = some (l, s'))
    (r : Res) : s.pc w ≠ .done r := by
  intro hpc
  have := done_not_enabled h
  rw [hpc] at this
  cases this

theorem pollN_succ_step {cfg : Cfg} {s s' : State} {w : Nat} {l : Label} (f : Nat) (acc : List Label)
    (hs : step cfg s w = some (l, s')) (hy : l.isYield = false) :
    pollN cfg (f + 1) s w acc = pollN cfg f s' w (l :: acc) := by
  have hnd := step_some_not_done hs
  conv => lhs; unfold pollN
  split
  · rename_i r hpc; exact absurd hpc (hnd r)
  · simp [hs, hy]

theorem pollN_done {cfg : Cfg} {s : State} {w : Nat} {r : Res} (f : Nat) (acc : List Label) (hpc : s.pc w = .done r) :
    pollN cfg (f + 1) s w acc = (s, acc.reverse, .ready r) := by
  unfold pollN
  split
  · rename_i r' hpc'; rw [hpc] at hpc'; cases hpc'; rfl
  · rename_i hne; exact absurd hpc (hne r)

theorem pollN_blocked {cfg : Cfg} {s : State} {w : Nat} (f : Nat) (acc : List Label) (hnd : ∀ r, s.pc w ≠ .done r)
    (hs : step cfg s w = none) : pollN cfg (f + 1) s w acc = (s, acc.reverse, .pending) := by
  unfold pollN
  split
  · rename_i r hpc; exact absurd hpc (hnd r)
  · simp [hs]

/-- with fuel above the variant, `pollN` follows a chain -/
theorem pollN_steps {cfg : Cfg} {w : Nat} {s s' : State} {ls : List Label} (h : Steps cfg w s ls s') :
    ∀ (fuel : Nat) (acc : List Label), measure cfg s < fuel →
      ∃ fuel', measure cfg s' < fuel' ∧ pollN cfg fuel s w acc = pollN cfg fuel' s' w (ls.reverse ++ acc) := by
  induction h with
  | nil s => intro fuel acc hf; exact ⟨fuel, hf, rfl⟩
  | @cons s s1 s2 l ls hs hy _ ih =>
    intro fuel acc hf
    obtain ⟨f, rfl⟩ : ∃ f, fuel = f + 1 := ⟨fuel - 1, by omega⟩
    have hm := step_measure_lt hs
    obtain ⟨fuel', hf', he⟩ := ih f (l :: acc) (by omega)
    refine ⟨fuel', hf', ?_⟩
    rw [pollN_succ_step f acc hs hy, he]
    simp

/-- a chain that ends in a returned worker IS the model's `poll` … -/
theorem poll_of_steps_done {cfg : Cfg} {w : Nat} {s s' : State} {ls : List Label} {r : Res}
    (h : Steps cfg w s ls s') (hpc : s'.pc w = .done r) : poll cfg s w = (s', ls, .ready r) := by
  obtain ⟨fuel', hf', he⟩ := pollN_steps h (measure cfg s + 1) [] (Nat.lt_succ_self _)
  obtain ⟨f, rfl⟩ : ∃ f, fuel' = f + 1 := ⟨fuel' - 1, by omega⟩
  unfold poll
  rw [he, pollN_done f _ hpc]
  simp

/-- … and so is a chain that ends in a worker that is not enabled (blocked on its `Notified` future) -/
theorem poll_of_steps_blocked {cfg : Cfg} {w : Nat} {s s' : State} {ls : List Label}
    (h : Steps cfg w s ls s') (hnd : ∀ r, s'.pc w ≠ .done r) (hs : step cfg s' w = none) :
    poll cfg s w = (s', ls, .pending) := by
  obtain ⟨fuel', hf', he⟩ := pollN_steps h (measure cfg s + 1) [] (Nat.lt_succ_self _)
  obtain ⟨f, rfl⟩ : ∃ f, fuel' = f + 1 := ⟨fuel' - 1, by omega⟩
  unfold poll
  rw [he, pollN_blocked f _ hnd hs]
  simp

/-- how a poll ends: the worker has returned `r`, or it is not enabled (blocked on its `Notified` future) -/
def PollEnd (cfg : Cfg) (w : Nat) (t' : State) (out : PollOut) : Prop :=
  (∃ r, out = .ready r ∧ t'.pc w = .done r) ∨ (out = .pending ∧ (∀ r, t'.pc w ≠ .done r) ∧ step cfg t' w = none)

/-- a chain that ends like a poll IS the model's `poll` -/
theorem poll_of_steps {cfg : Cfg} {w : Nat} {s s' : State} {ls : List Label} {out : PollOut}
    (h : Steps cfg w s ls s') (he : PollEnd cfg w s' out) : poll cfg s w = (s', ls, out) := by
  rcases he with ⟨r, rfl, hd⟩ | ⟨rfl, hnd, hs⟩
  · exact poll_of_steps_done h hd
  · exact poll_of_steps_blocked h hnd hs

/-- `step` from `next` -/
theorem step_of_next {cfg : Cfg} {s : State} {w : Nat} {l : Label} {e : Effect} (hw : w < cfg.n)
    (h : next cfg w (cfg.worker w) (s.pc w) (s.map (cfg.worker w).inode) s.calls s.dst = some (l, e)) :
    step cfg s w = some (l, s.apply w (cfg.worker w).inode e) := by
  simp [step, hw, h]

theorem step_none_of_next {cfg : Cfg} {s : State} {w : Nat}
    (h : next cfg w (cfg.worker w) (s.pc w) (s.map (cfg.worker w).inode) s.calls s.dst = none) :
    step cfg s w = none := by
  unfold step; split <;> simp [h]

/-! ## §6 the generated side: what a computation on `ltsExt` does, as a chain -/

/-- `Runs cfg w x t r ls' t' b`: run from the state `t` (not blocked, whatever was logged before), `x` answers `r`, worker
    `w` has performed the chain `ls'` from `t` to `t'` (logged), and the blocked flag is `b` -/
def Runs {α : Type} (cfg : Cfg) (w : Nat) (x : Rs.M LWorld α) (t : State) (r : Except Rs.Err α) (ls' : List Label)
    (t' : State) (b : Bool) : Prop :=
  Steps cfg w t ls' t' ∧ ∀ ls, runM x ⟨t, ls, false⟩ = (r, ⟨t', ls ++ ls', b⟩)

section RunsGeneric
variable {cfg : Cfg} {w : Nat} {α β : Type}

theorem Runs.pure (a : α) (t : State) : Runs cfg w (pure a : Rs.M LWorld α) t (.ok a) [] t false :=
  ⟨.nil _, fun ls => by simp⟩

theorem Runs.bind_ok {x : Rs.M LWorld α} {f : α → Rs.M LWorld β} {t t1 t2 : State} {a : α} {r : Except Rs.Err β}
    {l1 l2 : List Label} {b : Bool} (h1 : Runs cfg w x t (.ok a) l1 t1 false) (h2 : Runs cfg w (f a) t1 r l2 t2 b) :
    Runs cfg w (x >>= f) t r (l1 ++ l2) t2 b :=
  ⟨h1.1.trans h2.1, fun ls => by rw [runM_bind_ok (h1.2 ls), h2.2, List.append_assoc]⟩

theorem Runs.bind_err {x : Rs.M LWorld α} {f : α → Rs.M LWorld β} {t t1 : State} {e : Rs.Err}
    {l1 : List Label} {b : Bool} (h1 : Runs cfg w x t (.error e) l1 t1 b) :
    Runs cfg w (x >>= f) t (.error e) l1 t1 b :=
  ⟨h1.1, fun ls => by rw [runM_bind_error (h1.2 ls)]⟩

theorem Runs.capture {x : Rs.M LWorld α} {t t1 : State} {r : Except Rs.Err α} {l1 : List Label}
    (h1 : Runs cfg w x t r l1 t1 false) : Runs cfg w (Rs.capture x) t (.ok r) l1 t1 false :=
  ⟨h1.1, fun ls => by rw [runM_capture_eq, h1.2]⟩

theorem Runs.tick {x : Rs.M LWorld α} {guard : State → Bool} {ans : State → Label → Except Rs.Err α} {t : State}
    {l : Label} {e : Effect} {r : Except Rs.Err α} (hx : x = tick cfg w guard ans) (hw : w < cfg.n) (hg : guard t = true)
    (hn : next cfg w (cfg.worker w) (t.pc w) (t.map (cfg.worker w).inode) t.calls t.dst = some (l, e))
    (hy : l.isYield = false) (hr : ans t l = r) :
    Runs cfg w x t r [l] (t.apply w (cfg.worker w).inode e) false := by
  subst hx hr
  refine ⟨.single (step_of_next hw hn) hy, fun ls => ?_⟩
  unfold GenLinkMemberLts.tick
  rw [runM_op]
  simp only [hg, step_of_next hw hn, ↓reduceIte]

theorem Runs.check {x : Rs.M LWorld α} {guard : State → Bool} {a : α} {t : State} (hx : x = check w guard a)
    (hg : guard t = true) : Runs cfg w x t (.ok a) [] t false := by
  subst hx
  refine ⟨.nil _, fun ls => ?_⟩
  unfold GenLinkMemberLts.check
  rw [runM_op]
  simp only [hg, ↓reduceIte, List.append_nil]

end RunsGeneric

/-- worker `w` is a member of a link group run by the repaired code, and its transport operations have no await points -/
structure Member (cfg : Cfg) (w : Nat) : Prop where
  repaired : cfg.variant = .repaired
  lt : w < cfg.n
  linked : (cfg.worker w).linked = true
  yMkdir : (cfg.worker w).yMkdir = 0
  yCopy : (cfg.worker w).yCopy = 0
  yLink : (cfg.worker w).yLink = 0

section Ops
variable {cfg : Cfg} {w : Nat} (fuel : Nat) (hm : Member cfg w)
include hm

/-- top of the loop, no entry -/
theorem runs_get_none {t : State} (hpc : t.pc w = .start) (he : t.map (cfg.worker w).inode = none) :
    Runs cfg w ((ltsExt cfg w fuel).map_get (encInode (cfg.worker w).inode)) t (.ok none) [.readNone]
      (t.apply w (cfg.worker w).inode { pc := .sawNone }) false :=
  Runs.tick (ltsExt_map_get ..) hm.lt (by simp [hpc, Pc.atRead]) (by rw [hpc, he]; simp [next, hm.linked]) rfl
    (by simp [encInode, he])

/-- top of the loop, `InProgress(g)` -/
theorem runs_get_inProgress {t : State} {g : Nat} (hpc : t.pc w = .start)
    (he : t.map (cfg.worker w).inode = some (.inProgress g)) :
    Runs cfg w ((ltsExt cfg w fuel).map_get (cfg.worker w).inode) t (.ok (some (.InProgress g))) [.readInProgress g]
      (t.apply w (cfg.worker w).inode { pc := .sawInProgress g }) false :=
  Runs.tick (ltsExt_map_get ..) hm.lt (by simp [hpc, Pc.atRead, encInode]) (by rw [hpc, he]; simp [next, hm.linked]) rfl
    (by simp [he, encEntry, encNotify])

/-- top of the loop, `Completed(p)` -/
theorem runs_get_completed {t : State} {p : Nat} (hpc : t.pc w = .start)
    (he : t.map (cfg.worker w).inode = some (.completed p)) :
    Runs cfg w ((ltsExt cfg w fuel).map_get (cfg.worker w).inode) t (.ok (some (.Completed (encPath p))))
      [.readCompleted p]
      (t.apply w (cfg.worker w).inode { pc := if (cfg.worker w).action = .update then .sameOp p else .linkOp p 0 })
      false :=
  Runs.tick (ltsExt_map_get ..) hm.lt (by simp [hpc, Pc.atRead, encInode])
    (by rw [hpc, he]; simp [next, hm.linked, hm.yLink]) rfl (by simp [he, encEntry])

/-- `Notify::new()` -/
theorem runs_new {t : State} (hpc : t.pc w = .sawNone) :
    Runs cfg w ((ltsExt cfg w fuel).Notify_new ()) t (.ok w) [] t false :=
  Runs.check (ltsExt_Notify_new ..) (by simp [hpc])

/-- the claim's lock scope, read half: the entry is still absent — nothing happens yet -/
theorem runs_contains_false {t : State} (hpc : t.pc w = .sawNone) (he : t.map (cfg.worker w).inode = none) :
    Runs cfg w ((ltsExt cfg w fuel).map_contains (cfg.worker w).inode) t (.ok false) [] t false := by
  refine ⟨.nil _, fun ls => ?_⟩
  rw [ltsExt_map_contains, runM_op]
  simp [hpc, he, encInode]

/-- … write half: the step `claimOk` -/
theorem runs_insert_claim {t : State} (hpc : t.pc w = .sawNone) (he : t.map (cfg.worker w).inode = none) :
    Runs cfg w ((ltsExt cfg w fuel).map_insert (cfg.worker w).inode (.InProgress w)) t (.ok ()) [.claimOk]
      (t.apply w (cfg.worker w).inode
        { pc := if (cfg.worker w).action = .update then .syncOp 0 else .mkdirOp 0,
          map := some (some (.inProgress w)) }) false :=
  Runs.tick (ltsExt_map_insert_inProgress ..) hm.lt (by simp [hpc, he, encInode, encNotify])
    (by rw [hpc, he]; simp [next, hm.yCopy, hm.yMkdir]) rfl rfl

/-- `notify.notified()`: the step `arm`, the snapshot of the counter -/
theorem runs_notified {t : State} {g : Nat} (hpc : t.pc w = .sawInProgress g) :
    Runs cfg w ((ltsExt cfg w fuel).notified g) t (.ok (t.calls g)) [.arm g]
      (t.apply w (cfg.worker w).inode { pc := .armed g (t.calls g) }) false :=
  Runs.tick (ltsExt_notified ..) hm.lt (by simp [hpc]) (by rw [hpc]; simp [next, hm.repaired]) rfl rfl

/-- the re-check under the lock sees the same `InProgress` -/
theorem runs_recheck_same {t : State} {g snap : Nat} (hpc : t.pc w = .armed g snap)
    (he : t.map (cfg.worker w).inode = some (.inProgress g)) :
    Runs cfg w ((ltsExt cfg w fuel).map_get (cfg.worker w).inode) t (.ok (some (.InProgress g))) [.recheckSame]
      (t.apply w (cfg.worker w).inode { pc := .waiting g snap }) false :=
  Runs.tick (ltsExt_map_get ..) hm.lt (by simp [hpc, Pc.atRead, encInode]) (by rw [hpc, he]; simp [next]) rfl
    (by simp [he, encEntry, encNotify])

/-- the re-check sees anything else -/
theorem runs_recheck_changed {t : State} {g snap : Nat} (hpc : t.pc w = .armed g snap)
    (he : t.map (cfg.worker w).inode ≠ some (.inProgress g)) :
    Runs cfg w ((ltsExt cfg w fuel).map_get (cfg.worker w).inode) t
      (.ok ((t.map (cfg.worker w).inode).map encEntry)) [.recheckChanged]
      (t.apply w (cfg.worker w).inode { pc := .start }) false :=
  Runs.tick (ltsExt_map_get ..) hm.lt (by simp [hpc, Pc.atRead, encInode]) (by rw [hpc]; simp [next, he]) rfl rfl

/-- `notified.await`, the counter has not moved: BLOCKED, and the worker is not enabled in the LTS -/
theorem runs_await_blocked {t : State} {g snap : Nat} (hpc : t.pc w = .waiting g snap) (hc : t.calls g = snap) :
    Runs cfg w ((ltsExt cfg w fuel).await_notified snap) t (.error blockedErr) [] t true ∧ step cfg t w = none := by
  have hs : step cfg t w = none := step_none_of_next (by rw [hpc]; simp [next, hc])
  refine ⟨⟨.nil _, fun ls => ?_⟩, hs⟩
  rw [ltsExt_await_notified, runM_op]
  simp [hpc, hs]

/-- `notified.await`, the counter has moved: the step `wake`, back to the top of the loop -/
theorem runs_await_wake {t : State} {g snap : Nat} (hpc : t.pc w = .waiting g snap) (hc : t.calls g ≠ snap) :
    Runs cfg w ((ltsExt cfg w fuel).await_notified snap) t (.ok ()) [.wake]
      (t.apply w (cfg.worker w).inode { pc := .start }) false := by
  have hs : step cfg t w = some (.wake, t.apply w (cfg.worker w).inode { pc := .start }) :=
    step_of_next hm.lt (by rw [hpc]; simp [next, hc])
  refine ⟨.single hs rfl, fun ls => ?_⟩
  rw [ltsExt_await_notified, runM_op]
  simp [hpc, hs]

/-- what `same_inode(first, dest)` answers in the state `t` -/
def sameAns (t : State) (p w : Nat) : Bool :=
  match t.dst p, t.dst w with
  | some fp, some fw => decide (fp.ino = fw.ino)
  | _, _ => false

theorem runs_same_inode {t : State} {p : Nat} (self : Transferrer) (hpc : t.pc w = .sameOp p) :
    Runs cfg w ((ltsExt cfg w fuel).same_inode self (encPath p) (encPath w)) t (.ok (sameAns t p w))
      [if sameAns t p w then .sameInode else .otherInode]
      (t.apply w (cfg.worker w).inode { pc := if sameAns t p w then .done .ok else .removeOp p 0 }) false := by
  cases hp : t.dst p with
  | none =>
    have hs : sameAns t p w = false := by simp [sameAns, hp]
    rw [hs]
    exact Runs.tick (ltsExt_same_inode ..) hm.lt (by simp [hpc]) (by rw [hpc]; simp [next, hp, hm.yMkdir]) rfl rfl
  | some fp =>
    cases hq : t.dst w with
    | none =>
      have hs : sameAns t p w = false := by simp [sameAns, hp, hq]
      rw [hs]
      exact Runs.tick (ltsExt_same_inode ..) hm.lt (by simp [hpc]) (by rw [hpc]; simp [next, hp, hq, hm.yMkdir]) rfl rfl
    | some fw =>
      by_cases hi : fp.ino = fw.ino
      · have hs : sameAns t p w = true := by simp [sameAns, hp, hq, hi]
        rw [hs]
        exact Runs.tick (ltsExt_same_inode ..) hm.lt (by simp [hpc]) (by rw [hpc]; simp [next, hp, hq, hi]) rfl rfl
      · have hs : sameAns t p w = false := by simp [sameAns, hp, hq, hi]
        rw [hs]
        exact Runs.tick (ltsExt_same_inode ..) hm.lt (by simp [hpc])
          (by rw [hpc]; simp [next, hp, hq, hi, hm.yMkdir]) rfl rfl

/-- `transport.remove(dest, false)` -/
theorem runs_t_remove {t : State} {p : Nat} (o : Rs.Opaque) (hpc : t.pc w = .removeOp p 0) :
    if (cfg.worker w).failMkdir || (t.dst w).isNone then
      Runs cfg w ((ltsExt cfg w fuel).t_remove o (encPath w) false) t (.error (errOf .remove)) [.opErr .remove]
        (t.apply w (cfg.worker w).inode { pc := .done (.err .remove) }) false
    else
      Runs cfg w ((ltsExt cfg w fuel).t_remove o (encPath w) false) t (.ok ()) [.opOk .remove]
        (t.apply w (cfg.worker w).inode { pc := .linkOp p 0, dst := .set none }) false := by
  split
  · rename_i h
    exact Runs.tick (ltsExt_t_remove ..) hm.lt (by simp [hpc]) (by rw [hpc]; simp only [next, h, ↓reduceIte]) rfl rfl
  · rename_i h
    exact Runs.tick (ltsExt_t_remove ..) hm.lt (by simp [hpc])
      (by rw [hpc]; simp only [next, h, hm.yLink]; simp) rfl rfl

/-- `transport.create_hardlink(first, dest)` -/
theorem runs_link {t : State} {p : Nat} (o : Rs.Opaque) (hpc : t.pc w = .linkOp p 0) :
    if (cfg.worker w).failLink then
      Runs cfg w ((ltsExt cfg w fuel).t_create_hardlink o (encPath p) (encPath w)) t (.error (errOf .link))
        [.opErr .link] (t.apply w (cfg.worker w).inode { pc := .done (.err .link) }) false
    else
      Runs cfg w ((ltsExt cfg w fuel).t_create_hardlink o (encPath p) (encPath w)) t (.ok ()) [.opOk .link]
        (t.apply w (cfg.worker w).inode { pc := .done .ok, dst := .set (t.dst p) }) false := by
  split
  · rename_i h
    exact Runs.tick (ltsExt_t_create_hardlink ..) hm.lt (by simp [hpc]) (by rw [hpc]; simp [next, h]) rfl rfl
  · rename_i h
    exact Runs.tick (ltsExt_t_create_hardlink ..) hm.lt (by simp [hpc]) (by rw [hpc]; simp [next, h]) rfl rfl

theorem failPc_member (o : Op) : failPc cfg (cfg.worker w) o = .cleanup o := by
  simp [failPc, hm.repaired, hm.linked]

/-- `transport.sync_file_with_delta(src, dest)` (the owner of an update) -/
theorem runs_sync {t : State} (o : Rs.Opaque) (src : Rs.Path) (hpc : t.pc w = .syncOp 0) :
    if (cfg.worker w).failCopy then
      Runs cfg w ((ltsExt cfg w fuel).t_sync_file_with_delta o src (encPath w)) t (.error (errOf .sync))
        [.opErr .sync] (t.apply w (cfg.worker w).inode { pc := .cleanup .sync }) false
    else
      ∃ d, Runs cfg w ((ltsExt cfg w fuel).t_sync_file_with_delta o src (encPath w)) t (.ok default)
        [.opOk .sync] (t.apply w (cfg.worker w).inode { pc := .metaOp, dst := d }) false := by
  split
  · rename_i h
    exact Runs.tick (ltsExt_t_sync ..) hm.lt (by simp [hpc])
      (by rw [hpc]; simp [next, h, failPc_member hm]) rfl rfl
  · rename_i h
    cases hd : t.dst w with
    | none =>
      exact ⟨_, Runs.tick (ltsExt_t_sync ..) hm.lt (by simp [hpc]) (by rw [hpc]; simp [next, h, hd]; rfl) rfl rfl⟩
    | some fw =>
      by_cases hsh : ((cfg.worker w).large || sharedIno cfg.n t.dst w fw.ino) = true
      · exact ⟨_, Runs.tick (ltsExt_t_sync ..) hm.lt (by simp [hpc])
          (by rw [hpc]; simp only [next, h, hd, hsh, ↓reduceIte, Bool.false_eq_true]; rfl) rfl rfl⟩
      · exact ⟨_, Runs.tick (ltsExt_t_sync ..) hm.lt (by simp [hpc])
          (by rw [hpc]; simp only [next, h, hd, hsh, ↓reduceIte, Bool.false_eq_true]; rfl) rfl rfl⟩

/-- `self.copy_file(src, dest)` = `create_dir_all(parent)` then `transport.copy_file`: two micro-steps -/
theorem runs_copy_file {t : State} (self : Transferrer) (src : Rs.Path) (hpc : t.pc w = .mkdirOp 0) :
    ∃ t', if (cfg.worker w).failMkdir then
      Runs cfg w ((ltsExt cfg w fuel).transferrer_copy_file self src (encPath w)) t (.error (errOf .mkdir))
        [.opErr .mkdir] t' false ∧ t'.pc w = .cleanup .mkdir
    else if (cfg.worker w).failCopy then
      Runs cfg w ((ltsExt cfg w fuel).transferrer_copy_file self src (encPath w)) t (.error (errOf .copy))
        [.opOk .mkdir, .opErr .copy] t' false ∧ t'.pc w = .cleanup .copy
    else
      Runs cfg w ((ltsExt cfg w fuel).transferrer_copy_file self src (encPath w)) t (.ok default)
        [.opOk .mkdir, .opOk .copy] t' false ∧ t'.pc w = .metaOp := by
  rw [ltsExt_copy_file]
  by_cases h1 : (cfg.worker w).failMkdir = true
  · refine ⟨t.apply w (cfg.worker w).inode { pc := .cleanup .mkdir }, ?_⟩
    rw [if_pos h1]
    refine ⟨Runs.bind_err (Runs.tick rfl hm.lt (by simp [hpc]) (by rw [hpc]; simp [next, h1, failPc_member hm]) rfl rfl), ?_⟩
    simp
  · have hmk : Runs cfg w (tick cfg w (fun s => decide (s.pc w = .mkdirOp 0) && decide (encPath w = encPath w)) (ansOp ()))
        t (.ok ()) [.opOk .mkdir] (t.apply w (cfg.worker w).inode { pc := .copyOp 0 }) false :=
      Runs.tick rfl hm.lt (by simp [hpc]) (by rw [hpc]; simp [next, h1, hm.yCopy]) rfl rfl
    by_cases h2 : (cfg.worker w).failCopy = true
    · refine ⟨(t.apply w (cfg.worker w).inode { pc := .copyOp 0 }).apply w (cfg.worker w).inode
        { pc := .cleanup .copy }, ?_⟩
      rw [if_neg h1, if_pos h2]
      have hcp : Runs cfg w (tick cfg w (fun s => decide (s.pc w = .copyOp 0)) (ansOp (default : TransferResult)))
          (t.apply w (cfg.worker w).inode { pc := .copyOp 0 }) (.error (errOf .copy)) [.opErr .copy]
          ((t.apply w (cfg.worker w).inode { pc := .copyOp 0 }).apply w (cfg.worker w).inode { pc := .cleanup .copy })
          false :=
        Runs.tick rfl hm.lt (by simp) (by simp [next, h2, failPc_member hm]) rfl rfl
      refine ⟨Runs.bind_ok hmk hcp, ?_⟩
      simp
    · refine ⟨(t.apply w (cfg.worker w).inode { pc := .copyOp 0 }).apply w (cfg.worker w).inode
        { pc := .metaOp, dst := .set (some ⟨w, cfg.content (cfg.worker w).inode⟩) }, ?_⟩
      rw [if_neg h1, if_neg h2]
      have hcp : Runs cfg w (tick cfg w (fun s => decide (s.pc w = .copyOp 0)) (ansOp (default : TransferResult)))
          (t.apply w (cfg.worker w).inode { pc := .copyOp 0 }) (.ok default) [.opOk .copy]
          ((t.apply w (cfg.worker w).inode { pc := .copyOp 0 }).apply w (cfg.worker w).inode
            { pc := .metaOp, dst := .set (some ⟨w, cfg.content (cfg.worker w).inode⟩) }) false :=
        Runs.tick rfl hm.lt (by simp) (by simp [next, h2]) rfl rfl
      refine ⟨Runs.bind_ok hmk hcp, ?_⟩
      simp

/-- the three attribute writers: ONE micro-step of the LTS, attributed to `write_xattrs` -/
theorem runs_xattrs {t : State} (self : Transferrer) (fe : FileEntry) (hpc : t.pc w = .metaOp) :
    if (cfg.worker w).failMeta then
      Runs cfg w ((ltsExt cfg w fuel).write_xattrs self fe (encPath w)) t (.error (errOf .attrs)) [.opErr .attrs]
        (t.apply w (cfg.worker w).inode { pc := .cleanup .attrs }) false
    else
      Runs cfg w ((ltsExt cfg w fuel).write_xattrs self fe (encPath w)) t (.ok ()) [.opOk .attrs]
        (t.apply w (cfg.worker w).inode { pc := .complete }) false := by
  split
  · rename_i h
    exact Runs.tick (ltsExt_write_xattrs ..) hm.lt (by simp [hpc]) (by rw [hpc]; simp [next, h, failPc_member hm]) rfl rfl
  · rename_i h
    exact Runs.tick (ltsExt_write_xattrs ..) hm.lt (by simp [hpc]) (by rw [hpc]; simp [next, h, hm.linked]) rfl rfl

theorem runs_acls {t : State} (self : Transferrer) (fe : FileEntry) (hpc : t.pc w = .complete) :
    Runs cfg w ((ltsExt cfg w fuel).write_acls self fe (encPath w)) t (.ok ()) [] t false :=
  Runs.check (ltsExt_write_acls ..) (by simp [hpc])

theorem runs_bsd_flags {t : State} (self : Transferrer) (fe : FileEntry) (hpc : t.pc w = .complete) :
    Runs cfg w ((ltsExt cfg w fuel).write_bsd_flags self fe (encPath w)) t (.ok ()) [] t false :=
  Runs.check (ltsExt_write_bsd_flags ..) (by simp [hpc])

/-- `map.insert(inode, Completed(dest))` -/
theorem runs_insert_completed {t : State} (hpc : t.pc w = .complete) :
    Runs cfg w ((ltsExt cfg w fuel).map_insert (cfg.worker w).inode (.Completed (encPath w))) t (.ok ()) [.complete]
      (t.apply w (cfg.worker w).inode { pc := .notifyOk, map := some (some (.completed w)) }) false :=
  Runs.tick (ltsExt_map_insert_completed ..) hm.lt (by simp [hpc, encInode]) (by rw [hpc]; simp [next]) rfl rfl

/-- `notify.notify_waiters()` after success -/
theorem runs_notify_ok {t : State} (hpc : t.pc w = .notifyOk) :
    Runs cfg w ((ltsExt cfg w fuel).notify_waiters w) t (.ok ()) [.notify]
      (t.apply w (cfg.worker w).inode { pc := .done .ok, notify := true }) false :=
  Runs.tick (ltsExt_notify_waiters ..) hm.lt (by simp [hpc, encNotify, Pc.atNotify]) (by rw [hpc]; simp [next]) rfl rfl

/-- `map.remove(&inode)` -/
theorem runs_remove_claim {t : State} {o : Op} (hpc : t.pc w = .cleanup o) :
    Runs cfg w ((ltsExt cfg w fuel).map_remove (cfg.worker w).inode) t (.ok ()) [.remove]
      (t.apply w (cfg.worker w).inode { pc := .failNotify o, map := some none }) false :=
  Runs.tick (ltsExt_map_remove ..) hm.lt (by simp [hpc, encInode, Pc.atCleanup]) (by rw [hpc]; simp [next]) rfl rfl

/-- `notify.notify_waiters()` after a failure -/
theorem runs_notify_fail {t : State} {o : Op} (hpc : t.pc w = .failNotify o) :
    Runs cfg w ((ltsExt cfg w fuel).notify_waiters w) t (.ok ()) [.notify]
      (t.apply w (cfg.worker w).inode { pc := .done (.err o), notify := true }) false :=
  Runs.tick (ltsExt_notify_waiters ..) hm.lt (by simp [hpc, encNotify, Pc.atNotify]) (by rw [hpc]; simp [next]) rfl rfl

end Ops

/-! ## §7 the arms of the normal form as chains -/

/-- how one round (and hence the run) ends, tied to where the LTS's worker is: the function returned `Ok` and the worker
    is at `done ok`; it returned the error of the operation `o` and the worker is at `done (err o)`; or it is blocked and
    the worker is not enabled -/
inductive EndsRound (cfg : Cfg) (w : Nat) : Except Rs.Err Step → Bool → State → PollOut → Prop where
  | ok (v : Option TransferResult) (t' : State) : t'.pc w = .done .ok → EndsRound cfg w (.ok (finish v)) false t' (.ready .ok)
  | err (o : Op) (t' : State) : t'.pc w = .done (.err o) →
      EndsRound cfg w (.error (errOf o)) false t' (.ready (.err o))
  | blocked (t' : State) : (∀ r, t'.pc w ≠ .done r) → step cfg t' w = none →
      EndsRound cfg w (.error blockedErr) true t' .pending

section Arms
variable {cfg : Cfg} {w : Nat} (fuel : Nat) (hm : Member cfg w) (self : Transferrer) (source : FileEntry)
include hm

theorem isUpdate_true (h : (cfg.worker w).action = .update) : isUpdate cfg w = true := by simp [isUpdate, h]
theorem isUpdate_false (h : (cfg.worker w).action ≠ .update) : isUpdate cfg w = false := by simp [isUpdate, h]

/-- the captured block: the transfer and the attribute writers, from `syncOp 0` (update) / `mkdirOp 0` (creation) to
    `complete`, or to `cleanup o` with the error of the operation `o` -/
theorem copyBlock_sim {t : State}
    (hpc : t.pc w = if (cfg.worker w).action = .update then .syncOp 0 else .mkdirOp 0) :
    ∃ (r : Except Rs.Err TransferResult) (ls' : List Label) (t' : State),
      Runs cfg w (copyBlock (ltsExt cfg w fuel) self source (encPath w) (isUpdate cfg w)) t r ls' t' false ∧
        ((∃ v, r = .ok v ∧ t'.pc w = .complete) ∨ (∃ o, r = .error (errOf o) ∧ t'.pc w = .cleanup o)) := by
  -- the tail after the transfer, from `metaOp`
  have tail : ∀ (t1 : State) (v : TransferResult), t1.pc w = .metaOp →
      ∃ (r : Except Rs.Err TransferResult) (ls' : List Label) (t' : State),
        Runs cfg w (do
          (ltsExt cfg w fuel).write_xattrs self source (encPath w)
          (ltsExt cfg w fuel).write_acls self source (encPath w)
          (ltsExt cfg w fuel).write_bsd_flags self source (encPath w)
          pure v) t1 r ls' t' false ∧
        ((∃ v, r = .ok v ∧ t'.pc w = .complete) ∨ (∃ o, r = .error (errOf o) ∧ t'.pc w = .cleanup o)) := by
    intro t1 v h1
    have hx := runs_xattrs fuel hm self source h1
    by_cases hf : (cfg.worker w).failMeta = true
    · rw [if_pos hf] at hx
      exact ⟨_, _, _, Runs.bind_err hx, Or.inr ⟨.attrs, rfl, by simp⟩⟩
    · rw [if_neg hf] at hx
      have h2 : (t1.apply w (cfg.worker w).inode { pc := .complete }).pc w = .complete := by simp
      exact ⟨_, _, _, Runs.bind_ok hx (Runs.bind_ok (runs_acls fuel hm self source h2)
        (Runs.bind_ok (runs_bsd_flags fuel hm self source h2) (Runs.pure v _))), Or.inl ⟨v, rfl, h2⟩⟩
  unfold copyBlock
  by_cases ha : (cfg.worker w).action = .update
  · rw [isUpdate_true hm ha, if_pos rfl]
    rw [if_pos ha] at hpc
    have hs := runs_sync fuel hm self.transport source.path hpc
    by_cases hf : (cfg.worker w).failCopy = true
    · rw [if_pos hf] at hs
      exact ⟨_, _, _, Runs.bind_err hs, Or.inr ⟨.sync, rfl, by simp⟩⟩
    · rw [if_neg hf] at hs
      obtain ⟨d, hs⟩ := hs
      obtain ⟨r, ls', t', hr, hend⟩ := tail _ default (show (t.apply w (cfg.worker w).inode { pc := .metaOp, dst := d }).pc w = .metaOp by simp)
      exact ⟨_, _, _, Runs.bind_ok hs hr, hend⟩
  · rw [isUpdate_false hm ha, if_neg (by simp)]
    rw [if_neg ha] at hpc
    obtain ⟨t1, hc⟩ := runs_copy_file fuel hm self source.path hpc
    by_cases h1 : (cfg.worker w).failMkdir = true
    · rw [if_pos h1] at hc
      exact ⟨_, _, _, Runs.bind_err hc.1, Or.inr ⟨.mkdir, rfl, hc.2⟩⟩
    · rw [if_neg h1] at hc
      by_cases h2 : (cfg.worker w).failCopy = true
      · rw [if_pos h2] at hc
        exact ⟨_, _, _, Runs.bind_err hc.1, Or.inr ⟨.copy, rfl, hc.2⟩⟩
      · rw [if_neg h2] at hc
        obtain ⟨r, ls', t', hr, hend⟩ := tail t1 default hc.2
        exact ⟨_, _, _, Runs.bind_ok hc.1 hr, hend⟩

/-- the release after a successful block: `Completed(dest)`, the wake-up, `Ok` -/
theorem release_ok_sim {t : State} (v : TransferResult) (hpc : t.pc w = .complete) :
    ∃ t', Runs cfg w (release (ltsExt cfg w fuel) (encPath w) (cfg.worker w).inode w (.ok v)) t
        (.ok (finish (some v))) [.complete, .notify] t' false ∧ t'.pc w = .done .ok := by
  unfold release
  have h1 := runs_insert_completed fuel hm hpc
  have h2 := runs_notify_ok fuel hm
    (show (t.apply w (cfg.worker w).inode { pc := .notifyOk, map := some (some (.completed w)) }).pc w = .notifyOk by simp)
  exact ⟨_, Runs.bind_ok h1 (Runs.bind_ok h2 (Runs.pure _ _)), by simp⟩

/-- the release after a failed block: the entry removed, the wake-up, the block's error -/
theorem release_err_sim {t : State} {o : Op} (e : Rs.Err) (hpc : t.pc w = .cleanup o) :
    ∃ t', Runs cfg w (release (ltsExt cfg w fuel) (encPath w) (cfg.worker w).inode w (.error e)) t
        (.error e) [.remove, .notify] t' false ∧ t'.pc w = .done (.err o) := by
  unfold release
  have h1 := runs_remove_claim fuel hm hpc
  have h2 := runs_notify_fail fuel hm
    (show (t.apply w (cfg.worker w).inode { pc := .failNotify o, map := some none }).pc w = .failNotify o by simp)
  refine ⟨_, Runs.bind_ok h1 (Runs.bind_ok h2 ⟨.nil _, fun ls => by simp⟩), by simp⟩

/-- the claim arm, from `sawNone` with the entry still absent (it is: nobody moved since the read): fresh Notify, the
    claim (ONE step for the two map operations), the block, the release -/
theorem claimArm_sim {t : State} (hpc : t.pc w = .sawNone) (he : t.map (cfg.worker w).inode = none) :
    ∃ (r : Except Rs.Err Step) (ls' : List Label) (t' : State) (out : PollOut),
      Runs cfg w (claimArm (ltsExt cfg w fuel) self source (encPath w) (cfg.worker w).inode (isUpdate cfg w)) t r
        ls' t' false ∧ EndsRound cfg w r false t' out := by
  unfold claimArm
  have h1 := runs_new fuel hm hpc
  have h2 := runs_contains_false fuel hm hpc he
  have h3 := runs_insert_claim fuel hm hpc he
  obtain ⟨rc, lc, tc, hc, hcend⟩ := copyBlock_sim fuel hm self source
    (t := t.apply w (cfg.worker w).inode
      { pc := if (cfg.worker w).action = .update then .syncOp 0 else .mkdirOp 0, map := some (some (.inProgress w)) })
    (by simp)
  rcases hcend with ⟨v, rfl, hpc'⟩ | ⟨o, rfl, hpc'⟩
  · obtain ⟨t', hr, hd⟩ := release_ok_sim fuel hm v hpc'
    have hrest : Runs cfg w (do
        (ltsExt cfg w fuel).map_insert (cfg.worker w).inode (InodeState.InProgress w)
        let copied ← Rs.capture (copyBlock (ltsExt cfg w fuel) self source (encPath w) (isUpdate cfg w))
        release (ltsExt cfg w fuel) (encPath w) (cfg.worker w).inode w copied) t _ _ _ _ :=
      Runs.bind_ok h3 (Runs.bind_ok (Runs.capture hc) hr)
    exact ⟨_, _, _, _, Runs.bind_ok h1 (Runs.bind_ok h2 hrest), EndsRound.ok _ _ hd⟩
  · obtain ⟨t', hr, hd⟩ := release_err_sim fuel hm (errOf o) hpc'
    have hrest : Runs cfg w (do
        (ltsExt cfg w fuel).map_insert (cfg.worker w).inode (InodeState.InProgress w)
        let copied ← Rs.capture (copyBlock (ltsExt cfg w fuel) self source (encPath w) (isUpdate cfg w))
        release (ltsExt cfg w fuel) (encPath w) (cfg.worker w).inode w copied) t _ _ _ _ :=
      Runs.bind_ok h3 (Runs.bind_ok (Runs.capture hc) hr)
    exact ⟨_, _, _, _, Runs.bind_ok h1 (Runs.bind_ok h2 hrest), EndsRound.err _ _ hd⟩

/-- the link arm, from `linkOp p 0` (creation) / `sameOp p` (update) -/
theorem linkArm_sim {t : State} {p : Nat}
    (hpc : t.pc w = if (cfg.worker w).action = .update then .sameOp p else .linkOp p 0) :
    ∃ (r : Except Rs.Err Step) (ls' : List Label) (t' : State) (out : PollOut),
      Runs cfg w (linkArm (ltsExt cfg w fuel) self (encPath w) (isUpdate cfg w) (encPath p)) t r ls' t' false ∧
        EndsRound cfg w r false t' out := by
  -- the link itself, from `linkOp p 0`
  have link : ∀ (t1 : State), t1.pc w = .linkOp p 0 →
      ∃ (r : Except Rs.Err Step) (ls' : List Label) (t' : State) (out : PollOut),
        Runs cfg w (do
          (ltsExt cfg w fuel).t_create_hardlink self.transport (encPath p) (encPath w)
          pure (finish (some zeroResult))) t1 r ls' t' false ∧ EndsRound cfg w r false t' out := by
    intro t1 h1
    have hl := runs_link fuel hm self.transport h1
    by_cases hf : (cfg.worker w).failLink = true
    · rw [if_pos hf] at hl
      exact ⟨_, _, _, _, Runs.bind_err hl, EndsRound.err _ _ (apply_pc_self ..)⟩
    · rw [if_neg hf] at hl
      exact ⟨_, _, _, _, Runs.bind_ok hl (Runs.pure _ _), EndsRound.ok _ _ (apply_pc_self ..)⟩
  unfold linkArm
  by_cases ha : (cfg.worker w).action = .update
  · rw [isUpdate_true hm ha, if_pos rfl]
    rw [if_pos ha] at hpc
    have hs := runs_same_inode fuel hm self hpc
    cases hsame : sameAns t p w with
    | true =>
      rw [hsame] at hs
      simp only [↓reduceIte] at hs
      have hrest : Runs cfg w (pure (finish (some zeroResult)) : Rs.M LWorld Step)
          (t.apply w (cfg.worker w).inode { pc := .done .ok }) _ _ _ _ := Runs.pure _ _
      exact ⟨_, _, _, _, Runs.bind_ok hs hrest, EndsRound.ok _ _ (apply_pc_self ..)⟩
    | false =>
      rw [hsame] at hs
      simp only [Bool.false_eq_true, ↓reduceIte] at hs
      have hrm := runs_t_remove fuel hm self.transport
        (show (t.apply w (cfg.worker w).inode { pc := .removeOp p 0 }).pc w = .removeOp p 0 by simp)
      split at hrm
      · have hrest : Runs cfg w (do
            (ltsExt cfg w fuel).t_remove self.transport (encPath w) false
            (ltsExt cfg w fuel).t_create_hardlink self.transport (encPath p) (encPath w)
            pure (finish (some zeroResult))) _ _ _ _ _ := Runs.bind_err hrm
        exact ⟨_, _, _, _, Runs.bind_ok hs hrest, EndsRound.err _ _ (apply_pc_self ..)⟩
      · obtain ⟨r, ls', t', out, hr, hend⟩ := link _
          (show ((t.apply w (cfg.worker w).inode { pc := .removeOp p 0 }).apply w (cfg.worker w).inode
            { pc := .linkOp p 0, dst := .set none }).pc w = .linkOp p 0 by simp)
        have hrest : Runs cfg w (do
            (ltsExt cfg w fuel).t_remove self.transport (encPath w) false
            (ltsExt cfg w fuel).t_create_hardlink self.transport (encPath p) (encPath w)
            pure (finish (some zeroResult))) _ _ _ _ _ := Runs.bind_ok hrm hr
        exact ⟨_, _, _, _, Runs.bind_ok hs hrest, hend⟩
  · rw [isUpdate_false hm ha, if_neg (by simp)]
    rw [if_neg ha] at hpc
    exact link t hpc

/-- the wait arm, from `sawInProgress g` with the entry still `InProgress(g)` (nobody moved since the read): REGISTER
    (snapshot of the counter), re-check (same), await — the counter is the snapshot just taken: BLOCKED -/
theorem waitArm_sim {t : State} {g : Nat} (hpc : t.pc w = .sawInProgress g)
    (he : t.map (cfg.worker w).inode = some (.inProgress g)) :
    ∃ (t' : State), Runs cfg w (waitArm (ltsExt cfg w fuel) (cfg.worker w).inode g) t (.error blockedErr)
        [.arm g, .recheckSame] t' true ∧ EndsRound cfg w (.error blockedErr) true t' .pending ∧
        t'.pc w = .waiting g (t.calls g) ∧ step cfg t' w = none := by
  unfold waitArm
  have h1 := runs_notified fuel hm hpc
  have h2 := runs_recheck_same fuel hm (snap := t.calls g)
    (show (t.apply w (cfg.worker w).inode { pc := .armed g (t.calls g) }).pc w = .armed g (t.calls g) by simp)
    (show (t.apply w (cfg.worker w).inode { pc := .armed g (t.calls g) }).map (cfg.worker w).inode = _ from he)
  have h3 := runs_await_blocked fuel hm (g := g) (snap := t.calls g)
    (t := (t.apply w (cfg.worker w).inode { pc := .armed g (t.calls g) }).apply w (cfg.worker w).inode
      { pc := .waiting g (t.calls g) }) (by simp) rfl
  refine ⟨_, Runs.bind_ok h1 (Runs.bind_ok h2 ?_), EndsRound.blocked _ (by simp) h3.2, by simp, h3.2⟩
  simp only [beq_self_eq_true, ↓reduceIte]
  exact Runs.bind_err h3.1

/-- **one round from the top of the loop** — the three arms -/
theorem round_sim {t : State} (hpc : t.pc w = .start) :
    ∃ (r : Except Rs.Err Step) (ls' : List Label) (t' : State) (b : Bool) (out : PollOut),
      Runs cfg w (round (ltsExt cfg w fuel) self source (encPath w) (cfg.worker w).inode (isUpdate cfg w)) t r
        ls' t' b ∧ EndsRound cfg w r b t' out := by
  unfold round
  cases he : t.map (cfg.worker w).inode with
  | none =>
    have h0 := runs_get_none fuel hm hpc he
    obtain ⟨r, ls', t', out, hr, hend⟩ := claimArm_sim fuel hm self source
      (t := t.apply w (cfg.worker w).inode { pc := .sawNone }) (by simp) he
    exact ⟨_, _, _, _, _, Runs.bind_ok h0 hr, hend⟩
  | some en =>
    cases en with
    | inProgress g =>
      have h0 := runs_get_inProgress fuel hm hpc he
      obtain ⟨t', hr, hend, _, _⟩ := waitArm_sim fuel hm
        (t := t.apply w (cfg.worker w).inode { pc := .sawInProgress g }) (by simp) he
      exact ⟨_, _, _, _, _, Runs.bind_ok h0 hr, hend⟩
    | completed p =>
      have h0 := runs_get_completed fuel hm hpc he
      obtain ⟨r, ls', t', out, hr, hend⟩ := linkArm_sim fuel hm self
        (t := t.apply w (cfg.worker w).inode
          { pc := if (cfg.worker w).action = .update then .sameOp p else .linkOp p 0 }) (p := p) (by simp)
      exact ⟨_, _, _, _, _, Runs.bind_ok h0 hr, hend⟩

/-- the call on `ltsExt` in normal form -/
theorem genCall_rounds (n : Nat) :
    genCall cfg w n self source =
      rounds (ltsExt cfg w n) self source (encPath w) (cfg.worker w).inode (isUpdate cfg w) n := by
  unfold genCall
  rw [transfer_link_member_rounds]
  rfl

/-- how the run of the function ends, next to how the poll ends: `Ok` ↔ `ready ok`; the error of the operation `o` ↔
    `ready (err o)`; the blocked exit with the flag set ↔ `pending` -/
inductive Ended : Except Rs.Err (Option TransferResult) → Bool → PollOut → Prop where
  | ok (v : Option TransferResult) : Ended (.ok v) false (.ready .ok)
  | err (o : Op) : Ended (.error (errOf o)) false (.ready (.err o))
  | blocked : Ended (.error blockedErr) true .pending

omit hm in
theorem Ended.outcome {res : Except Rs.Err (Option TransferResult)} {b : Bool} {out : PollOut} (h : Ended res b out) :
    outcome res b = out := by
  cases h with
  | ok v => rfl
  | err o => simp [GenLinkMemberLts.outcome, decodeErr_errOf]
  | blocked => simp [GenLinkMemberLts.outcome]

/-- **one run of the generated function from the top, as a chain** (any fuel ≥ 1, ANY state — reachable or not — in
    which the worker is at `start`): the chain, the run, and how both end -/
theorem genCall_sim {t : State} (hpc : t.pc w = .start) (n : Nat) :
    ∃ (res : Except Rs.Err (Option TransferResult)) (ls' : List Label) (t' : State) (b : Bool) (out : PollOut),
      Steps cfg w t ls' t' ∧
      (∀ ls, runM (genCall cfg w (n + 1) self source) ⟨t, ls, false⟩ = (res, ⟨t', ls ++ ls', b⟩)) ∧
      Ended res b out ∧ PollEnd cfg w t' out := by
  obtain ⟨r, ls', t', b, out, hr, hend⟩ := round_sim (n + 1) hm self source hpc
  rw [genCall_rounds hm]
  cases hend with
  | ok v t' hd =>
    exact ⟨.ok v, ls', t', false, _, hr.1, fun ls => rounds_finish _ _ _ _ _ _ n (hr.2 ls), .ok v, Or.inl ⟨_, rfl, hd⟩⟩
  | err o t' hd =>
    exact ⟨.error (errOf o), ls', t', false, _, hr.1, fun ls => rounds_error _ _ _ _ _ _ n (hr.2 ls),
      .err o, Or.inl ⟨_, rfl, hd⟩⟩
  | blocked t' hnd hs =>
    exact ⟨.error blockedErr, ls', t', true, _, hr.1, fun ls => rounds_error _ _ _ _ _ _ n (hr.2 ls),
      .blocked, Or.inr ⟨rfl, hnd, hs⟩⟩

/-- **resumption**: the worker is suspended at `notified.await`; the await is polled again and, when it completes, the
    code goes round the loop (`continue`), i.e. runs the function from its top -/
theorem resume_sim {t : State} {g snap : Nat} (hpc : t.pc w = .waiting g snap) (n : Nat) :
    ∃ (res : Except Rs.Err (Option TransferResult)) (ls' : List Label) (t' : State) (b : Bool) (out : PollOut),
      Steps cfg w t ls' t' ∧
      (∀ ls, runM ((ltsExt cfg w (n + 1)).await_notified snap >>= fun _ => genCall cfg w (n + 1) self source)
        ⟨t, ls, false⟩ = (res, ⟨t', ls ++ ls', b⟩)) ∧
      Ended res b out ∧ PollEnd cfg w t' out := by
  by_cases hc : t.calls g = snap
  · obtain ⟨hb, hs⟩ := runs_await_blocked (n + 1) hm hpc hc
    refine ⟨.error blockedErr, [], t, true, .pending, .nil _, fun ls => (Runs.bind_err hb).2 ls, .blocked,
      Or.inr ⟨rfl, ?_, hs⟩⟩
    intro r hr; rw [hpc] at hr; cases hr
  · have hwk := runs_await_wake (n + 1) hm hpc hc
    obtain ⟨res, ls', t', b, out, hst, hrun, hout, hend⟩ := genCall_sim hm self source
      (t := t.apply w (cfg.worker w).inode { pc := .start }) (apply_pc_self ..) n
    refine ⟨res, [.wake] ++ ls', t', b, out, hwk.1.trans hst, fun ls => ?_, hout, hend⟩
    rw [runM_bind_ok (hwk.2 ls), hrun, List.append_assoc]

end Arms

/-! ## §8 a run on `ltsExt` is one worker's uninterrupted macro-step -/

/-- `OwnSteps cfg w x`: from EVERY world, whatever `x` answers, the state after the run is reached from the state before
    by micro-steps of worker `w` alone -/
def OwnSteps {α : Type} (cfg : Cfg) (w : Nat) (x : Rs.M LWorld α) : Prop :=
  ∀ lw : LWorld, ∃ k, Exec cfg lw.s (List.replicate k w) (runM x lw).2.s

section Own
variable {cfg : Cfg} {w : Nat} {α β : Type}

theorem OwnSteps.pure (a : α) : OwnSteps cfg w (pure a : Rs.M LWorld α) := fun lw => ⟨0, Exec.nil _⟩
theorem OwnSteps.throw (e : Rs.Err) : OwnSteps cfg w (throw e : Rs.M LWorld α) := fun lw => ⟨0, Exec.nil _⟩

theorem OwnSteps.bind {x : Rs.M LWorld α} {f : α → Rs.M LWorld β} (hx : OwnSteps cfg w x)
    (hf : ∀ a, OwnSteps cfg w (f a)) : OwnSteps cfg w (x >>= f) := by
  intro lw
  obtain ⟨k1, h1⟩ := hx lw
  rw [runM_bind]
  rcases hr : runM x lw with ⟨r, lw'⟩
  rw [hr] at h1
  cases r with
  | error e => exact ⟨k1, h1⟩
  | ok a =>
    obtain ⟨k2, h2⟩ := hf a lw'
    refine ⟨k1 + k2, ?_⟩
    rw [← List.replicate_append_replicate]
    exact exec_append h1 h2

theorem OwnSteps.ite {c : Prop} [Decidable c] {x y : Rs.M LWorld α} (hx : OwnSteps cfg w x) (hy : OwnSteps cfg w y) :
    OwnSteps cfg w (if c then x else y) := by
  split <;> assumption

theorem OwnSteps.capture {x : Rs.M LWorld α} (hx : OwnSteps cfg w x) : OwnSteps cfg w (Rs.capture x) := by
  intro lw
  rw [runM_capture_eq]
  exact hx lw

theorem OwnSteps.loopN {σ : Type} {b : σ → Rs.M LWorld (ForInStep σ)} (hb : ∀ s, OwnSteps cfg w (b s)) :
    ∀ (n : Nat) (s : σ), OwnSteps cfg w (loopN n b s)
  | 0, s => OwnSteps.pure s
  | n + 1, s => by
    unfold GenLinkMember.loopN
    refine OwnSteps.bind (hb s) fun r => ?_
    cases r with
    | done s' => exact OwnSteps.pure s'
    | yield s' => exact OwnSteps.loopN hb n s'

theorem OwnSteps.tick (guard : State → Bool) (ans : State → Label → Except Rs.Err α) :
    OwnSteps cfg w (tick cfg w guard ans) := by
  intro lw
  unfold GenLinkMemberLts.tick
  rw [runM_op]
  split
  · cases hs : step cfg lw.s w with
    | none => exact ⟨0, Exec.nil _⟩
    | some p => exact ⟨1, Exec.cons (l := p.1) (s' := p.2) hs (Exec.nil _)⟩
  · exact ⟨0, Exec.nil _⟩

theorem OwnSteps.check (guard : State → Bool) (a : α) : OwnSteps cfg w (check w guard a) := by
  intro lw
  unfold GenLinkMemberLts.check
  rw [runM_op]
  split <;> exact ⟨0, Exec.nil _⟩

end Own

section OwnExt
variable (cfg : Cfg) (w fuel : Nat)

theorem own_map_contains (i : Nat) : OwnSteps cfg w ((ltsExt cfg w fuel).map_contains i) := by
  intro lw
  rw [ltsExt_map_contains, runM_op]
  split
  · split
    · exact OwnSteps.tick _ _ lw
    · exact ⟨0, Exec.nil _⟩
  · exact ⟨0, Exec.nil _⟩

theorem own_await (t : Nat) : OwnSteps cfg w ((ltsExt cfg w fuel).await_notified t) := by
  intro lw
  rw [ltsExt_await_notified, runM_op]
  split
  · split
    · cases hs : step cfg lw.s w with
      | none => exact ⟨0, Exec.nil _⟩
      | some p => exact ⟨1, Exec.cons (l := p.1) (s' := p.2) hs (Exec.nil _)⟩
    · exact ⟨0, Exec.nil _⟩
  · exact ⟨0, Exec.nil _⟩

theorem own_map_insert (i : Nat) (st : InodeState) : OwnSteps cfg w ((ltsExt cfg w fuel).map_insert i st) := by
  cases st with
  | InProgress n => rw [ltsExt_map_insert_inProgress]; exact OwnSteps.tick _ _
  | Completed p => rw [ltsExt_map_insert_completed]; exact OwnSteps.tick _ _

variable (self : Transferrer) (source : FileEntry) (dest : Rs.Path) (inode : Nat) (upd : Bool)

theorem own_copyBlock : OwnSteps cfg w (copyBlock (ltsExt cfg w fuel) self source dest upd) := by
  have hx : OwnSteps cfg w ((ltsExt cfg w fuel).write_xattrs self source dest) := OwnSteps.tick _ _
  have ha : OwnSteps cfg w ((ltsExt cfg w fuel).write_acls self source dest) := OwnSteps.check _ _
  have hb : OwnSteps cfg w ((ltsExt cfg w fuel).write_bsd_flags self source dest) := OwnSteps.check _ _
  unfold copyBlock
  refine OwnSteps.ite ?_ ?_
  · refine OwnSteps.bind (OwnSteps.tick _ _) fun r => OwnSteps.bind hx fun _ => OwnSteps.bind ha fun _ =>
      OwnSteps.bind hb fun _ => OwnSteps.pure r
  · refine OwnSteps.bind ?_ fun r => OwnSteps.bind hx fun _ => OwnSteps.bind ha fun _ =>
      OwnSteps.bind hb fun _ => OwnSteps.pure r
    rw [ltsExt_copy_file]
    exact OwnSteps.bind (OwnSteps.tick _ _) fun _ => OwnSteps.tick _ _

theorem own_round : OwnSteps cfg w (round (ltsExt cfg w fuel) self source dest inode upd) := by
  have hnw : ∀ n, OwnSteps cfg w ((ltsExt cfg w fuel).notify_waiters n) := fun n => OwnSteps.tick _ _
  have hlink : ∀ a, OwnSteps cfg w ((ltsExt cfg w fuel).t_create_hardlink self.transport a dest) :=
    fun a => OwnSteps.tick _ _
  unfold round
  refine OwnSteps.bind (OwnSteps.tick _ _) fun st => ?_
  unfold dispatch
  split
  · -- Completed
    unfold linkArm
    refine OwnSteps.ite ?_ ?_
    · refine OwnSteps.bind (OwnSteps.tick _ _) fun same => OwnSteps.ite (OwnSteps.pure _) ?_
      exact OwnSteps.bind (OwnSteps.tick _ _) fun _ => OwnSteps.bind (hlink _) fun _ => OwnSteps.pure _
    · exact OwnSteps.bind (hlink _) fun _ => OwnSteps.pure _
  · -- InProgress
    unfold waitArm
    refine OwnSteps.bind (OwnSteps.tick _ _) fun t => OwnSteps.bind (OwnSteps.tick _ _) fun st => ?_
    exact OwnSteps.ite (OwnSteps.bind (own_await cfg w fuel t) fun _ => OwnSteps.pure _) (OwnSteps.pure _)
  · -- None
    unfold claimArm
    refine OwnSteps.bind (OwnSteps.check _ _) fun notify => OwnSteps.bind (own_map_contains cfg w fuel inode) fun taken =>
      OwnSteps.ite (OwnSteps.pure _) ?_
    refine OwnSteps.bind (own_map_insert cfg w fuel inode _) fun _ =>
      OwnSteps.bind (OwnSteps.capture (own_copyBlock cfg w fuel self source dest upd)) fun copied => ?_
    unfold release
    split
    · exact OwnSteps.bind (own_map_insert cfg w fuel inode _) fun _ => OwnSteps.bind (hnw _) fun _ => OwnSteps.pure _
    · exact OwnSteps.bind (OwnSteps.tick _ _) fun _ => OwnSteps.bind (hnw _) fun _ => OwnSteps.throw _

/-- **every run of the GENERATED function on `ltsExt` — any world, any fuel, any arguments — is an execution of the LTS
    whose schedule names `w` only**: no other worker's step comes between two operations of one run -/
theorem own_generated :
    OwnSteps cfg w (Transferrer.transfer_link_member (ltsExt cfg w fuel) self source dest inode upd) := by
  rw [transfer_link_member_rounds]
  unfold rounds
  refine OwnSteps.bind (OwnSteps.loopN (fun _ => own_round cfg w fuel self source dest inode upd) _ _) fun s => ?_
  unfold conclude
  split
  · exact OwnSteps.pure _
  · exact OwnSteps.throw _

end OwnExt

/-! ### the claim's lock scope: the two operations are the two halves of ONE micro-step -/

/-- `contains_key` answered "absent": NOTHING has happened yet (state, log and flag are what they were) — the mutex is
    held, the write half follows in the same run -/
theorem contains_false_holds_lock (cfg : Cfg) (w fuel i : Nat) (lw lw' : LWorld)
    (h : runM ((ltsExt cfg w fuel).map_contains i) lw = (.ok false, lw')) : lw' = lw := by
  rw [ltsExt_map_contains, runM_op] at h
  split at h
  · split at h
    · unfold GenLinkMemberLts.tick at h
      rw [runM_op] at h
      simp only [↓reduceIte] at h
      split at h <;> simp at h
    · simp at h; exact h.symm
  · simp at h

/-- `insert(inode, InProgress(n))` went through: it was called at `sawNone` with the entry absent, `n` is the worker's own
    Notify, and what happened is exactly the LTS's step `claimOk` of `w` from the state the read half saw -/
theorem insert_claim_is_claimOk (cfg : Cfg) (w fuel i n : Nat) (lw lw' : LWorld)
    (h : runM ((ltsExt cfg w fuel).map_insert i (.InProgress n)) lw = (.ok (), lw')) :
    i = (cfg.worker w).inode ∧ n = w ∧ lw.s.pc w = .sawNone ∧ lw.s.map i = none ∧
      step cfg lw.s w = some (.claimOk, lw'.s) ∧ lw'.labels = lw.labels ++ [.claimOk] ∧ lw'.blocked = lw.blocked := by
  rw [ltsExt_map_insert_inProgress] at h
  unfold GenLinkMemberLts.tick at h
  rw [runM_op] at h
  split at h
  · rename_i hg
    simp only [Bool.and_eq_true, decide_eq_true_eq, Option.isNone_iff_eq_none, encInode, encNotify] at hg
    obtain ⟨⟨⟨hi, hn⟩, hpc⟩, he⟩ := hg
    replace hi : i = (cfg.worker w).inode := of_decide_eq_true hi
    replace hn : n = w := of_decide_eq_true hn
    cases hs : step cfg lw.s w with
    | none => rw [hs] at h; simp at h
    | some p =>
      obtain ⟨l, s'⟩ := p
      rw [hs] at h
      simp only [Prod.mk.injEq, true_and] at h
      subst h
      obtain ⟨_, e, hnext, _⟩ := step_eq_some hs
      rw [hpc, ← hi, he] at hnext
      simp only [next, Option.some.injEq, Prod.mk.injEq] at hnext
      rw [← hnext.1]
      exact ⟨hi, hn, hpc, he, rfl, rfl, rfl⟩
  · simp at h

/-! ## §9 facts about the model's `poll` used by the transfer of the C13 theorems -/

theorem exec_pc_other {cfg : Cfg} {s s' : State} {w v : Nat} {k : Nat} (h : Exec cfg s (List.replicate k w) s')
    (hv : v ≠ w) : s'.pc v = s.pc v := by
  induction k generalizing s with
  | zero => cases h; rfl
  | succ k ih =>
    rw [List.replicate_succ] at h
    cases h with
    | cons hstep hrest =>
      obtain ⟨_, e, _, rfl⟩ := step_eq_some hstep
      rw [ih hrest, apply_pc_other _ _ _ _ _ hv]

/-- a worker that has returned stays where it is, whoever moves -/
theorem exec_done_stable {cfg : Cfg} {s s' : State} {sched : List Nat} (h : Exec cfg s sched s') (v : Nat)
    (hd : (s.pc v).isDone = true) : s'.pc v = s.pc v := by
  induction h with
  | nil s => rfl
  | @cons s s₁ s₂ u l ws hstep _ ih =>
    have hne : v ≠ u := by
      intro he; subst he
      rw [done_not_enabled hstep] at hd; cases hd
    have h2 : s₁.pc v = s.pc v := by
      obtain ⟨_, e, _, rfl⟩ := step_eq_some hstep
      exact apply_pc_other _ _ _ _ _ hne
    rw [ih (by rw [h2]; exact hd), h2]

theorem poll_exec (cfg : Cfg) (s : State) (w : Nat) : ∃ k, Exec cfg s (List.replicate k w) (poll cfg s w).1 :=
  (pollN_spec cfg w _ s []).1

/-- a poll changes nothing, or uses up some of the variant -/
theorem poll_same_or_less (cfg : Cfg) (s : State) (w : Nat) :
    (poll cfg s w).1 = s ∨ measure cfg (poll cfg s w).1 < measure cfg s := by
  obtain ⟨k, hk⟩ := poll_exec cfg s w
  generalize (poll cfg s w).1 = s' at hk ⊢
  cases k with
  | zero => left; cases hk; rfl
  | succ k => right; have := exec_measure hk; simp at this; omega

theorem poll_measure_le (cfg : Cfg) (s : State) (w : Nat) : measure cfg (poll cfg s w).1 ≤ measure cfg s := by
  rcases poll_same_or_less cfg s w with h | h
  · rw [h]; exact Nat.le_refl _
  · omega

/-- the labels of a poll extend what was accumulated -/
theorem pollN_labels (cfg : Cfg) (w : Nat) : ∀ (fuel : Nat) (s : State) (acc : List Label),
    ∃ ls, (pollN cfg fuel s w acc).2.1 = acc.reverse ++ ls
  | 0, s, acc => ⟨[], by simp [pollN]⟩
  | fuel + 1, s, acc => by
    unfold pollN
    split
    · exact ⟨[], by simp⟩
    · cases hs : step cfg s w with
      | none => exact ⟨[], by simp⟩
      | some p =>
        obtain ⟨l, s'⟩ := p
        simp only
        split
        · exact ⟨[l], by simp⟩
        · obtain ⟨ls, h⟩ := pollN_labels cfg w fuel s' (l :: acc)
          exact ⟨l :: ls, by rw [h]; simp⟩

/-- a poll of an enabled worker performs at least one micro-step: it uses up some of the variant -/
theorem poll_enabled_less {cfg : Cfg} {s : State} {w : Nat} (h : enabled cfg s w = true) :
    measure cfg (poll cfg s w).1 < measure cfg s := by
  unfold enabled at h
  cases hs : step cfg s w with
  | none => rw [hs] at h; cases h
  | some p =>
    obtain ⟨l, s'⟩ := p
    have hlt := step_measure_lt hs
    have hnd := step_some_not_done hs
    unfold poll
    conv => lhs; unfold pollN
    split
    · rename_i r hpc; exact absurd hpc (hnd r)
    · simp only [hs]
      split
      · exact hlt
      · obtain ⟨k, hk⟩ := (pollN_spec cfg w (measure cfg s) s' [l]).1
        have := exec_measure hk
        omega

/-- a poll that logs nothing found the worker not enabled -/
theorem poll_nil_not_enabled {cfg : Cfg} {s : State} {w : Nat} (h : (poll cfg s w).2.1 = []) :
    enabled cfg s w = false := by
  unfold enabled
  cases hs : step cfg s w with
  | none => rfl
  | some p =>
    exfalso
    obtain ⟨l, s'⟩ := p
    have hnd := step_some_not_done hs
    unfold poll at h
    conv at h => lhs; unfold pollN
    split at h
    · rename_i r hpc; exact absurd hpc (hnd r)
    · simp only [hs] at h
      split at h
      · simp at h
      · obtain ⟨ls, hl⟩ := pollN_labels cfg w (measure cfg s) s' [l]
        rw [hl] at h
        simp at h

/-- a finished worker's poll: `ready`, nothing happens -/
theorem poll_done {cfg : Cfg} {s : State} {w : Nat} {r : Res} (h : s.pc w = .done r) :
    poll cfg s w = (s, [], .ready r) := pollN_done _ _ h

/-- a poll that answers `ready r` leaves the worker at `done r` -/
theorem pollN_ready_pc (cfg : Cfg) (w : Nat) (r : Res) : ∀ (fuel : Nat) (s : State) (acc : List Label),
    (pollN cfg fuel s w acc).2.2 = .ready r → (pollN cfg fuel s w acc).1.pc w = .done r
  | 0, s, acc => by simp [pollN]
  | fuel + 1, s, acc => by
    unfold pollN
    split
    · rename_i r' hpc
      intro h
      simp only [PollOut.ready.injEq] at h
      subst h
      exact hpc
    · cases hs : step cfg s w with
      | none => simp
      | some p =>
        obtain ⟨l, s'⟩ := p
        simp only
        split
        · simp
        · exact pollN_ready_pc cfg w r fuel s' (l :: acc)

theorem poll_ready_pc {cfg : Cfg} {s : State} {w : Nat} {r : Res} (h : (poll cfg s w).2.2 = .ready r) :
    (poll cfg s w).1.pc w = .done r := pollN_ready_pc cfg w r _ s [] h

end SyModel.Lemmas.GenLinkMemberLts
