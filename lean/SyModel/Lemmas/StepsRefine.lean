/-
  SyModel.Lemmas.StepsRefine — helper lemmas for the refinement between the step-level model
  (`SyModel.Engine.Steps`: `stepsOfH`, `applyAll`, `ofMap`) and the entry-level engine model
  (`SyModel.Engine.Model`: `perform`, `execTask`).  The theorems are in `SyModel.Props.Refine`.
-/
import SyModel.Lemmas.StepsCrash
import SyModel.Lemmas.EngineDirBase
set_option linter.unusedVariables false
namespace SyModel.Engine

/-! ### paths -/

theorem isPrefix_length {a b : Path} (h : isPrefix a b = true) : a.length ≤ b.length := by
  induction a generalizing b with
  | nil => simp
  | cons x a ih =>
    cases b with
    | nil => simp [isPrefix] at h
    | cons y b =>
      simp only [isPrefix, Bool.and_eq_true] at h
      have := ih h.2
      simp only [List.length_cons]; omega

theorem isPrefix_append_self (p r : Path) : isPrefix p (p ++ r) = true := by
  induction p with
  | nil => rfl
  | cons a p ih => simp [isPrefix, ih]

theorem isPrefix_iff_append {a b : Path} : isPrefix a b = true ↔ ∃ r, b = a ++ r := by
  constructor
  · intro h
    induction a generalizing b with
    | nil => exact ⟨b, rfl⟩
    | cons x a ih =>
      cases b with
      | nil => simp [isPrefix] at h
      | cons y b =>
        simp only [isPrefix, Bool.and_eq_true, beq_iff_eq] at h
        obtain ⟨r, hr⟩ := ih h.2
        exact ⟨r, by rw [h.1, hr]; rfl⟩
  · rintro ⟨r, rfl⟩; exact isPrefix_append_self a r

/-- a prefix of `p ++ [a]` is a prefix of `p` or the whole path -/
theorem isPrefix_concat {x p : Path} {a : String} :
    isPrefix x (p ++ [a]) = true ↔ (isPrefix x p = true ∨ x = p ++ [a]) := by
  constructor
  · intro h
    obtain ⟨r, hr⟩ := isPrefix_iff_append.mp h
    rcases List.eq_nil_or_concat r with hr0 | ⟨r', b, hr'⟩
    · subst hr0; right; simpa using hr.symm
    · left
      rw [List.concat_eq_append] at hr'
      subst hr'
      rw [← List.append_assoc] at hr
      have := List.append_inj_left' hr (by simp)
      rw [this]; exact isPrefix_append_self x r'
  · rintro (h | rfl)
    · obtain ⟨r, rfl⟩ := isPrefix_iff_append.mp h
      rw [List.append_assoc]; exact isPrefix_append_self x _
    · exact isPrefix_refl _

theorem ancestors_nil : ancestors [] = [] := rfl

/-- induction from the right end of a list -/
theorem list_snoc_induction {α : Type} {P : List α → Prop} (nil : P [])
    (append_singleton : ∀ l a, P l → P (l ++ [a])) : ∀ l, P l := by
  intro l
  generalize hn : l.length = n
  induction n generalizing l with
  | zero => rw [List.length_eq_zero_iff] at hn; subst hn; exact nil
  | succ n ih =>
    rcases List.eq_nil_or_concat l with h | ⟨l', a, h⟩
    · subst h; exact nil
    · rw [List.concat_eq_append] at h; subst h
      exact append_singleton l' a (ih l' (by simp at hn; exact hn))

theorem filterMap_congr' {α β : Type} {l : List α} {f g : α → Option β} (h : ∀ x ∈ l, f x = g x) :
    l.filterMap f = l.filterMap g := by
  induction l with
  | nil => rfl
  | cons a l ih =>
    simp only [List.filterMap_cons, h a (by simp)]
    rw [ih (fun x hx => h x (by simp [hx]))]

theorem ancestors_concat (p : Path) (a : String) :
    ancestors (p ++ [a]) = if p = [] then [] else ancestors p ++ [p] := by
  unfold ancestors
  simp only [List.length_append, List.length_cons, List.length_nil, Nat.zero_add]
  rw [List.range_succ, List.filterMap_append]
  have h1 : (List.range p.length).filterMap (fun i => if i = 0 then none else some ((p ++ [a]).take i)) =
      (List.range p.length).filterMap (fun i => if i = 0 then none else some (p.take i)) := by
    apply filterMap_congr'
    intro i hi
    rw [List.mem_range] at hi
    by_cases h0 : i = 0
    · simp [h0]
    · simp only [h0, ↓reduceIte, Option.some.injEq]
      rw [List.take_append_of_le_length (by omega)]
  rw [h1]
  by_cases hp : p = []
  · subst hp; simp
  · have : p.length ≠ 0 := by simpa using hp
    simp [hp, this]

theorem mem_ancestors_iff {p q : Path} :
    q ∈ ancestors p ↔ (q ≠ [] ∧ q ≠ p ∧ isPrefix q p = true) := by
  constructor
  · intro h; exact ⟨ancestors_ne_nil h, ancestors_ne h, ancestors_prefix h⟩
  · rintro ⟨h0, hne, hp⟩
    obtain ⟨r, rfl⟩ := isPrefix_iff_append.mp hp
    unfold ancestors
    rw [List.mem_filterMap]
    refine ⟨q.length, ?_, ?_⟩
    · rw [List.mem_range, List.length_append]
      have : r ≠ [] := by intro h; subst h; simp at hne
      have : 0 < r.length := List.length_pos_iff.mpr this
      omega
    · have : q.length ≠ 0 := by simpa using h0
      simp [this]

theorem parentOf_concat (p : Path) (a : String) : parentOf (p ++ [a]) = p := by
  simp [parentOf]

/-- the non-empty prefixes of `p`: strict ancestors and `p` itself -/
theorem prefix_cases {x p : Path} (hx : x ≠ []) (h : isPrefix x p = true) : x ∈ ancestors p ∨ x = p := by
  by_cases he : x = p
  · exact Or.inr he
  · exact Or.inl (mem_ancestors_iff.mpr ⟨hx, he, h⟩)

theorem mem_ancestors_parentOf {p x : Path} (hx : x ≠ []) (h : isPrefix x (parentOf p) = true) :
    x ∈ ancestors p := by
  rcases List.eq_nil_or_concat p with hp | ⟨p', a, hp⟩
  · subst hp; simp [parentOf] at h; exact absurd (isPrefix_nil_right h) hx
  · rw [List.concat_eq_append] at hp
    subst hp
    rw [parentOf_concat] at h
    refine mem_ancestors_iff.mpr ⟨hx, ?_, isPrefix_concat.mpr (Or.inl h)⟩
    intro he
    have := isPrefix_length h
    rw [he] at this; simp at this; omega

theorem not_prefix_parentOf {p : Path} (hp : p ≠ []) : isPrefix p (parentOf p) = false := by
  cases h : isPrefix p (parentOf p) with
  | false => rfl
  | true =>
    have := isPrefix_length h
    unfold parentOf at this
    rw [List.length_dropLast] at this
    have : 0 < p.length := List.length_pos_iff.mpr hp
    omega

/-! ### `ofMap` and pointwise updates -/

theorem ofMap_apply (dst : Map DNode) (x : Path) : ofMap dst x = (dst.get? x).map embed := rfl

theorem upd_self (w : SWorld) (p : Path) : upd w p (w p) = w := by
  funext x; unfold upd; split
  · rename_i h; rw [h]
  · rfl

theorem ofMap_set (dst : Map DNode) (p : Path) (v : DNode) :
    ofMap (dst.set p v) = upd (ofMap dst) p (some (embed v)) := by
  funext x
  by_cases h : x = p
  · subst h; simp [ofMap, upd]
  · simp [ofMap, upd, h, Map.get?_set_ne _ _ _ _ (Ne.symm h)]

theorem ofMap_erase (dst : Map DNode) (p : Path) : ofMap (dst.erase p) = upd (ofMap dst) p none := by
  funext x
  by_cases h : x = p
  · subst h; simp [ofMap, upd, Map.get?_erase_same]
  · simp [ofMap, upd, h, Map.get?_erase_ne _ _ _ (Ne.symm h)]

theorem ofMap_eraseSubtree (dst : Map DNode) (p : Path) :
    ofMap (dst.eraseSubtree p) = fun x => if isPrefix p x then none else ofMap dst x := by
  funext x
  simp only [ofMap, Map.get?_eraseSubtree]
  split <;> rfl

theorem ofMap_congr {d dst : Map DNode} (h : ∀ x, d.get? x = dst.get? x) : ofMap d = ofMap dst := by
  funext x; simp [ofMap, h x]

theorem ofMap_eq_none {dst : Map DNode} {x : Path} : ofMap dst x = none ↔ dst.get? x = none := by
  simp [ofMap]

/-! ### `create_dir_all` at both levels -/

theorem mkdirAll_nil (dst : Map DNode) : mkdirAll dst [] = some dst := by
  simp [mkdirAll, ancestors]

/-- `create_dir_all(p/a)` is `create_dir_all(p)` followed by one `mkdir` -/
theorem mkdirAll_concat (dst : Map DNode) (p : Path) (a : String) :
    mkdirAll dst (p ++ [a]) =
      match mkdirAll dst p with
      | none => none
      | some d =>
        match d.get? (p ++ [a]) with
        | none => some (d.set (p ++ [a]) .dir)
        | some .dir => some d
        | some _ => none := by
  unfold mkdirAll
  rw [ancestors_concat]
  by_cases hp : p = []
  · subst hp
    simp only [ancestors, List.length_nil, List.range_zero, List.filterMap_nil, ↓reduceIte, List.nil_append,
      List.foldl_cons, List.foldl_nil, List.cons_ne_self]
    cases dst.get? [a] with
    | none => rfl
    | some n => cases n <;> rfl
  · simp only [hp, ↓reduceIte]
    rw [List.foldl_append]
    simp only [List.foldl_cons, List.foldl_nil]
    cases List.foldl _ (some dst) (ancestors p ++ [p]) with
    | none => rfl
    | some d =>
      simp only [List.append_eq_nil_iff, List.cons_ne_self, and_false, ↓reduceIte]
      cases d.get? (p ++ [a]) with
      | none => rfl
      | some n => cases n <;> rfl

theorem dirSteps_nil : dirSteps [] = [] := by simp [dirSteps]

theorem mkdirChain_concat (p : Path) (a : String) : mkdirChain (p ++ [a]) = dirSteps p := by
  unfold mkdirChain dirSteps
  rw [ancestors_concat]
  by_cases hp : p = []
  · simp [hp]
  · simp [hp, mkdirChain]

theorem dirSteps_concat (p : Path) (a : String) :
    dirSteps (p ++ [a]) = dirSteps p ++ [Step.mkdir (p ++ [a])] := by
  rw [← mkdirChain_concat p a]
  simp [dirSteps]

/-- the `mkdir`s of `create_dir_all(parent)` issued by the copy paths -/
theorem mkdirChain_eq_dirSteps (p : Path) : mkdirChain p = dirSteps (parentOf p) := by
  rcases List.eq_nil_or_concat p with hp | ⟨p', a, hp⟩
  · subst hp; simp [mkdirChain, ancestors, parentOf, dirSteps]
  · rw [List.concat_eq_append] at hp; subst hp
    rw [parentOf_concat, mkdirChain_concat]

theorem apply_mkdir (q : Path) (w : SWorld) :
    (Step.mkdir q).apply w = upd w q (match w q with | none => some .dir | some v => some v) := rfl

/-- a successful entry-level `create_dir_all` is refined by the `mkdir` chain -/
theorem dirSteps_refines (dst : Map DNode) (p : Path) :
    ∀ d, mkdirAll dst p = some d → applyAll (dirSteps p) (ofMap dst) = ofMap d := by
  induction p using list_snoc_induction with
  | nil => intro d h; rw [mkdirAll_nil] at h; cases h; simp [dirSteps_nil]
  | append_singleton p a ih =>
    intro d h
    rw [mkdirAll_concat] at h
    cases h0 : mkdirAll dst p with
    | none => simp [h0] at h
    | some d0 =>
      rw [dirSteps_concat, applyAll_append, ih d0 h0]
      simp only [applyAll_cons, applyAll_nil, apply_mkdir]
      simp only [h0] at h
      cases hg : d0.get? (p ++ [a]) with
      | none =>
        simp only [hg] at h; cases h
        rw [ofMap_set, ofMap_apply, hg]; rfl
      | some n =>
        cases n with
        | dir =>
          simp only [hg] at h; cases h
          have : ofMap d (p ++ [a]) = some .dir := by simp [ofMap, hg, embed]
          rw [this]; simp only
          rw [← this, upd_self]
        | file m => simp [hg] at h
        | symlink t => simp [hg] at h

/-- what a successful `create_dir_all` leaves at every path -/
theorem mkdirAll_get (dst : Map DNode) (p : Path) :
    ∀ d, mkdirAll dst p = some d →
      ∀ x, d.get? x = if x ≠ [] ∧ isPrefix x p = true then some .dir else dst.get? x := by
  induction p using list_snoc_induction with
  | nil =>
    intro d h x; rw [mkdirAll_nil] at h; cases h
    by_cases hx : x = []
    · simp [hx]
    · have : ¬ isPrefix x [] = true := fun h => hx (isPrefix_nil_right h)
      simp [this]
  | append_singleton p a ih =>
    intro d h x
    rw [mkdirAll_concat] at h
    cases h0 : mkdirAll dst p with
    | none => simp [h0] at h
    | some d0 =>
      simp only [h0] at h
      have ih0 := ih d0 h0
      have hq : ¬ isPrefix (p ++ [a]) p = true := by
        intro hc; have := isPrefix_length hc; simp at this; omega
      have hpa : d0.get? (p ++ [a]) = dst.get? (p ++ [a]) := by
        rw [ih0]; simp [hq]
      by_cases hx : x = p ++ [a]
      · subst hx
        have hpre : isPrefix (p ++ [a]) (p ++ [a]) = true := isPrefix_refl _
        simp only [ne_eq, List.append_eq_nil_iff, List.cons_ne_self, and_false, not_false_eq_true, hpre,
          and_self, ↓reduceIte]
        cases hg : d0.get? (p ++ [a]) with
        | none => simp only [hg] at h; cases h; simp
        | some n =>
          cases n with
          | dir => simp only [hg] at h; cases h; exact hg
          | file m => simp [hg] at h
          | symlink t => simp [hg] at h
      · have hiff : isPrefix x (p ++ [a]) = true ↔ isPrefix x p = true := by
          rw [isPrefix_concat]; simp [hx]
        simp only [hiff]
        rw [← ih0 x]
        cases hg : d0.get? (p ++ [a]) with
        | none => simp only [hg] at h; cases h; rw [Map.get?_set_ne _ _ _ _ (Ne.symm hx)]
        | some n =>
          cases n with
          | dir => simp only [hg] at h; cases h; rfl
          | file m => simp [hg] at h
          | symlink t => simp [hg] at h

/-- `create_dir_all(p)` succeeds when every non-empty prefix of `p` is absent or a directory -/
theorem mkdirAll_ok (dst : Map DNode) (p : Path)
    (h : ∀ x, x ≠ [] → isPrefix x p = true → dst.get? x = none ∨ dst.get? x = some .dir) :
    ∃ d, mkdirAll dst p = some d := by
  induction p using list_snoc_induction with
  | nil => exact ⟨dst, mkdirAll_nil dst⟩
  | append_singleton p a ih =>
    obtain ⟨d0, h0⟩ := ih (fun x hx hp => h x hx (isPrefix_concat.mpr (Or.inl hp)))
    rw [mkdirAll_concat, h0]
    have hq : ¬ isPrefix (p ++ [a]) p = true := by
      intro hc; have := isPrefix_length hc; simp at this; omega
    have hpa : d0.get? (p ++ [a]) = dst.get? (p ++ [a]) := by
      rw [mkdirAll_get dst p d0 h0]; simp [hq]
    simp only
    rcases h (p ++ [a]) (by simp) (isPrefix_refl _) with hn | hd
    · rw [hpa, hn]; exact ⟨_, rfl⟩
    · rw [hpa, hd]; exact ⟨_, rfl⟩

/-- … and fails only at a prefix that is a file or a symlink -/
theorem mkdirAll_none (dst : Map DNode) (p : Path) (h : mkdirAll dst p = none) :
    ∃ x, x ≠ [] ∧ isPrefix x p = true ∧ dst.get? x ≠ none ∧ dst.get? x ≠ some .dir := by
  apply Classical.byContradiction
  intro hc
  have : ∀ x, x ≠ [] → isPrefix x p = true → dst.get? x = none ∨ dst.get? x = some .dir := by
    intro x hx hp
    apply Classical.byContradiction
    intro hn
    exact hc ⟨x, hx, hp, fun h => hn (Or.inl h), fun h => hn (Or.inr h)⟩
  obtain ⟨d, hd⟩ := mkdirAll_ok dst p this
  rw [hd] at h; cases h

/-! ### step lists that act on one path only -/

/-- every step of `A` is a single-path step at `p` -/
def AtP (p : Path) (A : List Step) : Prop := ∀ s ∈ A, s.single = true ∧ s.path = p

theorem atP_nil (p : Path) : AtP p [] := fun s hs => by simp at hs

theorem atP_cons {p : Path} {s : Step} {A : List Step} (h1 : s.single = true) (h2 : s.path = p)
    (h : AtP p A) : AtP p (s :: A) := by
  intro t ht
  rcases List.mem_cons.mp ht with rfl | ht
  · exact ⟨h1, h2⟩
  · exact h t ht

theorem atP_append {p : Path} {A B : List Step} (hA : AtP p A) (hB : AtP p B) : AtP p (A ++ B) := by
  intro t ht
  rcases List.mem_append.mp ht with h | h
  · exact hA t h
  · exact hB t h

theorem applyAll_atP {p : Path} {A : List Step} (h : AtP p A) (w : SWorld) :
    applyAll A w = upd w p (nodeRun p A (w p)) := by
  induction A generalizing w with
  | nil => simp [upd_self]
  | cons s A ih =>
    have hs := h s (by simp)
    simp only [applyAll_cons, nodeRun_cons, hs.2, ↓reduceIte]
    rw [ih (fun t ht => h t (by simp [ht])), apply_single s hs.1, hs.2]
    funext x
    simp only [upd]
    split <;> simp

theorem nodeFn_dir (s : Step) : s.nodeFn (some .dir) = some .dir := by
  cases s <;> rfl

/-- a directory at the path makes every step of the list fail -/
theorem nodeRun_dir (p : Path) (A : List Step) : nodeRun p A (some .dir) = some .dir := by
  induction A with
  | nil => rfl
  | cons s A ih =>
    simp only [nodeRun_cons, nodeFn_dir]
    split <;> exact ih

def fileNode (m : FileMeta) : SNode := .file m.content m.size m.mtime

theorem nodeRun_grow_keeps (p : Path) (c : Nat) (us : List Nat) (l mt : Nat) :
    ∃ l', nodeRun p (us.map (Step.grow p c)) (some (.file c l mt)) = some (.file c l' mt) := by
  induction us generalizing l with
  | nil => exact ⟨l, rfl⟩
  | cons u us ih =>
    simp only [List.map_cons, nodeRun_cons, Step.path, ↓reduceIte, Step.nodeFn]
    exact ih u

theorem nodeRun_growSteps (p : Path) (c ch sz mt : Nat) :
    nodeRun p (growSteps p c ch sz) (some (.file c 0 mt)) = some (.file c sz mt) := by
  rcases Nat.eq_zero_or_pos sz with h | h
  · subst h; simp [growSteps, uptos_zero]
  · obtain ⟨init, hi⟩ := uptos_last (ch := ch) h
    unfold growSteps
    rw [hi, List.map_append, nodeRun_append]
    obtain ⟨l', hl'⟩ := nodeRun_grow_keeps p c init 0 mt
    rw [hl']
    simp [Step.path, Step.nodeFn]

theorem nodeRun_fill_keeps (p : Path) (c sz mt : Nat) (us : List Nat) (n : Option SNode)
    (hn : (∃ d, n = some (.holey c sz d mt)) ∨ n = some (.file c sz mt)) :
    (∃ d, nodeRun p (us.map (Step.fill p c)) n = some (.holey c sz d mt)) ∨
      nodeRun p (us.map (Step.fill p c)) n = some (.file c sz mt) := by
  induction us generalizing n with
  | nil => exact hn
  | cons u us ih =>
    simp only [List.map_cons, nodeRun_cons, Step.path, ↓reduceIte]
    apply ih
    rcases hn with ⟨d, rfl⟩ | rfl
    · simp only [Step.nodeFn]
      split
      · exact Or.inr rfl
      · exact Or.inl ⟨u, rfl⟩
    · exact Or.inr rfl

theorem nodeRun_fillSteps (p : Path) (c ch sz mt : Nat) (h : 0 < sz) :
    nodeRun p (fillSteps p c ch sz) (some (.holey c sz 0 mt)) = some (.file c sz mt) := by
  obtain ⟨init, hi⟩ := uptos_last (ch := ch) h
  unfold fillSteps
  rw [hi, List.map_append, nodeRun_append]
  rcases nodeRun_fill_keeps p c sz mt init _ (Or.inl ⟨0, rfl⟩) with ⟨d, hd⟩ | hd
  · rw [hd]; simp [Step.path, Step.nodeFn]
  · rw [hd]; simp [Step.path, Step.nodeFn]

theorem openTrunc_nodeFn (p : Path) (c now : Nat) (n : Option SNode) (hn : n ≠ some .dir) :
    (Step.openTrunc p c now).nodeFn n = some (.file c 0 now) := by
  cases n with
  | none => rfl
  | some v => cases v <;> first | rfl | exact absurd rfl hn

theorem unlink_nodeFn (p : Path) (n : Option SNode) (hn : n ≠ some .dir) :
    (Step.unlink p).nodeFn n = none := by
  cases n with
  | none => rfl
  | some v => cases v <;> first | rfl | exact absurd rfl hn

theorem unlinkIfSymlink_nodeFn_ne_dir (p : Path) (n : Option SNode) (hn : n ≠ some .dir) :
    (Step.unlinkIfSymlink p).nodeFn n ≠ some .dir := by
  cases n with
  | none => simp [Step.nodeFn]
  | some v => cases v <;> simp [Step.nodeFn] at hn ⊢

/-- `A` acts at `p` only and turns whatever non-directory is there into the finished file -/
def Writes (p : Path) (m : FileMeta) (A : List Step) : Prop :=
  AtP p A ∧ ∀ n, n ≠ some .dir → nodeRun p A n = some (fileNode m)

theorem writes_writeSteps (p : Path) (m : FileMeta) (ch now : Nat) : Writes p m (writeSteps p m ch now) := by
  refine ⟨fun s hs => ?_, fun n hn => ?_⟩
  · have := writeSteps_at hs; exact ⟨this.1, this.2.1⟩
  · unfold writeSteps
    rw [nodeRun_append, nodeRun_append]
    simp only [nodeRun_cons, nodeRun_nil, Step.path, ↓reduceIte]
    rw [openTrunc_nodeFn p _ _ n hn, nodeRun_growSteps]
    rfl

theorem writes_cons {p : Path} {m : FileMeta} {A : List Step} (s : Step) (h1 : s.single = true)
    (h2 : s.path = p) (h3 : ∀ n, n ≠ some .dir → s.nodeFn n ≠ some .dir) (h : Writes p m A) :
    Writes p m (s :: A) := by
  refine ⟨atP_cons h1 h2 h.1, fun n hn => ?_⟩
  simp only [nodeRun_cons, h2, ↓reduceIte]
  exact h.2 _ (h3 n hn)

theorem writes_unlinkIfSymlink {p : Path} {m : FileMeta} {A : List Step} (h : Writes p m A) :
    Writes p m (Step.unlinkIfSymlink p :: A) :=
  writes_cons _ rfl rfl (unlinkIfSymlink_nodeFn_ne_dir p) h

theorem writes_unlink {p : Path} {m : FileMeta} {A : List Step} (h : Writes p m A) :
    Writes p m (Step.unlink p :: A) :=
  writes_cons _ rfl rfl (fun n hn => by rw [unlink_nodeFn p n hn]; simp) h

theorem writes_breakLink {p : Path} {m : FileMeta} {A : List Step} (b : Bool) (h : Writes p m A) :
    Writes p m ((if b then [Step.unlink p] else []) ++ A) := by
  cases b
  · simpa using h
  · simpa using writes_unlink h

theorem writes_sparseSeek (p : Path) (m : FileMeta) (ch now : Nat) :
    Writes p m (sparseSeekSteps p m ch now) := by
  unfold sparseSeekSteps
  exact writes_unlink (writes_writeSteps p m ch now)

theorem writes_sparseBlocks (p : Path) (m : FileMeta) (ch now : Nat) :
    Writes p m (sparseBlocksSteps p m ch now) := by
  refine ⟨fun s hs => ?_, fun n hn => ?_⟩
  · have := sparseBlocksSteps_at hs; exact ⟨this.1, this.2.1⟩
  · unfold sparseBlocksSteps
    rw [nodeRun_append, nodeRun_append]
    simp only [nodeRun_cons, nodeRun_nil, Step.path, ↓reduceIte]
    rw [unlink_nodeFn p n hn, openTrunc_nodeFn p _ _ none (by simp)]
    rcases Nat.eq_zero_or_pos m.size with h0 | h0
    · simp [Step.nodeFn, h0, fillSteps, uptos_zero, fileNode]
    · have hne : m.size ≠ 0 := by omega
      simp only [Step.nodeFn, hne, ↓reduceIte]
      rw [nodeRun_fillSteps p _ ch _ _ h0]
      rfl

/-- the part of `fullCopySteps` after `create_dir_all(parent)` -/
def fullTail (p : Path) (m : FileMeta) (ch : Nat) (h : Hint) : List Step :=
  [Step.unlinkIfSymlink p] ++ (if h.breakLink then [Step.unlink p] else []) ++ writeSteps p m ch h.now

theorem fullCopySteps_eq (p : Path) (m : FileMeta) (ch : Nat) (h : Hint) :
    fullCopySteps p m ch h = mkdirChain p ++ fullTail p m ch h := by
  simp [fullCopySteps, fullTail, List.append_assoc]

theorem writes_fullTail (p : Path) (m : FileMeta) (ch : Nat) (h : Hint) : Writes p m (fullTail p m ch h) := by
  unfold fullTail
  rw [List.append_assoc]
  exact writes_unlinkIfSymlink (writes_breakLink _ (writes_writeSteps p m ch h.now))

/-- the leading `remove_if_symlink` of an update commutes with `create_dir_all(parent)` -/
theorem unlinkIfSymlink_chain_comm (p : Path) (w : SWorld) :
    applyAll (mkdirChain p) ((Step.unlinkIfSymlink p).apply w) =
      (Step.unlinkIfSymlink p).apply (applyAll (mkdirChain p) w) := by
  apply apply_applyAll_comm
  intro t ht
  obtain ⟨q, hq, rfl⟩ := mem_mkdirChain ht
  left
  intro x ⟨h1, h2⟩
  simp only [Step.touches, beq_iff_eq] at h1 h2
  exact ancestors_ne hq (h2 ▸ h1)

/-! ### the entry-level result of one task -/

/-- the destination after one task of the fault-free entry-level run: a failing task leaves the
    destination as it found it (`execTask`) -/
def taskDst (cfg : Cfg) (w : World) (t : Task) : Map DNode :=
  match perform cfg w t with
  | some w' => w'.dst
  | none => w.dst

theorem execTask_noFaults_dst (cfg : Cfg) (st : Exec) (t : Task) :
    (execTask cfg noFaults st t).w.dst = taskDst cfg st.w t := by
  unfold execTask taskDst
  have : (if (cfg.dryRun || t.act == .skip) = true then none else noFaults t) = none := by
    split <;> rfl
  rw [this]
  cases perform cfg st.w t <;> rfl

/-- create or update -/
def Task.writes (t : Task) : Prop := t.act = .create ∨ t.act = .update

instance (t : Task) : Decidable t.writes := by unfold Task.writes; exact inferInstance

theorem perform_dry (cfg : Cfg) (w : World) (t : Task) (h : cfg.dryRun = true) :
    perform cfg w t = some w := by
  unfold perform
  cases t.act <;> simp [h]

theorem perform_skip (cfg : Cfg) (w : World) (t : Task) (h : t.act = .skip) :
    perform cfg w t = some w := by
  unfold perform; simp [h]

theorem taskDst_delete (cfg : Cfg) (w : World) (t : Task) (h : t.act = .delete)
    (hdry : cfg.dryRun = false) :
    taskDst cfg w t = match w.dst.get? t.rel with
      | some .dir => w.dst.eraseSubtree t.rel
      | some _ => w.dst.erase t.rel
      | none => w.dst := by
  unfold taskDst perform
  simp only [h, hdry, Bool.false_eq_true, ↓reduceIte]
  cases w.dst.get? t.rel with
  | none => rfl
  | some n => cases n <;> rfl

theorem perform_nothing (cfg : Cfg) (w : World) (t : Task) (h : t.writes) (hp : t.payload = .nothing) :
    perform cfg w t = some w := by
  unfold perform
  rcases h with h | h <;> simp only [h, hp] <;> split <;> rfl

theorem perform_dir (cfg : Cfg) (w : World) (t : Task) (h : t.writes) (hdry : cfg.dryRun = false)
    (hp : t.payload = .dir) :
    perform cfg w t = (mkdirAll (dirBase t.act w.dst t.rel) t.rel).map fun d => { w with dst := d } := by
  unfold perform
  rcases h with h | h <;> simp [h, hp, hdry]

theorem perform_symlink (cfg : Cfg) (w : World) (t : Task) (h : t.writes) (hdry : cfg.dryRun = false)
    (text : String) (hp : t.payload = .symlink text) :
    perform cfg w t = writeSymlink w t.rel text := by
  unfold perform
  rcases h with h | h <;> simp [h, hp, hdry]

/-- a file task outside the hard-link protocol (or the first member of its group) writes the file -/
theorem perform_file (cfg : Cfg) (w : World) (t : Task) (h : t.writes) (hdry : cfg.dryRun = false)
    (m : FileMeta) (n : Nat) (hp : t.payload = .file m n)
    (hl : cfg.hardlinks = true → 1 < n → w.linkMap.find? (·.1 == m.ino) = none) :
    (perform cfg w t).map (·.dst) = (writeFile cfg w t.rel m).map (·.dst) := by
  unfold perform
  by_cases hc : cfg.hardlinks = true ∧ 1 < n
  · have hf := hl hc.1 hc.2
    rcases h with h | h <;> simp only [h, hp, hdry, Bool.false_eq_true, ↓reduceIte] <;>
      simp only [hc.1, hc.2, decide_true, Bool.and_true, Bool.or_true, Bool.true_or, ↓reduceIte, hf] <;>
      cases writeFile cfg w t.rel m <;> rfl
  · have : (cfg.hardlinks && decide (1 < n)) = false := by
      cases hh : cfg.hardlinks with
      | false => rfl
      | true => simp [hh] at hc; simp [hc]
    rcases h with h | h <;> simp only [h, hp, hdry, Bool.false_eq_true, ↓reduceIte] <;>
      simp [this]

theorem writeFile_dst (cfg : Cfg) (w : World) (p : Path) (m : FileMeta) (d : Map DNode)
    (hd : mkdirAll w.dst (parentOf p) = some d) :
    (d.get? p = some .dir ∧ writeFile cfg w p m = none) ∨
    (d.get? p ≠ some .dir ∧ ∃ w' node, writeFile cfg w p m = some w' ∧
      w'.dst = d.set p (.file node) ∧ embed (.file node) = fileNode m) := by
  unfold writeFile
  simp only [hd]
  cases hg : d.get? p with
  | none => right; exact ⟨by simp, _, _, rfl, rfl, rfl⟩
  | some v =>
    cases v with
    | dir => left; exact ⟨rfl, rfl⟩
    | file o => right; exact ⟨by simp, _, _, rfl, rfl, rfl⟩
    | symlink s => right; exact ⟨by simp, _, _, rfl, rfl, rfl⟩

theorem writeSymlink_dst (w : World) (p : Path) (text : String) (d : Map DNode)
    (hd : mkdirAll w.dst (parentOf p) = some d) :
    (d.get? p = some .dir ∧ writeSymlink w p text = none) ∨
    (d.get? p ≠ some .dir ∧ ∃ w', writeSymlink w p text = some w' ∧ w'.dst = d.set p (.symlink text)) := by
  unfold writeSymlink
  simp only [hd]
  cases hg : d.get? p with
  | none => right; exact ⟨by simp, _, rfl, rfl⟩
  | some v =>
    cases v with
    | dir => left; exact ⟨rfl, rfl⟩
    | file o => right; exact ⟨by simp, _, rfl, rfl⟩
    | symlink s => right; exact ⟨by simp, _, rfl, rfl⟩

theorem taskDst_eq_getD (cfg : Cfg) (w : World) (t : Task) :
    taskDst cfg w t = ((perform cfg w t).map (·.dst)).getD w.dst := by
  unfold taskDst; cases perform cfg w t <;> rfl

theorem embed_eq_dir {v : DNode} : embed v = .dir ↔ v = .dir := by
  cases v <;> simp [embed]

theorem ofMap_eq_dir {dst : Map DNode} {x : Path} : ofMap dst x = some .dir ↔ dst.get? x = some .dir := by
  unfold ofMap
  cases dst.get? x with
  | none => simp
  | some v => simp [embed_eq_dir]

/-- what a `Writes` list makes of an entry-level world -/
theorem writes_result {p : Path} {m : FileMeta} {T : List Step} (hT : Writes p m T) (d : Map DNode) :
    (d.get? p = some .dir → applyAll T (ofMap d) = ofMap d) ∧
    (d.get? p ≠ some .dir → ∀ node, embed (.file node) = fileNode m →
      applyAll T (ofMap d) = ofMap (d.set p (.file node))) := by
  rw [applyAll_atP hT.1]
  constructor
  · intro hd
    have : ofMap d p = some .dir := ofMap_eq_dir.mpr hd
    rw [this, nodeRun_dir, ← this, upd_self]
  · intro hd node hn
    have : ofMap d p ≠ some .dir := fun h => hd (ofMap_eq_dir.mp h)
    rw [hT.2 _ this, ofMap_set, hn]

/-! ### the shape of the step list of a file task -/

theorem uis_fullCopy_norm (p : Path) (m : FileMeta) (ch : Nat) (h : Hint) (w : SWorld) :
    applyAll ([Step.unlinkIfSymlink p] ++ fullCopySteps p m ch h) w =
      applyAll (Step.unlinkIfSymlink p :: fullTail p m ch h) (applyAll (mkdirChain p) w) := by
  rw [fullCopySteps_eq]
  simp only [List.singleton_append, applyAll_cons, applyAll_append]
  rw [unlinkIfSymlink_chain_comm]

/-- the step list of a create/update of a regular file is, up to the position of the leading
    `remove_if_symlink`: `create_dir_all(parent)` followed by steps at the path that write the file;
    or (large destination file, in-place routes) only steps at the path; or the temp + rename section -/
theorem fileSteps_shape {cfg : Cfg} {thr ch : Nat} {sfx : String} {h : Hint} {old : Option DNode}
    {t : Task} {m : FileMeta} {n : Nat} (hp : t.payload = .file m n) (hdry : cfg.dryRun = false)
    (hw : t.writes) :
    (∃ T, Writes t.rel m T ∧ ∀ w, applyAll (stepsOfH cfg thr ch sfx h old t) w =
        applyAll T (applyAll (mkdirChain t.rel) w)) ∨
    (∃ T d, old = some (.file d) ∧ Writes t.rel m T ∧ stepsOfH cfg thr ch sfx h old t = T) ∨
    (∃ d, old = some (.file d) ∧ usesDelta cfg thr h old t = true ∧
      stepsOfH cfg thr ch sfx h old t = [Step.unlinkIfSymlink t.rel] ++ deltaSteps sfx t.rel m) := by
  have hfull : ∀ L, L = fullCopySteps t.rel m ch h →
      ∃ T, Writes t.rel m T ∧ ∀ w, applyAll L w = applyAll T (applyAll (mkdirChain t.rel) w) := by
    intro L hL
    exact ⟨fullTail t.rel m ch h, writes_fullTail _ _ _ _, fun w => by
      rw [hL, fullCopySteps_eq, applyAll_append]⟩
  have hufull : ∀ L, L = [Step.unlinkIfSymlink t.rel] ++ fullCopySteps t.rel m ch h →
      ∃ T, Writes t.rel m T ∧ ∀ w, applyAll L w = applyAll T (applyAll (mkdirChain t.rel) w) := by
    intro L hL
    exact ⟨_, writes_unlinkIfSymlink (writes_fullTail t.rel m ch h), fun w => by
      rw [hL, uis_fullCopy_norm]⟩
  rcases hw with hc | hu
  · left; apply hfull
    unfold stepsOfH; simp [hdry, hc, hp]
  · by_cases hr : h.route = .followed
    · left; apply hfull
      unfold stepsOfH; simp [hdry, hu, hp, hr]
    · have hL : stepsOfH cfg thr ch sfx h old t =
          [Step.unlinkIfSymlink t.rel] ++ updateSteps thr ch sfx h old t.rel m := by
        unfold stepsOfH; simp [hdry, hu, hp, hr]
      rw [hL]
      unfold updateSteps
      cases old with
      | none => left; exact hufull _ rfl
      | some v =>
        cases v with
        | dir => left; exact hufull _ rfl
        | symlink s => left; exact hufull _ rfl
        | file d =>
          simp only
          by_cases hsz : d.size < thr
          · simp only [hsz, ↓reduceIte]; left; exact hufull _ rfl
          · simp only [hsz, ↓reduceIte]
            cases hroute : h.route with
            | delta =>
              right; right
              refine ⟨d, rfl, ?_, rfl⟩
              simp [usesDelta, hdry, hu, hp, hroute, hsz]
            | full =>
              right; left
              exact ⟨_, d, rfl, writes_unlinkIfSymlink (writes_breakLink _ (writes_writeSteps _ _ _ _)), rfl⟩
            | sparseSeek =>
              right; left
              exact ⟨_, d, rfl, writes_unlinkIfSymlink (writes_sparseSeek _ _ _ _), rfl⟩
            | sparseBlocks =>
              right; left
              exact ⟨_, d, rfl, writes_unlinkIfSymlink (writes_sparseBlocks _ _ _ _), rfl⟩
            | followed => exact absurd hroute hr

/-- temp + rename on a world where the destination holds a file and the temp path is free -/
theorem delta_result (sfx : String) (p : Path) (m : FileMeta) (w : SWorld) (c l mt : Nat)
    (hp : w p = some (.file c l mt)) (htmp : w (tempOf sfx p) = none) (hne : tempOf sfx p ≠ p) :
    applyAll ([Step.unlinkIfSymlink p] ++ deltaSteps sfx p m) w = upd w p (some (fileNode m)) := by
  simp only [deltaSteps, List.singleton_append, applyAll_cons, applyAll_nil]
  have h1 : (Step.unlinkIfSymlink p).apply w = w := by
    rw [apply_single _ rfl]; simp only [Step.path, hp, Step.nodeFn]; rw [← hp, upd_self]
  rw [h1]
  have h2 : (Step.createTemp (tempOf sfx p) m.content).apply w =
      upd w (tempOf sfx p) (some (.temp m.content)) := by
    rw [apply_single _ rfl]; simp only [Step.path, htmp, Step.nodeFn]
  rw [h2, apply_rename, if_pos (by simp)]
  funext x
  simp only [upd, fileNode]
  by_cases hx : x = tempOf sfx p
  · subst hx; simp [hne, htmp]
  · simp [hx]

/-! ### one task: the step list refines `perform` -/

/-- What the refinement of ONE task needs from the destination `w.dst` the task finds.
    Every field excludes a case in which the two models genuinely differ (see the field comments
    and `SyModel.Props.Refine`). -/
structure TaskFits (cfg : Cfg) (thr : Nat) (sfx : String) (h : Hint) (w : World) (t : Task) : Prop where
  /-- no strict ancestor of the path is a file or a symlink.  The step level has no `ENOTDIR`:
      `mkdir` over a file is the tolerated `EEXIST`, and `open`/`symlink` below a non-directory
      succeed, whereas the entry level (`mkdirAll`) — like the kernel — makes the task fail. -/
  parents : t.writes → ∀ q ∈ ancestors t.rel, w.dst.get? q = none ∨ w.dst.get? q = some .dir
  /-- the destination map is a tree at the path: an existing entry has all its ancestors.  (A map
      is not a tree by construction; without this the entry level would materialise the missing
      ancestors of an existing file on the in-place / temp routes, which issue no `mkdir`, and a
      failing task would leave behind the ancestors its `mkdir` chain created.) -/
  tree : t.writes → w.dst.get? t.rel ≠ none → ∀ q ∈ ancestors t.rel, w.dst.get? q = some .dir
  /-- nothing exists at the working-file path of a temp + rename update, and that path is not the
      destination path itself (`C05/user-file-named-like-temp`: the step level clobbers and renames
      away what is there, the entry level has no working file at all) -/
  tempFree : usesDelta cfg thr h (w.dst.get? t.rel) t = true →
    w.dst.get? (tempOf sfx t.rel) = none ∧ tempOf sfx t.rel ≠ t.rel
  /-- with `-H`, a task that WRITES (create / update) is not a later member of a source hard-link
      group: those are linked to the first member's destination (`linkFile`/`relinkFile`), which the
      step level does not model.  (Skips and deletes never consult the link map.) -/
  noLinkMember : t.writes → ∀ m n, t.payload = .file m n → cfg.hardlinks = true → 1 < n →
    w.linkMap.find? (·.1 == m.ino) = none

theorem dirSteps_eq_chain {p : Path} (hp : p ≠ []) : dirSteps p = mkdirChain p ++ [Step.mkdir p] := by
  simp [dirSteps, hp]

/-- **Refinement of one task.**  Executing the whole step list of `t` on the step-level view of the
    destination yields the step-level view of the destination after the entry-level task. -/
theorem task_refines {cfg : Cfg} {thr : Nat} (ch : Nat) {sfx : String} {h : Hint} {w : World} {t : Task}
    (hf : TaskFits cfg thr sfx h w t) :
    applyAll (stepsOfH cfg thr ch sfx h (w.dst.get? t.rel) t) (ofMap w.dst) = ofMap (taskDst cfg w t) := by
  by_cases hdry : cfg.dryRun = true
  · have : stepsOfH cfg thr ch sfx h (w.dst.get? t.rel) t = [] := by unfold stepsOfH; simp [hdry]
    rw [this]; unfold taskDst; rw [perform_dry _ _ _ hdry]; rfl
  have hdry : cfg.dryRun = false := by simpa using hdry
  by_cases hw : t.writes
  · -- create / update
    have hpar := hf.parents hw
    obtain ⟨d, hd⟩ := mkdirAll_ok w.dst (parentOf t.rel)
      (fun x hx hp => hpar x (mem_ancestors_parentOf hx hp))
    have hdget := mkdirAll_get _ _ d hd
    have hdp : d.get? t.rel = w.dst.get? t.rel := by
      rw [hdget]
      by_cases h0 : t.rel = []
      · simp [h0]
      · simp [not_prefix_parentOf h0]
    have hchain : applyAll (mkdirChain t.rel) (ofMap w.dst) = ofMap d := by
      rw [mkdirChain_eq_dirSteps]; exact dirSteps_refines _ _ d hd
    have hclosed : w.dst.get? t.rel ≠ none → ofMap d = ofMap w.dst := by
      intro hne
      apply ofMap_congr
      intro x
      rw [hdget]
      split
      · rename_i hx
        exact (hf.tree hw hne x (mem_ancestors_parentOf hx.1 hx.2)).symm
      · rfl
    cases hpay : t.payload with
    | nothing =>
      have : stepsOfH cfg thr ch sfx h (w.dst.get? t.rel) t = [] := by
        unfold stepsOfH; rcases hw with h' | h' <;> simp [hdry, h', hpay]
      rw [this]; unfold taskDst; rw [perform_nothing _ _ _ hw hpay]; rfl
    | dir =>
      -- both directory tasks are `create_dir_all` on `dirBase`: the destination itself for a creation, the
      -- destination with a link at the path unlinked for an update (fix 862af11)
      have hbase : applyAll (stepsOfH cfg thr ch sfx h (w.dst.get? t.rel) t) (ofMap w.dst) =
          applyAll (dirSteps t.rel) (ofMap (dirBase t.act w.dst t.rel)) := by
        rcases hw with hact | hact
        · have : stepsOfH cfg thr ch sfx h (w.dst.get? t.rel) t = dirSteps t.rel := by
            unfold stepsOfH; simp [hdry, hact, hpay]
          rw [this, dirBase_of_ne_update _ _ _ (by rw [hact]; simp)]
        · have : stepsOfH cfg thr ch sfx h (w.dst.get? t.rel) t =
              Step.unlinkIfSymlink t.rel :: dirSteps t.rel := by
            unfold stepsOfH; simp [hdry, hact, hpay]
          rw [this, applyAll_cons]
          congr 1
          rw [apply_single _ rfl]
          simp only [Step.path, dirBase, hact, ↓reduceIte, unlinkLink]
          cases hg : w.dst.get? t.rel with
          | none =>
            simp only [ofMap_apply, hg, Option.map_none, Step.nodeFn]
            rw [← ofMap_eq_none.mpr hg, upd_self]
          | some v =>
            cases v with
            | symlink s' =>
              simp only [ofMap_apply, hg, Option.map_some, embed, Step.nodeFn]
              rw [ofMap_erase]
            | dir =>
              simp only [ofMap_apply, hg, Option.map_some, embed, Step.nodeFn]
              have : ofMap w.dst t.rel = some .dir := by simp [ofMap_apply, hg, embed]
              rw [← this, upd_self]
            | file o =>
              simp only [ofMap_apply, hg, Option.map_some, embed, Step.nodeFn]
              have : ofMap w.dst t.rel = some (.file o.content o.size o.mtime) := by simp [ofMap_apply, hg, embed]
              rw [← this, upd_self]
      rw [hbase, taskDst_eq_getD, perform_dir _ _ _ hw hdry hpay]
      -- from here on the proof is about `dirBase`, which has the same ancestors as `w.dst`
      have hparB : ∀ q ∈ ancestors t.rel, (dirBase t.act w.dst t.rel).get? q = none ∨
          (dirBase t.act w.dst t.rel).get? q = some .dir := by
        intro q hq
        rw [dirBase_get?_ne _ _ _ _ (ancestors_ne hq)]; exact hpar q hq
      cases hm : mkdirAll (dirBase t.act w.dst t.rel) t.rel with
      | some d' => simpa using dirSteps_refines _ _ d' hm
      | none =>
        -- a failing `create_dir_all` means no link was dropped: `dirBase` is the destination itself
        have hB : dirBase t.act w.dst t.rel = w.dst := by
          by_cases hu : t.act = .update
          · by_cases hl : ∃ s, w.dst.get? t.rel = some (.symlink s)
            · exfalso
              obtain ⟨s', hs'⟩ := hl
              obtain ⟨x, hx0, hxp, hxn, hxd⟩ := mkdirAll_none _ _ hm
              rcases prefix_cases hx0 hxp with hx | hx
              · rcases hparB x hx with h' | h'
                · exact absurd h' hxn
                · exact absurd h' hxd
              · rw [hx] at hxn
                apply hxn
                simp [dirBase, hu, unlinkLink, hs', Map.get?_erase_same]
            · exact dirBase_of_not_link _ _ _ (fun s hs => hl ⟨s, hs⟩)
          · exact dirBase_of_ne_update _ _ _ hu
        rw [hB] at hm ⊢
        simp only [Option.map_none, Option.getD_none]
        obtain ⟨x, hx0, hxp, hxn, hxd⟩ := mkdirAll_none _ _ hm
        have hxe : x = t.rel := by
          rcases prefix_cases hx0 hxp with hx | hx
          · rcases hpar x hx with h' | h'
            · exact absurd h' hxn
            · exact absurd h' hxd
          · exact hx
        rw [hxe] at hx0 hxn hxd
        rw [dirSteps_eq_chain hx0, applyAll_append, hchain, hclosed hxn]
        simp only [applyAll_cons, applyAll_nil, apply_mkdir]
        cases hg : ofMap w.dst t.rel with
        | none => exact absurd (ofMap_eq_none.mp hg) hxn
        | some v => simp only; rw [← hg, upd_self]
    | symlink text =>
      have : stepsOfH cfg thr ch sfx h (w.dst.get? t.rel) t = symlinkSteps (w.dst.get? t.rel) t.rel text := by
        unfold stepsOfH; rcases hw with h' | h' <;> simp [hdry, h', hpay]
      rw [this, taskDst_eq_getD, perform_symlink _ _ _ hw hdry text hpay]
      unfold symlinkSteps
      rw [List.append_assoc, applyAll_append, hchain]
      rcases writeSymlink_dst w t.rel text d hd with ⟨hdir, hnone⟩ | ⟨hnd, w', hsome, hdst⟩
      · rw [hnone]
        simp only [Option.map_none, Option.getD_none]
        rw [hdp] at hdir
        rw [hclosed (by rw [hdir]; simp), hdir]
        simp only [List.nil_append, applyAll_cons, applyAll_nil]
        rw [apply_single _ rfl]
        simp only [Step.path, ofMap_eq_dir.mpr hdir, Step.nodeFn]
        rw [← ofMap_eq_dir.mpr hdir, upd_self]
      · rw [hsome]
        simp only [Option.map_some, Option.getD_some, hdst]
        rw [hdp] at hnd
        rw [ofMap_set]
        have hsym : applyAll [Step.symlink t.rel text] (ofMap d) =
            upd (ofMap d) t.rel (nodeRun t.rel [Step.symlink t.rel text] (ofMap d t.rel)) :=
          applyAll_atP (atP_cons rfl rfl (atP_nil _)) _
        have hunl : applyAll [Step.unlink t.rel, Step.symlink t.rel text] (ofMap d) =
            upd (ofMap d) t.rel (nodeRun t.rel [Step.unlink t.rel, Step.symlink t.rel text] (ofMap d t.rel)) :=
          applyAll_atP (p := t.rel) (atP_cons (s := Step.unlink t.rel) rfl rfl
            (atP_cons (s := Step.symlink t.rel text) rfl rfl (atP_nil _))) _
        cases hg : w.dst.get? t.rel with
        | none =>
          simp only [List.nil_append]
          rw [hsym, ofMap_apply, hdp, hg]; simp [Step.path, Step.nodeFn, embed]
        | some v =>
          cases v with
          | dir => exact absurd hg hnd
          | file o =>
            simp only [List.singleton_append]
            rw [hunl, ofMap_apply, hdp, hg]; simp [Step.path, Step.nodeFn, embed]
          | symlink s' =>
            simp only [List.singleton_append]
            rw [hunl, ofMap_apply, hdp, hg]; simp [Step.path, Step.nodeFn, embed]
    | file m n =>
      rw [taskDst_eq_getD, perform_file _ _ _ hw hdry m n hpay (hf.noLinkMember hw m n hpay)]
      rcases fileSteps_shape (thr := thr) (ch := ch) (sfx := sfx) (h := h) (old := w.dst.get? t.rel)
          hpay hdry hw with ⟨T, hT, hL⟩ | ⟨T, d0, hold, hT, hL⟩ | ⟨d0, hold, hu, hL⟩
      · rw [hL, hchain]
        rcases writeFile_dst cfg w t.rel m d hd with ⟨hdir, hnone⟩ | ⟨hnd, w', node, hsome, hdst, hemb⟩
        · rw [hnone, (writes_result hT d).1 hdir]
          simp only [Option.map_none, Option.getD_none]
          rw [hdp] at hdir
          exact hclosed (by rw [hdir]; simp)
        · rw [hsome, (writes_result hT d).2 hnd node hemb]
          simp [hdst]
      · rw [hL, ← hclosed (by rw [hold]; simp)]
        rcases writeFile_dst cfg w t.rel m d hd with ⟨hdir, hnone⟩ | ⟨hnd, w', node, hsome, hdst, hemb⟩
        · rw [hdp, hold] at hdir; cases hdir
        · rw [hsome, (writes_result hT d).2 hnd node hemb]
          simp [hdst]
      · obtain ⟨htmp, hne⟩ := hf.tempFree hu
        rw [hL]
        rcases writeFile_dst cfg w t.rel m d hd with ⟨hdir, hnone⟩ | ⟨hnd, w', node, hsome, hdst, hemb⟩
        · rw [hdp, hold] at hdir; cases hdir
        · rw [hsome]
          simp only [Option.map_some, Option.getD_some, hdst]
          rw [ofMap_set, hemb, hclosed (by rw [hold]; simp)]
          exact delta_result sfx t.rel m (ofMap w.dst) d0.content d0.size d0.mtime
            (by simp [ofMap, hold, embed]) (ofMap_eq_none.mpr htmp) hne
  · -- skip / delete
    have hsd : t.act = .skip ∨ t.act = .delete := by
      unfold Task.writes at hw
      cases hact : t.act <;> simp [hact] at hw ⊢
    rcases hsd with hact | hact
    · rw [stepsOfH_skip hact]; unfold taskDst; rw [perform_skip _ _ _ hact]; rfl
    · rw [taskDst_delete _ _ _ hact hdry]
      unfold stepsOfH
      simp only [hdry, hact, Bool.false_eq_true, ↓reduceIte]
      cases hg : w.dst.get? t.rel with
      | none => rfl
      | some v =>
        have hun : v ≠ .dir → applyAll [Step.unlink t.rel] (ofMap w.dst) = ofMap (w.dst.erase t.rel) := by
          intro hv
          simp only [applyAll_cons, applyAll_nil]
          rw [apply_single _ rfl, ofMap_erase]
          simp only [Step.path]
          rw [unlink_nodeFn]
          intro hc
          have := ofMap_eq_dir.mp hc
          rw [hg] at this
          exact hv (by simpa using this)
        cases v with
        | dir => simp [apply_removeTree, ofMap_eraseSubtree]
        | file o => exact hun (by simp)
        | symlink s => exact hun (by simp)

/-! ### stale `old` nodes: what the step lists of a run were compiled against -/

/-- the step list of a skip, or of a directory creation, does not depend on `old` -/
theorem stepsOfH_old_irrel {cfg : Cfg} {thr ch : Nat} {sfx : String} {h : Hint} {t : Task}
    (ht : t.act = .skip ∨ (t.payload = .dir ∧ t.act ≠ .delete)) (old old' : Option DNode) :
    stepsOfH cfg thr ch sfx h old t = stepsOfH cfg thr ch sfx h old' t := by
  rcases ht with hs | ⟨hp, hd⟩
  · rw [stepsOfH_skip hs, stepsOfH_skip hs]
  · unfold stepsOfH
    cases hact : t.act with
    | delete => exact absurd hact hd
    | skip => simp
    | create => simp [hp]
    | update => simp [hp]

/-- a delete task whose target went away with an ancestor: the steps compiled against the initial
    destination are no-ops, like the entry-level task (`NotFound` is tolerated) -/
theorem delete_gone {cfg : Cfg} {thr : Nat} (ch : Nat) {sfx : String} {h : Hint} {w : World} {t : Task}
    (hact : t.act = .delete) (hgone : ∀ x, isPrefix t.rel x = true → w.dst.get? x = none)
    (old : Option DNode) :
    applyAll (stepsOfH cfg thr ch sfx h old t) (ofMap w.dst) = ofMap w.dst ∧ taskDst cfg w t = w.dst := by
  have hp : w.dst.get? t.rel = none := hgone _ (isPrefix_refl _)
  constructor
  · unfold stepsOfH
    split
    · rfl
    simp only [hact]
    cases old with
    | none => rfl
    | some v =>
      have hun : applyAll [Step.unlink t.rel] (ofMap w.dst) = ofMap w.dst := by
        simp only [applyAll_cons, applyAll_nil]
        rw [apply_single _ rfl]
        simp only [Step.path, ofMap_eq_none.mpr hp, Step.nodeFn]
        rw [← ofMap_eq_none.mpr hp, upd_self]
      cases v with
      | dir =>
        simp only [applyAll_cons, applyAll_nil, apply_removeTree]
        funext x
        split
        · rename_i hx; exact (ofMap_eq_none.mpr (hgone x hx)).symm
        · rfl
      | file o => exact hun
      | symlink s => exact hun
  · by_cases hdry : cfg.dryRun = true
    · unfold taskDst; rw [perform_dry _ _ _ hdry]
    · rw [taskDst_delete _ _ _ hact (by simpa using hdry), hp]

/-! ### what one entry-level task changes, path by path -/

theorem set_after_mkdir_get {dst d : Map DNode} {p : Path} (hd : mkdirAll dst (parentOf p) = some d)
    (v : DNode) (x : Path) :
    (d.set p v).get? x = if x = p then some v else
      if x ≠ [] ∧ isPrefix x (parentOf p) = true then some .dir else dst.get? x := by
  by_cases hx : x = p
  · subst hx; simp
  · rw [Map.get?_set_ne _ _ _ _ (Ne.symm hx), mkdirAll_get _ _ d hd]; simp [hx]

theorem writeFile_shape (cfg : Cfg) (w : World) (p : Path) (m : FileMeta) :
    (writeFile cfg w p m).map (·.dst) = none ∨
    ∃ d v, mkdirAll w.dst (parentOf p) = some d ∧ (writeFile cfg w p m).map (·.dst) = some (d.set p v) := by
  cases hm : mkdirAll w.dst (parentOf p) with
  | none => left; unfold writeFile; simp [hm]
  | some d =>
    rcases writeFile_dst cfg w p m d hm with ⟨_, h⟩ | ⟨_, w', node, h, hdst, _⟩
    · left; rw [h]; rfl
    · right; exact ⟨d, .file node, rfl, by rw [h]; simp [hdst]⟩

theorem writeSymlink_shape (w : World) (p : Path) (text : String) :
    (writeSymlink w p text).map (·.dst) = none ∨
    ∃ d v, mkdirAll w.dst (parentOf p) = some d ∧ (writeSymlink w p text).map (·.dst) = some (d.set p v) := by
  cases hm : mkdirAll w.dst (parentOf p) with
  | none => left; unfold writeSymlink; simp [hm]
  | some d =>
    rcases writeSymlink_dst w p text d hm with ⟨_, h⟩ | ⟨_, w', h, hdst⟩
    · left; rw [h]; rfl
    · right; exact ⟨d, .symlink text, rfl, by rw [h]; simp [hdst]⟩

/-- Path by path, a task leaves the entry alone, or turns a prefix of its path — together with all
    prefixes of that prefix — into a directory, or rewrites its own path, or removes what is at or
    below its path. -/
theorem taskDst_effect (cfg : Cfg) (w : World) (t : Task)
    (hl : t.writes → ∀ m n, t.payload = .file m n → cfg.hardlinks = true → 1 < n →
      w.linkMap.find? (·.1 == m.ino) = none) (x : Path) :
    (taskDst cfg w t).get? x = w.dst.get? x ∨
    (t.writes ∧ isPrefix x t.rel = true ∧ (x ≠ t.rel ∨ t.payload = .dir) ∧
      ∀ q, q ≠ [] → isPrefix q x = true → (taskDst cfg w t).get? q = some .dir) ∨
    (t.writes ∧ x = t.rel ∧ t.payload ≠ .dir) ∨
    (t.act = .delete ∧ isPrefix t.rel x = true ∧ (taskDst cfg w t).get? x = none ∧
      (x = t.rel ∨ ∀ y, isPrefix t.rel y = true → (taskDst cfg w t).get? y = none)) := by
  by_cases hdry : cfg.dryRun = true
  · left; unfold taskDst; rw [perform_dry _ _ _ hdry]
  have hdry : cfg.dryRun = false := by simpa using hdry
  by_cases hw : t.writes
  · -- the common shape of a successful file / symlink write
    have hset : ∀ d v, mkdirAll w.dst (parentOf t.rel) = some d → t.payload ≠ .dir →
        taskDst cfg w t = d.set t.rel v →
        (taskDst cfg w t).get? x = w.dst.get? x ∨
        (t.writes ∧ isPrefix x t.rel = true ∧ (x ≠ t.rel ∨ t.payload = .dir) ∧
          ∀ q, q ≠ [] → isPrefix q x = true → (taskDst cfg w t).get? q = some .dir) ∨
        (t.writes ∧ x = t.rel ∧ t.payload ≠ .dir) := by
      intro d v hd hnd he
      rw [he]
      by_cases hx : x = t.rel
      · exact Or.inr (Or.inr ⟨hw, hx, hnd⟩)
      · rw [set_after_mkdir_get hd]
        simp only [hx, ↓reduceIte]
        by_cases hc : x ≠ [] ∧ isPrefix x (parentOf t.rel) = true
        · right; left
          have hanc := mem_ancestors_parentOf hc.1 hc.2
          refine ⟨hw, ancestors_prefix hanc, Or.inl hx, ?_⟩
          intro q hq hqx
          have hqp : isPrefix q (parentOf t.rel) = true := isPrefix_trans hqx hc.2
          have hqa := mem_ancestors_parentOf hq hqp
          rw [set_after_mkdir_get hd]
          simp [ancestors_ne hqa, hq, hqp]
        · left; simp [hc]
    cases hpay : t.payload with
    | nothing => left; unfold taskDst; rw [perform_nothing _ _ _ hw hpay]
    | dir =>
      rw [taskDst_eq_getD, perform_dir _ _ _ hw hdry hpay]
      cases hm : mkdirAll (dirBase t.act w.dst t.rel) t.rel with
      | none => left; rfl
      | some d =>
        simp only [Option.map_some, Option.getD_some]
        have hg := mkdirAll_get _ _ d hm
        by_cases hc : x ≠ [] ∧ isPrefix x t.rel = true
        · right; left
          refine ⟨hw, hc.2, Or.inr trivial, ?_⟩
          intro q hq hqx
          rw [hg]; simp [hq, isPrefix_trans hqx hc.2]
        · by_cases hxr : x = t.rel
          · -- only the root `[]` is a prefix of itself and yet not covered above: nothing happens there unless a
            -- (degenerate) link at the root is dropped — then every prefix condition is vacuous
            have hx0 : x = [] := by
              apply Classical.byContradiction
              intro hx0; exact hc ⟨hx0, hxr ▸ isPrefix_refl _⟩
            right; left
            refine ⟨hw, hxr ▸ isPrefix_refl _, Or.inr trivial, ?_⟩
            intro q hq hqx
            rw [hx0] at hqx
            cases q with
            | nil => exact absurd rfl hq
            | cons a r => simp [isPrefix] at hqx
          · left; rw [hg]; simp only [hc, ↓reduceIte]; exact dirBase_get?_ne _ _ _ _ hxr
    | symlink text =>
      have hnd : t.payload ≠ .dir := by rw [hpay]; simp
      have he : taskDst cfg w t = ((writeSymlink w t.rel text).map (·.dst)).getD w.dst := by
        rw [taskDst_eq_getD, perform_symlink _ _ _ hw hdry text hpay]
      rcases writeSymlink_shape w t.rel text with h | ⟨d, v, hd, h⟩
      · left; rw [he, h]; rfl
      · rw [← hpay]
        rcases hset d v hd hnd (by rw [he, h]; rfl) with h' | h' | h'
        · exact Or.inl h'
        · exact Or.inr (Or.inl h')
        · exact Or.inr (Or.inr (Or.inl h'))
    | file m n =>
      have hnd : t.payload ≠ .dir := by rw [hpay]; simp
      have he : taskDst cfg w t = ((writeFile cfg w t.rel m).map (·.dst)).getD w.dst := by
        rw [taskDst_eq_getD, perform_file _ _ _ hw hdry m n hpay (hl hw m n hpay)]
      rcases writeFile_shape cfg w t.rel m with h | ⟨d, v, hd, h⟩
      · left; rw [he, h]; rfl
      · rw [← hpay]
        rcases hset d v hd hnd (by rw [he, h]; rfl) with h' | h' | h'
        · exact Or.inl h'
        · exact Or.inr (Or.inl h')
        · exact Or.inr (Or.inr (Or.inl h'))
  · have hsd : t.act = .skip ∨ t.act = .delete := by
      unfold Task.writes at hw
      cases hact : t.act <;> simp [hact] at hw ⊢
    rcases hsd with hact | hact
    · left; unfold taskDst; rw [perform_skip _ _ _ hact]
    · rw [taskDst_delete _ _ _ hact hdry]
      cases hg : w.dst.get? t.rel with
      | none => left; rfl
      | some v =>
        have her : (w.dst.erase t.rel).get? x = w.dst.get? x ∨
            (t.act = .delete ∧ isPrefix t.rel x = true ∧ (w.dst.erase t.rel).get? x = none ∧
              (x = t.rel ∨ ∀ y, isPrefix t.rel y = true → (w.dst.erase t.rel).get? y = none)) := by
          by_cases hx : x = t.rel
          · right; subst hx
            exact ⟨hact, isPrefix_refl _, Map.get?_erase_same _ _, Or.inl rfl⟩
          · left; exact Map.get?_erase_ne _ _ _ (Ne.symm hx)
        cases v with
        | dir =>
          simp only [Map.get?_eraseSubtree]
          by_cases hx : isPrefix t.rel x = true
          · right; right; right
            refine ⟨hact, hx, by simp [hx], Or.inr ?_⟩
            intro y hy; simp [hy]
          · left; simp [hx]
        | file o =>
          rcases her with h' | h'
          · exact Or.inl h'
          · exact Or.inr (Or.inr (Or.inr h'))
        | symlink s =>
          rcases her with h' | h'
          · exact Or.inl h'
          · exact Or.inr (Or.inr (Or.inr h'))

/-! ### runs -/

/-- the destination map is a tree: an existing entry has all its ancestors, as directories -/
def Closed (dst : Map DNode) : Prop :=
  ∀ x, dst.get? x ≠ none → ∀ q ∈ ancestors x, dst.get? q = some .dir

/-- under `-H` no task carries a member of a source hard-link group (sufficient for `NoLinkTasks`) -/
def NoLinkGroups (cfg : Cfg) (tasks : List Task) : Prop :=
  ∀ t ∈ tasks, ∀ m n, t.payload = .file m n → cfg.hardlinks = true → n ≤ 1

/-- no task of the list goes through the hard-link protocol: no create / update of a regular file
    with more than one name under `-H` (`isLinkTask`).  Members of link groups that are up to date
    (planned as `skip`) or deleted are fine. -/
def NoLinkTasks (cfg : Cfg) (tasks : List Task) : Prop := ∀ t ∈ tasks, isLinkTask cfg t = false

theorem not_linkTask_member {cfg : Cfg} {t : Task} (h : isLinkTask cfg t = false) (hw : t.writes)
    {m : FileMeta} {n : Nat} (hpay : t.payload = .file m n) (hH : cfg.hardlinks = true) (hn : 1 < n) :
    False := by
  unfold isLinkTask at h
  rcases hw with hc | hu
  · simp [hc, hpay, hH, hn] at h
  · simp [hu, hpay, hH, hn] at h

theorem noLinkTasks_of_noLinkGroups {cfg : Cfg} {tasks : List Task} (h : NoLinkGroups cfg tasks) :
    NoLinkTasks cfg tasks := by
  intro t ht
  have key : ∀ m n, t.payload = .file m n → (cfg.hardlinks && decide (1 < n)) = false := by
    intro m n hpay
    cases hH : cfg.hardlinks with
    | false => rfl
    | true =>
      have := h t ht m n hpay hH
      simp; omega
  unfold isLinkTask
  split
  · rename_i m n hact hpay; exact key m n hpay
  · rename_i m n hact hpay; exact key m n hpay
  · rfl

theorem noLinkTasks_of_hardlinks_off {cfg : Cfg} (tasks : List Task) (h : cfg.hardlinks = false) :
    NoLinkTasks cfg tasks := by
  intro t _
  unfold isLinkTask
  split <;> simp [h]

/-- the hypotheses of the run-level refinement, on the plan and the INITIAL destination -/
structure RunOK (cfg : Cfg) (sfx : String) (tasks : List Task) (dst : Map DNode) : Prop where
  plan : PlanOK tasks
  fresh : TempFresh sfx tasks (ofMap dst)
  closed : Closed dst
  parents : ∀ t ∈ tasks, t.writes → ∀ q ∈ ancestors t.rel, dst.get? q = none ∨ dst.get? q = some .dir
  noLinks : NoLinkTasks cfg tasks

/-- what a task still to be run needs from the current destination `cur` (`dst0`: the destination
    the step lists were compiled against) -/
structure Pending (sfx : String) (dst0 cur : Map DNode) (t : Task) : Prop where
  parents : t.writes → ∀ q ∈ ancestors t.rel, cur.get? q = none ∨ cur.get? q = some .dir
  tree : t.writes → cur.get? t.rel ≠ none → ∀ q ∈ ancestors t.rel, cur.get? q = some .dir
  old : t.writes → t.payload ≠ .dir → cur.get? t.rel = dst0.get? t.rel
  temp : t.mayDelta → cur.get? (tempOf sfx t.rel) = none
  del : t.act = .delete →
    cur.get? t.rel = dst0.get? t.rel ∨ ∀ x, isPrefix t.rel x = true → cur.get? x = none

theorem Task.writes.ne_delete {t : Task} (h : t.writes) : t.act ≠ .delete := by
  rcases h with h | h <;> rw [h] <;> simp

theorem Task.writes.ne_skip {t : Task} (h : t.writes) : t.act ≠ .skip := by
  rcases h with h | h <;> rw [h] <;> simp

theorem usesDelta_mayDelta {cfg : Cfg} {thr : Nat} {h : Hint} {old : Option DNode} {t : Task}
    (hu : usesDelta cfg thr h old t = true) : t.mayDelta := by
  unfold usesDelta at hu
  simp only [Bool.and_eq_true, Bool.not_eq_true', beq_iff_eq] at hu
  refine ⟨hu.1.2, ?_⟩
  have := hu.2
  split at this
  · rename_i hpay; simp [hpay, Payload.isFile]
  · cases this

theorem pending_init {cfg : Cfg} {sfx : String} {tasks : List Task} {dst : Map DNode}
    (h : RunOK cfg sfx tasks dst) {t : Task} (ht : t ∈ tasks) : Pending sfx dst dst t where
  parents := h.parents t ht
  tree := fun _ hne => h.closed t.rel hne
  old := fun _ _ => rfl
  temp := fun hm => ofMap_eq_none.mp (h.fresh.notExisting t ht hm)
  del := fun _ => Or.inl rfl

/-- running another task `t'` of the plan keeps what a pending task `t` needs -/
theorem pending_step {cfg : Cfg} {sfx : String} {tasks : List Task} {w0 : SWorld} {dst0 : Map DNode}
    (hok : PlanOK tasks) (hf : TempFresh sfx tasks w0) {t t' : Task} (ht : t ∈ tasks) (ht' : t' ∈ tasks)
    (hne : t'.rel ≠ t.rel) (w : World)
    (hl : t'.writes → ∀ m n, t'.payload = .file m n → cfg.hardlinks = true → 1 < n →
      w.linkMap.find? (·.1 == m.ino) = none)
    (hp : Pending sfx dst0 w.dst t) : Pending sfx dst0 (taskDst cfg w t') t := by
  have E := taskDst_effect cfg w t' hl
  -- a pending write below a path that `t'` rewrites as a file / link
  have F1 : t.writes → ∀ q, isPrefix q t.rel = true → t'.writes → q = t'.rel → t'.payload ≠ .dir → False := by
    intro hw q hq hw' hqe hnd
    have := hok.tree t ht t' ht' (Ne.symm hne) (fun h => absurd h hnd) hw'.ne_delete hw'.ne_skip
    rw [← hqe, hq] at this; cases this
  -- a pending write below a path that `t'` deletes
  have F2 : t.writes → ∀ y, isPrefix t'.rel y = true → isPrefix y t.rel = true → t'.act = .delete → False := by
    intro hw y h1 h2 hd
    have := hok.delClear t' ht' hd t ht hw.ne_delete hw.ne_skip
    rw [isPrefix_trans h1 h2] at this; cases this
  -- a pending delete above a path that `t'` writes
  have F3 : t.act = .delete → ∀ y, isPrefix t.rel y = true → isPrefix y t'.rel = true → t'.writes → False := by
    intro hd y h1 h2 hw'
    have := hok.delClear t ht hd t' ht' hw'.ne_delete hw'.ne_skip
    rw [isPrefix_trans h1 h2] at this; cases this
  constructor
  · -- parents
    intro hw q hq
    rcases E q with h | ⟨_, _, _, h⟩ | ⟨hw', hqe, hnd⟩ | ⟨_, _, h, _⟩
    · rw [h]; exact hp.parents hw q hq
    · exact Or.inr (h q (ancestors_ne_nil hq) (isPrefix_refl _))
    · exact (F1 hw q (ancestors_prefix hq) hw' hqe hnd).elim
    · exact Or.inl h
  · -- tree
    intro hw hex q hq
    rcases E t.rel with h | ⟨_, _, _, h⟩ | ⟨_, he, _⟩ | ⟨_, _, h, _⟩
    · rw [h] at hex
      have hq0 := hp.tree hw hex q hq
      rcases E q with h' | ⟨_, _, _, h'⟩ | ⟨hw', hqe, hnd⟩ | ⟨hd', hpre, _, _⟩
      · rw [h']; exact hq0
      · exact h' q (ancestors_ne_nil hq) (isPrefix_refl _)
      · exact (F1 hw q (ancestors_prefix hq) hw' hqe hnd).elim
      · exact (F2 hw q hpre (ancestors_prefix hq) hd').elim
    · exact h q (ancestors_ne_nil hq) (ancestors_prefix hq)
    · exact absurd he.symm hne
    · exact absurd h hex
  · -- old
    intro hw hnd
    rcases E t.rel with h | ⟨hw', hpre, _, _⟩ | ⟨_, he, _⟩ | ⟨hd', hpre, _, _⟩
    · rw [h]; exact hp.old hw hnd
    · have := hok.tree t' ht' t ht hne (fun h => absurd h hnd) hw.ne_delete hw.ne_skip
      rw [hpre] at this; cases this
    · exact absurd he.symm hne
    · exact (F2 hw t.rel hpre (isPrefix_refl _) hd').elim
  · -- temp
    intro hm
    rcases E (tempOf sfx t.rel) with h | ⟨_, hpre, _, _⟩ | ⟨_, he, _⟩ | ⟨_, _, h, _⟩
    · rw [h]; exact hp.temp hm
    · have := hf.notPlanned t ht hm t' ht'
      rw [hpre] at this; cases this
    · have := hf.notPlanned t ht hm t' ht'
      rw [← he, isPrefix_refl] at this; cases this
    · exact h
  · -- del
    intro hd
    rcases hp.del hd with heq | hgone
    · rcases E t.rel with h | ⟨hw', hpre, _, _⟩ | ⟨_, he, _⟩ | ⟨_, hpre, _, h⟩
      · left; rw [h]; exact heq
      · exact (F3 hd t.rel (isPrefix_refl _) hpre hw').elim
      · exact absurd he.symm hne
      · rcases h with h | h
        · exact absurd h.symm hne
        · right; intro x hx; exact h x (isPrefix_trans hpre hx)
    · right
      intro x hx
      rcases E x with h | ⟨hw', hpre, _, _⟩ | ⟨hw', he, _⟩ | ⟨_, _, h, _⟩
      · rw [h]; exact hgone x hx
      · exact (F3 hd x hx hpre hw').elim
      · exact (F3 hd x hx (by rw [he]; exact isPrefix_refl _) hw').elim
      · exact h

/-- a pending task of a well-formed run fits the destination it finds -/
theorem pending_fits {cfg : Cfg} {thr : Nat} {sfx : String} {tasks : List Task} {dst0 : Map DNode}
    (h : RunOK cfg sfx tasks dst0) {t : Task} (ht : t ∈ tasks) (hh : Hint) (w : World)
    (hp : Pending sfx dst0 w.dst t) : TaskFits cfg thr sfx hh w t where
  parents := hp.parents
  tree := hp.tree
  tempFree := by
    intro hu
    have hm := usesDelta_mayDelta hu
    refine ⟨hp.temp hm, ?_⟩
    intro he
    have := h.fresh.notPlanned t ht hm t ht
    rw [he, isPrefix_refl] at this; cases this
  noLinkMember := by
    intro hw m n hpay hH hn
    exact (not_linkTask_member (h.noLinks t ht) hw hpay hH hn).elim

/-- one task of a run: the step list compiled against the INITIAL destination refines the
    entry-level task on the CURRENT destination -/
theorem run_step {cfg : Cfg} {thr : Nat} (ch : Nat) {sfx : String} {tasks : List Task} {dst0 : Map DNode}
    (h : RunOK cfg sfx tasks dst0) {t : Task} (ht : t ∈ tasks) (hh : Hint) (w : World)
    (hp : Pending sfx dst0 w.dst t) :
    applyAll (stepsOfH cfg thr ch sfx hh (dst0.get? t.rel) t) (ofMap w.dst) = ofMap (taskDst cfg w t) := by
  have hfit : TaskFits cfg thr sfx hh w t := pending_fits h ht hh w hp
  by_cases hw : t.writes
  · by_cases hd : t.payload = .dir
    · rw [stepsOfH_old_irrel (Or.inr ⟨hd, hw.ne_delete⟩) _ (w.dst.get? t.rel)]
      exact task_refines ch hfit
    · rw [← hp.old hw hd]; exact task_refines ch hfit
  · have hsd : t.act = .skip ∨ t.act = .delete := by
      unfold Task.writes at hw
      cases hact : t.act <;> simp [hact] at hw ⊢
    rcases hsd with hact | hact
    · rw [stepsOfH_old_irrel (Or.inl hact) _ (w.dst.get? t.rel)]
      exact task_refines ch hfit
    · rcases hp.del hact with heq | hgone
      · rw [← heq]; exact task_refines ch hfit
      · obtain ⟨h1, h2⟩ := delete_gone (cfg := cfg) (thr := thr) ch (sfx := sfx) (h := hh) hact hgone
          (dst0.get? t.rel)
        rw [h1, h2]

theorem taskLists_eq_map {cfg : Cfg} {thr ch : Nat} {sfx : String} {hint : Task → Hint} {dst : Map DNode}
    {tasks : List Task} (hnl : NoLinkTasks cfg tasks) :
    taskLists cfg thr ch sfx hint dst tasks =
      tasks.map fun t => stepsOfH cfg thr ch sfx (hint t) (dst.get? t.rel) t := by
  unfold taskLists
  congr 1
  rw [List.filter_eq_self]
  intro t ht
  simp [hnl t ht]

/-- the sequential concatenation of the step lists refines the fold of `execTask` -/
theorem run_refines_aux {cfg : Cfg} {thr : Nat} (ch : Nat) {sfx : String} {tasks : List Task}
    {dst0 : Map DNode} (h : RunOK cfg sfx tasks dst0) (hint : Task → Hint) :
    ∀ (rest : List Task) (st : Exec), (∀ t ∈ rest, t ∈ tasks) →
      rest.Pairwise (fun a b => a.rel ≠ b.rel) → (∀ t ∈ rest, Pending sfx dst0 st.w.dst t) →
      applyAll (rest.map fun t => stepsOfH cfg thr ch sfx (hint t) (dst0.get? t.rel) t).flatten
          (ofMap st.w.dst) =
        ofMap (rest.foldl (execTask cfg noFaults) st).w.dst := by
  intro rest
  induction rest with
  | nil => intro st _ _ _; rfl
  | cons t rest ih =>
    intro st hmem hpw hpend
    simp only [List.map_cons, List.flatten_cons, applyAll_append, List.foldl_cons]
    have ht : t ∈ tasks := hmem t (by simp)
    rw [run_step ch h ht (hint t) st.w (hpend t (by simp)), ← execTask_noFaults_dst]
    apply ih
    · intro u hu; exact hmem u (by simp [hu])
    · exact (List.pairwise_cons.mp hpw).2
    · intro u hu
      rw [execTask_noFaults_dst]
      have hne : t.rel ≠ u.rel := (List.pairwise_cons.mp hpw).1 u hu
      apply pending_step h.plan h.fresh (hmem u (by simp [hu])) ht hne st.w
      · intro hw m n hpay hH hn
        exact (not_linkTask_member (h.noLinks t ht) hw hpay hH hn).elim
      · exact hpend u (by simp [hu])

/-- **Refinement of a run** (any task list): the step lists of the tasks, one after the other in
    task order, executed on the step-level view of the destination, yield the step-level view of the
    destination after the fault-free entry-level fold of `execTask`. -/
theorem tasks_run_refines {cfg : Cfg} {thr : Nat} (ch : Nat) {sfx : String} {tasks : List Task}
    {dst : Map DNode} (h : RunOK cfg sfx tasks dst) (hint : Task → Hint) (nextIno : Nat) :
    applyAll (taskLists cfg thr ch sfx hint dst tasks).flatten (ofMap dst) =
      ofMap (tasks.foldl (execTask cfg noFaults) (initExec dst nextIno)).w.dst := by
  rw [taskLists_eq_map h.noLinks]
  exact run_refines_aux ch h hint tasks (initExec dst nextIno) (fun t ht => ht) h.plan.uniq
    (fun t ht => pending_init h ht)

/-! ### the planner -/

/-- the planner emits an `update` that carries a directory exactly for a directory entry over a destination
    symlink (the replacement of fix 862af11) -/
theorem planEntry_update_dir_iff (cfg : Cfg) (dst : Map DNode) (e : SEntry) :
    ((planEntry cfg dst e).act = .update ∧ (planEntry cfg dst e).payload = .dir) ↔
      (e.kind = .dir ∧ ∃ s, dst.get? e.rel = some (.symlink s)) := by
  unfold planEntry
  split
  · rename_i hk
    simp only [hk, true_and, and_true]
    split
    · rename_i hg; simp [hg]
    · rename_i s hg; simp [hg]
    · rename_i h1 h2
      simp only [reduceCtorEq, false_iff, not_exists]
      intro s hs; exact h2 s hs
  · rename_i m n hk; simp [hk]
  · rename_i text tgt hk
    simp only [hk, reduceCtorEq, false_and, iff_false, not_and]
    intro _
    split
    · simp
    · split <;> simp
    · split <;> simp

/-- every `update` with a directory payload in a plan replaces a destination symlink -/
theorem plan_update_dir_link (cfg : Cfg) (scan : List SEntry) (dst : Map DNode) :
    ∀ t ∈ plan cfg scan dst, t.act = .update → t.payload = .dir → ∃ s, dst.get? t.rel = some (.symlink s) := by
  intro t ht hu hp
  have hdel : t ∈ planDeletions (scanFilter cfg scan) scan dst → False := by
    intro h
    unfold planDeletions at h
    obtain ⟨p, _, rfl⟩ := List.mem_map.mp h
    cases hu
  have key : ∀ e, t = planEntry cfg dst e → ∃ s, dst.get? t.rel = some (.symlink s) := by
    intro e he
    subst he
    have hrel : (planEntry cfg dst e).rel = e.rel := by
      unfold planEntry
      split
      · rfl
      · rfl
      · split
        · rfl
        · split <;> rfl
        · split <;> rfl
    rw [hrel]
    exact ((planEntry_update_dir_iff cfg dst e).1 ⟨hu, hp⟩).2
  unfold plan at ht
  simp only at ht
  split at ht
  · rcases List.mem_append.mp ht with h | h
    · obtain ⟨e, _, rfl⟩ := List.mem_map.mp h; exact key e rfl
    · exact (hdel h).elim
  · obtain ⟨e, _, rfl⟩ := List.mem_map.mp ht; exact key e rfl

/-- a run that the deletion guard does not refuse is the fold of `execTask` over the plan -/
theorem run_dst_of_not_refused (cfg : Cfg) (scan : List SEntry) (dst : Map DNode) (nextIno : Nat)
    (h : (run cfg scan dst nextIno).refused = false) :
    (run cfg scan dst nextIno).dst =
      ((plan cfg scan dst).foldl (execTask cfg noFaults) (initExec dst nextIno)).w.dst := by
  unfold run runF at h ⊢
  simp only at h ⊢
  split
  · rename_i hg; simp [hg] at h
  · rfl

/-- a refused run leaves the destination alone -/
theorem run_dst_of_refused (cfg : Cfg) (scan : List SEntry) (dst : Map DNode) (nextIno : Nat)
    (h : (run cfg scan dst nextIno).refused = true) : (run cfg scan dst nextIno).dst = dst := by
  unfold run runF at h ⊢
  simp only at h ⊢
  split
  · rfl
  · rename_i hg; simp [hg] at h

/-! ### a decidable check for `Closed` (for examples) -/

def closedB (dst : Map DNode) : Bool :=
  dst.all fun kv => (ancestors kv.1).all fun q => dst.get? q == some .dir

theorem get?_mem {α : Type} {m : Map α} {x : Path} (h : m.get? x ≠ none) : ∃ v, (x, v) ∈ m := by
  induction m with
  | nil => simp at h
  | cons kv m ih =>
    rw [show kv = (kv.1, kv.2) from rfl, Map.get?_cons] at h
    split at h
    · rename_i he; exact ⟨kv.2, by rw [← he]; simp⟩
    · obtain ⟨v, hv⟩ := ih h; exact ⟨v, by simp [hv]⟩

theorem closed_of_closedB {dst : Map DNode} (h : closedB dst = true) : Closed dst := by
  intro x hx q hq
  obtain ⟨v, hv⟩ := get?_mem hx
  unfold closedB at h
  rw [List.all_eq_true] at h
  have := h (x, v) hv
  rw [List.all_eq_true] at this
  simpa using this q hq

end SyModel.Engine
